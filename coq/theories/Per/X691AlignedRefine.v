(** The implementation model of the ALIGNED PER encoder ([Per/PerImpl.v],
    compared bit for bit with asn1tools/codecs/per.py on every run) appends
    exactly what the aligned X.691 specification model ([Per/X691Aligned.v])
    prescribes, on a stated scope:

      per_refines_x691 :
        x691a_scope pe numeric e fuel t v = true ->
        penc_ty numeric e fuel t v st =
        match x691a_fields numeric e fuel t v with
        | Ok fs => Ok (pst_app st (serialise_aligned pe fs (fst st)))
        | Err err => Err err
        end

    for every Encoder state [st] (alignment is relative to the bits already in
    the Encoder object) and for both readings [pe] of "an empty octet-aligned
    bit-field".  Method: [refines m r] says that the state transformer [m]
    fails like [r] or appends the position-dependent bits [r]; it composes over
    [;;] ([refines_bind]); one lemma per clause, then induction on the fuel. *)
From Asn1V Require Import Base.Prelude Base.Sweep Base.Bits Base.BitsProofs Base.Utf8 Syntax.Asn1
     Per.UperImpl Per.UperPrim Per.UperPB Per.UperRT Per.PerImpl Per.PerPrim Per.PerRT
     Per.X691 Per.X691Refine Per.X691Aligned.

Ltac Zify.zify_post_hook ::= Z.div_mod_to_equations.
(** * Encoders that append position-dependent bits *)

(** [m] fails with [e], or appends [p (number of bits so far)] *)
Definition refines (m : penc) (r : result pbits) : Prop :=
  forall st, m st = match r with Ok p => Ok (pst_app st (p (fst st))) | Err e => Err e end.

Definition peq (p q : pbits) : Prop := forall pos, p pos = q pos.

Lemma refines_ext m p q : peq p q -> refines m (Ok p) -> refines m (Ok q).
Proof. intros H Hm st. rewrite Hm, H. reflexivity. Qed.

Lemma refines_enc_ext m1 m2 r : (forall st, m1 st = m2 st) -> refines m1 r -> refines m2 r.
Proof. intros H Hm st. rewrite <- H. apply Hm. Qed.

Lemma refines_emit b : refines (pemit b) (Ok (pconst b)).
Proof. intros st. reflexivity. Qed.

Lemma refines_fail e : refines (pfail e) (Err e).
Proof. intros st. reflexivity. Qed.

Lemma refines_align : refines palign_e (Ok pad).
Proof. intros st. unfold palign_e. rewrite palign_app. reflexivity. Qed.

Lemma refines_lift r : refines (plift r) (let* b := r in Ok (pconst b)).
Proof. intros st. unfold plift. destruct r; reflexivity. Qed.

Lemma refines_bind m k rp rq :
  refines m rp -> refines k rq ->
  refines (m ;; k) (let* p := rp in let* q := rq in Ok (pcat p q)).
Proof.
  intros Hm Hk st. unfold pbind. rewrite Hm. destruct rp as [p|e]; cbn [bind]; [|reflexivity].
  rewrite Hk. destruct rq as [q|e]; cbn [bind]; [|reflexivity].
  rewrite pst_app_app. unfold pcat. rewrite pst_app_fst. reflexivity.
Qed.

Lemma refines_bind_ok m k p q : refines m (Ok p) -> refines k (Ok q) -> refines (m ;; k) (Ok (pcat p q)).
Proof. intros Hm Hk. apply (refines_bind m k (Ok p) (Ok q) Hm Hk). Qed.

Lemma refines_prun m r : refines m r -> prun m = (let* p := r in Ok (p 0%nat)).
Proof.
  intros H. unfold prun. rewrite H. destruct r as [p|e]; cbn [bind]; [|reflexivity].
  rewrite pst_bits_fresh. reflexivity.
Qed.

(** ** pbits algebra (pointwise) *)
Lemma pcat_nil_r p : peq (pcat p (pconst [])) p.
Proof. intros pos. unfold pcat, pconst. apply app_nil_r. Qed.
Lemma pcat_nil_l p : peq (pcat (pconst []) p) p.
Proof. intros pos. reflexivity. Qed.
Lemma pcat_assoc p q r : peq (pcat (pcat p q) r) (pcat p (pcat q r)).
Proof.
  intros pos. unfold pcat. rewrite <- app_assoc. do 2 f_equal. rewrite app_length. f_equal. lia.
Qed.
Lemma pcat_ext p p' q q' : peq p p' -> peq q q' -> peq (pcat p q) (pcat p' q').
Proof. intros Hp Hq pos. unfold pcat. rewrite Hp, Hq. reflexivity. Qed.
Lemma pcat_const a b : peq (pcat (pconst a) (pconst b)) (pconst (a ++ b)).
Proof. intros pos. reflexivity. Qed.
Lemma peq_refl p : peq p p. Proof. intros pos. reflexivity. Qed.
Lemma peq_sym p q : peq p q -> peq q p. Proof. intros H pos. symmetry. apply H. Qed.
Lemma peq_trans p q r : peq p q -> peq q r -> peq p r.
Proof. intros H1 H2 pos. rewrite H1. apply H2. Qed.

Lemma pconcat_app a b : peq (pconcat (a ++ b)) (pcat (pconcat a) (pconcat b)).
Proof.
  induction a as [|x a IH]; cbn [app pconcat]; [apply peq_sym, pcat_nil_l|].
  eapply peq_trans; [apply pcat_ext; [apply peq_refl | exact IH]|]. apply peq_sym, pcat_assoc.
Qed.

Lemma pconcat_ext a b : Forall2 peq a b -> peq (pconcat a) (pconcat b).
Proof. induction 1; cbn [pconcat]; [apply peq_refl | apply pcat_ext; assumption]. Qed.

Lemma pconcat_const (l : list bits) : peq (pconcat (map pconst l)) (pconst (concat l)).
Proof.
  induction l as [|x l IH]; cbn [map pconcat concat]; [apply peq_refl|].
  eapply peq_trans; [apply pcat_ext; [apply peq_refl | exact IH]|]. apply pcat_const.
Qed.

(** ** alignment *)
Lemma pad_aligned pos : (pos mod 8 = 0)%nat -> pad pos = [].
Proof. intros H. unfold pad. rewrite H. reflexivity. Qed.
Lemma pad_length pos : length (pad pos) = ((8 - pos mod 8) mod 8)%nat.
Proof. unfold pad. apply repeat_length. Qed.
Lemma pad_makes_aligned pos : ((length (pad pos) + pos) mod 8 = 0)%nat.
Proof. rewrite pad_length. lia. Qed.
Lemma pad_pad : peq (pcat pad pad) pad.
Proof.
  intros pos. unfold pcat. rewrite (pad_aligned (length (pad pos) + pos)) by apply pad_makes_aligned.
  apply app_nil_r.
Qed.
Lemma aligned_at b pos : (pos mod 8 = 0)%nat -> aligned b pos = b.
Proof. intros H. unfold aligned, pcat, pconst. rewrite pad_aligned by exact H. reflexivity. Qed.
Lemma aligned_split b pos : aligned b pos = pad pos ++ b.
Proof. reflexivity. Qed.

Lemma refines_aligned b : refines (palign_e ;; pemit b) (Ok (aligned b)).
Proof. apply refines_bind_ok; [apply refines_align | apply refines_emit]. Qed.

(** ** items *)
Lemma refines_all {A} (enc1 : A -> penc) (g : A -> result pbits) l :
  (forall x, In x l -> refines (enc1 x) (g x)) ->
  refines (p_all enc1 l) (let* ps := map_result g l in Ok (pconcat ps)).
Proof.
  induction l as [|x l IH]; intros H.
  - intros st. cbn. rewrite pst_app_nil. reflexivity.
  - cbn [p_all map_result].
    eapply refines_enc_ext; [intros st; reflexivity|].
    pose proof (refines_bind _ _ _ _ (H x (or_introl eq_refl)) (IH (fun y Hy => H y (or_intror Hy)))) as Hb.
    intros st. rewrite Hb. destruct (g x) as [p|e]; cbn [bind]; [|reflexivity].
    destruct (map_result g l) as [ps|e]; reflexivity.
Qed.

Lemma p_all_emit {A} (f : A -> bits) l : forall st, p_all (fun x => pemit (f x)) l st = pemit (flat_map f l) st.
Proof.
  induction l as [|x l IH]; intros st; cbn [p_all flat_map].
  - unfold pemit. rewrite pst_app_nil. reflexivity.
  - unfold pbind, pemit at 1. cbn [bind]. rewrite IH. unfold pemit. rewrite pst_app_app. reflexivity.
Qed.

(** ** 11.9.3.5 - 11.9.3.8 *)
Definition uniform (w : nat) (ps : list pbits) : Prop := forall p, In p ps -> forall pos, length (p pos) = w.

Lemma uniform_concat w ps pos : uniform w ps -> length (pconcat ps pos) = (length ps * w)%nat.
Proof.
  revert pos. induction ps as [|p ps IH]; intros pos H; [reflexivity|].
  cbn [pconcat length]. unfold pcat. rewrite app_length, (H p (or_introl eq_refl)), IH; [lia|].
  intros q Hq. apply H. right. exact Hq.
Qed.

Lemma afrag_pad fuel ps pos :
  Z.of_nat (length ps) / 16384 < Z.of_nat fuel ->
  afrag fuel ps pos = pad pos ++ afrag fuel ps (length (pad pos) + pos)%nat.
Proof.
  intros Hf.
  assert (Ha : forall X R, pcat (aligned X) R pos = pad pos ++ pcat (aligned X) R (length (pad pos) + pos)%nat).
  { intros X R. unfold pcat at 1 2. rewrite (aligned_at X (length (pad pos) + pos)) by apply pad_makes_aligned.
    rewrite aligned_split, <- app_assoc. do 3 f_equal. rewrite app_length. lia. }
  destruct fuel; cbn [afrag]; destruct (Z.of_nat (length ps) <? 16384) eqn:E; try apply Ha. lia.
Qed.

(** the implementation's fragmentation as position-dependent bits: the
    first header is aligned by the caller, later headers are not re-aligned *)
Fixpoint ifrag (fuel : nat) (ps : list pbits) : pbits :=
  let n := Z.of_nat (length ps) in
  if n <? 16384 then pcat (pconst (len_short n)) (pconcat ps)
  else
    match fuel with
    | O => pconst []
    | S f =>
      let m := Z.min 4 (n / 16384) in
      let k := Z.to_nat (m * 16384) in
      pcat (pconst (true :: true :: to_bits 6 m)) (pcat (pconcat (firstn k ps)) (ifrag f (skipn k ps)))
    end.

Lemma p_frag_ifrag {A} (enc1 : A -> penc) (g : A -> result pbits) : forall fuel l,
  Z.of_nat (length l) / 16384 < Z.of_nat fuel ->
  (forall x, In x l -> refines (enc1 x) (g x)) ->
  refines (p_frag fuel enc1 l) (let* ps := map_result g l in Ok (ifrag fuel ps)).
Proof.
  induction fuel as [|f IH]; intros l Hf Hg; [lia|].
  cbn [p_frag].
  destruct (Z.of_nat (length l) <? 16384) eqn:E.
  - pose proof (refines_bind _ _ _ _ (refines_emit (enc_len_short (Z.of_nat (length l)))) (refines_all enc1 g l Hg)) as Hb.
    intros st. rewrite Hb. destruct (map_result g l) as [ps|e] eqn:Eps; cbn [bind]; [|reflexivity].
    cbn [ifrag]. rewrite (map_result_length _ _ _ Eps), E. rewrite len_short_eq by lia. reflexivity.
  - set (n := Z.of_nat (length l)) in *.
    set (m := if n <? 32768 then 1 else if n <? 49152 then 2 else if n <? 65536 then 3 else 4).
    assert (Hm : m = Z.min 4 (n / 16384)).
    { unfold m. destruct (n <? 32768) eqn:E1; [lia|]. destruct (n <? 49152) eqn:E2; [lia|].
      destruct (n <? 65536) eqn:E3; lia. }
    assert (Hm1 : 1 <= m <= 4) by lia.
    set (k := Z.to_nat (16384 * m)).
    assert (Hk : (k <= length l)%nat) by (unfold k; lia).
    assert (Hg1 : forall x, In x (firstn k l) -> refines (enc1 x) (g x)).
    { intros x Hx. apply Hg. rewrite <- (firstn_skipn k l). apply in_or_app. left. exact Hx. }
    assert (Hg2 : forall x, In x (skipn k l) -> refines (enc1 x) (g x)).
    { intros x Hx. apply Hg. rewrite <- (firstn_skipn k l). apply in_or_app. right. exact Hx. }
    pose proof (refines_bind _ _ _ _ (refines_emit (to_bits 8 (192 + m)))
                  (refines_bind _ _ _ _ (refines_all enc1 g (firstn k l) Hg1)
                     (IH (skipn k l) ltac:(rewrite skipn_length; unfold k; lia) Hg2))) as Hb.
    intros st. rewrite Hb. clear Hb.
    replace (map_result g l) with (map_result g (firstn k l ++ skipn k l)) by (rewrite firstn_skipn; reflexivity).
    rewrite map_result_app.
    destruct (map_result g (firstn k l)) as [xs|e] eqn:Ex; cbn [bind]; [|reflexivity].
    destruct (map_result g (skipn k l)) as [ys|e] eqn:Ey; cbn [bind]; [|reflexivity].
    assert (Hlx : length xs = k) by (rewrite (map_result_length _ _ _ Ex), firstn_length; lia).
    assert (Hly : length ys = (length l - k)%nat) by (rewrite (map_result_length _ _ _ Ey), skipn_length; lia).
    cbn [ifrag]. rewrite app_length, Hlx, Hly.
    replace (Z.of_nat (k + (length l - k))) with n by (unfold n; lia).
    rewrite E, <- Hm. replace (Z.to_nat (m * 16384)) with k by (unfold k; lia).
    rewrite firstn_app, Hlx, Nat.sub_diag, <- Hlx, firstn_all. cbn [firstn]. rewrite app_nil_r.
    rewrite skipn_app, Hlx, Nat.sub_diag, <- Hlx, skipn_all. cbn [skipn app].
    rewrite frag_marker_bits by lia. reflexivity.
Qed.

Lemma ifrag_afrag w : forall fuel ps pos,
  (pos mod 8 = 0)%nat ->
  (Z.of_nat (length ps) < 16384 \/ uniform w ps) ->
  ifrag fuel ps pos = afrag fuel ps pos.
Proof.
  induction fuel as [|f IH]; intros ps pos Hpos Hu; cbn [ifrag afrag];
    destruct (Z.of_nat (length ps) <? 16384) eqn:E.
  - unfold pcat. rewrite aligned_at by exact Hpos. reflexivity.
  - reflexivity.
  - unfold pcat. rewrite aligned_at by exact Hpos. reflexivity.
  - destruct Hu as [Hu|Hu]; [lia|].
    set (m := Z.min 4 (Z.of_nat (length ps) / 16384)). set (k := Z.to_nat (m * 16384)).
    assert (Hm1 : 1 <= m <= 4) by (unfold m; lia).
    assert (Hk : (k <= length ps)%nat) by (unfold k, m; lia).
    assert (Hux : uniform w (firstn k ps)).
    { intros p Hp. apply Hu. rewrite <- (firstn_skipn k ps). apply in_or_app. left. exact Hp. }
    assert (Huy : uniform w (skipn k ps)).
    { intros p Hp. apply Hu. rewrite <- (firstn_skipn k ps). apply in_or_app. right. exact Hp. }
    unfold pcat. rewrite aligned_at by exact Hpos. unfold pconst. do 2 f_equal.
    apply IH; [|right; exact Huy].
    rewrite (uniform_concat w _ _ Hux), firstn_length. cbn [length]. rewrite to_bits_length.
    replace (Nat.min k (length ps)) with k by lia.
    assert (Hk8 : k = (8 * (2048 * Z.to_nat m))%nat) by (unfold k; lia). rewrite Hk8.
    replace (8 * (2048 * Z.to_nat m) * w + (S (S 6) + pos))%nat
      with (pos + (2048 * Z.to_nat m * w + 1) * 8)%nat by lia.
    rewrite Nat.mod_add by lia. exact Hpos.
Qed.

Lemma afrag_fuel_irrel : forall f1 f2 (ps : list pbits),
  Z.of_nat (length ps) / 16384 < Z.of_nat f1 ->
  Z.of_nat (length ps) / 16384 < Z.of_nat f2 ->
  peq (afrag f1 ps) (afrag f2 ps).
Proof.
  induction f1 as [|f1 IH]; intros f2 ps H1 H2; [lia|].
  destruct f2 as [|f2]; [lia|]. cbn [afrag].
  destruct (Z.of_nat (length ps) <? 16384) eqn:E; [apply peq_refl|].
  apply pcat_ext; [apply peq_refl|]. apply pcat_ext; [apply peq_refl|].
  apply IH; rewrite skipn_length; lia.
Qed.

(** [palign_e ;; p_frag]: what every unbounded count of the implementation is *)
Lemma frag_refines {A} (enc1 : A -> penc) (g : A -> result pbits) w l :
  (forall x, In x l -> refines (enc1 x) (g x)) ->
  (Z.of_nat (length l) < 16384 \/ forall ps, map_result g l = Ok ps -> uniform w ps) ->
  refines (palign_e ;; p_frag (frag_fuel l) enc1 l) (let* ps := map_result g l in Ok (acount_unbounded ps)).
Proof.
  intros Hg Hu.
  pose proof (refines_bind _ _ _ _ refines_align
                (p_frag_ifrag enc1 g (frag_fuel l) l ltac:(unfold frag_fuel; lia) Hg)) as Hb.
  intros st. rewrite Hb. destruct (map_result g l) as [ps|e] eqn:Eps; cbn [bind]; [|reflexivity].
  do 2 f_equal. unfold pcat, acount_unbounded.
  pose proof (map_result_length _ _ _ Eps) as Hl.
  rewrite (ifrag_afrag w); [| apply pad_makes_aligned | destruct Hu as [Hu|Hu]; [left; lia | right; apply Hu; reflexivity]].
  rewrite (afrag_pad (S (length ps))) by lia. f_equal.
  apply afrag_fuel_irrel; unfold frag_fuel; lia.
Qed.

Section WithPadEmpty.
Variable pe : bool.

Definition rser (r : result (list afield)) : result pbits :=
  let* fs := r in Ok (serialise_aligned pe fs).

Lemma ser_app a b : peq (serialise_aligned pe (a ++ b)) (pcat (serialise_aligned pe a) (serialise_aligned pe b)).
Proof. unfold serialise_aligned. rewrite map_app. apply pconcat_app. Qed.

Lemma ser_cons f r : serialise_aligned pe (f :: r) = pcat (aser pe f) (serialise_aligned pe r).
Proof. reflexivity. Qed.

Lemma ser_one f : peq (serialise_aligned pe [f]) (aser pe f).
Proof. unfold serialise_aligned. cbn [map pconcat]. apply pcat_nil_r. Qed.

(** ** 11.5.7 *)
Lemma cwn_refines_a v lo hi :
  lo <= v <= hi -> hi - lo <= 65535 ->
  refines (p_cwn v lo hi (Z.to_nat (bit_length (hi - lo)))) (Ok (acwn 2 lo hi v)).
Proof.
  intros Hv Hr. unfold p_cwn. cbn [acwn].
  destruct (hi - lo + 1 <=? 255) eqn:E1.
  - replace (hi - lo + 1) with ((hi - lo) + 1) by lia. rewrite width_bit_length by lia. apply refines_emit.
  - destruct (hi - lo + 1 =? 256) eqn:E2; [apply refines_aligned|].
    destruct (hi - lo + 1 <=? 65536) eqn:E3; [apply refines_aligned | lia].
Qed.

Lemma size_as_bytes_nnbi x : 0 <= x -> size_as_bytes x = nnbi_octets x.
Proof.
  intros H. unfold size_as_bytes, nnbi_octets. destruct (x =? 0) eqn:E; [reflexivity|].
  rewrite nnbi_octets_eq by lia. unfold nnbi_octets. rewrite E. reflexivity.
Qed.

(** 11.5.7.4 / 13.2.6 a): ranges above 64K *)
Lemma int_big_refines lo hi v ib :
  lo <= v <= hi -> p_int_indef lo hi = Some ib -> nnbi_octets (hi - lo) <= 128 ->
  refines (let nbytes := size_as_bytes (v - lo) in
           p_cwn (nbytes - 1) 0 (2 ^ Z.of_nat ib) ib ;; palign_e ;; p_cwn v lo hi (Z.to_nat (8 * nbytes)))
          (Ok (acwn 2 lo hi v)).
Proof.
  intros Hv Hi Hk. unfold p_int_indef in Hi. destruct (hi - lo <=? 65535) eqn:E; [discriminate|].
  injection Hi as Hib. cbv zeta. rewrite size_as_bytes_nnbi by lia.
  set (k := nnbi_octets (v - lo)). set (maxk := nnbi_octets (hi - lo)) in *.
  assert (Hmax : (bit_length (hi - lo) + 7) / 8 = maxk) by (apply nnbi_octets_eq; lia).
  rewrite Hmax in Hib.
  assert (Hmk : 1 <= maxk) by apply nnbi_octets_pos.
  assert (Hib7 : bit_length (maxk - 1) <= 7).
  { pose proof (bit_length_mono (maxk - 1) 127 ltac:(lia)). change (bit_length 127) with 7 in H. exact H. }
  assert (Hibw : ib = width maxk).
  { rewrite <- Hib. replace maxk with ((maxk - 1) + 1) at 2 by lia. rewrite width_bit_length by lia. reflexivity. }
  assert (Hpow : 2 ^ Z.of_nat ib <= 128).
  { rewrite <- Hib. pose proof (bit_length_nonneg (maxk - 1)). rewrite Z2Nat.id by lia.
    change 128 with (2 ^ 7). apply pow2_le_mono. lia. }
  assert (Hpos : 0 < 2 ^ Z.of_nat ib) by (apply pow2_pos; lia).
  cbn [acwn].
  destruct (hi - lo + 1 <=? 255) eqn:E1; [lia|]. destruct (hi - lo + 1 =? 256) eqn:E2; [lia|].
  destruct (hi - lo + 1 <=? 65536) eqn:E3; [lia|].
  fold maxk. fold k.
  replace (maxk - 1 + 1 <=? 255) with true by lia.
  unfold p_cwn. rewrite E1, E2, E3.
  replace (2 ^ Z.of_nat ib - 0 + 1 <=? 255) with true by lia.
  eapply refines_ext;
    [| apply refines_bind_ok; [apply refines_emit | apply refines_bind_ok; [apply refines_align | apply refines_aligned]]].
  apply pcat_ext.
  - intros pos. unfold pconst. rewrite Hibw. replace (maxk - 1 + 1) with maxk by lia.
    replace (k - 1 - 0) with (k - 1) by lia. reflexivity.
  - unfold aligned. eapply peq_trans; [apply peq_sym, pcat_assoc|]. apply pcat_ext; [apply pad_pad | apply peq_refl].
Qed.

Definition int_scope_a (c : intc) (v : Z) : bool :=
  int_scope c v &&
  match c with
  | IcRange (Some l) (Some u) _ => nnbi_octets (u - l) <=? 128
  | _ => true
  end.

Lemma uncon_refines_a v :
  uncon_ok v = true -> refines (palign_e ;; plift (enc_unconstrained v)) (Ok (auncon v)).
Proof.
  unfold uncon_ok. intros H. rewrite uncon_refines, H.
  apply refines_bind_ok; [apply refines_align | apply (refines_lift (Ok (ser (FUncon v))))].
Qed.

Lemma int_root_cwn_a lo hi v :
  lo <= v <= hi -> nnbi_octets (hi - lo) <= 128 ->
  refines (match p_int_indef lo hi with
           | None => p_cwn v lo hi (p_int_nbits lo hi)
           | Some ib =>
             let nbytes := size_as_bytes (v - lo) in
             p_cwn (nbytes - 1) 0 (2 ^ Z.of_nat ib) ib ;; palign_e ;; p_cwn v lo hi (Z.to_nat (8 * nbytes))
           end) (Ok (acwn 2 lo hi v)).
Proof.
  intros Hv Hk. destruct (p_int_indef lo hi) as [ib|] eqn:Ei.
  - apply int_big_refines; assumption.
  - unfold p_int_indef in Ei. destruct (hi - lo <=? 65535) eqn:E; [|discriminate].
    apply cwn_refines_a; lia.
Qed.

Lemma refines_cons_bit b m r :
  refines m (rser r) -> refines (pemit [b] ;; m) (rser (let* fs := r in Ok (ABit b :: fs))).
Proof.
  intros H. pose proof (refines_bind _ _ _ _ (refines_emit [b]) H) as Hb.
  intros st. rewrite Hb. unfold rser. destruct r as [fs|e]; reflexivity.
Qed.

Lemma int_refines_a c v :
  int_scope_a c v = true ->
  refines (p_int c v) (rser (lifted (int_fields c v))).
Proof.
  unfold int_scope_a. intros H. apply andb_prop in H. destruct H as [Hs Hk].
  unfold int_scope in Hs. unfold p_int, p_int_root, int_fields, int_root_fields, lifted, rser.
  destruct c as [|[l|] [u|] x]; cbn [int_ext int_bounds opt_le_lo opt_le_hi].
  - eapply refines_ext; [apply peq_sym, ser_one | apply uncon_refines_a; exact Hs].
  - destruct ((l <=? v) && (v <=? u)) eqn:E.
    + assert (Hr : refines (match p_int_indef l u with
           | None => p_cwn v l u (p_int_nbits l u)
           | Some ib =>
             let nbytes := size_as_bytes (v - l) in
             p_cwn (nbytes - 1) 0 (2 ^ Z.of_nat ib) ib ;; palign_e ;; p_cwn v l u (Z.to_nat (8 * nbytes))
           end) (Ok (serialise_aligned pe [ACwn l u v]))).
      { eapply refines_ext; [apply peq_sym, ser_one | apply int_root_cwn_a; lia]. }
      destruct x; cbn [negb bind map lift].
      * apply (refines_cons_bit false _ (Ok [ACwn l u v])). exact Hr.
      * exact Hr.
    + apply andb_prop in Hs. destruct Hs as [-> Hs]. cbn [bind map lift].
      pose proof (refines_bind _ _ _ _ (refines_emit [true]) (uncon_refines_a v Hs)) as Hb.
      eapply refines_ext; [|exact Hb]. cbn [bind]. rewrite ser_cons. apply pcat_ext; [apply peq_refl | apply peq_sym, ser_one].
  - destruct x; [discriminate|].
    apply andb_prop in Hs. destruct Hs as [Hs H4]. apply andb_prop in Hs. destruct Hs as [Hs H3].
    apply andb_prop in Hs. destruct Hs as [H1 H2]. assert (l = 0) by lia. subst l.
    replace (0 <=? v) with true by lia. cbn [andb negb bind map lift].
    eapply refines_ext; [apply peq_sym, ser_one|]. cbn [aser].
    eapply refines_ext; [|apply uncon_refines_a; exact H4].
    intros pos. unfold auncon, asemi. do 2 f_equal. cbn [ser]. unfold semi_bits. rewrite Z.sub_0_r.
    replace (nnbi_octets v) with (twos_octets v) by lia. reflexivity.
  - destruct x; [discriminate|]. apply andb_prop in Hs. destruct Hs as [H1 H2]. cbn [opt_le_hi] in H1. rewrite H1.
    cbn [andb negb bind map lift]. eapply refines_ext; [apply peq_sym, ser_one | apply uncon_refines_a; exact H2].
  - destruct x; [discriminate|]. cbn [andb] in Hs. cbn [andb negb bind map lift].
    eapply refines_ext; [apply peq_sym, ser_one | apply uncon_refines_a; exact Hs].
Qed.

(** ** 14 ENUMERATED (the implementation uses the unaligned encoder) *)
Definition enum_scope_a (root : list (string * Z)) (ext : option (list (string * Z))) : bool :=
  enum_scope root ext && (Z.of_nat (length root) <=? 255)
  && (Z.of_nat (length (match ext with Some a => a | None => [] end)) <=? 64).

Lemma enum_refines_a numeric root ext d :
  enum_scope_a root ext = true ->
  refines (plift (enc_enum numeric root ext d)) (rser (lifted (enum_fields numeric root ext d))).
Proof.
  unfold enum_scope_a. intros H. apply andb_prop in H. destruct H as [H H64].
  apply andb_prop in H. destruct H as [Hs H255].
  rewrite (enum_refines numeric root ext d Hs).
  assert (Hgen : forall fs, enum_fields numeric root ext d = Ok fs ->
                 peq (serialise_aligned pe (map lift fs)) (pconst (serialise fs))).
  { unfold enum_fields. intros fs.
    destruct (find_item numeric d root) as [[k0 it]|] eqn:Er.
    - intros Hfs. injection Hfs as <-.
      pose proof (find_item_bound _ _ _ _ _ Er) as Hb.
      assert (Hc : peq (aser pe (ACwn 0 (Z.of_nat (length root) - 1) (enum_index root it)))
                       (pconst (ser (FCwn 0 (Z.of_nat (length root) - 1) (enum_index root it))))).
      { intros pos. cbn [aser acwn ser]. replace (Z.of_nat (length root) - 1 - 0 + 1 <=? 255) with true by lia. reflexivity. }
      destruct ext as [adds|]; cbn [app map lift].
      + rewrite ser_cons. intros pos. unfold pcat. rewrite (ser_one _ _), Hc.
        unfold serialise, pconst. cbn [flat_map ser aser app]. rewrite app_nil_r. reflexivity.
      + eapply peq_trans; [apply ser_one|]. intros pos. rewrite Hc. unfold serialise, pconst. cbn [flat_map]. rewrite app_nil_r. reflexivity.
    - destruct ext as [adds|]; [|discriminate].
      destruct (find_item numeric d adds) as [[j z]|] eqn:Ea; [|discriminate].
      intros Hfs. injection Hfs as <-. pose proof (find_item_bound _ _ _ _ _ Ea) as Hb.
      cbn [map lift]. rewrite ser_cons. intros pos. unfold pcat. rewrite (ser_one _ _).
      cbn [aser ser serialise flat_map]. replace (Z.of_nat j <=? 63) with true by lia. rewrite app_nil_r. reflexivity. }
  pose proof (refines_lift (let* fs := enum_fields numeric root ext d in Ok (serialise fs))) as Hl.
  intros st. rewrite Hl. unfold rser, lifted.
  destruct (enum_fields numeric root ext d) as [fs|e] eqn:Ef; cbn [bind]; [|reflexivity].
  rewrite (Hgen fs eq_refl). reflexivity.
Qed.
End WithPadEmpty.

Lemma Forall2_firstn {A B} (R : A -> B -> Prop) l1 l2 k : Forall2 R l1 l2 -> Forall2 R (firstn k l1) (firstn k l2).
Proof. intros H. revert k. induction H; intros [|k]; cbn [firstn]; constructor; auto. Qed.
Lemma Forall2_skipn {A B} (R : A -> B -> Prop) l1 l2 k : Forall2 R l1 l2 -> Forall2 R (skipn k l1) (skipn k l2).
Proof. intros H. revert k. induction H; intros [|k]; cbn [skipn]; try constructor; auto. Qed.
Lemma Forall2_len {A B} (R : A -> B -> Prop) l1 l2 : Forall2 R l1 l2 -> length l1 = length l2.
Proof. induction 1; cbn [length]; congruence. Qed.

Lemma afrag_ext : forall fuel a b, Forall2 peq a b -> peq (afrag fuel a) (afrag fuel b).
Proof.
  induction fuel as [|f IH]; intros a b H; cbn [afrag]; rewrite <- (Forall2_len _ _ _ H);
    destruct (Z.of_nat (length a) <? 16384).
  - apply pcat_ext; [apply peq_refl | apply pconcat_ext; exact H].
  - apply peq_refl.
  - apply pcat_ext; [apply peq_refl | apply pconcat_ext; exact H].
  - apply pcat_ext; [apply peq_refl|]. apply pcat_ext.
    + apply pconcat_ext. apply Forall2_firstn. exact H.
    + apply IH. apply Forall2_skipn. exact H.
Qed.

Lemma acount_unbounded_ext a b : Forall2 peq a b -> peq (acount_unbounded a) (acount_unbounded b).
Proof. intros H. unfold acount_unbounded. rewrite <- (Forall2_len _ _ _ H). apply afrag_ext. exact H. Qed.

Lemma map_result_pconst {A} (g : A -> result bits) l :
  map_result (fun x => let* u := g x in Ok (pconst u)) l = (let* us := map_result g l in Ok (map pconst us)).
Proof.
  induction l as [|x l IH]; [reflexivity|]. cbn [map_result]. rewrite IH.
  destruct (g x); cbn [bind]; [|reflexivity]. destruct (map_result g l); reflexivity.
Qed.

Lemma map_result_in {A B} (g : A -> result B) l us : map_result g l = Ok us -> forall u, In u us -> exists x, In x l /\ g x = Ok u.
Proof.
  revert us. induction l as [|x l IH]; intros us; cbn [map_result].
  - intros H. injection H as <-. intros u [].
  - destruct (g x) as [y|] eqn:Ey; cbn [bind]; [|discriminate].
    destruct (map_result g l) as [ys|] eqn:Eys; cbn [bind]; [|discriminate].
    intros H. injection H as <-. intros u [<-|Hu].
    + exists x. split; [left; reflexivity | exact Ey].
    + destruct (IH ys eq_refl u Hu) as (x' & Hx' & Hg). exists x'. split; [right; exact Hx' | exact Hg].
Qed.

Lemma concat_uniform_length (us : list bits) w :
  (forall u, In u us -> length u = w) -> length (concat us) = (length us * w)%nat.
Proof.
  induction us as [|u us IH]; intros H; [reflexivity|]. cbn [concat length]. rewrite app_length.
  rewrite (H u (or_introl eq_refl)), IH by (intros; apply H; right; assumption). lia.
Qed.

(** is the size constraint a variable size with an upper bound below 64K? *)
Definition sz_var_bounded (s : size) : bool :=
  match sz_ub s with Some u => (u <? 65536) && negb (sz_lb s =? u) | None => false end.

Section WithPadEmpty.
Variable pe : bool.

(** the shape shared by the three sized string encoders of per.py (after the extension bit) *)
Definition im_astring {A} (sz : size) (enc1 : A -> penc) (l : list A) (va fa : bool) : penc :=
  let n := Z.of_nat (length l) in
  if size_unbound sz then palign_e ;; p_frag (frag_fuel l) enc1 l
  else if negb (size_lo sz =? size_hi sz) then
    if size_in_root sz n then
      p_cwn n (size_lo sz) (size_hi sz) (size_nbits sz) ;; (if va then palign_e else pemit []) ;; p_all enc1 l
    else pfail EUnmodelled
  else if n =? size_lo sz then (if fa then palign_e else pemit []) ;; p_all enc1 l
  else pfail EUnmodelled.

Section AString.
  Context {A : Type}.
  Variable enc1 : A -> penc.
  Variable g : A -> result bits.
  Variable l : list A.
  Variable w : nat.
  Hypothesis Hg : forall x, In x l -> refines (enc1 x) (let* u := g x in Ok (pconst u)).
  Hypothesis Hw : forall x u, In x l -> g x = Ok u -> length u = w.

  Lemma units_refines : refines (p_all enc1 l) (let* us := map_result g l in Ok (pconst (concat us))).
  Proof.
    pose proof (refines_all enc1 _ l Hg) as H. rewrite map_result_pconst in H.
    intros st. rewrite H. destruct (map_result g l) as [us|e]; cbn [bind]; [|reflexivity].
    rewrite (pconcat_const us). reflexivity.
  Qed.

  Lemma units_width us : map_result g l = Ok us -> forall u, In u us -> length u = w.
  Proof.
    intros H u Hu. destruct (map_result_in g l us H u Hu) as (x & Hx & Hgx). apply (Hw x u Hx Hgx).
  Qed.

  Lemma data_length us : map_result g l = Ok us -> length (concat us) = (length l * w)%nat.
  Proof.
    intros H. rewrite (concat_uniform_length us w (units_width us H)), (map_result_length _ _ _ H). reflexivity.
  Qed.

  Lemma unbounded_units_refines :
    refines (palign_e ;; p_frag (frag_fuel l) enc1 l)
            (let* us := map_result g l in
             Ok (acount_unbounded (map (fun it => pconcat (map (aser pe) it)) (map (fun u => [ABits u]) us)))).
  Proof.
    pose proof (frag_refines enc1 (fun x => let* u := g x in Ok (pconst u)) w l Hg) as H.
    rewrite map_result_pconst in H.
    assert (Hu : Z.of_nat (length l) < 16384 \/
                 (forall ps, (let* us := map_result g l in Ok (map pconst us)) = Ok ps -> uniform w ps)).
    { right. intros ps Hps. destruct (map_result g l) as [us|] eqn:Eus; [|discriminate].
      cbn [bind] in Hps. injection Hps as <-. intros p Hp pos. apply in_map_iff in Hp.
      destruct Hp as (u & <- & Hu). unfold pconst. apply (units_width us Eus u Hu). }
    specialize (H Hu). intros st. rewrite H.
    destruct (map_result g l) as [us|e]; cbn [bind]; [|reflexivity].
    do 2 f_equal. apply acount_unbounded_ext. rewrite map_map.
    clear. induction us as [|u us IH]; cbn [map]; constructor; [|exact IH].
    cbn [pconcat aser]. apply peq_sym, pcat_nil_r.
  Qed.

  (** [va_sm]: is the string an octet-aligned field when its size is
      variable (X.691); [va], [fa]: does the implementation align in the
      variable / fixed case *)
  Lemma astring_refines sz va fa va_sm :
    size_root_scope sz (Z.of_nat (length l)) = true -> 0 <= sz_lb sz ->
    (size_lo sz = size_hi sz -> fa = (size_hi sz * Z.of_nat w >? 16)) ->
    (sz_var_bounded sz = true ->
     va = va_sm && (((0 <? Z.of_nat (length l)) && (0 <? Z.of_nat w)) || pe)) ->
    refines ((if size_ext sz then pemit [false] else pemit []) ;; im_astring sz enc1 l va fa)
            (rser pe (let* us := map_result g l in astring_fields sz (Z.of_nat w) va_sm us)).
  Proof.
    intros Hsc Hlb Hfa Hva.
    (* what follows the extension bit *)
    assert (Hroot : refines (im_astring sz enc1 l va fa)
      (let* us := map_result g l in
       Ok (serialise_aligned pe
             match sz_ub sz with
             | Some u =>
               if u <? 65536 then
                 if sz_lb sz =? u
                 then [if u * Z.of_nat w >? 16 then AOctets (concat us) else ABits (concat us)]
                 else [ACwn (sz_lb sz) u (Z.of_nat (length us));
                       if va_sm then AOctets (concat us) else ABits (concat us)]
               else [ACounted (sz_lb sz) (Some u) (map (fun u => [ABits u]) us)]
             | None => [ACounted (sz_lb sz) None (map (fun u => [ABits u]) us)]
             end))).
    { unfold size_root_scope, sz_open_ext, sz_in_root in Hsc. apply andb_prop in Hsc. destruct Hsc as [Hin Hop].
      unfold im_astring.
      assert (Hunb : forall lb ub, (match ub with Some u => u <? 65536 | None => false end) = false ->
                refines (palign_e ;; p_frag (frag_fuel l) enc1 l)
                        (let* us := map_result g l in
                         Ok (serialise_aligned pe [ACounted lb ub (map (fun u => [ABits u]) us)]))).
      { intros lb ub Hub. intros st. rewrite unbounded_units_refines.
        destruct (map_result g l) as [us|e]; cbn [bind]; [|reflexivity].
        do 2 f_equal. generalize (fst st). eapply peq_trans; [|apply peq_sym, ser_one].
        cbn [aser]. destruct ub as [u|]; [rewrite Hub|]; apply peq_refl. }
      destruct sz as [|lo [hi|] x]; cbn [size_unbound sz_lb sz_ub sz_ext size_lo size_hi] in *.
      - apply (Hunb 0 None). reflexivity.
      - destruct (hi >? 65535) eqn:Eu.
        + destruct (hi <? 65536) eqn:E2; [lia|]. apply (Hunb lo (Some hi)). exact E2.
        + destruct (hi <? 65536) eqn:E2; [|lia].
          apply andb_prop in Hin. destruct Hin as [H1 H2].
          unfold size_in_root. cbn [size_lo size_hi]. rewrite H1, H2. cbn [andb].
          destruct (lo =? hi) eqn:Elh; cbn [negb].
          * (* fixed size *)
            assert (lo = hi) by lia. subst hi. replace (Z.of_nat (length l) =? lo) with true by lia.
            rewrite (Hfa eq_refl).
            pose proof (refines_bind _ _ _ _
                          (if lo * Z.of_nat w >? 16 as c return refines (if c then palign_e else pemit [])
                                                                          (Ok (if c then pad else pconst []))
                           then refines_align else refines_emit []) units_refines) as Hb.
            intros st. rewrite Hb. destruct (map_result g l) as [us|e] eqn:Eus; cbn [bind]; [|reflexivity].
            do 2 f_equal. generalize (fst st). eapply peq_trans; [|apply peq_sym, ser_one].
            destruct (lo * Z.of_nat w >? 16) eqn:E16; cbn [aser].
            -- pose proof (data_length us Eus) as Hdl.
               assert (Hn : lo = Z.of_nat (length l)) by lia.
               destruct (concat us) as [|b0 d] eqn:Ed; [cbn [length] in Hdl; subst lo; nia|]. apply peq_refl.
            -- apply peq_refl.
          * (* variable size *)
            pose proof (refines_bind _ _ _ _
                          (cwn_refines_a (Z.of_nat (length l)) lo hi ltac:(lia) ltac:(lia))
                          (refines_bind _ _ _ _
                             (if va as c return refines (if c then palign_e else pemit [])
                                                        (Ok (if c then pad else pconst []))
                              then refines_align else refines_emit []) units_refines)) as Hb.
            unfold size_nbits. cbn [size_lo size_hi].
            intros st. rewrite Hb. destruct (map_result g l) as [us|e] eqn:Eus; cbn [bind]; [|reflexivity].
            do 2 f_equal. unfold serialise_aligned. cbn [map pconcat aser].
            rewrite (map_result_length _ _ _ Eus).
            generalize (fst st). apply pcat_ext; [apply peq_refl|].
            eapply peq_trans; [|apply peq_sym, pcat_nil_r].
            pose proof (data_length us Eus) as Hdl.
            assert (Hva' := Hva ltac:(unfold sz_var_bounded; cbn [sz_ub sz_lb]; rewrite E2, Elh; reflexivity)).
            clear Hva. rename Hva' into Hva.
            destruct va_sm; cbn [andb] in Hva; subst va; cbn [aser].
            -- destruct ((0 <? Z.of_nat (length l)) && (0 <? Z.of_nat w)) eqn:Enw; cbn [orb].
               ++ destruct (concat us) as [|b0 d] eqn:Ed; [cbn [length] in Hdl; nia|]. apply peq_refl.
               ++ assert (concat us = []) as -> by (apply length_zero_iff_nil; nia).
                  destruct pe; [apply pcat_nil_r | apply peq_refl].
            -- apply peq_refl.
      - apply (Hunb lo None). reflexivity. }
    pose proof (refines_bind _ _ _ _
                  (if size_ext sz as c return refines (if c then pemit [false] else pemit [])
                                                      (Ok (pconst (if c then [false] else [])))
                   then refines_emit [false] else refines_emit []) Hroot) as Hb.
    intros st. rewrite Hb. unfold rser, astring_fields.
    destruct (map_result g l) as [us|e] eqn:Eus; cbn [bind]; [|reflexivity].
    rewrite (map_result_length _ _ _ Eus).
    unfold size_root_scope in Hsc. apply andb_prop in Hsc. destruct Hsc as [-> _]. cbn [bind].
    do 2 f_equal. replace (sz_ext sz) with (size_ext sz) by (destruct sz; reflexivity).
    destruct (size_ext sz); [|reflexivity].
    cbn [app]. rewrite ser_cons. reflexivity.
  Qed.
End AString.
End WithPadEmpty.

Lemma flat_map_single {A} (l : list A) : flat_map (fun b => [b]) l = l.
Proof. induction l as [|x l IH]; [reflexivity|]. cbn [flat_map app]. f_equal. exact IH. Qed.

Section WithPadEmpty.
Variable pe : bool.

(** a string of variable bounded size with no unit is where the two
    readings of "empty octet-aligned bit-field" differ *)
Definition var_empty_ok (sz : size) (n : Z) : bool := negb (sz_var_bounded sz) || (0 <? n) || pe.

Lemma var_flag sz n w :
  var_empty_ok sz n = true -> 0 < Z.of_nat w ->
  sz_var_bounded sz = true -> true = true && (((0 <? n) && (0 <? Z.of_nat w)) || pe).
Proof.
  unfold var_empty_ok. intros H Hw Hv. rewrite Hv in H. cbn [negb orb andb] in *.
  replace (0 <? Z.of_nat w) with true by lia. rewrite andb_true_r. symmetry. exact H.
Qed.

(** ** 16 BIT STRING *)
Definition bits_scope_a (named : bool) (sz : size) (bytes : list Z) (nbits : Z) : bool :=
  bits_scope named sz bytes nbits && (0 <=? sz_lb sz)
  && var_empty_ok sz (Z.of_nat (length (bitstring_bits named sz bytes nbits))).

Lemma bitstring_refines_a named sz bytes nbits :
  bits_scope_a named sz bytes nbits = true ->
  refines (p_bitstring named sz bytes nbits) (rser pe (abitstring_fields named sz bytes nbits)).
Proof.
  unfold bits_scope_a. intros H. apply andb_prop in H. destruct H as [H Hva]. apply andb_prop in H. destruct H as [H Hlb].
  unfold bits_scope in H.
  apply andb_prop in H. destruct H as [H Hsz]. apply andb_prop in H. destruct H as [H Hext].
  apply andb_prop in H. destruct H as [H Hz]. apply andb_prop in H. destruct H as [H0 H8].
  unfold p_bitstring, abitstring_fields.
  destruct (Z.of_nat (length bytes) * 8 <? nbits) eqn:E1; [lia|].
  destruct ((nbits <? 0) || (8 * Z.of_nat (length bytes) <? nbits)) eqn:E2; [lia|].
  rewrite (bitstring_data named sz bytes nbits Hz).
  set (data := bitstring_bits named sz bytes nbits) in *.
  assert (Hpre : forall st, (if size_ext sz
                  then if size_in_root sz nbits then pemit [false] else pfail (EForeign "NotImplementedError")
                  else pemit []) st = (if size_ext sz then pemit [false] else pemit []) st).
  { intros st. destruct (size_ext sz) eqn:Ex; [|reflexivity].
    unfold size_root_scope in Hsz. apply andb_prop in Hsz. destruct Hsz as [_ Hop].
    rewrite size_in_root_eq by assumption.
    replace (sz_ext sz) with (size_ext sz) in Hext by (destruct sz; reflexivity). rewrite Ex in Hext.
    cbn [negb orb] in Hext. rewrite Hext. reflexivity. }
  set (fa := size_lo sz >? 16).
  pose proof (astring_refines pe (fun b : bool => pemit [b]) (fun b => Ok [b]) data 1
                ltac:(intros; apply refines_emit) ltac:(intros x u _ Hu; injection Hu as <-; reflexivity)
                sz true fa true) as Hp.
  rewrite map_result_ok in Hp. cbn [bind] in Hp.
  eapply refines_enc_ext; [|apply Hp].
  - intros st. cbv zeta. fold data. unfold pbind at 1. unfold pbind at 1. rewrite Hpre.
    destruct ((if size_ext sz then pemit [false] else pemit []) st) as [st1|e]; cbn [bind]; [|reflexivity].
    unfold im_astring. destruct (size_unbound sz); [reflexivity|].
    destruct (negb (size_lo sz =? size_hi sz)).
    + destruct (size_in_root sz (Z.of_nat (length data))); [|reflexivity].
      unfold pbind. destruct (p_cwn _ _ _ _ st1) as [st2|]; cbn [bind]; [|reflexivity].
      destruct (palign_e st2); cbn [bind]; [|reflexivity]. rewrite p_all_emit, flat_map_single. reflexivity.
    + destruct (Z.of_nat (length data) =? size_lo sz); [|reflexivity].
      unfold pbind. fold fa. destruct ((if fa then palign_e else pemit []) st1); cbn [bind]; [|reflexivity].
      rewrite p_all_emit, flat_map_single. reflexivity.
  - exact Hsz.
  - apply Z.leb_le. exact Hlb.
  - intros Heq. unfold fa. rewrite Heq. f_equal. lia.
  - intros Hv. apply (var_flag sz); [exact Hva | lia | exact Hv].
Qed.

(** ** 17 OCTET STRING *)
Definition octets_scope_a (sz : size) (n : Z) : bool :=
  size_scope_x sz n && (0 <=? sz_lb sz) && var_empty_ok sz n.

Lemma concat_octets bytes : concat (map (to_bits 8) bytes) = bytes_to_bits bytes.
Proof. unfold bytes_to_bits. rewrite flat_map_concat_map. reflexivity. Qed.

Lemma ext_marker_root (sz : size) (m : penc) r :
  refines ((if size_ext sz then pemit [false] else pemit []) ;; m) r ->
  forall n, size_root_scope sz n = true ->
  refines (if size_ext sz then if size_in_root sz n then pemit [false] ;; m else pfail EUnmodelled else m) r.
Proof.
  intros H n Hsc. unfold size_root_scope in Hsc. apply andb_prop in Hsc. destruct Hsc as [Hin Hop].
  destruct (size_ext sz) eqn:Ex.
  - rewrite size_in_root_eq by assumption. rewrite Hin. exact H.
  - intros st. rewrite <- H. unfold pbind, pemit. cbn [bind]. rewrite pst_app_nil. reflexivity.
Qed.

Lemma octets_refines_a sz bytes :
  octets_scope_a sz (Z.of_nat (length bytes)) = true ->
  refines (p_octets sz bytes) (rser pe (aoctets_fields sz bytes)).
Proof.
  unfold octets_scope_a. intros H. apply andb_prop in H. destruct H as [H Hva]. apply andb_prop in H. destruct H as [Hsx Hlb].
  unfold size_scope_x in Hsx. unfold p_octets, aoctets_fields. cbv zeta.
  destruct (size_root_scope sz (Z.of_nat (length bytes))) eqn:Er.
  - set (fa := negb (size_hi sz <=? 2)).
    pose proof (astring_refines pe (fun b => pemit (to_bits 8 b)) (fun b => Ok (to_bits 8 b)) bytes 8
                  ltac:(intros; apply refines_emit)
                  ltac:(intros x u _ Hu; replace u with (to_bits 8 x) by congruence; apply to_bits_length)
                  sz true fa true) as Hp.
    rewrite map_result_ok in Hp. cbn [bind] in Hp.
    eapply refines_enc_ext; [|apply Hp].
    + intros st. pose proof Er as Er'. unfold size_root_scope in Er'. apply andb_prop in Er'. destruct Er' as [Hin Hop].
      assert (Hbody : forall st1,
        im_astring sz (fun b => pemit (to_bits 8 b)) bytes true fa st1 =
        (if size_unbound sz then palign_e ;; p_frag (frag_fuel bytes) (fun b => pemit (to_bits 8 b)) bytes
         else if negb (size_lo sz =? size_hi sz) then
           if size_in_root sz (Z.of_nat (length bytes))
           then p_cwn (Z.of_nat (length bytes)) (size_lo sz) (size_hi sz) (size_nbits sz) ;; palign_e ;; pemit (bytes_to_bits bytes)
           else pfail EUnmodelled
         else if Z.of_nat (length bytes) =? size_lo sz
              then (if size_hi sz <=? 2 then pemit [] else palign_e) ;; pemit (bytes_to_bits bytes)
              else pfail EUnmodelled) st1).
      { intros st1. unfold im_astring. destruct (size_unbound sz); [reflexivity|].
        destruct (negb (size_lo sz =? size_hi sz)).
        - destruct (size_in_root sz (Z.of_nat (length bytes))); [|reflexivity].
          unfold pbind. destruct (p_cwn _ _ _ _ st1) as [st2|]; cbn [bind]; [|reflexivity].
          destruct (palign_e st2); cbn [bind]; [|reflexivity]. rewrite p_all_emit. reflexivity.
        - destruct (Z.of_nat (length bytes) =? size_lo sz); [|reflexivity].
          unfold pbind, fa. destruct (size_hi sz <=? 2); cbn [negb].
          + destruct (pemit [] st1); cbn [bind]; [rewrite p_all_emit|]; reflexivity.
          + destruct (palign_e st1); cbn [bind]; [rewrite p_all_emit|]; reflexivity. }
      destruct (size_ext sz) eqn:Ex.
      * unfold pbind at 1. unfold pemit at 1. cbn [bind]. rewrite Hbody.
        rewrite size_in_root_eq by assumption. rewrite Hin. reflexivity.
      * unfold pbind at 1. cbn [pemit bind]. rewrite pst_app_nil. rewrite Hbody. reflexivity.
    + exact Er.
    + apply Z.leb_le. exact Hlb.
    + intros Heq. unfold fa. f_equal. destruct (size_hi sz <=? 2) eqn:E; cbn [negb]; lia.
    + intros Hv. apply (var_flag sz); [exact Hva | lia | exact Hv].
  - (* outside the root of an extensible SIZE: align, then the fragmented count *)
    cbn [orb] in Hsx.
    apply andb_prop in Hsx. destruct Hsx as [H Hout]. apply andb_prop in H. destruct H as [Hx Hop].
    replace (size_ext sz) with (sz_ext sz) by (destruct sz; reflexivity). rewrite Hx.
    rewrite size_in_root_eq by (try assumption; destruct sz; exact Hx).
    apply negb_true_iff in Hout. rewrite Hout.
    unfold rser, astring_fields. rewrite map_length, Hout, Hx. cbn [bind].
    pose proof (frag_refines (fun b => pemit (to_bits 8 b)) (fun b => Ok (pconst (to_bits 8 b))) 8 bytes
                  ltac:(intros; apply refines_emit)) as Hf.
    rewrite map_result_ok in Hf. cbn [bind] in Hf.
    assert (Hu : Z.of_nat (length bytes) < 16384 \/
                 (forall ps, Ok (map (fun x : Z => pconst (to_bits 8 x)) bytes) = Ok ps -> uniform 8 ps)).
    { right. intros ps Hps.
      assert (Hps' : ps = map (fun x : Z => pconst (to_bits 8 x)) bytes) by congruence. subst ps. clear Hps.
      intros p Hp pos. apply in_map_iff in Hp.
      destruct Hp as (b & <- & _). unfold pconst. apply to_bits_length. }
    pose proof (refines_bind_ok _ _ _ _ (refines_emit [true]) (Hf Hu)) as Hb.
    eapply refines_ext; [|exact Hb].
    rewrite ser_cons. apply pcat_ext; [apply peq_refl|].
    eapply peq_trans; [|apply peq_sym, ser_one]. cbn [aser].
    apply acount_unbounded_ext. rewrite !map_map.
    clear. induction bytes as [|b l IH]; cbn [map]; constructor; [|exact IH].
    cbn [pconcat aser]. apply peq_sym, pcat_nil_r.
Qed.

(** ** UTF8String and OBJECT IDENTIFIER: aligned, then as in the unaligned variant *)
Lemma octet_items_unbounded (bytes : list Z) :
  peq (acount_unbounded (map (fun it => pconcat (map (aser pe) it)) (map (map lift) (map octet bytes))))
      (acount_unbounded (map pconst (map (to_bits 8) bytes))).
Proof.
  apply acount_unbounded_ext. rewrite !map_map.
  induction bytes as [|b l IH]; cbn [map]; constructor; [|exact IH].
  cbn [octet map lift pconcat aser]. apply pcat_nil_r.
Qed.

Lemma utf8_refines_a cps :
  utf8_scope cps = true -> refines (p_utf8 cps) (rser pe (lifted (utf8_fields cps))).
Proof.
  unfold utf8_scope, p_utf8, utf8_fields, lifted, rser. destruct (utf8_encode cps) as [bytes|]; [|discriminate].
  intros _. cbn [bind map lift].
  pose proof (frag_refines (fun b => pemit (to_bits 8 b)) (fun b => Ok (pconst (to_bits 8 b))) 8 bytes
                ltac:(intros; apply refines_emit)) as H.
  rewrite map_result_ok in H. cbn [bind] in H.
  eapply refines_ext; [|apply H].
  - eapply peq_trans; [|apply peq_sym, ser_one]. cbn [aser]. rewrite <- map_map. apply peq_sym, octet_items_unbounded.
  - right. intros ps Hps.
    assert (Hps' : ps = map (fun x : Z => pconst (to_bits 8 x)) bytes) by congruence. subst ps. clear Hps.
    intros p Hp pos. apply in_map_iff in Hp.
    destruct Hp as (b & <- & _). unfold pconst. apply to_bits_length.
Qed.

Lemma oid_refines_a arcs :
  oid_scope arcs = true -> refines (p_oid arcs) (rser pe (lifted (oid_fields arcs))).
Proof.
  intros H. pose proof (oid_refines arcs H) as Hu. unfold enc_oid in Hu. unfold p_oid. rewrite Hu. clear Hu.
  pose proof (refines_bind _ _ _ _ refines_align
                (refines_lift (let* fs := oid_fields arcs in Ok (serialise fs)))) as Hb.
  unfold oid_scope in H. apply andb_prop in H. destruct H as [H Hlen]. apply andb_prop in H. destruct H as [Hnn Hfirst].
  unfold oid_fields in *. destruct arcs as [|a0 [|a1 rest]]; try discriminate.
  apply andb_prop in Hfirst. destruct Hfirst as [Hf1 Hf2].
  rewrite Hnn, Hf1, Hf2 in *. cbn [andb bind lifted rser map lift] in *.
  eapply refines_ext; [|exact Hb].
  cbn [oid_bytes_sm] in Hlen. set (bytes := subid (40 * a0 + a1) ++ flat_map subid rest) in *.
  eapply peq_trans; [|apply peq_sym, ser_one]. cbn [aser].
  eapply peq_trans; [|apply peq_sym, octet_items_unbounded].
  unfold acount_unbounded. rewrite !map_length. cbn [afrag]. rewrite !map_length.
  replace (Z.of_nat (length bytes) <? 16384) with true by lia.
  intros pos. unfold pcat at 1. cbn [serialise flat_map ser]. rewrite app_nil_r.
  rewrite unbounded_small by (rewrite map_length, map_length; lia).
  rewrite !map_length, map_map.
  rewrite (map_ext (fun x => flat_map ser (octet x)) (to_bits 8)) by (intros; apply octet_bits).
  unfold pcat. rewrite (pconcat_const _ _). unfold aligned, pcat, pconst. rewrite <- app_assoc. reflexivity.
Qed.
End WithPadEmpty.

(** ** 30.5 known-multiplier strings, ALIGNED *)

Definition ladder (bl : Z) : nat :=
  if bl <=? 1 then 1%nat else if bl <=? 2 then 2%nat else if bl <=? 4 then 4%nat
  else if bl <=? 8 then 8%nat else if bl <=? 16 then 16%nat else 32%nat.

Lemma pow2_bits_ladder size : pow2_bits size = if size =? 0 then 0%nat else ladder (bit_length size).
Proof. reflexivity. Qed.

Lemma ladder_b2 B : 1 <= B <= 32 -> ladder B = b2 (Z.to_nat B).
Proof.
  intros H. apply Nat.eqb_eq.
  apply (sweep (fun B => (ladder B =? b2 (Z.to_nat B))%nat) 1 32); [vm_compute; reflexivity | lia].
Qed.

Lemma pow2_bits_b2 (n : nat) :
  (0 < n)%nat -> Z.of_nat (width (Z.of_nat n)) <= 32 ->
  pow2_bits (Z.of_nat n - 1) = b2 (width (Z.of_nat n)).
Proof.
  intros Hn Hw. rewrite pow2_bits_ladder.
  assert (Hwb : width (Z.of_nat n) = Z.to_nat (bit_length (Z.of_nat n - 1))).
  { replace (Z.of_nat n) with ((Z.of_nat n - 1) + 1) at 1 by lia. apply width_bit_length. lia. }
  rewrite Hwb in *.
  pose proof (bit_length_nonneg (Z.of_nat n - 1)) as Hb.
  destruct (Z.of_nat n - 1 =? 0) eqn:E.
  - assert (Z.of_nat n - 1 = 0) by lia. rewrite H. reflexivity.
  - assert (1 <= bit_length (Z.of_nat n - 1)).
    { pose proof (bit_length_pos (Z.of_nat n - 1) ltac:(lia)) as Hp.
      destruct (Z.eq_dec (bit_length (Z.of_nat n - 1)) 0) as [E0|E0]; [rewrite E0 in Hp; cbn in Hp; lia | lia]. }
    rewrite ladder_b2 by lia. reflexivity.
Qed.

Definition max_of (a : list Z) : Z := fold_right Z.max 0 a.

Lemma achar_index a c :
  ascending a = true -> (2 ^ Z.of_nat (achar_bits a) - 1 <? max_of a) = true ->
  refines (p_km_char a false (achar_bits a) c) (let* u := achar a c in Ok (pconst u)).
Proof.
  intros Ha Hr. unfold p_km_char, achar. rewrite (index_in_rank a Ha).
  destruct (memb c a) eqn:Em; cbn [bind]; [|apply refines_fail].
  unfold achar_value. unfold max_of in Hr.
  destruct (fold_right Z.max 0 a <=? 2 ^ Z.of_nat (achar_bits a) - 1) eqn:E; [lia|].
  apply refines_emit.
Qed.

(** the class alphabet [ca] used by the implementation, for a character of
    the effective alphabet [a] whose values all fit *)
Lemma achar_fallback ca a bpc c :
  memb c a = true -> (forall x, memb x a = true -> mem_z x ca = true) ->
  bpc = achar_bits a -> (max_of a <=? 2 ^ Z.of_nat (achar_bits a) - 1) = true ->
  refines (p_km_char ca true bpc c) (let* u := achar a c in Ok (pconst u)).
Proof.
  intros Hc Hsub -> Hmax. unfold p_km_char, achar. rewrite (Hsub c Hc), Hc. cbn [bind].
  unfold achar_value. unfold max_of in Hmax. rewrite Hmax. apply refines_emit.
Qed.

Lemma achar_ident ca cls bpc c :
  forallb (fun x => memb x cls) ca = true -> forallb (fun x => memb x ca) cls = true ->
  bpc = achar_bits cls -> (max_of cls <=? 2 ^ Z.of_nat (achar_bits cls) - 1) = true ->
  refines (p_km_char ca true bpc c) (let* u := achar cls c in Ok (pconst u)).
Proof.
  intros H1 H2 -> Hmax. unfold p_km_char, achar. rewrite mem_z_memb.
  assert (Hm : memb c ca = memb c cls).
  { destruct (memb c ca) eqn:Ea; destruct (memb c cls) eqn:Ec; try reflexivity.
    - rewrite (memb_incl _ _ _ H1 Ea) in Ec. discriminate.
    - rewrite (memb_incl _ _ _ H2 Ec) in Ea. discriminate. }
  rewrite Hm. destruct (memb c cls); cbn [bind]; [|apply refines_fail].
  unfold achar_value. unfold max_of in Hmax. rewrite Hmax. apply refines_emit.
Qed.

(** per kind: what per.py's class alphabet is, against the X.680 class *)
Definition class_facts (k : strkind) (cls ca : list Z) (cident : bool) : Prop :=
  length ca = length cls /\
  (cident = true -> forallb (fun x => memb x cls) ca = true /\ forallb (fun x => memb x ca) cls = true /\
                    (max_of cls <=? 2 ^ Z.of_nat (achar_bits cls) - 1) = true /\ k <> SkNumeric) /\
  (cident = false -> ca = cls /\ ascending cls = true /\
                     (2 ^ Z.of_nat (achar_bits cls) - 1 <? max_of cls) = true /\ k = SkNumeric) /\
  pow2_bits (Z.of_nat (length ca) - 1) = achar_bits cls.

Lemma class_facts_all k cls :
  class_alphabet k = Some cls -> exists ca cident, p_class_alphabet k = Some (ca, cident) /\ class_facts k cls ca cident.
Proof.
  destruct k; cbn [class_alphabet p_class_alphabet]; try discriminate; intros H; injection H as <-;
    eexists; eexists; (split; [reflexivity|]); unfold class_facts;
    (split; [vm_compute; reflexivity|]);
    (split; [intros Hc; try discriminate Hc; repeat split; try (vm_compute; reflexivity); discriminate|]);
    (split; [intros Hc; try discriminate Hc; repeat split; vm_compute; reflexivity|]);
    vm_compute; reflexivity.
Qed.

Definition alpha_scope_a (k : strkind) (cls : list Z) (alpha : option (list Z)) (cps : list Z) : bool :=
  match alpha with
  | None => true
  | Some a =>
    ascending a && (0 <? Z.of_nat (length a)) && (Z.of_nat (width (Z.of_nat (length a))) <=? 32) &&
    (if Z.of_nat (length cls) <? 2 ^ Z.of_nat (achar_bits a) then
       (* per.py falls back to the class alphabet *)
       match k with
       | SkNumeric => zlist_eqb a cls
       | _ => forallb (fun c => memb c cls) a && forallb (fun c => memb c a) cps
              && (max_of a <=? 2 ^ Z.of_nat (achar_bits a) - 1)
       end
     else 2 ^ Z.of_nat (achar_bits a) - 1 <? max_of a)
  end.

Lemma zlist_eqb_eq a : forall b, zlist_eqb a b = true -> a = b.
Proof.
  induction a as [|x a IH]; intros [|y b]; cbn [zlist_eqb]; try discriminate; [reflexivity|].
  intros H. apply andb_prop in H. destruct H as [H1 H2]. f_equal; [lia | apply IH; exact H2].
Qed.

Lemma km_params_refines k cls alpha cps :
  class_alphabet k = Some cls -> alpha_scope_a k cls alpha cps = true ->
  let a' := match alpha with Some a => a | None => cls end in
  exists a_im ident,
    p_km_params k alpha = Some (a_im, ident, achar_bits a') /\
    forall c, In c cps -> refines (p_km_char a_im ident (achar_bits a') c) (let* u := achar a' c in Ok (pconst u)).
Proof.
  intros Hc Hs. cbv zeta. destruct (class_facts_all k cls Hc) as (ca & cident & Hpc & Hlen & Hid & Hix & Hbits).
  unfold p_km_params. rewrite Hpc. destruct alpha as [a|].
  - cbn [alpha_scope_a] in Hs. apply andb_prop in Hs. destruct Hs as [Hs Hcase].
    apply andb_prop in Hs. destruct Hs as [Hs Hw32]. apply andb_prop in Hs. destruct Hs as [Hasc Hne].
    assert (Hb : pow2_bits (Z.of_nat (length a) - 1) = achar_bits a) by (apply pow2_bits_b2; lia).
    rewrite Hb, Hlen.
    destruct (Z.of_nat (length cls) <? 2 ^ Z.of_nat (achar_bits a)) eqn:Efb.
    + exists ca, cident. split; [reflexivity|]. intros c Hcin.
      destruct cident.
      * destruct (Hid eq_refl) as (H1 & H2 & _ & Hnn).
        assert (Hcase' : forallb (fun c => memb c cls) a && forallb (fun c => memb c a) cps
                         && (max_of a <=? 2 ^ Z.of_nat (achar_bits a) - 1) = true)
          by (destruct k; try exact Hcase; contradiction).
        apply andb_prop in Hcase'. destruct Hcase' as [Hc' Hmax]. apply andb_prop in Hc'. destruct Hc' as [Hsub Hcps].
        apply achar_fallback; [| | reflexivity | exact Hmax].
        -- rewrite forallb_forall in Hcps. apply Hcps. exact Hcin.
        -- intros x Hx. rewrite mem_z_memb. apply (memb_incl _ _ _ H2). apply (memb_incl _ _ _ Hsub). exact Hx.
      * destruct (Hix eq_refl) as (-> & Hac & Hre & ->). apply zlist_eqb_eq in Hcase. subst a.
        apply achar_index; assumption.
    + exists a, false. split; [reflexivity|]. intros c _. apply achar_index; assumption.
  - exists ca, cident. rewrite Hbits. split; [reflexivity|]. intros c _. destruct cident.
    + destruct (Hid eq_refl) as (H1 & H2 & Hmax & _). apply achar_ident; try assumption. reflexivity.
    + destruct (Hix eq_refl) as (-> & Hac & Hre & _). apply achar_index; assumption.
Qed.

Section WithPadEmpty.
Variable pe : bool.

Definition km_scope_a (k : strkind) (sz : size) (alpha : option (list Z)) (cps : list Z) : bool :=
  match class_alphabet k with
  | None => false
  | Some cls =>
    let a := match alpha with Some a => a | None => cls end in
    let b := Z.of_nat (achar_bits a) in
    let n := Z.of_nat (length cps) in
    alpha_scope_a k cls alpha cps && size_root_scope sz n && (0 <=? sz_lb sz)
    && (negb (sz_var_bounded sz)
        || Bool.eqb ((size_hi sz >? 1) && (n >? 0))
                    ((16 <=? size_hi sz * b) && (((0 <? n) && (0 <? b)) || pe)))
  end.

Lemma achar_length a c u : achar a c = Ok u -> length u = achar_bits a.
Proof. unfold achar. destruct (memb c a); [|discriminate]. intros H. injection H as <-. apply to_bits_length. Qed.

Lemma kmstring_refines_a k sz alpha cps :
  km_scope_a k sz alpha cps = true ->
  refines (p_kmstring k sz alpha cps) (rser pe (akmstring_fields k sz alpha cps)).
Proof.
  unfold km_scope_a, p_kmstring, akmstring_fields.
  destruct (class_alphabet k) as [cls|] eqn:Ec; [|discriminate]. cbv zeta. intros H.
  apply andb_prop in H. destruct H as [H Hva]. apply andb_prop in H. destruct H as [H Hlb].
  apply andb_prop in H. destruct H as [Ha Hsz].
  destruct (km_params_refines k cls alpha cps Ec Ha) as (a_im & ident & Hp & Hch). cbv zeta in Hp, Hch.
  rewrite Hp. set (a := match alpha with Some a => a | None => cls end) in *.
  set (bpc := achar_bits a) in *.
  set (va := (size_hi sz >? 1) && (Z.of_nat (length cps) >? 0)).
  set (fa := size_hi sz * Z.of_nat bpc >? 16).
  pose proof (astring_refines pe (p_km_char a_im ident bpc) (achar a) cps bpc Hch
                ltac:(intros x u _ Hu; apply (achar_length a x u Hu))
                sz va fa (match sz_ub sz with Some u => 16 <=? u * Z.of_nat bpc | None => true end)
                Hsz ltac:(lia) ltac:(intros; reflexivity)) as Hr.
  eapply refines_enc_ext; [|apply Hr].
  - intros st. unfold pbind at 1. unfold pbind at 1.
    assert (Hpre : (if size_ext sz
                    then if size_in_root sz (Z.of_nat (length cps)) then pemit [false]
                         else pfail (EForeign "NotImplementedError")
                    else pemit []) st = (if size_ext sz then pemit [false] else pemit []) st).
    { destruct (size_ext sz) eqn:Ex; [|reflexivity].
      pose proof Hsz as Hsz'. unfold size_root_scope in Hsz'. apply andb_prop in Hsz'. destruct Hsz' as [Hin Hop].
      rewrite size_in_root_eq by assumption. rewrite Hin. reflexivity. }
    rewrite Hpre. reflexivity.
  - intros Hv. rewrite Hv in Hva. cbn [negb orb] in Hva. apply eqb_prop in Hva. unfold va.
    rewrite Hva. f_equal. f_equal.
    unfold sz_var_bounded in Hv. destruct sz as [|lo [hi|] x]; cbn [sz_ub size_hi] in *; try discriminate. reflexivity.
Qed.
End WithPadEmpty.

(** ** Constructed types, ALIGNED *)

Definition err_eqb (a b : err) : bool :=
  match a, b with
  | EDecode, EDecode | EOutOfData, EOutOfData | EEncode, EEncode | EConstraints, EConstraints
  | EFuel, EFuel | EUnmodelled, EUnmodelled => true
  | EMissing o1 e1, EMissing o2 e2 => (o1 =? o2) && (e1 =? e2)
  | EForeign s1, EForeign s2 => String.eqb s1 s2
  | _, _ => false
  end.
Lemma err_eqb_eq a b : err_eqb a b = true -> a = b.
Proof.
  destruct a, b; cbn [err_eqb]; try discriminate; try reflexivity.
  - intros H. apply andb_prop in H. destruct H. f_equal; lia.
  - intros H. apply String.eqb_eq in H. congruence.
Qed.

(** the octets of an open type, for a non-empty content of fewer than 16K octets *)
Lemma open_bits_eq (bs : bits) :
  open_ok bs = true ->
  enc_len_single (Z.of_nat (length (pad8 bs) / 8)) = Ok (len_short (Z.of_nat (length (bits_to_bytes bs)))) /\
  unbounded_count (map (to_bits 8) (complete_octets bs))
  = len_short (Z.of_nat (length (bits_to_bytes bs))) ++ pad8 bs /\
  (length (len_short (Z.of_nat (length (bits_to_bytes bs))) ++ pad8 bs) mod 8 = 0)%nat.
Proof.
  unfold open_ok. intros H. apply andb_prop in H. destruct H as [Hne Hlen].
  assert (Hc : complete_octets bs = bits_to_bytes bs) by (destruct bs; [cbn in Hne; lia | reflexivity]).
  rewrite Hc, pad8_bytes, bytes_to_bits_length.
  replace (8 * length (bits_to_bytes bs) / 8)%nat with (length (bits_to_bytes bs))
    by (rewrite Nat.mul_comm, Nat.div_mul; lia).
  rewrite enc_len_single_eq by lia. rewrite Hlen. split; [reflexivity|]. split.
  - rewrite unbounded_small by (rewrite map_length; lia). rewrite map_length.
    unfold bytes_to_bits. rewrite flat_map_concat_map. reflexivity.
  - rewrite app_length, bytes_to_bits_length. rewrite len_short_eq by lia.
    pose proof (enc_len_short_len8 (Z.of_nat (length (bits_to_bytes bs)))) as H8.
    rewrite Nat.add_mod by lia. rewrite H8. rewrite Nat.mul_comm, Nat.mod_mul by lia. reflexivity.
Qed.

Lemma find_alt_lookup' name alts : forall i0,
  match alt_lookup name alts with
  | None => find_alt name alts i0 = None
  | Some (k, t) => exists m, find_alt name alts i0 = Some (i0 + Z.of_nat k, m) /\ m_ty m = t /\ (k < length alts)%nat
  end.
Proof.
  induction alts as [|m alts IH]; intros i0; [reflexivity|]. cbn [alt_lookup find_alt].
  destruct (String.eqb (m_name m) name).
  - exists m. repeat split; [f_equal; f_equal; lia | cbn [length]; lia].
  - specialize (IH (i0 + 1)). destruct (alt_lookup name alts) as [[k t]|].
    + destruct IH as (m' & Hf & Ht & Hk). exists m'. repeat split; [rewrite Hf; f_equal; f_equal; lia | exact Ht | cbn [length]; lia].
    + exact IH.
Qed.

Section ACompositeRefine.
  Variable pe : bool.
  Variable encT : ty -> value -> penc.
  Variable recF : ty -> value -> result (list afield).
  Variable scopeT : ty -> value -> bool.
  Variable res : ty -> ty.
  Hypothesis HT : forall t v, scopeT t v = true -> refines (encT t v) (rser pe (recF t v)).

  Lemma refines_bind_ser m k ra rb :
    refines m (rser pe ra) -> refines k (rser pe rb) ->
    refines (m ;; k) (rser pe (let* a := ra in let* b := rb in Ok (a ++ b))).
  Proof.
    intros Hm Hk. pose proof (refines_bind _ _ _ _ Hm Hk) as Hb. intros st. rewrite Hb.
    unfold rser. destruct ra as [a|e]; cbn [bind]; [|reflexivity]. destruct rb as [b|e]; cbn [bind]; [|reflexivity].
    rewrite (ser_app pe a b). reflexivity.
  Qed.

  Lemma refines_nil : refines (pemit []) (rser pe (Ok [])).
  Proof. apply refines_emit. Qed.

  (** *** 19: root *)
  Lemma member_refines_a m data :
    comp_scope scopeT res m data = true ->
    refines (p_member encT res m data false) (rser pe (acomp_fields recF res m data)).
  Proof.
    unfold comp_scope, p_member, acomp_fields, comp_present.
    destruct (lookup (m_name m) data) as [v|].
    - destruct (m_opt m) as [| |d]; cbn [negb orb].
      + intros H. apply HT. exact H.
      + intros H. apply HT. exact H.
      + rewrite same_value_eq. destruct (is_default_value (res (m_ty m)) v d); cbn [negb orb].
        * intros _. apply refines_nil.
        * intros H. apply HT. exact H.
    - intros _. destruct (m_opt m); [apply refines_fail | apply refines_nil | apply refines_nil].
  Qed.

  Lemma members_refines_a ms data :
    root_scope scopeT res ms data = true ->
    refines (p_all (fun m => p_member encT res m data false) ms) (rser pe (acomps_fields recF res ms data)).
  Proof.
    induction ms as [|m ms IH]; cbn [root_scope forallb p_all acomps_fields].
    - intros _ st. cbn. rewrite pst_app_nil. reflexivity.
    - intros H. apply andb_prop in H. destruct H as [Hm Hms].
      apply refines_bind_ser; [apply member_refines_a; exact Hm | apply IH; exact Hms].
  Qed.

  Lemma ser_bits {A} (p : A -> bool) l : peq (serialise_aligned pe (map (fun x => ABit (p x)) l)) (pconst (map p l)).
  Proof.
    induction l as [|x l IH]; [apply peq_refl|]. cbn [map]. rewrite ser_cons. cbn [aser].
    eapply peq_trans; [apply pcat_ext; [apply peq_refl | exact IH]|]. apply pcat_const.
  Qed.

  Lemma root_refines_a ms data :
    root_scope scopeT res ms data = true ->
    refines (p_root encT res ms data) (rser pe (aseq_root_fields recF res ms data)).
  Proof.
    intros H. unfold p_root, aseq_root_fields.
    pose proof (refines_bind _ _ _ _ (refines_emit (map (fun m => presence_bit res m data) (filter has_presence_bit ms)))
                  (members_refines_a ms data H)) as Hb.
    intros st. rewrite Hb. unfold rser. destruct (acomps_fields recF res ms data) as [body|e]; cbn [bind]; [|reflexivity].
    rewrite (ser_app pe _ body). unfold pcat. rewrite (ser_bits _ _ (fst st)).
    change (@optional_or_default ty) with (@has_presence_bit ty).
    unfold pconst.
    rewrite (map_ext_in (fun m => comp_present res m data) (fun m => presence_bit res m data)); [reflexivity|].
    intros m Hm. apply filter_In in Hm. symmetry. apply presence_eq. apply Hm.
  Qed.

  (** *** 19: extension additions *)
  Definition aaddition_scope (a : addition_of ty) (data : list (string * value)) : bool :=
    match a with
    | (true, ms) =>
      if addition_present res a data then
        mandatory_present ms data && root_scope scopeT res ms data &&
        match aseq_root_fields recF res ms data with
        | Ok fs => let bs := serialise_aligned pe fs 0%nat in group_visible ms bs && open_ok bs
        | Err _ => true
        end
      else true
    | (false, [m]) =>
      match lookup (m_name m) data with
      | None => true
      | Some v =>
        comp_present res m data && scopeT (m_ty m) v &&
        match recF (m_ty m) v with Ok fs => open_ok (serialise_aligned pe fs 0%nat) | Err _ => true end
      end
    | (false, _) => false
    end.

  Fixpoint aadds_scope (adds : list (addition_of ty)) (data : list (string * value)) : bool :=
    match adds with
    | [] => true
    | a :: r =>
      aaddition_scope a data &&
      (if stops res a data then negb (existsb (fun a' => addition_present res a' data) r)
       else aadds_scope r data)
    end.

  Lemma all_absent_open_a r data :
    existsb (fun a => addition_present res a data) r = false -> aadditions_open recF res r data = Ok [].
  Proof.
    induction r as [|a r IH]; [reflexivity|]. cbn [existsb aadditions_open]. intros H.
    apply orb_false_iff in H. destruct H as [-> H]. apply IH. exact H.
  Qed.

  (** whether a member encoder succeeds does not depend on the state *)
  Lemma member_ok_indep m data acc :
    comp_scope scopeT res m data = true ->
    p_member encT res m data false acc =
    match acomp_fields recF res m data with
    | Ok fs => Ok (pst_app acc (serialise_aligned pe fs (fst acc)))
    | Err e => Err e
    end.
  Proof. intros H. rewrite (member_refines_a m data H). unfold rser. destruct (acomp_fields recF res m data); reflexivity. Qed.

  Lemma gmf_present_a ms data : forall acc,
    mandatory_present ms data = true -> p_group_missing_first encT res ms data acc = false.
  Proof.
    induction ms as [|m ms IH]; intros acc; [reflexivity|]. cbn [mandatory_present forallb p_group_missing_first].
    intros H. apply andb_prop in H. destruct H as [Hm Hms].
    unfold is_mandatory in Hm. destruct (lookup (m_name m) data) as [v|].
    - destruct (p_member encT res m data false acc); [apply IH; exact Hms | reflexivity].
    - destruct (m_opt m); [discriminate | apply IH; exact Hms | apply IH; exact Hms].
  Qed.

  Lemma absent_member_a m data :
    comp_present res m data = false ->
    (lookup (m_name m) data = None /\ is_mandatory m = true) \/
    (is_mandatory m = false /\ (forall acc, p_member encT res m data false acc = Ok acc) /\
     acomp_fields recF res m data = Ok []).
  Proof.
    unfold comp_present, is_mandatory, p_member, acomp_fields, comp_present.
    destruct (lookup (m_name m) data) as [v|].
    - destruct (m_opt m) as [| |d]; try discriminate. intros H. right.
      rewrite H. apply negb_false_iff in H. rewrite same_value_eq in H. rewrite H. cbn [negb orb].
      repeat split. intros acc. unfold pemit. rewrite pst_app_nil. reflexivity.
    - intros _. destruct (m_opt m); [left; split; reflexivity | right | right];
        (repeat split; intros acc; unfold pemit; rewrite pst_app_nil; reflexivity).
  Qed.

  Lemma gmf_absent_a ms data : forall acc,
    all_absent res ms data -> p_group_missing_first encT res ms data acc = existsb is_mandatory ms.
  Proof.
    induction ms as [|m ms IH]; intros acc; [reflexivity|]. intros H. apply all_absent_cons in H. destruct H as [Hm Hms].
    cbn [p_group_missing_first existsb].
    destruct (absent_member_a m data Hm) as [[Hl Hman]|[Hman [He _]]].
    - rewrite Hl, Hman. unfold is_mandatory in Hman. destruct (m_opt m); try discriminate. reflexivity.
    - rewrite Hman, He. cbn [orb]. unfold is_mandatory in Hman.
      destruct (lookup (m_name m) data); [apply IH; exact Hms|].
      destruct (m_opt m); [discriminate | apply IH; exact Hms | apply IH; exact Hms].
  Qed.

  Lemma absent_root_scope ms data : all_absent res ms data -> root_scope scopeT res ms data = true.
  Proof.
    intros H. unfold root_scope. apply forallb_forall. intros m Hm. unfold comp_scope.
    destruct (lookup (m_name m) data); [|reflexivity]. rewrite (H m Hm). reflexivity.
  Qed.

  Lemma absent_comps ms data :
    all_absent res ms data -> existsb is_mandatory ms = false -> acomps_fields recF res ms data = Ok [].
  Proof.
    induction ms as [|m ms IH]; [reflexivity|]. intros H Hman. apply all_absent_cons in H.
    destruct H as [Hm Hms]. cbn [existsb] in Hman. apply orb_false_iff in Hman. destruct Hman as [Hman1 Hman2].
    cbn [acomps_fields]. destruct (absent_member_a m data Hm) as [[_ Hc]|[_ [_ Hf]]]; [congruence|].
    rewrite Hf, (IH Hms Hman2). reflexivity.
  Qed.

  Lemma absent_group_a ms data :
    all_absent res ms data -> existsb is_mandatory ms = false -> p_group encT res ms data = Ok [].
  Proof.
    intros H Hman. unfold p_group.
    rewrite (refines_prun _ _ (root_refines_a ms data (absent_root_scope ms data H))).
    unfold aseq_root_fields. rewrite (absent_comps ms data H Hman). cbn [bind rser]. rewrite app_nil_r.
    rewrite (ser_bits _ _ 0%nat). unfold pconst.
    change (@optional_or_default ty) with (@has_presence_bit ty).
    rewrite (map_ext_in (fun m => comp_present res m data) (fun m => presence_bit res m data))
      by (intros m Hm; apply filter_In in Hm; symmetry; apply presence_eq; apply Hm).
    rewrite absent_preamble by exact H.
    rewrite all_false_repeat, repeat_length, Nat.eqb_refl. reflexivity.
  Qed.

  (** the open types of the additions that are present: the octets the
      implementation appends after its alignment *)
  Lemma aadds_refine adds data :
    aadds_scope adds data = true ->
    match aadditions_open recF res adds data with
    | Err e => p_adds encT res adds data = Err e
    | Ok opens =>
      exists processed obits,
        p_adds encT res adds data = Ok processed /\
        (length processed <= length adds)%nat /\
        map (@is_some bits) processed ++ repeat false (length adds - length processed)
        = map (fun a => addition_present res a data) adds /\
        enc_open_types processed = Ok obits /\
        (length obits mod 8 = 0)%nat /\
        (forall pos, serialise_aligned pe opens pos = match opens with [] => [] | _ => pad pos end ++ obits)
    end.
  Proof.
    induction adds as [|[isg ms] r IH]; cbn [aadds_scope].
    - intros _. exists [], []. repeat split; reflexivity || (cbn; lia).
    - intros H. apply andb_prop in H. destruct H as [Hs Hrest].
      assert (Hstop : stops res (isg, ms) data = true ->
                      addition_present res (isg, ms) data = false /\
                      aadditions_open recF res r data = Ok [] /\
                      map (fun a => addition_present res a data) r = repeat false (length r)).
      { intros Hst. rewrite Hst in Hrest. unfold stops in Hst. apply andb_prop in Hst.
        destruct Hst as [Hst _]. apply negb_true_iff in Hst. apply negb_true_iff in Hrest.
        split; [exact Hst|]. split; [apply all_absent_open_a; exact Hrest | apply existsb_false_map; exact Hrest]. }
      assert (Hcont : forall (o : option bits) (fso : list afield),
                 stops res (isg, ms) data = false ->
                 addition_present res (isg, ms) data = is_some o ->
                 (match o with
                  | Some bs => exists fs, fso = [AOpen fs] /\ bs = serialise_aligned pe fs 0%nat /\ open_ok bs = true
                  | None => fso = [] end) ->
                 match (let* rest := aadditions_open recF res r data in Ok (fso ++ rest)) with
                 | Err e => (let* rest := p_adds encT res r data in Ok (o :: rest)) = Err e
                 | Ok opens =>
                   exists processed obits,
                     (let* rest := p_adds encT res r data in Ok (o :: rest)) = Ok processed /\
                     (length processed <= length ((isg, ms) :: r))%nat /\
                     map (@is_some bits) processed ++ repeat false (length ((isg, ms) :: r) - length processed)
                     = map (fun a => addition_present res a data) ((isg, ms) :: r) /\
                     enc_open_types processed = Ok obits /\
                     (length obits mod 8 = 0)%nat /\
                     (forall pos, serialise_aligned pe opens pos = match opens with [] => [] | _ => pad pos end ++ obits)
                 end).
      { intros o fso Hst Hp Ho. rewrite Hst in Hrest. specialize (IH Hrest).
        destruct (aadditions_open recF res r data) as [opens|e]; cbn [bind].
        - destruct IH as (pr & ob & Hpr & Hlen & Hmap & Hopen & Hob8 & Hser). rewrite Hpr. cbn [bind].
          destruct o as [bs|].
          + destruct Ho as (fs & -> & -> & Hok).
            destruct (open_bits_eq _ Hok) as (Hl & Hu & H8).
            exists (Some (serialise_aligned pe fs 0%nat) :: pr),
                   ((len_short (Z.of_nat (length (bits_to_bytes (serialise_aligned pe fs 0%nat))))
                     ++ pad8 (serialise_aligned pe fs 0%nat)) ++ ob).
            split; [reflexivity|]. split; [cbn [length]; apply le_n_S; exact Hlen|]. split.
            * cbn [map length app Nat.sub]. rewrite Hp. f_equal. exact Hmap.
            * split; [cbn [enc_open_types]; rewrite Hl; cbn [bind]; rewrite Hopen; cbn [bind]; rewrite <- app_assoc; reflexivity|].
              split; [rewrite app_length, Nat.add_mod, H8, Hob8 by lia; reflexivity|].
              intros pos. cbn [app]. rewrite ser_cons. unfold pcat. cbn [aser]. fold (serialise_aligned pe fs).
              rewrite Hu. rewrite aligned_split. rewrite Hser.
              assert (Hal : ((length (pad pos ++ len_short (Z.of_nat (length (bits_to_bytes (serialise_aligned pe fs 0%nat))))
                                              ++ pad8 (serialise_aligned pe fs 0%nat)) + pos) mod 8 = 0)%nat).
              { rewrite app_length. rewrite <- Nat.add_assoc, (Nat.add_comm (length _) pos), Nat.add_assoc.
                rewrite (Nat.add_comm (length (pad pos)) pos) at 1.
                rewrite Nat.add_mod by lia. rewrite H8. rewrite (Nat.add_comm pos), pad_makes_aligned. reflexivity. }
              rewrite (pad_aligned _ Hal). destruct opens; cbn [app]; rewrite <- !app_assoc; reflexivity.
          + subst fso. cbn [app]. exists (None :: pr), ob.
            split; [reflexivity|]. split; [cbn [length]; apply le_n_S; exact Hlen|]. split.
            * cbn [map length app Nat.sub]. rewrite Hp. f_equal. exact Hmap.
            * split; [exact Hopen|]. split; [exact Hob8 | exact Hser].
        - rewrite IH. reflexivity. }
      destruct isg.
      + cbn [p_adds aadditions_open]. cbn [aaddition_scope] in Hs.
        destruct (addition_present res (true, ms) data) eqn:Ep.
        * apply andb_prop in Hs. destruct Hs as [Hs Hfs]. apply andb_prop in Hs. destruct Hs as [Hman Hroot].
          rewrite (gmf_present_a ms data _ Hman). unfold p_group.
          rewrite (refines_prun _ _ (root_refines_a ms data Hroot)).
          cbn [aaddition_fields]. unfold rser.
          destruct (aseq_root_fields recF res ms data) as [fs|e]; cbn [bind]; [|reflexivity].
          cbv zeta in Hfs. apply andb_prop in Hfs. destruct Hfs as [Hvis Hok].
          unfold group_visible in Hvis. apply negb_true_iff in Hvis.
          rewrite all_false_zero. change (@has_presence_bit ty) with (@optional_or_default ty). rewrite Hvis.
          cbn [bind].
          assert (Hne : (0 <? length (serialise_aligned pe fs 0%nat))%nat = true)
            by (unfold open_ok in Hok; apply andb_prop in Hok; apply Hok).
          rewrite Hne.
          pose proof (Hcont (Some (serialise_aligned pe fs 0%nat)) [AOpen fs]) as Hc. cbn [app] in Hc.
          destruct (aadditions_open recF res r data) as [opens|e]; cbn [bind] in *; apply Hc;
            try (unfold stops; rewrite Ep; reflexivity); try reflexivity; exists fs; repeat split; exact Hok.
        * assert (Habs : all_absent res ms data) by (apply existsb_absent; exact Ep).
          rewrite (gmf_absent_a ms data _ Habs).
          destruct (existsb is_mandatory ms) eqn:Em.
          -- destruct Hstop as (_ & Hopen & Hmap); [unfold stops; rewrite Ep; cbn [snd]; rewrite Em; reflexivity|].
             rewrite Hopen. exists [], []. split; [reflexivity|]. split; [apply Nat.le_0_l|]. split.
             ++ cbn [map app length Nat.sub repeat]. rewrite Ep, Hmap. reflexivity.
             ++ repeat split.
          -- rewrite (absent_group_a ms data Habs Em). cbn [bind length]. change (0 <? 0)%nat with false.
             pose proof (Hcont None []) as Hc. cbn [app] in Hc.
             destruct (aadditions_open recF res r data) as [opens|e]; cbn [bind] in *; apply Hc;
               try (unfold stops; rewrite Ep; cbn [snd]; rewrite Em; reflexivity); reflexivity.
      + destruct ms as [|m [|m2 ms']]; cbn [aaddition_scope] in Hs; try discriminate.
        cbn [p_adds aadditions_open].
        assert (Hpres : addition_present res (false, [m]) data = comp_present res m data)
          by (unfold addition_present; cbn [snd existsb]; apply orb_false_r).
        rewrite Hpres.
        destruct (lookup (m_name m) data) as [v|] eqn:El.
        * apply andb_prop in Hs. destruct Hs as [Hs Hok]. apply andb_prop in Hs. destruct Hs as [Hcp Hsc].
          rewrite Hcp. cbn [aaddition_fields]. unfold acomp_fields. rewrite El, Hcp.
          assert (Hem : forall st, p_member encT res m data true st = encT (m_ty m) v st).
          { intros st. unfold p_member. rewrite El. destruct (m_opt m); try reflexivity. rewrite orb_true_r. reflexivity. }
          rewrite (refines_prun _ _ (refines_enc_ext _ _ _ (fun st => eq_sym (Hem st)) (HT _ _ Hsc))).
          unfold rser. destruct (recF (m_ty m) v) as [fs|e]; cbn [bind]; [|reflexivity].
          rewrite orb_true_r.
          pose proof (Hcont (Some (serialise_aligned pe fs 0%nat)) [AOpen fs]) as Hc. cbn [app] in Hc.
          destruct (aadditions_open recF res r data) as [opens|e]; cbn [bind] in *; apply Hc;
            try (unfold stops; rewrite Hpres, Hcp; reflexivity); try (rewrite Hpres, Hcp; reflexivity);
            exists fs; repeat split; exact Hok.
        * assert (Hcp : comp_present res m data = false) by (unfold comp_present; rewrite El; reflexivity).
          rewrite Hcp. destruct (m_opt m) eqn:Eo.
          -- destruct Hstop as (_ & Hopen & Hmap).
             { unfold stops. rewrite Hpres, Hcp. cbn [snd existsb negb andb]. unfold is_mandatory. rewrite Eo. reflexivity. }
             rewrite Hopen. exists [], []. split; [reflexivity|]. split; [apply Nat.le_0_l|]. split.
             ++ cbn [map app length Nat.sub repeat]. rewrite Hpres, Hcp, Hmap. reflexivity.
             ++ repeat split.
          -- assert (Hem : prun (p_member encT res m data true) = Ok [])
               by (unfold prun, p_member; rewrite El, Eo; reflexivity).
             rewrite Hem. cbn [bind length]. change (0 <? 0)%nat with false. cbn [orb].
             pose proof (Hcont None []) as Hc. cbn [app] in Hc.
             destruct (aadditions_open recF res r data) as [opens|e]; cbn [bind] in *; apply Hc;
               try (unfold stops; rewrite Hpres, Hcp; cbn [snd existsb negb andb]; unfold is_mandatory; rewrite Eo; reflexivity);
               try (rewrite Hpres, Hcp; reflexivity); reflexivity.
          -- assert (Hem : prun (p_member encT res m data true) = Ok [])
               by (unfold prun, p_member; rewrite El, Eo; reflexivity).
             rewrite Hem. cbn [bind length]. change (0 <? 0)%nat with false. cbn [orb].
             pose proof (Hcont None []) as Hc. cbn [app] in Hc.
             destruct (aadditions_open recF res r data) as [opens|e]; cbn [bind] in *; apply Hc;
               try (unfold stops; rewrite Hpres, Hcp; cbn [snd existsb negb andb]; unfold is_mandatory; rewrite Eo; reflexivity);
               try (rewrite Hpres, Hcp; reflexivity); reflexivity.
  Qed.
End ACompositeRefine.

Section ACompositeRefine2.
  Variable pe : bool.
  Variable encT : ty -> value -> penc.
  Variable recF : ty -> value -> result (list afield).
  Variable scopeT : ty -> value -> bool.
  Variable res : ty -> ty.
  Hypothesis HT : forall t v, scopeT t v = true -> refines (encT t v) (rser pe (recF t v)).

  (** *** 19 SEQUENCE *)
  Definition aseq_scope (root : list (member_of ty)) (ext : option (list (addition_of ty))) (v : value) : bool :=
    match v with
    | VSeq data =>
      root_scope scopeT res root data &&
      match ext with
      | None => true
      | Some adds =>
        (Z.of_nat (length adds) <=? 64) && aadds_scope pe recF scopeT res adds data &&
        (* per.py encodes the additions before the root: if both fail, with the same error *)
        match aseq_root_fields recF res root data, aadditions_open recF res adds data with
        | Err e1, Err e2 => err_eqb e1 e2
        | _, _ => true
        end
      end
    | _ => false
    end.

  Lemma opens_nonempty adds data :
    existsb (fun a => addition_present res a data) adds = true ->
    aadditions_open recF res adds data = Ok [] -> False.
  Proof.
    induction adds as [|a r IH]; cbn [existsb aadditions_open]; [discriminate|].
    destruct (addition_present res a data); cbn [orb].
    - intros _. destruct (aaddition_fields recF res a data); cbn [bind]; [|discriminate].
      destruct (aadditions_open recF res r data); cbn [bind]; discriminate.
    - exact IH.
  Qed.

  Lemma small_len_64 n : 1 <= n <= 64 -> enc_small_len n = Ok (false :: to_bits 6 (n - 1)).
  Proof. intros H. rewrite small_len_eq by lia. replace (n <=? 64) with true by lia. reflexivity. Qed.

  Lemma aseq_refines root ext v :
    aseq_scope root ext v = true ->
    refines (p_seq encT res root ext v) (rser pe (aseq_fields recF res root ext v)).
  Proof.
    unfold aseq_scope, p_seq, aseq_fields. destruct v; try discriminate. rename fields into data.
    intros H. apply andb_prop in H. destruct H as [Hroot Hext].
    pose proof (root_refines_a pe encT recF scopeT res HT root data Hroot) as Hr.
    destruct ext as [adds|].
    2:{ intros st. rewrite Hr. unfold rser. destruct (aseq_root_fields recF res root data); reflexivity. }
    apply andb_prop in Hext. destruct Hext as [Hext Herr]. apply andb_prop in Hext. destruct Hext as [Hn Hadds].
    pose proof (aadds_refine pe encT recF scopeT res HT adds data Hadds) as Ha.
    intros st.
    assert (Hpa : (match adds with [] => Ok [] | _ :: _ => p_adds encT res adds data end) = p_adds encT res adds data)
      by (destruct adds; reflexivity).
    rewrite Hpa. clear Hpa.
    destruct (existsb (fun a => addition_present res a data) adds) eqn:Eex.
    - destruct (aadditions_open recF res adds data) as [opens|e2] eqn:Eo.
      + destruct Ha as (pr & ob & Hpr & Hlen & Hmap & Hopen & Hob8 & Hser). rewrite Hpr. cbn [bind].
        assert (Hex : existsb (@is_some bits) pr = true).
        { rewrite <- existsb_map_id, <- (existsb_app_false _ (length adds - length pr)), Hmap, existsb_map_id. exact Eex. }
        rewrite Hex. cbn [negb]. rewrite Hmap.
        assert (Hn1 : 1 <= Z.of_nat (length adds)).
        { destruct adds; [discriminate Eex | cbn [length]; lia]. }
        pose proof (refines_bind _ _ _ _ (refines_emit [true])
                      (refines_bind _ _ _ _ Hr
                         (refines_bind _ _ _ _ (refines_lift (enc_small_len (Z.of_nat (length adds))))
                            (refines_bind _ _ _ _ (refines_emit (map (fun a => addition_present res a data) adds))
                               (refines_bind _ _ _ _ refines_align
                                  (refines_enc_ext _ _ _ (fun st => eq_sym (p_open_types_eq pr st))
                                     (refines_lift (enc_open_types pr)))))))) as Hb.
        rewrite Hb. clear Hb. unfold rser.
        destruct (aseq_root_fields recF res root data) as [r|e]; cbn [bind]; [|reflexivity].
        rewrite small_len_64 by lia. rewrite Hopen. cbn [bind].
        do 2 f_equal. generalize (fst st).
        change (peq (pcat (pconst [true])
                      (pcat (serialise_aligned pe r)
                         (pcat (pconst (false :: to_bits 6 (Z.of_nat (length adds) - 1)))
                            (pcat (pconst (map (fun a => addition_present res a data) adds)) (pcat pad (pconst ob))))))
                    (serialise_aligned pe
                       (ABit true :: r ++ ASmallCounted (map (fun a => [ABit (addition_present res a data)]) adds) :: opens))).
        rewrite ser_cons. apply pcat_ext; [apply peq_refl|].
        eapply peq_trans; [|apply peq_sym, ser_app]. apply pcat_ext; [apply peq_refl|].
        rewrite ser_cons. eapply peq_trans; [apply peq_sym, pcat_assoc|]. apply pcat_ext.
        * cbn [aser]. rewrite map_length. replace (Z.of_nat (length adds) <=? 64) with true by lia.
          apply pcat_ext; [apply peq_refl|]. rewrite map_map.
          eapply peq_trans; [|apply pconcat_ext with (a := map pconst (map (fun a => [addition_present res a data]) adds))].
          -- intros pos. rewrite (pconcat_const _ pos). unfold pconst. rewrite concat_singletons. reflexivity.
          -- rewrite map_map. clear. induction adds as [|a l IH]; cbn [map]; constructor; [|exact IH].
             cbn [pconcat aser]. apply peq_sym, pcat_nil_r.
        * intros pos. rewrite Hser. destruct opens as [|o opens']; [|reflexivity].
          exfalso. apply (opens_nonempty adds data Eex Eo).
      + rewrite Ha. cbn [bind]. unfold rser.
        destruct (aseq_root_fields recF res root data) as [r|e1]; cbn [bind]; [reflexivity|].
        apply err_eqb_eq in Herr. subst. reflexivity.
    - rewrite (all_absent_open_a recF res adds data Eex) in Ha.
      destruct Ha as (pr & ob & Hpr & Hlen & Hmap & Hopen & _). rewrite Hpr. cbn [bind].
      assert (Hex : existsb (@is_some bits) pr = false).
      { rewrite <- existsb_map_id, <- (existsb_app_false _ (length adds - length pr)), Hmap, existsb_map_id. exact Eex. }
      rewrite Hex. cbn [negb].
      pose proof (refines_bind _ _ _ _ (refines_emit [false]) Hr) as Hb. rewrite Hb. unfold rser.
      destruct (aseq_root_fields recF res root data) as [r|e]; reflexivity.
  Qed.
End ACompositeRefine2.

Section ACompositeRefine3.
  Variable pe : bool.
  Variable encT : ty -> value -> penc.
  Variable recF : ty -> value -> result (list afield).
  Variable scopeT : ty -> value -> bool.
  Hypothesis HT : forall t v, scopeT t v = true -> refines (encT t v) (rser pe (recF t v)).

  (** *** 20 SEQUENCE OF *)
  (** in the root, or outside the root of an extensible SIZE; where the count
      is fragmented (unbounded, or outside the root): fewer than 16K elements,
      because the implementation does not re-align the later fragment headers *)
  Definition aseqof_size_scope (sz : size) (n : Z) : bool :=
    (0 <=? sz_lb sz) &&
    ((size_root_scope sz n && (negb (size_unbound sz) || (n <? 16384)))
     || (sz_ext sz && negb (sz_open_ext sz) && negb (sz_in_root sz n) && (n <? 16384))).

  Definition aseqof_scope (elem : ty) (sz : size) (v : value) : bool :=
    match v with
    | VList vs => forallb (scopeT elem) vs && aseqof_size_scope sz (Z.of_nat (length vs))
    | _ => false
    end.

  Lemma elems_refines elem vs :
    forallb (scopeT elem) vs = true ->
    refines (p_all (encT elem) vs) (let* items := map_result (recF elem) vs in Ok (pconcat (map (serialise_aligned pe) items))).
  Proof.
    intros Hel.
    assert (Hg : forall x, In x vs -> refines (encT elem x) (rser pe (recF elem x))).
    { intros x Hx. apply HT. rewrite forallb_forall in Hel. apply Hel. exact Hx. }
    pose proof (refines_all (encT elem) (fun x => rser pe (recF elem x)) vs Hg) as H.
    intros st. rewrite H. unfold rser.
    assert (Hm : map_result (fun x => let* fs := recF elem x in Ok (serialise_aligned pe fs)) vs
                 = (let* items := map_result (recF elem) vs in Ok (map (serialise_aligned pe) items))).
    { clear. induction vs as [|x l IH]; [reflexivity|]. cbn [map_result]. rewrite IH.
      destruct (recF elem x); cbn [bind]; [|reflexivity]. destruct (map_result (recF elem) l); reflexivity. }
    rewrite Hm. destruct (map_result (recF elem) vs); reflexivity.
  Qed.

  Lemma aseqof_refines elem sz v :
    aseqof_scope elem sz v = true ->
    refines (p_seqof encT elem sz v) (rser pe (aseqof_fields recF elem sz v)).
  Proof.
    unfold aseqof_scope, p_seqof, aseqof_fields. destruct v; try discriminate.
    intros H. apply andb_prop in H. destruct H as [Hel Hsz]. cbv zeta.
    pose proof (elems_refines elem vs Hel) as Hall.
    assert (Hg : forall x, In x vs -> refines (encT elem x) (rser pe (recF elem x))).
    { intros x Hx. apply HT. rewrite forallb_forall in Hel. apply Hel. exact Hx. }
    unfold aseqof_size_scope in Hsz. apply andb_prop in Hsz. destruct Hsz as [Hlb Hsz].
    set (n := Z.of_nat (length vs)) in *.
    destruct (size_root_scope sz n) eqn:Er.
    - cbn [andb orb] in Hsz.
      (* the root *)
      assert (Hroot : refines
        (if size_unbound sz then palign_e ;; p_frag (frag_fuel vs) (encT elem) vs
         else if negb (size_lo sz =? size_hi sz) then
           if size_in_root sz n then p_cwn n (size_lo sz) (size_hi sz) (size_nbits sz) ;; p_all (encT elem) vs
           else pfail EUnmodelled
         else if n =? size_lo sz then p_all (encT elem) vs else pfail EUnmodelled)
        (let* items := map_result (recF elem) vs in
         Ok (serialise_aligned pe [ACounted (sz_lb sz) (sz_ub sz) items]))).
      { pose proof Er as Er'. unfold size_root_scope, sz_open_ext, sz_in_root in Er'.
        apply andb_prop in Er'. destruct Er' as [Hin Hop].
        assert (Hunb : size_unbound sz = true ->
                       (match sz_ub sz with Some u => u <? 65536 | None => false end) = false ->
                  refines (palign_e ;; p_frag (frag_fuel vs) (encT elem) vs)
                          (let* items := map_result (recF elem) vs in
                           Ok (serialise_aligned pe [ACounted (sz_lb sz) (sz_ub sz) items]))).
        { intros Hu Hub. rewrite Hu in Hsz. cbn [negb orb] in Hsz.
          assert (Hsz' : (n <? 16384) = true).
          { destruct (n <? 16384) eqn:E; [reflexivity|]. cbn [orb andb] in Hsz.
            apply andb_prop in Hsz. destruct Hsz as [_ Hc]. exact Hc. }
          pose proof (frag_refines (encT elem) (fun x => rser pe (recF elem x)) 0 vs Hg ltac:(left; unfold n in Hsz'; lia)) as Hf.
          intros st. rewrite Hf. unfold rser.
          assert (Hm : map_result (fun x => let* fs := recF elem x in Ok (serialise_aligned pe fs)) vs
                       = (let* items := map_result (recF elem) vs in Ok (map (serialise_aligned pe) items))).
          { clear. induction vs as [|x l IH]; [reflexivity|]. cbn [map_result]. rewrite IH.
            destruct (recF elem x); cbn [bind]; [|reflexivity]. destruct (map_result (recF elem) l); reflexivity. }
          rewrite Hm. destruct (map_result (recF elem) vs) as [items|e]; cbn [bind]; [|reflexivity].
          do 2 f_equal. generalize (fst st). eapply peq_trans; [|apply peq_sym, ser_one].
          cbn [aser]. destruct (sz_ub sz) as [u|]; [rewrite Hub|]; apply peq_refl. }
        destruct sz as [|lo [hi|] x]; cbn [size_unbound sz_lb sz_ub sz_ext size_lo size_hi] in *.
        - apply Hunb; reflexivity.
        - destruct (hi >? 65535) eqn:Eu.
          + apply Hunb; [reflexivity | lia].
          + apply andb_prop in Hin. destruct Hin as [H1 H2].
            unfold size_in_root. cbn [size_lo size_hi]. rewrite H1, H2. cbn [andb].
            destruct (lo =? hi) eqn:Elh; cbn [negb].
            * assert (lo = hi) by lia. subst hi. replace (n =? lo) with true by lia.
              intros st. rewrite Hall. destruct (map_result (recF elem) vs) as [items|e] eqn:Ei; cbn [bind]; [|reflexivity].
              do 2 f_equal. generalize (fst st). eapply peq_trans; [|apply peq_sym, ser_one].
              cbn [aser acwn]. replace (lo <? 65536) with true by lia.
              replace (lo - lo + 1 <=? 255) with true by lia. replace (lo - lo + 1) with 1 by lia.
              change (width 1) with 0%nat. cbn [to_bits]. apply peq_sym, pcat_nil_l.
            * pose proof (refines_bind _ _ _ _ (cwn_refines_a n lo hi ltac:(lia) ltac:(lia)) Hall) as Hb.
              unfold size_nbits. cbn [size_lo size_hi]. intros st. rewrite Hb.
              destruct (map_result (recF elem) vs) as [items|e] eqn:Ei; cbn [bind]; [|reflexivity].
              do 2 f_equal. generalize (fst st). eapply peq_trans; [|apply peq_sym, ser_one].
              cbn [aser]. replace (hi <? 65536) with true by lia.
              rewrite (map_result_length _ _ _ Ei). apply peq_refl.
        - apply Hunb; reflexivity. }
      pose proof Er as Er'. unfold size_root_scope in Er'. apply andb_prop in Er'. destruct Er' as [Hin Hop].
      assert (Hfin : forall m, refines m (let* items := map_result (recF elem) vs in
                                          Ok (serialise_aligned pe [ACounted (sz_lb sz) (sz_ub sz) items])) ->
                     refines (if size_ext sz then if size_in_root sz n then pemit [false] ;; m
                                                  else pemit [true] ;; palign_e ;; p_frag (frag_fuel vs) (encT elem) vs
                              else m)
                             (rser pe (let* items := map_result (recF elem) vs in asized sz items))).
      { intros m Hm. unfold rser, asized.
        assert (Hcase : refines (if size_ext sz then pemit [false] ;; m else m)
                  (let* items := map_result (recF elem) vs in
                   Ok (serialise_aligned pe ((if sz_ext sz then [ABit false] else []) ++ [ACounted (sz_lb sz) (sz_ub sz) items])))).
        { replace (sz_ext sz) with (size_ext sz) by (destruct sz; reflexivity).
          destruct (size_ext sz).
          - pose proof (refines_bind _ _ _ _ (refines_emit [false]) Hm) as Hb. intros st. rewrite Hb.
            destruct (map_result (recF elem) vs); reflexivity.
          - exact Hm. }
        destruct (size_ext sz) eqn:Ex.
        - rewrite size_in_root_eq by assumption. fold n. rewrite Hin.
          intros st. rewrite Hcase. destruct (map_result (recF elem) vs) as [items|e] eqn:Ei; cbn [bind]; [|reflexivity].
          rewrite (map_result_length _ _ _ Ei). fold n. rewrite Hin. reflexivity.
        - intros st. rewrite Hcase. destruct (map_result (recF elem) vs) as [items|e] eqn:Ei; cbn [bind]; [|reflexivity].
          rewrite (map_result_length _ _ _ Ei). fold n. rewrite Hin. reflexivity. }
      apply Hfin. exact Hroot.
    - cbn [andb orb] in Hsz. apply andb_prop in Hsz. destruct Hsz as [H Hn].
      apply andb_prop in H. destruct H as [H Hout]. apply andb_prop in H. destruct H as [Hx Hop].
      replace (size_ext sz) with (sz_ext sz) by (destruct sz; reflexivity). rewrite Hx.
      rewrite size_in_root_eq by (try assumption; destruct sz; exact Hx).
      apply negb_true_iff in Hout. fold n. rewrite Hout.
      pose proof (frag_refines (encT elem) (fun x => rser pe (recF elem x)) 0 vs Hg ltac:(left; unfold n in Hn; lia)) as Hf.
      pose proof (refines_bind _ _ _ _ (refines_emit [true]) Hf) as Hb.
      intros st. rewrite Hb. unfold rser, asized.
      assert (Hm : map_result (fun x => let* fs := recF elem x in Ok (serialise_aligned pe fs)) vs
                   = (let* items := map_result (recF elem) vs in Ok (map (serialise_aligned pe) items))).
      { clear. induction vs as [|x l IH]; [reflexivity|]. cbn [map_result]. rewrite IH.
        destruct (recF elem x); cbn [bind]; [|reflexivity]. destruct (map_result (recF elem) l); reflexivity. }
      rewrite Hm.
      destruct (map_result (recF elem) vs) as [items|e] eqn:Ei; cbn [bind]; [|reflexivity].
      rewrite (map_result_length _ _ _ Ei). fold n. rewrite Hout, Hx. cbn [bind].
      do 2 f_equal. generalize (fst st).
      change (peq (pcat (pconst [true]) (acount_unbounded (map (serialise_aligned pe) items)))
                  (serialise_aligned pe [ABit true; ACounted 0 None items])).
      rewrite ser_cons. apply pcat_ext; [apply peq_refl|].
      eapply peq_trans; [|apply peq_sym, ser_one]. cbn [aser]. apply peq_refl.
  Qed.

  (** *** 23 CHOICE *)
  Definition achoice_scope (root : list (member_of ty)) (ext : option (list (member_of ty))) (v : value) : bool :=
    match v with
    | VChoice name x =>
      match alt_lookup name root with
      | Some (_, t) => scopeT t x && (Z.of_nat (length root) <=? 65536)
      | None =>
        match ext with
        | None => true
        | Some adds =>
          match alt_lookup name adds with
          | Some (_, t) =>
            scopeT t x && (Z.of_nat (length adds) <=? 64)
            && match recF t x with Ok fs => open_ok (serialise_aligned pe fs 0%nat) | Err _ => true end
          | None => true
          end
        end
      end
    | _ => false
    end.

  Lemma achoice_refines root ext v :
    achoice_scope root ext v = true ->
    refines (p_choice encT root ext v) (rser pe (achoice_fields recF root ext v)).
  Proof.
    unfold achoice_scope, p_choice, achoice_fields. destruct v; try discriminate. rename alt into name.
    pose proof (find_alt_lookup' name root 0) as Hroot.
    destruct (alt_lookup name root) as [[k t]|].
    - destruct Hroot as (m & Hf & Ht & Hk). intros Hsc. apply andb_prop in Hsc. destruct Hsc as [Hsc Hlen].
      assert (Hroot_enc : refines (p_choice_root encT root name v)
                (let* body := recF t v in
                 Ok (pcat (aser pe (ACwn 0 (Z.of_nat (length root) - 1) (Z.of_nat k))) (serialise_aligned pe body)))).
      { unfold p_choice_root. rewrite Hf, Ht.
        assert (Hidx : refines (if (1 <? length root)%nat
                                then p_cwn (0 + Z.of_nat k) 0 (Z.of_nat (length root) - 1) (choice_root_bits root)
                                else pemit [])
                               (Ok (acwn 2 0 (Z.of_nat (length root) - 1) (Z.of_nat k)))).
        { destruct (1 <? length root)%nat eqn:E1.
          - pose proof (cwn_refines_a (0 + Z.of_nat k) 0 (Z.of_nat (length root) - 1) ltac:(lia) ltac:(lia)) as Hc.
            rewrite Z.sub_0_r in Hc. exact Hc.
          - assert (length root = 1%nat) by lia. rewrite H. assert (k = 0%nat) by lia. subst k.
            cbn [acwn]. apply refines_emit. }
        pose proof (refines_bind _ _ _ _ Hidx (HT _ _ Hsc)) as Hb. intros st. rewrite Hb.
        unfold rser. destruct (recF t v); reflexivity. }
      destruct ext as [adds|].
      + rewrite Hf. pose proof (refines_bind _ _ _ _ (refines_emit [false]) Hroot_enc) as Hb.
        intros st. rewrite Hb. unfold rser. destruct (recF t v); reflexivity.
      + intros st. rewrite Hroot_enc. unfold rser. destruct (recF t v); reflexivity.
    - destruct ext as [adds|].
      + rewrite Hroot. pose proof (find_alt_lookup' name adds 0) as Hadds.
        destruct (alt_lookup name adds) as [[j t]|].
        * destruct Hadds as (m & Hf & Ht & Hj). intros Hsc.
          apply andb_prop in Hsc. destruct Hsc as [Hsc Hok]. apply andb_prop in Hsc. destruct Hsc as [Hsc H64].
          rewrite Hf, Ht. intros st. rewrite (refines_prun _ _ (HT _ _ Hsc)). unfold rser.
          destruct (recF t v) as [fs|e]; cbn [bind]; [|reflexivity].
          destruct (open_bits_eq _ Hok) as (Hl & Hu & _).
          assert (Hns : enc_small_nonneg (0 + Z.of_nat j) = Ok (false :: to_bits 6 (Z.of_nat j))).
          { unfold enc_small_nonneg. replace (0 + Z.of_nat j <? 64) with true by lia.
            rewrite to_bits_7_small by lia. reflexivity. }
          pose proof (refines_bind _ _ _ _ (refines_emit [true])
                        (refines_bind _ _ _ _ (refines_lift (enc_small_nonneg (0 + Z.of_nat j)))
                           (refines_bind _ _ _ _ refines_align
                              (refines_bind _ _ _ _
                                 (refines_lift (enc_len_single (Z.of_nat (length (pad8 (serialise_aligned pe fs 0%nat)) / 8))))
                                 (refines_emit (pad8 (serialise_aligned pe fs 0%nat))))))) as Hb.
          rewrite Hb. rewrite Hns, Hl. cbn [bind]. do 2 f_equal. generalize (fst st).
          change (peq (pcat (pconst [true])
                         (pcat (pconst (false :: to_bits 6 (Z.of_nat j)))
                            (pcat pad (pcat (pconst (len_short (Z.of_nat (length (bits_to_bytes (serialise_aligned pe fs 0%nat))))))
                                            (pconst (pad8 (serialise_aligned pe fs 0%nat)))))))
                      (serialise_aligned pe [ABit true; ANsnnwn (Z.of_nat j); AOpen fs])).
          rewrite !ser_cons. apply pcat_ext; [apply peq_refl|]. apply pcat_ext.
          -- cbn [aser]. replace (Z.of_nat j <=? 63) with true by lia. apply peq_refl.
          -- eapply peq_trans; [|apply peq_sym, pcat_nil_r]. cbn [aser]. fold (serialise_aligned pe fs).
             rewrite Hu. unfold aligned. apply pcat_ext; [apply peq_refl | apply pcat_const].
        * intros _. rewrite Hadds. apply refines_fail.
      + intros _. unfold p_choice_root. rewrite Hroot. apply refines_fail.
  Qed.
End ACompositeRefine3.

(** * The aligned scope and the refinement theorem *)

Section AScope.
  Variable pe : bool.
  Variable numeric : bool.
  Variable e : env.

  Fixpoint x691a_scope (fuel : nat) (t : ty) (v : value) {struct fuel} : bool :=
    match fuel with
    | O => false
    | S f =>
      match t with
      | TBool => match v with VBool _ => true | _ => false end
      | TNull => true
      | TInt c => match v with VInt z => int_scope_a c z | _ => false end
      | TEnum root ext => enum_scope_a root ext
      | TBits named s =>
        match v with
        | VBits b n => bits_scope_a pe (match named with Some _ => true | None => false end) s b n
        | _ => false
        end
      | TOctets s => match v with VBytes b => octets_scope_a pe s (Z.of_nat (length b)) | _ => false end
      | TStr SkUTF8 _ _ => match v with VStr c => utf8_scope c | _ => false end
      | TStr k s alpha => match v with VStr c => km_scope_a pe k s alpha c | _ => false end
      | TOid => match v with VOid a => oid_scope a | _ => false end
      | TSeq _ root ext => aseq_scope pe (x691a_fields numeric e f) (x691a_scope f) (deref e f) root ext v
      | TSeqOf _ elem s => aseqof_scope (x691a_scope f) elem s v
      | TChoice root ext => achoice_scope pe (x691a_fields numeric e f) (x691a_scope f) root ext v
      | TRef n => match lookup n e with Some t' => x691a_scope f t' v | None => false end
      | TTag _ t' => x691a_scope f t' v
      end
    end.
End AScope.

(** the implementation appends, to whatever the Encoder object holds, the
    aligned serialisation of the X.691 field-list at the current bit position *)
Theorem per_refines_x691 pe numeric e : forall fuel t v st,
  x691a_scope pe numeric e fuel t v = true ->
  penc_ty numeric e fuel t v st =
  match x691a_fields numeric e fuel t v with
  | Ok fs => Ok (pst_app st (serialise_aligned pe fs (fst st)))
  | Err err => Err err
  end.
Proof.
  assert (H : forall fuel t v, x691a_scope pe numeric e fuel t v = true ->
                               refines (penc_ty numeric e fuel t v) (rser pe (x691a_fields numeric e fuel t v))).
  { induction fuel as [|f IH]; intros t v H; [discriminate|].
    cbn [x691a_scope] in H. cbn [penc_ty x691a_fields].
    destruct t.
    - destruct v; try discriminate. apply refines_emit.
    - apply refines_emit.
    - destruct v; try discriminate. apply int_refines_a. exact H.
    - apply enum_refines_a. exact H.
    - destruct v; try discriminate. apply bitstring_refines_a. exact H.
    - destruct v; try discriminate. apply octets_refines_a. exact H.
    - destruct k; (destruct v; try discriminate);
        try (apply kmstring_refines_a; exact H); try (apply utf8_refines_a; exact H).
    - destruct v; try discriminate. apply oid_refines_a. exact H.
    - apply aseq_refines with (scopeT := x691a_scope pe numeric e f); [exact IH | exact H].
    - apply aseqof_refines with (scopeT := x691a_scope pe numeric e f); [exact IH | exact H].
    - apply achoice_refines with (scopeT := x691a_scope pe numeric e f); [exact IH | exact H].
    - destruct (lookup name e); [apply IH; exact H | discriminate].
    - apply IH. exact H. }
  intros fuel t v st Hs. rewrite (H fuel t v Hs). unfold rser.
  destruct (x691a_fields numeric e fuel t v); reflexivity.
Qed.
Print Assumptions per_refines_x691.

(** a complete encoding: a fresh Encoder object *)
Corollary per_refines_x691_bits pe numeric e fuel t v :
  x691a_scope pe numeric e fuel t v = true ->
  prun (penc_ty numeric e fuel t v) = x691a_encode numeric e pe fuel t v.
Proof.
  intros H. unfold prun, x691a_encode. rewrite (per_refines_x691 pe numeric e fuel t v pst0 H).
  destruct (x691a_fields numeric e fuel t v); cbn [bind]; [|reflexivity].
  rewrite pst_bits_fresh. reflexivity.
Qed.

Corollary per_encode_refines_x691 pe numeric e fuel t v :
  x691a_scope pe numeric e fuel t v = true ->
  x691a_encode numeric e pe fuel t v <> Ok [] ->
  per_encode numeric fuel e t v = x691a_encode_octets numeric e pe fuel t v.
Proof.
  intros H Hne. unfold per_encode, x691a_encode_octets. rewrite (per_refines_x691_bits pe numeric e fuel t v H).
  destruct (x691a_encode numeric e pe fuel t v) as [[|b bs]|err]; cbn [bind complete_octets];
    [exfalso; apply Hne; reflexivity | reflexivity | reflexivity].
Qed.
Print Assumptions per_encode_refines_x691.

Corollary per_encode_empty_x691 pe numeric e fuel t v :
  x691a_scope pe numeric e fuel t v = true ->
  x691a_encode numeric e pe fuel t v = Ok [] ->
  per_encode numeric fuel e t v = Ok [] /\ x691a_encode_octets numeric e pe fuel t v = Ok [0].
Proof.
  intros H He. unfold per_encode, x691a_encode_octets. rewrite (per_refines_x691_bits pe numeric e fuel t v H), He.
  split; reflexivity.
Qed.
Print Assumptions per_encode_empty_x691.

(** * Why the aligned scope excludes what it excludes

    As in [X691Refine.v]: the implementation model (= the library, codec
    'per', octets as returned) against the specification model on witnesses
    that [x691a_scope] rejects.  The regions shared with the unaligned
    variant (semi-constrained INTEGER, zero-width additions, DEFAULT
    additions, ...) are excluded for the same reasons; a few are repeated
    here with their aligned octets, then the aligned-only ones. *)
Local Open Scope string_scope.

Definition adeviation (pe numeric : bool) (e : env) (fuel : nat) (t : ty) (v : value)
           (library x691 : result (list Z)) : Prop :=
  per_encode numeric fuel e t v = library /\
  x691a_encode_octets numeric e pe fuel t v = x691 /\
  library <> x691 /\
  x691a_scope pe numeric e fuel t v = false.

Ltac adeviation := unfold adeviation; repeat split; try (vm_compute; reflexivity); discriminate.

(** SEQUENCE { a BOOLEAN, b <t>, c BOOLEAN } with a = c = TRUE: shows where b is (not) aligned *)
Definition abc (t : ty) : ty := TSeq false [("a", TBool, Mandatory); ("b", t, Mandatory); ("c", TBool, Mandatory)] None.
Definition abc_v (v : value) : value := VSeq [("a", VBool true); ("b", v); ("c", VBool true)].

(** shared with UPER: INTEGER (0..MAX), 128 *)
Example per_semi_constrained_deviates :
  forall pe, adeviation pe false [] 2 (TInt (IcRange (Some 0) None false)) (VInt 128) (Ok (hex "020080")) (Ok (hex "0180")).
Proof. intros []; adeviation. Qed.

(** shared with UPER: SEQUENCE { a BOOLEAN, ..., b NULL OPTIONAL } *)
Example per_zero_width_addition_deviates :
  forall pe, adeviation pe false [] 3 (seq_a [(false, [("b", TNull, Optional)])]) (VSeq [("a", VBool true); ("b", VNone)])
                        (Ok (hex "c04000")) (Ok (hex "c0400100")).
Proof. intros []; adeviation. Qed.

(** shared with UPER: CHOICE { a BOOLEAN, ..., n NULL } *)
Example per_zero_width_choice_addition_deviates :
  forall pe, adeviation pe false [] 3 (TChoice [("a", TBool, Mandatory)] (Some [("n", TNull, Mandatory)])) (VChoice "n" VNone)
                        (Ok (hex "8000")) (Ok (hex "800100")).
Proof. intros []; adeviation. Qed.

(** shared with UPER: SEQUENCE { a BOOLEAN, ..., b INTEGER DEFAULT 5 } with b = 5 *)
Example per_default_addition_deviates :
  forall pe, adeviation pe false [] 3 (seq_a [(false, [("b", TInt IcNone, Default (VInt 5))])])
                        (VSeq [("a", VBool true); ("b", VInt 5)]) (Ok (hex "c040020105")) (Ok (hex "40")).
Proof. intros []; adeviation. Qed.

(** ALIGNED ONLY, NEW: ENUMERATED with 256 (300) root enumerations: per.py
    writes the index as an unaligned 8-bit (9-bit) field; 14.2 with 11.5.7.2
    (11.5.7.3): one (two) octet-aligned octet(s) *)
Definition enum_n (n : nat) : ty :=
  TEnum (map (fun i => (String (Ascii.ascii_of_nat (97 + i mod 26))
                               (String (Ascii.ascii_of_nat (97 + (i / 26) mod 26)) ""), Z.of_nat i)) (seq 0 n)) None.
Definition ab (t : ty) : ty := TSeq false [("a", TBool, Mandatory); ("b", t, Mandatory)] None.
Example per_enumerated_256_deviates :
  forall pe, adeviation pe true [] 3 (ab (enum_n 256)) (VSeq [("a", VBool true); ("b", VInt 5)]) (Ok (hex "8280")) (Ok (hex "8005")).
Proof. intros []; adeviation. Qed.
Example per_enumerated_300_deviates :
  forall pe, adeviation pe true [] 3 (ab (enum_n 300)) (VSeq [("a", VBool true); ("b", VInt 5)]) (Ok (hex "8140")) (Ok (hex "800005")).
Proof. intros []; adeviation. Qed.

(** ALIGNED ONLY, NEW: a permitted alphabet of 9..11 characters on
    NumericString: per.py falls back to the index in the CLASS alphabet
    (space = 0, "0" = 1, ...); 30.5.4 b) indexes the effective alphabet:
    NumericString (FROM ("0".."9")) (SIZE(4)), "0123" *)
Example per_numeric_alphabet_deviates :
  forall pe, adeviation pe false [] 3 (ab (TStr SkNumeric (SzRange 4 (Some 4) false) (Some (zrange_list 48 57))))
                        (VSeq [("a", VBool true); ("b", VStr [48; 49; 50; 51])]) (Ok (hex "891a00")) (Ok (hex "809180")).
Proof. intros []; adeviation. Qed.

(** ALIGNED ONLY, NEW: a known-multiplier string of variable size is
    octet-aligned when aub * b >= 16 (30.5.7); per.py aligns when aub > 1:
    NumericString (SIZE(1..3)) (3 * 4 = 12 bits), "1" *)
Example per_string_alignment_deviates :
  forall pe, adeviation pe false [] 3 (abc (TStr SkNumeric (SzRange 1 (Some 3) false) None)) (abc_v (VStr [49]))
                        (Ok (hex "8028")) (Ok (hex "85")).
Proof. intros []; adeviation. Qed.

(** ALIGNED ONLY, NEW: an empty string of variable size.  per.py pads before
    the empty contents of an OCTET STRING / BIT STRING but not before those of
    a known-multiplier string, so under either reading of "an empty
    octet-aligned bit-field" one of the two deviates:
    b OCTET STRING (SIZE(0..3)) / BIT STRING (SIZE(0..3)) / IA5String (SIZE(0..3)), empty *)
Example per_empty_string_reading_pad :
  per_encode false 3 [] (abc (TOctets (SzRange 0 (Some 3) false))) (abc_v (VBytes [])) = Ok (hex "8080") /\
  per_encode false 3 [] (abc (TBits None (SzRange 0 (Some 3) false))) (abc_v (VBits [] 0)) = Ok (hex "8080") /\
  per_encode false 3 [] (abc (TStr SkIA5 (SzRange 0 (Some 3) false) None)) (abc_v (VStr [])) = Ok (hex "90") /\
  (* reading "padding even when empty": the IA5String deviates *)
  x691a_encode_octets false [] true 3 (abc (TOctets (SzRange 0 (Some 3) false))) (abc_v (VBytes [])) = Ok (hex "8080") /\
  x691a_encode_octets false [] true 3 (abc (TStr SkIA5 (SzRange 0 (Some 3) false) None)) (abc_v (VStr [])) = Ok (hex "8080") /\
  x691a_scope true false [] 3 (abc (TOctets (SzRange 0 (Some 3) false))) (abc_v (VBytes [])) = true /\
  x691a_scope true false [] 3 (abc (TStr SkIA5 (SzRange 0 (Some 3) false) None)) (abc_v (VStr [])) = false /\
  (* reading "nothing at all when empty": the OCTET STRING and the BIT STRING deviate *)
  x691a_encode_octets false [] false 3 (abc (TOctets (SzRange 0 (Some 3) false))) (abc_v (VBytes [])) = Ok (hex "90") /\
  x691a_encode_octets false [] false 3 (abc (TStr SkIA5 (SzRange 0 (Some 3) false) None)) (abc_v (VStr [])) = Ok (hex "90") /\
  x691a_scope false false [] 3 (abc (TOctets (SzRange 0 (Some 3) false))) (abc_v (VBytes [])) = false /\
  x691a_scope false false [] 3 (abc (TBits None (SzRange 0 (Some 3) false))) (abc_v (VBits [] 0)) = false /\
  x691a_scope false false [] 3 (abc (TStr SkIA5 (SzRange 0 (Some 3) false) None)) (abc_v (VStr [])) = true.
Proof. repeat split; vm_compute; reflexivity. Qed.

(** ALIGNED ONLY, NEW: more than 64 extension additions: the count is a
    normally small length of the form 1 + general length, whose octet is
    octet-aligned (11.9.3.4 with 11.9.3.6); per.py writes it unaligned.
    65 additions x00 .. x64 BOOLEAN OPTIONAL, x00 present. *)
Definition adds_n (n : nat) : list (addition_of ty) :=
  map (fun i => (false, [(String "x" (String (Ascii.ascii_of_nat (48 + i / 10)) (String (Ascii.ascii_of_nat (48 + i mod 10)) "")),
                          TBool, Optional)])) (seq 0 n).
Example per_many_additions_deviates :
  forall pe, adeviation pe false [] 3 (seq_a (adds_n 65)) (VSeq [("a", VBool true); ("x00", VBool true)])
                        (Ok (hex "e83000000000000000000180")) (Ok (hex "e0418000000000000000000180")).
Proof. intros []; adeviation. Qed.

(** ALIGNED ONLY, NEW: 16K or more elements of varying width: per.py does
    not octet-align the length octets of the later fragments (11.9.3.8):
    SEQUENCE OF SEQUENCE { x BOOLEAN OPTIONAL }, 16385 elements, the first one with x *)
Definition octets_end (r : result (list Z)) (n : Z) (suffix : list Z) : bool :=
  match r with
  | Ok l => Z.eqb (Z.of_nat (length l)) n && zlist_eqb (skipn (length l - length suffix) l) suffix
  | Err _ => false
  end.
Example per_fragment_alignment_deviates :
  let t := TSeqOf false (TSeq false [("x", TBool, Optional)] None) SzNone in
  let v := VList (VSeq [("x", VBool true)] :: repeat (VSeq []) (Z.to_nat 16384)) in
  forall pe,
    octets_end (per_encode false 4 [] t v) 2051 (hex "0080") = true /\
    octets_end (x691a_encode_octets false [] pe 4 t v) 2052 (hex "000100") = true /\
    x691a_scope pe false [] 4 t v = false.
Proof. cbv zeta. intros []; (split; [|split]); vm_compute; reflexivity. Qed.

(** a constrained INTEGER with a range above 64K is in scope (11.5.7.4):
    INTEGER (0..4294967295), 256: two-bit length, then the aligned octets *)
Example per_large_range_in_scope :
  forall pe, x691a_scope pe false [] 3 (ab (TInt (IcRange (Some 0) (Some 4294967295) false))) (VSeq [("a", VBool true); ("b", VInt 256)]) = true /\
             per_encode false 3 [] (ab (TInt (IcRange (Some 0) (Some 4294967295) false))) (VSeq [("a", VBool true); ("b", VInt 256)]) = Ok (hex "a00100").
Proof. intros []; split; vm_compute; reflexivity. Qed.

(** unlike uper.py, per.py codes IA5String (FROM ("0".."z")) as X.691 says (in scope) *)
Example per_alphabet_identity_in_scope :
  forall pe, x691a_scope pe false [] 2 (TStr SkIA5 SzNone (Some (zrange_list 48 122))) (VStr [48; 122]) = true /\
             per_encode false 2 [] (TStr SkIA5 SzNone (Some (zrange_list 48 122))) (VStr [48; 122]) = Ok (hex "02307a").
Proof. intros []; split; vm_compute; reflexivity. Qed.
