(** Implementation model of the ALIGNED PER codec (asn1tools/codecs/per.py).
    Same universe and conventions as Per/UperImpl.v; the differences are the
    octet alignment points and the constrained-whole-number forms.

    Encoders are written in accumulator style ([acc] = the bits already in
    this Encoder object) because alignment pads relative to the encoder's own
    start (an addition is encoded in a fresh Encoder).  The Decoder aligns by
    dropping [remaining bits mod 8], exactly as per.Decoder.align_always does
    (the input is a whole number of octets). *)
From Asn1V Require Import Base.Prelude Base.Bits Base.Utf8 Syntax.Asn1 Per.UperImpl.

(** Encoder state: number of bits so far and the bits in REVERSE order (so
    that appending is linear in what is appended). *)
Definition pst : Type := (nat * bits)%type.
Definition pst0 : pst := (0%nat, []).
Definition pst_bits (st : pst) : bits := rev_append (snd st) [].
Definition penc := pst -> result pst.     (* state in, state out *)

Definition pst_app (st : pst) (b : bits) : pst := ((length b + fst st)%nat, rev_append b (snd st)).
Definition palign (st : pst) : pst :=
  let k := ((8 - fst st mod 8) mod 8)%nat in ((k + fst st)%nat, repeat false k ++ snd st).
Definition pemit (b : bits) : penc := fun st => Ok (pst_app st b).
Definition pbind (m : penc) (k : penc) : penc := fun st => let* a := m st in k a.
Notation "m ';;' k" := (pbind m k) (at level 61, right associativity).
Definition palign_e : penc := fun st => Ok (palign st).
Definition pfail (e : err) : penc := fun _ => Err e.
Definition plift (r : result bits) : penc := fun st => let* b := r in Ok (pst_app st b).
(** run an encoder in a fresh Encoder object and take its bits *)
Definition prun (m : penc) : result bits := let* st := m pst0 in Ok (pst_bits st).

(** Decoder.align_always *)
Definition r_align : reader unit := fun bs => Ok (tt, skipn (length bs mod 8) bs).

(** append_constrained_whole_number / read_constrained_whole_number *)
Definition p_cwn (v lo hi : Z) (nbits : nat) : penc :=
  let range := hi - lo + 1 in
  let x := v - lo in
  if range <=? 255 then pemit (to_bits nbits x)
  else if range =? 256 then palign_e ;; pemit (to_bits 8 x)
  else if range <=? 65536 then palign_e ;; pemit (to_bits 16 x)
  else palign_e ;; pemit (to_bits nbits x).

Definition r_cwn (lo hi : Z) (nbits : nat) : reader Z :=
  let range := hi - lo + 1 in
  do* x <- (if range <=? 255 then read_uint nbits
            else if range =? 256 then do* _ <- r_align; read_uint 8
            else if range <=? 65536 then do* _ <- r_align; read_uint 16
            else do* _ <- r_align; read_uint nbits);
  rret (x + lo).

(** size_as_number_of_bytes *)
Definition size_as_bytes (x : Z) : Z := if x =? 0 then 1 else (bit_length x + 7) / 8.

(** per.Integer *)
Definition p_int_nbits (lo hi : Z) : nat := Z.to_nat (bit_length (hi - lo)).
Definition p_int_indef (lo hi : Z) : option nat :=
  if hi - lo <=? 65535 then None
  else Some (Z.to_nat (bit_length ((bit_length (hi - lo) + 7) / 8 - 1))).

Definition p_int_root (c : intc) (v : Z) : penc :=
  match int_bounds c with
  | None => palign_e ;; plift (enc_unconstrained v)
  | Some (lo, hi) =>
    if negb ((lo <=? v) && (v <=? hi)) then pfail EUnmodelled
    else
      match p_int_indef lo hi with
      | None => p_cwn v lo hi (p_int_nbits lo hi)
      | Some ib =>
        let nbytes := size_as_bytes (v - lo) in
        p_cwn (nbytes - 1) 0 (2 ^ Z.of_nat ib) ib ;; palign_e ;; p_cwn v lo hi (Z.to_nat (8 * nbytes))
      end
  end.

Definition p_int (c : intc) (v : Z) : penc :=
  if int_ext c then
    match int_bounds c with
    | None => pfail (EForeign "TypeError")
    | Some (lo, hi) =>
      if (lo <=? v) && (v <=? hi) then pemit [false] ;; p_int_root c v
      else pemit [true] ;; palign_e ;; plift (enc_unconstrained v)
    end
  else p_int_root c v.

Definition r_int_root (c : intc) : reader Z :=
  match int_bounds c with
  | None => do* _ <- r_align; read_unconstrained
  | Some (lo, hi) =>
    match p_int_indef lo hi with
    | None => r_cwn lo hi (p_int_nbits lo hi)
    | Some ib =>
      do* nb <- r_cwn 0 (2 ^ Z.of_nat ib) ib;
      do* _ <- r_align;
      r_cwn lo hi (Z.to_nat (8 * (nb + 1)))
    end
  end.

Definition r_int (c : intc) : reader Z :=
  if int_ext c then
    do* b <- read_bit;
    if b then do* _ <- r_align; read_unconstrained else r_int_root c
  else r_int_root c.

(** items with 16K fragmentation, position dependent *)
Fixpoint p_all {A} (enc1 : A -> penc) (l : list A) : penc :=
  match l with
  | [] => fun st => Ok st
  | x :: r => enc1 x ;; p_all enc1 r
  end.

Fixpoint p_frag {A} (fuel : nat) (enc1 : A -> penc) (l : list A) : penc :=
  let n := Z.of_nat (length l) in
  if n <? 16384 then pemit (enc_len_short n) ;; p_all enc1 l
  else
    match fuel with
    | O => pfail EFuel
    | S f =>
      let m := if n <? 32768 then 1 else if n <? 49152 then 2 else if n <? 65536 then 3 else 4 in
      let k := Z.to_nat (16384 * m) in
      pemit (to_bits 8 (192 + m)) ;; p_all enc1 (firstn k l) ;; p_frag f enc1 (skipn k l)
    end.

(** per.BitString *)
Definition p_bitstring (named : bool) (sz : size) (bytes : list Z) (nbits : Z) : penc :=
  if (Z.of_nat (length bytes) * 8 <? nbits) then pfail EUnmodelled else
  let pre : penc :=
      if size_ext sz then
        if size_in_root sz nbits then pemit [false] else pfail (EForeign "NotImplementedError")
      else pemit [] in
  let data := if named then named_bits_of sz bytes else bitvalue_bits bytes nbits in
  let n := Z.of_nat (length data) in
  pre ;;
  (if size_unbound sz then
     palign_e ;; p_frag (frag_fuel data) (fun b : bool => pemit [b]) data
   else if negb (size_lo sz =? size_hi sz) then
     if size_in_root sz n then p_cwn n (size_lo sz) (size_hi sz) (size_nbits sz) ;; palign_e ;; pemit data
     else pfail EUnmodelled
   else if n =? size_lo sz then (if size_lo sz >? 16 then palign_e else pemit []) ;; pemit data
   else pfail EUnmodelled).

Definition r_bitstring (sz : size) : reader value :=
  let mk (bs : bits) := VBits (bits_to_bytes bs) (Z.of_nat (length bs)) in
  do* _ <- (if size_ext sz then
              do* b <- read_bit; if b then rfail (EForeign "NotImplementedError") else rret tt
            else rret tt);
  if size_unbound sz then
    do* _ <- r_align; do* bs <- read_frag_auto read_bit; rret (mk bs)
  else if negb (size_lo sz =? size_hi sz) then
    do* n <- r_cwn (size_lo sz) (size_hi sz) (size_nbits sz);
    do* _ <- r_align;
    do* bs <- read_raw (Z.to_nat n); rret (mk bs)
  else
    do* _ <- (if size_lo sz >? 16 then r_align else rret tt);
    do* bs <- read_raw (Z.to_nat (size_lo sz)); rret (mk bs).

(** per.OctetString *)
Definition p_octets (sz : size) (bytes : list Z) : penc :=
  let n := Z.of_nat (length bytes) in
  let data := bytes_to_bits bytes in
  let root : penc :=
      if size_unbound sz then palign_e ;; p_frag (frag_fuel bytes) (fun b => pemit (to_bits 8 b)) bytes
      else if negb (size_lo sz =? size_hi sz) then
        if size_in_root sz n then p_cwn n (size_lo sz) (size_hi sz) (size_nbits sz) ;; palign_e ;; pemit data
        else pfail EUnmodelled
      else if n =? size_lo sz then (if size_hi sz <=? 2 then pemit [] else palign_e) ;; pemit data
      else pfail EUnmodelled in
  if size_ext sz then
    if size_in_root sz n then pemit [false] ;; root
    else pemit [true] ;; palign_e ;; p_frag (frag_fuel bytes) (fun b => pemit (to_bits 8 b)) bytes
  else root.

Definition r_octets (sz : size) : reader value :=
  let normal :=
      if size_unbound sz then
        do* _ <- r_align; do* bs <- read_frag_auto read_byte; rret (VBytes bs)
      else if negb (size_lo sz =? size_hi sz) then
        do* n <- r_cwn (size_lo sz) (size_hi sz) (size_nbits sz);
        do* _ <- r_align;
        do* bs <- read_n (Z.to_nat n) read_byte; rret (VBytes bs)
      else
        do* _ <- (if size_hi sz <=? 2 then rret tt else r_align);
        do* bs <- read_n (Z.to_nat (size_lo sz)) read_byte; rret (VBytes bs) in
  if size_ext sz then
    do* b <- read_bit;
    if b then do* _ <- r_align; do* bs <- read_frag_auto read_byte; rret (VBytes bs)
    else normal
  else normal.

(** per.KnownMultiplierStringType *)
Definition pow2_bits (size : Z) : nat :=
  if size =? 0 then 0%nat
  else
    let bl := bit_length size in
    if bl <=? 1 then 1%nat else if bl <=? 2 then 2%nat else if bl <=? 4 then 4%nat
    else if bl <=? 8 then 8%nat else if bl <=? 16 then 16%nat else 32%nat.

(** class alphabets of per.py: (alphabet, identity-coded?) *)
Definition p_class_alphabet (k : strkind) : option (list Z * bool) :=
  match k with
  | SkIA5 => Some (zrange_list 0 127, true)
  | SkVisible => Some (zrange_list 32 126, true)
  | SkPrintable => Some (printable_alphabet, true)
  | SkNumeric => Some (numeric_alphabet, false)
  | _ => None
  end.

(** (alphabet, identity?, bits per character) as computed by __init__ *)
Definition p_km_params (k : strkind) (alpha : option (list Z)) : option (list Z * bool * nat) :=
  match p_class_alphabet k with
  | None => None
  | Some (ca, cident) =>
    match alpha with
    | None => Some (ca, cident, pow2_bits (Z.of_nat (length ca) - 1))
    | Some a =>
      let bpc := pow2_bits (Z.of_nat (length a) - 1) in
      if Z.of_nat (length ca) <? 2 ^ Z.of_nat bpc then Some (ca, cident, bpc) else Some (a, false, bpc)
    end
  end.

Definition p_km_char (a : list Z) (ident : bool) (bpc : nat) (c : Z) : penc :=
  if ident then (if mem_z c a then pemit (to_bits bpc c) else pfail EEncode)
  else match index_in c a 0 with
       | Some i => pemit (to_bits bpc i)
       | None => pfail EEncode
       end.

Definition r_km_char (a : list Z) (ident : bool) (bpc : nat) : reader Z :=
  do* v <- read_uint bpc;
  if ident then (if mem_z v a then rret v else rfail EDecode)
  else match nth_z a v with
       | Some c => rret c
       | None => rfail EDecode
       end.

Definition p_kmstring (k : strkind) (sz : size) (alpha : option (list Z)) (cps : list Z) : penc :=
  match p_km_params k alpha with
  | None => pfail EUnmodelled
  | Some (a, ident, bpc) =>
    let n := Z.of_nat (length cps) in
    let pre : penc :=
        if size_ext sz then
          if size_in_root sz n then pemit [false] else pfail (EForeign "NotImplementedError")
        else pemit [] in
    let chars := p_all (p_km_char a ident bpc) cps in
    pre ;;
    (if size_unbound sz then palign_e ;; p_frag (frag_fuel cps) (p_km_char a ident bpc) cps
     else if negb (size_lo sz =? size_hi sz) then
       if size_in_root sz n then
         p_cwn n (size_lo sz) (size_hi sz) (size_nbits sz) ;;
         (if (size_hi sz >? 1) && (n >? 0) then palign_e else pemit []) ;; chars
       else pfail EUnmodelled
     else if n =? size_lo sz then
       (if size_hi sz * Z.of_nat bpc >? 16 then palign_e else pemit []) ;; chars
     else pfail EUnmodelled)
  end.

Definition r_kmstring (k : strkind) (sz : size) (alpha : option (list Z)) : reader value :=
  match p_km_params k alpha with
  | None => rfail EUnmodelled
  | Some (a, ident, bpc) =>
    do* _ <- (if size_ext sz then
                do* b <- read_bit; if b then rfail (EForeign "NotImplementedError") else rret tt
              else rret tt);
    if size_unbound sz then
      do* _ <- r_align; do* cs <- read_frag_auto (r_km_char a ident bpc); rret (VStr cs)
    else if negb (size_lo sz =? size_hi sz) then
      do* n <- r_cwn (size_lo sz) (size_hi sz) (size_nbits sz);
      do* _ <- (if (size_hi sz >? 1) && (n >? 0) then r_align else rret tt);
      do* cs <- read_n (Z.to_nat n) (r_km_char a ident bpc); rret (VStr cs)
    else
      do* _ <- (if size_hi sz * Z.of_nat bpc >? 16 then r_align else rret tt);
      do* cs <- read_n (Z.to_nat (size_lo sz)) (r_km_char a ident bpc); rret (VStr cs)
  end.

Definition p_utf8 (cps : list Z) : penc :=
  match utf8_encode cps with
  | None => pfail (EForeign "UnicodeEncodeError")
  | Some bytes => palign_e ;; p_frag (frag_fuel bytes) (fun b => pemit (to_bits 8 b)) bytes
  end.
Definition r_utf8 : reader value := do* _ <- r_align; read_utf8.

Definition p_oid (arcs : list Z) : penc :=
  palign_e ;;
  plift (let* bytes := enc_oid_bytes arcs in
         let* l := enc_len_single (Z.of_nat (length bytes)) in
         Ok (l ++ bytes_to_bits bytes)).
Definition r_oid : reader value := do* _ <- r_align; read_oid.

Section PComposite.
  Variable numeric : bool.
  Variable e : env.

  Section PMembers.
    Variable encT : ty -> value -> penc.
    Variable decT : ty -> reader value.
    Variable res : ty -> ty.

    Definition p_member (m : member_of ty) (data : list (string * value)) (encode_default : bool) : penc :=
      match lookup (m_name m) data with
      | Some v =>
        match m_opt m with
        | Default d =>
          if negb (is_default_value (res (m_ty m)) v d) || encode_default
          then encT (m_ty m) v else pemit []
        | _ => encT (m_ty m) v
        end
      | None =>
        match m_opt m with
        | Mandatory => pfail EEncode
        | _ => pemit []
        end
      end.

    Definition p_root (ms : list (member_of ty)) (data : list (string * value)) : penc :=
      pemit (map (fun m => presence_bit res m data) (filter has_presence_bit ms)) ;;
      p_all (fun m => p_member m data false) ms.

    (** fresh Encoder for an addition group; reset when only a zero preamble *)
    Definition p_group (ms : list (member_of ty)) (data : list (string * value)) : result bits :=
      let* bs := prun (p_root ms data) in
      if all_false bs && (length bs =? length (filter has_presence_bit ms))%nat then Ok [] else Ok bs.

    Fixpoint p_group_missing_first (ms : list (member_of ty)) (data : list (string * value)) (acc : pst) : bool :=
      match ms with
      | [] => false
      | m :: r =>
        match lookup (m_name m) data with
        | None => match m_opt m with Mandatory => true | _ => p_group_missing_first r data acc end
        | Some _ => match p_member m data false acc with
                    | Ok acc' => p_group_missing_first r data acc'
                    | Err _ => false
                    end
        end
      end.

    Fixpoint p_adds (adds : list (addition_of ty)) (data : list (string * value))
      : result (list (option bits)) :=
      match adds with
      | [] => Ok []
      | (isgroup, ms) :: r =>
        if isgroup then
          if p_group_missing_first ms data
               (pst_app pst0 (map (fun m => presence_bit res m data) (filter has_presence_bit ms))) then Ok []
          else
            let* bs := p_group ms data in
            let* rest := p_adds r data in
            Ok ((if (0 <? length bs)%nat then Some bs else None) :: rest)
        else
          match ms with
          | [m] =>
            match lookup (m_name m) data, m_opt m with
            | None, Mandatory => Ok []
            | found, _ =>
              let* bs := prun (p_member m data true) in
              let* rest := p_adds r data in
              Ok ((if (0 <? length bs)%nat || match found with Some _ => true | None => false end
                   then Some bs else None) :: rest)
            end
          | _ => Err EUnmodelled
          end
      end.

    Fixpoint p_open_types (l : list (option bits)) : penc :=
      match l with
      | [] => pemit []
      | None :: r => p_open_types r
      | Some bs :: r =>
        let p := pad8 bs in
        plift (enc_len_single (Z.of_nat (length p / 8))) ;; pemit p ;; p_open_types r
      end.

    Definition p_seq (root : list (member_of ty)) (ext : option (list (addition_of ty))) (v : value) : penc :=
      match v with
      | VSeq data =>
        match ext with
        | None => p_root root data
        | Some adds =>
          fun acc =>
            let* processed := (match adds with [] => Ok [] | _ => p_adds adds data end) in
            if negb (existsb is_some processed) then (pemit [false] ;; p_root root data) acc
            else
              let n := length adds in
              let pres := map is_some processed ++ repeat false (n - length processed) in
              (pemit [true] ;; p_root root data ;; plift (enc_small_len (Z.of_nat n)) ;; pemit pres ;;
               palign_e ;; p_open_types processed) acc
        end
      | _ => pfail EUnmodelled
      end.

    (** decoders *)
    Definition pd_one_addition (adds : list (addition_of ty)) (open_len : Z) : reader (list (string * value)) :=
      match adds with
      | [] => do* _ <- skip_bits (Z.to_nat (8 * open_len)); rret []
      | (isgroup, ms) :: _ =>
        if isgroup then dec_root decT ms
        else match ms with
             | [m] => do* v <- decT (m_ty m); rret [(m_name m, v)]
             | _ => rfail EUnmodelled
             end
      end.

    Fixpoint pd_adds (pres : list bool) (adds : list (addition_of ty)) : reader (list (string * value)) :=
      match pres with
      | [] => rret []
      | p :: pres' =>
        let adds' := tl adds in
        if negb p then pd_adds pres' adds'
        else
          do* open_len <- read_len;
          do* (fields, consumed) <- with_consumed (pd_one_addition adds open_len);
          do* _ <- (let al := (consumed mod 8)%nat in
                    if (al =? 0)%nat then rret tt else skip_bits (8 - al));
          do* more <- pd_adds pres' adds';
          rret (fields ++ more)
      end.

    Definition pd_seq (root : list (member_of ty)) (ext : option (list (addition_of ty))) : reader value :=
      match ext with
      | None => do* fs <- dec_root decT root; rret (VSeq fs)
      | Some adds =>
        do* b <- read_bit;
        do* fs <- dec_root decT root;
        if b then
          do* n <- read_small_len;
          do* pres <- read_raw (Z.to_nat n);
          do* _ <- r_align;
          do* more <- pd_adds pres adds; rret (VSeq (fs ++ more))
        else rret (VSeq fs)
      end.

    (** per.ArrayType *)
    Definition p_seqof (elem : ty) (sz : size) (v : value) : penc :=
      match v with
      | VList vs =>
        let n := Z.of_nat (length vs) in
        let elems := p_all (encT elem) vs in
        let root : penc :=
            if size_unbound sz then palign_e ;; p_frag (frag_fuel vs) (encT elem) vs
            else if negb (size_lo sz =? size_hi sz) then
              if size_in_root sz n then p_cwn n (size_lo sz) (size_hi sz) (size_nbits sz) ;; elems
              else pfail EUnmodelled
            else if n =? size_lo sz then elems else pfail EUnmodelled in
        if size_ext sz then
          if size_in_root sz n then pemit [false] ;; root
          else pemit [true] ;; palign_e ;; p_frag (frag_fuel vs) (encT elem) vs
        else root
      | _ => pfail EUnmodelled
      end.

    Definition pd_seqof (elem : ty) (sz : size) : reader value :=
      let normal :=
          if size_unbound sz then
            do* _ <- r_align; do* vs <- read_frag_auto (decT elem); rret (VList vs)
          else if negb (size_lo sz =? size_hi sz) then
            do* n <- r_cwn (size_lo sz) (size_hi sz) (size_nbits sz);
            do* vs <- read_n (Z.to_nat n) (decT elem); rret (VList vs)
          else do* vs <- read_n (Z.to_nat (size_lo sz)) (decT elem); rret (VList vs) in
      if size_ext sz then
        do* b <- read_bit;
        if b then do* _ <- r_align; do* vs <- read_frag_auto (decT elem); rret (VList vs)
        else normal
      else normal.

    (** per.Choice (fewer than 65537 alternatives) *)
    Definition p_choice_root (root : list (member_of ty)) (name : string) (v : value) : penc :=
      match find_alt name root 0 with
      | None => pfail EEncode
      | Some (i, m) =>
        (if (1 <? length root)%nat
         then p_cwn i 0 (Z.of_nat (length root) - 1) (choice_root_bits root) else pemit []) ;;
        encT (m_ty m) v
      end.

    Definition p_choice (root : list (member_of ty)) (ext : option (list (member_of ty))) (v : value) : penc :=
      match v with
      | VChoice name x =>
        match ext with
        | None => p_choice_root root name x
        | Some adds =>
          match find_alt name root 0 with
          | Some _ => pemit [false] ;; p_choice_root root name x
          | None =>
            match find_alt name adds 0 with
            | None => pfail EEncode
            | Some (i, m) =>
              fun acc =>
                let* body := prun (encT (m_ty m) x) in
                let p := pad8 body in
                (pemit [true] ;; plift (enc_small_nonneg i) ;; palign_e ;;
                 plift (enc_len_single (Z.of_nat (length p / 8))) ;; pemit p) acc
            end
          end
        end
      | _ => pfail EUnmodelled
      end.

    Definition pd_choice_root (root : list (member_of ty)) : reader value :=
      do* i <- (if (1 <? length root)%nat
                then r_cwn 0 (Z.of_nat (length root) - 1) (choice_root_bits root) else rret 0);
      match nth_z root i with
      | None => rfail EDecode
      | Some m => do* v <- decT (m_ty m); rret (VChoice (m_name m) v)
      end.

    Definition pd_choice (root : list (member_of ty)) (ext : option (list (member_of ty))) : reader value :=
      match ext with
      | None => pd_choice_root root
      | Some adds =>
        do* b <- read_bit;
        if negb b then pd_choice_root root
        else
          do* i <- read_small_nonneg;
          do* _ <- r_align;
          do* len <- read_len;
          let nbits := Z.to_nat (8 * len) in
          match nth_z adds i with
          | None => do* _ <- skip_bits nbits; rret VUnknownChoice
          | Some m =>
            do* (v, consumed) <- with_consumed (decT (m_ty m));
            if (nbits <? consumed)%nat then rfail EUnmodelled
            else do* _ <- skip_bits (nbits - consumed); rret (VChoice (m_name m) v)
          end
      end.
  End PMembers.

  Fixpoint penc_ty (fuel : nat) (t : ty) (v : value) {struct fuel} : penc :=
    match fuel with
    | O => pfail EFuel
    | S f =>
      match t with
      | TBool => match v with VBool b => pemit [b] | _ => pfail EUnmodelled end
      | TNull => pemit []
      | TInt c => match v with VInt z => p_int c z | _ => pfail EUnmodelled end
      | TEnum root ext => plift (enc_enum numeric root ext v)
      | TBits named sz =>
        match v with
        | VBits b n => p_bitstring (match named with Some _ => true | None => false end) sz b n
        | _ => pfail EUnmodelled
        end
      | TOctets sz => match v with VBytes b => p_octets sz b | _ => pfail EUnmodelled end
      | TStr SkUTF8 _ _ => match v with VStr c => p_utf8 c | _ => pfail EUnmodelled end
      | TStr k sz alpha => match v with VStr c => p_kmstring k sz alpha c | _ => pfail EUnmodelled end
      | TOid => match v with VOid a => p_oid a | _ => pfail EUnmodelled end
      | TSeq _ root ext => p_seq (penc_ty f) (resolve e f) root ext v
      | TSeqOf _ elem sz => p_seqof (penc_ty f) elem sz v
      | TChoice root ext => p_choice (penc_ty f) root ext v
      | TRef n => match lookup n e with Some t' => penc_ty f t' v | None => pfail EUnmodelled end
      | TTag _ t' => penc_ty f t' v
      end
    end.

  Fixpoint pdec_ty (fuel : nat) (t : ty) {struct fuel} : reader value :=
    match fuel with
    | O => rfail EFuel
    | S f =>
      match t with
      | TBool => do* b <- read_bit; rret (VBool b)
      | TNull => rret VNone
      | TInt c => do* z <- r_int c; rret (VInt z)
      | TEnum root ext => read_enum numeric root ext
      | TBits _ sz => r_bitstring sz
      | TOctets sz => r_octets sz
      | TStr SkUTF8 _ _ => r_utf8
      | TStr k sz alpha => r_kmstring k sz alpha
      | TOid => r_oid
      | TSeq _ root ext => pd_seq (pdec_ty f) root ext
      | TSeqOf _ elem sz => pd_seqof (pdec_ty f) elem sz
      | TChoice root ext => pd_choice (pdec_ty f) root ext
      | TRef n => match lookup n e with Some t' => pdec_ty f t' | None => rfail EUnmodelled end
      | TTag _ t' => pdec_ty f t'
      end
    end.
End PComposite.

Definition per_encode (numeric : bool) (fuel : nat) (e : env) (t : ty) (v : value) : result (list Z) :=
  let* bs := prun (penc_ty numeric e fuel t v) in Ok (bits_to_bytes bs).

Definition per_decode (numeric : bool) (fuel : nat) (e : env) (t : ty) (data : list Z) : result (value * nat) :=
  let input := bytes_to_bits data in
  match pdec_ty numeric e fuel t input with
  | Ok (v, rest) => Ok (v, (length input - length rest)%nat)
  | Err x => Err x
  end.
