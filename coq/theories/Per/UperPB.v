(** Prefix behaviour (PB) of every UPER decoder of the model: a successful
    run consumed a prefix of its input, does not depend on what follows, and
    every strict prefix of what it consumed is rejected with the library's
    decode error.  By induction on fuel for the type-directed decoder. *)
From Asn1V Require Import Base.Prelude Base.Sweep Base.Bits Base.BitsProofs Base.Utf8
     Syntax.Asn1 Per.UperImpl Per.UperPrim.

Ltac pb_step :=
  first
    [ apply PB_ret | apply PB_fail | apply PB_read_bit | apply PB_read_uint | apply PB_read_raw
    | apply PB_skip_bits | apply PB_read_len | assumption
    | apply PB_read_n
    | apply PB_bind; [|intros ?]
    | apply PB_if
    | match goal with
      | |- PB (match ?x with _ => _ end) => destruct x
      | |- PB (let '(_, _) := ?x in _) => destruct x
      end ].
Ltac pb := repeat pb_step.

Lemma PB_read_small_nonneg : PB read_small_nonneg.
Proof. unfold read_small_nonneg. pb. Qed.

Lemma PB_read_small_len : PB read_small_len.
Proof. unfold read_small_len. pb. Qed.

Lemma PB_read_unconstrained : PB read_unconstrained.
Proof. unfold read_unconstrained. pb. Qed.

Lemma PB_read_int c : PB (read_int c).
Proof. unfold read_int, read_int_root. pb; apply PB_read_unconstrained. Qed.

Lemma PB_read_enum numeric root ext : PB (read_enum numeric root ext).
Proof. unfold read_enum, read_enum_root. pb; apply PB_read_small_nonneg. Qed.

Lemma PB_read_byte : PB read_byte.
Proof. apply PB_read_uint. Qed.

Lemma PB_km_read_char a ident : PB (km_read_char a ident).
Proof. unfold km_read_char. pb. Qed.

Ltac Zify.zify_post_hook ::= Z.div_mod_to_equations.

Lemma PB_length {A} (d : reader A) inp b rest : PB d -> d inp = Ok (b, rest) -> (length rest <= length inp)%nat.
Proof. intros H E. destruct (H _ _ _ E) as (u & -> & _). rewrite app_length. lia. Qed.

Lemma read_uint_consumes n inp v r : read_uint n inp = Ok (v, r) -> (length r + n = length inp)%nat.
Proof.
  unfold read_uint. destruct (length inp <? n)%nat eqn:E; [discriminate|].
  intros H. assert (Hr : r = skipn n inp) by congruence. subst r. rewrite skipn_length. lia.
Qed.

Lemma read_len_consumes inp n rest : read_len inp = Ok (n, rest) -> (length rest + 8 <= length inp)%nat.
Proof.
  unfold read_len, rbind. destruct (read_uint 8 inp) as [[v r1]|e] eqn:E; [|discriminate].
  pose proof (read_uint_consumes _ _ _ _ E) as H8.
  intros H.
  assert (Hle : (length rest <= length r1)%nat).
  { destruct (Z.land v 128 =? 0); [unfold rret in H; assert (rest = r1) by congruence; subst; lia|].
    destruct (Z.land v 192 =? 128).
    - destruct (read_uint 8 r1) as [[w r2]|e] eqn:E2; [|discriminate].
      pose proof (read_uint_consumes _ _ _ _ E2). unfold rret in H.
      assert (rest = r2) by congruence. subst. lia.
    - repeat match type of H with (if ?c then _ else _) _ = _ => destruct c end;
        try (unfold rret in H; assert (rest = r1) by congruence; subst; lia); discriminate. }
  lia.
Qed.

Lemma rbind_ok {A B} (m : reader A) (f : A -> reader B) inp b r :
  rbind m f inp = Ok (b, r) -> exists a r1, m inp = Ok (a, r1) /\ f a r1 = Ok (b, r).
Proof. unfold rbind. destruct (m inp) as [[a r1]|e]; [|discriminate]. eauto. Qed.

Lemma is_dec_err_bind {A B} (m : reader A) (f : A -> reader B) inp :
  is_dec_err (m inp) -> is_dec_err (rbind m f inp).
Proof. intros (e & He & Hd). unfold rbind. rewrite He. exists e. auto. Qed.

Lemma read_frag_spec {A} (rd : reader A) : PB rd -> forall f inp items r,
  read_frag f rd inp = Ok (items, r) ->
  exists used, inp = used ++ r /\
    (forall f' rest', (length used / 8 < f')%nat -> read_frag f' rd (used ++ rest') = Ok (items, rest')) /\
    (forall k f', (k < length used)%nat -> (k / 8 < f')%nat -> is_dec_err (read_frag f' rd (firstn k used))).
Proof.
  intros Hrd. induction f as [|f IH]; intros inp items r H; [discriminate|].
  cbn [read_frag] in H.
  apply rbind_ok in H. destruct H as (n & r1 & E1 & H).
  apply rbind_ok in H. destruct H as (its & r2 & E2 & H).
  pose proof (read_len_consumes _ _ _ E1) as H8.
  destruct (PB_read_len _ _ _ E1) as (u1 & -> & L2 & L3).
  destruct (PB_read_n (Z.to_nat n) rd Hrd _ _ _ E2) as (u2 & -> & N2 & N3).
  rewrite !app_length in H8.
  assert (Hu1 : (8 <= length u1)%nat) by lia.
  destruct (n <? 16384) eqn:En.
  - unfold rret in H. inversion H; subst. exists (u1 ++ u2). split; [rewrite app_assoc; reflexivity|]. split.
    + intros f' rest' Hf. destruct f' as [|f']; [lia|]. cbn [read_frag]. unfold rbind.
      rewrite <- app_assoc, L2, N2, En. reflexivity.
    + intros k f' Hk Hf. destruct f' as [|f']; [lia|]. cbn [read_frag]. rewrite app_length in Hk.
      destruct (Nat.lt_ge_cases k (length u1)) as [Hlt|Hge].
      * rewrite firstn_app_le by lia. apply is_dec_err_bind. apply L3. exact Hlt.
      * rewrite firstn_app_ge by lia. unfold rbind at 1. rewrite L2.
        apply is_dec_err_bind. apply N3. lia.
  - apply rbind_ok in H. destruct H as (more & r3 & E3 & H). unfold rret in H. inversion H; subst.
    destruct (IH _ _ _ E3) as (u3 & -> & F2 & F3).
    exists (u1 ++ u2 ++ u3). split; [rewrite <- !app_assoc; reflexivity|]. split.
    + intros f' rest' Hf. destruct f' as [|f']; [lia|]. cbn [read_frag]. unfold rbind.
      rewrite <- !app_assoc, L2, N2, En.
      rewrite F2; [reflexivity|]. rewrite !app_length in Hf. lia.
    + intros k f' Hk Hf. destruct f' as [|f']; [lia|]. cbn [read_frag]. rewrite !app_length in Hk.
      destruct (Nat.lt_ge_cases k (length u1)) as [Hlt|Hge].
      * rewrite firstn_app_le by lia. apply is_dec_err_bind. apply L3. exact Hlt.
      * rewrite firstn_app_ge by lia. unfold rbind at 1. rewrite L2.
        destruct (Nat.lt_ge_cases (k - length u1) (length u2)) as [Hlt2|Hge2].
        -- rewrite firstn_app_le by lia. apply is_dec_err_bind. apply N3. exact Hlt2.
        -- rewrite firstn_app_ge by lia. unfold rbind at 1. rewrite N2, En.
           apply is_dec_err_bind. apply F3; lia.
Qed.

Lemma PB_read_frag_auto {A} (rd : reader A) : PB rd -> PB (read_frag_auto rd).
Proof.
  intros Hrd inp items r H. unfold read_frag_auto in H.
  destruct (read_frag_spec rd Hrd _ _ _ _ H) as (used & -> & F2 & F3).
  exists used. split; [reflexivity|]. split.
  - intros rest'. unfold read_frag_auto. apply F2. rewrite app_length. lia.
  - intros k Hk. unfold read_frag_auto. apply F3; [exact Hk|]. rewrite firstn_length. lia.
Qed.

Lemma PB_read_bitstring sz : PB (read_bitstring sz).
Proof. unfold read_bitstring. pb. apply PB_read_frag_auto. apply PB_read_bit. Qed.

Lemma PB_read_octets sz : PB (read_octets sz).
Proof. unfold read_octets. pb; try apply PB_read_byte. all: apply PB_read_frag_auto; apply PB_read_byte. Qed.

Lemma PB_read_kmstring k sz alpha : PB (read_kmstring k sz alpha).
Proof.
  unfold read_kmstring. pb; try apply PB_km_read_char.
  all: apply PB_read_frag_auto; apply PB_km_read_char.
Qed.

Lemma PB_read_utf8 : PB read_utf8.
Proof. unfold read_utf8. pb. apply PB_read_frag_auto. apply PB_read_byte. Qed.

Lemma PB_read_oid : PB read_oid.
Proof. unfold read_oid. pb. Qed.

Lemma PB_with_consumed {A} (m : reader A) : PB m -> PB (with_consumed m).
Proof.
  intros Hm inp [a c] rest H. unfold with_consumed in H.
  destruct (m inp) as [[a' r]|e] eqn:E; [|discriminate].
  assert (a' = a /\ c = (length inp - length r)%nat /\ r = rest) as (-> & -> & ->) by (inversion H; auto).
  destruct (Hm _ _ _ E) as (u & -> & H2 & H3). exists u. split; [reflexivity|]. split.
  - intros rest'. unfold with_consumed. rewrite H2. rewrite !app_length. f_equal. f_equal. f_equal. lia.
  - intros k Hk. unfold with_consumed. destruct (H3 k Hk) as (e & -> & He). exists e. auto.
Qed.

(** ** Composite decoders, given PB of the nested decoder *)
Section Composite.
  Variable decT : ty -> reader value.
  Hypothesis HdecT : forall t, PB (decT t).

  Lemma PB_dec_members ms pres : PB (dec_members decT ms pres).
  Proof.
    revert pres. induction ms as [|m ms IH]; intros pres; cbn [dec_members]; [apply PB_ret|].
    destruct (has_presence_bit m).
    - destruct pres as [|p pres']; [apply PB_fail|]. destruct p.
      + pb; [apply HdecT | apply IH].
      + destruct (m_opt m); pb; apply IH.
    - pb; [apply HdecT | apply IH].
  Qed.

  Lemma PB_dec_root ms : PB (dec_root decT ms).
  Proof. unfold dec_root. pb. apply PB_dec_members. Qed.

  Lemma PB_dec_one_addition adds open_len : PB (dec_one_addition decT adds open_len).
  Proof.
    unfold dec_one_addition. destruct adds as [|[isgroup ms] adds]; [pb|].
    destruct isgroup; [apply PB_dec_root|].
    destruct ms as [|m [|m' ms]]; pb. apply HdecT.
  Qed.

  Lemma PB_dec_adds pres adds : PB (dec_adds decT pres adds).
  Proof.
    revert adds. induction pres as [|p pres IH]; intros adds; cbn [dec_adds]; [apply PB_ret|].
    destruct p; cbn [negb]; [|apply IH].
    apply PB_bind; [apply PB_read_len|]. intros open_len.
    apply PB_bind; [apply PB_with_consumed, PB_dec_one_addition|]. intros [fields consumed].
    apply PB_bind; [cbv zeta; pb|]. intros _.
    apply PB_bind; [apply IH|]. intros more. apply PB_ret.
  Qed.

  Lemma PB_dec_additions adds : PB (dec_additions decT adds).
  Proof. unfold dec_additions. pb; first [apply PB_read_small_len | apply PB_dec_adds]. Qed.

  Lemma PB_dec_seq root ext : PB (dec_seq decT root ext).
  Proof.
    unfold dec_seq. destruct ext as [adds|]; pb;
      try apply PB_dec_root; try apply PB_dec_additions; try apply PB_dec_members; try apply PB_dec_adds.
  Qed.

  Lemma PB_dec_seqof elem sz : PB (dec_seqof decT elem sz).
  Proof.
    unfold dec_seqof. pb; try apply HdecT; try (apply PB_read_frag_auto; apply HdecT).
  Qed.

  Lemma PB_dec_choice_root root : PB (dec_choice_root decT root).
  Proof. unfold dec_choice_root. pb. apply HdecT. Qed.

  Lemma PB_dec_choice root ext : PB (dec_choice decT root ext).
  Proof.
    unfold dec_choice. destruct ext as [adds|]; [|apply PB_dec_choice_root].
    apply PB_bind; [apply PB_read_bit|]. intros b. destruct b; cbn [negb]; [|apply PB_dec_choice_root].
    apply PB_bind; [apply PB_read_small_nonneg|]. intros i.
    apply PB_bind; [apply PB_read_len|]. intros len. cbv zeta.
    destruct (nth_z adds i) as [m|]; [|pb].
    apply PB_bind; [apply PB_with_consumed, HdecT|]. intros [v consumed]. pb.
  Qed.
End Composite.

(** ** The type-directed decoder *)
Theorem PB_dec numeric e fuel : forall t, PB (dec numeric e fuel t).
Proof.
  induction fuel as [|f IH]; intros t; [apply PB_fail|].
  destruct t; cbn [dec].
  - pb.
  - pb.
  - apply PB_bind; [apply PB_read_int | intros; apply PB_ret].
  - apply PB_read_enum.
  - apply PB_read_bitstring.
  - apply PB_read_octets.
  - destruct k; first [apply PB_read_utf8 | apply PB_read_kmstring].
  - apply PB_read_oid.
  - apply PB_dec_seq. exact IH.
  - apply PB_dec_seqof. exact IH.
  - apply PB_dec_choice. exact IH.
  - destruct (lookup name e); [apply IH | apply PB_fail].
  - apply IH.
Qed.

(** ** Top level: octets in.  If the decoder accepts an octet string while
    reading into its last octet, no strict octet-prefix of it is accepted:
    each is rejected with the library's decode error (C16); and appending
    octets changes neither the value nor the number of bits consumed (C01,
    C07 re-synchronisation). *)
Lemma bytes_to_bits_length bs : length (bytes_to_bits bs) = (8 * length bs)%nat.
Proof.
  unfold bytes_to_bits. induction bs as [|b bs IH]; [reflexivity|].
  cbn [flat_map]. rewrite app_length, to_bits_length, IH. cbn [length]. lia.
Qed.

Lemma bytes_to_bits_app a b : bytes_to_bits (a ++ b) = bytes_to_bits a ++ bytes_to_bits b.
Proof. unfold bytes_to_bits. apply flat_map_app. Qed.

Lemma bytes_to_bits_firstn k bs : bytes_to_bits (firstn k bs) = firstn (8 * k) (bytes_to_bits bs).
Proof.
  revert k. induction bs as [|b bs IH]; intros k.
  - rewrite !firstn_nil. reflexivity.
  - destruct k as [|k]; [reflexivity|]. cbn [firstn]. unfold bytes_to_bits in *. cbn [flat_map].
    replace (8 * S k)%nat with (8 + 8 * k)%nat by lia.
    rewrite firstn_app_ge by (rewrite to_bits_length; lia). rewrite to_bits_length.
    replace (8 + 8 * k - 8)%nat with (8 * k)%nat by lia. rewrite IH. reflexivity.
Qed.

Theorem uper_decode_truncation numeric fuel e t data v n :
  uper_decode numeric fuel e t data = Ok (v, n) ->
  (8 * (length data - 1) < n)%nat ->
  forall k, (k < length data)%nat ->
    exists x, uper_decode numeric fuel e t (firstn k data) = Err x /\ is_decode_error x = true.
Proof.
  unfold uper_decode. intros H Hn k Hk.
  destruct (dec numeric e fuel t (bytes_to_bits data)) as [[v' rest]|x] eqn:E; [|discriminate].
  assert (v' = v /\ n = (length (bytes_to_bits data) - length rest)%nat) as (-> & ->) by (inversion H; auto).
  destruct (PB_dec numeric e fuel t _ _ _ E) as (used & Hu & _ & H3).
  rewrite Hu, app_length in Hn. replace (length used + length rest - length rest)%nat with (length used) in Hn by lia.
  rewrite bytes_to_bits_firstn, Hu.
  rewrite firstn_app_le by lia.
  destruct (H3 (8 * k)%nat ltac:(lia)) as (x & -> & Hx). exists x. auto.
Qed.

Theorem uper_decode_ext_stable numeric fuel e t data v n tail :
  uper_decode numeric fuel e t data = Ok (v, n) ->
  uper_decode numeric fuel e t (data ++ tail) = Ok (v, n).
Proof.
  unfold uper_decode. intros H.
  destruct (dec numeric e fuel t (bytes_to_bits data)) as [[v' rest]|x] eqn:E; [|discriminate].
  assert (v' = v /\ n = (length (bytes_to_bits data) - length rest)%nat) as (-> & ->) by (inversion H; auto).
  destruct (PB_dec numeric e fuel t _ _ _ E) as (used & Hu & H2 & _).
  rewrite bytes_to_bits_app, Hu, <- app_assoc, H2. rewrite !app_length. f_equal. f_equal. lia.
Qed.

