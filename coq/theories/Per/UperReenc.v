(** C01, third clause, for the UPER model: re-encoding the decoded value
    reproduces the identical bits.

    [enc t v = Ok bs -> enc t (norm t v) = Ok bs], where [norm t v] is what the
    decoder returns for [bs] ([enc_dec_rt] in UperRT.v), under the decidable
    side condition [reenc_ok] below.  Every clause of [reenc_ok] is shown to be
    necessary by a [_refuted] example at the end of the file. *)
From Asn1V Require Import Base.Prelude Base.Sweep Base.Bits Base.BitsProofs Base.Utf8
     Syntax.Asn1 Per.UperImpl Per.UperPrim Per.UperPB Per.UperRT.

Ltac Zify.zify_post_hook ::= Z.div_mod_to_equations.

(** ** Generic list facts *)

Lemma enc_all_ext {A} (e1 e2 : A -> result bits) l :
  (forall x, In x l -> e1 x = e2 x) -> enc_all e1 l = enc_all e2 l.
Proof.
  induction l as [|x l IH]; intros H; cbn [enc_all]; [reflexivity|].
  rewrite (H x (or_introl eq_refl)). rewrite IH; [reflexivity|]. intros y Hy. apply H. right. exact Hy.
Qed.

Lemma enc_all_map {A B} (g : A -> B) (e1 : B -> result bits) l :
  enc_all e1 (map g l) = enc_all (fun x => e1 (g x)) l.
Proof. induction l as [|x l IH]; cbn [enc_all map]; [reflexivity|]. rewrite IH. reflexivity. Qed.

Lemma In_firstn {A} (x : A) n l : In x (firstn n l) -> In x l.
Proof. intros H. rewrite <- (firstn_skipn n l). apply in_or_app. left. exact H. Qed.
Lemma In_skipn {A} (x : A) n l : In x (skipn n l) -> In x l.
Proof. intros H. rewrite <- (firstn_skipn n l). apply in_or_app. right. exact H. Qed.

Lemma enc_frag_ext {A} (e1 e2 : A -> result bits) fuel : forall l,
  (forall x, In x l -> e1 x = e2 x) -> enc_frag fuel e1 l = enc_frag fuel e2 l.
Proof.
  induction fuel as [|f IH]; intros l H; cbn [enc_frag].
  - rewrite (enc_all_ext e1 e2 l H). reflexivity.
  - rewrite (enc_all_ext e1 e2 l H).
    destruct (Z.of_nat (length l) <? 16384); [reflexivity|].
    set (k := Z.to_nat (16384 * _)).
    rewrite (enc_all_ext e1 e2 (firstn k l)) by (intros x Hx; apply H; eapply In_firstn; exact Hx).
    rewrite (IH (skipn k l)) by (intros x Hx; apply H; eapply In_skipn; exact Hx). reflexivity.
Qed.

Lemma enc_frag_map {A B} (g : A -> B) (e1 : B -> result bits) fuel : forall l,
  enc_frag fuel e1 (map g l) = enc_frag fuel (fun x => e1 (g x)) l.
Proof.
  induction fuel as [|f IH]; intros l; cbn [enc_frag]; rewrite map_length, enc_all_map; [reflexivity|].
  destruct (Z.of_nat (length l) <? 16384); [reflexivity|].
  rewrite firstn_map, skipn_map, enc_all_map, IH. reflexivity.
Qed.

Lemma frag_fuel_map {A B} (g : A -> B) l : frag_fuel (map g l) = frag_fuel l.
Proof. unfold frag_fuel. rewrite map_length. reflexivity. Qed.

(** re-encoding a list of items whose item encoder is stable under [nm] *)
Section Items.
  Context {A : Type} (enc1 : A -> result bits) (nm : A -> A) (ok : A -> bool).
  Hypothesis H1 : forall x bs, ok x = true -> enc1 x = Ok bs -> enc1 (nm x) = Ok bs.

  Lemma enc_all_reenc l : forall body,
    forallb ok l = true -> enc_all enc1 l = Ok body -> enc_all enc1 (map nm l) = Ok body.
  Proof.
    induction l as [|x l IH]; intros body Hok; cbn [enc_all map]; [auto|].
    cbn [forallb] in Hok. apply andb_prop in Hok. destruct Hok as [Hx Hl].
    destruct (enc1 x) as [a|] eqn:Ea; [|discriminate]. cbn [bind].
    destruct (enc_all enc1 l) as [b|] eqn:Eb; [|discriminate]. cbn [bind]. intros H.
    rewrite (H1 _ _ Hx Ea). cbn [bind]. rewrite (IH _ Hl eq_refl). cbn [bind]. exact H.
  Qed.

  Lemma forallb_firstn n l : forallb ok l = true -> forallb ok (firstn n l) = true.
  Proof. rewrite !forallb_forall. intros H x Hx. apply H. eapply In_firstn. exact Hx. Qed.
  Lemma forallb_skipn n l : forallb ok l = true -> forallb ok (skipn n l) = true.
  Proof. rewrite !forallb_forall. intros H x Hx. apply H. eapply In_skipn. exact Hx. Qed.

  Lemma enc_frag_reenc fuel : forall l body,
    forallb ok l = true -> enc_frag fuel enc1 l = Ok body -> enc_frag fuel enc1 (map nm l) = Ok body.
  Proof.
    induction fuel as [|f IH]; intros l body Hok; cbn [enc_frag]; rewrite map_length.
    - destruct (Z.of_nat (length l) <? 16384); [|auto].
      destruct (enc_all enc1 l) as [b|] eqn:Eb; [|discriminate]. cbn [bind]. intros H.
      rewrite (enc_all_reenc _ _ Hok Eb). exact H.
    - destruct (Z.of_nat (length l) <? 16384).
      + destruct (enc_all enc1 l) as [b|] eqn:Eb; [|discriminate]. cbn [bind]. intros H.
        rewrite (enc_all_reenc _ _ Hok Eb). exact H.
      + set (k := Z.to_nat (16384 * _)).
        destruct (enc_all enc1 (firstn k l)) as [b|] eqn:Eb; [|discriminate]. cbn [bind].
        destruct (enc_frag f enc1 (skipn k l)) as [more|] eqn:Em; [|discriminate]. cbn [bind]. intros H.
        rewrite firstn_map, skipn_map.
        rewrite (enc_all_reenc _ _ (forallb_firstn k l Hok) Eb). cbn [bind].
        rewrite (IH _ _ (forallb_skipn k l Hok) Em). exact H.
  Qed.
End Items.

(** ** OCTET STRING: [to_bits 8] only sees the low eight bits *)

Lemma to_bits_mod256 b : to_bits 8 (b mod 256) = to_bits 8 b.
Proof.
  cbn [to_bits]. change 256 with (2 ^ 8).
  rewrite !Z.mod_pow2_bits_low by (cbn; lia). reflexivity.
Qed.

Lemma bytes_to_bits_norm b : bytes_to_bits (norm_bytes b) = bytes_to_bits b.
Proof.
  unfold bytes_to_bits, norm_bytes. induction b as [|x b IH]; cbn [map flat_map]; [reflexivity|].
  rewrite IH, to_bits_mod256. reflexivity.
Qed.

Lemma enc_octets_norm sz b : enc_octets sz (norm_bytes b) = enc_octets sz b.
Proof.
  unfold enc_octets. rewrite bytes_to_bits_norm. unfold norm_bytes. rewrite frag_fuel_map, enc_frag_map, !map_length.
  rewrite (enc_frag_ext (fun x => Ok (to_bits 8 (x mod 256))) (fun b0 => Ok (to_bits 8 b0)))
    by (intros x _; rewrite to_bits_mod256; reflexivity).
  reflexivity.
Qed.

(** ** BIT STRING *)

Lemma strip_all_false k : strip_trailing_false (repeat false k) = [].
Proof. induction k as [|k IH]; cbn [repeat strip_trailing_false]; [reflexivity|]. rewrite IH. reflexivity. Qed.

Lemma strip_app_false l k : strip_trailing_false (l ++ repeat false k) = strip_trailing_false l.
Proof.
  induction l as [|b l IH]; cbn [app strip_trailing_false]; [apply strip_all_false|]. rewrite IH. reflexivity.
Qed.

Lemma strip_idem l : strip_trailing_false (strip_trailing_false l) = strip_trailing_false l.
Proof.
  induction l as [|b l IH]; cbn [strip_trailing_false]; [reflexivity|].
  destruct (strip_trailing_false l) as [|x r] eqn:E.
  - destruct b; reflexivity.
  - cbn [strip_trailing_false] in *. rewrite IH. reflexivity.
Qed.

Lemma firstn_app_exact {A} (l r : list A) : firstn (length l) (l ++ r) = l.
Proof. rewrite firstn_app, Nat.sub_diag, firstn_all. cbn [firstn]. apply app_nil_r. Qed.

Lemma bitvalue_bits_canon data :
  bitvalue_bits (bits_to_bytes data) (Z.of_nat (length data)) = data.
Proof. unfold bitvalue_bits. rewrite Nat2Z.id, bytes_bits_roundtrip. apply firstn_app_exact. Qed.

Lemma named_bits_of_canon sz b :
  named_bits_of sz (bits_to_bytes (named_bits_of sz b)) = named_bits_of sz b.
Proof.
  assert (Hs : strip_trailing_false (bytes_to_bits (bits_to_bytes (named_bits_of sz b)))
               = strip_trailing_false (bytes_to_bits b)).
  { rewrite bytes_bits_roundtrip, strip_app_false. unfold named_bits_of. destruct sz as [|lo hi ext].
    - apply strip_idem.
    - destruct (Z.of_nat (length (strip_trailing_false (bytes_to_bits b))) <? lo).
      + rewrite strip_app_false. apply strip_idem.
      + apply strip_idem. }
  unfold named_bits_of at 1. rewrite Hs. reflexivity.
Qed.

Lemma bits_guard data : (Z.of_nat (length (bits_to_bytes data)) * 8 <? Z.of_nat (length data)) = false.
Proof. pose proof (bits_to_bytes_length data). lia. Qed.

(** the condition on a BIT STRING value: for a named-bit string with an
    extensible SIZE that is "unbound" for PER (upper bound above 65535) the
    stripped string must still be inside the root range (the extension bit of
    the first encoding is computed from the bit count the USER gave, the one of
    the second encoding from the stripped count).  For every other BIT STRING
    type nothing is needed: bits beyond the bit count are dropped by both
    encodings, and the range check follows from the success of the first. *)
Definition bits_ok (named : bool) (sz : size) (b : list Z) (n : Z) : bool :=
  if named && size_ext sz && size_unbound sz
  then size_in_root sz (Z.of_nat (length (named_bits_of sz b))) else true.

Lemma enc_bitstring_reenc named sz b n bs :
  bits_ok named sz b n = true ->
  enc_bitstring named sz b n = Ok bs ->
  match norm_bitstring named sz b n with
  | VBits b' n' => enc_bitstring named sz b' n' = Ok bs
  | _ => False
  end.
Proof.
  unfold bits_ok, norm_bitstring, bits_value. intros Hnamed.
  set (data := if named then named_bits_of sz b else bitvalue_bits b n).
  unfold enc_bitstring. rewrite bits_guard.
  destruct (Z.of_nat (length b) * 8 <? n) eqn:Eg; [discriminate|].
  assert (Hdata : (if named then named_bits_of sz (bits_to_bytes data)
                   else bitvalue_bits (bits_to_bytes data) (Z.of_nat (length data))) = data).
  { unfold data. destruct named; [apply named_bits_of_canon | apply bitvalue_bits_canon]. }
  rewrite Hdata. fold data.
  destruct (size_ext sz) eqn:Eext; [|auto].
  destruct (size_in_root sz n) eqn:Ein; [|discriminate]. cbn [bind].
  assert (Hin' : forall r, (if size_unbound sz
            then let* body := enc_frag (frag_fuel data) (fun b0 : bool => Ok [b0]) data in Ok ([false] ++ body)
            else if negb (size_lo sz =? size_hi sz)
                 then if size_in_root sz (Z.of_nat (length data))
                      then Ok ([false] ++ to_bits (size_nbits sz) (Z.of_nat (length data) - size_lo sz) ++ data)
                      else Err EUnmodelled
                 else if Z.of_nat (length data) =? size_lo sz then Ok ([false] ++ data) else Err EUnmodelled) = Ok r ->
           size_in_root sz (Z.of_nat (length data)) = true).
  { intros r. destruct named.
    - cbn [andb] in Hnamed. destruct (size_unbound sz); [intros _; exact Hnamed|].
      destruct (negb (size_lo sz =? size_hi sz)) eqn:Ev.
      + destruct (size_in_root sz (Z.of_nat (length data))); [reflexivity|discriminate].
      + destruct (Z.of_nat (length data) =? size_lo sz) eqn:En; [|discriminate]. intros _.
        unfold size_in_root in *. lia.
    - assert (Hlen : Z.of_nat (length data) = Z.max 0 n).
      { unfold data, bitvalue_bits. rewrite firstn_length, bytes_to_bits_length. lia. }
      rewrite Hlen. destruct (Z.leb_spec 0 n) as [Hn|Hn].
      + intros _. replace (Z.max 0 n) with n by lia. exact Ein.
      + replace (Z.max 0 n) with 0 by lia.
        destruct (size_unbound sz) eqn:Eu.
        * intros _. unfold size_in_root, size_unbound, size_lo, size_hi in *.
          destruct sz as [|lo [hi|] x]; lia.
        * destruct (negb (size_lo sz =? size_hi sz)) eqn:Ev.
          -- destruct (size_in_root sz 0); [reflexivity|discriminate].
          -- destruct (0 =? size_lo sz) eqn:En; [|discriminate]. intros _. unfold size_in_root in *. lia. }
  intros H. pose proof (Hin' _ H) as Hr. rewrite Hr in H |- *. cbn [bind]. exact H.
Qed.

(** ** OBJECT IDENTIFIER *)

Lemma enc_oid_bytes_norm arcs bytes :
  enc_oid_bytes arcs = Ok bytes -> enc_oid_bytes (norm_oid arcs) = Ok bytes.
Proof.
  unfold enc_oid_bytes. destruct (forallb (fun a => 0 <=? a) arcs) eqn:Ef; cbn [negb]; [|discriminate].
  destruct arcs as [|a0 [|a1 rest]]; try discriminate. intros H.
  cbn [forallb] in Ef. apply andb_prop in Ef. destruct Ef as [H0 Ef]. apply andb_prop in Ef. destruct Ef as [H1 Hr].
  cbn [norm_oid]. set (s := 40 * a0 + a1) in *.
  destruct (s <? 80) eqn:E; cbn [app forallb].
  - replace ((0 <=? s / 40) && ((0 <=? s mod 40) && forallb (fun a => 0 <=? a) rest)) with true
      by (rewrite Hr; lia).
    cbn [negb]. replace (40 * (s / 40) + s mod 40) with s by lia. exact H.
  - replace ((0 <=? 2) && ((0 <=? s - 80) && forallb (fun a => 0 <=? a) rest)) with true
      by (rewrite Hr; lia).
    cbn [negb]. replace (40 * 2 + (s - 80)) with s by lia. exact H.
Qed.

Lemma enc_oid_norm arcs bs : enc_oid arcs = Ok bs -> enc_oid (norm_oid arcs) = Ok bs.
Proof.
  unfold enc_oid. destruct (enc_oid_bytes arcs) as [bytes|] eqn:Eb; [|discriminate].
  rewrite (enc_oid_bytes_norm _ _ Eb). auto.
Qed.

(** ** Association lists and duplicate-free name lists *)

Definition keys {A} (l : list (string * A)) : list string := map fst l.

Lemma lookup_app {A} n (a b : list (string * A)) :
  lookup n (a ++ b) = match lookup n a with Some x => Some x | None => lookup n b end.
Proof.
  induction a as [|[k x] a IH]; cbn [app lookup]; [reflexivity|]. destruct (String.eqb n k); [reflexivity|exact IH].
Qed.

Lemma lookup_notin {A} n (l : list (string * A)) : ~ In n (keys l) -> lookup n l = None.
Proof.
  induction l as [|[k x] l IH]; cbn [lookup keys map fst In]; [reflexivity|]. intros H.
  destruct (String.eqb n k) eqn:E.
  - apply String.eqb_eq in E. subst. exfalso. apply H. left. reflexivity.
  - apply IH. intros Hin. apply H. right. exact Hin.
Qed.

Fixpoint mem_str (s : string) (l : list string) : bool :=
  match l with [] => false | x :: r => String.eqb s x || mem_str s r end.
Fixpoint nodupb (l : list string) : bool :=
  match l with [] => true | x :: r => negb (mem_str x r) && nodupb r end.

Lemma mem_str_In s l : mem_str s l = false -> ~ In s l.
Proof.
  induction l as [|x l IH]; cbn [mem_str In]; [tauto|]. intros H. apply Bool.orb_false_iff in H. destruct H as [H1 H2].
  apply String.eqb_neq in H1. intros [Hx|Hx]; [congruence|]. exact (IH H2 Hx).
Qed.

Lemma nodupb_NoDup l : nodupb l = true -> NoDup l.
Proof.
  induction l as [|x l IH]; cbn [nodupb]; [constructor|]. intros H. apply andb_prop in H. destruct H as [H1 H2].
  constructor; [apply mem_str_In; destruct (mem_str x l); [discriminate|reflexivity] | exact (IH H2)].
Qed.

Lemma NoDup_app_l {A} (a b : list A) : NoDup (a ++ b) -> NoDup a.
Proof. induction a as [|x a IH]; cbn [app]; intros H; [constructor|]. inversion H; subst. constructor; [|auto]. intros Hx. apply H2. apply in_or_app. left. exact Hx. Qed.
Lemma NoDup_app_r {A} (a b : list A) : NoDup (a ++ b) -> NoDup b.
Proof. induction a as [|x a IH]; cbn [app]; intros H; [exact H|]. inversion H; subst. auto. Qed.
Lemma NoDup_app_disj {A} (a b : list A) x : NoDup (a ++ b) -> In x a -> ~ In x b.
Proof.
  induction a as [|y a IH]; cbn [app In]; intros H Hx; [contradiction|]. inversion H; subst.
  destruct Hx as [->|Hx]; [|auto]. intros Hb. apply H2. apply in_or_app. right. exact Hb.
Qed.

(** ** Reflexivity of the DEFAULT comparison *)

Lemma zlist_eqb_refl l : zlist_eqb l l = true.
Proof. induction l as [|x l IH]; cbn [zlist_eqb]; [reflexivity|]. rewrite Z.eqb_refl, IH. reflexivity. Qed.

Lemma value_eqb_refl : forall v, value_eqb v v = true.
Proof.
  fix IH 1. intros v. destruct v; cbn [value_eqb]; try reflexivity.
  - destruct b; reflexivity.
  - apply Z.eqb_refl.
  - apply String.eqb_refl.
  - rewrite zlist_eqb_refl, Z.eqb_refl. reflexivity.
  - apply zlist_eqb_refl.
  - apply zlist_eqb_refl.
  - apply zlist_eqb_refl.
  - induction fields as [|[n w] r IHr]; [reflexivity|]. rewrite String.eqb_refl, (IH w). cbn [andb]. exact IHr.
  - induction vs as [|w r IHr]; [reflexivity|]. rewrite (IH w). cbn [andb]. exact IHr.
  - rewrite String.eqb_refl, (IH v). reflexivity.
Qed.

Lemma bits_eqb_refl a : bits_eqb a a = true.
Proof. induction a as [|x a IH]; cbn [bits_eqb]; [reflexivity|]. rewrite IH. destruct x; reflexivity. Qed.

Lemma is_default_refl t d : is_default_value t d d = true.
Proof.
  unfold is_default_value. destruct t; try apply value_eqb_refl.
  destruct d; try apply value_eqb_refl. apply bits_eqb_refl.
Qed.

(** ** SEQUENCE / SET, SEQUENCE OF, CHOICE given the re-encoding property of
    the nested codec (at the smaller fuel) *)
Section CompositeReenc.
  Variable encT : ty -> value -> result bits.
  Variable normT : ty -> value -> value.
  Variable res : ty -> ty.
  Variable okT : ty -> value -> bool.
  Hypothesis HR : forall t v bs, okT t v = true -> encT t v = Ok bs -> encT t (normT t v) = Ok bs.

  (** what a lookup of member [m] finds in the normalised field list *)
  Definition norm_lookup (m : member_of ty) (data : list (string * value)) : option value :=
    match lookup (m_name m) data, m_opt m with
    | Some v, Default d => if is_default_value (res (m_ty m)) v d then Some d else Some (normT (m_ty m) v)
    | Some v, _ => Some (normT (m_ty m) v)
    | None, Default d => Some d
    | None, _ => None
    end.

  Lemma keys_norm_members ms data n :
    In n (keys (norm_members normT res ms data)) -> In n (map m_name ms).
  Proof.
    induction ms as [|m ms IH]; cbn [norm_members map]; [auto|].
    destruct (lookup (m_name m) data) as [v|]; destruct (m_opt m) as [| |d];
      try destruct (is_default_value (res (m_ty m)) v d);
      cbn [keys map fst In]; intros H; try (destruct H as [H|H]; [left; exact H|]); right; apply IH; exact H.
  Qed.

  Lemma lookup_norm_members ms data X :
    NoDup (map m_name ms) -> forall m, In m ms ->
    lookup (m_name m) (norm_members normT res ms data ++ X)
    = match norm_lookup m data with Some w => Some w | None => lookup (m_name m) X end.
  Proof.
    induction ms as [|m0 ms IH]; intros Hnd m Hin; [contradiction|].
    cbn [map] in Hnd. inversion Hnd as [|? ? Hnot Hnd']; subst.
    destruct Hin as [->|Hin].
    - assert (Htail : lookup (m_name m) (norm_members normT res ms data ++ X) = lookup (m_name m) X).
      { rewrite lookup_app, lookup_notin; [reflexivity|]. intros Hk. apply Hnot. eapply keys_norm_members. exact Hk. }
      unfold norm_lookup. cbn [norm_members].
      destruct (lookup (m_name m) data) as [v|]; destruct (m_opt m) as [| |d];
        try destruct (is_default_value (res (m_ty m)) v d);
        cbn [app lookup]; rewrite ?String.eqb_refl; try reflexivity; exact Htail.
    - assert (Hne : String.eqb (m_name m) (m_name m0) = false).
      { apply String.eqb_neq. intros E. apply Hnot. rewrite <- E. apply in_map. exact Hin. }
      cbn [norm_members].
      destruct (lookup (m_name m0) data) as [v|]; destruct (m_opt m0) as [| |d];
        try destruct (is_default_value (res (m_ty m0)) v d);
        cbn [app lookup]; rewrite ?Hne; apply IH; assumption.
  Qed.

  Definition default_stable (m : member_of ty) (v : value) : bool :=
    match m_opt m with
    | Default d => is_default_value (res (m_ty m)) v d
                   || negb (is_default_value (res (m_ty m)) (normT (m_ty m) v) d)
    | _ => true
    end.

  (** a present component satisfies the nested condition, and (in a root
      or an addition group, where DEFAULT values are not encoded) a value that
      differs from the DEFAULT still differs after normalisation *)
  Definition member_ok (stable : bool) (data : list (string * value)) (m : member_of ty) : bool :=
    match lookup (m_name m) data with
    | Some v => okT (m_ty m) v && (if stable then default_stable m v else true)
    | None => true
    end.

  Lemma enc_member_reenc m data data' a :
    lookup (m_name m) data' = norm_lookup m data ->
    member_ok true data m = true ->
    enc_member encT res m data false = Ok a ->
    enc_member encT res m data' false = Ok a /\ presence_bit res m data' = presence_bit res m data.
  Proof.
    unfold enc_member, presence_bit, norm_lookup, member_ok, default_stable. intros Hl.
    rewrite Hl. clear Hl.
    destruct (lookup (m_name m) data) as [v|]; destruct (m_opt m) as [| |d]; cbn [negb orb andb];
      try (intros Hok H; apply andb_prop in Hok; destruct Hok as [Hv Hs]).
    - split; [apply HR; assumption|reflexivity].
    - split; [apply HR; assumption|reflexivity].
    - destruct (is_default_value (res (m_ty m)) v d) eqn:Ed; cbn [negb orb] in *.
      + rewrite is_default_refl. cbn [negb]. split; [exact H|reflexivity].
      + destruct (is_default_value (res (m_ty m)) (normT (m_ty m) v) d); [discriminate|]. cbn [negb].
        split; [apply HR; assumption|reflexivity].
    - intros _ H. discriminate.
    - intros _ H. split; [exact H|reflexivity].
    - intros _ H. rewrite is_default_refl. cbn [negb orb]. split; [exact H|reflexivity].
  Qed.

  Lemma enc_members_reenc ms data data' : forall body,
    (forall m, In m ms -> lookup (m_name m) data' = norm_lookup m data) ->
    forallb (member_ok true data) ms = true ->
    enc_members encT res ms data = Ok body ->
    enc_members encT res ms data' = Ok body /\
    map (fun m => presence_bit res m data') (filter has_presence_bit ms)
    = map (fun m => presence_bit res m data) (filter has_presence_bit ms).
  Proof.
    induction ms as [|m ms IH]; intros body Hl Hok; cbn [enc_members filter map]; [auto|].
    cbn [forallb] in Hok. apply andb_prop in Hok. destruct Hok as [Hm Hms].
    destruct (enc_member encT res m data false) as [a|] eqn:Ea; [|discriminate]. cbn [bind].
    destruct (enc_members encT res ms data) as [b|] eqn:Eb; [|discriminate]. cbn [bind]. intros H.
    destruct (enc_member_reenc m data data' a (Hl m (or_introl eq_refl)) Hm Ea) as [E1 E2].
    destruct (IH b (fun m' Hm' => Hl m' (or_intror Hm')) Hms eq_refl) as [E3 E4].
    rewrite E1, E3. cbn [bind]. split; [exact H|].
    destruct (has_presence_bit m); cbn [map]; rewrite ?E2, E4; reflexivity.
  Qed.

  Lemma enc_root_reenc ms data data' bs :
    (forall m, In m ms -> lookup (m_name m) data' = norm_lookup m data) ->
    forallb (member_ok true data) ms = true ->
    enc_root encT res ms data = Ok bs -> enc_root encT res ms data' = Ok bs.
  Proof.
    unfold enc_root. intros Hl Hok.
    destruct (enc_members encT res ms data) as [body|] eqn:Eb; [|discriminate]. cbn [bind]. intros H.
    destruct (enc_members_reenc ms data data' body Hl Hok Eb) as [E1 E2]. rewrite E1, E2. exact H.
  Qed.

  Lemma gmf_of_enc_members ms data : forall body,
    enc_members encT res ms data = Ok body -> group_missing_first encT res ms data = false.
  Proof.
    induction ms as [|m ms IH]; intros body; cbn [enc_members group_missing_first]; [reflexivity|].
    destruct (enc_member encT res m data false) as [a|] eqn:Ea; [|discriminate]. cbn [bind].
    destruct (enc_members encT res ms data) as [b|] eqn:Eb; [|discriminate]. intros _.
    destruct (lookup (m_name m) data) as [v|] eqn:El.
    - apply (IH b eq_refl).
    - unfold enc_member in Ea. rewrite El in Ea. destruct (m_opt m); [discriminate| |]; apply (IH b eq_refl).
  Qed.

  (** a group all of whose components are absent *)
  Lemma gmf_all_none ms data :
    (forall m, In m ms -> lookup (m_name m) data = None) ->
    group_missing_first encT res ms data = negb (forallb has_presence_bit ms).
  Proof.
    induction ms as [|m ms IH]; intros Hl; cbn [group_missing_first forallb]; [reflexivity|].
    rewrite (Hl m (or_introl eq_refl)). unfold has_presence_bit at 1.
    destruct (m_opt m); cbn [andb negb]; try reflexivity; apply IH; intros m' Hm'; apply Hl; right; exact Hm'.
  Qed.

  Lemma gmf_true_mandatory ms data :
    group_missing_first encT res ms data = true -> forallb has_presence_bit ms = false.
  Proof.
    induction ms as [|m ms IH]; cbn [group_missing_first forallb]; [discriminate|].
    unfold has_presence_bit at 1.
    destruct (lookup (m_name m) data) as [v|].
    - destruct (enc_member encT res m data false); [|discriminate]. intros H. rewrite (IH H). apply Bool.andb_false_r.
    - destruct (m_opt m); [reflexivity| |]; intros H; rewrite (IH H); apply Bool.andb_false_r.
  Qed.

  Lemma enc_group_all_none ms data :
    (forall m, In m ms -> lookup (m_name m) data = None) ->
    forallb has_presence_bit ms = true ->
    enc_group encT res ms data = Ok [].
  Proof.
    intros Hl Hp.
    assert (Hm : enc_members encT res ms data = Ok []).
    { induction ms as [|m ms IH]; cbn [enc_members]; [reflexivity|].
      cbn [forallb] in Hp. apply andb_prop in Hp. destruct Hp as [Hp1 Hp2].
      unfold enc_member. rewrite (Hl m (or_introl eq_refl)). unfold has_presence_bit in Hp1.
      destruct (m_opt m); [discriminate| |]; cbn [bind];
        rewrite (IH (fun m' Hm' => Hl m' (or_intror Hm')) Hp2); reflexivity. }
    assert (Hpre : map (fun m => presence_bit res m data) (filter has_presence_bit ms)
                   = repeat false (length (filter has_presence_bit ms))).
    { clear Hm Hp. induction ms as [|m ms IH]; cbn [filter map]; [reflexivity|].
      specialize (IH (fun m' Hm' => Hl m' (or_intror Hm'))).
      destruct (has_presence_bit m); [|exact IH]. cbn [map length repeat]. rewrite IH. f_equal.
      unfold presence_bit. rewrite (Hl m (or_introl eq_refl)). destruct (m_opt m); reflexivity. }
    unfold enc_group, enc_root. rewrite Hm. cbn [bind]. rewrite app_nil_r, Hpre.
    assert (Haf : forall k, all_false (repeat false k) = true) by (induction k; cbn; auto).
    rewrite Haf, repeat_length, Nat.eqb_refl. reflexivity.
  Qed.

  Definition add_names (adds : list (addition_of ty)) : list string :=
    flat_map (fun a => map m_name (snd a)) adds.

  (** an addition group that is encoded as "absent" (no bits) must not contain
      a mandatory component: the decoder does not report such a group at all,
      and on re-encoding the group would count as missing, which silently
      drops every later addition. *)
  Definition add_ok (data : list (string * value)) (a : addition_of ty) : bool :=
    if fst a then
      forallb (member_ok true data) (snd a) &&
      match enc_group encT res (snd a) data with
      | Ok [] => forallb has_presence_bit (snd a)
      | _ => true
      end
    else forallb (member_ok false data) (snd a).

  Lemma keys_norm_adds adds data n :
    In n (keys (norm_adds encT normT res adds data)) -> In n (add_names adds).
  Proof.
    induction adds as [|[isgroup ms] adds IH]; cbn [norm_adds add_names flat_map snd]; [auto|].
    intros H. apply in_or_app.
    destruct isgroup.
    - destruct (group_missing_first encT res ms data); [contradiction|].
      destruct (enc_group encT res ms data) as [bs|]; [|contradiction].
      unfold keys in H. rewrite map_app in H. apply in_app_or in H. destruct H as [H|H]; [|right; apply IH; exact H].
      left. destruct (0 <? length bs)%nat; [|contradiction]. eapply keys_norm_members. exact H.
    - destruct ms as [|m [|m' ms']]; try contradiction.
      assert (Hc : forall found : option value,
                 In n (keys (match enc_member encT res m data true with
                             | Ok _ => (match found with Some v => [(m_name m, normT (m_ty m) v)] | None => [] end)
                                       ++ norm_adds encT normT res adds data
                             | Err _ => []
                             end)) ->
                 In n (map m_name [m]) \/ In n (add_names adds)).
      { intros found. destruct (enc_member encT res m data true); [|contradiction].
        unfold keys. rewrite map_app. intros Hi. apply in_app_or in Hi. destruct Hi as [Hi|Hi]; [|right; apply IH; exact Hi].
        left. destruct found; [|contradiction]. exact Hi. }
      destruct (lookup (m_name m) data) as [v|]; destruct (m_opt m); try contradiction;
        first [exact (Hc (Some v) H) | exact (Hc None H)].
  Qed.

  Lemma enc_adds_reenc adds data : forall P processed,
    NoDup (add_names adds) ->
    (forall n, In n (keys P) -> ~ In n (add_names adds)) ->
    forallb (add_ok data) adds = true ->
    enc_adds encT res adds data = Ok processed ->
    enc_adds encT res adds (P ++ norm_adds encT normT res adds data) = Ok processed.
  Proof.
    induction adds as [|[isgroup ms] adds IH]; intros P processed Hnd HP Hok; [auto|].
    cbn [add_names flat_map snd] in Hnd, HP.
    cbn [forallb] in Hok. apply andb_prop in Hok. destruct Hok as [Ha Hok].
    pose proof (NoDup_app_l _ _ Hnd) as Hnd_ms. pose proof (NoDup_app_r _ _ Hnd) as Hnd_r.
    (* lookups of this addition's members skip [P] and whatever later additions contribute *)
    assert (HPnone : forall m, In m ms -> lookup (m_name m) P = None).
    { intros m Hm. apply lookup_notin. intros Hk. apply (HP _ Hk). apply in_or_app. left. apply in_map. exact Hm. }
    assert (HNnone : forall m, In m ms -> lookup (m_name m) (norm_adds encT normT res adds data) = None).
    { intros m Hm. apply lookup_notin. intros Hk. apply keys_norm_adds in Hk.
      exact (NoDup_app_disj _ _ _ Hnd (in_map m_name _ _ Hm) Hk). }
    cbn [enc_adds norm_adds]. unfold add_ok in Ha. cbn [fst snd] in Ha.
    destruct isgroup.
    - (* addition group *)
      apply andb_prop in Ha. destruct Ha as [Hms Hempty].
      destruct (group_missing_first encT res ms data) eqn:Eg.
      + intros H. rewrite app_nil_r.
        rewrite gmf_all_none by exact HPnone. rewrite (gmf_true_mandatory _ _ Eg). exact H.
      + destruct (enc_group encT res ms data) as [bs|] eqn:Egr; cbn [bind]; [|discriminate].
        destruct (enc_adds encT res adds data) as [rest_p|] eqn:Er; [|discriminate]. cbn [bind]. intros H.
        destruct (0 <? length bs)%nat eqn:Epos.
        * (* present *)
          set (data' := P ++ norm_members normT res ms data ++ norm_adds encT normT res adds data).
          assert (Hl : forall m, In m ms -> lookup (m_name m) data' = norm_lookup m data).
          { intros m Hm. unfold data'. rewrite lookup_app, (HPnone m Hm).
            rewrite (lookup_norm_members ms data _ Hnd_ms m Hm), (HNnone m Hm).
            destruct (norm_lookup m data); reflexivity. }
          pose proof (enc_group_present _ _ _ _ _ Egr ltac:(apply Nat.ltb_lt; exact Epos)) as Hroot.
          pose proof (enc_root_reenc ms data data' bs Hl Hms Hroot) as Hroot'.
          assert (Hg' : group_missing_first encT res ms data' = false).
          { unfold enc_root in Hroot'. destruct (enc_members encT res ms data') as [b|] eqn:Eb; [|discriminate].
            eapply gmf_of_enc_members. exact Eb. }
          assert (Hgr' : enc_group encT res ms data' = Ok bs).
          { clear -Egr Hroot Hroot'. unfold enc_group in Egr |- *. rewrite Hroot'. rewrite Hroot in Egr. exact Egr. }
          rewrite Hg', Hgr'. cbn [bind].
          unfold data'. rewrite app_assoc.
          rewrite (IH (P ++ norm_members normT res ms data) rest_p Hnd_r); [cbn [bind]; rewrite Epos; exact H| |exact Hok|reflexivity].
          intros n Hk. unfold keys in Hk. rewrite map_app in Hk. apply in_app_or in Hk. destruct Hk as [Hk|Hk].
          -- intros Hn. apply (HP _ Hk). apply in_or_app. right. exact Hn.
          -- apply keys_norm_members in Hk. exact (NoDup_app_disj _ _ _ Hnd Hk).
        * (* encoded as absent: no bits *)
          assert (bs = []) by (destruct bs; [reflexivity|cbn in Epos; discriminate]). subst bs.
          cbn [app].
          set (data' := P ++ norm_adds encT normT res adds data).
          assert (Hl : forall m, In m ms -> lookup (m_name m) data' = None).
          { intros m Hm. unfold data'. rewrite lookup_app, (HPnone m Hm). exact (HNnone m Hm). }
          rewrite gmf_all_none by exact Hl. rewrite Hempty. cbn [negb].
          rewrite (enc_group_all_none ms data' Hl Hempty). cbn [bind].
          unfold data'. rewrite (IH P rest_p Hnd_r); [cbn [bind]; exact H| |exact Hok|reflexivity].
          intros n Hk Hn. apply (HP _ Hk). apply in_or_app. right. exact Hn.
    - (* single addition *)
      destruct ms as [|m [|m' ms']]; [discriminate| |discriminate].
      cbn [forallb] in Ha. rewrite Bool.andb_true_r in Ha. unfold member_ok in Ha.
      pose proof (HPnone m (or_introl eq_refl)) as HPm. pose proof (HNnone m (or_introl eq_refl)) as HNm.
      destruct (lookup (m_name m) data) as [v|] eqn:Elk.
      + (* present *)
        rewrite Bool.andb_true_r in Ha.
        assert (Henc : enc_member encT res m data true = encT (m_ty m) v).
        { unfold enc_member. rewrite Elk. destruct (m_opt m); try reflexivity. rewrite Bool.orb_true_r. reflexivity. }
        assert (Hgoal :
          (let* bs := enc_member encT res m data true in
           let* rest0 := enc_adds encT res adds data in
           Ok ((if (0 <? length bs)%nat || true then Some bs else None) :: rest0)) = Ok processed ->
          enc_adds encT res ((false, [m]) :: adds)
            (P ++ match enc_member encT res m data true with
                  | Ok _ => [(m_name m, normT (m_ty m) v)] ++ norm_adds encT normT res adds data
                  | Err _ => []
                  end) = Ok processed).
        { rewrite Henc. destruct (encT (m_ty m) v) as [bs|] eqn:Eb; cbn [bind]; [|discriminate].
          destruct (enc_adds encT res adds data) as [rest_p|] eqn:Er; [|discriminate]. cbn [bind]. intros H.
          cbn [enc_adds].
          assert (Hl : lookup (m_name m) (P ++ [(m_name m, normT (m_ty m) v)] ++ norm_adds encT normT res adds data)
                       = Some (normT (m_ty m) v)).
          { rewrite lookup_app, HPm. cbn [app lookup]. rewrite String.eqb_refl. reflexivity. }
          rewrite Hl.
          assert (Henc' : enc_member encT res m (P ++ [(m_name m, normT (m_ty m) v)] ++ norm_adds encT normT res adds data) true
                          = Ok bs).
          { unfold enc_member. rewrite Hl. rewrite (HR _ _ _ Ha Eb).
            destruct (m_opt m); try reflexivity. rewrite Bool.orb_true_r. reflexivity. }
          rewrite app_assoc.
          assert (HIH : enc_adds encT res adds ((P ++ [(m_name m, normT (m_ty m) v)]) ++ norm_adds encT normT res adds data)
                        = Ok rest_p).
          { apply (IH _ _ Hnd_r); [|exact Hok|reflexivity].
            intros n Hk. unfold keys in Hk. rewrite map_app in Hk. apply in_app_or in Hk. destruct Hk as [Hk|Hk].
            - intros Hn. apply (HP _ Hk). apply in_or_app. right. exact Hn.
            - cbn [map fst In] in Hk. destruct Hk as [<-|[]].
              exact (NoDup_app_disj _ _ _ Hnd (or_introl eq_refl)). }
          rewrite <- app_assoc in HIH |- *.
          rewrite Henc'; cbn [bind]; rewrite HIH; cbn [bind]; exact H. }
        cbn [enc_adds] in Hgoal. destruct (m_opt m); exact Hgoal.
      + (* absent *)
        destruct (m_opt m) eqn:Eo.
        * intros H. rewrite app_nil_r, HPm. exact H.
        * assert (Henc : forall d, lookup (m_name m) d = None -> enc_member encT res m d true = Ok [])
            by (intros d Hd; unfold enc_member; rewrite Hd, Eo; reflexivity).
          rewrite (Henc data Elk). cbn [bind app].
          destruct (enc_adds encT res adds data) as [rest_p|] eqn:Er; [|discriminate]. cbn [bind]. intros H.
          assert (Hl : lookup (m_name m) (P ++ norm_adds encT normT res adds data) = None)
            by (rewrite lookup_app, HPm; exact HNm).
          rewrite Hl, (Henc _ Hl). cbn [bind].
          rewrite (IH P rest_p Hnd_r); [cbn [bind]; exact H| |exact Hok|reflexivity].
          intros n Hk Hn. apply (HP _ Hk). apply in_or_app. right. exact Hn.
        * assert (Henc : forall d, lookup (m_name m) d = None -> enc_member encT res m d true = Ok [])
            by (intros d Hd; unfold enc_member; rewrite Hd, Eo; reflexivity).
          rewrite (Henc data Elk). cbn [bind app].
          destruct (enc_adds encT res adds data) as [rest_p|] eqn:Er; [|discriminate]. cbn [bind]. intros H.
          assert (Hl : lookup (m_name m) (P ++ norm_adds encT normT res adds data) = None)
            by (rewrite lookup_app, HPm; exact HNm).
          rewrite Hl, (Henc _ Hl). cbn [bind].
          rewrite (IH P rest_p Hnd_r); [cbn [bind]; exact H| |exact Hok|reflexivity].
          intros n Hk Hn. apply (HP _ Hk). apply in_or_app. right. exact Hn.
  Qed.
  Lemma enc_additions_reenc adds data P r :
    NoDup (add_names adds) ->
    (forall n, In n (keys P) -> ~ In n (add_names adds)) ->
    forallb (add_ok data) adds = true ->
    enc_additions encT res adds data = Ok r ->
    enc_additions encT res adds (P ++ norm_adds encT normT res adds data) = Ok r.
  Proof.
    intros Hnd HP Hok. unfold enc_additions.
    destruct (enc_adds encT res adds data) as [processed|] eqn:Ep; [|discriminate].
    rewrite (enc_adds_reenc adds data P processed Hnd HP Hok Ep). auto.
  Qed.

  (** SEQUENCE / SET: component names are unique (root and additions
      together), and every present component is fine *)
  Definition seq_ok (root : list (member_of ty)) (ext : option (list (addition_of ty)))
             (data : list (string * value)) : bool :=
    nodupb (map m_name root ++ match ext with Some adds => add_names adds | None => [] end) &&
    forallb (member_ok true data) root &&
    match ext with Some adds => forallb (add_ok data) adds | None => true end.

  Lemma enc_seq_reenc root ext data bs :
    seq_ok root ext data = true ->
    enc_seq encT res root ext (VSeq data) = Ok bs ->
    enc_seq encT res root ext (norm_seq encT normT res root ext data) = Ok bs.
  Proof.
    unfold seq_ok, norm_seq. intros Hok. apply andb_prop in Hok. destruct Hok as [Hok Hadds].
    apply andb_prop in Hok. destruct Hok as [Hnd Hroot]. apply nodupb_NoDup in Hnd.
    set (X := match ext with Some adds => norm_adds encT normT res adds data | None => [] end).
    assert (HX : forall n, In n (keys X) -> In n (match ext with Some adds => add_names adds | None => [] end)).
    { unfold X. destruct ext as [adds|]; [apply keys_norm_adds|contradiction]. }
    assert (Hl : forall m, In m root ->
                 lookup (m_name m) (norm_members normT res root data ++ X) = norm_lookup m data).
    { intros m Hm. rewrite (lookup_norm_members root data X (NoDup_app_l _ _ Hnd) m Hm).
      destruct (norm_lookup m data); [reflexivity|]. apply lookup_notin. intros Hk.
      exact (NoDup_app_disj _ _ _ Hnd (in_map m_name _ _ Hm) (HX _ Hk)). }
    unfold enc_seq. destruct ext as [adds|].
    - destruct (enc_root encT res root data) as [r|] eqn:Er; [|discriminate]. cbn [bind].
      rewrite (enc_root_reenc root data _ r Hl Hroot Er). cbn [bind].
      destruct adds as [|a l]; [auto|].
      destruct (enc_additions encT res (a :: l) data) as [ab|] eqn:Ea; [|discriminate]. cbn [bind].
      unfold X. rewrite (enc_additions_reenc (a :: l) data _ ab (NoDup_app_r _ _ Hnd)); [auto| |exact Hadds|exact Ea].
      intros n Hk Hn. apply keys_norm_members in Hk. exact (NoDup_app_disj _ _ _ Hnd Hk Hn).
    - intros H. exact (enc_root_reenc root data _ bs Hl Hroot H).
  Qed.

  (** SEQUENCE OF / SET OF *)
  Lemma enc_seqof_reenc elem sz vs bs :
    forallb (okT elem) vs = true ->
    enc_seqof encT elem sz (VList vs) = Ok bs ->
    enc_seqof encT elem sz (VList (map (normT elem) vs)) = Ok bs.
  Proof.
    intros Hok. unfold enc_seqof. rewrite map_length, frag_fuel_map. set (n := Z.of_nat (length vs)).
    assert (H1 : forall x b, okT elem x = true -> encT elem x = Ok b -> encT elem (normT elem x) = Ok b)
      by (intros x b; apply HR).
    assert (Hall : forall body, enc_all (encT elem) vs = Ok body -> enc_all (encT elem) (map (normT elem) vs) = Ok body)
      by (intros body; apply (enc_all_reenc _ _ _ H1); exact Hok).
    assert (Hfrag : forall body, enc_frag (frag_fuel vs) (encT elem) vs = Ok body ->
                                 enc_frag (frag_fuel vs) (encT elem) (map (normT elem) vs) = Ok body)
      by (intros body; apply (enc_frag_reenc _ _ _ H1); exact Hok).
    assert (Hroot : forall r,
      (if size_unbound sz then enc_frag (frag_fuel vs) (encT elem) vs
       else let* body := enc_all (encT elem) vs in
            if negb (size_lo sz =? size_hi sz) then
              if size_in_root sz n then Ok (to_bits (size_nbits sz) (n - size_lo sz) ++ body) else Err EUnmodelled
            else if n =? size_lo sz then Ok body else Err EUnmodelled) = Ok r ->
      (if size_unbound sz then enc_frag (frag_fuel vs) (encT elem) (map (normT elem) vs)
       else let* body := enc_all (encT elem) (map (normT elem) vs) in
            if negb (size_lo sz =? size_hi sz) then
              if size_in_root sz n then Ok (to_bits (size_nbits sz) (n - size_lo sz) ++ body) else Err EUnmodelled
            else if n =? size_lo sz then Ok body else Err EUnmodelled) = Ok r).
    { intros r. destruct (size_unbound sz); [apply Hfrag|].
      destruct (enc_all (encT elem) vs) as [body|] eqn:Eb; [|discriminate]. rewrite (Hall _ eq_refl). auto. }
    destruct (size_ext sz); [|apply Hroot].
    destruct (size_in_root sz n).
    - match goal with |- (let* r := ?root in _) = _ -> _ => destruct root as [r|] eqn:Er; [|discriminate] end.
      rewrite (Hroot r eq_refl). auto.
    - destruct (enc_frag (frag_fuel vs) (encT elem) vs) as [r|] eqn:Ef; [|discriminate].
      rewrite (Hfrag _ eq_refl). auto.
  Qed.

  (** CHOICE *)
  Lemma enc_choice_reenc root ext name x bs m :
    (match find_alt name root 0 with
     | Some (_, m') => m' = m
     | None => match ext with
               | Some adds => match find_alt name adds 0 with Some (_, m') => m' = m | None => False end
               | None => False
               end
     end) ->
    okT (m_ty m) x = true ->
    enc_choice encT root ext (VChoice name x) = Ok bs ->
    enc_choice encT root ext (VChoice name (normT (m_ty m) x)) = Ok bs.
  Proof.
    unfold enc_choice, enc_choice_root. intros Hm Hok.
    destruct (find_alt name root 0) as [[i m']|] eqn:Ef.
    - subst m'. destruct (encT (m_ty m) x) as [body|] eqn:Eb; [|destruct ext; discriminate].
      rewrite (HR _ _ _ Hok Eb). auto.
    - destruct ext as [adds|]; [|contradiction].
      destruct (find_alt name adds 0) as [[i m']|] eqn:Ea; [|contradiction]. subst m'.
      destruct (encT (m_ty m) x) as [body|] eqn:Eb; [|discriminate].
      rewrite (HR _ _ _ Hok Eb). auto.
  Qed.
End CompositeReenc.

(** ** The type-directed statement *)
Section ReencMain.
  Variable numeric : bool.
  Variable e : env.

  (** The side condition, by recursion on the fuel like [enc] and [norm]:
      - BIT STRING: [bits_ok];
      - SEQUENCE / SET: [seq_ok] (unique component names; a present DEFAULT
        component of the root or of an addition group that differs from its
        default still differs after normalisation; an addition group encoded
        as absent has no mandatory component), recursively for present
        components;
      - SEQUENCE OF, CHOICE, references, tags: recursively.
      Nothing is required of the other types: octet values are only seen
      through their low eight bits, OID arcs through [40 * a0 + a1]. *)
  Fixpoint reenc_ok (fuel : nat) (t : ty) (v : value) {struct fuel} : bool :=
    match fuel with
    | O => true
    | S f =>
      match t with
      | TBits named sz =>
        match v with
        | VBits b n => bits_ok (match named with Some _ => true | None => false end) sz b n
        | _ => true
        end
      | TSeq _ root ext =>
        match v with
        | VSeq data => seq_ok (enc numeric e f) (norm numeric e f) (resolve e f) (reenc_ok f) root ext data
        | _ => true
        end
      | TSeqOf _ elem _ => match v with VList vs => forallb (reenc_ok f elem) vs | _ => true end
      | TChoice root ext =>
        match v with
        | VChoice name x =>
          match find_alt name root 0 with
          | Some (_, m) => reenc_ok f (m_ty m) x
          | None =>
            match ext with
            | Some adds =>
              match find_alt name adds 0 with
              | Some (_, m) => reenc_ok f (m_ty m) x
              | None => true
              end
            | None => true
            end
          end
        | _ => true
        end
      | TRef n => match lookup n e with Some t' => reenc_ok f t' v | None => true end
      | TTag _ t' => reenc_ok f t' v
      | _ => true
      end
    end.

  Theorem enc_reenc : forall fuel t v bs,
    reenc_ok fuel t v = true ->
    enc numeric e fuel t v = Ok bs ->
    enc numeric e fuel t (norm numeric e fuel t v) = Ok bs.
  Proof.
    induction fuel as [|f IH]; intros t v bs Hok; [discriminate|].
    destruct t; cbn [enc norm reenc_ok] in *.
    - auto.
    - auto.
    - auto.
    - auto.
    - (* BIT STRING *)
      destruct v; auto. intros H.
      pose proof (enc_bitstring_reenc _ _ _ _ _ Hok H) as Hr.
      unfold norm_bitstring, bits_value in *. exact Hr.
    - (* OCTET STRING *)
      destruct v; auto. rewrite enc_octets_norm. auto.
    - auto.
    - (* OBJECT IDENTIFIER *)
      destruct v; auto. apply enc_oid_norm.
    - (* SEQUENCE / SET *)
      destruct v; auto.
      apply (enc_seq_reenc (enc numeric e f) (norm numeric e f) (resolve e f) (reenc_ok f) IH). exact Hok.
    - (* SEQUENCE OF / SET OF *)
      destruct v; auto.
      apply (enc_seqof_reenc (enc numeric e f) (norm numeric e f) (reenc_ok f) IH). exact Hok.
    - (* CHOICE *)
      destruct v; auto. intros H.
      destruct (find_alt alt root 0) as [[i m]|] eqn:Ef.
      + apply (enc_choice_reenc (enc numeric e f) (norm numeric e f) (reenc_ok f) IH root ext alt v bs m);
          [rewrite Ef; reflexivity | exact Hok | exact H].
      + destruct ext as [adds|]; [|exact H].
        destruct (find_alt alt adds 0) as [[i m]|] eqn:Ea; [|exact H].
        apply (enc_choice_reenc (enc numeric e f) (norm numeric e f) (reenc_ok f) IH root (Some adds) alt v bs m);
          [rewrite Ef, Ea; reflexivity | exact Hok | exact H].
    - (* reference *)
      destruct (lookup name e) as [t'|]; auto.
    - (* tagged *)
      auto.
  Qed.
End ReencMain.

(** C01, third clause, at the octet level: decoding an encoding and encoding
    the result again gives the identical octets. *)
Theorem uper_reencode numeric fuel e t v data :
  reenc_ok numeric e fuel t v = true ->
  uper_encode numeric fuel e t v = Ok data ->
  uper_encode numeric fuel e t (norm numeric e fuel t v) = Ok data.
Proof.
  unfold uper_encode. intros Hok. destruct (enc numeric e fuel t v) as [bs|] eqn:E; [|discriminate].
  rewrite (enc_reenc numeric e fuel t v bs Hok E). auto.
Qed.

Theorem uper_decode_reencode numeric fuel e t v data :
  reenc_ok numeric e fuel t v = true ->
  uper_encode numeric fuel e t v = Ok data ->
  exists v' n, uper_decode numeric fuel e t data = Ok (v', n) /\
               uper_encode numeric fuel e t v' = Ok data.
Proof.
  intros Hok H. destruct (uper_roundtrip _ _ _ _ _ _ H []) as (n & Hd & _).
  rewrite app_nil_r in Hd. exists (norm numeric e fuel t v), n. split; [exact Hd|].
  apply uper_reencode; assumption.
Qed.


(** ** A sufficient condition for the DEFAULT clause of [seq_ok]

    For a DEFAULT component whose (resolved) type has no components, the
    comparison with the default gives the same answer before and after
    normalisation as soon as the VALUE is well formed: octets in 0..255, no set
    bit of a named-bit string beyond its bit count, OID arcs in their canonical
    split (first arc 0..2, second arc below 40 under 0 and 1), None for NULL. *)
Definition oid_canonical (a : list Z) : bool :=
  match a with
  | a0 :: a1 :: _ => ((a0 =? 2) && (0 <=? a1)) || ((0 <=? a0) && (a0 <? 2) && (0 <=? a1) && (a1 <? 40))
  | _ => true
  end.

Definition leaf_value_ok (t : ty) (v : value) : bool :=
  match t with
  | TBool | TInt _ | TEnum _ _ | TStr _ _ _ => true
  | TNull => match v with VNone => true | _ => false end
  | TOctets _ => match v with VBytes b => forallb is_byteb b | _ => true end
  | TBits None _ => true
  | TBits (Some _) _ =>
    match v with
    | VBits b n => Z.of_nat (length (strip_trailing_false (bytes_to_bits b))) <=? n
    | _ => true
    end
  | TOid => match v with VOid a => oid_canonical a | _ => true end
  | _ => false
  end.

Lemma norm_bytes_id b : forallb is_byteb b = true -> norm_bytes b = b.
Proof.
  unfold norm_bytes. induction b as [|x b IH]; cbn [forallb map]; [reflexivity|]. intros H.
  apply andb_prop in H. destruct H as [Hx Hb]. rewrite (IH Hb). f_equal. unfold is_byteb in Hx. apply Z.mod_small. lia.
Qed.

Lemma norm_oid_id a : oid_canonical a = true -> norm_oid a = a.
Proof.
  destruct a as [|a0 [|a1 rest]]; try reflexivity. cbn [oid_canonical norm_oid]. intros H.
  destruct (40 * a0 + a1 <? 80) eqn:E; cbn [app]; repeat f_equal; lia.
Qed.

Lemma strip_decomp l : exists j, l = strip_trailing_false l ++ repeat false j.
Proof.
  induction l as [|b l (j & IH)]; [exists 0%nat; reflexivity|]. cbn [strip_trailing_false].
  destruct (strip_trailing_false l) as [|x r] eqn:E.
  - cbn [app] in IH. destruct b.
    + exists j. cbn [app]. f_equal. exact IH.
    + exists (S j). cbn [app repeat]. f_equal. exact IH.
  - exists j. cbn [app]. f_equal. exact IH.
Qed.

Lemma firstn_repeat {A} (x : A) k j : firstn k (repeat x j) = repeat x (Nat.min k j).
Proof.
  revert j. induction k as [|k IH]; intros [|j]; cbn [firstn repeat Nat.min]; try reflexivity. f_equal. apply IH.
Qed.

Lemma strip_firstn l k :
  (length (strip_trailing_false l) <= k)%nat ->
  strip_trailing_false (firstn k l) = strip_trailing_false l.
Proof.
  intros H. destruct (strip_decomp l) as (j & E). rewrite E at 1.
  rewrite firstn_app_ge by exact H. rewrite firstn_repeat, strip_app_false. apply strip_idem.
Qed.

Lemma strip_named sz b :
  strip_trailing_false (named_bits_of sz b) = strip_trailing_false (bytes_to_bits b).
Proof.
  unfold named_bits_of. destruct sz as [|lo hi x]; [apply strip_idem|].
  destruct (Z.of_nat (length (strip_trailing_false (bytes_to_bits b))) <? lo); [rewrite strip_app_false|]; apply strip_idem.
Qed.

Lemma default_stable_leaf numeric e : forall f t v d bs,
  enc numeric e f t v = Ok bs ->
  leaf_value_ok (resolve e f t) v = true ->
  is_default_value (resolve e f t) (norm numeric e f t v) d = is_default_value (resolve e f t) v d.
Proof.
  induction f as [|f IH]; intros t v d bs; [discriminate|].
  destruct t; cbn [resolve enc norm leaf_value_ok]; try reflexivity; try discriminate.
  - (* NULL *) intros _ H. destruct v; try discriminate. reflexivity.
  - (* BIT STRING *)
    intros _ H. destruct v; try reflexivity. unfold norm_bitstring, bits_value.
    destruct d; try reflexivity. cbn [is_default_value].
    rewrite bitvalue_bits_canon. destruct named as [l|]; [|reflexivity].
    rewrite strip_named.
    change (bitvalue_bits bytes nbits) with (firstn (Z.to_nat nbits) (bytes_to_bits bytes)).
    rewrite (strip_firstn (bytes_to_bits bytes) (Z.to_nat nbits)) by lia. reflexivity.
  - (* OCTET STRING *)
    intros _ H. destruct v; try reflexivity. rewrite (norm_bytes_id _ H). reflexivity.
  - (* OBJECT IDENTIFIER *)
    intros _ H. destruct v; try reflexivity. rewrite (norm_oid_id _ H). reflexivity.
  - (* reference *)
    destruct (lookup name e) as [t'|]; [|discriminate]. apply IH.
  - (* tagged *) apply IH.
Qed.

Lemma default_stable_of_leaf numeric e f m v bs :
  enc numeric e f (m_ty m) v = Ok bs ->
  leaf_value_ok (resolve e f (m_ty m)) v = true ->
  default_stable (norm numeric e f) (resolve e f) m v = true.
Proof.
  intros H Hl. unfold default_stable. destruct (m_opt m) as [| |d]; try reflexivity.
  rewrite (default_stable_leaf numeric e f (m_ty m) v d bs H Hl).
  destruct (is_default_value (resolve e f (m_ty m)) v d); reflexivity.
Qed.

Print Assumptions enc_reenc.
Print Assumptions default_stable_of_leaf.
Print Assumptions uper_reencode.
Print Assumptions uper_decode_reencode.
