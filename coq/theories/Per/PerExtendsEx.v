(** The worked instance of UperExtendsEx.v (four nodes extended at once,
    through references) evaluated with the ALIGNED codec: the relation
    [top2_extends_top1] is the one proved there. *)
From Asn1V Require Import Base.Prelude Base.Bits Syntax.Asn1 Per.UperImpl Per.UperRT
     Per.UperReenc Per.UperCompat2 Per.UperExtends Per.UperExtendsEx
     Per.PerImpl Per.PerRT Per.PerExtends.
Open Scope string_scope.

Definition pdata2 : list Z :=
  Eval vm_compute in match per_encode false 8 env2 top2 val2 with Ok d => d | Err _ => [] end.
Definition pdata1 : list Z :=
  Eval vm_compute in match per_encode false 8 env1 top1 val1 with Ok d => d | Err _ => [] end.

(** the hypotheses of [per_forward_octets] hold ([top2_extends_top1]) and its
    conclusion, recomputed: version 1 on the version-2 octets (with trailing
    octets) sees the projection *)
Example per_forward_instance :
  extends_strict false env1 env2 8 top1 top2 /\
  per_encode false 8 env2 top2 val2 = Ok pdata2 /\ (20 < length pdata2)%nat /\
  per_decode false 8 env1 top1 (pdata2 ++ [171]) = Ok (val2_seen_by_1, (8 * length pdata2)%nat) /\
  proj false env1 env2 8 top1 top2 (pnorm false env2 8 top2 val2) = val2_seen_by_1.
Proof. split; [exact top2_extends_top1|]. vm_compute. repeat split. lia. Qed.

Example per_backward_instance :
  per_encode false 8 env1 top1 val1 = Ok pdata1 /\
  exists n, per_decode false 8 env2 top2 (pdata1 ++ [171]) = Ok (pnorm false env1 8 top1 val1, n) /\
            per_decode false 8 env1 top1 pdata1 = Ok (pnorm false env1 8 top1 val1, n) /\
            match pnorm false env1 8 top1 val1 with VSeq fs => lookup "g2" fs = None | _ => False end.
Proof. vm_compute. split; [reflexivity|]. eexists. repeat split. Qed.

Print Assumptions per_forward_instance.
