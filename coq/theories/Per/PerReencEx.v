(** Examples for PerReenc.v, evaluated with the ALIGNED codec on the types and
    values of UperReencEx.v: a non-trivial instance of [preenc_ok], and one
    refutation per clause (the statement of [per_reencode] failing when that
    clause is dropped).  The refutation marked LIBRARY was replayed on
    asn1tools with codec 'per' (notes/PER-proofs.md). *)
From Asn1V Require Import Base.Prelude Base.Bits Syntax.Asn1 Per.UperImpl Per.UperRT Per.UperReenc Per.UperReencEx
     Per.PerImpl Per.PerRT Per.PerReenc.
Open Scope string_scope.

Example preenc_ok_example :
  preenc_ok false ex_env 6 ex_ty ex_val = true /\
  per_encode false 6 ex_env ex_ty ex_val
  = Ok [148; 0; 226; 128; 0; 1; 128; 3; 2; 90; 3; 6; 192; 2; 3; 224; 1; 128] /\
  pnorm false ex_env 6 ex_ty ex_val <> ex_val /\
  per_encode false 6 ex_env ex_ty (pnorm false ex_env 6 ex_ty ex_val) = per_encode false 6 ex_env ex_ty ex_val.
Proof. vm_compute. repeat split. discriminate. Qed.

(** LIBRARY (genuine defect, the aligned face of uper_reencode_empty_group_refuted):
      S ::= SEQUENCE { r BOOLEAN, ..., [[ a NULL ]], b INTEGER }
      {r TRUE, a NULL, b 5}  ->  c0a0020105  ->  {r TRUE, b 5}  ->  40 *)
Example per_reencode_empty_group_refuted :
  per_encode false 5 [] cx_group_ty cx_group_val = Ok (hex "c0a0020105") /\
  pnorm false [] 5 cx_group_ty cx_group_val = VSeq [("r", VBool true); ("b", VInt 5)] /\
  per_encode false 5 [] cx_group_ty (pnorm false [] 5 cx_group_ty cx_group_val) = Ok (hex "40") /\
  preenc_ok false [] 5 cx_group_ty cx_group_val = false.
Proof. vm_compute. repeat split. Qed.

(** DEFAULT stability (ill-formed input: a set bit beyond the bit count) *)
Example per_reencode_default_unstable_refuted :
  per_encode false 5 [] cx_default_ty cx_default_val = Ok (hex "8002e0") /\
  pnorm false [] 5 cx_default_ty cx_default_val = VSeq [("a", VBits [192] 2); ("b", VBool true)] /\
  per_encode false 5 [] cx_default_ty (pnorm false [] 5 cx_default_ty cx_default_val) = Ok (hex "40") /\
  preenc_ok false [] 5 cx_default_ty cx_default_val = false.
Proof. vm_compute. repeat split. Qed.

Example per_reencode_default_oid_refuted :
  per_encode false 5 [] cx_oid_ty (VSeq [("a", VOid [1; 50])]) = Ok (hex "80015a") /\
  per_encode false 5 [] cx_oid_ty (pnorm false [] 5 cx_oid_ty (VSeq [("a", VOid [1; 50])])) = Ok (hex "00") /\
  preenc_ok false [] 5 cx_oid_ty (VSeq [("a", VOid [1; 50])]) = false.
Proof. vm_compute. repeat split. Qed.

Example per_reencode_default_octet_refuted :
  per_encode false 5 [] cx_octet_ty (VSeq [("a", VBytes [256])]) = Ok (hex "800100") /\
  per_encode false 5 [] cx_octet_ty (pnorm false [] 5 cx_octet_ty (VSeq [("a", VBytes [256])])) = Ok (hex "00") /\
  preenc_ok false [] 5 cx_octet_ty (VSeq [("a", VBytes [256])]) = false.
Proof. vm_compute. repeat split. Qed.

(** named bits with an extensible SIZE above 64K (ill-formed input) *)
Example per_reencode_named_ext_refuted :
  is_ok (per_encode false 2 [] cx_named_ty cx_named_val) = true /\
  per_encode false 2 [] cx_named_ty (pnorm false [] 2 cx_named_ty cx_named_val)
  = Err (EForeign "NotImplementedError") /\
  preenc_ok false [] 2 cx_named_ty cx_named_val = false.
Proof. vm_compute. repeat split. Qed.

(** model only (ASN.1 forbids it): two components with the same name *)
Example per_reencode_duplicate_names_refuted :
  per_encode false 5 [] cx_dup_ty (VSeq [("a", VBool true)]) = Ok (hex "80") /\
  per_encode false 5 [] cx_dup_ty (pnorm false [] 5 cx_dup_ty (VSeq [("a", VBool true)])) = Err EUnmodelled /\
  preenc_ok false [] 5 cx_dup_ty (VSeq [("a", VBool true)]) = false.
Proof. vm_compute. repeat split. Qed.

Print Assumptions preenc_ok_example.
