(** Prefix behaviour (relative to the residue modulo 8 of the remaining
    length, [PBA]) of every decoder of the ALIGNED PER model, and its
    octet-level consequences: truncation by whole octets is rejected with the
    library's decode error, appended octets change nothing. *)
From Asn1V Require Import Base.Prelude Base.Sweep Base.Bits Base.BitsProofs Base.Utf8
     Syntax.Asn1 Per.UperImpl Per.UperPrim Per.UperPB Per.PerImpl Per.PerPrim.

Ltac Zify.zify_post_hook ::= Z.div_mod_to_equations.

Lemma PBA_r_km_char a ident bpc : PBA (r_km_char a ident bpc).
Proof. unfold r_km_char. pba. Qed.

Lemma PBA_r_bitstring sz : PBA (r_bitstring sz).
Proof. unfold r_bitstring. pba; apply PBA_r_cwn. Qed.

Lemma PBA_r_octets sz : PBA (r_octets sz).
Proof. unfold r_octets. pba; apply PBA_r_cwn. Qed.

Lemma PBA_r_kmstring k sz alpha : PBA (r_kmstring k sz alpha).
Proof. unfold r_kmstring. pba; first [apply PBA_r_cwn | apply PBA_r_km_char]. Qed.

Lemma PBA_r_utf8 : PBA r_utf8.
Proof. unfold r_utf8. pba. Qed.

Lemma PBA_r_oid : PBA r_oid.
Proof. unfold r_oid. pba. Qed.

Section Composite.
  Variable decT : ty -> reader value.
  Hypothesis HdecT : forall t, PBA (decT t).

  Lemma PBA_dec_members ms pres : PBA (dec_members decT ms pres).
  Proof.
    revert pres. induction ms as [|m ms IH]; intros pres; cbn [dec_members]; [pba|].
    destruct (has_presence_bit m).
    - destruct pres as [|p pres']; [pba|]. destruct p.
      + pba; [apply HdecT | apply IH].
      + destruct (m_opt m); pba; apply IH.
    - pba; [apply HdecT | apply IH].
  Qed.

  Lemma PBA_dec_root ms : PBA (dec_root decT ms).
  Proof. unfold dec_root. pba. apply PBA_dec_members. Qed.

  Lemma PBA_pd_one_addition adds open_len : PBA (pd_one_addition decT adds open_len).
  Proof.
    unfold pd_one_addition. destruct adds as [|[isgroup ms] adds]; [pba|].
    destruct isgroup; [apply PBA_dec_root|].
    destruct ms as [|m [|m' ms]]; pba. apply HdecT.
  Qed.

  Lemma PBA_pd_adds pres adds : PBA (pd_adds decT pres adds).
  Proof.
    revert adds. induction pres as [|p pres IH]; intros adds; cbn [pd_adds]; [pba|].
    destruct p; cbn [negb]; [|apply IH].
    apply PBA_bind; [pba|]. intros open_len.
    apply PBA_bind; [apply PBA_with_consumed, PBA_pd_one_addition|]. intros [fields consumed].
    apply PBA_bind; [cbv zeta; pba|]. intros _.
    apply PBA_bind; [apply IH|]. intros more. pba.
  Qed.

  Lemma PBA_pd_seq root ext : PBA (pd_seq decT root ext).
  Proof.
    unfold pd_seq. destruct ext as [adds|]; pba.
    all: try apply PBA_dec_root; try apply PBA_pd_adds; try apply PBA_dec_members.
  Qed.

  Lemma PBA_pd_seqof elem sz : PBA (pd_seqof decT elem sz).
  Proof. unfold pd_seqof. pba; first [apply HdecT | apply PBA_r_cwn]. Qed.

  Lemma PBA_pd_choice_root root : PBA (pd_choice_root decT root).
  Proof. unfold pd_choice_root. pba; first [apply HdecT | apply PBA_r_cwn]. Qed.

  Lemma PBA_pd_choice root ext : PBA (pd_choice decT root ext).
  Proof.
    unfold pd_choice. destruct ext as [adds|]; [|apply PBA_pd_choice_root].
    apply PBA_bind; [pba|]. intros b. destruct b; cbn [negb]; [|apply PBA_pd_choice_root].
    apply PBA_bind; [pba|]. intros i.
    apply PBA_bind; [pba|]. intros _.
    apply PBA_bind; [pba|]. intros len. cbv zeta.
    destruct (nth_z adds i) as [m|]; [|pba].
    apply PBA_bind; [apply PBA_with_consumed, HdecT|]. intros [v consumed]. pba.
  Qed.
End Composite.

(** ** The type-directed decoder *)
Theorem PB_pdec numeric e fuel : forall t, PBA (pdec_ty numeric e fuel t).
Proof.
  induction fuel as [|f IH]; intros t; [pba|].
  destruct t; cbn [pdec_ty].
  - pba.
  - pba.
  - apply PBA_bind; [apply PBA_r_int | intros; pba].
  - pba.
  - apply PBA_r_bitstring.
  - apply PBA_r_octets.
  - destruct k; first [apply PBA_r_utf8 | apply PBA_r_kmstring].
  - apply PBA_r_oid.
  - apply PBA_pd_seq. exact IH.
  - apply PBA_pd_seqof. exact IH.
  - apply PBA_pd_choice. exact IH.
  - destruct (lookup name e); [apply IH | pba].
  - apply IH.
Qed.

(** ** Octet level *)

Theorem per_decode_truncation numeric fuel e t data v n :
  per_decode numeric fuel e t data = Ok (v, n) ->
  (8 * (length data - 1) < n)%nat ->
  forall k, (k < length data)%nat ->
    exists x, per_decode numeric fuel e t (firstn k data) = Err x /\ is_decode_error x = true.
Proof.
  unfold per_decode. intros H Hn k Hk.
  destruct (pdec_ty numeric e fuel t (bytes_to_bits data)) as [[v' rest]|x] eqn:E; [|discriminate].
  assert (v' = v /\ n = (length (bytes_to_bits data) - length rest)%nat) as (-> & ->) by (inversion H; auto).
  destruct (PB_pdec numeric e fuel t _ _ _ E) as (used & Hu & _ & H3).
  pose proof (bytes_to_bits_length data) as Hlen.
  rewrite Hu, app_length in Hn, Hlen.
  replace (length used + length rest - length rest)%nat with (length used) in Hn by lia.
  rewrite bytes_to_bits_firstn, Hu.
  rewrite firstn_app_le by lia.
  destruct (H3 (8 * k)%nat ltac:(lia)) as (x & -> & Hx); [|exists x; auto].
  rewrite ?bytes_to_bits_length. lia.
Qed.

Theorem per_decode_ext_stable numeric fuel e t data v n tail :
  per_decode numeric fuel e t data = Ok (v, n) ->
  per_decode numeric fuel e t (data ++ tail) = Ok (v, n).
Proof.
  unfold per_decode. intros H.
  destruct (pdec_ty numeric e fuel t (bytes_to_bits data)) as [[v' rest]|x] eqn:E; [|discriminate].
  assert (v' = v /\ n = (length (bytes_to_bits data) - length rest)%nat) as (-> & ->) by (inversion H; auto).
  destruct (PB_pdec numeric e fuel t _ _ _ E) as (used & Hu & H2 & _).
  rewrite bytes_to_bits_app, Hu, <- app_assoc, H2.
  - rewrite !app_length. f_equal. f_equal. lia.
  - rewrite app_length, bytes_to_bits_length. lia.
Qed.

(** a successful decode never reports more bits than it was given *)
Theorem per_decode_in_bounds numeric fuel e t data v n :
  per_decode numeric fuel e t data = Ok (v, n) -> (n <= 8 * length data)%nat.
Proof.
  unfold per_decode. destruct (pdec_ty numeric e fuel t (bytes_to_bits data)) as [[v' rest]|x] eqn:E; [|discriminate].
  intros H. assert (n = (length (bytes_to_bits data) - length rest)%nat) by congruence. subst n.
  rewrite bytes_to_bits_length. lia.
Qed.
