(** Proof framework for the ALIGNED PER model (Per/PerImpl.v).

    Round trip is POSITIONAL: an encoder that runs in a state with [n] bits
    appends some bits [b] (it never rewrites what is there), and the decoder
    reads [b] back from any input [b ++ rest] whose alignment agrees with the
    encoder's, i.e. [(n + length b + length rest) mod 8 = 0] (the decoder
    aligns by the remaining length, the encoder by its own bit count).  That
    is the relation [ERT enc dec v] ("[enc] appends an encoding that [dec]
    reads back as [v]"); it composes over [;;] / [do*].

    Prefix behaviour is the UPER predicate [PB] relativised to the residue
    modulo 8 of the remaining length ([PBA]): continuations may be exchanged
    for ones of the same length modulo 8, and truncation points are those
    that keep the total length modulo 8 (whole octets cut from the end). *)
From Asn1V Require Import Base.Prelude Base.Sweep Base.Bits Base.BitsProofs Syntax.Asn1
     Per.UperImpl Per.UperPrim Per.UperPB Per.UperRT Per.PerImpl.

Ltac Zify.zify_post_hook ::= Z.div_mod_to_equations.

(** ** Encoder states: appending is all an encoder ever does *)

Lemma rev_repeat {A} (x : A) k : rev (repeat x k) = repeat x k.
Proof.
  induction k as [|k IH]; cbn [repeat rev]; [reflexivity|]. rewrite IH. clear IH.
  induction k as [|k IH]; cbn [repeat app]; [reflexivity|]. f_equal. exact IH.
Qed.

Lemma pst_app_nil st : pst_app st [] = st.
Proof. destruct st; reflexivity. Qed.

Lemma pst_app_app st b1 b2 : pst_app (pst_app st b1) b2 = pst_app st (b1 ++ b2).
Proof.
  unfold pst_app. cbn [fst snd]. f_equal.
  - rewrite app_length. lia.
  - rewrite !rev_append_rev, rev_app_distr, app_assoc. reflexivity.
Qed.

Lemma palign_app st : palign st = pst_app st (repeat false ((8 - fst st mod 8) mod 8)).
Proof. unfold palign, pst_app. cbn [fst snd]. rewrite repeat_length, rev_append_rev, rev_repeat. reflexivity. Qed.

Lemma pst_app_fst st b : fst (pst_app st b) = (length b + fst st)%nat.
Proof. reflexivity. Qed.

(** the statement "append-only" in terms of the bits an Encoder object holds *)
Lemma pst_bits_app st b : pst_bits (pst_app st b) = pst_bits st ++ b.
Proof.
  unfold pst_bits, pst_app. cbn [snd].
  rewrite !rev_append_rev, !app_nil_r, rev_app_distr, rev_involutive. reflexivity.
Qed.

Lemma pst_bits_fresh b : pst_bits (pst_app pst0 b) = b.
Proof. rewrite pst_bits_app. reflexivity. Qed.

(** the counter of a state is the number of its bits *)
Definition pst_wf (st : pst) : Prop := fst st = length (snd st).
Lemma pst_wf_0 : pst_wf pst0.
Proof. reflexivity. Qed.
Lemma pst_wf_app st b : pst_wf st -> pst_wf (pst_app st b).
Proof.
  unfold pst_wf, pst_app. cbn [fst snd]. intros H. rewrite rev_append_rev, app_length, rev_length. lia.
Qed.
Lemma pst_wf_bits st : pst_wf st -> fst st = length (pst_bits st).
Proof. unfold pst_wf, pst_bits. intros H. rewrite rev_append_rev, app_nil_r, rev_length. exact H. Qed.

(** ** Alignment *)

Lemma r_align_pad n rest :
  ((n + (8 - n mod 8) mod 8 + length rest) mod 8 = 0)%nat ->
  r_align (repeat false ((8 - n mod 8) mod 8) ++ rest) = Ok (tt, rest).
Proof.
  intros H. unfold r_align. rewrite app_length, repeat_length.
  set (k := ((8 - n mod 8) mod 8)%nat) in *.
  assert (Hk : ((k + length rest) mod 8 = k)%nat) by lia. rewrite Hk.
  rewrite skipn_app, repeat_length, Nat.sub_diag. cbn [skipn].
  rewrite skipn_all2 by (rewrite repeat_length; lia). reflexivity.
Qed.

(** on an octet boundary the decoder's alignment is the identity *)
Lemma r_align_aligned bs : (length bs mod 8 = 0)%nat -> r_align bs = Ok (tt, bs).
Proof. intros H. unfold r_align. rewrite H. reflexivity. Qed.

(** ** Positional round trip *)

Definition ERT {B} (m : penc) (d : reader B) (v : B) : Prop :=
  forall st st', m st = Ok st' ->
    exists b, st' = pst_app st b /\
      forall rest, ((fst st + length b + length rest) mod 8 = 0)%nat -> d (b ++ rest) = Ok (v, rest).

(** the same for an encoder that starts on an octet boundary *)
Definition ERTa {B} (m : penc) (d : reader B) (v : B) : Prop :=
  forall st st', (fst st mod 8 = 0)%nat -> m st = Ok st' ->
    exists b, st' = pst_app st b /\
      forall rest, ((length b + length rest) mod 8 = 0)%nat -> d (b ++ rest) = Ok (v, rest).

Lemma ERT_ERTa {B} m (d : reader B) v : ERT m d v -> ERTa m d v.
Proof.
  intros H st st' Hst E. destruct (H _ _ E) as (b & -> & D). exists b. split; [reflexivity|].
  intros rest Hr. apply D. lia.
Qed.

Lemma ERT_fail {B} e (d : reader B) v : ERT (pfail e) d v.
Proof. intros st st' H. discriminate H. Qed.

Lemma ERT_ret {B} (v : B) : ERT (fun st => Ok st) (rret v) v.
Proof.
  intros st st' H. exists []. split; [rewrite pst_app_nil; congruence|]. intros rest _. reflexivity.
Qed.

Lemma ERT_pemit {B} b (d : reader B) v :
  (forall rest, d (b ++ rest) = Ok (v, rest)) -> ERT (pemit b) d v.
Proof.
  intros H st st' E. unfold pemit in E. exists b. split; [congruence|]. intros rest _. apply H.
Qed.

Lemma ERT_pemit_nil {B} (v : B) : ERT (pemit []) (rret v) v.
Proof. apply ERT_pemit. intros rest. reflexivity. Qed.

Lemma ERT_plift {B} r (d : reader B) v :
  (forall b, r = Ok b -> forall rest, d (b ++ rest) = Ok (v, rest)) -> ERT (plift r) d v.
Proof.
  intros H st st' E. unfold plift in E. destruct r as [b|x]; cbn [bind] in E; [|discriminate].
  exists b. split; [congruence|]. intros rest _. apply H. reflexivity.
Qed.

Lemma ERT_bind {A B} m1 m2 (d1 : reader A) (d2 : A -> reader B) x v :
  ERT m1 d1 x -> ERT m2 (d2 x) v -> ERT (m1 ;; m2) (rbind d1 d2) v.
Proof.
  intros H1 H2 st st' H. unfold pbind in H.
  destruct (m1 st) as [st1|] eqn:E1; cbn [bind] in H; [|discriminate].
  destruct (H1 _ _ E1) as (b1 & -> & D1). destruct (H2 _ _ H) as (b2 & -> & D2).
  exists (b1 ++ b2). split; [apply pst_app_app|]. intros rest Hr.
  rewrite app_length in Hr. rewrite <- app_assoc. unfold rbind. rewrite D1.
  - apply D2. rewrite pst_app_fst. lia.
  - rewrite app_length. lia.
Qed.

Lemma ERT_then {A B} m1 m2 (d1 : reader A) (d2 : reader B) x v :
  ERT m1 d1 x -> ERT m2 d2 v -> ERT (m1 ;; m2) (do* _ <- d1; d2) v.
Proof. intros H1 H2. eapply ERT_bind; [exact H1 | exact H2]. Qed.

Lemma ERT_fmap {A B} m (d : reader A) (f : A -> B) x v :
  ERT m d x -> f x = v -> ERT m (do* y <- d; rret (f y)) v.
Proof.
  intros H Hf st st' E. destruct (H _ _ E) as (b & -> & D). exists b. split; [reflexivity|].
  intros rest Hr. unfold rbind. rewrite (D _ Hr). unfold rret. rewrite Hf. reflexivity.
Qed.

Lemma ERT_nil_l {B} m (d : reader B) v : ERT m d v -> ERT (pemit [] ;; m) d v.
Proof.
  intros H st st' E. unfold pbind, pemit in E. cbn [bind] in E. rewrite pst_app_nil in E. apply H. exact E.
Qed.

Lemma ERT_dec_ext {B} m (d1 d2 : reader B) v : (forall bs, d1 bs = d2 bs) -> ERT m d1 v -> ERT m d2 v.
Proof.
  intros He H st st' E. destruct (H _ _ E) as (b & -> & D). exists b. split; [reflexivity|].
  intros rest Hr. rewrite <- He. apply D. exact Hr.
Qed.

Lemma ERT_enc_ext {B} m1 m2 (d : reader B) v : (forall st, m1 st = m2 st) -> ERT m1 d v -> ERT m2 d v.
Proof. intros He H st st' E. rewrite <- He in E. apply H. exact E. Qed.

Lemma ERT_val {B} m (d : reader B) v v' : v = v' -> ERT m d v -> ERT m d v'.
Proof. intros ->. auto. Qed.

Lemma ERT_align : ERT palign_e r_align tt.
Proof.
  intros st st' E. unfold palign_e in E. rewrite palign_app in E.
  exists (repeat false ((8 - fst st mod 8) mod 8)). split; [congruence|].
  intros rest Hr. rewrite repeat_length in Hr. apply r_align_pad. exact Hr.
Qed.

(** whatever is encoded after an alignment point only has to round-trip on octet boundaries *)
Lemma ERT_aligned {B} m (d : reader B) v : ERTa m d v -> ERT (palign_e ;; m) (do* _ <- r_align; d) v.
Proof.
  intros H st st' E. unfold pbind, palign_e in E. cbn [bind] in E. rewrite palign_app in E.
  set (k := ((8 - fst st mod 8) mod 8)%nat) in *.
  assert (Hal : (fst (pst_app st (repeat false k)) mod 8 = 0)%nat)
    by (rewrite pst_app_fst, repeat_length; unfold k; lia).
  destruct (H _ _ Hal E) as (b & -> & D).
  exists (repeat false k ++ b). split; [apply pst_app_app|]. intros rest Hr.
  rewrite app_length, repeat_length in Hr. rewrite <- app_assoc. unfold rbind.
  unfold k. rewrite r_align_pad by (fold k; rewrite app_length; lia).
  apply D. lia.
Qed.

Lemma ERTa_bind {A B} m1 m2 (d1 : reader A) (d2 : A -> reader B) x v :
  ERTa m1 d1 x ->
  (forall st st', (fst st mod 8 = 0)%nat -> m1 st = Ok st' -> (fst st' mod 8 = 0)%nat) ->
  ERTa m2 (d2 x) v -> ERTa (m1 ;; m2) (rbind d1 d2) v.
Proof.
  intros H1 Hal H2 st st' Hst H. unfold pbind in H.
  destruct (m1 st) as [st1|] eqn:E1; cbn [bind] in H; [|discriminate].
  pose proof (Hal _ _ Hst E1) as Hst1.
  destruct (H1 _ _ Hst E1) as (b1 & -> & D1). destruct (H2 _ _ Hst1 H) as (b2 & -> & D2).
  exists (b1 ++ b2). split; [apply pst_app_app|]. intros rest Hr.
  rewrite app_length in Hr. rewrite <- app_assoc. unfold rbind. rewrite D1.
  - apply D2. rewrite pst_app_fst in Hst1. lia.
  - rewrite app_length. lia.
Qed.

(** ** Item lists *)

Lemma ERT_all {A B} (enc1 : A -> penc) (rd : reader B) (nm : A -> B) :
  (forall a, ERT (enc1 a) rd (nm a)) ->
  forall l, ERT (p_all enc1 l) (read_n (length l) rd) (map nm l).
Proof.
  intros H. induction l as [|a l IH]; cbn [p_all read_n length map].
  - apply ERT_ret.
  - eapply ERT_bind; [apply H|]. cbv beta. apply (ERT_fmap _ _ (cons (nm a)) (map nm l)); [exact IH | reflexivity].
Qed.

Lemma p_frag_rt {A B} (enc1 : A -> penc) (rd : reader B) (nm : A -> B) :
  (forall a, ERT (enc1 a) rd (nm a)) ->
  forall fuel l st st', p_frag fuel enc1 l st = Ok st' ->
    exists b, st' = pst_app st b /\
      forall rest, ((fst st + length b + length rest) mod 8 = 0)%nat ->
      forall f', (length b / 8 < f')%nat -> read_frag f' rd (b ++ rest) = Ok (map nm l, rest).
Proof.
  intros Hrt.
  assert (Hshort : forall l st st', (Z.of_nat (length l) <? 16384) = true ->
            (pemit (enc_len_short (Z.of_nat (length l))) ;; p_all enc1 l) st = Ok st' ->
            exists b, st' = pst_app st b /\
              forall rest, ((fst st + length b + length rest) mod 8 = 0)%nat ->
              forall f', (length b / 8 < f')%nat -> read_frag f' rd (b ++ rest) = Ok (map nm l, rest)).
  { intros l st st' E H. unfold pbind, pemit in H. cbn [bind] in H.
    destruct (ERT_all enc1 rd nm Hrt l _ _ H) as (b1 & -> & D1).
    exists (enc_len_short (Z.of_nat (length l)) ++ b1). split; [apply pst_app_app|].
    intros rest Hr f' Hf. rewrite app_length in Hr. destruct f' as [|f']; [lia|]. cbn [read_frag]. unfold rbind.
    rewrite <- app_assoc, read_len_short by lia. rewrite Nat2Z.id.
    rewrite D1 by (rewrite pst_app_fst; lia). rewrite E. reflexivity. }
  induction fuel as [|f IH]; intros l st st'; cbn [p_frag].
  - destruct (Z.of_nat (length l) <? 16384) eqn:E; [apply Hshort; exact E | discriminate].
  - destruct (Z.of_nat (length l) <? 16384) eqn:E; [apply Hshort; exact E |].
    set (n := Z.of_nat (length l)) in *.
    set (m := if n <? 32768 then 1 else if n <? 49152 then 2 else if n <? 65536 then 3 else 4).
    assert (Hm : 1 <= m <= 4 /\ 16384 * m <= n).
    { unfold m. destruct (n <? 32768) eqn:E1; [lia|]. destruct (n <? 49152) eqn:E2; [lia|].
      destruct (n <? 65536) eqn:E3; lia. }
    set (k := Z.to_nat (16384 * m)). intros H. unfold pbind in H.
    unfold pemit at 1 in H. cbn [bind] in H.
    destruct (p_all enc1 (firstn k l) (pst_app st (to_bits 8 (192 + m)))) as [st1|] eqn:E1; cbn [bind] in H; [|discriminate].
    destruct (ERT_all enc1 rd nm Hrt _ _ _ E1) as (b1 & -> & D1).
    destruct (IH _ _ _ H) as (b2 & -> & D2).
    exists (to_bits 8 (192 + m) ++ b1 ++ b2). split; [rewrite !pst_app_app; reflexivity|].
    intros rest Hr f' Hf. rewrite !app_length, to_bits_length in Hr, Hf.
    destruct f' as [|f']; [lia|]. cbn [read_frag]. unfold rbind.
    rewrite <- !app_assoc. rewrite frag_marker by lia.
    assert (Hk : length (firstn k l) = k) by (rewrite firstn_length; unfold k, n in *; lia).
    fold k. rewrite <- Hk at 1. rewrite D1 by (rewrite pst_app_fst, to_bits_length, app_length; lia).
    destruct (16384 * m <? 16384) eqn:E4; [lia|].
    rewrite D2.
    + unfold rret. rewrite <- map_app, firstn_skipn. reflexivity.
    + rewrite !pst_app_fst, to_bits_length. lia.
    + lia.
Qed.

Lemma ERT_frag {A B} (enc1 : A -> penc) (rd : reader B) (nm : A -> B) fuel l :
  (forall a, ERT (enc1 a) rd (nm a)) -> ERT (p_frag fuel enc1 l) (read_frag_auto rd) (map nm l).
Proof.
  intros Hrt st st' H. destruct (p_frag_rt enc1 rd nm Hrt _ _ _ _ H) as (b & -> & D).
  exists b. split; [reflexivity|]. intros rest Hr. unfold read_frag_auto. apply D; [exact Hr|].
  rewrite app_length. lia.
Qed.

(** ** Constrained whole numbers (all four forms) *)

Lemma ERT_uint n x : 0 <= x < 2 ^ Z.of_nat n -> ERT (pemit (to_bits n x)) (read_uint n) x.
Proof. intros H. apply ERT_pemit. intros rest. apply read_uint_app. exact H. Qed.

Lemma ERT_cwn v lo hi nbits :
  lo <= v <= hi -> v - lo < 2 ^ Z.of_nat nbits -> ERT (p_cwn v lo hi nbits) (r_cwn lo hi nbits) v.
Proof.
  intros Hv Hfit. unfold p_cwn, r_cwn.
  destruct (hi - lo + 1 <=? 255) eqn:E1.
  - apply (ERT_fmap _ _ (fun x => x + lo) (v - lo)); [|lia]. apply ERT_uint. lia.
  - destruct (hi - lo + 1 =? 256) eqn:E2.
    + apply (ERT_fmap _ _ (fun x => x + lo) (v - lo)); [|lia].
      eapply ERT_then; [apply ERT_align|]. apply ERT_uint. change (2 ^ Z.of_nat 8) with 256. lia.
    + destruct (hi - lo + 1 <=? 65536) eqn:E3.
      * apply (ERT_fmap _ _ (fun x => x + lo) (v - lo)); [|lia].
        eapply ERT_then; [apply ERT_align|]. apply ERT_uint. change (2 ^ Z.of_nat 16) with 65536. lia.
      * apply (ERT_fmap _ _ (fun x => x + lo) (v - lo)); [|lia].
        eapply ERT_then; [apply ERT_align|]. apply ERT_uint. lia.
Qed.

(** ** INTEGER *)

Lemma bit_length_mono x y : 0 <= x <= y -> bit_length x <= bit_length y.
Proof.
  intros H. unfold bit_length. destruct (x =? 0) eqn:Ex.
  - destruct (y =? 0); [lia|]. pose proof (Z.log2_nonneg (Z.abs y)). lia.
  - destruct (y =? 0) eqn:Ey; [lia|]. rewrite !Z.abs_eq by lia.
    pose proof (Z.log2_le_mono x y ltac:(lia)). lia.
Qed.

Lemma size_as_bytes_fits x : 0 <= x -> 1 <= size_as_bytes x /\ x < 2 ^ (8 * size_as_bytes x).
Proof.
  intros H. unfold size_as_bytes. destruct (x =? 0) eqn:E.
  - assert (x = 0) by lia. subst. split; [lia|]. reflexivity.
  - pose proof (bit_length_pos x ltac:(lia)) as Hb. pose proof (bit_length_nonneg x).
    assert (1 <= bit_length x).
    { destruct (Z.eq_dec (bit_length x) 0) as [E0|E0]; [rewrite E0 in Hb; simpl in Hb; lia | lia]. }
    split; [lia|]. assert (2 ^ bit_length x <= 2 ^ (8 * ((bit_length x + 7) / 8))) by (apply pow2_le_mono; lia). lia.
Qed.

Lemma size_as_bytes_mono x y : 0 <= x <= y -> 65535 < y -> size_as_bytes x <= (bit_length y + 7) / 8.
Proof.
  intros H Hy. unfold size_as_bytes. pose proof (bit_length_mono x y H). pose proof (bit_length_nonneg x).
  assert (bit_length 65536 <= bit_length y) by (apply bit_length_mono; lia).
  change (bit_length 65536) with 17 in *.
  destruct (x =? 0); lia.
Qed.

Lemma ERT_int_root c v : ERT (p_int_root c v) (r_int_root c) v.
Proof.
  unfold p_int_root, r_int_root. destruct (int_bounds c) as [[lo hi]|].
  - destruct ((lo <=? v) && (v <=? hi)) eqn:E; cbn [negb]; [|apply ERT_fail].
    unfold p_int_indef. destruct (hi - lo <=? 65535) eqn:E1.
    + apply ERT_cwn; [lia|]. unfold p_int_nbits. apply (fits_bit_length (v - lo) (hi - lo)). lia.
    + pose proof (size_as_bytes_fits (v - lo) ltac:(lia)) as (Hn1 & Hfit).
      pose proof (size_as_bytes_mono (v - lo) (hi - lo) ltac:(lia) ltac:(lia)) as Hmono.
      set (nbytes := size_as_bytes (v - lo)) in *.
      set (N := (bit_length (hi - lo) + 7) / 8) in *.
      pose proof (fits_bit_length (nbytes - 1) (N - 1) ltac:(lia)) as Hib.
      set (ib := Z.to_nat (bit_length (N - 1))) in *.
      eapply ERT_bind; [apply (ERT_cwn (nbytes - 1) 0 (2 ^ Z.of_nat ib) ib); lia|]. cbv beta.
      eapply ERT_then; [apply ERT_align|].
      replace (nbytes - 1 + 1) with nbytes by lia.
      apply ERT_cwn; [lia|]. rewrite Z2Nat.id by lia. lia.
  - eapply ERT_then; [apply ERT_align|]. apply ERT_plift. intros b Hb rest. apply read_unconstrained_rt. exact Hb.
Qed.

Lemma ERT_int c v : ERT (p_int c v) (r_int c) v.
Proof.
  unfold p_int, r_int. destruct (int_ext c); [|apply ERT_int_root].
  destruct (int_bounds c) as [[lo hi]|] eqn:Eb; [|apply ERT_fail].
  destruct ((lo <=? v) && (v <=? hi)) eqn:E.
  - eapply ERT_bind; [apply (ERT_pemit [false] read_bit false); reflexivity|]. cbv beta iota. apply ERT_int_root.
  - eapply ERT_bind; [apply (ERT_pemit [true] read_bit true); reflexivity|]. cbv beta iota.
    eapply ERT_then; [apply ERT_align|]. apply ERT_plift. intros b Hb rest. apply read_unconstrained_rt. exact Hb.
Qed.

(** ** Prefix behaviour relative to the residue of the remaining length *)

Definition PBA {B} (dec : reader B) : Prop :=
  forall inp b rest, dec inp = Ok (b, rest) ->
    exists used, inp = used ++ rest /\
      (forall rest', (length rest' mod 8 = length rest mod 8)%nat -> dec (used ++ rest') = Ok (b, rest')) /\
      (forall k, (k < length used)%nat -> (k mod 8 = length inp mod 8)%nat -> is_dec_err (dec (firstn k used))).

Lemma PB_PBA {B} (d : reader B) : PB d -> PBA d.
Proof.
  intros H inp b rest E. destruct (H _ _ _ E) as (u & -> & H2 & H3). exists u. split; [reflexivity|].
  split; [intros; apply H2 | intros; apply H3; assumption].
Qed.

Lemma PBA_bind {A B} (m : reader A) (f : A -> reader B) :
  PBA m -> (forall a, PBA (f a)) -> PBA (rbind m f).
Proof.
  intros Hm Hf inp b rest H. unfold rbind in H.
  destruct (m inp) as [[a r1]|e] eqn:E1; [|discriminate].
  destruct (Hm _ _ _ E1) as (u1 & -> & Hm2 & Hm3).
  destruct (Hf a _ _ _ H) as (u2 & -> & Hf2 & Hf3).
  exists (u1 ++ u2). split; [rewrite app_assoc; reflexivity|]. split.
  - intros rest' Hr. unfold rbind. rewrite <- app_assoc, Hm2 by (rewrite !app_length; lia). apply Hf2. exact Hr.
  - intros k Hk Hmod. unfold rbind. rewrite !app_length in *.
    destruct (Nat.lt_ge_cases k (length u1)) as [Hlt|Hge].
    + rewrite firstn_app_le by lia. destruct (Hm3 k Hlt ltac:(lia)) as (e & -> & He). exists e. auto.
    + rewrite firstn_app_ge by lia. rewrite Hm2.
      * apply Hf3; [lia|]. rewrite ?app_length; lia.
      * rewrite ?firstn_length, ?app_length; lia.
Qed.

Lemma PBA_if {A} (c : bool) (d1 d2 : reader A) : PBA d1 -> PBA d2 -> PBA (if c then d1 else d2).
Proof. destruct c; auto. Qed.

Lemma PBA_ext {A} (d1 d2 : reader A) : (forall bs, d1 bs = d2 bs) -> PBA d1 -> PBA d2.
Proof.
  intros He H inp b rest Hd. rewrite <- He in Hd. destruct (H _ _ _ Hd) as (u & -> & H2 & H3).
  exists u. split; [reflexivity|]. split.
  - intros r' Hr. rewrite <- He. apply H2. exact Hr.
  - intros k Hk Hm. rewrite <- He. apply H3; assumption.
Qed.

Lemma PBA_read_n {A} n (rd : reader A) : PBA rd -> PBA (read_n n rd).
Proof.
  intros H. induction n as [|n IH]; cbn [read_n]; [apply PB_PBA, PB_ret|].
  apply PBA_bind; [exact H|]. intros x. apply PBA_bind; [exact IH|]. intros r. apply PB_PBA, PB_ret.
Qed.

Lemma PBA_r_align : PBA r_align.
Proof.
  intros inp b rest H. unfold r_align in H.
  assert (rest = skipn (length inp mod 8) inp) by congruence. destruct b. clear H.
  set (k := (length inp mod 8)%nat) in *.
  exists (firstn k inp). split; [subst rest; symmetry; apply firstn_skipn|].
  assert (Hk : (k <= length inp)%nat) by (unfold k; lia).
  assert (Hl : length (firstn k inp) = k) by (rewrite firstn_length; lia).
  assert (Hrest : (length rest mod 8 = 0)%nat) by (subst rest; rewrite skipn_length; unfold k; lia).
  split.
  - intros rest' Hr. unfold r_align. rewrite app_length, Hl.
    assert (Hm : ((k + length rest') mod 8 = k)%nat) by (unfold k in *; lia). rewrite Hm.
    rewrite skipn_app, Hl, Nat.sub_diag. cbn [skipn]. rewrite skipn_all2 by lia. reflexivity.
  - intros j Hj Hmod. rewrite Hl in Hj. unfold k in *. lia.
Qed.

Lemma PBA_with_consumed {A} (m : reader A) : PBA m -> PBA (with_consumed m).
Proof.
  intros Hm inp [a c] rest H. unfold with_consumed in H.
  destruct (m inp) as [[a' r]|e] eqn:E; [|discriminate].
  assert (a' = a /\ c = (length inp - length r)%nat /\ r = rest) as (-> & -> & ->) by (inversion H; auto).
  destruct (Hm _ _ _ E) as (u & -> & H2 & H3). exists u. split; [reflexivity|]. split.
  - intros rest' Hr. unfold with_consumed. rewrite H2 by exact Hr. rewrite !app_length. f_equal. f_equal. f_equal. lia.
  - intros k Hk Hmod. unfold with_consumed. destruct (H3 k Hk Hmod) as (e & -> & He). exists e. auto.
Qed.

Lemma PBA_length {A} (d : reader A) inp b rest : PBA d -> d inp = Ok (b, rest) -> (length rest <= length inp)%nat.
Proof. intros H E. destruct (H _ _ _ E) as (u & -> & _). rewrite ?app_length; lia. Qed.

Lemma read_frag_spec_a {A} (rd : reader A) : PBA rd -> forall f inp items r,
  read_frag f rd inp = Ok (items, r) ->
  exists used, inp = used ++ r /\
    (forall f' rest', (length rest' mod 8 = length r mod 8)%nat -> (length used / 8 < f')%nat ->
                      read_frag f' rd (used ++ rest') = Ok (items, rest')) /\
    (forall k f', (k < length used)%nat -> (k mod 8 = length inp mod 8)%nat -> (k / 8 < f')%nat ->
                  is_dec_err (read_frag f' rd (firstn k used))).
Proof.
  intros Hrd. induction f as [|f IH]; intros inp items r H; [discriminate|].
  cbn [read_frag] in H.
  apply rbind_ok in H. destruct H as (n & r1 & E1 & H).
  apply rbind_ok in H. destruct H as (its & r2 & E2 & H).
  pose proof (read_len_consumes _ _ _ E1) as H8.
  destruct (PB_read_len _ _ _ E1) as (u1 & -> & L2 & L3).
  destruct (PBA_read_n (Z.to_nat n) rd Hrd _ _ _ E2) as (u2 & -> & N2 & N3).
  rewrite !app_length in H8.
  assert (Hu1 : (8 <= length u1)%nat) by lia.
  destruct (n <? 16384) eqn:En.
  - unfold rret in H. inversion H; subst. exists (u1 ++ u2). split; [rewrite app_assoc; reflexivity|]. split.
    + intros f' rest' Hr Hf. destruct f' as [|f']; [lia|]. cbn [read_frag]. unfold rbind.
      rewrite <- app_assoc, L2, N2, En by exact Hr. reflexivity.
    + intros k f' Hk Hmod Hf. destruct f' as [|f']; [lia|]. cbn [read_frag]. rewrite !app_length in *.
      destruct (Nat.lt_ge_cases k (length u1)) as [Hlt|Hge].
      * rewrite firstn_app_le by lia. apply is_dec_err_bind. apply L3. exact Hlt.
      * rewrite firstn_app_ge by lia. unfold rbind at 1. rewrite L2.
        apply is_dec_err_bind. apply N3; [lia|]. rewrite ?app_length; lia.
  - apply rbind_ok in H. destruct H as (more & r3 & E3 & H). unfold rret in H. inversion H; subst.
    destruct (IH _ _ _ E3) as (u3 & -> & F2 & F3).
    exists (u1 ++ u2 ++ u3). split; [rewrite <- !app_assoc; reflexivity|]. split.
    + intros f' rest' Hr Hf. destruct f' as [|f']; [lia|]. cbn [read_frag]. unfold rbind.
      rewrite <- !app_assoc, L2, N2, En by (rewrite !app_length; lia).
      rewrite F2; [reflexivity | exact Hr |]. rewrite !app_length in Hf. lia.
    + intros k f' Hk Hmod Hf. destruct f' as [|f']; [lia|]. cbn [read_frag]. rewrite !app_length in *.
      destruct (Nat.lt_ge_cases k (length u1)) as [Hlt|Hge].
      * rewrite firstn_app_le by lia. apply is_dec_err_bind. apply L3. exact Hlt.
      * rewrite firstn_app_ge by lia. unfold rbind at 1. rewrite L2.
        destruct (Nat.lt_ge_cases (k - length u1) (length u2)) as [Hlt2|Hge2].
        -- rewrite firstn_app_le by lia. apply is_dec_err_bind. apply N3; [exact Hlt2|]. rewrite ?app_length; lia.
        -- rewrite firstn_app_ge by lia. unfold rbind at 1. rewrite N2, En.
           ++ apply is_dec_err_bind. apply F3; [lia | rewrite ?app_length; lia | lia].
           ++ rewrite ?firstn_length, ?app_length; lia.
Qed.

Lemma PBA_read_frag_auto {A} (rd : reader A) : PBA rd -> PBA (read_frag_auto rd).
Proof.
  intros Hrd inp items r H. unfold read_frag_auto in H.
  destruct (read_frag_spec_a rd Hrd _ _ _ _ H) as (used & -> & F2 & F3).
  exists used. split; [reflexivity|]. split.
  - intros rest' Hr. unfold read_frag_auto. apply F2; [exact Hr|]. rewrite ?app_length; lia.
  - intros k Hk Hmod. unfold read_frag_auto. apply F3; [exact Hk | exact Hmod |]. rewrite firstn_length. lia.
Qed.

Ltac pba_step :=
  first
    [ assumption
    | apply PBA_r_align
    | apply PB_PBA;
      first [ apply PB_ret | apply PB_fail | apply PB_read_bit | apply PB_read_uint | apply PB_read_raw
            | apply PB_skip_bits | apply PB_read_len | apply PB_read_small_nonneg | apply PB_read_small_len
            | apply PB_read_unconstrained | apply PB_read_enum | apply PB_read_byte | apply PB_read_oid
            | apply PB_read_utf8 ]
    | apply PBA_read_n
    | apply PBA_read_frag_auto
    | apply PBA_with_consumed
    | apply PBA_bind; [|intros ?]
    | apply PBA_if
    | match goal with
      | |- PBA (match ?x with _ => _ end) => destruct x
      | |- PBA (let '(_, _) := ?x in _) => destruct x
      end ].
Ltac pba := repeat pba_step.

Lemma PBA_r_cwn lo hi nbits : PBA (r_cwn lo hi nbits).
Proof. unfold r_cwn. pba. Qed.

Lemma PBA_r_int c : PBA (r_int c).
Proof. unfold r_int, r_int_root. pba; apply PBA_r_cwn. Qed.
