(** C08, work bound for the ALIGNED PER decoder model: proofs about the
    instrumented decoder of [Per/PerCost.v], on top of the cost framework of
    [Per/UperCostProofs.v] ([Er], [Cost], the loop lemmas, the SEQUENCE root and
    addition-loop lemmas are reused as they are).

    1. [pdec_cost_erases]: dropping the step counter gives back [pdec_ty].
    2. [pdec_cost_bound]: at most [Kp e fuel t * (length inp + 1)] steps on ANY
       input.  An alignment is one step that may consume nothing, so fewer
       readers than in UPER are known to consume a bit - the constant of some
       types is larger than the UPER one, the shape is the same.
    3. [Kp_fuel_stable]: the constant does not depend on the fuel for acyclic
       specifications (the same check [fits] as for UPER). *)
From Asn1V Require Import Base.Prelude Base.Bits Base.BitsProofs Base.Utf8 Syntax.Asn1.
From Asn1V Require Import Per.UperImpl Per.PerImpl Per.UperCost Per.UperCostProofs Per.PerCost.
From Coq Require Import NArith.

(** * 1. Erasure *)

Ltac per_er_step :=
  first [ er_step
        | match goal with
          | |- Er c_r_align _ => apply Er_prim
          | |- Er c_read_byte _ => apply Er_prim
          | |- Er c_read_len _ => apply Er_read_len
          | |- Er c_read_unconstrained _ => apply Er_read_unconstrained
          | |- Er c_read_small_nonneg _ => apply Er_read_small_nonneg
          | |- Er c_read_small_len _ => apply Er_read_small_len
          | |- Er c_read_utf8 _ => apply Er_read_utf8
          | |- Er c_read_oid _ => apply Er_read_oid
          | |- Er (c_read_n _ _) _ => apply Er_read_n
          | |- Er (c_read_frag_auto _) _ => apply Er_read_frag_auto
          end ].
Ltac per_er := repeat per_er_step; try assumption.

Lemma Er_r_cwn lo hi nbits : Er (c_r_cwn lo hi nbits) (r_cwn lo hi nbits).
Proof. unfold c_r_cwn, r_cwn. per_er. Qed.

Lemma Er_r_int_root c : Er (c_r_int_root c) (r_int_root c).
Proof. unfold c_r_int_root, r_int_root. per_er; apply Er_r_cwn. Qed.

Lemma Er_r_int c : Er (c_r_int c) (r_int c).
Proof. unfold c_r_int, r_int. per_er; apply Er_r_int_root. Qed.

Lemma Er_r_bitstring sz : Er (c_r_bitstring sz) (r_bitstring sz).
Proof. unfold c_r_bitstring, r_bitstring. per_er; apply Er_r_cwn. Qed.

Lemma Er_r_octets sz : Er (c_r_octets sz) (r_octets sz).
Proof. unfold c_r_octets, r_octets. per_er; apply Er_r_cwn. Qed.

Lemma Er_r_km_char a ident bpc : Er (c_r_km_char a ident bpc) (r_km_char a ident bpc).
Proof. unfold c_r_km_char, r_km_char. per_er. Qed.

Lemma Er_r_kmstring k sz alpha : Er (c_r_kmstring k sz alpha) (r_kmstring k sz alpha).
Proof.
  unfold c_r_kmstring, r_kmstring. destruct (p_km_params k alpha) as [[[a ident] bpc]|]; per_er.
  all: first [apply Er_r_cwn | apply Er_r_km_char].
Qed.

Lemma Er_r_utf8 : Er c_r_utf8 r_utf8.
Proof. unfold c_r_utf8, r_utf8. per_er. Qed.

Lemma Er_r_oid : Er c_r_oid r_oid.
Proof. unfold c_r_oid, r_oid. per_er. Qed.

Section PErComposite.
  Variable decT : ty -> creader value.
  Variable rdT : ty -> reader value.
  Hypothesis HT : forall t, Er (decT t) (rdT t).

  (** the addition loop of aligned PER is the UPER one *)
  Lemma pd_adds_eq pres : forall adds, pd_adds rdT pres adds = dec_adds rdT pres adds.
  Proof. induction pres as [|p pres IH]; intros adds; cbn [pd_adds dec_adds]; [reflexivity|]. rewrite IH. reflexivity. Qed.

  Lemma Er_pd_seq root ext : Er (c_pd_seq decT root ext) (pd_seq rdT root ext).
  Proof.
    unfold c_pd_seq, pd_seq. per_er.
    all: first [apply (Er_dec_root decT rdT HT) | rewrite pd_adds_eq; apply (Er_dec_adds decT rdT HT)].
  Qed.

  Lemma Er_pd_seqof elem sz : Er (c_pd_seqof decT elem sz) (pd_seqof rdT elem sz).
  Proof. unfold c_pd_seqof, pd_seqof. per_er. all: first [apply Er_r_cwn | apply HT]. Qed.

  Lemma Er_pd_choice_root root : Er (c_pd_choice_root decT root) (pd_choice_root rdT root).
  Proof. unfold c_pd_choice_root, pd_choice_root. per_er. all: first [apply Er_r_cwn | apply HT]. Qed.

  Lemma Er_pd_choice root ext : Er (c_pd_choice decT root ext) (pd_choice rdT root ext).
  Proof.
    unfold c_pd_choice, pd_choice. per_er.
    all: first [apply Er_pd_choice_root | apply HT].
  Qed.
End PErComposite.

Lemma Er_pdec numeric e fuel : forall t, Er (pdec_cost numeric e fuel t) (pdec_ty numeric e fuel t).
Proof.
  induction fuel as [|f IH]; intros t; cbn [pdec_cost pdec_ty]; [er|].
  apply Er_tick. destruct t.
  - per_er.
  - per_er.
  - per_er. apply Er_r_int.
  - apply Er_read_enum.
  - apply Er_r_bitstring.
  - apply Er_r_octets.
  - destruct k; first [apply Er_r_utf8 | apply Er_r_kmstring].
  - apply Er_r_oid.
  - apply Er_pd_seq, IH.
  - apply Er_pd_seqof, IH.
  - apply Er_pd_choice, IH.
  - per_er. apply IH.
  - apply IH.
Qed.

Theorem pdec_cost_erases numeric e fuel t inp :
  fst (pdec_cost numeric e fuel t inp) = pdec_ty numeric e fuel t inp.
Proof. apply Er_pdec. Qed.

Theorem per_decode_cost_erases numeric fuel e t data :
  fst (per_decode_cost numeric fuel e t data) = per_decode numeric fuel e t data.
Proof.
  unfold per_decode_cost, per_decode. rewrite <- pdec_cost_erases.
  destruct (pdec_cost numeric e fuel t (bytes_to_bits data)) as [[[v r]|x] c]; reflexivity.
Qed.

(** * 2. The bound *)
Local Open Scope N_scope.

Lemma Cost_r_align : Cost (kprim false) c_r_align.
Proof.
  intros bs. unfold c_r_align, prim, r_align. cbn [ka kb kw kprim]. rewrite skipn_length.
  split; [lia|]. split; [lia|discriminate].
Qed.

Ltac cost_hook ::=
  match goal with
  | |- Cost _ c_read_len => apply Cost_read_len
  | |- Cost _ c_read_unconstrained => apply Cost_read_unconstrained
  | |- Cost _ c_read_small_nonneg => apply Cost_read_small_nonneg
  | |- Cost _ c_read_small_len => apply Cost_read_small_len
  | |- Cost _ c_r_align => apply Cost_r_align
  end.

(** constrained whole numbers *)
Definition k_cwn (lo hi : Z) (nbits : nat) : abw :=
  let range := (hi - lo + 1)%Z in
  if (range <=? 255)%Z then kprim (0 <? nbits)%nat
  else if (range =? 256)%Z then kseq (kprim false) (kprim true)
  else if (range <=? 65536)%Z then kseq (kprim false) (kprim true)
  else kseq (kprim false) (kprim (0 <? nbits)%nat).

Lemma Cost_r_cwn lo hi nbits : Cost (k_cwn lo hi nbits) (c_r_cwn lo hi nbits).
Proof.
  unfold c_r_cwn, k_cwn. cbv zeta. eapply Cost_weaken; [apply kle_seq_ret|].
  apply Cost_bind; [|intros; apply Cost_ret].
  destruct (hi - lo + 1 <=? 255)%Z; [cost|].
  destruct (hi - lo + 1 =? 256)%Z; [cost|].
  destruct (hi - lo + 1 <=? 65536)%Z; cost.
Qed.

Lemma k_cwn_le lo hi nbits : kle (k_cwn lo hi nbits) (ABW 2 0 false).
Proof.
  unfold k_cwn. cbv zeta.
  destruct (hi - lo + 1 <=? 255)%Z; [kle_solve|].
  destruct (hi - lo + 1 =? 256)%Z; [kle_solve|].
  destruct (hi - lo + 1 <=? 65536)%Z; kle_solve.
Qed.

Lemma Cost_r_cwn_any lo hi nbits : Cost (ABW 2 0 false) (c_r_cwn lo hi nbits).
Proof. eapply Cost_weaken; [apply k_cwn_le|apply Cost_r_cwn]. Qed.

(** the width actually read *)
Definition cwn_width (lo hi : Z) (nbits : nat) : nat :=
  let range := (hi - lo + 1)%Z in
  if (range <=? 255)%Z then nbits
  else if (range =? 256)%Z then 8%nat
  else if (range <=? 65536)%Z then 16%nat
  else nbits.

Lemma Post_read_uint n : Post (fun x => (0 <= x < 2 ^ Z.of_nat n)%Z) (c_read_uint n).
Proof.
  intros bs x r c. unfold c_read_uint, prim, read_uint. destruct (length bs <? n)%nat eqn:E; [discriminate|].
  intros H. assert (x = of_bits (firstn n bs)) by congruence. subst x.
  pose proof (of_bits_bounds (firstn n bs)) as Hv. rewrite firstn_length in Hv.
  replace (Init.Nat.min n (length bs)) with n in Hv by lia. exact Hv.
Qed.

Lemma Post_bind_any {A B} (Q : B -> Prop) (m : creader A) (f : A -> creader B) :
  (forall a, Post Q (f a)) -> Post Q (cbind m f).
Proof.
  intros H bs x r c. unfold cbind. destruct (m bs) as [[[a r1]|er] c1]; [|discriminate].
  destruct (f a r1) as [res c2] eqn:E. intros H2. assert (res = Ok (x, r)) by congruence. subst res.
  apply (H a r1 x r c2 E).
Qed.

Lemma Post_r_cwn lo hi nbits :
  Post (fun n => (lo <= n < lo + 2 ^ Z.of_nat (cwn_width lo hi nbits))%Z) (c_r_cwn lo hi nbits).
Proof.
  unfold c_r_cwn, cwn_width. cbv zeta.
  set (inner := if (hi - lo + 1 <=? 255)%Z then c_read_uint nbits
                else if (hi - lo + 1 =? 256)%Z then dc* _ <- c_r_align; c_read_uint 8
                else if (hi - lo + 1 <=? 65536)%Z then dc* _ <- c_r_align; c_read_uint 16
                else dc* _ <- c_r_align; c_read_uint nbits).
  set (w := if (hi - lo + 1 <=? 255)%Z then nbits
            else if (hi - lo + 1 =? 256)%Z then 8%nat
            else if (hi - lo + 1 <=? 65536)%Z then 16%nat else nbits).
  assert (Hin : Post (fun x => (0 <= x < 2 ^ Z.of_nat w)%Z) inner).
  { unfold inner, w. destruct (hi - lo + 1 <=? 255)%Z; [apply Post_read_uint|].
    destruct (hi - lo + 1 =? 256)%Z; [apply Post_bind_any; intros; apply Post_read_uint|].
    destruct (hi - lo + 1 <=? 65536)%Z; apply Post_bind_any; intros; apply Post_read_uint. }
  intros bs x r c. unfold cbind. destruct (inner bs) as [[[v r1]|er] c1] eqn:E; [|discriminate].
  unfold cret. intros H. assert (x = (v + lo)%Z) by congruence. subst x.
  pose proof (Hin bs v r1 c1 E). cbv beta in *. lia.
Qed.

Definition cwn_nmax (lo hi : Z) (nbits : nat) : N :=
  Z.to_N (lo + 2 ^ Z.of_nat (cwn_width lo hi nbits) - 1).

(** a loop whose count comes from a constrained whole number, with a reader
    [mid] (an alignment, or nothing) between the count and the loop *)
Definition kp_count (lo hi : Z) (nbits : nat) (kmid x : abw) : abw :=
  kseq (k_cwn lo hi nbits) (kseq kmid (k_rep (0 <? lo)%Z (cwn_nmax lo hi nbits) x)).

Lemma Cost_p_count {A B} lo hi nbits kmid (mid : Z -> creader unit) x (rd : creader A)
      (g : list A -> creader B) :
  (forall n, Cost kmid (mid n)) -> Cost x rd -> (forall l, Cost kret (g l)) ->
  Cost (kp_count lo hi nbits kmid x)
       (dc* n <- c_r_cwn lo hi nbits; dc* _ <- mid n; dc* vs <- c_read_n (Z.to_nat n) rd; g vs).
Proof.
  intros Hmid H Hg. unfold kp_count.
  eapply (Cost_bind_post _ _ _ _ _ (Cost_r_cwn lo hi nbits) (Post_r_cwn lo hi nbits)).
  intros n Hn. cbv beta in Hn. apply Cost_bind; [apply Hmid|]. intros _.
  eapply Cost_weaken; [apply kle_seq_ret|]. apply Cost_bind; [|exact Hg].
  apply Cost_read_n; [exact H | unfold cwn_nmax; lia | lia].
Qed.

Lemma Cost_p_count0 {A B} lo hi nbits x (rd : creader A) (g : list A -> creader B) :
  Cost x rd -> (forall l, Cost kret (g l)) ->
  Cost (kp_count lo hi nbits kret x)
       (dc* n <- c_r_cwn lo hi nbits; dc* vs <- c_read_n (Z.to_nat n) rd; g vs).
Proof.
  intros H Hg. unfold kp_count.
  eapply (Cost_bind_post _ _ _ _ _ (Cost_r_cwn lo hi nbits) (Post_r_cwn lo hi nbits)).
  intros n Hn. cbv beta in Hn.
  eapply Cost_weaken; [|apply Cost_bind; [apply (Cost_read_n x rd (0 <? lo)%Z (cwn_nmax lo hi nbits));
                                         [exact H | unfold cwn_nmax; lia | lia]|exact Hg]].
  unfold kle, kseq, kret; cbn [ka kb kw]. repeat split; lia.
Qed.

Definition kp_fixed (lo : Z) (kmid x : abw) : abw := kseq kmid (k_rep (0 <? lo)%Z (Z.to_N lo) x).

Lemma Cost_p_fixed {A B} lo kmid (mid : creader unit) x (rd : creader A) (g : list A -> creader B) :
  Cost kmid mid -> Cost x rd -> (forall l, Cost kret (g l)) ->
  Cost (kp_fixed lo kmid x) (dc* _ <- mid; dc* vs <- c_read_n (Z.to_nat lo) rd; g vs).
Proof.
  intros Hmid H Hg. unfold kp_fixed. apply Cost_bind; [exact Hmid|]. intros _.
  eapply Cost_weaken; [apply kle_seq_ret|]. apply Cost_bind; [|exact Hg].
  apply Cost_read_n; [exact H | lia | lia].
Qed.

Lemma Cost_p_fixed0 {A B} lo x (rd : creader A) (g : list A -> creader B) :
  Cost x rd -> (forall l, Cost kret (g l)) ->
  Cost (kp_fixed lo kret x) (dc* vs <- c_read_n (Z.to_nat lo) rd; g vs).
Proof.
  intros H Hg. unfold kp_fixed.
  eapply Cost_weaken; [|apply Cost_bind; [apply (Cost_read_n x rd (0 <? lo)%Z (Z.to_N lo)); [exact H|lia|lia]|exact Hg]].
  unfold kle, kseq, kret; cbn [ka kb kw]. repeat split; lia.
Qed.

(** ** Leaf types *)

Definition kp_int_root (c : intc) : abw :=
  match int_bounds c with
  | None => kseq (kprim false) k_unconstrained
  | Some (lo, hi) =>
    match p_int_indef lo hi with
    | None => k_cwn lo hi (p_int_nbits lo hi)
    | Some ib => kseq (k_cwn 0 (2 ^ Z.of_nat ib) ib) (kseq (kprim false) (ABW 2 0 false))
    end
  end.
Definition kp_int (c : intc) : abw :=
  if int_ext c then kseq (kprim true) (kalt (kseq (kprim false) k_unconstrained) (kp_int_root c))
  else kp_int_root c.

Lemma Cost_r_int_root c : Cost (kp_int_root c) (c_r_int_root c).
Proof.
  unfold c_r_int_root, kp_int_root. destruct (int_bounds c) as [[lo hi]|]; [|cost].
  destruct (p_int_indef lo hi) as [ib|]; [|apply Cost_r_cwn].
  apply Cost_bind; [apply Cost_r_cwn|]. intros nb. apply Cost_bind; [apply Cost_r_align|]. intros _.
  apply Cost_r_cwn_any.
Qed.

Lemma Cost_r_int c : Cost (kp_int c) (c_r_int c).
Proof.
  unfold c_r_int, kp_int. destruct (int_ext c); [|apply Cost_r_int_root].
  apply Cost_bind; [apply Cost_read_bit|]. intros b. apply Cost_if; [cost|apply Cost_r_int_root].
Qed.

Definition kp_bits (sz : size) : abw :=
  kseq (k_szext sz)
       (if size_unbound sz then kseq (kprim false) (k_frag (kprim true))
        else if negb (size_lo sz =? size_hi sz)%Z
             then kseq (k_cwn (size_lo sz) (size_hi sz) (size_nbits sz)) (kseq (kprim false) (kprim false))
             else kseq (if (size_lo sz >? 16)%Z then kprim false else kret) (kprim false)).

Lemma Cost_r_bitstring sz : Cost (kp_bits sz) (c_r_bitstring sz).
Proof.
  unfold c_r_bitstring, kp_bits. apply Cost_bind; [apply Cost_szext|]. intros _.
  destruct (size_unbound sz).
  - apply Cost_bind; [apply Cost_r_align|]. intros _.
    eapply Cost_weaken; [apply kle_seq_ret|]. apply Cost_bind; [|intros; apply Cost_ret].
    apply Cost_read_frag_auto, Cost_read_bit.
  - destruct (negb (size_lo sz =? size_hi sz)%Z).
    + apply Cost_bind; [apply Cost_r_cwn|]. intros n. apply Cost_bind; [apply Cost_r_align|]. intros _.
      eapply Cost_weaken; [|cost]. kle_solve.
    + apply Cost_bind; [destruct (size_lo sz >? 16)%Z; cost|]. intros _.
      eapply Cost_weaken; [|cost]. kle_solve.
Qed.

(** arrays of [x]-elements: OCTET STRING ([mid] = the alignments) and SEQUENCE OF *)
Definition kp_array (sz : size) (kmidv kmidf x : abw) : abw :=
  let normal :=
      if size_unbound sz then kseq (kprim false) (k_frag x)
      else if negb (size_lo sz =? size_hi sz)%Z
           then kp_count (size_lo sz) (size_hi sz) (size_nbits sz) kmidv x
           else kp_fixed (size_lo sz) kmidf x in
  if size_ext sz then kseq (kprim true) (kalt (kseq (kprim false) (k_frag x)) normal) else normal.

Definition kp_octets (sz : size) : abw :=
  kp_array sz (kprim false) (if (size_hi sz <=? 2)%Z then kret else kprim false) (kprim true).

Lemma Cost_r_octets sz : Cost (kp_octets sz) (c_r_octets sz).
Proof.
  unfold c_r_octets, kp_octets, kp_array. cbv zeta.
  set (knormal := if size_unbound sz then _ else _).
  set (normal := if size_unbound sz then _ else _).
  assert (Hn : Cost knormal normal).
  { unfold normal, knormal. destruct (size_unbound sz).
    - apply Cost_bind; [apply Cost_r_align|]. intros _.
      eapply Cost_weaken; [apply kle_seq_ret|]. apply Cost_bind; [|intros; apply Cost_ret].
      apply Cost_read_frag_auto, Cost_read_byte.
    - destruct (negb (size_lo sz =? size_hi sz)%Z).
      + apply (Cost_p_count _ _ _ _ (fun _ => c_r_align) _ c_read_byte (fun bs => cret (VBytes bs)));
          [intros; apply Cost_r_align | apply Cost_read_byte | intros; apply Cost_ret].
      + apply (Cost_p_fixed _ _ _ _ c_read_byte (fun bs => cret (VBytes bs)));
          [destruct (size_hi sz <=? 2)%Z; cost | apply Cost_read_byte | intros; apply Cost_ret]. }
  destruct (size_ext sz); [|exact Hn].
  apply Cost_bind; [apply Cost_read_bit|]. intros b. apply Cost_if; [|exact Hn].
  apply Cost_bind; [apply Cost_r_align|]. intros _.
  eapply Cost_weaken; [apply kle_seq_ret|]. apply Cost_bind; [|intros; apply Cost_ret].
  apply Cost_read_frag_auto, Cost_read_byte.
Qed.

Definition kp_char (bpc : nat) : abw := kprim (0 <? bpc)%nat.

Lemma Cost_r_km_char a ident bpc : Cost (kp_char bpc) (c_r_km_char a ident bpc).
Proof. unfold c_r_km_char, kp_char. eapply Cost_weaken; [|cost]. kle_solve. Qed.

Definition kp_kmstring (k : strkind) (sz : size) (alpha : option (list Z)) : abw :=
  match p_km_params k alpha with
  | None => kfail
  | Some (_, _, bpc) =>
    kseq (k_szext sz)
         (if size_unbound sz then kseq (kprim false) (k_frag (kp_char bpc))
          else if negb (size_lo sz =? size_hi sz)%Z
               then kp_count (size_lo sz) (size_hi sz) (size_nbits sz) (kalt (kprim false) kret) (kp_char bpc)
               else kp_fixed (size_lo sz)
                             (if (size_hi sz * Z.of_nat bpc >? 16)%Z then kprim false else kret) (kp_char bpc))
  end.

Lemma Cost_r_kmstring k sz alpha : Cost (kp_kmstring k sz alpha) (c_r_kmstring k sz alpha).
Proof.
  unfold c_r_kmstring, kp_kmstring. destruct (p_km_params k alpha) as [[[a ident] bpc]|]; [|apply Cost_fail].
  apply Cost_bind; [apply Cost_szext|]. intros _. destruct (size_unbound sz).
  - apply Cost_bind; [apply Cost_r_align|]. intros _.
    eapply Cost_weaken; [apply kle_seq_ret|]. apply Cost_bind; [|intros; apply Cost_ret].
    apply Cost_read_frag_auto, Cost_r_km_char.
  - destruct (negb (size_lo sz =? size_hi sz)%Z).
    + apply (Cost_p_count _ _ _ _ (fun n => if (size_hi sz >? 1)%Z && (n >? 0)%Z then c_r_align else cret tt)
                          _ (c_r_km_char a ident bpc) (fun cs => cret (VStr cs)));
        [intros; apply Cost_if; [apply Cost_r_align|apply Cost_ret] | apply Cost_r_km_char | intros; apply Cost_ret].
    + apply (Cost_p_fixed _ _ _ _ (c_r_km_char a ident bpc) (fun cs => cret (VStr cs)));
        [destruct (size_hi sz * Z.of_nat bpc >? 16)%Z; cost | apply Cost_r_km_char | intros; apply Cost_ret].
Qed.

Definition kp_utf8 : abw := kseq (kprim false) k_utf8.
Lemma Cost_r_utf8 : Cost kp_utf8 c_r_utf8.
Proof. unfold c_r_utf8, kp_utf8. apply Cost_bind; [apply Cost_r_align|intros; apply Cost_read_utf8]. Qed.

Definition kp_oid : abw := kseq (kprim false) k_oid.
Lemma Cost_r_oid : Cost kp_oid c_r_oid.
Proof. unfold c_r_oid, kp_oid. apply Cost_bind; [apply Cost_r_align|intros; apply Cost_read_oid]. Qed.

(** ** Composite types *)

Section KPComposite.
  Variable kT : ty -> abw.

  Definition kp_additions (adds : list (addition_of ty)) : abw :=
    kseq k_small_len (kseq (kprim false) (kseq (kprim false) (k_dec_adds kT adds))).

  Definition kp_seq (root : list (member_of ty)) (ext : option (list (addition_of ty))) : abw :=
    match ext with
    | None => k_root kT root
    | Some adds => kseq (kprim true) (kseq (k_root kT root) (kopt (kp_additions adds)))
    end.

  Definition kp_seqof (elem : ty) (sz : size) : abw := kp_array sz kret kret (kT elem).

  Definition kp_choice_root (root : list (member_of ty)) : abw :=
    kseq (if (1 <? length root)%nat
          then k_cwn 0 (Z.of_nat (length root) - 1) (choice_root_bits root) else kret)
         (kmax_alts kT root).

  Definition kp_choice (root : list (member_of ty)) (ext : option (list (member_of ty))) : abw :=
    match ext with
    | None => kp_choice_root root
    | Some adds =>
      kseq (kprim true)
           (kalt (kp_choice_root root)
                 (kseq k_small_nonneg
                       (kseq (kprim false)
                             (kseq k_read_len (kopt (kseq (kmax_alts kT adds) (kprim false)))))))
    end.
End KPComposite.

Section PCostComposite.
  Variable decT : ty -> creader value.
  Variable kT : ty -> abw.
  Hypothesis HT : forall t, Cost (kT t) (decT t).

  Lemma Cost_pd_additions adds (g : list (string * value) -> creader value) :
    (forall l, Cost kret (g l)) ->
    Cost (kp_additions kT adds)
         (dc* n <- c_read_small_len; dc* pres <- c_read_raw (Z.to_nat n); dc* _ <- c_r_align;
          dc* more <- c_dec_adds decT pres adds; g more).
  Proof.
    intros Hg. unfold kp_additions.
    eapply (Cost_bind_post _ _ _ _ _ Cost_read_small_len Post_read_small_len).
    intros n Hn. cbv beta in Hn.
    apply (Cost_bind_post (fun x : bits => length x = Z.to_nat n)).
    - eapply Cost_weaken; [apply kle_prim_false|apply Cost_read_raw].
    - apply Post_read_raw.
    - intros pres Hp. apply Cost_bind; [apply Cost_r_align|]. intros _.
      eapply Cost_weaken; [apply kle_seq_ret|]. apply Cost_bind; [|exact Hg].
      eapply Cost_weaken; [|apply (Cost_dec_adds decT kT HT _ _ pres adds (N.le_refl _) (N.le_refl _))].
      unfold k_dec_adds, kle; cbn [ka kb kw]. repeat split; lia.
  Qed.

  Lemma Cost_pd_seq root ext : Cost (kp_seq kT root ext) (c_pd_seq decT root ext).
  Proof.
    unfold c_pd_seq, kp_seq. destruct ext as [adds|].
    - apply Cost_bind; [apply Cost_read_bit|]. intros b.
      apply Cost_bind; [apply (Cost_dec_root decT kT HT)|]. intros fs. destruct b.
      + eapply Cost_weaken; [|apply (Cost_pd_additions adds (fun more => cret (VSeq (fs ++ more)))); intros; apply Cost_ret].
        unfold kopt. kle_solve.
      + eapply Cost_weaken; [|apply Cost_ret]. unfold kopt. kle_solve.
    - eapply Cost_weaken; [apply kle_seq_ret|].
      apply Cost_bind; [apply (Cost_dec_root decT kT HT)|intros; apply Cost_ret].
  Qed.

  Lemma Cost_pd_seqof elem sz : Cost (kp_seqof kT elem sz) (c_pd_seqof decT elem sz).
  Proof.
    unfold c_pd_seqof, kp_seqof, kp_array. cbv zeta.
    set (knormal := if size_unbound sz then _ else _).
    set (normal := if size_unbound sz then _ else _).
    assert (Hn : Cost knormal normal).
    { unfold normal, knormal. destruct (size_unbound sz).
      - apply Cost_bind; [apply Cost_r_align|]. intros _.
        eapply Cost_weaken; [apply kle_seq_ret|]. apply Cost_bind; [|intros; apply Cost_ret].
        apply Cost_read_frag_auto, HT.
      - destruct (negb (size_lo sz =? size_hi sz)%Z).
        + apply (Cost_p_count0 _ _ _ _ (decT elem) (fun vs => cret (VList vs))); [apply HT|intros; apply Cost_ret].
        + apply (Cost_p_fixed0 _ _ (decT elem) (fun vs => cret (VList vs))); [apply HT|intros; apply Cost_ret]. }
    destruct (size_ext sz); [|exact Hn].
    apply Cost_bind; [apply Cost_read_bit|]. intros b. apply Cost_if; [|exact Hn].
    apply Cost_bind; [apply Cost_r_align|]. intros _.
    eapply Cost_weaken; [apply kle_seq_ret|]. apply Cost_bind; [|intros; apply Cost_ret].
    apply Cost_read_frag_auto, HT.
  Qed.

  Lemma Cost_pd_choice_root root : Cost (kp_choice_root kT root) (c_pd_choice_root decT root).
  Proof.
    unfold c_pd_choice_root, kp_choice_root. apply Cost_bind.
    - destruct (1 <? length root)%nat; [apply Cost_r_cwn|apply Cost_ret].
    - intros i. destruct (nth_z root i) as [m|] eqn:En.
      + eapply Cost_weaken; [apply kle_seq_ret|].
        apply (Cost_alt decT kT HT root i (fun m v => cret (VChoice (m_name m) v)) kret);
          [intros; apply Cost_ret|exact En].
      + eapply Cost_weaken; [|apply Cost_fail]. kle_solve.
  Qed.

  Lemma Cost_pd_choice root ext : Cost (kp_choice kT root ext) (c_pd_choice decT root ext).
  Proof.
    unfold c_pd_choice, kp_choice. destruct ext as [adds|]; [|apply Cost_pd_choice_root].
    apply Cost_bind; [apply Cost_read_bit|]. intros b. apply Cost_if; [apply Cost_pd_choice_root|].
    apply Cost_bind; [apply Cost_read_small_nonneg|]. intros i.
    apply Cost_bind; [apply Cost_r_align|]. intros _.
    apply Cost_bind; [apply Cost_read_len|]. intros len. cbv zeta.
    destruct (nth_z adds i) as [m|] eqn:En.
    - eapply Cost_weaken; [|apply Cost_bind].
      3:{ intros [v consumed]. eapply (Cost_if kfail (kseq (kprim false) kret)); [apply Cost_fail|].
          apply Cost_bind; [|intros; apply Cost_ret].
          eapply Cost_weaken; [apply kle_prim_false|apply Cost_skip_bits]. }
      2:{ apply Cost_with_consumed.
          eapply Cost_weaken; [apply (kle_kmax_In kT adds m), (nth_z_In _ _ _ En)|apply HT]. }
      unfold kopt, kle, kseq, kalt, kprim, kret, kfail; cbn [ka kb kw]. repeat split; lia.
    - eapply Cost_weaken; [|cost]. unfold kopt. kle_solve.
  Qed.
End PCostComposite.

Fixpoint Kpabw (e : env) (fuel : nat) (t : ty) {struct fuel} : abw :=
  match fuel with
  | O => ktick 1 kfail
  | S f =>
    ktick 1 (
    match t with
    | TBool => kprim true
    | TNull => kret
    | TInt c => kp_int c
    | TEnum root ext => k_enum root ext
    | TBits _ sz => kp_bits sz
    | TOctets sz => kp_octets sz
    | TStr SkUTF8 _ _ => kp_utf8
    | TStr k sz alpha => kp_kmstring k sz alpha
    | TOid => kp_oid
    | TSeq _ root ext => kp_seq (Kpabw e f) root ext
    | TSeqOf _ elem sz => kp_seqof (Kpabw e f) elem sz
    | TChoice root ext => kp_choice (Kpabw e f) root ext
    | TRef n => match lookup n e with Some t' => Kpabw e f t' | None => kfail end
    | TTag _ t' => Kpabw e f t'
    end)
  end.

(** the constant of the aligned-PER bound *)
Definition Kp (e : env) (fuel : nat) (t : ty) : N := ka (Kpabw e fuel t) + kb (Kpabw e fuel t).

Theorem Cost_pdec numeric e fuel : forall t, Cost (Kpabw e fuel t) (pdec_cost numeric e fuel t).
Proof.
  induction fuel as [|f IH]; intros t; cbn [pdec_cost Kpabw]; apply Cost_tick; [apply Cost_fail|].
  destruct t.
  - eapply Cost_weaken; [apply kle_seq_ret|]. cost.
  - apply Cost_ret.
  - eapply Cost_weaken; [apply kle_seq_ret|]. apply Cost_bind; [apply Cost_r_int|intros; apply Cost_ret].
  - apply Cost_read_enum.
  - apply Cost_r_bitstring.
  - apply Cost_r_octets.
  - destruct k; first [apply Cost_r_utf8 | apply Cost_r_kmstring].
  - apply Cost_r_oid.
  - apply Cost_pd_seq, IH.
  - apply Cost_pd_seqof, IH.
  - apply Cost_pd_choice, IH.
  - destruct (lookup name e); [apply IH|apply Cost_fail].
  - apply IH.
Qed.

Theorem pdec_cost_bound_ab numeric e fuel t inp :
  snd (pdec_cost numeric e fuel t inp)
  <= ka (Kpabw e fuel t) + kb (Kpabw e fuel t) * N.of_nat (length inp).
Proof.
  pose proof (Cost_pdec numeric e fuel t inp) as H.
  destruct (pdec_cost numeric e fuel t inp) as [[[v r]|x] c]; cbn [snd]; [|exact H].
  destruct H as (L & C & _).
  pose proof (N.mul_le_mono_l (N.of_nat (length inp - length r)) (N.of_nat (length inp))
                              (kb (Kpabw e fuel t)) ltac:(lia)). lia.
Qed.

Theorem pdec_cost_bound_consumed numeric e fuel t inp v rest c :
  pdec_cost numeric e fuel t inp = (Ok (v, rest), c) ->
  (length rest <= length inp)%nat /\
  c <= ka (Kpabw e fuel t) + kb (Kpabw e fuel t) * N.of_nat (length inp - length rest).
Proof.
  intros E. pose proof (Cost_pdec numeric e fuel t inp) as H. rewrite E in H. tauto.
Qed.

(** THE WORK BOUND for aligned PER: any input, success or error. *)
Theorem pdec_cost_bound numeric e fuel t inp :
  snd (pdec_cost numeric e fuel t inp) <= Kp e fuel t * (N.of_nat (length inp) + 1).
Proof.
  pose proof (pdec_cost_bound_ab numeric e fuel t inp) as H. unfold Kp.
  set (a := ka (Kpabw e fuel t)) in *. set (b := kb (Kpabw e fuel t)) in *. nia.
Qed.

Theorem per_decode_cost_bound numeric fuel e t data :
  snd (per_decode_cost numeric fuel e t data) <= Kp e fuel t * (8 * N.of_nat (length data) + 1).
Proof.
  unfold per_decode_cost.
  pose proof (pdec_cost_bound numeric e fuel t (bytes_to_bits data)) as H.
  rewrite bytes_to_bits_len in H.
  replace (N.of_nat (8 * length data)) with (8 * N.of_nat (length data)) in H by lia.
  destruct (pdec_cost numeric e fuel t (bytes_to_bits data)) as [[[v r]|x] c]; exact H.
Qed.

(** * 3. Fuel stability for acyclic specifications *)

Section PAgree.
  Variable P : ty -> bool.
  Variables kT1 kT2 : ty -> abw.
  Hypothesis Hag : forall t, P t = true -> kT1 t = kT2 t.

  Let ms_ok (ms : list (member_of ty)) := forallb (fun m => P (m_ty m)) ms.

  Lemma kp_seq_agree root ext :
    ms_ok root && match ext with
                  | None => true
                  | Some adds => forallb (fun ad : addition_of ty => ms_ok (snd ad)) adds
                  end = true ->
    kp_seq kT1 root ext = kp_seq kT2 root ext.
  Proof.
    intros H. apply andb_prop in H. destruct H as [H1 H2]. unfold kp_seq.
    rewrite (k_root_agree P kT1 kT2 Hag root H1). destruct ext as [adds|]; [|reflexivity].
    unfold kp_additions, k_dec_adds. destruct (k_adds_agree P kT1 kT2 Hag adds H2) as [-> ->]. reflexivity.
  Qed.

  Lemma kp_choice_agree root ext :
    ms_ok root && match ext with None => true | Some adds => ms_ok adds end = true ->
    kp_choice kT1 root ext = kp_choice kT2 root ext.
  Proof.
    intros H. apply andb_prop in H. destruct H as [H1 H2]. unfold kp_choice, kp_choice_root.
    rewrite (kmax_alts_agree P kT1 kT2 Hag root H1). destruct ext as [adds|]; [|reflexivity].
    rewrite (kmax_alts_agree P kT1 kT2 Hag adds H2). reflexivity.
  Qed.
End PAgree.

Lemma Kpabw_fuel_stable e d : forall t fuel,
  fits e d t = true -> (d <= fuel)%nat -> Kpabw e fuel t = Kpabw e d t.
Proof.
  induction d as [|d IH]; intros t fuel Hf Hle; [discriminate|].
  destruct fuel as [|f]; [lia|]. assert (Hle' : (d <= f)%nat) by lia.
  assert (Hag : forall t', fits e d t' = true -> Kpabw e f t' = Kpabw e d t') by (intros; apply IH; assumption).
  cbn [Kpabw]. f_equal. cbn [fits] in Hf. destruct t; try reflexivity.
  - apply (kp_seq_agree (fits e d)); assumption.
  - unfold kp_seqof. rewrite (Hag _ Hf). reflexivity.
  - apply (kp_choice_agree (fits e d)); assumption.
  - destruct (lookup name e); [apply Hag, Hf|reflexivity].
  - apply Hag, Hf.
Qed.

Theorem Kp_fuel_stable e d t fuel :
  fits e d t = true -> (d <= fuel)%nat -> Kp e fuel t = Kp e d t.
Proof. intros Hf Hle. unfold Kp. rewrite (Kpabw_fuel_stable e d t fuel Hf Hle). reflexivity. Qed.

Theorem pdec_cost_bound_acyclic numeric e d t fuel inp :
  fits e d t = true -> (d <= fuel)%nat ->
  snd (pdec_cost numeric e fuel t inp) <= Kp e d t * (N.of_nat (length inp) + 1).
Proof. intros Hf Hle. rewrite <- (Kp_fuel_stable e d t fuel Hf Hle). apply pdec_cost_bound. Qed.

(** ** Non-vacuity: the constant of the fixed-size-array type and of
    SEQUENCE OF NULL (the factor 8192 per bit as in UPER), and hostile inputs *)
Local Close Scope N_scope.
Local Open Scope string_scope.

Definition parr_ty : ty :=
  TSeq false
    [("m", TSeqOf false (TSeqOf false TBool (SzRange 8 (Some 8) false)) (SzRange 4 (Some 4) false), Mandatory);
     ("n", TSeqOf false TNull (SzRange 100 (Some 100) false), Mandatory);
     ("o", TOctets (SzRange 16 (Some 16) false), Mandatory);
     ("z", TSeqOf false TNull SzNone, Optional)] None.

Example Kp_parr_ty :
  fits [] 4 parr_ty = true /\ Kpabw [] 4 parr_ty = ABW 223%N 16385%N true /\
  Kpabw [] 2 (TSeqOf false TNull SzNone) = ABW 5%N 16385%N true.
Proof. vm_compute. repeat split; reflexivity. Qed.

(** measured: two 16K-fragments of NULLs (3 octets: 65544 steps, within
    16390 * 25); the array type on 24 octets (a presence bit, the arrays, the
    aligned 16-octet string, two fragments of NULLs): 65891 steps, within
    16608 * 193; 30 octets 0xFF: an error after 351 steps *)
Example per_measured :
  snd (per_decode_cost false 5 [] (TSeqOf false TNull SzNone) [193; 193; 0]) = 65544%N /\
  Kp [] 2 (TSeqOf false TNull SzNone) = 16390%N /\
  snd (per_decode_cost false 5 [] parr_ty (repeat 255 21 ++ [193; 193; 0])%list) = 65891%N /\
  Kp [] 4 parr_ty = 16608%N /\
  per_decode_cost false 5 [] parr_ty (repeat 255 30) = (Err EDecode, 351%N).
Proof. vm_compute. repeat split; reflexivity. Qed.

Print Assumptions pdec_cost_erases.
Print Assumptions per_decode_cost_erases.
Print Assumptions pdec_cost_bound.
Print Assumptions pdec_cost_bound_consumed.
Print Assumptions per_decode_cost_bound.
Print Assumptions Kp_fuel_stable.
Print Assumptions pdec_cost_bound_acyclic.
