(** C20 — GSER output is well-formed value notation that determines the value.
    Statements only; proofs live in Gser/LexProofs.v and Gser/GserProofs.v.

    Objects:  [encode] / [enc]  model of asn1tools/codecs/gser.py (Gser/GserImpl.v, REPAIRED
                                behaviour: quotes doubled, empty BIT STRING written as ''B);
              [read_top] / [read_val]  independent RFC 3641 reader (Gser/Gser3641.v);
              [norm]      the abstract value (members in type order, DEFAULTs filled in,
                          BIT STRING reduced to its nbits bits);
              [in_scope]  decidable scope (Gser/GserSpec.v).

    The theorems carry the suffix _partial because the shared universe has no REAL, time,
    ANY or EXTERNAL types and [numeric_enums=True] is not modelled:
    (* OPEN: for EVERY type the library compiles and every value its type checker accepts,
       read (encode v) = Some (abstract v); in particular REAL (PLUS-INFINITY,
       MINUS-INFINITY, 0, and finite values printed with repr(float), which yields
       malformed realnumber tokens such as 1e+16E0 — see known_findings/C20.json),
       UTCTime/GeneralizedTime/DATE/TIME-OF-DAY/DATE-TIME, ANY, EXTERNAL. These are
       covered by the property test of harness/c20.py only. *) *)
From Asn1V Require Import Base.Prelude Syntax.Asn1 Gser.Chars Gser.GserImpl Gser.Gser3641
     Gser.GserSpec Gser.LexProofs Gser.GserProofs Gser.Vectors Gser.NormFacts.

(** Top level, both layouts.  For every dialect [d] that admits white space around the CHOICE
    colon and, when an indent is given, line feeds as white space: the encoder succeeds on
    every in-scope value and the reader, given exactly the emitted text, consumes all of it
    and returns the abstract value.  With [indent = None] this includes the reader whose
    white space is the RFC's (spaces only). *)
Theorem C20_gser_readback_partial :
  forall d n e name t v indent,
    layout_ok d indent -> is_typeref name = true -> in_scope n e t v = true ->
    exists tx, encode n e name t v indent = Ok tx /\
               read_top d n e name t tx = Some (norm n e t v).
Proof. exact readback_top. Qed.
Print Assumptions C20_gser_readback_partial.

(** Value level, any separator made of white space and any indentation width (so every nesting
    depth of either layout): the value's text starts with a non-delimiter and the reader,
    applied to the text followed by anything that can follow a value (end of text, white
    space, comma, closing brace), returns the abstract value and exactly that remainder. *)
Theorem C20_gser_readback_value_partial :
  forall d e n t v sep ind,
    d_colon_sp d = true -> in_scope n e t v = true -> sep_ok d sep ->
    exists tx, enc n e t v sep ind = Ok tx /\ head_ok tx /\
      forall rest, follow_ok rest -> read_val d n e t (tx ++ rest) = Some (norm n e t v, rest).
Proof. intros d e n t v sep ind H. exact (agree_fuel d e n H t v sep ind). Qed.
Print Assumptions C20_gser_readback_value_partial.

(** Two in-scope values of one type that get the same text denote the same abstract value. *)
Theorem C20_gser_injective_partial :
  forall n e name t v1 v2 indent tx,
    is_typeref name = true -> in_scope n e t v1 = true -> in_scope n e t v2 = true ->
    encode n e name t v1 indent = Ok tx -> encode n e name t v2 indent = Ok tx ->
    norm n e t v1 = norm n e t v2.
Proof. exact injective_top. Qed.
Print Assumptions C20_gser_injective_partial.

(** The two departures of the library's text from the letter of RFC 3641 (recorded in
    known_findings/C20.json and notes/C20.md): the strict reader rejects the spaces around the
    CHOICE colon, and a reader with the RFC's white space rejects the indented layout. *)
Theorem C20_strict_choice_colon_refuted :
  exists e name t v tx,
    in_scope 5 e t v = true /\ encode 5 e name t v None = Ok tx /\
    read_top rfc3641_strict 5 e name t tx = None /\
    read_top rfc3641_colon 5 e name t tx = Some (norm 5 e t v).
Proof.
  exists [], "T"%string, (TChoice [(("a"%string, TNull), Mandatory)] None),
         (VChoice "a"%string VNone), (s2t "t T ::= a : NULL").
  vm_compute. repeat split; reflexivity.
Qed.
Print Assumptions C20_strict_choice_colon_refuted.

Theorem C20_strict_newline_refuted :
  exists e name t v tx,
    in_scope 5 e t v = true /\ encode 5 e name t v (Some 2%nat) = Ok tx /\
    read_top rfc3641_colon 5 e name t tx = None /\
    read_top x680_ws 5 e name t tx = Some (norm 5 e t v).
Proof.
  exists [], "T"%string, (TSeq false [(("a"%string, TBool), Mandatory)] None),
         (VSeq [("a"%string, VBool true)]), (s2t "t T ::= {
  a TRUE
}").
  vm_compute. repeat split; reflexivity.
Qed.
Print Assumptions C20_strict_newline_refuted.

(** Sanity of the abstraction: a BIT STRING that fills its octets is its own abstract value
    (in general [norm] only clears the unused bits of the last octet). *)
Theorem C20_norm_whole_octets :
  forall bs, forallb is_byteb bs = true ->
    norm_bits bs (8 * Z.of_nat (length bs)) = VBits bs (8 * Z.of_nat (length bs)).
Proof. exact norm_bits_whole_octets. Qed.
Print Assumptions C20_norm_whole_octets.

(** Non-vacuity: a recursive CHOICE inside an extensible SEQUENCE with a DEFAULT, an absent
    OPTIONAL-free addition group, a string with an embedded quote and non-ASCII characters is
    in scope; its abstract value differs from the Python value only by the filled-in DEFAULT. *)
Example C20_hypotheses_inhabited :
  in_scope 20 ex_env (TRef "Outer"%string) ex_value = true /\
  is_typeref "Outer"%string = true /\ layout_ok x680_ws (Some 4%nat) /\ layout_ok rfc3641_colon None /\
  norm 20 ex_env (TRef "Outer"%string) ex_value = ex_abstract /\
  sep_ok rfc3641_colon [" "%char] /\ sep_ok x680_ws ("010"%char :: spaces 4).
Proof.
  repeat split; try reflexivity; try discriminate. congruence.
Qed.
Print Assumptions C20_hypotheses_inhabited.
