(** C03 — DER output is the unique X.690 distinguished encoding.
    Statements only; proofs live in Ber/DerRefine.v (and the leaf files
    Ber/BerLeafA.v, Ber/BerLeafB.v).  [DerImpl.der_encode] is the implementation
    model of asn1tools/codecs/der.py+ber.py (tied to /repo by harness/c03.py),
    [X690.der_encode] the independent specification of the distinguished
    encoding (Ber/X690.v), [scope_enc] the decidable scope predicate of
    Ber/BerScope.v. *)
From Asn1V Require Import Base.Prelude Syntax.Asn1 Ber.X690 Ber.BerScope Ber.DerImpl Ber.DerRefine
     Ber.X690Canon Ber.DerCanon Ber.BerTrunc Ber.BerImpl Ber.X690Read Ber.BerAcceptBase Ber.BerAccept Ber.DerBer
     Ber.DerAccept.

(** Whenever X.690 defines the distinguished encoding [bs] of [v] (definite
    minimal lengths, minimal tag and integer octets, primitive strings, TRUE =
    FF, unused bits zero, named-bit trailing zeros removed, DEFAULT-valued
    components omitted, SET components in tag order, SET OF elements in
    encoding order), the encoder model returns exactly [bs].  For every type in
    scope, every value, both numeric_enums settings, any fuel that suffices for
    the specification; encodings below 2^1008 octets. *)
Theorem C03_der_refines_x690 :
  forall numeric e fuel t v bs,
    scope_enc numeric e fuel t = true ->
    X690.der_encode numeric e fuel t v = Some bs ->
    small bs ->
    DerImpl.der_encode numeric fuel e t v = Ok bs.
Proof. exact der_refines_x690. Qed.
Print Assumptions C03_der_refines_x690.

(** Two equal abstract values always encode to identical bytes.  [veq]
    (Ber/X690Canon.v): an absent root component equals one present with its
    DEFAULT value, bit strings are equal modulo unused bits (named-bit strings
    modulo trailing zero bits), SET OF values are equal as multisets, the order
    of the fields of a SEQUENCE value and unknown field names do not matter
    (for extension additions presence must agree: a value with an addition
    present after an absent mandatory one has no encoding). *)
Theorem C03_der_canonical :
  forall numeric e fuel t v1 v2 bs,
    scope_enc numeric e fuel t = true ->
    veq e fuel t v1 v2 ->
    X690.der_encode numeric e fuel t v1 = Some bs -> small bs ->
    DerImpl.der_encode numeric fuel e t v1 = Ok bs /\ DerImpl.der_encode numeric fuel e t v2 = Ok bs.
Proof. exact der_canonical. Qed.
Print Assumptions C03_der_canonical.

(** the same on the specification alone: abstractly equal values have the same
    distinguished encoding *)
Theorem C03_x690_canonical :
  forall numeric e fuel t v1 v2 bs,
    scope_enc numeric e fuel t = true -> veq e fuel t v1 v2 ->
    X690.der_encode numeric e fuel t v1 = Some bs -> X690.der_encode numeric e fuel t v2 = Some bs.
Proof. exact x690_canonical. Qed.
Print Assumptions C03_x690_canonical.

(** [veq] relates different concrete values (DEFAULT present / absent, named
    bits with trailing zeros, SET OF in two orders) *)
Example C03_veq_nontrivial :
  ex_seq_v1 <> ex_seq_v2 /\ veq [] 2 ex_seq ex_seq_v1 ex_seq_v2 /\
  VBits [128] 1 <> VBits [128] 3 /\ veq [] 1 ex_bits (VBits [128] 1) (VBits [128] 3) /\
  VList [VInt 2; VInt 1] <> VList [VInt 1; VInt 2] /\
  veq [] 2 ex_setof (VList [VInt 2; VInt 1]) (VList [VInt 1; VInt 2]).
Proof.
  destruct ex_seq_veq as (A & _ & B & _). destruct ex_bits_veq as (C & D & _). destruct ex_setof_veq as (E & F & _).
  exact (conj A (conj B (conj C (conj D (conj E F))))).
Qed.
Print Assumptions C03_veq_nontrivial.

(** The DER output is a BER encoding with the same meaning: it is the octets of
    a well-formed BER tree that the X.690 reader reads as [norm v] (the value with
    DEFAULTs filled in, fields in declaration order, named bits cleaned, SET OF
    in encoding order) ... *)
Theorem C03_der_is_ber :
  forall numeric e fuel t v bs,
    in_scope numeric e fuel t = true ->
    X690.der_encode numeric e fuel t v = Some bs -> small bs ->
    DerImpl.der_encode numeric fuel e t v = Ok bs /\
    exists nv, norm numeric e fuel t v = Some nv /\ ber_sem_at numeric e fuel t bs nv.
Proof. exact der_is_ber. Qed.
Print Assumptions C03_der_is_ber.

(** ... and the BER decoder model, given those octets followed by any tail,
    returns exactly that normal form and stops behind them *)
Theorem C03_der_ber_roundtrip :
  forall numeric e fuel t v bs,
    in_scope numeric e fuel t = true -> compiles e fuel t = true ->
    X690.der_encode numeric e fuel t v = Some bs -> small bs ->
    exists nv, norm numeric e fuel t v = Some nv /\
               DerImpl.der_encode numeric fuel e t v = Ok bs /\
               forall tail, BerImpl.ber_decode numeric fuel e t (bs ++ tail) = Ok (nv, length bs).
Proof. exact der_ber_roundtrip. Qed.
Print Assumptions C03_der_ber_roundtrip.

(** round trip through the DER decoder classes of der.py (C01, DER) *)
Theorem C03_der_roundtrip :
  forall numeric e fuel t v bs,
    in_scope numeric e fuel t = true -> compiles_der e fuel t = true ->
    X690.der_encode numeric e fuel t v = Some bs -> small bs ->
    exists nv, norm numeric e fuel t v = Some nv /\
               DerImpl.der_encode numeric fuel e t v = Ok bs /\
               forall tail, DerImpl.der_decode numeric fuel e t (bs ++ tail) = Ok (nv, length bs).
Proof. exact der_roundtrip. Qed.
Print Assumptions C03_der_roundtrip.

(** every strict prefix of a DER encoder output is rejected with a decode error *)
Theorem C03_der_truncation :
  forall numeric e fuel t v bs k,
    scope_enc numeric e fuel t = true -> scope_dec e fuel t = true -> compiles_g true e fuel t = true ->
    DerImpl.der_encode numeric fuel e t v = Ok bs -> BerTrunc.small bs -> (k < length bs)%nat ->
    exists err, DerImpl.der_decode numeric fuel e t (firstn k bs) = Err err /\ is_decode_error err = true.
Proof. exact der_truncation. Qed.
Print Assumptions C03_der_truncation.

(** Non-vacuity: a SET with an extension addition, tags of three classes (one
    >= 31, EXPLICIT), a DEFAULT component given with its default value, a
    named-bit string with trailing zero bits and a SET OF out of order satisfy
    the hypotheses; the encoding is sorted, stripped and free of the default. *)
Definition C03_env : env :=
  [("Flags"%string, TBits (Some [("a"%string, 0); ("b"%string, 3)]) SzNone)].
Definition C03_ty : ty :=
  TSeq true
    [("z"%string, TTag (mkTag Ctx 1 false) (TInt IcNone), Mandatory);
     ("d"%string, TTag (mkTag Ctx 0 false) TBool, Default (VBool true));
     ("f"%string, TTag (mkTag Priv 2 false) (TRef "Flags"%string), Optional)]
    (Some [(false, [("s"%string, TTag (mkTag Appl 31 true) (TSeqOf true (TInt IcNone) SzNone), Optional)])]).
Definition C03_val : value :=
  VSeq [("s"%string, VList [VInt 300; VInt (-1); VInt 5]); ("z"%string, VInt 128);
        ("d"%string, VBool true); ("f"%string, VBits [144; 0] 12)].
Example C03_hypotheses_inhabited :
  scope_enc false C03_env 10 C03_ty = true /\
  X690.der_encode false C03_env 10 C03_ty C03_val =
    Some (hex "31177f1f0c310a0201050201ff0202012c81020080c2020490"%string) /\
  small (hex "31177f1f0c310a0201050201ff0202012c81020080c2020490"%string).
Proof. split; [vm_compute; reflexivity|]. split; [vm_compute; reflexivity|]. unfold small. vm_compute. reflexivity. Qed.
Print Assumptions C03_hypotheses_inhabited.

(** ------------------------------------------------------------------
    SET OF order, X.690 11.6 read literally (Ber/X690SetOf.v): the order the
    specification produces is ascending when the shorter encoding is padded with
    0-octets at its trailing end, and for prefix-free element encodings it is
    the ONLY ascending arrangement - sort keys such as "length first", "contents
    only" or "tag number" are separated from it by the examples of that file. *)
From Asn1V Require Ber.X690SetOf.

Theorem C03_setof_sort_ascending : ltac:(let T := type of Asn1V.Ber.X690SetOf.sort_ascending in exact T).
Proof. exact Asn1V.Ber.X690SetOf.sort_ascending. Qed.
Print Assumptions C03_setof_sort_ascending.

Theorem C03_setof_ascending_unique : ltac:(let T := type of Asn1V.Ber.X690SetOf.setof_ascending_unique in exact T).
Proof. exact Asn1V.Ber.X690SetOf.setof_ascending_unique. Qed.
Print Assumptions C03_setof_ascending_unique.

(** ------------------------------------------------------------------
    REAL (Ber/Real.v models ber.encode_real / decode_real on exact dyadic
    reals; tied to /repo by harness/real_model.py on every binary exponent):
    for EVERY finite non-zero double the DER contents are X.690 11.3 canonical -
    base 2, scaling 0, odd mantissa without a leading zero octet, exponent in the
    fewest octets - and two doubles with the same contents are the same double
    (up to the sign of zero: open finding real-minus-zero).  The arithmetic
    before repair 7cb3c45 is refuted by 255.0. *)
From Asn1V Require Ber.Real Ber.RealProofs.

Theorem C03_der_real_canonical : ltac:(let T := type of Asn1V.Ber.RealProofs.der_real_canonical in exact T).
Proof. exact Asn1V.Ber.RealProofs.der_real_canonical. Qed.
Print Assumptions C03_der_real_canonical.

Theorem C03_real_encode_injective : ltac:(let T := type of Asn1V.Ber.RealProofs.real_encode_injective in exact T).
Proof. exact Asn1V.Ber.RealProofs.real_encode_injective. Qed.
Print Assumptions C03_real_encode_injective.

Example C03_der_real_canonical_pre_repair_refuted : ltac:(let T := type of Asn1V.Ber.RealProofs.der_real_canonical_pre_repair_refuted in exact T).
Proof. exact Asn1V.Ber.RealProofs.der_real_canonical_pre_repair_refuted. Qed.
Print Assumptions C03_der_real_canonical_pre_repair_refuted.

(** Tie to the SOURCE TEXT (coq/gen/PyBer.v regenerated from ber.py on every run):
    the regenerated identifier / length / integer / subidentifier encoders ARE the
    model functions, for all arguments. *)
From Asn1V Require Py.PyBerTie.

Theorem C03_src_encode_length_definite : ltac:(let T := type of Asn1V.Py.PyBerTie.py_encode_length_definite_eq in exact T).
Proof. exact Asn1V.Py.PyBerTie.py_encode_length_definite_eq. Qed.
Print Assumptions C03_src_encode_length_definite.

Theorem C03_src_encode_signed_integer : ltac:(let T := type of Asn1V.Py.PyBerTie.py_encode_signed_integer_eq in exact T).
Proof. exact Asn1V.Py.PyBerTie.py_encode_signed_integer_eq. Qed.
Print Assumptions C03_src_encode_signed_integer.

Theorem C03_src_encode_tag : ltac:(let T := type of Asn1V.Py.PyBerTie.py_encode_tag_eq in exact T).
Proof. exact Asn1V.Py.PyBerTie.py_encode_tag_eq. Qed.
Print Assumptions C03_src_encode_tag.

Theorem C03_src_encode_subidentifier : ltac:(let T := type of Asn1V.Py.PyBerTie.py_encode_object_identifier_subidentifier_eq in exact T).
Proof. exact Asn1V.Py.PyBerTie.py_encode_object_identifier_subidentifier_eq. Qed.
Print Assumptions C03_src_encode_subidentifier.
