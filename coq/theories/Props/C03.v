(** C03 — DER output is the unique X.690 distinguished encoding.
    Statements only; proofs live in Ber/DerRefine.v (and the leaf files
    Ber/BerLeafA.v, Ber/BerLeafB.v).  [DerImpl.der_encode] is the implementation
    model of asn1tools/codecs/der.py+ber.py (tied to /repo by harness/c03.py),
    [X690.der_encode] the independent specification of the distinguished
    encoding (Ber/X690.v), [scope_enc] the decidable scope predicate of
    Ber/BerScope.v. *)
From Asn1V Require Import Base.Prelude Syntax.Asn1 Ber.X690 Ber.BerScope Ber.DerImpl Ber.DerRefine.

(** Whenever X.690 defines the distinguished encoding [bs] of [v] (definite
    minimal lengths, minimal tag and integer octets, primitive strings, TRUE =
    FF, unused bits zero, named-bit trailing zeros removed, DEFAULT-valued
    components omitted, SET components in tag order, SET OF elements in
    encoding order), the encoder model returns exactly [bs].  For every type in
    scope, every value, both numeric_enums settings, any fuel that suffices for
    the specification; encodings below 2^1008 octets. *)
Theorem C03_der_refines_x690 :
  forall numeric e fuel t v bs,
    scope_enc numeric e fuel t = true ->
    X690.der_encode numeric e fuel t v = Some bs ->
    small bs ->
    DerImpl.der_encode numeric fuel e t v = Ok bs.
Proof. exact der_refines_x690. Qed.
Print Assumptions C03_der_refines_x690.

(** Non-vacuity: a SET with an extension addition, tags of three classes (one
    >= 31, EXPLICIT), a DEFAULT component given with its default value, a
    named-bit string with trailing zero bits and a SET OF out of order satisfy
    the hypotheses; the encoding is sorted, stripped and free of the default. *)
Definition C03_env : env :=
  [("Flags"%string, TBits (Some [("a"%string, 0); ("b"%string, 3)]) SzNone)].
Definition C03_ty : ty :=
  TSeq true
    [("z"%string, TTag (mkTag Ctx 1 false) (TInt IcNone), Mandatory);
     ("d"%string, TTag (mkTag Ctx 0 false) TBool, Default (VBool true));
     ("f"%string, TTag (mkTag Priv 2 false) (TRef "Flags"%string), Optional)]
    (Some [(false, [("s"%string, TTag (mkTag Appl 31 true) (TSeqOf true (TInt IcNone) SzNone), Optional)])]).
Definition C03_val : value :=
  VSeq [("s"%string, VList [VInt 300; VInt (-1); VInt 5]); ("z"%string, VInt 128);
        ("d"%string, VBool true); ("f"%string, VBits [144; 0] 12)].
Example C03_hypotheses_inhabited :
  scope_enc false C03_env 10 C03_ty = true /\
  X690.der_encode false C03_env 10 C03_ty C03_val =
    Some (hex "31177f1f0c310a0201050201ff0202012c81020080c2020490"%string) /\
  small (hex "31177f1f0c310a0201050201ff0202012c81020080c2020490"%string).
Proof. split; [vm_compute; reflexivity|]. split; [vm_compute; reflexivity|]. unfold small. vm_compute. reflexivity. Qed.
Print Assumptions C03_hypotheses_inhabited.
