(** C06 — OER encodings are byte-exact X.696.  Statements only.
    Model of asn1tools/codecs/oer.py: Oer/OerPrim.v, Oer/OerImpl.v (tied to
    /repo by harness/c06.py on every run); specification model: Oer/X696.v
    (pinned by Oer/X696Vectors.v); regions: Oer/OerScope.v ([oer_ok],
    [oer_norm]) and Oer/X696Scope.v ([x_conf], [in_scope]); proofs in
    Oer/OerPrimProofs*.v, Oer/OerProofs.v, Oer/X696Proofs.v; witnesses of the
    excluded finding regions in Oer/OerFindings.v. *)
From Asn1V Require Import Base.Prelude Syntax.Asn1.
From Asn1V Require Import Oer.OerPrim Oer.OerImpl Oer.OerScope Oer.X696 Oer.X696Scope.
From Asn1V Require Import Oer.OerPrimProofs Oer.OerProofs Oer.X696Proofs Oer.OerFindings.

(** The encoder emits exactly the octets X.696 prescribes: on the conforming
    region the implementation model and the specification model are the same
    partial function (same octets, and one fails exactly when the other does),
    for every fuel, environment, type and value of the universe: BOOLEAN,
    INTEGER (all width classes and both variable forms), ENUMERATED (short and
    long form), NULL, BIT STRING, OCTET STRING, the four one-octet
    known-multiplier string types and UTF8String, OBJECT IDENTIFIER,
    SEQUENCE/SET with OPTIONAL/DEFAULT and extension additions, SEQUENCE OF /
    SET OF, CHOICE with extension alternatives, references, recursion. *)
Theorem C06_oer_refines_x696 :
  forall numeric e fuel t v,
    in_scope numeric fuel e t v = true ->
    x696_encode numeric fuel e t v =
    match oer_encode numeric fuel e t v with Ok bs => Some bs | Err _ => None end.
Proof. exact oer_refines_x696. Qed.
Print Assumptions C06_oer_refines_x696.

(** ... and the decoder accepts exactly those octets: whatever follows them,
    it returns the normalised value and consumes exactly the encoding. *)
Theorem C06_oer_dec_accepts :
  forall numeric fuel e t v bs,
    in_scope numeric fuel e t v = true ->
    x696_encode numeric fuel e t v = Some bs ->
    forall tail, oer_decode numeric fuel e t (bs ++ tail) = Ok (oer_norm fuel e t v, length bs).
Proof. exact oer_dec_accepts. Qed.
Print Assumptions C06_oer_dec_accepts.

(** Round trip on the (larger) region [oer_ok], which also covers addition
    groups, explicit DEFAULT values in additions and [UNIVERSAL] tags. *)
Theorem C06_oer_roundtrip :
  forall numeric fuel e t v bs,
    oer_ok numeric fuel e t v = true -> oer_encode numeric fuel e t v = Ok bs ->
    forall tail, oer_decode numeric fuel e t (bs ++ tail) = Ok (oer_norm fuel e t v, length bs).
Proof. exact oer_roundtrip. Qed.
Print Assumptions C06_oer_roundtrip.

(** Nothing shorter is accepted: every strict prefix of an encoding is
    rejected with the library's decode error. *)
Theorem C06_oer_truncation :
  forall numeric fuel e t v bs,
    oer_ok numeric fuel e t v = true -> oer_encode numeric fuel e t v = Ok bs ->
    forall p, strict_prefix p bs ->
    exists x, oer_decode numeric fuel e t p = Err x /\ is_decode_error x = true.
Proof. exact oer_truncation. Qed.
Print Assumptions C06_oer_truncation.

(** The excluded regions are genuine: concrete witnesses on which library
    behaviour (as modelled) and X.696 differ. *)
Theorem C06_utf8_fixed_size_refuted :
  oer_encode false 3 [] utf8_fixed_ty utf8_fixed_val = Ok (hex "61c3a5626364") /\
  x696_encode false 3 [] utf8_fixed_ty utf8_fixed_val = Some (hex "0661c3a5626364") /\
  oer_decode false 3 [] utf8_fixed_ty (hex "61c3a5626364") = Ok (VStr [97; 229; 98; 99], 5%nat) /\
  oer_ok false 3 [] utf8_fixed_ty utf8_fixed_val = false.
Proof. exact oer_utf8_fixed_size_refuted. Qed.
Print Assumptions C06_utf8_fixed_size_refuted.

Theorem C06_addition_groups_refuted :
  oer_encode false 3 [] group_ty group_val = Ok (hex "80ff0206c0020101020102") /\
  x696_encode false 4 [] group_ty group_val = Some (hex "80ff0207800401010102") /\
  x_conf 3 [] group_ty group_val = false.
Proof. exact oer_addition_groups_refuted. Qed.
Print Assumptions C06_addition_groups_refuted.

Theorem C06_universal_class_tag_refuted :
  oer_encode false 3 [] univ_ty univ_val = Ok (hex "85ff") /\
  x696_encode false 3 [] univ_ty univ_val = Some (hex "05ff") /\
  x_conf 3 [] univ_ty univ_val = false.
Proof. exact oer_universal_class_tag_refuted. Qed.
Print Assumptions C06_universal_class_tag_refuted.

(** Non-vacuity: a recursive environment with an extensible SEQUENCE holding
    OPTIONAL and DEFAULT members, an extensible-range INTEGER with a negative
    value, a long-form ENUMERATED, a CHOICE with an extension alternative, a
    SEQUENCE OF and two additions (one absent) lies inside [in_scope], is
    encoded, and the encoding is the specification's. *)
Definition ex_env : env :=
  [("T"%string,
    TSeq false
         [("i"%string, TInt (IcRange (Some 0) (Some 10) true), Mandatory);
          ("o"%string, TBool, Optional);
          ("d"%string, TInt (IcRange (Some 0) (Some 255) false), Default (VInt 7));
          ("e"%string, TEnum [("a"%string, 0); ("b"%string, 70000)] (Some [("c"%string, -129)]), Mandatory);
          ("c"%string, TChoice [("x"%string, TNull, Mandatory)]
                               (Some [("y"%string, TStr SkUTF8 SzNone None, Mandatory)]), Mandatory);
          ("l"%string, TSeqOf false (TRef "T"%string) SzNone, Mandatory)]
         (Some [(false, [("a1"%string, TOctets (SzRange 2 (Some 2) false), Optional)]);
                (false, [("a2"%string, TBits None SzNone, Mandatory)])]))].
Definition ex_val : value :=
  VSeq [("i"%string, VInt (-5)); ("d"%string, VInt 7); ("e"%string, VEnum "c"%string);
        ("c"%string, VChoice "y"%string (VStr [97; 229]));
        ("l"%string, VList [VSeq [("i"%string, VInt 300); ("o"%string, VBool true); ("d"%string, VInt 8);
                                  ("e"%string, VEnum "b"%string); ("c"%string, VChoice "x"%string VNone);
                                  ("l"%string, VList [])]]);
        ("a2"%string, VBits [255] 3)].
Example C06_hypotheses_inhabited :
  in_scope false 12 ex_env (TRef "T"%string) ex_val = true /\
  oer_encode false 12 ex_env (TRef "T"%string) ex_val
  = Ok (hex "8001fb82ff7f81040361c3a501016002012cff0883011170800100020640030205e0") /\
  x696_encode false 12 ex_env (TRef "T"%string) ex_val
  = Some (hex "8001fb82ff7f81040361c3a501016002012cff0883011170800100020640030205e0").
Proof. repeat split; vm_compute; reflexivity. Qed.
Print Assumptions C06_hypotheses_inhabited.

(** ------------------------------------------------------------------
    Tie to the SOURCE TEXT (coq/gen/PyOer.v regenerated from oer.py on every run):
    the regenerated oer.encode_tag IS the model's tag encoder for every tag number
    and every class. *)
From Asn1V Require Py.PyOerTie.

Theorem C06_src_encode_tag : ltac:(let T := type of Asn1V.Py.PyOerTie.py_oer_encode_tag_eq in exact T).
Proof. exact Asn1V.Py.PyOerTie.py_oer_encode_tag_eq. Qed.
Print Assumptions C06_src_encode_tag.

(** ------------------------------------------------------------------
    Constraints applied at reference sites, in series (Oer/OerSerial.v): the OER-visible effective constraint of a
    chain "parent type, then constraint, then constraint ..." - MIN/MAX denote the bounds of the parent's root, an
    extensible constraint is not OER-visible and leaves the effective constraint of the chain unchanged, non-extensible
    ones intersect.  [elab_env] turns such surface environments into ordinary ones, so [C06_oer_refines_x696] applies. *)
From Asn1V Require Oer.OerSerial.

Theorem C06_serial_extensible_ignored_int : ltac:(let T := type of Asn1V.Oer.OerSerial.eff_int_extensible_ignored in exact T).
Proof. exact Asn1V.Oer.OerSerial.eff_int_extensible_ignored. Qed.
Print Assumptions C06_serial_extensible_ignored_int.

Theorem C06_serial_extensible_ignored_size : ltac:(let T := type of Asn1V.Oer.OerSerial.eff_size_extensible_ignored in exact T).
Proof. exact Asn1V.Oer.OerSerial.eff_size_extensible_ignored. Qed.
Print Assumptions C06_serial_extensible_ignored_size.

Theorem C06_serial_visible_intersects : ltac:(let T := type of Asn1V.Oer.OerSerial.istep_visible_intersects in exact T).
Proof. exact Asn1V.Oer.OerSerial.istep_visible_intersects. Qed.
Print Assumptions C06_serial_visible_intersects.

Theorem C06_serial_root_in_visible : ltac:(let T := type of Asn1V.Oer.OerSerial.ichain_root_in_vis in exact T).
Proof. exact Asn1V.Oer.OerSerial.ichain_root_in_vis. Qed.
Print Assumptions C06_serial_root_in_visible.
