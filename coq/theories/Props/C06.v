(** C06 — OER encodings are byte-exact X.696.  Statements only; the model is
    Oer/OerImpl.v, the specification Oer/X696.v, proofs in Oer/*Proofs.v. *)
From Asn1V Require Import Base.Prelude Syntax.Asn1.
From Asn1V Require Import Oer.OerPrim Oer.OerImpl Oer.OerScope Oer.X696 Oer.OerPrimProofs Oer.OerProofs.

(** Decoder accepts exactly the encoder's octets: for every type/value of the
    region [oer_ok] (Oer/OerScope.v), every fuel and every tail, decoding the
    encoding followed by the tail returns the normalised value and consumes
    exactly the encoding. *)
Theorem C06_oer_roundtrip :
  forall numeric fuel e t v bs,
    oer_ok numeric fuel e t v = true -> oer_encode numeric fuel e t v = Ok bs ->
    forall tail, oer_decode numeric fuel e t (bs ++ tail) = Ok (oer_norm fuel e t v, length bs).
Proof. exact oer_roundtrip. Qed.
Print Assumptions C06_oer_roundtrip.

(** ... and nothing shorter: every strict prefix of an encoding is rejected
    with the library's decode error (never a foreign exception, never a value). *)
Theorem C06_oer_truncation :
  forall numeric fuel e t v bs,
    oer_ok numeric fuel e t v = true -> oer_encode numeric fuel e t v = Ok bs ->
    forall p, strict_prefix p bs ->
    exists x, oer_decode numeric fuel e t p = Err x /\ is_decode_error x = true.
Proof. exact oer_truncation. Qed.
Print Assumptions C06_oer_truncation.
