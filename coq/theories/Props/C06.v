(** C06 — OER encodings are byte-exact X.696.  Statements only. *)
From Asn1V Require Import Base.Prelude Syntax.Asn1 Oer.OerPrim Oer.OerImpl Oer.X696.
