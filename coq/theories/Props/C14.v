(** C14 -- Parsing depends only on the token sequence, not on comments or
    white-space.  Statements only; proofs live in Lex/CommentsProofs.v,
    Lex/Refinement.v, Lex/Layout.v and Lex/KeywordTableProofs.v.

    [ignore_comments] is the model (Lex/Comments.v) of the REPAIRED
    asn1tools.parser.ignore_comments (proposed_fixes/C14-scanner.diff),
    [ignore_comments_orig] the model of the function as found; [lex],
    [render], [spec_tokens] are the X.680 clause 12 specification
    (Lex/Lexical.v); coq/gen/Keywords.v is regenerated from parser.py. *)
From Asn1V Require Import Base.Prelude Lex.Comments Lex.Lexical Lex.Keyword Lex.CommentsProofs
     Lex.Refinement Lex.Layout Lex.KeywordTable Lex.KeywordTableProofs.
From Asn1Gen Require Import Keywords.

(** ** The scanner, for every text *)

Theorem C14_blank_length :
  forall s t, ignore_comments s = Blanked t -> length t = length s.
Proof. exact blank_length. Qed.
Print Assumptions C14_blank_length.

Theorem C14_blank_keeps_newlines :
  forall s t, ignore_comments s = Blanked t ->
  forall k, nth_error t k = Some c_nl <-> nth_error s k = Some c_nl.
Proof. exact blank_keeps_newlines. Qed.
Print Assumptions C14_blank_keeps_newlines.

(** pyparsing's line number of every offset is the same in the blanked and in
    the given text: a syntax error is reported with the line of the offending
    item in the original text. *)
Theorem C14_blank_keeps_lineno :
  forall s t, ignore_comments s = Blanked t -> forall loc, lineno loc t = lineno loc s.
Proof. exact blank_keeps_lineno. Qed.
Print Assumptions C14_blank_keeps_lineno.

Theorem C14_blank_char_or_space :
  forall s t, ignore_comments s = Blanked t ->
  forall k c, nth_error s k = Some c ->
              nth_error t k = Some c \/ (nth_error t k = Some c_space /\ c <> c_nl).
Proof. exact blank_char_or_space. Qed.
Print Assumptions C14_blank_char_or_space.

(** ** Composition with the X.680 lexical specification *)

Theorem C14_blank_refines_lexical :
  forall s,
  match lex s with
  | LexOk cl => ignore_comments s = Blanked (render s cl)
  | OpenLineComment p => ignore_comments s = MissingLineEnd p
  | OpenBlockComment p => ignore_comments s = MissingBlockEnd p
  | OpenString _ | StrayAsterisk _ => True
  end.
Proof. exact blank_refines_lexical. Qed.
Print Assumptions C14_blank_refines_lexical.

Theorem C14_blank_outside_comments_identity :
  forall s cl t, lex s = LexOk cl -> ignore_comments s = Blanked t ->
  forall k c q, nth_error s k = Some c -> nth_error cl k = Some q -> q <> Com ->
                nth_error t k = Some c.
Proof. exact blank_outside_comments_identity. Qed.
Print Assumptions C14_blank_outside_comments_identity.

Theorem C14_string_literals_untouched :
  forall s cl t, lex s = LexOk cl -> ignore_comments s = Blanked t ->
  forall k, nth_error cl k = Some Lit -> nth_error t k = nth_error s k.
Proof. exact string_literals_untouched. Qed.
Print Assumptions C14_string_literals_untouched.

Theorem C14_blank_ignores_comment_text :
  forall s1 s2 cl, lex s1 = LexOk cl -> lex s2 = LexOk cl ->
  (forall k q, nth_error cl k = Some q -> q <> Com -> nth_error s1 k = nth_error s2 k) ->
  (forall k, nth_error s1 k = Some 10 <-> nth_error s2 k = Some 10) ->
  ignore_comments s1 = ignore_comments s2.
Proof. exact blank_ignores_comment_text. Qed.
Print Assumptions C14_blank_ignores_comment_text.

Theorem C14_blank_tokens :
  forall s cl, lex s = LexOk cl -> vtff_free s cl = true ->
  exists t, ignore_comments s = Blanked t /\ plain_tokens pp_white t = spec_tokens s.
Proof. exact blank_tokens. Qed.
Print Assumptions C14_blank_tokens.

(** Layout invariance of [parse_string], relative to a grammar (pyparsing,
    not modelled) that depends only on the tokens it finds in the blanked
    text.  [grammar], [token_grammar] and the law are explicit hypotheses. *)
Theorem C14_layout_invariance :
  forall (dict : Type) (grammar : list Z -> option dict) (token_grammar : list token -> option dict),
  (forall t toks, plain_tokens pp_white t = Some toks -> grammar t = token_grammar toks) ->
  forall s1 s2 toks,
  spec_tokens s1 = Some toks -> spec_tokens s2 = Some toks -> clean s1 -> clean s2 ->
  parse_string dict grammar s1 = parse_string dict grammar s2.
Proof. exact layout_invariance. Qed.
Print Assumptions C14_layout_invariance.

(** ** Multi-word keywords *)

Theorem C14_keyword_table_layout_independent :
  forall e seps rest,
  In e multi_word_keywords ->
  Forall sep_ok seps -> length seps = pred (length (fst e)) -> boundary_ok rest ->
  kw_match (snd e) (join_words (fst e) seps ++ rest) = true.
Proof. exact keyword_table_layout_independent. Qed.
Print Assumptions C14_keyword_table_layout_independent.

(** Finite checks over the regenerated table (13 keywords) and the 10
    separators of [separators] (white space and the three kinds of comment):
    the specification yields the words as separate tokens, the scanner
    accepts, the keyword terminal matches the blanked text. *)
Theorem C14_keyword_layout_table : keyword_layout_table cfg_fixed = true.
Proof. exact keyword_layout_table_holds. Qed.
Print Assumptions C14_keyword_layout_table.

Theorem C14_keyword_words_reserved : keyword_words_reserved = true.
Proof. exact keyword_words_reserved_holds. Qed.
Print Assumptions C14_keyword_words_reserved.

Theorem C14_scanner_alternatives_as_modelled : scanner_alternatives_ok = true.
Proof. exact scanner_alternatives_as_modelled. Qed.
Print Assumptions C14_scanner_alternatives_as_modelled.

(** What a keyword literal with embedded spaces (the unrepaired tree) does:
    it can match its words only when they are separated by exactly one
    space. *)
Theorem C14_keyword_literal_single_space :
  forall w1 w2 sep rest,
  all_white sep -> sep <> [] ->
  (match w1 with c :: _ => pp_white c = false | [] => False end) ->
  (match w2 with c :: _ => pp_white c = false | [] => False end) ->
  kw_match (KwLiteral (w1 ++ [32] ++ w2)) (w1 ++ sep ++ w2 ++ rest) = true ->
  sep = [32].
Proof. exact keyword_literal_single_space. Qed.
Print Assumptions C14_keyword_literal_single_space.

Theorem C14_literal_layout_only_single_space : literal_layout_only_single_space = true.
Proof. exact literal_layout_only_single_space_holds. Qed.
Print Assumptions C14_literal_layout_only_single_space.

(** ** Refutations for the unrepaired tree (witnesses replayed on /repo) *)

Theorem C14_blank_keeps_lineno_refuted :
  exists s t loc, ignore_comments_orig s = Blanked t /\ lineno loc t <> lineno loc s.
Proof. exact blank_keeps_lineno_refuted. Qed.
Print Assumptions C14_blank_keeps_lineno_refuted.

Theorem C14_string_literals_untouched_refuted :
  exists s cl t k, lex s = LexOk cl /\ ignore_comments_orig s = Blanked t /\
                   nth_error cl k = Some Lit /\ nth_error t k <> nth_error s k.
Proof. exact string_literals_untouched_refuted. Qed.
Print Assumptions C14_string_literals_untouched_refuted.

Theorem C14_string_literal_acceptance_refuted :
  exists s cl, lex s = LexOk cl /\ ignore_comments_orig s = MissingLineEnd 1.
Proof. exact string_literal_acceptance_refuted. Qed.
Print Assumptions C14_string_literal_acceptance_refuted.

Theorem C14_keyword_literal_layout_refuted :
  exists sep, all_white sep /\ sep <> [] /\
    kw_match (KwLiteral (codes "OCTET STRING")) (codes "OCTET" ++ sep ++ codes "STRING") = false.
Proof. exact keyword_literal_layout_refuted. Qed.
Print Assumptions C14_keyword_literal_layout_refuted.

(** The one deviation of the (repaired) scanner from the specification: an
    asterisk outside comments and literals, which X.680 does not allow. *)
Theorem C14_stray_asterisk_quirk :
  exists s, lex s = StrayAsterisk 0 /\ ignore_comments s = Blanked s /\
            classify true O Code 1 (tl s) = LexOk [Com; Com; Com; Com].
Proof. exact stray_asterisk_quirk. Qed.
Print Assumptions C14_stray_asterisk_quirk.

(** ** Non-vacuity: two layouts of one module with all three kinds of comment,
    a literal that contains comment delimiters and a split multi-word keyword
    satisfy every hypothesis above and have the same tokens. *)
Definition ex1 : list Z :=
  codes "M DEFINITIONS ::= BEGIN A ::= OCTET STRING a IA5String ::= ""x--y /* z"" END".
Definition ex2 : list Z :=
  codes "M DEFINITIONS ::= BEGIN -- c1 -- A ::= OCTET" ++ [10] ++
  codes "/* /* n */" ++ [10] ++ codes "*/ STRING --c2" ++ [10; 9] ++
  codes "a IA5String ::= ""x--y /* z"" END" ++ [10].

Example C14_hypotheses_inhabited :
  clean ex1 /\ clean ex2 /\ spec_tokens ex1 = spec_tokens ex2 /\ spec_tokens ex1 <> None /\
  (exists t, ignore_comments ex2 = Blanked t /\ lineno 80 t = 4) /\
  ex1 <> ex2.
Proof.
  split; [vm_compute; reflexivity|]. split; [vm_compute; reflexivity|].
  split; [vm_compute; reflexivity|]. split; [vm_compute; discriminate|].
  split; [eexists; split; [vm_compute; reflexivity | vm_compute; reflexivity]|].
  vm_compute. discriminate.
Qed.
Print Assumptions C14_hypotheses_inhabited.
