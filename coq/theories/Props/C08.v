(** C08 — decoding arbitrary bytes always terminates within bounded time and
    memory.  Statements only.

    What is machine-checked here (UPER model; other codecs are added with their
    models): every decoder of the model is a total Coq function — each Python
    loop of per.py/uper.py is a structural recursion (on a decoded count, on
    the member list, on the presence bits) accepted by the guard checker — and
    the one loop whose trip count is not a decoded count, the 16K-fragment
    loop [read_length_determinant_chunks], never needs more iterations than
    (remaining bits)/8 + 1: the input-derived bound of the model is never
    exhausted, for ANY input.  A successful decode never consumes more than
    the input.  That one model step is O(1) Python work, and wall-clock/memory
    of the real interpreter, are explored by the resource-limited hostile-input
    runs of the check, not proved (see DESIGN.md section 6 C08). *)
From Asn1V Require Import Base.Prelude Base.Bits Syntax.Asn1 Per.UperImpl Per.UperPrim Per.UperPB Per.UperTotal.

Theorem C08_uper_fragment_loop_bounded_partial :
  forall (A : Type) (rd : reader A), PB rd -> never_fuel rd -> never_fuel (read_frag_auto rd).
Proof. exact @read_frag_auto_not_fuel. Qed.
Print Assumptions C08_uper_fragment_loop_bounded_partial.

Theorem C08_uper_decode_in_bounds :
  forall numeric fuel e t data v n,
    uper_decode numeric fuel e t data = Ok (v, n) -> (n <= 8 * length data)%nat.
Proof. exact uper_decode_in_bounds. Qed.
Print Assumptions C08_uper_decode_in_bounds.

(** Every hostile input yields a definite outcome of the model decoder: a value
    or an error — the statement is the totality of [uper_decode], i.e. its
    acceptance by Coq; this instance pins one malformed input per outcome. *)
Example C08_outcomes :
  uper_decode false 5 [] (TSeqOf false (TInt IcNone) SzNone) [0x02; 0x01; 0x05] = Err EOutOfData /\
  uper_decode false 5 [] (TSeqOf false (TInt IcNone) SzNone) [0xc5] = Err EDecode /\
  uper_decode false 5 [] (TSeqOf false (TInt IcNone) SzNone) [0x01; 0x00] = Err (EForeign "ValueError") /\
  uper_decode false 5 [] (TSeqOf false TNull SzNone) [0x03; 0xff] = Ok (VList [VNone; VNone; VNone], 8%nat).
Proof. repeat split; vm_compute; reflexivity. Qed.
Print Assumptions C08_outcomes.

From Asn1V Require Oer.OerWork.

(** OER refutation (known finding oer-zero-width-array): k+1 octets decode under SEQUENCE OF NULL to 256^k - 1 elements, so no step bound proportional to the input holds for OER.
    (statement = the type of [Asn1V.Oer.OerWork.oer_zero_width_elements_unbounded]; written out in that file) *)
Theorem C08_oer_zero_width_elements_unbounded_refuted : ltac:(let T := type of Asn1V.Oer.OerWork.oer_zero_width_elements_unbounded in exact T).
Proof. exact Asn1V.Oer.OerWork.oer_zero_width_elements_unbounded. Qed.
Print Assumptions C08_oer_zero_width_elements_unbounded_refuted.



(** Aligned PER: the same two facts for per.py's model. *)
From Asn1V Require Import Per.PerImpl Per.PerPrim Per.PerPB Per.PerExt.

Theorem C08_per_fragment_loop_bounded_partial :
  forall (A : Type) (rd : reader A), PBA rd -> never_fuel rd -> never_fuel (read_frag_auto rd).
Proof. exact @PBA_read_frag_auto_not_fuel. Qed.
Print Assumptions C08_per_fragment_loop_bounded_partial.

Theorem C08_per_decode_in_bounds : ltac:(let T := type of per_decode_in_bounds in exact T).
Proof. exact per_decode_in_bounds. Qed.
Print Assumptions C08_per_decode_in_bounds.

Theorem C08_per_decode_ext_stable :
  forall numeric fuel e t data v n tail,
    per_decode numeric fuel e t data = Ok (v, n) -> per_decode numeric fuel e t (data ++ tail)%list = Ok (v, n).
Proof. exact per_decode_ext_stable. Qed.
Print Assumptions C08_per_decode_ext_stable.

(** ------------------------------------------------------------------
    Work bound (Per/UperCost*.v).  [dec_cost] is [dec] instrumented in a cost monad: one unit per read_bits /
    read_bit call, per loop iteration (element, member, presence bit, fragment, character) and per recursive
    decode call; [K e fuel t] is a type-dependent constant computed by abstract interpretation of the decoder
    (declared fixed sizes multiply, data-dependent counts are paid for by consumed input; the dominant term is
    16385 steps per bit for zero-width elements under a length determinant, shown tight below).  The bound holds
    for EVERY input, accepted or rejected. *)
From Coq Require Import NArith.
From Asn1V Require Import Per.UperCost Per.UperCostProofs Per.UperCostEx.
Local Open Scope string_scope.

(* the instrumentation does not change behaviour *)
Theorem C08_uper_dec_cost_erases :
  forall numeric e fuel t inp, fst (dec_cost numeric e fuel t inp) = dec numeric e fuel t inp.
Proof. exact dec_cost_erases. Qed.
Print Assumptions C08_uper_dec_cost_erases.

Theorem C08_uper_decode_cost_erases :
  forall numeric fuel e t data, fst (uper_decode_cost numeric fuel e t data) = uper_decode numeric fuel e t data.
Proof. exact uper_decode_cost_erases. Qed.
Print Assumptions C08_uper_decode_cost_erases.

(* THE WORK BOUND, any input (success or error), bits and octets *)
Theorem C08_uper_dec_cost_bound :
  forall numeric e fuel t inp,
    (snd (dec_cost numeric e fuel t inp) <= K e fuel t * (N.of_nat (length inp) + 1))%N.
Proof. exact dec_cost_bound. Qed.
Print Assumptions C08_uper_dec_cost_bound.

Theorem C08_uper_decode_cost_bound :
  forall numeric fuel e t data,
    (snd (uper_decode_cost numeric fuel e t data) <= K e fuel t * (8 * N.of_nat (length data) + 1))%N.
Proof. exact uper_decode_cost_bound. Qed.
Print Assumptions C08_uper_decode_cost_bound.

(* sharper forms: additive + per-bit part; success is paid by the CONSUMED bits *)
Theorem C08_uper_dec_cost_bound_ab :
  forall numeric e fuel t inp,
    (snd (dec_cost numeric e fuel t inp) <= ka (Kabw e fuel t) + kb (Kabw e fuel t) * N.of_nat (length inp))%N.
Proof. exact dec_cost_bound_ab. Qed.
Print Assumptions C08_uper_dec_cost_bound_ab.

Theorem C08_uper_dec_cost_bound_consumed :
  forall numeric e fuel t inp v rest c,
    dec_cost numeric e fuel t inp = (Ok (v, rest), c) ->
    (length rest <= length inp)%nat /\
    (c <= ka (Kabw e fuel t) + kb (Kabw e fuel t) * N.of_nat (length inp - length rest))%N.
Proof. exact dec_cost_bound_consumed. Qed.
Print Assumptions C08_uper_dec_cost_bound_consumed.

(* the constant does not depend on the fuel for acyclic specifications *)
Theorem C08_uper_K_fuel_stable :
  forall e d t fuel, fits e d t = true -> (d <= fuel)%nat -> K e fuel t = K e d t.
Proof. exact K_fuel_stable. Qed.
Print Assumptions C08_uper_K_fuel_stable.

Theorem C08_uper_dec_cost_bound_acyclic :
  forall numeric e d t fuel inp, fits e d t = true -> (d <= fuel)%nat ->
    (snd (dec_cost numeric e fuel t inp) <= K e d t * (N.of_nat (length inp) + 1))%N.
Proof. exact dec_cost_bound_acyclic. Qed.
Print Assumptions C08_uper_dec_cost_bound_acyclic.

(* recursive specifications: a bound for EVERY fuel, conditional on a computed check *)
Theorem C08_uper_dec_cost_bound_rec :
  forall numeric B M rho e d fuel t inp,
    0 <= B -> rho_ok B M rho e d = true -> dok (dK B M rho e fuel t) = true ->
    Z.of_N (snd (dec_cost numeric e fuel t inp))
    <= Z.max (dd (dK B M rho e fuel t)) (de (dK B M rho e fuel t)) + B * Z.of_nat (length inp).
Proof. exact dec_cost_bound_rec. Qed.
Print Assumptions C08_uper_dec_cost_bound_rec.

Theorem C08_uper_dec_cost_bound_rec_stable :
  forall numeric B M rho e d d' fuel t inp,
    0 <= B -> rho_ok B M rho e d = true -> dfits rho e d' t = true -> (d' <= fuel)%nat ->
    dok (dK B M rho e d' t) = true ->
    Z.of_N (snd (dec_cost numeric e fuel t inp))
    <= Z.max (dd (dK B M rho e d' t)) (de (dK B M rho e d' t)) + B * Z.of_nat (length inp).
Proof. exact dec_cost_bound_rec_stable. Qed.
Print Assumptions C08_uper_dec_cost_bound_rec_stable.

(* tightness of the dominant factor / amplification witness family (see section 4) *)
Theorem C08_uper_seqof_null_amplification :
  forall numeric e f isset k,
    uper_decode_cost numeric (S (S f)) e (TSeqOf isset TNull SzNone) (repeat 196 k ++ [0])
    = (Ok (VList (repeat VNone (k * Z.to_nat 65536)), (8 * (k + 1))%nat), (131074 * N.of_nat k + 3)%N).
Proof. exact uper_seqof_null_amplification. Qed.
Print Assumptions C08_uper_seqof_null_amplification.

(* an unguarded recursion is stopped only by the fuel: no fuel-independent constant *)
Theorem C08_uper_unguarded_recursion_costs_the_fuel :
  forall numeric f inp,
    dec_cost numeric loop_env f (TRef "L") inp = (Err EFuel, loop_cost f) /\ (N.of_nat f <= loop_cost f)%N.
Proof. exact unguarded_recursion_costs_the_fuel. Qed.
Print Assumptions C08_uper_unguarded_recursion_costs_the_fuel.

(** Non-vacuity: the constant for the C01 example type and a type with fixed-size arrays, measured costs of hostile
    inputs next to the bound, and fuel-independent bounds for three recursive specifications. *)
Example C08_K_examples : ltac:(let T := type of (conj K_ex_ty_12 K_arr_ty) in exact T).
Proof. exact (conj K_ex_ty_12 K_arr_ty). Qed.
Print Assumptions C08_K_examples.
Example C08_measured_examples : ltac:(let T := type of (conj ex_ty_measured arr_ty_measured) in exact T).
Proof. exact (conj ex_ty_measured arr_ty_measured). Qed.
Print Assumptions C08_measured_examples.
Example C08_recursive_bounds : ltac:(let T := type of (conj R_bound_any_fuel tree_bound_any_fuel) in exact T).
Proof. exact (conj R_bound_any_fuel tree_bound_any_fuel). Qed.
Print Assumptions C08_recursive_bounds.

(** ------------------------------------------------------------------
    The same work bound for aligned PER (Per/PerCost*.v; an alignment is one step) ... *)
From Asn1V Require Import Per.PerCost Per.PerCostProofs.
(* imports: Per.PerImpl Per.UperCost Per.UperCostProofs Per.PerCost Per.PerCostProofs, Coq NArith *)
Theorem C08_per_dec_cost_erases :
  forall numeric e fuel t inp, fst (pdec_cost numeric e fuel t inp) = pdec_ty numeric e fuel t inp.
Proof. exact pdec_cost_erases. Qed.
Print Assumptions C08_per_dec_cost_erases.
Theorem C08_per_decode_cost_erases :
  forall numeric fuel e t data, fst (per_decode_cost numeric fuel e t data) = per_decode numeric fuel e t data.
Proof. exact per_decode_cost_erases. Qed.
Print Assumptions C08_per_decode_cost_erases.
Theorem C08_per_dec_cost_bound :
  forall numeric e fuel t inp,
    (snd (pdec_cost numeric e fuel t inp) <= Kp e fuel t * (N.of_nat (length inp) + 1))%N.
Proof. exact pdec_cost_bound. Qed.
Print Assumptions C08_per_dec_cost_bound.
Theorem C08_per_decode_cost_bound :
  forall numeric fuel e t data,
    (snd (per_decode_cost numeric fuel e t data) <= Kp e fuel t * (8 * N.of_nat (length data) + 1))%N.
Proof. exact per_decode_cost_bound. Qed.
Print Assumptions C08_per_decode_cost_bound.
Theorem C08_per_dec_cost_bound_consumed :
  forall numeric e fuel t inp v rest c,
    pdec_cost numeric e fuel t inp = (Ok (v, rest), c) ->
    (length rest <= length inp)%nat /\
    (c <= ka (Kpabw e fuel t) + kb (Kpabw e fuel t) * N.of_nat (length inp - length rest))%N.
Proof. exact pdec_cost_bound_consumed. Qed.
Print Assumptions C08_per_dec_cost_bound_consumed.
Theorem C08_per_Kp_fuel_stable :
  forall e d t fuel, fits e d t = true -> (d <= fuel)%nat -> Kp e fuel t = Kp e d t.
Proof. exact Kp_fuel_stable. Qed.
Print Assumptions C08_per_Kp_fuel_stable.
Theorem C08_per_dec_cost_bound_acyclic :
  forall numeric e d t fuel inp, fits e d t = true -> (d <= fuel)%nat ->
    (snd (pdec_cost numeric e fuel t inp) <= Kp e d t * (N.of_nat (length inp) + 1))%N.
Proof. exact pdec_cost_bound_acyclic. Qed.
Print Assumptions C08_per_dec_cost_bound_acyclic.

(** ... and for the BER and DER decoder models (Ber/BerCost*.v): one step per decode call (including those that answer
    TAG_MISMATCH), per ber.py primitive and per loop iteration (member tried in a pass, pass of the SET retry loop,
    SEQUENCE OF element, string segment).  The constant is quadratic in the number of SET components (the retry
    loop) - real but type-bounded; strings close by a credit argument independent of segment nesting. *)
From Asn1V Require Import Ber.Header Ber.BerCommon Ber.BerImpl Ber.DerImpl Ber.BerCost Ber.BerCostProofs.
Theorem C08_ber_decode_cost_erases :
  forall numeric fuel e t bs, fst (ber_decode_cost numeric fuel e t bs) = ber_decode numeric fuel e t bs.
Proof. exact ber_decode_cost_erases. Qed.
Print Assumptions C08_ber_decode_cost_erases.
Theorem C08_der_decode_cost_erases :
  forall numeric fuel e t bs, fst (der_decode_cost numeric fuel e t bs) = der_decode numeric fuel e t bs.
Proof. exact der_decode_cost_erases. Qed.
Print Assumptions C08_der_decode_cost_erases.
Theorem C08_ber_decode_cost_bound :
  forall numeric fuel e t bs, bytes_ok bs ->
    (snd (ber_decode_cost numeric fuel e t bs) <= Kber e fuel t * (N.of_nat (length bs) + 1))%N.
Proof. exact ber_decode_cost_bound. Qed.
Print Assumptions C08_ber_decode_cost_bound.
Theorem C08_der_decode_cost_bound :
  forall numeric fuel e t bs, bytes_ok bs ->
    (snd (der_decode_cost numeric fuel e t bs) <= Kber e fuel t * (N.of_nat (length bs) + 1))%N.
Proof. exact der_decode_cost_bound. Qed.
Print Assumptions C08_der_decode_cost_bound.
Theorem C08_ber_dec_cost_bound_consumed :
  forall der numeric e fuel ovr t data off v en c, bytes_ok data ->
    c_dec der numeric e fuel ovr t data off = (Ok (DVal v, en), c) ->
    (off + 1 <= en <= length data)%nat /\
    (c <= ba (Kb e fuel t) + bb (Kb e fuel t) * N.of_nat (en - off))%N.
Proof. exact ber_dec_cost_bound_consumed. Qed.
Print Assumptions C08_ber_dec_cost_bound_consumed.
Theorem C08_ber_Kber_fuel_stable :
  forall e d t fuel, fitsb e d t = true -> (d <= fuel)%nat -> Kber e fuel t = Kber e d t.
Proof. exact Kber_fuel_stable. Qed.
Print Assumptions C08_ber_Kber_fuel_stable.
Theorem C08_ber_decode_cost_bound_acyclic :
  forall numeric e d t fuel bs, fitsb e d t = true -> (d <= fuel)%nat -> bytes_ok bs ->
    (snd (ber_decode_cost numeric fuel e t bs) <= Kber e d t * (N.of_nat (length bs) + 1))%N.
Proof. exact ber_decode_cost_bound_acyclic. Qed.
Print Assumptions C08_ber_decode_cost_bound_acyclic.
(** ------------------------------------------------------------------
    OER work bound (Oer/OerCost.v, OerCostProofs.v): [oer_dec_cost] is the OER decoder model in a cost monad (one step
    per primitive read, loop iteration and recursive decode call); it erases to [oer_dec]; for EVERY input octet string,
    accepted or rejected, the cost is at most [Ko e fuel t * (length input + 1)] when no SEQUENCE OF / SET OF reached
    from the type has a zero-width element ([no_zero_width_elements], decidable).  [Ko] is computed by abstract
    interpretation of the decoder (decoded quantities never enter it: each iteration is paid by the octet it consumes).
    Without the predicate no linear bound holds: four octets under SEQUENCE OF NULL already exceed [Ko * 5] (open
    finding oer-zero-width-array).  OPEN: fuel-stability of [Ko]; a fuel-independent constant for recursive types.
    (statements = the types of the theorems of Oer/OerCostProofs.v; written out in notes/OER-cost.md) *)
From Asn1V Require Oer.OerCost Oer.OerCostProofs Oer.OerCostEx.

Theorem C08_oer_dec_cost_erases : ltac:(let T := type of Asn1V.Oer.OerCostProofs.oer_dec_cost_erases in exact T).
Proof. exact Asn1V.Oer.OerCostProofs.oer_dec_cost_erases. Qed.
Print Assumptions C08_oer_dec_cost_erases.

Theorem C08_oer_decode_cost_erases : ltac:(let T := type of Asn1V.Oer.OerCostProofs.oer_decode_cost_erases in exact T).
Proof. exact Asn1V.Oer.OerCostProofs.oer_decode_cost_erases. Qed.
Print Assumptions C08_oer_decode_cost_erases.

Theorem C08_oer_dec_cost_bound : ltac:(let T := type of Asn1V.Oer.OerCostProofs.oer_dec_cost_bound in exact T).
Proof. exact Asn1V.Oer.OerCostProofs.oer_dec_cost_bound. Qed.
Print Assumptions C08_oer_dec_cost_bound.

Theorem C08_oer_decode_cost_bound : ltac:(let T := type of Asn1V.Oer.OerCostProofs.oer_decode_cost_bound in exact T).
Proof. exact Asn1V.Oer.OerCostProofs.oer_decode_cost_bound. Qed.
Print Assumptions C08_oer_decode_cost_bound.

Theorem C08_oer_dec_cost_bound_consumed : ltac:(let T := type of Asn1V.Oer.OerCostProofs.oer_dec_cost_bound_consumed in exact T).
Proof. exact Asn1V.Oer.OerCostProofs.oer_dec_cost_bound_consumed. Qed.
Print Assumptions C08_oer_dec_cost_bound_consumed.

Theorem C08_oer_dec_cost_zero_width_refuted : ltac:(let T := type of Asn1V.Oer.OerCostProofs.oer_dec_cost_zero_width_refuted in exact T).
Proof. exact Asn1V.Oer.OerCostProofs.oer_dec_cost_zero_width_refuted. Qed.
Print Assumptions C08_oer_dec_cost_zero_width_refuted.

Example C08_oer_cost_bound_instance : ltac:(let T := type of Asn1V.Oer.OerCostEx.oer_cost_bound_instance in exact T).
Proof. exact Asn1V.Oer.OerCostEx.oer_cost_bound_instance. Qed.
Print Assumptions C08_oer_cost_bound_instance.
