(** C08 — decoding arbitrary bytes always terminates within bounded time and
    memory.  Statements only.

    What is machine-checked here (UPER model; other codecs are added with their
    models): every decoder of the model is a total Coq function — each Python
    loop of per.py/uper.py is a structural recursion (on a decoded count, on
    the member list, on the presence bits) accepted by the guard checker — and
    the one loop whose trip count is not a decoded count, the 16K-fragment
    loop [read_length_determinant_chunks], never needs more iterations than
    (remaining bits)/8 + 1: the input-derived bound of the model is never
    exhausted, for ANY input.  A successful decode never consumes more than
    the input.  That one model step is O(1) Python work, and wall-clock/memory
    of the real interpreter, are explored by the resource-limited hostile-input
    runs of the check, not proved (see DESIGN.md section 6 C08). *)
From Asn1V Require Import Base.Prelude Base.Bits Syntax.Asn1 Per.UperImpl Per.UperPrim Per.UperPB Per.UperTotal.

Theorem C08_uper_fragment_loop_bounded_partial :
  forall (A : Type) (rd : reader A), PB rd -> never_fuel rd -> never_fuel (read_frag_auto rd).
Proof. exact @read_frag_auto_not_fuel. Qed.
Print Assumptions C08_uper_fragment_loop_bounded_partial.

Theorem C08_uper_decode_in_bounds :
  forall numeric fuel e t data v n,
    uper_decode numeric fuel e t data = Ok (v, n) -> (n <= 8 * length data)%nat.
Proof. exact uper_decode_in_bounds. Qed.
Print Assumptions C08_uper_decode_in_bounds.

(** Every hostile input yields a definite outcome of the model decoder: a value
    or an error — the statement is the totality of [uper_decode], i.e. its
    acceptance by Coq; this instance pins one malformed input per outcome. *)
Example C08_outcomes :
  uper_decode false 5 [] (TSeqOf false (TInt IcNone) SzNone) [0x02; 0x01; 0x05] = Err EOutOfData /\
  uper_decode false 5 [] (TSeqOf false (TInt IcNone) SzNone) [0xc5] = Err EDecode /\
  uper_decode false 5 [] (TSeqOf false (TInt IcNone) SzNone) [0x01; 0x00] = Err (EForeign "ValueError") /\
  uper_decode false 5 [] (TSeqOf false TNull SzNone) [0x03; 0xff] = Ok (VList [VNone; VNone; VNone], 8%nat).
Proof. repeat split; vm_compute; reflexivity. Qed.
Print Assumptions C08_outcomes.

From Asn1V Require Oer.OerWork.

(** OER refutation (known finding oer-zero-width-array): k+1 octets decode under SEQUENCE OF NULL to 256^k - 1 elements, so no step bound proportional to the input holds for OER.
    (statement = the type of [Asn1V.Oer.OerWork.oer_zero_width_elements_unbounded]; written out in that file) *)
Theorem C08_oer_zero_width_elements_unbounded_refuted : ltac:(let T := type of Asn1V.Oer.OerWork.oer_zero_width_elements_unbounded in exact T).
Proof. exact Asn1V.Oer.OerWork.oer_zero_width_elements_unbounded. Qed.
Print Assumptions C08_oer_zero_width_elements_unbounded_refuted.

(* OPEN: C08_uper_dec_steps : an instrumented step count linear in (length data + 1) times a
   type-dependent constant (fixed-size SEQUENCE OF of zero-width elements make the constant
   exponential in the nesting, so the bound must carry the declared sizes). *)

(** Aligned PER: the same two facts for per.py's model. *)
From Asn1V Require Import Per.PerImpl Per.PerPrim Per.PerPB Per.PerExt.

Theorem C08_per_fragment_loop_bounded_partial :
  forall (A : Type) (rd : reader A), PBA rd -> never_fuel rd -> never_fuel (read_frag_auto rd).
Proof. exact @PBA_read_frag_auto_not_fuel. Qed.
Print Assumptions C08_per_fragment_loop_bounded_partial.

Theorem C08_per_decode_in_bounds : ltac:(let T := type of per_decode_in_bounds in exact T).
Proof. exact per_decode_in_bounds. Qed.
Print Assumptions C08_per_decode_in_bounds.

Theorem C08_per_decode_ext_stable :
  forall numeric fuel e t data v n tail,
    per_decode numeric fuel e t data = Ok (v, n) -> per_decode numeric fuel e t (data ++ tail)%list = Ok (v, n).
Proof. exact per_decode_ext_stable. Qed.
Print Assumptions C08_per_decode_ext_stable.
