(** C08 — provisional statement file (whole-type theorems are being added). *)
From Asn1V Require Import Base.Prelude Base.Bits Base.BitsProofs Syntax.Asn1 Per.UperImpl Per.UperPrim.

Theorem C08_length_determinant_prefix_behaviour : PB read_len.
Proof. exact PB_read_len. Qed.
Print Assumptions C08_length_determinant_prefix_behaviour.
