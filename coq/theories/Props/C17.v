(** C17 — the compile cache is transparent.  Statements only; proofs live in
    Cache/KeyProofs.v, Cache/Proofs.v, Cache/Upstream.v and Cache/GenKey.v.

    Reading guide.  [compile f o] is the uncached compile_files as a function
    of the file contents [f] (a list of byte strings, one per file) and the
    options [o] (codec, numeric_enums, any_defined_by_choices, encoding); it
    is universally quantified, as is the file system.  [trace_of key compile
    fs h] lists, for the history [h] of operations on one cache directory that
    starts empty, every operation with the state it started in and what it
    returned.  [repo_key] is the key construction regenerated from /repo's
    source by translator/cachekey.py on every run. *)
From Asn1V Require Import Base.Prelude Cache.Key Cache.KeyProofs Cache.Model Cache.Proofs
     Cache.Upstream Cache.Instance Cache.GenKey.

(** Length-prefixed concatenation is injective on all lists of byte strings
    (any number of strings, any contents, empty strings included). *)
Theorem C17_length_prefixed_concat_injective :
  forall (l1 l2 : list bytes) (k : bytes),
    frame_all l1 = Ok k -> frame_all l2 = Ok k -> l1 = l2.
Proof. exact frame_all_inj. Qed.
Print Assumptions C17_length_prefixed_concat_injective.

(** The key currently coded in /repo determines the file contents (with
    their boundaries) and all four options; [repr] of any_defined_by_choices
    and of encoding is an oracle assumed injective. *)
Theorem C17_key_injective :
  forall (A E : Type) (ser_a : A -> bytes) (ser_e : E -> bytes),
    (forall x y, ser_a x = ser_a y -> x = y) -> (forall x y, ser_e x = ser_e y -> x = y) ->
    forall f o f' o' k,
      repo_key ser_a ser_e f o = Ok k -> repo_key ser_a ser_e f' o' = Ok k -> f = f' /\ o = o'.
Proof. exact (@repo_key_injective). Qed.
Print Assumptions C17_key_injective.

(** (a) For ANY key function under which two requests with the same key have
    the same uncached result (exact hypothesis: [key_sound]; implied by
    injectivity), every compile_files call of every history of compiles
    (any file lists, any options), file edits and killed writers returns
    exactly what the uncached call returns in that file-system state. *)
Theorem C17_cache_transparent :
  forall (A E spec : Type) (key : list bytes -> opts A E -> result bytes)
         (compile : list bytes -> opts A E -> result spec),
    key_sound key compile ->
    forall fs h, forallb (@fault_free A E spec) h = true ->
    forall s x out, In (s, x, out) (trace_of key compile fs h) -> transparent_at key compile s x out.
Proof. exact (@cache_transparent). Qed.
Print Assumptions C17_cache_transparent.

(** ... and [key_sound] is necessary: a collision between two requests with
    different uncached results is a two-call history with a wrong hit. *)
Theorem C17_key_soundness_necessary :
  forall (A E spec : Type) (key : list bytes -> opts A E -> result bytes)
         (compile : list bytes -> opts A E -> result spec)
         fs names names' f f' o o' k v,
    read_all fs names = Ok f -> read_all fs names' = Ok f' ->
    key f o = Ok k -> key f' o' = Ok k -> compile f o = Ok v -> compile f' o' <> Ok v ->
    exists s, In (s, OCompile names' o', Ret true (Ok v))
                 (trace_of key compile fs [OCompile names o; OCompile names' o']) /\
              uncached compile s names' o' <> Ok v.
Proof. exact (@unsound_key_not_transparent). Qed.
Print Assumptions C17_key_soundness_necessary.

(** The property for the code as it is in /repo now. *)
Theorem C17_cache_transparent_repo :
  forall (A E spec : Type) (ser_a : A -> bytes) (ser_e : E -> bytes),
    (forall x y, ser_a x = ser_a y -> x = y) -> (forall x y, ser_e x = ser_e y -> x = y) ->
    forall (compile : list bytes -> opts A E -> result spec) fs h,
      forallb (@fault_free A E spec) h = true ->
      forall s x out, In (s, x, out) (trace_of (repo_key ser_a ser_e) compile fs h) ->
      transparent_at (repo_key ser_a ser_e) compile s x out.
Proof. exact (@repo_cache_transparent). Qed.
Print Assumptions C17_cache_transparent_repo.

(** (c) A writer killed before or after the commit preserves the invariant
    (no third outcome: assumed atomicity of the diskcache/SQLite commit). *)
Theorem C17_crash_preserves_inv :
  forall (A E spec : Type) (key : list bytes -> opts A E -> result bytes)
         (compile : list bytes -> opts A E -> result spec) s names o ph,
    key_sound key compile -> Inv key compile s ->
    Inv key compile (fst (step key compile s (OCrash names o ph))).
Proof. exact (@crash_preserves_inv). Qed.
Print Assumptions C17_crash_preserves_inv.

(** The invariant of DESIGN.md holds in every state of every history whose
    faults are crashes or detected damage. *)
Theorem C17_invariant_over_histories :
  forall (A E spec : Type) (key : list bytes -> opts A E -> result bytes)
         (compile : list bytes -> opts A E -> result spec) fs h,
    key_sound key compile -> forallb (@detected A E spec) h = true ->
    Inv key compile (fst (run key compile (empty_state fs) h)) /\
    forall s x out, In (s, x, out) (trace_of key compile fs h) -> Inv key compile s.
Proof. exact (@run_inv). Qed.
Print Assumptions C17_invariant_over_histories.

(** Damage that the store or pickle detects (entry lost, entry unreadable,
    database unreadable), in /repo's current code: an error or the right
    Specification, never another one. *)
Theorem C17_cache_fault_safe_repo :
  forall (A E spec : Type) (ser_a : A -> bytes) (ser_e : E -> bytes),
    (forall x y, ser_a x = ser_a y -> x = y) -> (forall x y, ser_e x = ser_e y -> x = y) ->
    forall (compile : list bytes -> opts A E -> result spec) fs h,
      forallb (@detected A E spec) h = true ->
      forall s x out, In (s, x, out) (trace_of (repo_key ser_a ser_e) compile fs h) ->
      safe_at compile s x out.
Proof. exact (@repo_cache_fault_safe). Qed.
Print Assumptions C17_cache_fault_safe_repo.

(** REFUTED part of the property ("a damaged cache ... never a wrong codec"):
    stored bytes that change and still unpickle are returned as they are,
    whatever the key (known finding C17-pickle-no-integrity). *)
Theorem C17_silent_alteration_refuted :
  forall (A E spec : Type) (key : list bytes -> opts A E -> result bytes)
         (compile : list bytes -> opts A E -> result spec) fs names f o k v w,
    read_all fs names = Ok f -> key f o = Ok k -> compile f o = Ok v -> w <> v ->
    exists s, In (s, OCompile names o, Ret true (Ok w))
                 (trace_of key compile fs [OCompile names o; OCorrupt k (CAlter w); OCompile names o]) /\
              uncached compile s names o = Ok v /\ ~ safe_at compile s (OCompile names o) (Ret true (Ok w)).
Proof. exact (@silent_alteration_refuted). Qed.
Print Assumptions C17_silent_alteration_refuted.

(** REFUTED for the key as coded upstream (codec ++ contents): it is not
    injective (options; file boundaries; codec name running into the first
    file), and the corresponding two-call histories return the Specification
    of the other request.  Replayed on /repo by harness/c17.py. *)
Theorem C17_upstream_key_not_injective_refuted :
  forall (A E : Type) (ser_a : A -> bytes) (ser_e : E -> bytes) (a : A) (e : E),
    (exists f o o' k, o <> o' /\
        key_orig ser_a ser_e f o = Ok k /\ key_orig ser_a ser_e f o' = Ok k) /\
    (exists f f' o k, f <> f' /\
        key_orig ser_a ser_e f o = Ok k /\ key_orig ser_a ser_e f' o = Ok k) /\
    (exists f f' o o' k, o_codec o <> o_codec o' /\
        key_orig ser_a ser_e f o = Ok k /\ key_orig ser_a ser_e f' o' = Ok k).
Proof. exact (@key_orig_not_injective_refuted). Qed.
Print Assumptions C17_upstream_key_not_injective_refuted.

Theorem C17_upstream_key_not_transparent_refuted :
  wrong_hit [0; 1] [0; 1] (ber false false false) (ber true false false) /\
  wrong_hit [0; 1] [0; 1] (ber false false false) (ber false true false) /\
  wrong_hit [0; 1] [0; 1] (ber false false false) (ber false false true) /\
  wrong_hit [0; 1] [2; 3] (ber false false false) (ber false false false) /\
  wrong_hit [5] [4] (ber false false false) (mkOpts (str "b") false false false).
Proof. exact upstream_key_not_transparent_refuted. Qed.
Print Assumptions C17_upstream_key_not_transparent_refuted.

(** The codec-name collision needs an unsupported codec name: no supported
    name is a prefix of another one. *)
Theorem C17_valid_codecs_prefix_free :
  forall c1 c2 (x y : bytes),
    In c1 valid_codecs -> In c2 valid_codecs -> c1 ++ x = c2 ++ y -> c1 = c2.
Proof. exact valid_codecs_prefix_free. Qed.
Print Assumptions C17_valid_codecs_prefix_free.

(** Non-vacuity: with [repr] = identity on byte strings and the free compile
    (the Specification is the request) the hypotheses hold, and a concrete
    history exercises miss, hit, miss after an option change, miss after an
    edit, hit after the edit is reverted through a second file, a crash on
    either side of the commit, and a lost entry:
      0:'ab' 1:'c';  uper/False  miss, again: hit, numeric_enums=True: miss,
      files 'a','bc' (2,3): miss, edit 0:='a' 1:='bc' and compile 0,1: hit. *)
Example C17_hypotheses_inhabited :
  let o := mkOpts (str "uper") false [78] [39; 117; 39] in
  let o' := mkOpts (str "uper") true [78] [39; 117; 39] in
  let compile := fun (f : list bytes) (o : sopts) => Ok (f, o) in
  let h := [OEdit 0 [97; 98]; OEdit 1 [99]; OEdit 2 [97]; OEdit 3 [98; 99];
            OCompile [0; 1] o; OCompile [0; 1] o; OCompile [0; 1] o'; OCompile [2; 3] o;
            OEdit 0 [97]; OEdit 1 [98; 99]; OCompile [0; 1] o;
            OCrash [1] o BeforeCommit; OCompile [1] o; OCrash [2] o AfterCommit; OCompile [2] o;
            OCorrupt (match sym_key [[97]] o with Ok k => k | Err _ => [] end) CLose;
            OCompile [2] o] in
  key_injective sym_key /\
  map (fun e => match snd e with Ret hit (Ok (f, _)) => Some (hit, f) | _ => None end)
      (filter (fun e => match snd e with Ret _ _ => true | NoRet => false end)
              (trace_of sym_key compile [] h)) =
  [Some (false, [[97; 98]; [99]]); Some (true, [[97; 98]; [99]]); Some (false, [[97; 98]; [99]]);
   Some (false, [[97]; [98; 99]]); Some (true, [[97]; [98; 99]]);
   Some (false, [[98; 99]]); Some (true, [[97]]); Some (false, [[97]])].
Proof.
  split.
  - intros f o f' o' k. apply (@repo_key_injective bytes bytes (fun x => x) (fun x => x)); auto.
  - vm_compute. reflexivity.
Qed.
Print Assumptions C17_hypotheses_inhabited.
