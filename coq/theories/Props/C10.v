(** C10 — placeholder, replaced when the helper proofs are in. *)
From Asn1V Require Import Base.Prelude CGen.Helpers CGen.OerHelpers CGen.GenLogicOer CGen.GenLogicOerProofs.
Theorem C10_gen_length_determinant_length_refuted :
  exists n, 0 <= n < 4294967296 /\ gen_length_determinant_length n <> x696_length_determinant_octets n /\
            gen_length_determinant_length n <> length_determinant_length n.
Proof. exact gen_length_determinant_length_refuted. Qed.
Print Assumptions C10_gen_length_determinant_length_refuted.
