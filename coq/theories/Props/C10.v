(** C10 — Generated OER C code is equivalent to the Python OER codec and
    memory-safe.  STATEMENTS ONLY; proofs are in CGen/OerHelpersProofs.v,
    CGen/OerHelpersTie.v, CGen/OerHelpersIrTie.v, CGen/GenLogicOerProofs.v.

    Proved: properties of the model (CGen/OerHelpers.v) of the helper block that
    every generated OER source contains, the equality of that model with the IR
    translation of the helper C text of /repo (regenerated on this run), and
    the static length arithmetic of the generator.  NOT proved: equivalence of
    the generated per-type functions with the Python OER codec, skipping of
    unknown extension additions, memory safety of the binary - those are
    explored by harness/c10.py (see notes/C10.md). *)
From Asn1V Require Import Base.Prelude CGen.Helpers CGen.HelpersSpec CGen.OerHelpers CGen.OerHelpersSpec.
From Asn1V Require Import CGen.OerHelpersProofs CGen.OerHelpersTie CGen.GenLogic CGen.GenLogicOer CGen.GenLogicOerProofs.
From Asn1V Require Import CGen.Ir CGen.HelpersIrTie CGen.OerHelpersIrTie Oer.X696.
From Asn1Gen Require Import OerHelpers OerHelpersIr.

(** * The helper model: in bounds, latch, X.696 octets, round trips *)

Theorem C10_oer_helpers_in_bounds_enc : forall os s, owf s -> Forall oeop_ok os ->
  exists s', run_oeops s os = COk s' /\ owf s' /\ length (buf s') = length (buf s) /\ (olatched s -> s' = s).
Proof. exact oer_helpers_in_bounds_enc. Qed.
Print Assumptions C10_oer_helpers_in_bounds_enc.

Theorem C10_oer_enc_overflow_latches : forall s o, olive s -> oeop_ok o -> oeop_is_abort o = false ->
  size s < pos s + oeop_bytes o ->
  exists s', run_oeop s o = COk s' /\ olatched s' /\ oget_result s' = - ENOMEM.
Proof. exact oer_enc_overflow_latches. Qed.
Print Assumptions C10_oer_enc_overflow_latches.

Theorem C10_oer_enc_latch_sticky : forall os1 os2 s s1, owf s -> Forall oeop_ok (os1 ++ os2) ->
  run_oeops s os1 = COk s1 -> olatched s1 -> run_oeops s (os1 ++ os2) = COk s1.
Proof. exact oer_enc_latch_sticky. Qed.
Print Assumptions C10_oer_enc_latch_sticky.

Theorem C10_oer_helpers_match_x696 : forall os s, olive s -> Forall oeop_ok os -> ono_abort os ->
  pos s + ototal_bytes os <= size s ->
  exists s', run_oeops s os = COk s' /\ olive s' /\ size s' = size s /\
             pos s' = pos s + ototal_bytes os /\
             owritten s' = owritten s ++ flat_map oeop_spec os.
Proof. exact oer_helpers_match_x696. Qed.
Print Assumptions C10_oer_helpers_match_x696.

Theorem C10_oer_helpers_in_bounds_dec : forall os s, owf s -> Forall odop_ok os ->
  exists s' vs, run_odops s os = COk (s', vs) /\ owf s' /\ buf s' = buf s /\ (olatched s -> s' = s) /\
    Forall2 (fun o v => match o with RBytes cap _ => len v = cap | _ => True end) os vs.
Proof. exact oer_helpers_in_bounds_dec. Qed.
Print Assumptions C10_oer_helpers_in_bounds_dec.

Theorem C10_oer_dec_overflow_latches : forall s o k, olive s -> odop_ok o -> odop_len o = Some k ->
  size s < pos s + k ->
  exists s' v, run_odop s o = COk (s', v) /\ olatched s' /\ oget_result s' = - EOUTOFDATA.
Proof. exact oer_dec_overflow_latches. Qed.
Print Assumptions C10_oer_dec_overflow_latches.

Theorem C10_oer_dec_latch_sticky : forall os1 os2 s s1 vs1, owf s ->
  Forall odop_ok (os1 ++ os2) -> run_odops s os1 = COk (s1, vs1) -> olatched s1 ->
  exists vs2, run_odops s (os1 ++ os2) = COk (s1, vs1 ++ vs2) /\ length vs2 = length os2.
Proof. exact oer_dec_latch_sticky. Qed.
Print Assumptions C10_oer_dec_latch_sticky.

Theorem C10_odop_matches_spec : forall s o k, olive s -> odop_ok o -> odop_len o = Some k ->
  pos s + k <= size s -> run_odop s o = COk (adv s k, odop_val s o).
Proof. exact odop_matches_spec. Qed.
Print Assumptions C10_odop_matches_spec.

Theorem C10_oer_fixed_roundtrip : forall s o d v s', olive s -> oint_pair o d v ->
  pos s + oeop_bytes o <= size s -> run_oeop s o = COk s' ->
  run_odop (mkCur (buf s') (size s) (pos s)) d =
  COk (mkCur (buf s') (size s) (pos s + oeop_bytes o), [v]).
Proof. exact oer_fixed_roundtrip. Qed.
Print Assumptions C10_oer_fixed_roundtrip.

Theorem C10_oer_uint_roundtrip : forall s v k s', olive s -> 1 <= k <= 4 -> 0 <= v < 256 ^ k ->
  pos s + k <= size s -> oappend_uint s v k = COk s' ->
  oread_uint (mkCur (buf s') (size s) (pos s)) k = COk (mkCur (buf s') (size s) (pos s + k), v).
Proof. exact oer_uint_roundtrip. Qed.
Print Assumptions C10_oer_uint_roundtrip.

Theorem C10_oer_length_determinant_roundtrip : forall s n s', olive s -> 0 <= n < 4294967296 ->
  pos s + length_determinant_length n <= size s -> oappend_length_determinant s n = COk s' ->
  oread_length_determinant (mkCur (buf s') (size s) (pos s)) =
  COk (mkCur (buf s') (size s) (pos s + length_determinant_length n), n).
Proof. exact oer_length_determinant_roundtrip. Qed.
Print Assumptions C10_oer_length_determinant_roundtrip.

Theorem C10_oer_long_uint_roundtrip : forall s v k s', olive s -> 0 <= k <= 8 -> 0 <= v < 256 ^ k ->
  pos s + k <= size s -> oappend_long_uint s v k = COk s' ->
  oread_long_uint (mkCur (buf s') (size s) (pos s)) k = COk (mkCur (buf s') (size s) (pos s + k), v).
Proof. exact oer_long_uint_roundtrip. Qed.
Print Assumptions C10_oer_long_uint_roundtrip.

Theorem C10_oer_int_roundtrip : forall s v k s', olive s -> 1 <= k <= 4 ->
  - (256 ^ k) / 2 <= v < 256 ^ k / 2 ->
  pos s + k <= size s -> oappend_int s v k = COk s' ->
  oread_int (mkCur (buf s') (size s) (pos s)) k = COk (mkCur (buf s') (size s) (pos s + k), v).
Proof. exact oer_int_roundtrip. Qed.
Print Assumptions C10_oer_int_roundtrip.

Theorem C10_oer_enumerated_value_length_spec : forall v, -2147483648 <= v < 2147483648 ->
  (enumerated_value_length v = 0 <-> 0 <= v < 128) /\
  (~ (0 <= v < 128) ->
   1 <= enumerated_value_length v <= 4 /\
   - (256 ^ enumerated_value_length v) / 2 <= v < 256 ^ enumerated_value_length v / 2 /\
   forall k, 1 <= k <= 4 -> - (256 ^ k) / 2 <= v < 256 ^ k / 2 -> enumerated_value_length v <= k).
Proof. exact oer_enumerated_value_length_spec. Qed.
Print Assumptions C10_oer_enumerated_value_length_spec.

Theorem C10_oer_length_determinant_is_x696 : forall n, 0 <= n < 4294967296 ->
  Some (oeop_spec (OLenDet n)) = Oer.X696.x_length n.
Proof. exact oer_length_determinant_is_x696. Qed.
Print Assumptions C10_oer_length_determinant_is_x696.

(** * Textual tie: the helper text in /repo is the one the model was written against *)
Theorem C10_helper_text : oer_helper_norm = oer_expected_norm.
Proof. exact oer_helper_text_is_the_modelled_one. Qed.
Print Assumptions C10_helper_text.

(** * Semantic tie: the IR translation of every helper function of /repo's oer_functions.py computes the model function *)

Theorem C10_oir_encoder_abort : forall fuel b sz ps e, (20 <= fuel)%nat ->
  in_s64 sz = true -> in_s64 ps = true -> -9223372036854775807 <= e <= 9223372036854775807 ->
  run P fuel "encoder_abort" [cursor_val b sz ps; VInt e] =
  ROk (None, [cur_val (abort (mkCur b sz ps) e); VInt e]).
Proof. exact oir_encoder_abort. Qed.
Print Assumptions C10_oir_encoder_abort.

Theorem C10_oir_decoder_abort : forall fuel b sz ps e, (20 <= fuel)%nat ->
  in_s64 sz = true -> in_s64 ps = true -> -9223372036854775807 <= e <= 9223372036854775807 ->
  run P fuel "decoder_abort" [cursor_val b sz ps; VInt e] =
  ROk (None, [cur_val (abort (mkCur b sz ps) e); VInt e]).
Proof. exact oir_decoder_abort. Qed.
Print Assumptions C10_oir_decoder_abort.

Theorem C10_oir_encoder_alloc : forall fuel b sz ps n, (30 <= fuel)%nat ->
  in_s64 sz = true -> in_s64 ps = true ->
  run P fuel "encoder_alloc" [cursor_val b sz ps; VInt n] =
  match oencoder_alloc (mkCur b sz ps) n with
  | COk (s', p) => ROk (Some p, [cur_val s'; VInt n])
  | COob => RFail FOob | CUb => RFail FUb end.
Proof. exact oir_encoder_alloc. Qed.
Print Assumptions C10_oir_encoder_alloc.

Theorem C10_oir_decoder_free : forall fuel b sz ps n, (30 <= fuel)%nat ->
  in_s64 sz = true -> in_s64 ps = true ->
  run P fuel "decoder_free" [cursor_val b sz ps; VInt n] =
  match odecoder_free (mkCur b sz ps) n with
  | COk (s', p) => ROk (Some p, [cur_val s'; VInt n])
  | COob => RFail FOob | CUb => RFail FUb end.
Proof. exact oir_decoder_free. Qed.
Print Assumptions C10_oir_decoder_free.

Theorem C10_oir_encoder_init : forall fuel v1 v2 v3 b n, (20 <= fuel)%nat ->
  run P fuel "encoder_init" [rec3 v1 v2 v3; bytes_val b; VInt n] =
  ROk (None, [cur_val (oinit b n); bytes_val b; VInt n]).
Proof. exact oir_encoder_init. Qed.
Print Assumptions C10_oir_encoder_init.

Theorem C10_oir_decoder_init : forall fuel v1 v2 v3 b n, (20 <= fuel)%nat ->
  run P fuel "decoder_init" [rec3 v1 v2 v3; bytes_val b; VInt n] =
  ROk (None, [cur_val (oinit b n); bytes_val b; VInt n]).
Proof. exact oir_decoder_init. Qed.
Print Assumptions C10_oir_decoder_init.

Theorem C10_oir_encoder_get_result : forall fuel b sz ps, (20 <= fuel)%nat -> in_s64 ps = true ->
  run P fuel "encoder_get_result" [cursor_val b sz ps] =
  ROk (Some (oget_result (mkCur b sz ps)), [cursor_val b sz ps]).
Proof. exact oir_encoder_get_result. Qed.
Print Assumptions C10_oir_encoder_get_result.

Theorem C10_oir_decoder_get_result : forall fuel b sz ps, (20 <= fuel)%nat -> in_s64 ps = true ->
  run P fuel "decoder_get_result" [cursor_val b sz ps] =
  ROk (Some (oget_result (mkCur b sz ps)), [cursor_val b sz ps]).
Proof. exact oir_decoder_get_result. Qed.
Print Assumptions C10_oir_decoder_get_result.

Theorem C10_oir_encoder_append_bytes : forall fuel b sz ps src n, (40 <= fuel)%nat ->
  in_s64 sz = true -> in_s64 ps = true ->
  run P fuel "encoder_append_bytes" [cursor_val b sz ps; bytes_val src; VInt n] =
  match oappend_bytes (mkCur b sz ps) src n with
  | COk s' => ROk (None, [cur_val s'; bytes_val src; VInt n])
  | COob => RFail FOob | CUb => RFail FUb end.
Proof. exact oir_encoder_append_bytes. Qed.
Print Assumptions C10_oir_encoder_append_bytes.

Theorem C10_oir_decoder_read_bytes : forall fuel b sz ps dst n, (40 + Z.to_nat (u64 n) <= fuel)%nat ->
  in_s64 sz = true -> in_s64 ps = true ->
  run P fuel "decoder_read_bytes" [cursor_val b sz ps; bytes_val dst; VInt n] =
  match oread_bytes (mkCur b sz ps) dst n with
  | COk (s', d) => ROk (None, [cur_val s'; bytes_val d; VInt n])
  | COob => RFail FOob | CUb => RFail FUb end.
Proof. exact oir_decoder_read_bytes. Qed.
Print Assumptions C10_oir_decoder_read_bytes.

Theorem C10_oir_encoder_append_uint8 : enc_run "encoder_append_uint8" oappend_uint8 60.
Proof. exact oir_encoder_append_uint8. Qed.
Print Assumptions C10_oir_encoder_append_uint8.

Theorem C10_oir_encoder_append_uint16 : enc_run "encoder_append_uint16" oappend_uint16 60.
Proof. exact oir_encoder_append_uint16. Qed.
Print Assumptions C10_oir_encoder_append_uint16.

Theorem C10_oir_encoder_append_uint32 : enc_run "encoder_append_uint32" oappend_uint32 60.
Proof. exact oir_encoder_append_uint32. Qed.
Print Assumptions C10_oir_encoder_append_uint32.

Theorem C10_oir_encoder_append_uint64 : enc_run "encoder_append_uint64" oappend_uint64 60.
Proof. exact oir_encoder_append_uint64. Qed.
Print Assumptions C10_oir_encoder_append_uint64.

Theorem C10_oir_encoder_append_int8 : enc_run "encoder_append_int8" oappend_int8 60.
Proof. exact oir_encoder_append_int8. Qed.
Print Assumptions C10_oir_encoder_append_int8.

Theorem C10_oir_encoder_append_int16 : enc_run "encoder_append_int16" oappend_int16 60.
Proof. exact oir_encoder_append_int16. Qed.
Print Assumptions C10_oir_encoder_append_int16.

Theorem C10_oir_encoder_append_int32 : enc_run "encoder_append_int32" oappend_int32 60.
Proof. exact oir_encoder_append_int32. Qed.
Print Assumptions C10_oir_encoder_append_int32.

Theorem C10_oir_encoder_append_int64 : enc_run "encoder_append_int64" oappend_int64 60.
Proof. exact oir_encoder_append_int64. Qed.
Print Assumptions C10_oir_encoder_append_int64.

Theorem C10_oir_encoder_append_float : enc_run "encoder_append_float" oappend_float 60.
Proof. exact oir_encoder_append_float. Qed.
Print Assumptions C10_oir_encoder_append_float.

Theorem C10_oir_encoder_append_double : enc_run "encoder_append_double" oappend_double 60.
Proof. exact oir_encoder_append_double. Qed.
Print Assumptions C10_oir_encoder_append_double.

Theorem C10_oir_encoder_append_bool :
  enc_run "encoder_append_bool" (fun s z => oappend_bool s (negb (z =? 0))) 60.
Proof. exact oir_encoder_append_bool. Qed.
Print Assumptions C10_oir_encoder_append_bool.

Theorem C10_oir_decoder_read_uint8 : dec_run "decoder_read_uint8" oread_uint8 60.
Proof. exact oir_decoder_read_uint8. Qed.
Print Assumptions C10_oir_decoder_read_uint8.

Theorem C10_oir_decoder_read_uint16 : dec_run "decoder_read_uint16" oread_uint16 60.
Proof. exact oir_decoder_read_uint16. Qed.
Print Assumptions C10_oir_decoder_read_uint16.

Theorem C10_oir_decoder_read_uint32 : dec_run "decoder_read_uint32" oread_uint32 60.
Proof. exact oir_decoder_read_uint32. Qed.
Print Assumptions C10_oir_decoder_read_uint32.

Theorem C10_oir_decoder_read_uint64 : dec_run "decoder_read_uint64" oread_uint64 60.
Proof. exact oir_decoder_read_uint64. Qed.
Print Assumptions C10_oir_decoder_read_uint64.

Theorem C10_oir_decoder_read_int8 : dec_run "decoder_read_int8" oread_int8 60.
Proof. exact oir_decoder_read_int8. Qed.
Print Assumptions C10_oir_decoder_read_int8.

Theorem C10_oir_decoder_read_int16 : dec_run "decoder_read_int16" oread_int16 60.
Proof. exact oir_decoder_read_int16. Qed.
Print Assumptions C10_oir_decoder_read_int16.

Theorem C10_oir_decoder_read_int32 : dec_run "decoder_read_int32" oread_int32 60.
Proof. exact oir_decoder_read_int32. Qed.
Print Assumptions C10_oir_decoder_read_int32.

Theorem C10_oir_decoder_read_int64 : dec_run "decoder_read_int64" oread_int64 60.
Proof. exact oir_decoder_read_int64. Qed.
Print Assumptions C10_oir_decoder_read_int64.

Theorem C10_oir_decoder_read_float : dec_run "decoder_read_float" oread_float 60.
Proof. exact oir_decoder_read_float. Qed.
Print Assumptions C10_oir_decoder_read_float.

Theorem C10_oir_decoder_read_double : dec_run "decoder_read_double" oread_double 60.
Proof. exact oir_decoder_read_double. Qed.
Print Assumptions C10_oir_decoder_read_double.

Theorem C10_oir_decoder_read_bool : dec_run "decoder_read_bool" oread_bool_z 60.
Proof. exact oir_decoder_read_bool. Qed.
Print Assumptions C10_oir_decoder_read_bool.

Theorem C10_oir_length_determinant_length : forall fuel v, (30 <= fuel)%nat ->
  run P fuel "length_determinant_length" [VInt v] =
  ROk (Some (length_determinant_length v), [VInt v]).
Proof. exact oir_length_determinant_length. Qed.
Print Assumptions C10_oir_length_determinant_length.

Theorem C10_oir_minimum_uint_length : forall fuel v, (30 <= fuel)%nat ->
  run P fuel "minimum_uint_length" [VInt v] =
  ROk (Some (minimum_uint_length v), [VInt v]).
Proof. exact oir_minimum_uint_length. Qed.
Print Assumptions C10_oir_minimum_uint_length.

Theorem C10_oir_enumerated_value_length : forall fuel v, (30 <= fuel)%nat ->
  run P fuel "enumerated_value_length" [VInt v] =
  ROk (Some (enumerated_value_length v), [VInt v]).
Proof. exact oir_enumerated_value_length. Qed.
Print Assumptions C10_oir_enumerated_value_length.

Theorem C10_oir_encoder_append_uint : forall fuel b sz ps v k, (80 <= fuel)%nat ->
  in_s64 sz = true -> in_s64 ps = true ->
  run P fuel "encoder_append_uint" [cursor_val b sz ps; VInt v; VInt k] =
  match oappend_uint (mkCur b sz ps) v k with
  | COk s' => ROk (None, [cur_val s'; VInt v; VInt k])
  | COob => RFail FOob | CUb => RFail FUb end.
Proof. exact oir_encoder_append_uint. Qed.
Print Assumptions C10_oir_encoder_append_uint.

Theorem C10_oir_encoder_append_int : forall fuel b sz ps v k, (80 <= fuel)%nat ->
  in_s64 sz = true -> in_s64 ps = true ->
  run P fuel "encoder_append_int" [cursor_val b sz ps; VInt v; VInt k] =
  match oappend_int (mkCur b sz ps) v k with
  | COk s' => ROk (None, [cur_val s'; VInt v; VInt k])
  | COob => RFail FOob | CUb => RFail FUb end.
Proof. exact oir_encoder_append_int. Qed.
Print Assumptions C10_oir_encoder_append_int.

Theorem C10_oir_encoder_append_length_determinant :
  enc_run "encoder_append_length_determinant" oappend_length_determinant 80.
Proof. exact oir_encoder_append_length_determinant. Qed.
Print Assumptions C10_oir_encoder_append_length_determinant.

Theorem C10_oir_decoder_read_uint : dec_run_v "decoder_read_uint" oread_uint 90.
Proof. exact oir_decoder_read_uint. Qed.
Print Assumptions C10_oir_decoder_read_uint.

Theorem C10_oir_decoder_read_int : dec_run_v "decoder_read_int" oread_int 90.
Proof. exact oir_decoder_read_int. Qed.
Print Assumptions C10_oir_decoder_read_int.

Theorem C10_oir_decoder_read_length_determinant :
  dec_run "decoder_read_length_determinant" oread_length_determinant 90.
Proof. exact oir_decoder_read_length_determinant. Qed.
Print Assumptions C10_oir_decoder_read_length_determinant.

Theorem C10_oir_decoder_read_long_uint : forall fuel b sz ps k, (90 + Z.to_nat (u8 k) <= fuel)%nat ->
  in_s64 sz = true -> in_s64 ps = true -> bytes_ok b ->
  run P fuel "decoder_read_long_uint" [cursor_val b sz ps; VInt k] =
  match oread_long_uint (mkCur b sz ps) k with
  | COk (s', r) => ROk (Some r, [cur_val s'; VInt k])
  | COob => RFail FOob | CUb => RFail FUb end.
Proof. exact oir_decoder_read_long_uint. Qed.
Print Assumptions C10_oir_decoder_read_long_uint.

Theorem C10_oir_encoder_append_long_uint : forall fuel b sz ps v k, (90 <= fuel)%nat ->
  in_s64 sz = true -> in_s64 ps = true ->
  run P fuel "encoder_append_long_uint" [cursor_val b sz ps; VInt v; VInt k] =
  match oappend_long_uint (mkCur b sz ps) v k with
  | COk s' => ROk (None, [cur_val s'; VInt v; VInt k])
  | COob => RFail FOob | CUb => RFail FUb end.
Proof. exact oir_encoder_append_long_uint. Qed.
Print Assumptions C10_oir_encoder_append_long_uint.

Theorem C10_oir_decoder_read_tag : forall fuel b sz ps, (90 + length b <= fuel)%nat ->
  in_s64 sz = true -> in_s64 ps = true -> bytes_ok b ->
  run P fuel "decoder_read_tag" [cursor_val b sz ps] =
  match oread_tag (mkCur b sz ps) with
  | COk (s', r) => ROk (Some r, [cur_val s'])
  | COob => RFail FOob | CUb => RFail FUb end.
Proof. exact oir_decoder_read_tag. Qed.
Print Assumptions C10_oir_decoder_read_tag.

(** * Static length arithmetic of the generator *)

Theorem C10_gen_length_determinant_length_fixed_sound : forall n, 0 <= n < 4294967296 ->
  gen_length_determinant_length_fixed n = x696_length_determinant_octets n /\
  gen_length_determinant_length_fixed n = length_determinant_length n.
Proof. exact gen_length_determinant_length_fixed_sound. Qed.
Print Assumptions C10_gen_length_determinant_length_fixed_sound.

Theorem C10_gen_length_determinant_length_refuted :
  exists n, 0 <= n < 4294967296 /\ gen_length_determinant_length n <> x696_length_determinant_octets n /\
            gen_length_determinant_length n <> length_determinant_length n.
Proof. exact gen_length_determinant_length_refuted. Qed.
Print Assumptions C10_gen_length_determinant_length_refuted.

Theorem C10_gen_length_determinant_length_wrong_region : forall n, 0 <= n < 4294967296 ->
  (gen_length_determinant_length n <> x696_length_determinant_octets n <-> 1677726 <= n < 16777216).
Proof. exact gen_length_determinant_length_wrong_region. Qed.
Print Assumptions C10_gen_length_determinant_length_wrong_region.

Theorem C10_mask_length_spec : forall k, 0 <= k -> 8 * additions_mask_length k - 8 < k <= 8 * additions_mask_length k.
Proof. exact mask_length_spec. Qed.
Print Assumptions C10_mask_length_spec.

Theorem C10_gen_enumerated_value_length_agrees : forall v k, -2147483648 <= v < 2147483648 ->
  gen_enumerated_value_length v = Some k ->
  (0 <= v < 128 -> enumerated_value_length v = 0 /\ k = 1) /\
  (~ (0 <= v < 128) -> enumerated_value_length v = k).
Proof. exact gen_enumerated_value_length_agrees. Qed.
Print Assumptions C10_gen_enumerated_value_length_agrees.

Theorem C10_integer_static_length_is_x696 : forall lo hi w,
  lo <= hi -> type_length_fixed lo hi = Some w -> x696_int_octets lo hi = Some (w / 8).
Proof. exact integer_static_length_is_x696. Qed.
Print Assumptions C10_integer_static_length_is_x696.

Theorem C10_integer_static_length_unrepaired_refuted :
  exists lo hi w, lo <= hi /\ type_length lo hi = Some w /\ x696_int_octets lo hi <> Some (w / 8).
Proof. exact integer_static_length_unrepaired_refuted. Qed.
Print Assumptions C10_integer_static_length_unrepaired_refuted.

(** Non-vacuity *)
Example C10_hypotheses_inhabited :
  let s := mkCur [0; 0; 0; 0] 4 0 in
  olive s /\
  run_oeops s [OU8 171; OLenDet 2; OBool true] = COk (mkCur [171; 2; 255; 0] 4 3).
Proof. exact oer_helpers_example. Qed.
Print Assumptions C10_hypotheses_inhabited.

(** ------------------------------------------------------------------
    The quantity field of SEQUENCE OF (CGen/GenLogicOerSizes.v): what the generated encoder writes for a fixed or
    variable SIZE - "nb = COUNT; append_uint8(nb); append_uint(VALUE, nb)" with the pasted COUNT expression - is X.696's
    quantity (minimum octets, 1..4) for every 0 <= n < 2^32, and ONLY for a COUNT that evaluates to the minimal octet
    count: the width of the C integer type (1, 2, 4, 8) is refuted at 65536.  harness/c10_sizes.py reads COUNT / VALUE,
    the decoder's comparison, loop bound and loop-variable type out of the generated C on every run. *)
From Asn1V Require CGen.GenLogicOerSizes CGen.GenLogicOerSizesProofs.

Theorem C10_quantity_runtime_is_x696 : ltac:(let T := type of Asn1V.CGen.GenLogicOerSizesProofs.quantity_runtime_is_x696 in exact T).
Proof. exact Asn1V.CGen.GenLogicOerSizesProofs.quantity_runtime_is_x696. Qed.
Print Assumptions C10_quantity_runtime_is_x696.

Theorem C10_quantity_fixed_is_x696 : ltac:(let T := type of Asn1V.CGen.GenLogicOerSizesProofs.quantity_fixed_is_x696 in exact T).
Proof. exact Asn1V.CGen.GenLogicOerSizesProofs.quantity_fixed_is_x696. Qed.
Print Assumptions C10_quantity_fixed_is_x696.

Theorem C10_quantity_count_must_be_minimal : ltac:(let T := type of Asn1V.CGen.GenLogicOerSizesProofs.quantity_count_must_be_minimal in exact T).
Proof. exact Asn1V.CGen.GenLogicOerSizesProofs.quantity_count_must_be_minimal. Qed.
Print Assumptions C10_quantity_count_must_be_minimal.

Theorem C10_quantity_type_width_refuted : ltac:(let T := type of Asn1V.CGen.GenLogicOerSizesProofs.quantity_type_width_refuted in exact T).
Proof. exact Asn1V.CGen.GenLogicOerSizesProofs.quantity_type_width_refuted. Qed.
Print Assumptions C10_quantity_type_width_refuted.
