(** C02 — Text codecs (JER, XER) round-trip every value and emit well-formed
    documents.  Statements only; proofs in Text/JerProofs.v, Text/XerProofs.v.

    Reading guide.  [jenc]/[jdec] (Text/JerImpl.v) and [xenc]/[xdec]
    (Text/XerImpl.v) are the models of the value <-> tree mappings of jer.py
    and xer.py (the latter with the REAL repair of
    proposed_fixes/C02-xer-real-format.diff).  The serialiser and parser
    (json.dumps/json.loads, ElementTree.tostring/fromstring, for every
    [indent]) are the universally quantified [ser]/[par] with the one assumed
    law [par (ser indent tree) = Some tree] on the well-formed trees
    [wf_json]/[wf_xml]; that the encoders only build such trees is proved,
    not assumed.  [jok]/[xok] are the decidable scopes (value of the shape of
    the type, distinct names, ...; see the comments at their definitions),
    [jnorm]/[xnorm] the decoded value v' (members in declaration order,
    unknown keys dropped, absent DEFAULT members filled in).  [fuel] bounds
    the nesting depth; [jok]/[xok] are false when it does not suffice, so
    EFuel is impossible in scope. *)
From Asn1V Require Import Base.Prelude Syntax.Asn1 Text.Universe Text.Json Text.Xml
     Text.JerImpl Text.XerImpl Text.JerProofs Text.XerProofs Text.NormSpec Text.Examples.
Open Scope string_scope.
Open Scope list_scope.
Open Scope Z_scope.

(** JER: every in-scope value (all of the universe, every REAL given as a
    float included: at tree level a float is handed to json unchanged). *)
Theorem jer_roundtrip :
  forall (ser : option Z -> json -> list Z) (par : list Z -> option json),
    (forall indent j, wf_json j -> par (ser indent j) = Some j) ->
    forall (env : xenv) (indent : option Z) (fuel : nat) (t : xty) (v : xvalue),
      jok env fuel t v = true ->
      exists bs, jer_encode ser env indent fuel t v = Ok bs /\
                 jer_decode par env fuel t bs = Ok (jnorm env fuel t v).
Proof. exact jer_roundtrip_bytes. Qed.
Print Assumptions jer_roundtrip.

(** The same at tree level, with well-formedness of the tree. *)
Theorem jer_roundtrip_tree :
  forall env fuel t v, jok env fuel t v = true ->
    exists j, jenc env fuel t v = Ok j /\ wf_json j /\ jdec env fuel t j = Ok (jnorm env fuel t v).
Proof. exact jer_tree_roundtrip. Qed.
Print Assumptions jer_roundtrip_tree.

(** XER (repaired REAL): the universe with REAL restricted to the special
    values inf, -inf, nan, 0.0, -0.0.
    (* OPEN: the full statement has [XTReal, XReal (RFin ..) => true] in
       [xok]; the text of a finite double is CPython's repr() with the
       decimal point moved and float() on the way back, which is not
       modelled; exactness for finite doubles is decided by the property
       test of harness/c02.py only. *) *)
Theorem xer_roundtrip_partial :
  forall (ser : option Z -> xml -> list Z) (par : list Z -> option xml),
    (forall indent e, wf_xml e -> par (ser indent e) = Some e) ->
    forall (env : xenv) (indent : option Z) (fuel : nat) (name : string) (t : xty) (v : xvalue),
      xok env fuel t v = true -> name_ok name = true ->
      exists bs, xer_encode ser env indent fuel name t v = Ok bs /\
                 xer_decode par env fuel name t bs = Ok (xnorm env fuel t v).
Proof. exact xer_roundtrip_bytes. Qed.
Print Assumptions xer_roundtrip_partial.

(** Tree level for both element forms (encode / encode_of), any backtrace. *)
Theorem xer_roundtrip_tree_partial :
  forall env fuel ofm bt name t v,
    xok env fuel t v = true -> name_ok name = true ->
    exists e, xenc env fuel ofm bt name t v = Ok e /\
              (ofm = false -> x_tag e = name) /\
              wf_xml e /\
              xdec env fuel ofm bt t e = Ok (xnorm env fuel t v).
Proof. exact xer_tree_roundtrip. Qed.
Print Assumptions xer_roundtrip_tree_partial.

(** Over the shared universe Syntax/Asn1.v, through the erasure [of_ty]. *)
Theorem jer_roundtrip_shared :
  forall (ser : option Z -> json -> list Z) (par : list Z -> option json),
    (forall indent j, wf_json j -> par (ser indent j) = Some j) ->
    forall (numeric : bool) (e : env) (indent : option Z) (fuel : nat) (t : ty) (v : value),
      jok (of_env numeric e) fuel (of_ty numeric t) (of_value v) = true ->
      exists bs, jer_encode ser (of_env numeric e) indent fuel (of_ty numeric t) (of_value v) = Ok bs /\
                 jer_decode par (of_env numeric e) fuel (of_ty numeric t) bs
                 = Ok (jnorm (of_env numeric e) fuel (of_ty numeric t) (of_value v)).
Proof. exact (fun ser par L numeric e indent fuel t v =>
                jer_roundtrip_bytes ser par L (of_env numeric e) indent fuel (of_ty numeric t) (of_value v)). Qed.
Print Assumptions jer_roundtrip_shared.

Theorem xer_roundtrip_shared_partial :
  forall (ser : option Z -> xml -> list Z) (par : list Z -> option xml),
    (forall indent x, wf_xml x -> par (ser indent x) = Some x) ->
    forall (numeric : bool) (e : env) (indent : option Z) (fuel : nat) (name : string) (t : ty) (v : value),
      xok (of_env numeric e) fuel (of_ty numeric t) (of_value v) = true -> name_ok name = true ->
      exists bs, xer_encode ser (of_env numeric e) indent fuel name (of_ty numeric t) (of_value v) = Ok bs /\
                 xer_decode par (of_env numeric e) fuel name (of_ty numeric t) bs
                 = Ok (xnorm (of_env numeric e) fuel (of_ty numeric t) (of_value v)).
Proof. exact (fun ser par L numeric e indent fuel name t v =>
                xer_roundtrip_bytes ser par L (of_env numeric e) indent fuel name (of_ty numeric t) (of_value v)). Qed.
Print Assumptions xer_roundtrip_shared_partial.

(** What v' is: as a Python dict the normalised SEQUENCE/SET value agrees
    with the input on every present member (normalised recursively), holds
    the DEFAULT for every absent DEFAULT member and has no other key; scalar
    values are unchanged; XER and JER normalise identically. *)
Theorem text_norm_members_spec :
  forall (nrm : xty -> xvalue -> xvalue) ms fs,
    nodup_str (member_names ms) = true ->
    (forall k, In k (map fst (norm_members nrm ms fs)) -> In k (member_names ms)) /\
    forall n t o, In (n, t, o) ms ->
      lookup n (norm_members nrm ms fs) =
      match lookup n fs with
      | Some x => Some (nrm t x)
      | None => match o with XDefault d => Some d | _ => None end
      end.
Proof. exact (fun nrm ms fs H => conj (norm_members_keys nrm ms fs) (norm_members_spec nrm ms fs H)). Qed.
Print Assumptions text_norm_members_spec.

Theorem text_norm_scalar_and_same :
  forall env fuel t v,
    xnorm env fuel t v = jnorm env fuel t v /\ (flat v = true -> jnorm env fuel t v = v).
Proof. exact (fun env fuel t v => conj (xnorm_jnorm env fuel t v) (jnorm_flat env fuel t v)). Qed.
Print Assumptions text_norm_scalar_and_same.

(** Refutations outside the scopes (known findings / the repaired defect),
    each replayed on /repo by harness/c02.py. *)
Theorem jer_real_int_refuted :
  exists z j, jenc [] 1 XTReal (XInt z) = Ok j /\ jdec [] 1 XTReal j = Err (EForeign "KeyError").
Proof. exact JerProofs.jer_real_int_refuted. Qed.
Print Assumptions jer_real_int_refuted.

Theorem jer_bits_fixed_ext_refuted :
  exists v v' j, jenc [] 1 (XTBits (Some 4)) v = Ok j /\ jdec [] 1 (XTBits (Some 4)) j = Ok v' /\
                 xvalue_eqb v v' = false.
Proof. exact JerProofs.jer_bits_fixed_ext_refuted. Qed.
Print Assumptions jer_bits_fixed_ext_refuted.

Theorem xer_real_inf_old_refuted : forall fuel, old_real_loop fuel RInf = OldLoops.
Proof. exact XerProofs.xer_real_inf_old_refuted. Qed.
Print Assumptions xer_real_inf_old_refuted.

(** The hypotheses are satisfiable by a non-trivial instance (recursive
    CHOICE, extensible SEQUENCE with DEFAULT/OPTIONAL/addition group, the
    three XER list-element forms, an ignored unknown key), for both
    settings of numeric_enums where names are used, and the decoded value
    differs from the input exactly by normalisation. *)
Example jer_scope_example :
  jok (ex_env false) 8 ex_ty (ex_value (RFin false 3 (-1))) = true /\
  xvalue_eqb (jnorm (ex_env false) 8 ex_ty (ex_value RNaN)) (ex_value RNaN) = false.
Proof. split; vm_compute; reflexivity. Qed.
Print Assumptions jer_scope_example.

Example xer_scope_example :
  xok (ex_env false) 8 ex_ty (ex_value RNegInf) = true /\ name_ok "Rec" = true /\
  xok (ex_env false) 8 ex_ty (ex_value (RFin false 3 (-1))) = false.
Proof. repeat split; vm_compute; reflexivity. Qed.
Print Assumptions xer_scope_example.
