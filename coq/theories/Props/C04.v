(** C04 — the BER decoder accepts every valid BER serialisation with the same
    meaning.  Statements only; proofs live in Ber/BerAccept.v (acceptance
    induction), Ber/BerAcceptBase.v (headers, end-of-contents, tag mismatch,
    segmented octet/character strings), Ber/BerAcceptBits.v (segmented bit
    strings), Ber/BerMembers.v (the member-retry loop of SEQUENCE), Ber/BerSet.v
    (SET components in any order), Ber/BerTrunc.v (truncation).
    [BerImpl.ber_decode] is the implementation model of asn1tools/codecs/ber.py
    (tied to /repo by harness/c04.py); [bser]/[bwf]/[bread] (Ber/X690.v) are
    the specification: BER data values in any form X.690 allows, their octets,
    and the value they denote; [in_scope] (Ber/BerScope.v) and [compiles]
    (Ber/BerAcceptBase.v) are decidable scope predicates. *)
From Asn1V Require Import Base.Prelude Syntax.Asn1 Ber.X690 Ber.BerScope Ber.BerImpl
     Ber.BerAcceptBase Ber.BerAccept Ber.BerAcceptD Ber.BerTrunc.

(** For EVERY BER tree [x] — each constructed encoding independently definite
    or indefinite, every definite length in short, long or zero-padded long
    form (1..126 length octets), OCTET/BIT/character strings primitive or split
    into universal-tag segments nested to any depth, SET components in any
    order, any mixture — that the specification reads as the value [v] of type
    [t], the decoder model, given the octets of [x] followed by ANY tail,
    returns exactly [v] and the end offset [length (bser x)]. *)
Theorem C04_ber_accepts :
  forall numeric e fuel t x v tail,
    in_scope numeric e fuel t = true -> compiles e fuel t = true ->
    bwf x = true -> bread numeric e fuel t x = Some v ->
    BerImpl.ber_decode numeric fuel e t (bser x ++ tail) = Ok (v, length (bser x)).
Proof. exact ber_accepts_tree. Qed.
Print Assumptions C04_ber_accepts.

(** The same for recursive types: [compiles] follows a type to the bottom of
    the fuel and is never true for a recursive type; [compilesD d] inspects the
    tag tables only [d] constructed levels deep, which is all the decoder needs
    for an encoding of depth at most [S d]. *)
Theorem C04_ber_accepts_depth :
  forall numeric e d fuel t x v tail,
    in_scope numeric e fuel t = true -> compilesD e d fuel t = true -> (bdepth x <= S d)%nat ->
    bwf x = true -> bread numeric e fuel t x = Some v ->
    BerImpl.ber_decode numeric fuel e t (bser x ++ tail) = Ok (v, length (bser x)).
Proof. exact ber_accepts_tree_D. Qed.
Print Assumptions C04_ber_accepts_depth.

(** the same on octet strings: [ber_sem_at] = "bs is a valid BER encoding denoting v" *)
Theorem C04_ber_accepts_sem :
  forall numeric e fuel t bs v,
    ber_sem_at numeric e fuel t bs v ->
    in_scope numeric e fuel t = true -> compiles e fuel t = true ->
    forall tail, BerImpl.ber_decode numeric fuel e t (bs ++ tail) = Ok (v, length bs).
Proof. exact ber_accepts. Qed.
Print Assumptions C04_ber_accepts_sem.

(** every strict prefix of a BER encoder output is rejected with a decode error *)
Theorem C04_ber_truncation :
  forall numeric e fuel t v bs k,
    scope_enc numeric e fuel t = true -> scope_dec e fuel t = true -> compiles_g false e fuel t = true ->
    BerImpl.ber_encode numeric fuel e t v = Ok bs -> BerTrunc.small bs -> (k < length bs)%nat ->
    exists err, BerImpl.ber_decode numeric fuel e t (firstn k bs) = Err err /\ is_decode_error err = true.
Proof. exact ber_truncation. Qed.
Print Assumptions C04_ber_truncation.

(** Non-vacuity: an indefinite-length SET written in non-declaration order,
    with a padded long-form length, an extension addition, a DEFAULT component
    left out, a bit string split into nested segments (one of them indefinite)
    and an explicitly tagged, segmented UTF8String satisfies every hypothesis;
    the decoder model returns the value the specification reads. *)
Definition C04_env : env := [("Inner"%string, TSeqOf false (TInt IcNone) SzNone)].
Definition C04_ty : ty :=
  TSeq true
    [("b"%string, TTag (mkTag Ctx 1 false) (TBits None SzNone), Mandatory);
     ("d"%string, TTag (mkTag Ctx 0 false) TBool, Default (VBool true));
     ("s"%string, TTag (mkTag Appl 40 true) (TStr SkUTF8 SzNone None), Mandatory)]
    (Some [(false, [("x"%string, TTag (mkTag Priv 2 false) (TRef "Inner"%string), Optional)])]).
Definition C04_tree : btlv :=
  BCons Univ 17 LIndef
    [BCons Priv 2 (LDef [130; 0; 7]) [BPrim Univ 2 [1] [5]; BPrim Univ 2 [129; 1] [255]];
     BCons Appl 40 (LDef [9]) [BCons Univ 12 (LDef [7]) [BPrim Univ 4 [1] [195]; BPrim Univ 4 [2] [165; 97]]];
     BCons Ctx 1 LIndef [BPrim Univ 3 [2] [0; 170];
                         BCons Univ 3 LIndef [BPrim Univ 3 [1] [0]; BPrim Univ 3 [2] [4; 240]]]].
Definition C04_val : value :=
  VSeq [("b"%string, VBits [170; 240] 12); ("d"%string, VBool true); ("s"%string, VStr [229; 97]);
        ("x"%string, VList [VInt 5; VInt (-1)])].
Example C04_hypotheses_inhabited :
  in_scope false C04_env 12 C04_ty = true /\ compiles C04_env 12 C04_ty = true /\
  bwf C04_tree = true /\ bread false C04_env 12 C04_ty C04_tree = Some C04_val /\
  BerImpl.ber_decode false 12 C04_env C04_ty (bser C04_tree ++ [1; 2; 3]) = Ok (C04_val, length (bser C04_tree)).
Proof. repeat split; vm_compute; reflexivity. Qed.
Print Assumptions C04_hypotheses_inhabited.

(** Non-vacuity of the depth-bounded form on a recursive type:
    T0 ::= SEQUENCE { v1 INTEGER, next2 T0 OPTIONAL }, value { v1 5, next2 { v1 7 } },
    outer encoding indefinite, inner length padded. *)
Definition C04_rec_env : env :=
  [("T0"%string, TSeq false [("v1"%string, TInt IcNone, Mandatory); ("next2"%string, TRef "T0"%string, Optional)] None)].
Definition C04_rec_tree : btlv :=
  BCons Univ 16 LIndef [BPrim Univ 2 [1] [5]; BCons Univ 16 (LDef [129; 3]) [BPrim Univ 2 [1] [7]]].
Example C04_depth_hypotheses_inhabited :
  in_scope false C04_rec_env 30 (TRef "T0"%string) = true /\
  compiles C04_rec_env 30 (TRef "T0"%string) = false /\
  compilesD C04_rec_env 3 30 (TRef "T0"%string) = true /\
  (bdepth C04_rec_tree <= 4)%nat /\ bwf C04_rec_tree = true /\
  bread false C04_rec_env 30 (TRef "T0"%string) C04_rec_tree =
    Some (VSeq [("v1"%string, VInt 5); ("next2"%string, VSeq [("v1"%string, VInt 7)])]).
Proof. repeat split; vm_compute; try reflexivity. lia. Qed.
Print Assumptions C04_depth_hypotheses_inhabited.

(** ------------------------------------------------------------------
    Tie to the SOURCE TEXT (coq/gen/PyBer.v regenerated from ber.py on every run):
    the regenerated end-of-data / end-of-contents tests, tag reader and
    subidentifier reader ARE the model functions, for all data and offsets. *)
From Asn1V Require Py.PyBerTie.

Theorem C04_src_is_end_of_data : ltac:(let T := type of Asn1V.Py.PyBerTie.py_is_end_of_data_eq in exact T).
Proof. exact Asn1V.Py.PyBerTie.py_is_end_of_data_eq. Qed.
Print Assumptions C04_src_is_end_of_data.

Theorem C04_src_detect_end_of_contents_tag : ltac:(let T := type of Asn1V.Py.PyBerTie.py_detect_end_of_contents_tag_eq in exact T).
Proof. exact Asn1V.Py.PyBerTie.py_detect_end_of_contents_tag_eq. Qed.
Print Assumptions C04_src_detect_end_of_contents_tag.

Theorem C04_src_read_tag : ltac:(let T := type of Asn1V.Py.PyBerTie.py_read_tag_eq in exact T).
Proof. exact Asn1V.Py.PyBerTie.py_read_tag_eq. Qed.
Print Assumptions C04_src_read_tag.

Theorem C04_src_decode_length : ltac:(let T := type of Asn1V.Py.PyBerTie.py_decode_length_eq in exact T).
Proof. exact Asn1V.Py.PyBerTie.py_decode_length_eq. Qed.
Print Assumptions C04_src_decode_length.

Theorem C04_src_decode_subidentifier : ltac:(let T := type of Asn1V.Py.PyBerTie.py_decode_object_identifier_subidentifier_eq in exact T).
Proof. exact Asn1V.Py.PyBerTie.py_decode_object_identifier_subidentifier_eq. Qed.
Print Assumptions C04_src_decode_subidentifier.
