(** C04 — the BER decoder accepts every valid BER serialisation with the same
    meaning.  Statements only (proofs: Ber/BerAccept.v).  Placeholder while the
    acceptance proof is being built: the reading relation is inhabited. *)
From Asn1V Require Import Base.Prelude Syntax.Asn1 Ber.X690 Ber.BerScope Ber.BerImpl.

Example C04_ber_sem_inhabited :
  ber_sem false [] (TSeq false [("a"%string, TBool, Mandatory)] None)
          (hex "30800101ff0000"%string) (VSeq [("a"%string, VBool true)]).
Proof.
  exists 5%nat, (BCons Univ 16 LIndef [BPrim Univ 1 [1] [255]]).
  split; [vm_compute; reflexivity|]. split; vm_compute; reflexivity.
Qed.
Print Assumptions C04_ber_sem_inhabited.
