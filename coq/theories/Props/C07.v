(** C07 — extension additions keep old and new versions of a type
    interoperable.  Statements only; proofs in Per/UperExt.v (UPER).

    Version 2 differs from version 1 by additions appended after the existing
    ones at an extensible node; everything below the node is common to both
    versions (its codec obeys the round-trip theorem of C01), and the node can
    sit at any depth because the theorems hold for every fuel, environment and
    continuation of the input.  OPEN: the single inductive statement over
    simultaneous extensions at several nodes ([extends t1 t2]); aligned PER,
    OER, BER/DER and the text codecs (covered by the property test). *)
From Asn1V Require Import Base.Prelude Base.Bits Syntax.Asn1 Per.UperImpl Per.UperPrim Per.UperPB Per.UperRT Per.UperExt.

(** SEQUENCE/SET, forward: a version-2 encoding (additions [common ++ new],
    members or [[groups]]) decoded by version 1 yields the version-1 view —
    root components and the additions version 1 knows; unknown additions are
    skipped by their open-type length — and leaves all following input intact. *)
Theorem C07_uper_sequence_forward :
  forall numeric e f isset root common new data bs,
    enc numeric e (S f) (TSeq isset root (Some (common ++ new))) (VSeq data) = Ok bs ->
    forall rest,
      dec numeric e (S f) (TSeq isset root (Some common)) (bs ++ rest)
      = Ok (VSeq (norm_members (norm numeric e f) (resolve e f) root data ++
                  norm_adds (enc numeric e f) (norm numeric e f) (resolve e f) common data), rest).
Proof. exact uper_seq_forward. Qed.
Print Assumptions C07_uper_sequence_forward.

(** SEQUENCE/SET, backward: a version-1 encoding decoded by version 2 is the same value. *)
Theorem C07_uper_sequence_backward :
  forall numeric e f isset root common new data bs,
    enc numeric e (S f) (TSeq isset root (Some common)) (VSeq data) = Ok bs ->
    forall rest,
      dec numeric e (S f) (TSeq isset root (Some (common ++ new))) (bs ++ rest)
      = Ok (norm numeric e (S f) (TSeq isset root (Some common)) (VSeq data), rest).
Proof. exact uper_seq_backward. Qed.
Print Assumptions C07_uper_sequence_backward.

(** CHOICE: an alternative both versions know is encoded identically by both
    and decoded by either; an alternative only version 2 knows is reported as
    absent by version 1, which skips exactly its open type. *)
Theorem C07_uper_choice_known_alternative :
  forall numeric e f root common new name x bs,
    (find_alt name root 0 <> None \/ find_alt name common 0 <> None) ->
    (enc numeric e (S f) (TChoice root (Some (common ++ new))) (VChoice name x) = Ok bs ->
     forall rest, dec numeric e (S f) (TChoice root (Some common)) (bs ++ rest)
                  = Ok (norm numeric e (S f) (TChoice root (Some common)) (VChoice name x), rest)) /\
    (enc numeric e (S f) (TChoice root (Some common)) (VChoice name x) = Ok bs ->
     forall rest, dec numeric e (S f) (TChoice root (Some (common ++ new))) (bs ++ rest)
                  = Ok (norm numeric e (S f) (TChoice root (Some (common ++ new))) (VChoice name x), rest)).
Proof. exact uper_choice_known_alternative. Qed.
Print Assumptions C07_uper_choice_known_alternative.

Theorem C07_uper_choice_unknown_alternative :
  forall numeric e f root common new name x bs,
    find_alt name root 0 = None -> find_alt name common 0 = None ->
    enc numeric e (S f) (TChoice root (Some (common ++ new))) (VChoice name x) = Ok bs ->
    forall rest, dec numeric e (S f) (TChoice root (Some common)) (bs ++ rest) = Ok (VUnknownChoice, rest).
Proof. exact uper_choice_unknown_alternative. Qed.
Print Assumptions C07_uper_choice_unknown_alternative.

(** ENUMERATED: an item only version 2 knows decodes as absent (None) under
    version 1; an item both know has the same encoding in both versions. *)
Theorem C07_uper_enum_unknown_item :
  forall numeric root adds new d bs,
    index_of_last numeric d (sort_by_value root) 0 = None ->
    index_of_last numeric d new (Z.of_nat (length adds)) <> None ->
    enc_enum numeric root (Some (adds ++ new)) d = Ok bs ->
    forall rest, read_enum numeric root (Some adds) (bs ++ rest) = Ok (VNone, rest).
Proof. exact uper_enum_unknown_item. Qed.
Print Assumptions C07_uper_enum_unknown_item.

Theorem C07_uper_enum_known_item :
  forall numeric root adds new d,
    index_of_last numeric d new (Z.of_nat (length adds)) = None ->
    enc_enum numeric root (Some (adds ++ new)) d = enc_enum numeric root (Some adds) d.
Proof. exact uper_enum_known_item. Qed.
Print Assumptions C07_uper_enum_known_item.

From Asn1V Require Oer.OerExt.

(** OER SEQUENCE/SET: a V2 encoding decoded by V1 (additions appended at the node).
    (statement = the type of [Asn1V.Oer.OerExt.oer_forward_partial]; written out in that file) *)
Theorem C07_oer_forward_partial : ltac:(let T := type of Asn1V.Oer.OerExt.oer_forward_partial in exact T).
Proof. exact Asn1V.Oer.OerExt.oer_forward_partial. Qed.
Print Assumptions C07_oer_forward_partial.

(** OER SEQUENCE/SET: a V1 encoding decoded by V2.
    (statement = the type of [Asn1V.Oer.OerExt.oer_backward_partial]; written out in that file) *)
Theorem C07_oer_backward_partial : ltac:(let T := type of Asn1V.Oer.OerExt.oer_backward_partial in exact T).
Proof. exact Asn1V.Oer.OerExt.oer_backward_partial. Qed.
Print Assumptions C07_oer_backward_partial.

(** OER ENUMERATED: an item only V2 knows decodes as absent under V1.
    (statement = the type of [Asn1V.Oer.OerExt.oer_forward_enum_new_item]; written out in that file) *)
Theorem C07_oer_forward_enum_new_item : ltac:(let T := type of Asn1V.Oer.OerExt.oer_forward_enum_new_item in exact T).
Proof. exact Asn1V.Oer.OerExt.oer_forward_enum_new_item. Qed.
Print Assumptions C07_oer_forward_enum_new_item.

(** OER CHOICE: an alternative only V2 knows is skipped and reported as absent by V1.
    (statement = the type of [Asn1V.Oer.OerExt.oer_forward_choice_new_alternative]; written out in that file) *)
Theorem C07_oer_forward_choice_new_alternative : ltac:(let T := type of Asn1V.Oer.OerExt.oer_forward_choice_new_alternative in exact T).
Proof. exact Asn1V.Oer.OerExt.oer_forward_choice_new_alternative. Qed.
Print Assumptions C07_oer_forward_choice_new_alternative.

Local Open Scope string_scope.
(** Non-vacuity: V1 = { a, ..., x }, V2 = { a, ..., x, [[ g, h ]], y }; a V2
    value with all additions present decodes under V1 to { a, x } and the
    trailing marker bits stay in place. *)
Example C07_forward_instance :
  let root := [("a", TInt (IcRange (Some 0) (Some 7) false), Mandatory)] in
  let common := [(false, [("x", TBool, Optional)])] in
  let new := [(true, [("g", TOctets SzNone, Mandatory); ("h", TInt IcNone, Optional)]);
              (false, [("y", TStr SkIA5 SzNone None, Optional)])] in
  let v2 := VSeq [("a", VInt 5); ("x", VBool true); ("g", VBytes [1; 2; 3]); ("h", VInt (-70000)); ("y", VStr [104; 105])] in
  exists bs, enc false [] 6 (TSeq false root (Some (common ++ new)%list)) v2 = Ok bs /\
             dec false [] 6 (TSeq false root (Some common)) (bs ++ [true; false; true])%list
             = Ok (VSeq [("a", VInt 5); ("x", VBool true)], [true; false; true]).
Proof. cbv zeta. eexists. split; [vm_compute; reflexivity | vm_compute; reflexivity]. Qed.
Print Assumptions C07_forward_instance.

(** ------------------------------------------------------------------
    UPER, the whole property at any nesting depth.  [extends e1 e2 f t1 t2]
    (Per/UperExtends.v, [ext_gen]) is the relation "t2 is t1 plus extension
    additions": leaves identical; SEQUENCE/SET roots pairwise related and the
    additions of t2 = those of t1 (pairwise related) followed by new ones;
    CHOICE and ENUMERATED likewise; SEQUENCE OF with related elements;
    references resolved in their own environment.  [extends_strict] adds the
    two conditions the forward direction needs (unique member names in
    version 2, DEFAULT values that are their own projection).  [proj] is the
    version-1 view of a version-2 value: unknown components dropped, an
    unknown alternative -> VUnknownChoice, an unknown item -> VNone. *)
From Asn1V Require Import Per.UperRT Per.UperExtends Per.UperExtendsEx.

Theorem C07_uper_forward :
  forall numeric e1 e2 f t1 t2 v bs,
    extends_strict numeric e1 e2 f t1 t2 ->
    enc numeric e2 f t2 v = Ok bs ->
    forall rest, dec numeric e1 f t1 (bs ++ rest)%list
                 = Ok (proj numeric e1 e2 f t1 t2 (norm numeric e2 f t2 v), rest).
Proof. exact uper_forward. Qed.
Print Assumptions C07_uper_forward.

Theorem C07_uper_backward :
  forall numeric e1 e2 f t1 t2 v bs,
    extends numeric e1 e2 f t1 t2 ->
    enc numeric e1 f t1 v = Ok bs ->
    forall rest, dec numeric e2 f t2 (bs ++ rest)%list = Ok (norm numeric e1 f t1 v, rest).
Proof. exact uper_backward. Qed.
Print Assumptions C07_uper_backward.

Theorem C07_uper_forward_octets :
  forall numeric e1 e2 fuel t1 t2 v data,
    extends_strict numeric e1 e2 fuel t1 t2 ->
    uper_encode numeric fuel e2 t2 v = Ok data ->
    forall tail, exists n,
      uper_decode numeric fuel e1 t1 (data ++ tail)%list
      = Ok (proj numeric e1 e2 fuel t1 t2 (norm numeric e2 fuel t2 v), n) /\
      (n <= 8 * length data)%nat /\ (8 * length data < n + 8)%nat.
Proof. exact uper_forward_octets. Qed.
Print Assumptions C07_uper_forward_octets.

Theorem C07_uper_backward_octets :
  forall numeric e1 e2 fuel t1 t2 v data,
    extends numeric e1 e2 fuel t1 t2 ->
    uper_encode numeric fuel e1 t1 v = Ok data ->
    forall tail, exists n,
      uper_decode numeric fuel e2 t2 (data ++ tail)%list = Ok (norm numeric e1 fuel t1 v, n) /\
      (n <= 8 * length data)%nat /\ (8 * length data < n + 8)%nat.
Proof. exact uper_backward_octets. Qed.
Print Assumptions C07_uper_backward_octets.

(** Non-vacuity: a module pair extended at four nodes at once (ENUMERATED item,
    inner SEQUENCE addition, CHOICE alternative, outer SEQUENCE additions incl.
    a group), through references and a SEQUENCE OF, is in the relation. *)
Example C07_extends_inhabited : extends_strict false env1 env2 8 top1 top2.
Proof. exact top2_extends_top1. Qed.
Print Assumptions C07_extends_inhabited.

(** ------------------------------------------------------------------
    Aligned PER: one extensible SEQUENCE/SET node in both directions and a
    CHOICE alternative known to both versions, positional form ([ERT]). *)
From Asn1V Require Import Per.PerImpl Per.PerPrim Per.PerRT Per.PerExt.

Theorem C07_per_sequence_forward : ltac:(let T := type of per_seq_forward in exact T).
Proof. exact per_seq_forward. Qed.
Print Assumptions C07_per_sequence_forward.

Theorem C07_per_sequence_backward : ltac:(let T := type of per_seq_backward in exact T).
Proof. exact per_seq_backward. Qed.
Print Assumptions C07_per_sequence_backward.

Theorem C07_per_choice_known_alternative : ltac:(let T := type of per_choice_known_alternative in exact T).
Proof. exact per_choice_known_alternative. Qed.
Print Assumptions C07_per_choice_known_alternative.

(** ------------------------------------------------------------------
    Aligned PER, the whole property at any nesting depth, for the SAME relation [extends] / projection [proj] as
    UPER (Per/PerExtends.v), in the positional form [ERT] and at octet level. *)
From Asn1V Require Import Per.PerExtends Per.PerExtendsEx.

Theorem C07_per_forward :
  forall numeric e1 e2 f t1 t2 v,
    extends_strict numeric e1 e2 f t1 t2 ->
    ERT (penc_ty numeric e2 f t2 v) (pdec_ty numeric e1 f t1)
        (proj numeric e1 e2 f t1 t2 (pnorm numeric e2 f t2 v)).
Proof. exact per_forward. Qed.
Print Assumptions C07_per_forward.

Theorem C07_per_backward :
  forall numeric e1 e2 f t1 t2 v,
    extends numeric e1 e2 f t1 t2 ->
    ERT (penc_ty numeric e1 f t1 v) (pdec_ty numeric e2 f t2) (pnorm numeric e1 f t1 v).
Proof. exact per_backward. Qed.
Print Assumptions C07_per_backward.

Theorem C07_per_forward_octets :
  forall numeric e1 e2 fuel t1 t2 v data,
    extends_strict numeric e1 e2 fuel t1 t2 ->
    per_encode numeric fuel e2 t2 v = Ok data ->
    forall tail, exists n,
      per_decode numeric fuel e1 t1 (data ++ tail)%list
      = Ok (proj numeric e1 e2 fuel t1 t2 (pnorm numeric e2 fuel t2 v), n) /\
      (n <= 8 * length data)%nat /\ (8 * length data < n + 8)%nat.
Proof. exact per_forward_octets. Qed.
Print Assumptions C07_per_forward_octets.

Theorem C07_per_backward_octets :
  forall numeric e1 e2 fuel t1 t2 v data,
    extends numeric e1 e2 fuel t1 t2 ->
    per_encode numeric fuel e1 t1 v = Ok data ->
    forall tail, exists n,
      per_decode numeric fuel e2 t2 (data ++ tail)%list = Ok (pnorm numeric e1 fuel t1 v, n) /\
      (n <= 8 * length data)%nat /\ (8 * length data < n + 8)%nat.
Proof. exact per_backward_octets. Qed.
Print Assumptions C07_per_backward_octets.

(** ------------------------------------------------------------------
    BER and DER (Ber/BerExt.v), per extended node (the node is the top of the decoded type): SEQUENCE and SET
    backward and forward, CHOICE with a new alternative (unknown -> VUnknownChoice, TLV skipped; known; backward),
    ENUMERATED with a new item (-> VNone).  DER SET forward is REFUTED inside the scope (open finding
    der-set-addition-sorted-before-known-component), as are the nested untagged extensible CHOICE and - a new
    finding - a valid indefinite-length version-2 encoding ([C07_ber_seq_forward_indefinite_refuted]).
    OPEN: composition of the node theorems through containers.
    (statements = the types of the theorems of Ber/BerExt.v; written out in notes/BER-reencode-ext.md) *)
From Asn1V Require Ber.BerExt.

Theorem C07_ber_seq_backward : ltac:(let T := type of Asn1V.Ber.BerExt.ber_seq_backward in exact T).
Proof. exact Asn1V.Ber.BerExt.ber_seq_backward. Qed.
Print Assumptions C07_ber_seq_backward.

Theorem C07_der_seq_backward : ltac:(let T := type of Asn1V.Ber.BerExt.der_seq_backward in exact T).
Proof. exact Asn1V.Ber.BerExt.der_seq_backward. Qed.
Print Assumptions C07_der_seq_backward.

Theorem C07_ber_seq_forward : ltac:(let T := type of Asn1V.Ber.BerExt.ber_seq_forward in exact T).
Proof. exact Asn1V.Ber.BerExt.ber_seq_forward. Qed.
Print Assumptions C07_ber_seq_forward.

Theorem C07_ber_set_forward : ltac:(let T := type of Asn1V.Ber.BerExt.ber_set_forward in exact T).
Proof. exact Asn1V.Ber.BerExt.ber_set_forward. Qed.
Print Assumptions C07_ber_set_forward.

Theorem C07_der_seq_forward : ltac:(let T := type of Asn1V.Ber.BerExt.der_seq_forward in exact T).
Proof. exact Asn1V.Ber.BerExt.der_seq_forward. Qed.
Print Assumptions C07_der_seq_forward.

Theorem C07_ber_choice_forward_unknown : ltac:(let T := type of Asn1V.Ber.BerExt.ber_choice_forward_unknown in exact T).
Proof. exact Asn1V.Ber.BerExt.ber_choice_forward_unknown. Qed.
Print Assumptions C07_ber_choice_forward_unknown.

Theorem C07_der_choice_forward_unknown : ltac:(let T := type of Asn1V.Ber.BerExt.der_choice_forward_unknown in exact T).
Proof. exact Asn1V.Ber.BerExt.der_choice_forward_unknown. Qed.
Print Assumptions C07_der_choice_forward_unknown.

Theorem C07_ber_choice_forward_known : ltac:(let T := type of Asn1V.Ber.BerExt.ber_choice_forward_known in exact T).
Proof. exact Asn1V.Ber.BerExt.ber_choice_forward_known. Qed.
Print Assumptions C07_ber_choice_forward_known.

Theorem C07_ber_choice_backward : ltac:(let T := type of Asn1V.Ber.BerExt.ber_choice_backward in exact T).
Proof. exact Asn1V.Ber.BerExt.ber_choice_backward. Qed.
Print Assumptions C07_ber_choice_backward.

Theorem C07_ber_enum_forward_unknown : ltac:(let T := type of Asn1V.Ber.BerExt.ber_enum_forward_unknown in exact T).
Proof. exact Asn1V.Ber.BerExt.ber_enum_forward_unknown. Qed.
Print Assumptions C07_ber_enum_forward_unknown.

Theorem C07_der_enum_forward_unknown : ltac:(let T := type of Asn1V.Ber.BerExt.der_enum_forward_unknown in exact T).
Proof. exact Asn1V.Ber.BerExt.der_enum_forward_unknown. Qed.
Print Assumptions C07_der_enum_forward_unknown.

Example C07_der_set_forward_refuted : ltac:(let T := type of Asn1V.Ber.BerExt.der_set_forward_refuted in exact T).
Proof. exact Asn1V.Ber.BerExt.der_set_forward_refuted. Qed.
Print Assumptions C07_der_set_forward_refuted.

Example C07_ber_choice_in_choice_forward_refuted : ltac:(let T := type of Asn1V.Ber.BerExt.ber_choice_in_choice_forward_refuted in exact T).
Proof. exact Asn1V.Ber.BerExt.ber_choice_in_choice_forward_refuted. Qed.
Print Assumptions C07_ber_choice_in_choice_forward_refuted.

Example C07_ber_seq_forward_indefinite_refuted : ltac:(let T := type of Asn1V.Ber.BerExt.ber_seq_forward_indefinite_refuted in exact T).
Proof. exact Asn1V.Ber.BerExt.ber_seq_forward_indefinite_refuted. Qed.
Print Assumptions C07_ber_seq_forward_indefinite_refuted.

Example C07_ber_forward_inhabited : ltac:(let T := type of Asn1V.Ber.BerExt.ex_forward in exact T).
Proof. exact Asn1V.Ber.BerExt.ex_forward. Qed.
Print Assumptions C07_ber_forward_inhabited.

(** ------------------------------------------------------------------
    OER: the WHOLE property as one statement (Oer/OerExtends.v).  [oext e1 e2 f t1 t2] (a decidable relation): version
    2 is version 1 plus additions - SEQUENCE/SET additions and groups, CHOICE alternatives, ENUMERATED items - at any
    set of extensible nodes at any depth: inside SEQUENCE/SET components, SEQUENCE OF elements, CHOICE alternatives,
    tagged types, through references (two environments).  Forward: version 1 decodes every version-2 encoder output,
    followed by any tail, to its view [oview] of the value (unknown additions dropped, unknown alternative ->
    VUnknownChoice, unknown item -> VNone) consuming exactly the encoding; [oview] is the projection [oproj] of what
    version 2 itself decodes (under [ostrict]: distinct component names, DEFAULTs that are their own projection).
    Backward: version 2 decodes every version-1 output to the version-1 normal form.  Every strict prefix is rejected
    with a decode error in both directions.
    (statements = the types of the theorems of Oer/OerExtends.v; written out in notes/OER-extends.md) *)
From Asn1V Require Oer.OerExtends Oer.OerExtendsEx.

Theorem C07_oer_forward : ltac:(let T := type of Asn1V.Oer.OerExtends.oer_forward in exact T).
Proof. exact Asn1V.Oer.OerExtends.oer_forward. Qed.
Print Assumptions C07_oer_forward.

Theorem C07_oer_forward_proj : ltac:(let T := type of Asn1V.Oer.OerExtends.oer_forward_proj in exact T).
Proof. exact Asn1V.Oer.OerExtends.oer_forward_proj. Qed.
Print Assumptions C07_oer_forward_proj.

Theorem C07_oer_forward_commutes : ltac:(let T := type of Asn1V.Oer.OerExtends.oer_forward_commutes in exact T).
Proof. exact Asn1V.Oer.OerExtends.oer_forward_commutes. Qed.
Print Assumptions C07_oer_forward_commutes.

Theorem C07_oer_backward : ltac:(let T := type of Asn1V.Oer.OerExtends.oer_backward in exact T).
Proof. exact Asn1V.Oer.OerExtends.oer_backward. Qed.
Print Assumptions C07_oer_backward.

Theorem C07_oer_forward_truncation : ltac:(let T := type of Asn1V.Oer.OerExtends.oer_forward_truncation in exact T).
Proof. exact Asn1V.Oer.OerExtends.oer_forward_truncation. Qed.
Print Assumptions C07_oer_forward_truncation.

Theorem C07_oer_backward_truncation : ltac:(let T := type of Asn1V.Oer.OerExtends.oer_backward_truncation in exact T).
Proof. exact Asn1V.Oer.OerExtends.oer_backward_truncation. Qed.
Print Assumptions C07_oer_backward_truncation.

(** non-vacuity: four nodes of different depth extended at once (octets cross-checked on /repo) *)
Example C07_oer_extends_inhabited : ltac:(let T := type of Asn1V.Oer.OerExtendsEx.oextends_inhabited in exact T).
Proof. exact Asn1V.Oer.OerExtendsEx.oextends_inhabited. Qed.
Print Assumptions C07_oer_extends_inhabited.

(** ------------------------------------------------------------------
    BER, forward direction as ONE inductive statement (Ber/BerExtends.v): [bextends numeric e1 e2 f t1 t2] - additions
    at any set of extensible SEQUENCE / CHOICE / ENUMERATED nodes at any depth (SEQUENCE components and additions,
    SEQUENCE OF / SET OF elements, EXPLICIT and IMPLICIT tags, CHOICE alternatives, references).  For EVERY
    definite-length BER tree that version 2's X.690 reader accepts (in particular every BER and DER encoder output),
    followed by any tail, the version-1 BER decoder returns the projection [bproj] and stops behind the encoding.
    _partial: SET nodes are outside the relation (DER SET forward is refuted: finding
    der-set-addition-sorted-before-known-component), the clause [alt_stable] excludes the nested untagged extensible
    CHOICE (finding ber-untagged-extensible-choice-in-choice) and [bdef] excludes indefinite lengths (finding
    ber-indefinite-length-unknown-additions); each exclusion has its _refuted example in Ber/BerExtendsEx.v.
    Backward (Ber/BerExtendsBack.v): for every definite-length BER tree version 1's reader accepts, the version-2 BER
    decoder returns [bup] - the version-1 value with the DEFAULTs of the new additions filled in at every node (not
    behind an absent mandatory addition, as the library does) - and stops behind the encoding.
    OPEN: SET nodes inside the relation; the other version's DER decoder at any depth.
    (statements written out in notes/BER-extends.md) *)
From Asn1V Require Ber.BerExtendsBase Ber.BerExtends Ber.BerExtendsEx Ber.BerExtendsBack Ber.BerExtendsBackEx.

Theorem C07_ber_forward_tree_partial : ltac:(let T := type of Asn1V.Ber.BerExtends.ber_forward_tree_partial in exact T).
Proof. exact Asn1V.Ber.BerExtends.ber_forward_tree_partial. Qed.
Print Assumptions C07_ber_forward_tree_partial.

Theorem C07_ber_forward_partial : ltac:(let T := type of Asn1V.Ber.BerExtends.ber_forward_partial in exact T).
Proof. exact Asn1V.Ber.BerExtends.ber_forward_partial. Qed.
Print Assumptions C07_ber_forward_partial.

Theorem C07_der_encoding_ber_forward_partial : ltac:(let T := type of Asn1V.Ber.BerExtends.der_encoding_ber_forward_partial in exact T).
Proof. exact Asn1V.Ber.BerExtends.der_encoding_ber_forward_partial. Qed.
Print Assumptions C07_der_encoding_ber_forward_partial.

Example C07_ber_extends_inhabited : ltac:(let T := type of Asn1V.Ber.BerExtendsEx.bextends_inhabited in exact T).
Proof. exact Asn1V.Ber.BerExtendsEx.bextends_inhabited. Qed.
Print Assumptions C07_ber_extends_inhabited.

Theorem C07_ber_backward_tree_partial : ltac:(let T := type of Asn1V.Ber.BerExtendsBack.ber_backward_tree_partial in exact T).
Proof. exact Asn1V.Ber.BerExtendsBack.ber_backward_tree_partial. Qed.
Print Assumptions C07_ber_backward_tree_partial.

Theorem C07_ber_backward_partial : ltac:(let T := type of Asn1V.Ber.BerExtendsBack.ber_backward_partial in exact T).
Proof. exact Asn1V.Ber.BerExtendsBack.ber_backward_partial. Qed.
Print Assumptions C07_ber_backward_partial.

Theorem C07_der_encoding_ber_backward_partial : ltac:(let T := type of Asn1V.Ber.BerExtendsBack.der_encoding_ber_backward_partial in exact T).
Proof. exact Asn1V.Ber.BerExtendsBack.der_encoding_ber_backward_partial. Qed.
Print Assumptions C07_der_encoding_ber_backward_partial.

Example C07_ber_backward_any_depth_inhabited : ltac:(let T := type of Asn1V.Ber.BerExtendsBackEx.ex_backward_any_depth in exact T).
Proof. exact Asn1V.Ber.BerExtendsBackEx.ex_backward_any_depth. Qed.
Print Assumptions C07_ber_backward_any_depth_inhabited.

(** SET as a container (Ber/BerExtendsSet.v, BerExtendsSetBack.v): [bextends_s] = [bextends] with SET nodes admitted
    when the SET node itself receives no new addition (its components may be extended types at any depth; components
    in any order on the wire, so the sorted DER octets are covered).  [bextends_s_of]: it subsumes [bextends]. *)
From Asn1V Require Ber.BerExtendsSet Ber.BerExtendsSetBack Ber.BerExtendsSetEx.

Theorem C07_ber_forward_tree_s_partial : ltac:(let T := type of Asn1V.Ber.BerExtendsSet.ber_forward_tree_s_partial in exact T).
Proof. exact Asn1V.Ber.BerExtendsSet.ber_forward_tree_s_partial. Qed.
Print Assumptions C07_ber_forward_tree_s_partial.

Theorem C07_ber_forward_s_partial : ltac:(let T := type of Asn1V.Ber.BerExtendsSet.ber_forward_s_partial in exact T).
Proof. exact Asn1V.Ber.BerExtendsSet.ber_forward_s_partial. Qed.
Print Assumptions C07_ber_forward_s_partial.

Theorem C07_ber_backward_tree_s_partial : ltac:(let T := type of Asn1V.Ber.BerExtendsSetBack.ber_backward_tree_s_partial in exact T).
Proof. exact Asn1V.Ber.BerExtendsSetBack.ber_backward_tree_s_partial. Qed.
Print Assumptions C07_ber_backward_tree_s_partial.

Theorem C07_ber_backward_s_partial : ltac:(let T := type of Asn1V.Ber.BerExtendsSetBack.ber_backward_s_partial in exact T).
Proof. exact Asn1V.Ber.BerExtendsSetBack.ber_backward_s_partial. Qed.
Print Assumptions C07_ber_backward_s_partial.

Example C07_ber_extends_set_inhabited : ltac:(let T := type of Asn1V.Ber.BerExtendsSetEx.ex_forward_set_container in exact T).
Proof. exact Asn1V.Ber.BerExtendsSetEx.ex_forward_set_container. Qed.
Print Assumptions C07_ber_extends_set_inhabited.
