(** C19 — Encodings do not depend on how the specification text is organised.
    Statements only; models Compile/Resolve.v, Compile/Flatten.v; proofs
    Compile/FlattenProofs.v.

    [unfold lf K env n k mn t] is the meaning of the type [t] written in
    module [mn]: all references replaced by the definitions they resolve to
    (own module, then IMPORTS), truncated at constructor depth [n];
    [flatten lf K env n mn name] is the unfolding of a named type.  Agreement
    at every depth [n] is equality of the (possibly infinite) unfoldings.
    [compile_per cv ...] / [compile_named cv ...] is what the library's compile
    makes of it (reference compiled from the definition, member attributes on a
    shallow copy, DEFAULT converted from the token and the syntactic type);
    [crepaired] is the behaviour with proposed_fixes/C19-*.diff, which is
    what harness/c19.py ties to /repo. *)
From Coq Require Import Permutation.
From Asn1V Require Import Base.Prelude Compile.Descr Compile.Preprocess Compile.Resolve
     Compile.Flatten Compile.FlattenProofs.

(** Reordering the assignments inside the modules. *)
Theorem C19_permute_assignments_flatten :
  forall lf K env env',
    Forall mod_nodup env -> Forall2 mod_perm env env' ->
    forall n mn name, flatten lf K env n mn name = flatten lf K env' n mn name.
Proof. exact permute_assignments_flatten. Qed.
Print Assumptions C19_permute_assignments_flatten.

(** Reordering the modules (or the input files). *)
Theorem C19_permute_modules_flatten :
  forall lf K env env',
    NoDup (map smod_name env) -> Permutation env env' ->
    forall n mn name, flatten lf K env n mn name = flatten lf K env' n mn name.
Proof. exact permute_modules_flatten. Qed.
Print Assumptions C19_permute_modules_flatten.

(** Moving definitions into other modules and importing them: two
    arrangements of the same definitions (assignment names unique over the
    specification, one tagging default and EXTENSIBILITY IMPLIED setting) in
    which every reference resolves give every named type the same unfolding,
    whatever the distribution over modules and whatever the IMPORTS. *)
Theorem C19_move_and_import_flatten :
  forall lf K e1 e2 tg ex,
    uniform_flags e1 tg ex -> uniform_flags e2 tg ex ->
    NoDup (map fst (all_types e1)) -> NoDup (map fst (all_values e1)) ->
    (forall name t, In (name, t) (all_types e2) -> In (name, t) (all_types e1)) ->
    (forall v z, In (v, z) (all_values e2) -> In (v, z) (all_values e1)) ->
    closed lf e1 -> closed lf e2 ->
    forall n m1 m2 name,
      In m1 (map smod_name e1) -> In m2 (map smod_name e2) ->
      (exists t m', lookup_type lf e1 m1 name = Ok (t, m')) ->
      (exists t m', lookup_type lf e2 m2 name = Ok (t, m')) ->
      flatten lf K e1 n m1 name = flatten lf K e2 n m2 name.
Proof. exact move_and_import_flatten. Qed.
Print Assumptions C19_move_and_import_flatten.

(** The general principle behind it: any two environments related by a
    look-up simulation unfold every type alike. *)
Theorem C19_unfold_simulation :
  forall lf K e1 e2 (R : string -> string -> list string -> list string -> Prop),
    (forall m1 m2 tn vn tn' vn', R m1 m2 tn vn -> incl tn' tn -> incl vn' vn -> R m1 m2 tn' vn') ->
    (forall m1 m2 tn vn, R m1 m2 tn vn -> flags e1 m1 = flags e2 m2) ->
    (forall m1 m2 tn vn v, R m1 m2 tn vn -> In v vn -> lookup_value lf e1 m1 v = lookup_value lf e2 m2 v) ->
    (forall m1 m2 tn vn name, R m1 m2 tn vn -> In name tn ->
        match lookup_type lf e1 m1 name, lookup_type lf e2 m2 name with
        | Ok (t1, m1'), Ok (t2, m2') => t1 = t2 /\ R m1' m2' (trefs t1) (vrefs t1)
        | Err a, Err b => a = b
        | _, _ => False
        end) ->
    forall n k m1 m2 t, R m1 m2 (trefs t) (vrefs t) -> unfold lf K e1 n k m1 t = unfold lf K e2 n k m2 t.
Proof. exact unfold_sim. Qed.
Print Assumptions C19_unfold_simulation.

(** Replacing a type reference — with the SIZE / range constraint written
    after it — by a copy of its definition, in place: [x T c] and
    [x <definition of T> c] unfold alike (the reference spends one unit of the
    reference-chain fuel), provided the names the definition uses mean the
    same where the copy is written ([R], a look-up simulation of the
    environment with itself). OPTIONAL / DEFAULT / tags belong to the member
    and are untouched by the replacement. *)
Theorem C19_inline_ref_flatten :
  forall lf K env (R : string -> string -> list string -> list string -> Prop),
    (forall m1 m2 tn vn tn' vn', R m1 m2 tn vn -> incl tn' tn -> incl vn' vn -> R m1 m2 tn' vn') ->
    (forall m1 m2 tn vn, R m1 m2 tn vn -> flags env m1 = flags env m2) ->
    (forall m1 m2 tn vn v, R m1 m2 tn vn -> In v vn -> lookup_value lf env m1 v = lookup_value lf env m2 v) ->
    (forall m1 m2 tn vn name, R m1 m2 tn vn -> In name tn ->
        match lookup_type lf env m1 name, lookup_type lf env m2 name with
        | Ok (t1, m1'), Ok (t2, m2') => t1 = t2 /\ R m1' m2' (trefs t1) (vrefs t1)
        | Err a, Err b => a = b
        | _, _ => False
        end) ->
    forall n k mn name sz rg t' mn',
      lookup_type lf env mn name = Ok (t', mn') ->
      R mn' mn (trefs t') (vrefs t') ->
      overlay_fits t' sz rg = true ->
      unfold lf K env (S n) (S k) mn (SRef name sz rg) =
      unfold lf K env (S n) k mn (with_overlay t' sz rg).
Proof. exact inline_ref_flatten. Qed.
Print Assumptions C19_inline_ref_flatten.
(* OPEN: the whole-specification form of inlining / extraction (the body of a
   definition with one occurrence replaced) needs unfold to be monotone in the
   reference-chain fuel; instances are evaluated by harness/c19.py
   (vm_compute of flatten on both arrangements) and tested on /repo. *)

(** With the repairs, the library compiles a type to its unfolding, wherever a
    SIZE constraint applied to a reference sits on the type of a member
    ([env_ok], [ok_ty]) ... *)
Theorem C19_compile_is_unfold :
  forall lf K env, env_ok env = true ->
    forall n k pos mn t, ok_ty pos t = true ->
      compile_per crepaired lf K env n k pos mn t = unfold lf K env n k mn t.
Proof. exact compile_is_unfold. Qed.
Print Assumptions C19_compile_is_unfold.

(** ... hence compile factors through flatten. *)
Theorem C19_compile_factors_through_flatten :
  forall lf K env1 env2, env_ok env1 = true -> env_ok env2 = true ->
    forall n mn1 mn2 name,
      flatten lf K env1 n mn1 name = flatten lf K env2 n mn2 name ->
      compile_named crepaired lf K env1 n mn1 name = compile_named crepaired lf K env2 n mn2 name.
Proof. exact compile_factors_through_flatten. Qed.
Print Assumptions C19_compile_factors_through_flatten.

(** The compiled-type cache returns what compiling again would return, as long
    as its key determines the compiled value. *)
Theorem C19_cache_transparent :
  forall (Key Val : Type) (eqb : Key -> Key -> bool),
    (forall a b, eqb a b = true -> a = b) ->
    forall (compile : Key -> Val) c k,
      cache_ok compile c ->
      fst (compile_user_type eqb compile c k) = compile k /\
      cache_ok compile (snd (compile_user_type eqb compile c k)).
Proof. exact @memo_transparent. Qed.
Print Assumptions C19_cache_transparent.

(** Upstream refutes it (each witness is replayed on /repo by harness/c19.py). *)
Theorem C19_refuted_upstream_boolean_default :
  flatten 8 8 w_bool_ref 3 "M" "S" = flatten 8 8 w_bool_inl 3 "M" "S" /\
  compile_named cupstream 8 8 w_bool_ref 3 "M" "S" <> compile_named cupstream 8 8 w_bool_inl 3 "M" "S" /\
  compile_named crepaired 8 8 w_bool_ref 3 "M" "S" = compile_named crepaired 8 8 w_bool_inl 3 "M" "S".
Proof. exact compile_factors_refuted_boolean_default. Qed.
Print Assumptions C19_refuted_upstream_boolean_default.

Theorem C19_refuted_upstream_size_on_reference :
  flatten 8 8 w_size_ref 3 "M" "S" = flatten 8 8 w_size_inl 3 "M" "S" /\
  compile_named cupstream 8 8 w_size_ref 3 "M" "S" <> compile_named cupstream 8 8 w_size_inl 3 "M" "S" /\
  compile_named crepaired 8 8 w_size_ref 3 "M" "S" = compile_named crepaired 8 8 w_size_inl 3 "M" "S".
Proof. exact compile_factors_refuted_size_on_reference. Qed.
Print Assumptions C19_refuted_upstream_size_on_reference.

Theorem C19_refuted_upstream_range_module :
  flatten 8 8 w_range_one 3 "M" "S" = flatten 8 8 w_range_two 3 "M" "S" /\
  compile_named cupstream 8 8 w_range_one 3 "M" "S" <> compile_named cupstream 8 8 w_range_two 3 "M" "S" /\
  compile_named crepaired 8 8 w_range_one 3 "M" "S" = compile_named crepaired 8 8 w_range_two 3 "M" "S".
Proof. exact compile_factors_refuted_range_module. Qed.
Print Assumptions C19_refuted_upstream_range_module.

(** Not repaired: known finding size-on-element-reference. *)
Theorem C19_refuted_size_on_element_reference :
  flatten 8 8 w_elem_ref 3 "M" "S" = flatten 8 8 w_elem_inl 3 "M" "S" /\
  compile_named crepaired 8 8 w_elem_ref 3 "M" "S" <> compile_named crepaired 8 8 w_elem_inl 3 "M" "S" /\
  env_ok w_elem_ref = false.
Proof. exact compile_factors_refuted_size_on_element_reference. Qed.
Print Assumptions C19_refuted_size_on_element_reference.

(** Non-vacuity ([ex_one], [ex_three] in Compile/FlattenProofs.v): a recursive
    SEQUENCE with OPTIONAL, a DEFAULT through a reference, a SIZE on a
    referenced SEQUENCE OF with a value reference as bound; one module against
    the same definitions spread over three modules with IMPORTS.  All
    hypotheses of C19_move_and_import_flatten hold for this pair, so its
    conclusion holds at EVERY depth ... *)
Example C19_move_example :
  forall n, flatten 8 8 ex_one n "M" "R" = flatten 8 8 ex_three n "P" "R".
Proof. exact example_move. Qed.
Print Assumptions C19_move_example.

(** ... both environments satisfy [env_ok], the unfolding is not trivial, and
    the library's compile agrees on the two arrangements. *)
Example C19_hypotheses_inhabited :
  env_ok ex_one = true /\ env_ok ex_three = true /\
  flatten 8 8 ex_one 5 "M" "R" = flatten 8 8 ex_three 5 "P" "R" /\
  (exists a, flatten 8 8 ex_one 2 "M" "R" =
             Ok (FSeq false "AUTOMATIC" false
                      [("v", None, FSeqOf false FCut (Some (FCons (FNum 1) (FNum 4) false)), FMandatory);
                       ("f", None, FBool, FDefault (VB true)); ("next", None, a, FOptional)] (Some []))) /\
  compile_named crepaired 8 8 ex_one 5 "M" "R" = compile_named crepaired 8 8 ex_three 5 "P" "R".
Proof.
  split; [reflexivity|]. split; [reflexivity|]. split; [vm_compute; reflexivity|].
  split; [eexists; vm_compute; reflexivity|]. vm_compute. reflexivity.
Qed.
Print Assumptions C19_hypotheses_inhabited.

(** ------------------------------------------------------------------
    Components carry the OPTIONAL / DEFAULT status WRITTEN on them (Compile/MemberAttrs.v), in every environment, at
    every depth: two components with the same identifier that refer to the same named type ("twins") are independent.
    harness/c19_twins.py compares [attrs_of (flatten ..)] with the attributes of the objects all eight codecs compile. *)
From Asn1V Require Compile.MemberAttrs.

Theorem C19_unfold_components_as_written : ltac:(let T := type of Asn1V.Compile.MemberAttrs.unfold_components_as_written in exact T).
Proof. exact Asn1V.Compile.MemberAttrs.unfold_components_as_written. Qed.
Print Assumptions C19_unfold_components_as_written.

Theorem C19_compile_components_as_written : ltac:(let T := type of Asn1V.Compile.MemberAttrs.compile_components_as_written in exact T).
Proof. exact Asn1V.Compile.MemberAttrs.compile_components_as_written. Qed.
Print Assumptions C19_compile_components_as_written.

Theorem C19_twin_components_independent : ltac:(let T := type of Asn1V.Compile.MemberAttrs.twin_components_independent in exact T).
Proof. exact Asn1V.Compile.MemberAttrs.twin_components_independent. Qed.
Print Assumptions C19_twin_components_independent.
