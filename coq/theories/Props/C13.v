(** C13 — Compiling is independent of what was compiled before from the same
    dictionary.  Statements only; the model is Compile/Preprocess.v, the proofs
    are in Compile/PreprocessProofs.v.

    [preprocess fuel var numeric d] is Compiler.pre_process (all in-place
    passes) as a function returning the rewritten dictionary; [var] selects the
    upstream behaviour or the behaviour with the proposed repairs
    ([repaired], which is what harness/c13.py ties to /repo);
    [v_numeric_in_dict var = false] says that numeric_enums=True does not
    rewrite ENUMERATED DEFAULTs inside the shared dictionary (repair
    proposed_fixes/C13-numeric-enums-default.diff).  The theorems hold for every
    setting of the other four behaviour switches, every fuel, every dictionary
    (also malformed ones: [Err] results are part of the statements). *)
From Asn1V Require Import Base.Prelude Compile.Descr Compile.Preprocess Compile.PreprocessProofs.

(** A second pre_process (with whatever options) of a pre-processed dictionary
    returns it unchanged: Leibniz equality on everything the model carries,
    which includes, verbatim, every attribute no pass touches. *)
Theorem C13_preprocess_idempotent :
  forall fuel var n1 n2 d d1,
    v_numeric_in_dict var = false ->
    preprocess fuel var n1 d = Ok d1 -> preprocess fuel var n2 d1 = Ok d1.
Proof. exact preprocess_idempotent. Qed.
Print Assumptions C13_preprocess_idempotent.

(** pre_process o2 after pre_process o1 is pre_process o2 — including when the
    first run raises (then the second is never reached and the fresh run raises
    the same exception). *)
Theorem C13_preprocess_absorbs :
  forall fuel var o1 o2 d,
    v_numeric_in_dict var = false ->
    (let* d1 := preprocess fuel var o1 d in preprocess fuel var o2 d1) = preprocess fuel var o2 d.
Proof. exact preprocess_absorbs. Qed.
Print Assumptions C13_preprocess_absorbs.

(** For every history h of successful compile_dict calls (any codec, any
    numeric_enums) with eval(pformat(d)) / deepcopy steps in between, every
    further compile_dict(c, o) yields exactly what it yields on the dictionary
    as parsed: same final dictionary, same outputs of the codec compiler, the
    type-checker compiler and the constraints-checker compiler, or the same
    failure.  [process] is whatever the three compilers compute from the
    pre-processed dictionary. *)
Theorem C13_history_independent :
  forall (R : Type) fuel var (process : compiler_id -> bool -> dict -> R),
    v_numeric_in_dict var = false ->
    forall h c o d d',
      run fuel var process h d = Ok d' ->
      compile_dict fuel var process c o d' = compile_dict fuel var process c o d.
Proof. intros R fuel var process Hvar. exact (history_independent fuel var Hvar process). Qed.
Print Assumptions C13_history_independent.
(* OPEN: [SPformatEval] is the identity in the model, i.e. the theorem covers a
   serialisation that keeps the key order of the dictionary (and deepcopy).
   pprint.pformat sorts the keys, so after eval(pformat(d)) modules and types
   are processed in key order; the full statement needs, in addition,
     preprocess (sort_keys d) = sort_keys (preprocess d)   (up to the exception reported first),
   which holds only with the repair C19-components-of-first and is not proved.
   harness/c13.py tests it on every case: the model is evaluated on the
   key-sorted dictionary too, and /repo runs the real pformat at any position
   of the history. *)

(** The upstream behaviour (numeric_enums=True writes the number of an
    ENUMERATED DEFAULT into the shared dictionary) refutes both statements. *)
Theorem C13_preprocess_absorbs_refuted_upstream :
  exists d, (let* d1 := preprocess 8 upstream true d in preprocess 8 upstream false d1)
            <> preprocess 8 upstream false d.
Proof. exact preprocess_absorbs_refuted. Qed.
Print Assumptions C13_preprocess_absorbs_refuted_upstream.

Theorem C13_history_independent_refuted_upstream :
  exists h c o d d',
    run 8 upstream view h d = Ok d' /\
    compile_dict 8 upstream view c o d' <> compile_dict 8 upstream view c o d /\
    option_map (fun x => fst (fst (snd x)))
               (match compile_dict 8 upstream view c o d' with Ok x => Some x | Err _ => None end)
    = Some [("M.T.e"%string, DvInt 2)].
Proof. exact history_independent_refuted. Qed.
Print Assumptions C13_history_independent_refuted_upstream.

(** Non-vacuity: two modules with IMPORTS, COMPONENTS OF, AUTOMATIC TAGS,
    EXTENSIBILITY IMPLIED, a BIT STRING DEFAULT given as a name list, an OCTET
    STRING DEFAULT, a BOOLEAN DEFAULT through a reference and an ENUMERATED
    DEFAULT: pre_process succeeds, changes the dictionary, and a history of
    three compilations with different codecs and options ends in that same
    dictionary. *)
Open Scope string_scope.
Definition ex_attrs ty nm dflt := Attrs ty nm None false dflt None None [].
Definition ex_dict : dict :=
  [Module "A" (Some "AUTOMATIC") true [("B", ["Flag"; "T"])]
     [("S", NType (ex_attrs "SEQUENCE" None None)
                  (Some [NType (ex_attrs "INTEGER" (Some "x") None) None None;
                         NCompOf "T";
                         NType (ex_attrs "Flag" (Some "f") (Some (DvStr "TRUE"))) None None;
                         NType (Attrs "BIT STRING" (Some "bs") None false (Some (DvNames ["q"])) None
                                      (Some [("p", "0"); ("q", "3")]) []) None None;
                         NType (ex_attrs "OCTET STRING" (Some "os") (Some (DvStr "0x0a0b"))) None None;
                         NMarker;
                         NGroup [NType (ex_attrs "OCTET STRING" (Some "g") (Some (DvStr "0b1"))) None None]])
                  None);
      ("L", NType (ex_attrs "SEQUENCE OF" None None) None
                  (Some (NType (ex_attrs "SEQUENCE" None None)
                               (Some [NType (ex_attrs "NULL" (Some "n") None) None None]) None)))] [];
   Module "B" (Some "IMPLICIT") false []
     [("T", NType (ex_attrs "SEQUENCE" None None)
                  (Some [NType (Attrs "INTEGER" (Some "a") (Some (Tagd 5 None None)) false None None None [])
                               None None;
                         NType (Attrs "ENUMERATED" (Some "e") None false (Some (DvStr "c"))
                                      (Some [Some ("a", EvInt 0); None; Some ("c", EvInt 2)]) None [])
                               None None]) None);
      ("Flag", NType (ex_attrs "BOOLEAN" None None) None None)] []].

Example C13_hypotheses_inhabited :
  exists d1,
    preprocess 8 repaired false ex_dict = Ok d1 /\ d1 <> ex_dict /\
    run 8 repaired view [SCompile Per true; SPformatEval; SCompile Ber false; SDeepcopy; SCompile Jer true]
        ex_dict = Ok d1 /\
    List.In ("A.S.f", DvBool true) (default_view d1) /\
    List.In ("A.S.bs", DvBits [16] 4) (default_view d1) /\
    List.In ("A.S.g", DvBytes [128]) (default_view d1).
Proof.
  eexists. split; [vm_compute; reflexivity|].
  split; [intros H; discriminate H|].
  split; [vm_compute; reflexivity|].
  vm_compute. intuition.
Qed.
Print Assumptions C13_hypotheses_inhabited.

(** ------------------------------------------------------------------
    Histories with dictionary OBJECTS, in-place rewriting and the checkers (Compile/HistoryCheckers.v): the compiled
    object is the triple (codec, type checkers, constraints checkers); a world holds dictionary objects with an identity
    and a one-entry memo of "the dictionary compiled last" under a policy.  For every policy that keeps no memo (what
    /repo does) or keys it by identity AND options, every history of compile / copy / foreign-compile steps yields, for
    the dictionary and the whole triple, what the pure compile of the dictionary as parsed yields - also for every object
    compiled DURING the history.  A memo keyed by identity alone is refuted (ber with names, then uper with numbers: the
    type checkers are the stale ones) and a foreign compile in between hides that defect.
    (statements = the types of the theorems of Compile/HistoryCheckersProofs.v; harness/c13_seq.py compares the flags
    the model predicts with the objects /repo compiles after every history) *)
From Asn1V Require Compile.HistoryCheckers Compile.HistoryCheckersProofs.

Theorem C13_stateful_history_independent : ltac:(let T := type of @Asn1V.Compile.HistoryCheckersProofs.stateful_history_independent in exact T).
Proof. exact @Asn1V.Compile.HistoryCheckersProofs.stateful_history_independent. Qed.
Print Assumptions C13_stateful_history_independent.

Theorem C13_stateful_collect_independent : ltac:(let T := type of @Asn1V.Compile.HistoryCheckersProofs.stateful_collect_independent in exact T).
Proof. exact @Asn1V.Compile.HistoryCheckersProofs.stateful_collect_independent. Qed.
Print Assumptions C13_stateful_collect_independent.

Theorem C13_memo_identity_refuted : ltac:(let T := type of @Asn1V.Compile.HistoryCheckersProofs.memo_identity_refuted in exact T).
Proof. exact @Asn1V.Compile.HistoryCheckersProofs.memo_identity_refuted. Qed.
Print Assumptions C13_memo_identity_refuted.
