(** C11 — check_constraints accepts exactly the values the declared
    constraints admit.  Statements only; the model is Check/Constraints.v
    (what constraints_checker.py does), the specification Check/Admits.v, the
    proofs Check/ConstraintsProofs.v.

    Scope of the model: the shared universe of Syntax/Asn1.v (no REAL, time
    types, ANY/open types); constraints that are a single value or a single
    range with numeric bounds — MIN/MAX, named numbers and value references are
    resolved to numbers by the generator and the library's resolution is
    compared with it on every run.  The theorems hold for both location
    variants [vr] (unrepaired and repaired add_location).

    Hypothesis: the value is well typed for the type ([well_typed_top], which
    also states that the fuel suffices).  The equivalence itself needs no
    hypothesis in the model, but the model is claimed faithful to the Python
    code only on well-typed values (on others Python raises TypeError or
    behaves by duck typing). *)
From Asn1V Require Import Base.Prelude Syntax.Asn1 Check.Location Check.WellTyped
     Check.Constraints Check.Admits Check.ConstraintsProofs
     Check.Skeleton Check.Corrupt Check.PathProofs.

(** Both directions: the checker passes iff every component is admitted. *)
Theorem C11_constraints_iff :
  forall vr fuel env name v,
    well_typed_top fuel env name v = true ->
    (check_top vr fuel env name v = Pass <-> admits_top fuel env name v = true).
Proof. intros vr fuel env name v _. exact (check_top_iff vr fuel env name v). Qed.
Print Assumptions C11_constraints_iff.

(** Per node, for every compilation context (used through type references,
    list elements and CHOICE alternatives alike). *)
Theorem C11_constraints_iff_node :
  forall vr fuel env c t v,
    well_typed fuel env t v = true ->
    (passes (check vr fuel env c t v) = true <-> admits fuel env t v = true).
Proof. intros vr fuel env c t v _. rewrite check_passes_iff_admits. tauto. Qed.
Print Assumptions C11_constraints_iff_node.

(** Error side: a violated constraint is a ConstraintsError — never Ok, never
    a foreign exception, never non-termination. *)
Theorem C11_violation_is_constraints_error :
  forall vr fuel env name v,
    well_typed_top fuel env name v = true ->
    outcome_class (check_top vr fuel env name v) =
    if admits_top fuel env name v then None else Some EConstraints.
Proof. exact check_top_class. Qed.
Print Assumptions C11_violation_is_constraints_error.

(** Path statement (used by C12): a value that is good except for ONE violated
    constraint at path [p] is rejected with the dotted path Type.member... to
    that component (repaired add_location; through references, list elements,
    CHOICE alternatives and recursion).  [good]/[corrupt_at]: Check/PathProofs.v,
    Check/Corrupt.v. *)
Theorem C11_violation_path :
  forall cd fuel env name t v p v' crossed,
    lookup name env = Some t ->
    good cd fuel env t v ->
    corrupt_at env [name] t v p KConstraint v' crossed ->
    outcome_class (check_top Repaired fuel env name v') = Some EConstraints /\
    outcome_path (check_top Repaired fuel env name v') = dotted (name1 name ++ names_along p).
Proof. exact check_top_fault_path. Qed.
Print Assumptions C11_violation_path.

(** Invocation: with check_constraints=True a value outside a constraint never
    reaches the encoder, whatever the codec does ... *)
Theorem C11_never_reaches_the_wire :
  forall (wire : Type) (enc : value -> result wire) vr fuel env name v,
    well_typed_top fuel env name v = true ->
    spec_encode wire enc vr fuel env name v =
    if admits_top fuel env name v then enc v else Err EConstraints.
Proof. exact spec_encode_checked. Qed.
Print Assumptions C11_never_reaches_the_wire.

(** ... and a decoded value is returned iff it is admitted. *)
Theorem C11_decode_checked :
  forall (wire : Type) (dec : wire -> result value) vr fuel env name w v,
    dec w = Ok v -> well_typed_top fuel env name v = true ->
    spec_decode wire dec vr fuel env name w =
    if admits_top fuel env name v then Ok v else Err EConstraints.
Proof. exact spec_decode_checked. Qed.
Print Assumptions C11_decode_checked.

(** What the specification says about the forms the tool interprets. *)
Theorem C11_spec_reading :
  (forall lo hi z, in_intc (IcRange (Some lo) (Some hi) false) z = true <-> lo <= z <= hi) /\
  (forall lo z, in_intc (IcRange (Some lo) None false) z = true <-> lo <= z) /\
  (forall hi z, in_intc (IcRange None (Some hi) false) z = true <-> z <= hi) /\
  (forall lo hi z, in_intc (IcRange lo hi true) z = true) /\
  (forall lo hi n, in_size (SzRange lo (Some hi) false) n = true <-> lo <= n <= hi) /\
  (forall lo hi n, in_size (SzRange lo hi true) n = true).
Proof. exact spec_reading. Qed.
Print Assumptions C11_spec_reading.

(** Non-vacuity: a recursive type with a constrained member reached through a
    type reference, a list inside a CHOICE inside an extension addition; one
    admitted value, one value violating the innermost SIZE (counted in bits). *)
Definition ex_env : env :=
  [("L"%string, TSeqOf false (TBits None (SzRange 3 (Some 4) false)) (SzRange 1 (Some 2) false));
   ("T"%string, TSeq false
      [("v"%string, TInt (IcRange (Some 0) (Some 3) false), Mandatory);
       ("next"%string, TRef "T"%string, Optional)]
      (Some [(false, [("c"%string, TChoice [("l"%string, TRef "L"%string, Mandatory);
                                           ("s"%string, TStr SkNumeric (SzRange 1 None false) None, Mandatory)]
                                          (Some []), Optional)])]))].
Definition ex_good : value :=
  VSeq [("v"%string, VInt 3);
        ("next"%string, VSeq [("v"%string, VInt 0); ("c"%string, VChoice "l"%string (VList [VBits [160] 3]))])].
Definition ex_bad : value :=
  VSeq [("v"%string, VInt 3);
        ("next"%string, VSeq [("v"%string, VInt 0); ("c"%string, VChoice "l"%string (VList [VBits [160] 5]))])].

Example C11_hypotheses_inhabited :
  well_typed_top 10 ex_env "T"%string ex_good = true /\
  well_typed_top 10 ex_env "T"%string ex_bad = true /\
  admits_top 10 ex_env "T"%string ex_good = true /\
  admits_top 10 ex_env "T"%string ex_bad = false /\
  check_top Repaired 10 ex_env "T"%string ex_good = Pass /\
  outcome_class (check_top Repaired 10 ex_env "T"%string ex_bad) = Some EConstraints /\
  outcome_path (check_top Repaired 10 ex_env "T"%string ex_bad) = "T.next.c.l"%string.
Proof. vm_compute. repeat split. Qed.
Print Assumptions C11_hypotheses_inhabited.

(** ------------------------------------------------------------------
    Constraints applied IN SERIES at reference sites (Check/Serial.v): the checker folds its set_range over the
    constraints of the reference chain, outermost parent first; the specification [admits_series] is X.680's "a value
    satisfies every constraint of the series, an extensible constraint excludes nothing".  On legal series of any
    length the repaired rule (a bound written MIN / MAX leaves the inherited bound in force) equals the specification;
    the rule as it was is refuted by  P ::= INTEGER (0..MAX), D ::= P (MIN..5), value -1  (defect repaired in 8b90e74).
    harness/c11.py evaluates every generated series in Coq and compares with /repo at every bound +-1. *)
From Asn1V Require Check.Serial Check.SerialProofs.

Theorem C11_serial_keep_bounds_agrees : ltac:(let T := type of Asn1V.Check.SerialProofs.serial_keep_bounds_agrees in exact T).
Proof. exact Asn1V.Check.SerialProofs.serial_keep_bounds_agrees. Qed.
Print Assumptions C11_serial_keep_bounds_agrees.

Theorem C11_serial_head_agrees : ltac:(let T := type of Asn1V.Check.SerialProofs.serial_head_agrees in exact T).
Proof. exact Asn1V.Check.SerialProofs.serial_head_agrees. Qed.
Print Assumptions C11_serial_head_agrees.

Theorem C11_serial_head_refuted : ltac:(let T := type of Asn1V.Check.SerialProofs.serial_head_refuted in exact T).
Proof. exact Asn1V.Check.SerialProofs.serial_head_refuted. Qed.
Print Assumptions C11_serial_head_refuted.

Theorem C11_serial_ext_child_keeps_parent : ltac:(let T := type of Asn1V.Check.SerialProofs.serial_ext_child_keeps_parent in exact T).
Proof. exact Asn1V.Check.SerialProofs.serial_ext_child_keeps_parent. Qed.
Print Assumptions C11_serial_ext_child_keeps_parent.

Theorem C11_serial_nonext_child_in_force : ltac:(let T := type of Asn1V.Check.SerialProofs.serial_nonext_child_in_force in exact T).
Proof. exact Asn1V.Check.SerialProofs.serial_nonext_child_in_force. Qed.
Print Assumptions C11_serial_nonext_child_in_force.
