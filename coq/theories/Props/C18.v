(** C18 — a compiled specification is stateless across calls and threads.
    Statements only; the model is Stateless/Heap.v, the regenerated write-set
    table gen/WriteSets.v (translator/writesets.py), proofs Stateless/Proofs.v. *)
From Asn1V Require Import Base.Prelude Stateless.Heap Stateless.Proofs Stateless.Examples.
From Asn1Gen Require Import WriteSets.

(** The finite statement, about exactly the table regenerated from /repo for
    this run: none of its entries (one per write statement of a function
    reachable from Specification / CompiledType .encode / .decode /
    .decode_with_length / .decode_length / .check_types / .check_constraints)
    writes to a compiled object, a module global or class attribute, a caller's
    input value, or something the translator could not classify. *)
Theorem C18_no_shared_writes : no_shared_writes write_table.
Proof. exact table_no_shared_writes. Qed.
Print Assumptions C18_no_shared_writes.

(** The mechanism the property names, re-read from the source: every top-level
    CompiledType.encode/decode of per/uper/oer allocates its Encoder/Decoder
    itself, the BER one its bytearray. *)
Theorem C18_root_allocations : root_allocations_ok_b root_allocations = true.
Proof. exact table_root_allocations. Qed.
Print Assumptions C18_root_allocations.

(** For every value type, every history (list of atomic steps, any length,
    any mix of calls, succeeding or failing) whose steps respect the table: the
    shared heap is unchanged. *)
Theorem C18_stateless :
  forall (val : Type) (ops : list (stmt val)) (h0 : heap val),
    Forall (wf_stmt val write_table) ops -> shared_eq val (run val ops h0) h0.
Proof. intros val. exact (stateless val write_table C18_no_shared_writes). Qed.
Print Assumptions C18_stateless.

(** Each call's result in a history is the result of the same call made alone
    on any heap with the same shared part and the same arguments ("a freshly
    compiled specification"). *)
Theorem C18_result_independent :
  forall (val : Type) (ops : list (stmt val)) c (h0 fresh : heap val),
    Forall (wf_stmt val write_table) ops -> agree val c h0 fresh ->
    result val c (run val ops h0) = result val c (run val (of_call val c ops) fresh).
Proof. intros val. exact (result_independent val write_table C18_no_shared_writes). Qed.
Print Assumptions C18_result_independent.

(** Steps of different calls commute (each touches only its own call-local
    heap and reads only that and the shared heap) ... *)
Theorem C18_steps_commute :
  forall (val : Type) (x y : stmt val) (h : heap val),
    is_local val x -> is_local val y -> s_call x <> s_call y ->
    heq val (exec val x (exec val y h)) (exec val y (exec val x h)).
Proof. exact exec_commute. Qed.
Print Assumptions C18_steps_commute.

(** ... hence for ANY interleaving [tr] of ANY number of threads [ts] (each a
    list of steps of the calls it makes, threads making different calls):
    nothing shared changes, and every call returns what it returns when made
    alone on a fresh copy.  Assumed about call-local isolation: exactly
    [wf_stmt] (a step writes its own call's local heap or a table-listed shared
    location) and the shape of [stmt] (a step reads shared locations and its own
    call's local heap only). *)
Theorem C18_interleaving_independent :
  forall (val : Type) (ts : list (list (stmt val))) (tr : list (stmt val)) (h0 : heap val),
    merge val ts tr -> disjoint_calls val ts -> Forall (Forall (wf_stmt val write_table)) ts ->
    shared_eq val (run val tr h0) h0 /\
    forall c (fresh : heap val), agree val c h0 fresh ->
      result val c (run val tr h0) = result val c (run val (of_call val c (concat ts)) fresh).
Proof. intros val. exact (interleaving_independent val write_table C18_no_shared_writes). Qed.
Print Assumptions C18_interleaving_independent.

(** Non-vacuity: a two-thread, three-call history with scratch writes to
    call-local encoder objects satisfies every hypothesis, and its results are
    the expected ones. *)
Example C18_hypotheses_inhabited :
  merge Z [thread_a; thread_b] trace /\ disjoint_calls Z [thread_a; thread_b] /\
  Forall (Forall (wf_stmt Z write_table)) [thread_a; thread_b] /\
  result Z 1 (run Z trace h_init) = Some 101 /\
  result Z 3 (run Z trace h_init) = result Z 3 (run Z (of_call Z 3 (concat [thread_a; thread_b])) h_init).
Proof.
  split; [exact trace_is_interleaving|]. split; [exact threads_disjoint|]. split; [exact threads_wf|].
  destruct trace_results as (R1 & _ & R3 & R3'). split; [exact R1|]. rewrite R3, R3'. reflexivity.
Qed.
Print Assumptions C18_hypotheses_inhabited.

(** The table hypothesis is not idle: with a single shared write in the table
    (memoising on the type object) there is a table-respecting history in which
    a call's result differs from the same call made alone. *)
Example C18_table_check_is_necessary :
  Forall (wf_stmt Z [leak_entry]) [leak_write; leak_read] /\
  result Z 2 (run Z [leak_write; leak_read] h_init) <>
  result Z 2 (run Z (of_call Z 2 [leak_write; leak_read]) h_init).
Proof.
  destruct leak_breaks_independence as (W & A & B). split; [exact W|]. rewrite A, B. discriminate.
Qed.
Print Assumptions C18_table_check_is_necessary.
