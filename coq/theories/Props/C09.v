(** C09 — Generated UPER C code is equivalent to the Python UPER codec and
    memory-safe.  STATEMENTS ONLY; proofs are in CGen/HelpersProofs.v and
    CGen/HelpersTie.v.

    What is proved here is about the Coq model (CGen/Helpers.v) of the helper
    block that every generated UPER source contains (encoder_alloc / append_*,
    decoder_free / read_*, the abort latch).  The model is tied to /repo by
    (1) [C09_helper_text] below: the helper C text re-parsed from
    uper_functions.py on every run equals the text the model was written for;
    (2) harness/c09_helpers.py: compiled helpers (gcc, clang+ASan+UBSan) vs
    model on random call histories.  Memory safety and equivalence of the
    generated per-type functions and of the real binary are NOT proved: they
    are explored (sanitizers, differential run against the Python codec) by
    harness/c09_spine_a.py. *)
From Asn1V Require Import Base.Prelude CGen.Helpers CGen.HelpersSpec CGen.HelpersProofs CGen.HelpersTie.
From Asn1V Require Import CGen.GenLogic CGen.GenLogicProofs CGen.GenLogicInt CGen.GenLogicIntProofs.
From Asn1V Require Import CGen.Ir CGen.HelpersIrTie.
From Asn1Gen Require Import UperHelpersIr.
From Asn1Gen Require Import UperHelpers.

(** helpers_in_bounds (encoder): for EVERY history of helper calls with arguments the
    generated code can pass, from any well-formed cursor (live or latched), no call reads or
    writes outside the destination object (the model never yields COob), nothing undefined
    happens (never CUb), the object keeps its size, and once the error latch is set neither the
    cursor nor the buffer changes any more. *)
Theorem C09_helpers_in_bounds_enc : forall os s, wf s -> Forall eop_ok os ->
  exists s', run_eops s os = COk s' /\ wf s' /\ length (buf s') = length (buf s) /\ (latched s -> s' = s).
Proof. exact helpers_in_bounds_enc. Qed.
Print Assumptions C09_helpers_in_bounds_enc.

(** An append that does not fit sets the latch, and encoder_get_result then returns -ENOMEM. *)
Theorem C09_enc_overflow_latches : forall s o, live s -> eop_ok o -> eop_is_abort o = false ->
  size s < pos s + eop_bits o ->
  exists s', run_eop s o = COk s' /\ latched s' /\ get_result s' = - ENOMEM.
Proof. exact enc_overflow_latches. Qed.
Print Assumptions C09_enc_overflow_latches.

(** The latch is sticky over any continuation of the history. *)
Theorem C09_enc_latch_sticky : forall os1 os2 s s1, wf s -> Forall eop_ok (os1 ++ os2) ->
  run_eops s os1 = COk s1 -> latched s1 -> run_eops s (os1 ++ os2) = COk s1.
Proof. exact enc_latch_sticky. Qed.
Print Assumptions C09_enc_latch_sticky.

(** helpers_in_bounds (decoder): same for every history of read calls; in addition the source
    buffer is never modified and every byte destination keeps its capacity. *)
Theorem C09_helpers_in_bounds_dec : forall os junk s, junk_ok junk -> wf s -> Forall dop_ok os ->
  exists s' vs, run_dops junk s os = COk (s', vs) /\ wf s' /\ buf s' = buf s /\ (latched s -> s' = s) /\
    Forall2 (fun o v => match o with DBytes cap _ => len v = cap | _ => True end) os vs.
Proof. exact helpers_in_bounds_dec. Qed.
Print Assumptions C09_helpers_in_bounds_dec.

(** A read beyond the end of the data sets the latch; decoder_get_result returns -EOUTOFDATA. *)
Theorem C09_dec_overflow_latches : forall junk s o, junk_ok junk -> live s -> dop_ok o ->
  (match o with DAbort _ => False | _ => True end) -> size s < pos s + dop_bits o ->
  exists s' v, run_dop junk s o = COk (s', v) /\ latched s' /\ get_result s' = - EOUTOFDATA.
Proof. exact dec_overflow_latches. Qed.
Print Assumptions C09_dec_overflow_latches.

(** Sticky latch of the decoder. *)
Theorem C09_dec_latch_sticky : forall junk os1 os2 s s1 vs1, junk_ok junk -> wf s ->
  Forall dop_ok (os1 ++ os2) -> run_dops junk s os1 = COk (s1, vs1) -> latched s1 ->
  exists vs2, run_dops junk s (os1 ++ os2) = COk (s1, vs1 ++ vs2) /\ length vs2 = length os2.
Proof. exact dec_latch_sticky. Qed.
Print Assumptions C09_dec_latch_sticky.

(** helpers_match_uper: the bit string a history of append calls leaves in the buffer is the
    concatenation of what X.691 / codecs/per.py append for the same calls (value as n-bit
    big-endian at the current bit position, octets as they are, intN offset by 2^(N-1)), and the
    first encoder_get_result bytes are exactly that bit string packed and zero padded. *)
Theorem C09_helpers_match_uper : forall os s, live s -> clean s -> Forall eop_ok os -> no_abort os ->
  pos s + total_bits os <= size s ->
  exists s', run_eops s os = COk s' /\ live s' /\ clean s' /\ pos s' = pos s + total_bits os /\
             written s' = written s ++ flat_map eop_spec os /\
             firstn (Z.to_nat (get_result s')) (buf s') = pack (written s').
Proof. exact helpers_match_uper. Qed.
Print Assumptions C09_helpers_match_uper.

(** Every read helper returns the big-endian value of the bits under the cursor and advances by
    their number, at every bit position. *)
Theorem C09_dop_matches_spec : forall junk s o, junk_ok junk -> live s -> dop_ok o ->
  (match o with DAbort _ => False | _ => True end) -> pos s + dop_bits o <= size s ->
  run_dop junk s o = COk (mkCur (buf s) (size s) (pos s + dop_bits o), dop_spec s o).
Proof. exact dop_matches_spec. Qed.
Print Assumptions C09_dop_matches_spec.

(** append_read_roundtrip: for all widths n <= 64, all values below 2^n and ALL bit positions
    (by induction over the loops, not by a sweep). *)
Theorem C09_append_read_roundtrip : forall s v n s', live s -> clean s -> 0 <= n <= 64 -> 0 <= v < 2 ^ n ->
  pos s + n <= size s -> append_nnbi s v n = COk s' ->
  read_nnbi (mkCur (buf s') (size s) (pos s)) n = COk (mkCur (buf s') (size s) (pos s + n), v).
Proof. exact append_read_roundtrip. Qed.
Print Assumptions C09_append_read_roundtrip.

(** Same for octets (aligned memcpy branch and unaligned shift loop). *)
Theorem C09_append_read_bytes_roundtrip : forall s src n s', live s -> clean s -> 0 <= n <= len src ->
  bytes_ok src -> pos s + 8 * n <= size s -> append_bytes s src n = COk s' ->
  read_bytes (mkCur (buf s') (size s) (pos s)) (zeros n) n =
  COk (mkCur (buf s') (size s) (pos s + 8 * n), firstn (Z.to_nat n) src).
Proof. exact append_read_bytes_roundtrip. Qed.
Print Assumptions C09_append_read_bytes_roundtrip.

(** Same for the eight fixed-width helpers (uint8..uint64, int8..int64). *)
Theorem C09_append_read_int_roundtrip : forall junk s o d v s', junk_ok junk -> live s -> clean s ->
  int_pair o d v -> pos s + eop_bits o <= size s -> run_eop s o = COk s' ->
  run_dop junk (mkCur (buf s') (size s) (pos s)) d =
  COk (mkCur (buf s') (size s) (pos s + eop_bits o), [v]).
Proof. exact append_read_int_roundtrip. Qed.
Print Assumptions C09_append_read_int_roundtrip.

(** The helper text in /repo (regenerated into coq/gen/UperHelpers.v on this run) is the one
    the model was written against; an edited bounds check breaks this by computation. *)
Theorem C09_helper_text : helper_norm = expected_norm.
Proof. exact helper_text_is_the_modelled_one. Qed.
Print Assumptions C09_helper_text.

(** ------------------------------------------------------------------
    The arithmetic decision logic of the generator (CGen/GenLogic.v, compared
    with utils.type_length / uper.does_bits_match_range / the emitted checks
    on every run by harness/c09_logic.py). *)

(** With proposed_fixes/C09-int-signed-half.diff the chosen C type holds every
    value of the range ... *)
Theorem C09_type_length_fixed_sound : forall lo hi w v,
  lo <= hi -> type_length_fixed lo hi = Some w -> lo <= v <= hi -> fits (lo <? 0) w v.
Proof. exact type_length_fixed_sound. Qed.
Print Assumptions C09_type_length_fixed_sound.

(** ... while the selection as it is in /repo does not (finding int-signed-half:
    INTEGER (-1..200) is declared int8_t). *)
Theorem C09_type_length_signed_half_refuted :
  exists lo hi w v, lo <= hi /\ type_length lo hi = Some w /\ lo <= v <= hi /\ ~ fits (lo <? 0) w v.
Proof. exact type_length_signed_half_refuted. Qed.
Print Assumptions C09_type_length_signed_half_refuted.

(** The integer fast path (uper.format_integer_inner): for every range the
    generator accepts and every value of it, the generated encoder appends
    X.691's constrained whole number — the offset from the lower bound in
    nbits (hi - lo) bits — whether it takes the generic pair or calls
    encoder_append_(u)intW, PROVIDED the decision is "the field is a word wide
    and the lower bound is 0 or the minimum of that word" ([fast_path], what
    /repo does after the repair; harness/c09_logic.py reads the helper calls
    out of the generated C on every run and compares them with [emit_kind]). *)
Theorem C09_int_fast_path_is_x691 : forall lo hi v,
  lo <= hi -> lo <= v <= hi -> type_length_fixed lo hi <> None ->
  emit fast_path lo hi v = Some (x691_constrained lo hi v).
Proof. exact emit_fast_path_is_x691. Qed.
Print Assumptions C09_int_fast_path_is_x691.

(** ... and the decision as it was (width and minimum tested independently) is
    refuted: INTEGER (-32768..-32513) is an 8-bit field for which
    encoder_append_int16 was called (finding int-fast-path-width-mismatch). *)
Theorem C09_int_fast_path_old_refuted :
  exists lo hi v, lo <= hi /\ lo <= v <= hi /\ type_length_fixed lo hi <> None /\
                  emit fast_path_old lo hi v <> Some (x691_constrained lo hi v).
Proof. exact emit_fast_path_old_refuted. Qed.
Print Assumptions C09_int_fast_path_old_refuted.

(** The two decisions differ only for a negative lower bound that is the
    minimum of a word of ANOTHER width. *)
Theorem C09_int_fast_path_old_differs_only_there : forall nb lo,
  fast_path_old nb lo <> fast_path nb lo ->
  is_word_width nb = true /\ lo < 0 /\ lo <> - 2 ^ (nb - 1) /\
  (lo = -128 \/ lo = -32768 \/ lo = -2147483648 \/ lo = -9223372036854775808).
Proof. exact fast_path_old_differs_only_there. Qed.
Print Assumptions C09_int_fast_path_old_differs_only_there.

(** ENUMERATED without a switch: when the generator decides that no
    index/number mapping is needed ([enum_mapping_required] = false on the
    numbers in X.691 order, which is what format_enumerated_inner tests), the
    number of the k-th enumerator is k, so writing the number writes the index. *)
Theorem C09_enum_no_mapping_sound : forall values k v,
  enum_mapping_required values = false -> nth_error values k = Some v -> v = Z.of_nat k.
Proof. exact enum_no_mapping_sound. Qed.
Print Assumptions C09_enum_no_mapping_sound.

(** ... and the cheaper test "largest number = count - 1" is NOT sufficient
    once a number is negative: {falling(-1), rising(1), surging(2)}. *)
Theorem C09_enum_mapping_by_max_refuted :
  exists values k v, enum_mapping_required_by_max values = false /\
                     nth_error values k = Some v /\ v <> Z.of_nat k /\
                     enum_mapping_required values = true.
Proof. exact enum_mapping_by_max_refuted. Qed.
Print Assumptions C09_enum_mapping_by_max_refuted.

(** "Range/length validation is emitted only when the field width over-covers
    the range": that criterion is exactly right, in both directions. *)
Theorem C09_bits_match_no_check_needed : forall bits lo hi raw,
  bits_match_range bits lo hi = true -> 0 <= raw < 2 ^ bits -> lo <= lo + raw <= hi.
Proof. exact bits_match_no_check_needed. Qed.
Print Assumptions C09_bits_match_no_check_needed.

Theorem C09_bits_mismatch_check_needed : forall lo hi,
  lo <= hi -> bits_match_range (nbits (hi - lo)) lo hi = false ->
  exists raw, 0 <= raw < 2 ^ nbits (hi - lo) /\ hi < lo + raw.
Proof. exact bits_mismatch_check_needed. Qed.
Print Assumptions C09_bits_mismatch_check_needed.

Theorem C09_enum_pow2_no_check_needed : forall n idx,
  is_pow2 n = true -> 0 <= idx < 2 ^ nbits (n - 1) -> idx < n.
Proof. exact enum_pow2_no_check_needed. Qed.
Print Assumptions C09_enum_pow2_no_check_needed.

Theorem C09_enum_not_pow2_check_needed : forall n,
  0 < n -> is_pow2 n = false -> exists idx, 0 <= idx < 2 ^ nbits (n - 1) /\ n <= idx.
Proof. exact enum_not_pow2_check_needed. Qed.
Print Assumptions C09_enum_not_pow2_check_needed.

(** ------------------------------------------------------------------
    Semantic tie: [Asn1Gen.UperHelpersIr.helpers_ir] is the helper block of
    /repo's uper_functions.py / utils.py translated on THIS run by
    translator/cparse.py + ctoir.py into the IR of CGen/Ir.v.  Executing each
    of its 32 functions in the IR semantics (distinct out-of-bounds / undefined
    behaviour outcomes) gives, for ALL arguments, exactly the model function of
    CGen/Helpers.v about which the theorems above are proved (by symbolic
    execution; loops by induction; fuel = call depth + loop iterations).  So
    the in-bounds, latch, X.691 and round-trip theorems hold for the parsed C
    text itself, up to the translator and the IR semantics. *)

Theorem C09_ir_encoder_alloc : forall b sz ps n, in_s64 sz = true -> in_s64 ps = true ->
  run helpers_ir tie_fuel "encoder_alloc"%string [cursor_val b sz ps; VInt n] =
  match encoder_alloc (mkCur b sz ps) n with
  | COk (s', p) => ROk (Some p, [cursor_val (buf s') (size s') (pos s'); VInt n])
  | COob => RFail FOob | CUb => RFail FUb end.
Proof. exact ir_encoder_alloc. Qed.
Print Assumptions C09_ir_encoder_alloc.

Theorem C09_ir_decoder_free : forall b sz ps n, in_s64 sz = true -> in_s64 ps = true ->
  run helpers_ir tie_fuel "decoder_free"%string [cursor_val b sz ps; VInt n] =
  match decoder_free (mkCur b sz ps) n with
  | COk (s', p) => ROk (Some p, [cursor_val (buf s') (size s') (pos s'); VInt n])
  | COob => RFail FOob | CUb => RFail FUb end.
Proof. exact ir_decoder_free. Qed.
Print Assumptions C09_ir_decoder_free.

Theorem C09_ir_encoder_abort : forall b sz ps e, in_s64 sz = true -> in_s64 ps = true ->
  -9223372036854775807 <= e <= 9223372036854775807 ->
  run helpers_ir tie_fuel "encoder_abort"%string [cursor_val b sz ps; VInt e] =
  let s' := abort (mkCur b sz ps) e in
  ROk (None, [cursor_val (buf s') (size s') (pos s'); VInt e]).
Proof. exact ir_encoder_abort. Qed.
Print Assumptions C09_ir_encoder_abort.

Theorem C09_ir_decoder_abort : forall b sz ps e, in_s64 sz = true -> in_s64 ps = true ->
  -9223372036854775807 <= e <= 9223372036854775807 ->
  run helpers_ir tie_fuel "decoder_abort"%string [cursor_val b sz ps; VInt e] =
  let s' := abort (mkCur b sz ps) e in
  ROk (None, [cursor_val (buf s') (size s') (pos s'); VInt e]).
Proof. exact ir_decoder_abort. Qed.
Print Assumptions C09_ir_decoder_abort.

Theorem C09_ir_encoder_get_result : forall b sz ps, in_s64 sz = true -> in_s64 ps = true ->
  ps <= 9223372036854775800 ->
  run helpers_ir tie_fuel "encoder_get_result"%string [cursor_val b sz ps] =
  ROk (Some (get_result (mkCur b sz ps)), [cursor_val b sz ps]).
Proof. exact ir_encoder_get_result. Qed.
Print Assumptions C09_ir_encoder_get_result.

Theorem C09_ir_decoder_get_result : forall b sz ps, in_s64 sz = true -> in_s64 ps = true ->
  ps <= 9223372036854775800 ->
  run helpers_ir tie_fuel "decoder_get_result"%string [cursor_val b sz ps] =
  ROk (Some (get_result (mkCur b sz ps)), [cursor_val b sz ps]).
Proof. exact ir_decoder_get_result. Qed.
Print Assumptions C09_ir_decoder_get_result.

Theorem C09_ir_encoder_init : forall b0 s0 p0 b n,
  run helpers_ir tie_fuel "encoder_init"%string [cursor_val b0 s0 p0; bytes_val b; VInt n] =
  match init b n with
  | COk s => ROk (None, [cursor_val (buf s) (size s) (pos s); bytes_val b; VInt n])
  | COob => RFail FOob | CUb => RFail FUb end.
Proof. exact ir_encoder_init. Qed.
Print Assumptions C09_ir_encoder_init.

Theorem C09_ir_decoder_init : forall b0 s0 p0 b n,
  run helpers_ir tie_fuel "decoder_init"%string [cursor_val b0 s0 p0; bytes_val b; VInt n] =
  match init b n with
  | COk s => ROk (None, [cursor_val (buf s) (size s) (pos s); bytes_val b; VInt n])
  | COob => RFail FOob | CUb => RFail FUb end.
Proof. exact ir_decoder_init. Qed.
Print Assumptions C09_ir_decoder_init.

Theorem C09_ir_encoder_append_bit : forall b sz ps v,
  in_s64 sz = true -> in_s64 ps = true -> in_range I32 v = true ->
  run helpers_ir tie_fuel "encoder_append_bit"%string [cursor_val b sz ps; VInt v] =
  match append_bit (mkCur b sz ps) v with
  | COk s' => ROk (None, [cursor_val (buf s') (size s') (pos s'); VInt v])
  | COob => RFail FOob | CUb => RFail FUb end.
Proof. exact ir_encoder_append_bit. Qed.
Print Assumptions C09_ir_encoder_append_bit.

Theorem C09_ir_decoder_read_bit : forall b sz ps,
  in_s64 sz = true -> in_s64 ps = true ->
  run helpers_ir tie_fuel "decoder_read_bit"%string [cursor_val b sz ps] =
  match read_bit (mkCur b sz ps) with
  | COk (s', x) => ROk (Some x, [cursor_val (buf s') (size s') (pos s')])
  | COob => RFail FOob | CUb => RFail FUb end.
Proof. exact ir_decoder_read_bit. Qed.
Print Assumptions C09_ir_decoder_read_bit.

Theorem C09_ir_encoder_append_nnbi : forall fuel b sz ps v n,
  in_s64 sz = true -> in_s64 ps = true -> 0 <= n < 18446744073709551616 ->
  (Z.to_nat n + 48 <= fuel)%nat ->
  run helpers_ir fuel "encoder_append_non_negative_binary_integer"%string
      [cursor_val b sz ps; VInt v; VInt n] =
  match append_nnbi (mkCur b sz ps) v n with
  | COk s' => ROk (None, [cursor_val (buf s') (size s') (pos s'); VInt v; VInt n])
  | COob => RFail FOob | CUb => RFail FUb end.
Proof. exact ir_encoder_append_nnbi. Qed.
Print Assumptions C09_ir_encoder_append_nnbi.

Theorem C09_ir_decoder_read_nnbi : forall fuel b sz ps n,
  in_s64 sz = true -> in_s64 ps = true -> 0 <= n < 18446744073709551616 ->
  (Z.to_nat n + 52 <= fuel)%nat ->
  run helpers_ir fuel "decoder_read_non_negative_binary_integer"%string [cursor_val b sz ps; VInt n] =
  match read_nnbi (mkCur b sz ps) n with
  | COk (s', r) => ROk (Some r, [cursor_val (buf s') (size s') (pos s'); VInt n])
  | COob => RFail FOob | CUb => RFail FUb end.
Proof. exact ir_decoder_read_nnbi. Qed.
Print Assumptions C09_ir_decoder_read_nnbi.

Theorem C09_ir_encoder_append_bytes : forall fuel b sz ps src n,
  in_s64 sz = true -> in_s64 ps = true -> bytes_ok src ->
  0 <= n < 1152921504606846976 -> (Z.to_nat n + 50 <= fuel)%nat ->
  run helpers_ir fuel "encoder_append_bytes"%string [cursor_val b sz ps; bytes_val src; VInt n] =
  match append_bytes (mkCur b sz ps) src n with
  | COk s' => ROk (None, [cursor_val (buf s') (size s') (pos s'); bytes_val src; VInt n])
  | COob => RFail FOob | CUb => RFail FUb end.
Proof. exact ir_encoder_append_bytes. Qed.
Print Assumptions C09_ir_encoder_append_bytes.

Theorem C09_ir_decoder_read_bytes : forall fuel b sz ps dst n,
  in_s64 sz = true -> in_s64 ps = true -> bytes_ok b ->
  0 <= n < 1152921504606846976 -> (Z.to_nat n + 50 <= fuel)%nat ->
  run helpers_ir fuel "decoder_read_bytes"%string [cursor_val b sz ps; bytes_val dst; VInt n] =
  match read_bytes (mkCur b sz ps) dst n with
  | COk (s', d') => ROk (None, [cursor_val (buf s') (size s') (pos s'); bytes_val d'; VInt n])
  | COob => RFail FOob | CUb => RFail FUb end.
Proof. exact ir_decoder_read_bytes. Qed.
Print Assumptions C09_ir_decoder_read_bytes.

Theorem C09_ir_encoder_append_bool : forall fuel b sz ps z, (80 <= fuel)%nat ->
  in_s64 sz = true -> in_s64 ps = true ->
  run helpers_ir fuel "encoder_append_bool"%string [cursor_val b sz ps; VInt z] =
  match append_bool (mkCur b sz ps) (negb (z =? 0)) with
  | COk s' => ROk (None, [cursor_val (buf s') (size s') (pos s'); VInt z])
  | COob => RFail FOob | CUb => RFail FUb end.
Proof. exact ir_encoder_append_bool. Qed.
Print Assumptions C09_ir_encoder_append_bool.

Theorem C09_ir_decoder_read_bool : forall fuel b sz ps, (80 <= fuel)%nat ->
  in_s64 sz = true -> in_s64 ps = true ->
  run helpers_ir fuel "decoder_read_bool"%string [cursor_val b sz ps] =
  match read_bool (mkCur b sz ps) with
  | COk (s', v) => ROk (Some (if v then 1 else 0), [cursor_val (buf s') (size s') (pos s')])
  | COob => RFail FOob | CUb => RFail FUb end.
Proof. exact ir_decoder_read_bool. Qed.
Print Assumptions C09_ir_decoder_read_bool.

Theorem C09_ir_encoder_append_uint8 : forall fuel b sz ps v, (80 <= fuel)%nat ->
  in_s64 sz = true -> in_s64 ps = true ->
  run helpers_ir fuel "encoder_append_uint8"%string [cursor_val b sz ps; VInt v] =
  match append_uint8 (mkCur b sz ps) v with
  | COk s' => ROk (None, [cursor_val (buf s') (size s') (pos s'); VInt v])
  | COob => RFail FOob | CUb => RFail FUb end.
Proof. exact ir_encoder_append_uint8. Qed.
Print Assumptions C09_ir_encoder_append_uint8.

Theorem C09_ir_encoder_append_uint16 : forall fuel b sz ps v, (80 <= fuel)%nat ->
  in_s64 sz = true -> in_s64 ps = true ->
  run helpers_ir fuel "encoder_append_uint16"%string [cursor_val b sz ps; VInt v] =
  match append_uint16 (mkCur b sz ps) v with
  | COk s' => ROk (None, [cursor_val (buf s') (size s') (pos s'); VInt v])
  | COob => RFail FOob | CUb => RFail FUb end.
Proof. exact ir_encoder_append_uint16. Qed.
Print Assumptions C09_ir_encoder_append_uint16.

Theorem C09_ir_encoder_append_uint32 : forall fuel b sz ps v, (80 <= fuel)%nat ->
  in_s64 sz = true -> in_s64 ps = true ->
  run helpers_ir fuel "encoder_append_uint32"%string [cursor_val b sz ps; VInt v] =
  match append_uint32 (mkCur b sz ps) v with
  | COk s' => ROk (None, [cursor_val (buf s') (size s') (pos s'); VInt v])
  | COob => RFail FOob | CUb => RFail FUb end.
Proof. exact ir_encoder_append_uint32. Qed.
Print Assumptions C09_ir_encoder_append_uint32.

Theorem C09_ir_encoder_append_uint64 : forall fuel b sz ps v, (80 <= fuel)%nat ->
  in_s64 sz = true -> in_s64 ps = true ->
  run helpers_ir fuel "encoder_append_uint64"%string [cursor_val b sz ps; VInt v] =
  match append_uint64 (mkCur b sz ps) v with
  | COk s' => ROk (None, [cursor_val (buf s') (size s') (pos s'); VInt v])
  | COob => RFail FOob | CUb => RFail FUb end.
Proof. exact ir_encoder_append_uint64. Qed.
Print Assumptions C09_ir_encoder_append_uint64.

Theorem C09_ir_encoder_append_int8 : forall fuel b sz ps v, (80 <= fuel)%nat ->
  in_s64 sz = true -> in_s64 ps = true ->
  run helpers_ir fuel "encoder_append_int8"%string [cursor_val b sz ps; VInt v] =
  match append_int8 (mkCur b sz ps) v with
  | COk s' => ROk (None, [cursor_val (buf s') (size s') (pos s'); VInt v])
  | COob => RFail FOob | CUb => RFail FUb end.
Proof. exact ir_encoder_append_int8. Qed.
Print Assumptions C09_ir_encoder_append_int8.

Theorem C09_ir_encoder_append_int16 : forall fuel b sz ps v, (80 <= fuel)%nat ->
  in_s64 sz = true -> in_s64 ps = true ->
  run helpers_ir fuel "encoder_append_int16"%string [cursor_val b sz ps; VInt v] =
  match append_int16 (mkCur b sz ps) v with
  | COk s' => ROk (None, [cursor_val (buf s') (size s') (pos s'); VInt v])
  | COob => RFail FOob | CUb => RFail FUb end.
Proof. exact ir_encoder_append_int16. Qed.
Print Assumptions C09_ir_encoder_append_int16.

Theorem C09_ir_encoder_append_int32 : forall fuel b sz ps v, (80 <= fuel)%nat ->
  in_s64 sz = true -> in_s64 ps = true ->
  run helpers_ir fuel "encoder_append_int32"%string [cursor_val b sz ps; VInt v] =
  match append_int32 (mkCur b sz ps) v with
  | COk s' => ROk (None, [cursor_val (buf s') (size s') (pos s'); VInt v])
  | COob => RFail FOob | CUb => RFail FUb end.
Proof. exact ir_encoder_append_int32. Qed.
Print Assumptions C09_ir_encoder_append_int32.

Theorem C09_ir_encoder_append_int64 : forall fuel b sz ps v, (80 <= fuel)%nat ->
  in_s64 sz = true -> in_s64 ps = true ->
  run helpers_ir fuel "encoder_append_int64"%string [cursor_val b sz ps; VInt v] =
  match append_int64 (mkCur b sz ps) v with
  | COk s' => ROk (None, [cursor_val (buf s') (size s') (pos s'); VInt v])
  | COob => RFail FOob | CUb => RFail FUb end.
Proof. exact ir_encoder_append_int64. Qed.
Print Assumptions C09_ir_encoder_append_int64.

Theorem C09_ir_decoder_read_uint8 : forall fuel b sz ps, (80 <= fuel)%nat ->
  in_s64 sz = true -> in_s64 ps = true -> bytes_ok b ->
  run helpers_ir fuel "decoder_read_uint8"%string [cursor_val b sz ps] =
  match read_uint8 (mkCur b sz ps) with
  | COk (s', r) => ROk (Some r, [cursor_val (buf s') (size s') (pos s')])
  | COob => RFail FOob | CUb => RFail FUb end.
Proof. exact ir_decoder_read_uint8. Qed.
Print Assumptions C09_ir_decoder_read_uint8.

Theorem C09_ir_decoder_read_uint16 : forall fuel b sz ps, (80 <= fuel)%nat ->
  in_s64 sz = true -> in_s64 ps = true -> bytes_ok b ->
  run helpers_ir fuel "decoder_read_uint16"%string [cursor_val b sz ps] =
  match read_uint16 (mkCur b sz ps) (zeros 8) with
  | COk (s', r) => ROk (Some r, [cursor_val (buf s') (size s') (pos s')])
  | COob => RFail FOob | CUb => RFail FUb end.
Proof. exact ir_decoder_read_uint16. Qed.
Print Assumptions C09_ir_decoder_read_uint16.

Theorem C09_ir_decoder_read_uint32 : forall fuel b sz ps, (80 <= fuel)%nat ->
  in_s64 sz = true -> in_s64 ps = true -> bytes_ok b ->
  run helpers_ir fuel "decoder_read_uint32"%string [cursor_val b sz ps] =
  match read_uint32 (mkCur b sz ps) (zeros 8) with
  | COk (s', r) => ROk (Some r, [cursor_val (buf s') (size s') (pos s')])
  | COob => RFail FOob | CUb => RFail FUb end.
Proof. exact ir_decoder_read_uint32. Qed.
Print Assumptions C09_ir_decoder_read_uint32.

Theorem C09_ir_decoder_read_uint64 : forall fuel b sz ps, (80 <= fuel)%nat ->
  in_s64 sz = true -> in_s64 ps = true -> bytes_ok b ->
  run helpers_ir fuel "decoder_read_uint64"%string [cursor_val b sz ps] =
  match read_uint64 (mkCur b sz ps) (zeros 8) with
  | COk (s', r) => ROk (Some r, [cursor_val (buf s') (size s') (pos s')])
  | COob => RFail FOob | CUb => RFail FUb end.
Proof. exact ir_decoder_read_uint64. Qed.
Print Assumptions C09_ir_decoder_read_uint64.

Theorem C09_ir_decoder_read_int8 : forall fuel b sz ps, (80 <= fuel)%nat ->
  in_s64 sz = true -> in_s64 ps = true -> bytes_ok b ->
  run helpers_ir fuel "decoder_read_int8"%string [cursor_val b sz ps] =
  match read_int8 (mkCur b sz ps) with
  | COk (s', r) => ROk (Some r, [cursor_val (buf s') (size s') (pos s')])
  | COob => RFail FOob | CUb => RFail FUb end.
Proof. exact ir_decoder_read_int8. Qed.
Print Assumptions C09_ir_decoder_read_int8.

Theorem C09_ir_decoder_read_int16 : forall fuel b sz ps, (80 <= fuel)%nat ->
  in_s64 sz = true -> in_s64 ps = true -> bytes_ok b ->
  run helpers_ir fuel "decoder_read_int16"%string [cursor_val b sz ps] =
  match read_int16 (mkCur b sz ps) (zeros 8) with
  | COk (s', r) => ROk (Some r, [cursor_val (buf s') (size s') (pos s')])
  | COob => RFail FOob | CUb => RFail FUb end.
Proof. exact ir_decoder_read_int16. Qed.
Print Assumptions C09_ir_decoder_read_int16.

Theorem C09_ir_decoder_read_int32 : forall fuel b sz ps, (80 <= fuel)%nat ->
  in_s64 sz = true -> in_s64 ps = true -> bytes_ok b ->
  run helpers_ir fuel "decoder_read_int32"%string [cursor_val b sz ps] =
  match read_int32 (mkCur b sz ps) (zeros 8) with
  | COk (s', r) => ROk (Some r, [cursor_val (buf s') (size s') (pos s')])
  | COob => RFail FOob | CUb => RFail FUb end.
Proof. exact ir_decoder_read_int32. Qed.
Print Assumptions C09_ir_decoder_read_int32.

Theorem C09_ir_decoder_read_int64 : forall fuel b sz ps, (80 <= fuel)%nat ->
  in_s64 sz = true -> in_s64 ps = true -> bytes_ok b ->
  run helpers_ir fuel "decoder_read_int64"%string [cursor_val b sz ps] =
  match read_int64 (mkCur b sz ps) (zeros 8) with
  | COk (s', r) => ROk (Some r, [cursor_val (buf s') (size s') (pos s')])
  | COob => RFail FOob | CUb => RFail FUb end.
Proof. exact ir_decoder_read_int64. Qed.
Print Assumptions C09_ir_decoder_read_int64.

(** Non-vacuity: a live, clean cursor over four bytes, and a history that runs on it. *)
Example C09_hypotheses_inhabited :
  let s := mkCur [0; 0; 0; 0] 32 0 in
  live s /\ clean s /\
  run_eops s [EBit 1; ENnbi 5 3; EU8 171; EBool false] = COk (mkCur [218; 176; 0; 0] 32 13).
Proof. exact helpers_example. Qed.
Print Assumptions C09_hypotheses_inhabited.
