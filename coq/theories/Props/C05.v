(** C05 — PER and UPER encodings are bit-exact X.691.  Statements only. *)
From Asn1V Require Import Base.Prelude Base.Bits Base.BitsProofs Syntax.Asn1 Per.UperImpl Per.UperPrim.

(** X.691 10.5 / 10.3: a value in a range of width 2^n occupies exactly n bits,
    most significant first, and reads back as itself with the rest of the
    input untouched (the field the UPER model uses for every constrained
    whole number, index and offset length). *)
Theorem C05_nbit_field :
  forall n v rest, 0 <= v < 2 ^ Z.of_nat n ->
    length (to_bits n v) = n /\ read_uint n (to_bits n v ++ rest) = Ok (v, rest).
Proof. intros n v rest H. split; [apply to_bits_length | apply read_uint_app; exact H]. Qed.
Print Assumptions C05_nbit_field.

(** X.691 10.9.3.6/10.9.3.7: the length determinant below 16K (one octet
    0xxxxxxx below 128, two octets 10xxxxxx xxxxxxxx below 16384) decodes to
    the length, for every length and every continuation. *)
Theorem C05_length_determinant :
  forall n rest, 0 <= n < 16384 -> read_len (enc_len_short n ++ rest) = Ok (n, rest).
Proof. exact read_len_short. Qed.
Print Assumptions C05_length_determinant.

Example C05_length_determinant_vectors :
  enc_len_short 5 = to_bits 8 5 /\ enc_len_short 300 = to_bits 8 129 ++ to_bits 8 44.
Proof. split; vm_compute; reflexivity. Qed.
Print Assumptions C05_length_determinant_vectors.
