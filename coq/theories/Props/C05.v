(** C05 — PER and UPER encodings are bit-exact X.691.  Statements only. *)
From Asn1V Require Import Base.Prelude Base.Bits Base.BitsProofs Syntax.Asn1 Per.UperImpl Per.UperPrim Per.UperPB Per.UperRT.

(** X.691 10.5 / 10.3: a value in a range of width 2^n occupies exactly n bits,
    most significant first, and reads back as itself with the rest of the
    input untouched (the field the UPER model uses for every constrained
    whole number, index and offset length). *)
Theorem C05_nbit_field :
  forall n v rest, 0 <= v < 2 ^ Z.of_nat n ->
    length (to_bits n v) = n /\ read_uint n (to_bits n v ++ rest) = Ok (v, rest).
Proof. intros n v rest H. split; [apply to_bits_length | apply read_uint_app; exact H]. Qed.
Print Assumptions C05_nbit_field.

(** X.691 10.9.3.6/10.9.3.7: the length determinant below 16K (one octet
    0xxxxxxx below 128, two octets 10xxxxxx xxxxxxxx below 16384) decodes to
    the length, for every length and every continuation. *)
Theorem C05_length_determinant :
  forall n rest, 0 <= n < 16384 -> read_len (enc_len_short n ++ rest) = Ok (n, rest).
Proof. exact read_len_short. Qed.
Print Assumptions C05_length_determinant.

(** X.691 10.5: the field of a constrained whole number is the SMALLEST
    number of bits that holds the range — the width the model (and uper.py's
    integer_as_number_of_bits) computes is minimal. *)
Theorem C05_constrained_width_minimal :
  forall lo hi, lo <= hi ->
    let n := bit_length (hi - lo) in
    hi - lo < 2 ^ n /\ forall m, 0 <= m < n -> 2 ^ m <= hi - lo.
Proof. exact constrained_width_minimal. Qed.
Print Assumptions C05_constrained_width_minimal.

(** X.691 10.8 / 12.2.6: an unconstrained whole number is written as a
    2's-complement integer in the MINIMUM number of octets: the octet count of
    append_unconstrained_whole_number holds the value and one octet less would not. *)
Theorem C05_unconstrained_octets_minimal :
  forall v, let n := unc_nbytes v in
    (- 2 ^ (8 * n - 1) <= v < 2 ^ (8 * n - 1)) /\
    (1 < n -> ~ (- 2 ^ (8 * (n - 1) - 1) <= v < 2 ^ (8 * (n - 1) - 1))).
Proof. exact unconstrained_octets_minimal. Qed.
Print Assumptions C05_unconstrained_octets_minimal.

(** and that integer reads back exactly (any value, any continuation) *)
Theorem C05_unconstrained_roundtrip :
  forall v bs rest, enc_unconstrained v = Ok bs -> read_unconstrained (bs ++ rest) = Ok (v, rest).
Proof. exact read_unconstrained_rt. Qed.
Print Assumptions C05_unconstrained_roundtrip.

(** Whole types: the bit string the UPER model emits is read back by the
    model decoder to the same abstract value for every modelled type (the
    model is compared bit for bit with uper.py on every run). *)
Theorem C05_uper_bits_decodable :
  forall numeric e fuel t v bs,
    enc numeric e fuel t v = Ok bs ->
    forall rest, dec numeric e fuel t (bs ++ rest) = Ok (norm numeric e fuel t v, rest).
Proof. exact enc_dec_rt. Qed.
Print Assumptions C05_uper_bits_decodable.

Example C05_length_determinant_vectors :
  enc_len_short 5 = to_bits 8 5 /\ enc_len_short 300 = to_bits 8 129 ++ to_bits 8 44.
Proof. split; vm_compute; reflexivity. Qed.
Print Assumptions C05_length_determinant_vectors.

(** ------------------------------------------------------------------
    The whole-type statement.  [Per/X691.v] is a specification model written from the structure of X.691 and NOT
    from uper.py: [x691_fields] produces the abstract field list clause by clause (constrained whole numbers 10.5,
    normally small numbers 10.6, semi-constrained 10.7, unconstrained 10.8, counted items with the 16K
    fragmentation procedure 10.9, open types 10.2; BOOLEAN 12 ... restricted strings 30 incl. the re-indexing rule
    30.5.4), [serialise] lays the fields out without alignment.  On the boolean scope [x691_scope] - which excludes
    exactly the regions where the library deviates (each documented by a [.._deviates] example in Per/X691Refine.v)
    and the constructs the implementation model maps to EUnmodelled/EForeign - the implementation model computes
    exactly the specification, errors included. *)
From Asn1V Require Import Per.X691 Per.X691Refine Per.X691Ex.

Theorem C05_uper_refines_x691 :
  forall numeric e fuel t v,
    x691_scope numeric e fuel t v = true ->
    enc numeric e fuel t v = x691_encode numeric e fuel t v.
Proof. exact uper_refines_x691. Qed.
Print Assumptions C05_uper_refines_x691.

Theorem C05_uper_encode_refines_x691 :
  forall numeric e fuel t v,
    x691_scope numeric e fuel t v = true ->
    x691_encode numeric e fuel t v <> Ok [] ->
    uper_encode numeric fuel e t v = x691_encode_octets numeric e fuel t v.
Proof. exact uper_encode_refines_x691. Qed.
Print Assumptions C05_uper_encode_refines_x691.

(** the empty outermost encoding (known finding per-empty-outermost-encoding): the library emits no octet where
    X.691 10.1.3 prescribes one zero octet *)
Theorem C05_uper_encode_empty_x691 :
  forall numeric e fuel t v,
    x691_scope numeric e fuel t v = true ->
    x691_encode numeric e fuel t v = Ok [] ->
    uper_encode numeric fuel e t v = Ok [] /\ x691_encode_octets numeric e fuel t v = Ok [0].
Proof. exact uper_encode_empty_x691. Qed.
Print Assumptions C05_uper_encode_empty_x691.

(** Non-vacuity: the nested extensible example of Props/C01.v and the four-node extension example are in scope, and
    the specification model reproduces the unaligned examples of X.691 Annex A.1.3, A.2.3, A.3.3 octet for octet. *)
Example C05_scope_inhabited : ltac:(let T := type of (conj ex_in_scope top2_in_scope) in exact T).
Proof. exact (conj ex_in_scope top2_in_scope). Qed.
Print Assumptions C05_scope_inhabited.
Example C05_annex_a : ltac:(let T := type of (conj annex_a1 (conj annex_a2 annex_a3)) in exact T).
Proof. exact (conj annex_a1 (conj annex_a2 annex_a3)). Qed.
Print Assumptions C05_annex_a.

(** ------------------------------------------------------------------
    Aligned PER (per.py).  [Per/X691Aligned.v]: the aligned field list (the X.691 clause functions of X691.v for
    INTEGER, ENUMERATED, OID, UTF8String; own string clauses with octet-aligned bit-fields and power-of-two
    character widths) and [serialise_aligned], which takes the current bit position (11.5.7: ranges up to 255 as
    bit-fields, 256 one aligned octet, up to 64K two aligned octets, larger: aligned length-prefixed octets;
    aligned length determinants, strings aligned when variable or longer than 16 bits, aligned open types).
    [pe] selects the reading of "an empty octet-aligned bit-field still pads" - per.py does both - and
    everything is stated for both readings.  The implementation model of per.py, as a state transformer from ANY
    encoder state, computes exactly the specification on [x691a_scope], errors included. *)
From Asn1V Require Import Per.PerImpl Per.X691Aligned Per.X691AlignedRefine Per.X691AlignedEx.

Theorem C05_per_refines_x691 :
  forall pe numeric e fuel t v st,
    x691a_scope pe numeric e fuel t v = true ->
    penc_ty numeric e fuel t v st =
    match x691a_fields numeric e fuel t v with
    | Ok fs => Ok (pst_app st (serialise_aligned pe fs (fst st)))
    | Err err => Err err
    end.
Proof. exact per_refines_x691. Qed.
Print Assumptions C05_per_refines_x691.

Theorem C05_per_encode_refines_x691 :
  forall pe numeric e fuel t v,
    x691a_scope pe numeric e fuel t v = true ->
    x691a_encode numeric e pe fuel t v <> Ok [] ->
    per_encode numeric fuel e t v = x691a_encode_octets numeric e pe fuel t v.
Proof. exact per_encode_refines_x691. Qed.
Print Assumptions C05_per_encode_refines_x691.

Theorem C05_per_encode_empty_x691 :
  forall pe numeric e fuel t v,
    x691a_scope pe numeric e fuel t v = true ->
    x691a_encode numeric e pe fuel t v = Ok [] ->
    per_encode numeric fuel e t v = Ok [] /\ x691a_encode_octets numeric e pe fuel t v = Ok [0].
Proof. exact per_encode_empty_x691. Qed.
Print Assumptions C05_per_encode_empty_x691.

(** Non-vacuity: the examples are in the aligned scope, and the aligned specification model reproduces the ALIGNED
    examples of X.691 Annex A.1.2 (94 octets), A.2.2 (74), A.3.2 (83) octet for octet, for both readings. *)
Example C05_aligned_scope_inhabited : ltac:(let T := type of (conj ex_in_ascope top2_in_ascope) in exact T).
Proof. exact (conj ex_in_ascope top2_in_ascope). Qed.
Print Assumptions C05_aligned_scope_inhabited.
Example C05_annex_a_aligned : ltac:(let T := type of (conj annex_a1_aligned (conj annex_a2_aligned annex_a3_aligned)) in exact T).
Proof. exact (conj annex_a1_aligned (conj annex_a2_aligned annex_a3_aligned)). Qed.
Print Assumptions C05_annex_a_aligned.

(** ------------------------------------------------------------------
    Tie to the SOURCE TEXT (coq/gen/PyPer.v regenerated from per.py on every run):
    the regenerated width / size helper functions ARE the functions the models use. *)
From Asn1V Require Py.PyPerTie.

Theorem C05_src_integer_as_number_of_bits : ltac:(let T := type of Asn1V.Py.PyPerTie.py_integer_as_number_of_bits_eq in exact T).
Proof. exact Asn1V.Py.PyPerTie.py_integer_as_number_of_bits_eq. Qed.
Print Assumptions C05_src_integer_as_number_of_bits.

Theorem C05_src_integer_as_number_of_bits_power_of_two : ltac:(let T := type of Asn1V.Py.PyPerTie.py_integer_as_number_of_bits_power_of_two_eq in exact T).
Proof. exact Asn1V.Py.PyPerTie.py_integer_as_number_of_bits_power_of_two_eq. Qed.
Print Assumptions C05_src_integer_as_number_of_bits_power_of_two.

Theorem C05_src_size_as_number_of_bytes : ltac:(let T := type of Asn1V.Py.PyPerTie.py_size_as_number_of_bytes_eq in exact T).
Proof. exact Asn1V.Py.PyPerTie.py_size_as_number_of_bytes_eq. Qed.
Print Assumptions C05_src_size_as_number_of_bytes.

Theorem C05_src_is_unbound : ltac:(let T := type of Asn1V.Py.PyPerTie.py_is_unbound_eq in exact T).
Proof. exact Asn1V.Py.PyPerTie.py_is_unbound_eq. Qed.
Print Assumptions C05_src_is_unbound.

Theorem C05_src_to_int : ltac:(let T := type of Asn1V.Py.PyPerTie.py_to_int_eq in exact T).
Proof. exact Asn1V.Py.PyPerTie.py_to_int_eq. Qed.
Print Assumptions C05_src_to_int.

Theorem C05_src_to_byte_array : ltac:(let T := type of Asn1V.Py.PyPerTie.py_to_byte_array_eq in exact T).
Proof. exact Asn1V.Py.PyPerTie.py_to_byte_array_eq. Qed.
Print Assumptions C05_src_to_byte_array.

(** ------------------------------------------------------------------
    Constraints written on a REFERENCE at a component site (Per/RefSite.v): the site means the derived definition
    "Id.k ::= Id (constraint)"; [elab_env] computes the environment from the definitions as written, and the X.691
    encoding of a value at such a site is the encoding at the inlined derived type - while a plain site of the same
    named type under the same identifier is unchanged by what other sites carry.  harness/c05_refsites.py generates
    several same-named reference sites of one type, each with its own SIZE / range / OPTIONAL / DEFAULT / tag. *)
From Asn1V Require Per.RefSite.

Theorem C05_site_inline : ltac:(let T := type of Asn1V.Per.RefSite.x691_site_inline in exact T).
Proof. exact Asn1V.Per.RefSite.x691_site_inline. Qed.
Print Assumptions C05_site_inline.

Theorem C05_site_inline_aligned : ltac:(let T := type of Asn1V.Per.RefSite.x691a_site_inline in exact T).
Proof. exact Asn1V.Per.RefSite.x691a_site_inline. Qed.
Print Assumptions C05_site_inline_aligned.

Theorem C05_plain_site_unchanged : ltac:(let T := type of Asn1V.Per.RefSite.x691_plain_site_unchanged in exact T).
Proof. exact Asn1V.Per.RefSite.x691_plain_site_unchanged. Qed.
Print Assumptions C05_plain_site_unchanged.

Theorem C05_plain_site_unchanged_aligned : ltac:(let T := type of Asn1V.Per.RefSite.x691a_plain_site_unchanged in exact T).
Proof. exact Asn1V.Per.RefSite.x691a_plain_site_unchanged. Qed.
Print Assumptions C05_plain_site_unchanged_aligned.
