(** C15 — BER/DER framing helpers agree with the decoder on where a message
    ends.  Statements only; proofs live in Ber/HeaderProofs.v. *)
From Asn1V Require Import Base.Prelude Ber.Header Ber.HeaderProofs.

(** The length probe, for every identifier-octet string [t] (any tag number,
    minimal or not), every definite length-octet string [l] of value [L] (short
    or long form, minimal or padded, 1..127 length octets), every contents of
    that length, every tail and EVERY prefix length [k]: the probe answers the
    total message length exactly when the prefix contains all identifier and
    length octets, and "not yet known" (None) otherwise — never another number,
    never an exception. *)
Theorem C15_decode_length_prefix :
  forall t l L content tail k,
    wf_tag t -> wf_len l L -> Z.of_nat (length content) = L ->
    decode_full_length (firstn k (t ++ l ++ content ++ tail)) =
    if (length t + length l <=? k)%nat
    then Ok (Some (Z.of_nat (length t + length l) + L)) else Ok None.
Proof. exact decode_full_length_prefix. Qed.
Print Assumptions C15_decode_length_prefix.

(** Non-vacuity: a three-octet tag (number 300), a padded two-octet long-form
    length and five content octets satisfy the hypotheses. *)
Example C15_hypotheses_inhabited :
  wf_tag [0xbf; 0x82; 0x2c] /\ wf_len [0x82; 0; 5] 5 /\
  decode_full_length (firstn 6 ([0xbf; 0x82; 0x2c] ++ [0x82; 0; 5] ++ [1;2;3;4;5] ++ [9;9])) = Ok (Some 11) /\
  decode_full_length (firstn 5 ([0xbf; 0x82; 0x2c] ++ [0x82; 0; 5] ++ [1;2;3;4;5] ++ [9;9])) = Ok None.
Proof.
  split; [|split; [|split; vm_compute; reflexivity]].
  - apply (wf_tag_long 0xbf [0x82] 0x2c); [unfold is_byte; lia | reflexivity | | reflexivity].
    constructor; [vm_compute; congruence | constructor].
  - apply (wf_len_long 2 [0; 5]); [lia | reflexivity].
Qed.
Print Assumptions C15_hypotheses_inhabited.

(** decode_with_length: framing by the decoder itself.  For every valid BER
    encoding [bs] of a value (ANY form the X.690 relation admits, in particular
    every definite-length one) followed by arbitrary further octets, the BER
    decoder model returns the value together with exactly [length bs]; for DER
    encoder outputs the DER decoder model does the same.  (Statements = the
    types of [C04_ber_accepts] and [C03_der_roundtrip], written out in
    Props/C04.v and Props/C03.v.) *)
From Asn1V Require Props.C04 Props.C03.
Theorem C15_decode_with_length_framing_ber : ltac:(let T := type of Asn1V.Props.C04.C04_ber_accepts in exact T).
Proof. exact Asn1V.Props.C04.C04_ber_accepts. Qed.
Print Assumptions C15_decode_with_length_framing_ber.

Theorem C15_decode_with_length_framing_der : ltac:(let T := type of Asn1V.Props.C03.C03_der_roundtrip in exact T).
Proof. exact Asn1V.Props.C03.C03_der_roundtrip. Qed.
Print Assumptions C15_decode_with_length_framing_der.
