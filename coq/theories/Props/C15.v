(** C15 — BER/DER framing helpers agree with the decoder on where a message
    ends.  Statements only; proofs live in Ber/HeaderProofs.v. *)
From Asn1V Require Import Base.Prelude Ber.Header Ber.HeaderProofs.

(** The length probe, for every identifier-octet string [t] (any tag number,
    minimal or not), every definite length-octet string [l] of value [L] (short
    or long form, minimal or padded, 1..127 length octets), every contents of
    that length, every tail and EVERY prefix length [k]: the probe answers the
    total message length exactly when the prefix contains all identifier and
    length octets, and "not yet known" (None) otherwise — never another number,
    never an exception. *)
Theorem C15_decode_length_prefix :
  forall t l L content tail k,
    wf_tag t -> wf_len l L -> Z.of_nat (length content) = L ->
    decode_full_length (firstn k (t ++ l ++ content ++ tail)) =
    if (length t + length l <=? k)%nat
    then Ok (Some (Z.of_nat (length t + length l) + L)) else Ok None.
Proof. exact decode_full_length_prefix. Qed.
Print Assumptions C15_decode_length_prefix.

(** Non-vacuity: a three-octet tag (number 300), a padded two-octet long-form
    length and five content octets satisfy the hypotheses. *)
Example C15_hypotheses_inhabited :
  wf_tag [0xbf; 0x82; 0x2c] /\ wf_len [0x82; 0; 5] 5 /\
  decode_full_length (firstn 6 ([0xbf; 0x82; 0x2c] ++ [0x82; 0; 5] ++ [1;2;3;4;5] ++ [9;9])) = Ok (Some 11) /\
  decode_full_length (firstn 5 ([0xbf; 0x82; 0x2c] ++ [0x82; 0; 5] ++ [1;2;3;4;5] ++ [9;9])) = Ok None.
Proof.
  split; [|split; [|split; vm_compute; reflexivity]].
  - apply (wf_tag_long 0xbf [0x82] 0x2c); [unfold is_byte; lia | reflexivity | | reflexivity].
    constructor; [vm_compute; congruence | constructor].
  - apply (wf_len_long 2 [0; 5]); [lia | reflexivity].
Qed.
Print Assumptions C15_hypotheses_inhabited.

(** decode_with_length: framing by the decoder itself.  For every valid BER
    encoding [bs] of a value (ANY form the X.690 relation admits, in particular
    every definite-length one) followed by arbitrary further octets, the BER
    decoder model returns the value together with exactly [length bs]; for DER
    encoder outputs the DER decoder model does the same.  (Statements = the
    types of [C04_ber_accepts] and [C03_der_roundtrip], written out in
    Props/C04.v and Props/C03.v.) *)
From Asn1V Require Props.C04 Props.C03.
Theorem C15_decode_with_length_framing_ber : ltac:(let T := type of Asn1V.Props.C04.C04_ber_accepts in exact T).
Proof. exact Asn1V.Props.C04.C04_ber_accepts. Qed.
Print Assumptions C15_decode_with_length_framing_ber.

Theorem C15_decode_with_length_framing_der : ltac:(let T := type of Asn1V.Props.C03.C03_der_roundtrip in exact T).
Proof. exact Asn1V.Props.C03.C03_der_roundtrip. Qed.
Print Assumptions C15_decode_with_length_framing_der.

(** ------------------------------------------------------------------
    The probe agrees with the decoder (Ber/HeaderAgree.v).  For EVERY
    well-formed BER tree [x] whose outermost length is definite — whatever forms
    are used inside: padded lengths, constructed strings with zero, one or many
    segments, indefinite lengths on inner nodes — every tail and every prefix
    length [k]: the probe answers [length (bser x)] exactly when the prefix
    covers the identifier and length octets of [x], "not yet known" otherwise;
    and under C04's hypotheses the decoder's end offset on [bser x ++ tail] IS
    that answer.
    (statements = the types of [probe_on_tree] / [probe_agrees_with_decoder]) *)
From Asn1V Require Ber.HeaderAgree.

Theorem C15_probe_on_tree : ltac:(let T := type of Asn1V.Ber.HeaderAgree.probe_on_tree in exact T).
Proof. exact Asn1V.Ber.HeaderAgree.probe_on_tree. Qed.
Print Assumptions C15_probe_on_tree.

Theorem C15_probe_agrees_with_decoder : ltac:(let T := type of Asn1V.Ber.HeaderAgree.probe_agrees_with_decoder in exact T).
Proof. exact Asn1V.Ber.HeaderAgree.probe_agrees_with_decoder. Qed.
Print Assumptions C15_probe_agrees_with_decoder.

(** ------------------------------------------------------------------
    Tie to the SOURCE TEXT (translator/pyfun.py regenerates coq/gen/PyBer.v from
    asn1tools/codecs/ber.py on every run): the regenerated skip_tag,
    decode_length, skip_tag_length_contents and decode_full_length ARE the model
    functions of Ber/Header.v, for all data, all offsets, errors included, with
    an explicit fuel bound that the out-of-fuel outcome never reaches.  An edit
    of those Python functions therefore breaks one of these obligations.
    (statements = the types of the theorems of Py/PyBerTie.v; written out in notes/PYFUN.md) *)
From Asn1V Require Py.PyBerTie.

Theorem C15_src_skip_tag : ltac:(let T := type of Asn1V.Py.PyBerTie.py_skip_tag_eq in exact T).
Proof. exact Asn1V.Py.PyBerTie.py_skip_tag_eq. Qed.
Print Assumptions C15_src_skip_tag.

Theorem C15_src_decode_length : ltac:(let T := type of Asn1V.Py.PyBerTie.py_decode_length_eq in exact T).
Proof. exact Asn1V.Py.PyBerTie.py_decode_length_eq. Qed.
Print Assumptions C15_src_decode_length.

Theorem C15_src_skip_tag_length_contents : ltac:(let T := type of Asn1V.Py.PyBerTie.py_skip_tag_length_contents_eq in exact T).
Proof. exact Asn1V.Py.PyBerTie.py_skip_tag_length_contents_eq. Qed.
Print Assumptions C15_src_skip_tag_length_contents.

Theorem C15_src_decode_full_length : ltac:(let T := type of Asn1V.Py.PyBerTie.py_decode_full_length_eq in exact T).
Proof. exact Asn1V.Py.PyBerTie.py_decode_full_length_eq. Qed.
Print Assumptions C15_src_decode_full_length.

Theorem C15_src_decode_full_length_fuel : ltac:(let T := type of Asn1V.Py.PyBerTie.py_decode_full_length_fuel in exact T).
Proof. exact Asn1V.Py.PyBerTie.py_decode_full_length_fuel. Qed.
Print Assumptions C15_src_decode_full_length_fuel.
