(** C12 — ill-typed or out-of-constraint components are rejected with the
    exact path.  Statements only.

    Models: Check/TypeCheck.v (type_checker.py), Check/Constraints.v
    (constraints_checker.py), Check/Skeleton.v (the member / choice /
    enumeration error behaviour of the eight codecs' encoders), Check/Location.v
    (ErrorWithLocation.add_location / location_str); [first_error] composes them
    as Specification.encode(check_types=True, check_constraints=True) does.
    Corruptions: Check/Corrupt.v.  Proofs: Check/TypeCheckProofs.v,
    Check/PathProofs.v, Check/Refuted.v.

    The positive theorems are about the REPAIRED tree ([Repaired] variant:
    proposed_fixes/C12-recursive-path.diff, C12-enumerated-unknown-name.diff,
    C12-addition-errors.diff); the [..._refuted] theorems state, with
    witnesses, what the unrepaired code does instead, and two departures that
    are pinned by the test-suite and therefore remain (known findings). *)
From Asn1V Require Import Base.Prelude Syntax.Asn1 Check.Location Check.WellTyped Check.Constraints
     Check.Admits Check.TypeCheck Check.Skeleton Check.Corrupt
     Check.ConstraintsProofs Check.TypeCheckProofs Check.PathProofs Check.Refuted.

(** Well-typed values are never rejected by the type check (any variant, any
    compilation context, through references and recursion). *)
Theorem C12_typecheck_complete :
  forall vr fuel env name v,
    well_typed_top fuel env name v = true -> tcheck_top vr fuel env name v = Pass.
Proof. exact tcheck_top_complete. Qed.
Print Assumptions C12_typecheck_complete.

Theorem C12_typecheck_complete_node :
  forall vr fuel env c t v, well_typed fuel env t v = true -> tcheck vr fuel env c t v = Pass.
Proof. exact tcheck_complete. Qed.
Print Assumptions C12_typecheck_complete_node.

(** One fault, exact class and path.  Hypotheses:
    - [good cd fuel env t v]: the uncorrupted value is well typed, admitted by
      the constraints and encodable by codec [cd] (JER/XER/GSER require every
      mandatory extension addition to be present);
    - [corrupt_at]: [v'] is [v] with the component at path [p] replaced by a
      fault of kind [k] (rejected Python type, unknown CHOICE alternative,
      unknown ENUMERATED name, missing mandatory root member, constraint
      violation); extension additions along the path are prefix closed;
    - faults the TYPE CHECKER reports must not lie below a recursive type
      reference ([crossed = false]); see C12_typecheck_recursive_path_refuted.
    Conclusion: encode raises the class of the fault (EncodeError, or
    ConstraintsError for a constraint violation) — so never bytes, never a
    foreign exception — and the message starts with Type.member.member...
    for all eight codecs. *)
Theorem C12_one_fault_path :
  forall cd fuel env name t v p k v' crossed,
    lookup name env = Some t ->
    good cd fuel env t v ->
    corrupt_at env [name] t v p k v' crossed ->
    (tc_kind k = true -> crossed = false) ->
    outcome_class (first_error Repaired cd fuel env name v') = Some (class_of k) /\
    outcome_path (first_error Repaired cd fuel env name v') = dotted (name1 name ++ names_along p).
Proof. exact one_fault_path_dotted. Qed.
Print Assumptions C12_one_fault_path.

(** The same with the location list itself (no constructor location left). *)
Theorem C12_one_fault_location :
  forall cd fuel env name t v p k v' crossed,
    lookup name env = Some t ->
    good cd fuel env t v ->
    corrupt_at env [name] t v p k v' crossed ->
    (tc_kind k = true -> crossed = false) ->
    fails_with (first_error Repaired cd fuel env name v') (class_of k) (name1 name ++ names_along p).
Proof. exact one_fault_path_proof. Qed.
Print Assumptions C12_one_fault_location.

(** Refuted, known finding (pinned by tests/test_type_checker.py): below a
    recursive reference the type checker's path contains the type name once
    per level. *)
Theorem C12_typecheck_recursive_path_refuted :
  forall vr, exists env name t v p v',
    lookup name env = Some t /\ good Ber 10 env t v /\
    corrupt_at env [name] t v p KWrongType v' true /\
    outcome_class (first_error vr Ber 10 env name v') = Some EEncode /\
    outcome_path (first_error vr Ber 10 env name v') = "R.next.R.v"%string /\
    dotted (name1 name ++ names_along p) = "R.next.v"%string.
Proof. exact typecheck_recursive_path_refuted. Qed.
Print Assumptions C12_typecheck_recursive_path_refuted.

(** Refuted, known finding (message pinned by the suite): a str is accepted
    where an INTEGER is expected and surfaces as a foreign TypeError. *)
Theorem C12_integer_str_accepted_refuted :
  forall vr,
    outcome_class (tcheck_top vr 10 envR "R"%string (VSeq [("v"%string, VStr [120])])) = None /\
    outcome_class (first_error vr Ber 10 envR "R"%string (VSeq [("v"%string, VStr [120])])) =
    Some (EForeign "TypeError"%string).
Proof. exact integer_str_accepted_refuted. Qed.
Print Assumptions C12_integer_str_accepted_refuted.

(** Refuted for the unrepaired tree, repaired by proposed_fixes/C12-*.diff. *)
Theorem C12_orig_recursive_path_collapses_refuted :
  outcome_path (first_error Orig Ber 10 envR "R"%string (depth2 (VInt 9))) = "R.next.v"%string /\
  outcome_path (first_error Orig Ber 10 envR "R"%string (depth2 (VBytes [120]))) = "R.next.R.next.R.v"%string /\
  outcome_path (first_error Orig Ber 10 envR "R"%string
     (VSeq [("v"%string, VInt 0); ("next"%string, VSeq [("v"%string, VInt 0); ("next"%string, VSeq [])])]))
  = "R.next"%string /\
  outcome_path (first_error Repaired Ber 10 envR "R"%string (depth2 (VInt 9))) = "R.next.next.v"%string /\
  outcome_path (first_error Repaired Ber 10 envR "R"%string
     (VSeq [("v"%string, VInt 0); ("next"%string, VSeq [("v"%string, VInt 0); ("next"%string, VSeq [])])]))
  = "R.next.next"%string.
Proof. exact orig_recursive_path_collapses_refuted. Qed.
Print Assumptions C12_orig_recursive_path_collapses_refuted.

Theorem C12_orig_addition_enum_swallowed_refuted :
  first_error Orig Ber 10 envG "G"%string vG_bad = Pass /\
  first_error Orig Oer 10 envG "G"%string vG_bad = Pass /\
  outcome_path (first_error Orig Jer 10 envG "G"%string vG_bad) = "G.x"%string /\
  (forall cd, outcome_class (first_error Repaired cd 10 envG "G"%string vG_bad) = Some EEncode /\
              outcome_path (first_error Repaired cd 10 envG "G"%string vG_bad) = "G.x"%string).
Proof. exact orig_addition_enum_swallowed_refuted. Qed.
Print Assumptions C12_orig_addition_enum_swallowed_refuted.

Theorem C12_orig_enum_keyerror_refuted :
  outcome_class (first_error Orig Per 10 envG "G"%string (VSeq [("e"%string, VEnum "zz"%string)])) = Some (EForeign "KeyError"%string) /\
  outcome_class (first_error Orig Uper 10 envG "G"%string (VSeq [("e"%string, VEnum "zz"%string)])) = Some (EForeign "KeyError"%string) /\
  outcome_class (first_error Orig Gser 10 envG "G"%string (VSeq [("e"%string, VEnum "zz"%string)])) = Some (EForeign "KeyError"%string) /\
  outcome_class (first_error Repaired Per 10 envG "G"%string (VSeq [("e"%string, VEnum "zz"%string)])) = Some EEncode.
Proof. exact orig_enum_keyerror_refuted. Qed.
Print Assumptions C12_orig_enum_keyerror_refuted.

(** Non-vacuity of C12_one_fault_path: a constraint fault two levels below a
    recursive reference (crossed = true is allowed for this kind). *)
Example C12_hypotheses_inhabited :
  lookup "R"%string envR = Some tR /\
  good Jer 10 envR tR (depth1 (VInt 1)) /\
  corrupt_at envR ["R"%string] tR (depth1 (VInt 1)) [SField "next"%string; SField "v"%string] KConstraint
             (depth1 (VInt 9)) true /\
  (tc_kind KConstraint = true -> true = false) /\
  outcome_class (first_error Repaired Jer 10 envR "R"%string (depth1 (VInt 9))) = Some EConstraints /\
  outcome_path (first_error Repaired Jer 10 envR "R"%string (depth1 (VInt 9))) = "R.next.v"%string.
Proof. exact one_fault_example. Qed.
Print Assumptions C12_hypotheses_inhabited.
