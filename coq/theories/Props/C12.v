(** C12 placeholder while the proofs are being written. *)
From Asn1V Require Import Base.Prelude Syntax.Asn1 Check.Location Check.Skeleton.
Example C12_stub : swallows Ber = true.
Proof. reflexivity. Qed.
Print Assumptions C12_stub.
