(** C01 — binary codecs round-trip every value of every compilable type.
    Statements only.  UPER is proved here for the whole modelled universe; the
    theorems of the other codecs are added as their models are delivered
    (the cross-codec property test runs on /repo for all of them). *)
From Asn1V Require Import Base.Prelude Base.Bits Syntax.Asn1 Per.UperImpl Per.UperPrim Per.UperPB Per.UperRT.

(** UPER, bit level: for every type environment, every type (BOOLEAN, INTEGER
    in all constraint forms incl. extensible, ENUMERATED with additions, NULL,
    BIT STRING with named bits, OCTET STRING, known-multiplier strings with
    permitted alphabets, UTF8String, OBJECT IDENTIFIER, SEQUENCE/SET with
    OPTIONAL/DEFAULT, extension additions and addition groups, SEQUENCE OF with
    16K fragmentation, CHOICE with additions, references and recursion), every
    value the encoder accepts, and every continuation of the input: decoding
    the encoding yields [norm v] — the same abstract value, DEFAULTs filled
    in, named-bit strings modulo trailing zero bits — and leaves the
    continuation untouched. *)
Theorem C01_uper_roundtrip_bits :
  forall numeric e fuel t v bs,
    enc numeric e fuel t v = Ok bs ->
    forall rest, dec numeric e fuel t (bs ++ rest) = Ok (norm numeric e fuel t v, rest).
Proof. exact enc_dec_rt. Qed.
Print Assumptions C01_uper_roundtrip_bits.

(** UPER, octet level (what Specification.encode / decode exchange), with any
    trailing octets: the value comes back and the decoder stops inside the
    last octet of the encoding. *)
Theorem C01_uper_roundtrip :
  forall numeric fuel e t v data,
    uper_encode numeric fuel e t v = Ok data ->
    forall tail, exists n,
      uper_decode numeric fuel e t (data ++ tail) = Ok (norm numeric e fuel t v, n) /\
      (n <= 8 * length data)%nat /\ (8 * length data < n + 8)%nat.
Proof. exact uper_roundtrip. Qed.
Print Assumptions C01_uper_roundtrip.

From Asn1V Require Props.C06 Props.C03 Oer.OerReencode Ber.BerRoundtrip.

(** OER: decode (encode v ++ tail) = (oer_norm v, length of the encoding) on the region oer_ok (Oer/OerScope.v).
    (statement = the type of [Asn1V.Props.C06.C06_oer_roundtrip]; written out in that file) *)
Theorem C01_oer_roundtrip : ltac:(let T := type of Asn1V.Props.C06.C06_oer_roundtrip in exact T).
Proof. exact Asn1V.Props.C06.C06_oer_roundtrip. Qed.
Print Assumptions C01_oer_roundtrip.

(** OER: re-encoding the decoded value reproduces the identical octets (under the canonical-value side condition oer_canon).
    (statement = the type of [Asn1V.Oer.OerReencode.oer_reencode]; written out in that file) *)
Theorem C01_oer_reencode : ltac:(let T := type of Asn1V.Oer.OerReencode.oer_reencode in exact T).
Proof. exact Asn1V.Oer.OerReencode.oer_reencode. Qed.
Print Assumptions C01_oer_reencode.

(** DER: the DER decoder reads every in-scope encoding back to the normal form, with any tail.
    (statement = the type of [Asn1V.Props.C03.C03_der_roundtrip]; written out in that file) *)
Theorem C01_der_roundtrip : ltac:(let T := type of Asn1V.Props.C03.C03_der_roundtrip in exact T).
Proof. exact Asn1V.Props.C03.C03_der_roundtrip. Qed.
Print Assumptions C01_der_roundtrip.

(** DER output read by the BER decoder.
    (statement = the type of [Asn1V.Props.C03.C03_der_ber_roundtrip]; written out in that file) *)
Theorem C01_der_ber_roundtrip : ltac:(let T := type of Asn1V.Props.C03.C03_der_ber_roundtrip in exact T).
Proof. exact Asn1V.Props.C03.C03_der_ber_roundtrip. Qed.
Print Assumptions C01_der_ber_roundtrip.

(** BER: round trip for types without SET / SET OF / named bits (where the BER and DER encoders coincide); full ber_roundtrip is OPEN.
    (statement = the type of [Asn1V.Ber.BerRoundtrip.ber_roundtrip_partial]; written out in that file) *)
Theorem C01_ber_roundtrip_partial : ltac:(let T := type of Asn1V.Ber.BerRoundtrip.ber_roundtrip_partial in exact T).
Proof. exact Asn1V.Ber.BerRoundtrip.ber_roundtrip_partial. Qed.
Print Assumptions C01_ber_roundtrip_partial.

(* OPEN: C01_uper_reencode : enc (norm v) = enc v (byte-identical re-encoding of the decoded
   value) is not proved yet; it is exercised by the property test on /repo. *)

Local Open Scope string_scope.
Definition ex_env : env :=
  [("R", TSeq false [("v", TInt (IcRange (Some 0) (Some 255) false), Mandatory);
                     ("next", TRef "R", Optional)] None)].
Definition ex_ty : ty :=
  TSeq false
       [("a", TChoice [("i", TInt IcNone, Mandatory); ("s", TStr SkIA5 (SzRange 1 (Some 4) false) None, Mandatory)]
                      (Some [("r", TRef "R", Mandatory)]), Mandatory);
        ("b", TBits (Some [("x", 0); ("y", 3)]) SzNone, Default (VBits [128] 1));
        ("c", TEnum [("e0", 5); ("e1", 1)] (Some [("e2", 9)]), Optional)]
       (Some [(true, [("g", TBool, Mandatory); ("h", TOctets (SzRange 0 (Some 3) true), Optional)])]).
Definition ex_val : value :=
  VSeq [("a", VChoice "r" (VSeq [("v", VInt 7); ("next", VSeq [("v", VInt 200)])]));
        ("b", VBits [144; 0] 9); ("c", VEnum "e2"); ("g", VBool true); ("h", VBytes [1; 2; 3; 4; 5])].

(** Non-vacuity: a nested extensible value (CHOICE addition holding a
    recursive type, named-bit string with trailing zeros, ENUMERATED addition,
    an addition group with an out-of-root OCTET STRING) is encodable, and its
    normal form differs from it only in the stripped named-bit string. *)
Example C01_hypotheses_inhabited :
  exists data, uper_encode false 12 ex_env ex_ty ex_val = Ok data /\ (10 < length data)%nat /\
    norm false ex_env 12 ex_ty ex_val =
    VSeq [("a", VChoice "r" (VSeq [("v", VInt 7); ("next", VSeq [("v", VInt 200)])]));
          ("b", VBits [144] 4); ("c", VEnum "e2"); ("g", VBool true); ("h", VBytes [1; 2; 3; 4; 5])].
Proof. eexists. split; [vm_compute; reflexivity|]. split; [vm_compute; lia | vm_compute; reflexivity]. Qed.
Print Assumptions C01_hypotheses_inhabited.
