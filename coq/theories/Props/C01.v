(** C01 — binary codecs round-trip every value of every compilable type.
    Statements only.  UPER is proved here for the whole modelled universe; the
    theorems of the other codecs are added as their models are delivered
    (the cross-codec property test runs on /repo for all of them). *)
From Asn1V Require Import Base.Prelude Base.Bits Syntax.Asn1 Per.UperImpl Per.UperPrim Per.UperPB Per.UperRT.

(** UPER, bit level: for every type environment, every type (BOOLEAN, INTEGER
    in all constraint forms incl. extensible, ENUMERATED with additions, NULL,
    BIT STRING with named bits, OCTET STRING, known-multiplier strings with
    permitted alphabets, UTF8String, OBJECT IDENTIFIER, SEQUENCE/SET with
    OPTIONAL/DEFAULT, extension additions and addition groups, SEQUENCE OF with
    16K fragmentation, CHOICE with additions, references and recursion), every
    value the encoder accepts, and every continuation of the input: decoding
    the encoding yields [norm v] — the same abstract value, DEFAULTs filled
    in, named-bit strings modulo trailing zero bits — and leaves the
    continuation untouched. *)
Theorem C01_uper_roundtrip_bits :
  forall numeric e fuel t v bs,
    enc numeric e fuel t v = Ok bs ->
    forall rest, dec numeric e fuel t (bs ++ rest) = Ok (norm numeric e fuel t v, rest).
Proof. exact enc_dec_rt. Qed.
Print Assumptions C01_uper_roundtrip_bits.

(** UPER, octet level (what Specification.encode / decode exchange), with any
    trailing octets: the value comes back and the decoder stops inside the
    last octet of the encoding. *)
Theorem C01_uper_roundtrip :
  forall numeric fuel e t v data,
    uper_encode numeric fuel e t v = Ok data ->
    forall tail, exists n,
      uper_decode numeric fuel e t (data ++ tail) = Ok (norm numeric e fuel t v, n) /\
      (n <= 8 * length data)%nat /\ (8 * length data < n + 8)%nat.
Proof. exact uper_roundtrip. Qed.
Print Assumptions C01_uper_roundtrip.

From Asn1V Require Props.C06 Props.C03 Oer.OerReencode Ber.BerRoundtrip.

(** OER: decode (encode v ++ tail) = (oer_norm v, length of the encoding) on the region oer_ok (Oer/OerScope.v).
    (statement = the type of [Asn1V.Props.C06.C06_oer_roundtrip]; written out in that file) *)
Theorem C01_oer_roundtrip : ltac:(let T := type of Asn1V.Props.C06.C06_oer_roundtrip in exact T).
Proof. exact Asn1V.Props.C06.C06_oer_roundtrip. Qed.
Print Assumptions C01_oer_roundtrip.

(** OER: re-encoding the decoded value reproduces the identical octets (under the canonical-value side condition oer_canon).
    (statement = the type of [Asn1V.Oer.OerReencode.oer_reencode]; written out in that file) *)
Theorem C01_oer_reencode : ltac:(let T := type of Asn1V.Oer.OerReencode.oer_reencode in exact T).
Proof. exact Asn1V.Oer.OerReencode.oer_reencode. Qed.
Print Assumptions C01_oer_reencode.

(** DER: the DER decoder reads every in-scope encoding back to the normal form, with any tail.
    (statement = the type of [Asn1V.Props.C03.C03_der_roundtrip]; written out in that file) *)
Theorem C01_der_roundtrip : ltac:(let T := type of Asn1V.Props.C03.C03_der_roundtrip in exact T).
Proof. exact Asn1V.Props.C03.C03_der_roundtrip. Qed.
Print Assumptions C01_der_roundtrip.

(** DER output read by the BER decoder.
    (statement = the type of [Asn1V.Props.C03.C03_der_ber_roundtrip]; written out in that file) *)
Theorem C01_der_ber_roundtrip : ltac:(let T := type of Asn1V.Props.C03.C03_der_ber_roundtrip in exact T).
Proof. exact Asn1V.Props.C03.C03_der_ber_roundtrip. Qed.
Print Assumptions C01_der_ber_roundtrip.

(** BER: round trip for types without SET / SET OF / named bits (where the BER and DER encoders coincide); superseded by C01_ber_roundtrip below.
    (statement = the type of [Asn1V.Ber.BerRoundtrip.ber_roundtrip_partial]; written out in that file) *)
Theorem C01_ber_roundtrip_partial : ltac:(let T := type of Asn1V.Ber.BerRoundtrip.ber_roundtrip_partial in exact T).
Proof. exact Asn1V.Ber.BerRoundtrip.ber_roundtrip_partial. Qed.
Print Assumptions C01_ber_roundtrip_partial.

From Asn1V Require Ber.BerRoundtripFull.

(** BER, all types in scope (SET in the encoder's own order, unsorted SET OF, named-bit strings with their trailing
    zero bits): for a value of the type ([der_tree .. = Some _]), decode (ber_encode v ++ tail) = (nv, |encoding|)
    with nv abstractly equal to v ([veq_loose]; [C01_ber_roundtrip] names nv = [bnorm v]: declaration order, DEFAULTs
    filled in).  Route: the encoder's output is the serialisation of a well-formed BER tree that the specification
    reader reads as [bnorm v] ([C01_ber_output_is_ber]), then C04_ber_accepts.
    (statements = the types of the theorems of Ber/BerRoundtripFull.v; written out in notes/BER-roundtrip.md) *)
Theorem C01_ber_roundtrip_abstract : ltac:(let T := type of Asn1V.Ber.BerRoundtripFull.ber_roundtrip_abstract in exact T).
Proof. exact Asn1V.Ber.BerRoundtripFull.ber_roundtrip_abstract. Qed.
Print Assumptions C01_ber_roundtrip_abstract.

Theorem C01_ber_roundtrip : ltac:(let T := type of Asn1V.Ber.BerRoundtripFull.ber_roundtrip in exact T).
Proof. exact Asn1V.Ber.BerRoundtripFull.ber_roundtrip. Qed.
Print Assumptions C01_ber_roundtrip.

(** recursive types: tag tables inspected [d] constructed levels deep, encoding nested at most [S d] deep *)
Theorem C01_ber_roundtrip_depth : ltac:(let T := type of Asn1V.Ber.BerRoundtripFull.ber_roundtrip_D in exact T).
Proof. exact Asn1V.Ber.BerRoundtripFull.ber_roundtrip_D. Qed.
Print Assumptions C01_ber_roundtrip_depth.

Theorem C01_ber_encode_total : ltac:(let T := type of Asn1V.Ber.BerRoundtripFull.ber_encode_total in exact T).
Proof. exact Asn1V.Ber.BerRoundtripFull.ber_encode_total. Qed.
Print Assumptions C01_ber_encode_total.

Theorem C01_ber_output_is_ber : ltac:(let T := type of Asn1V.Ber.BerRoundtripFull.ber_output_is_ber in exact T).
Proof. exact Asn1V.Ber.BerRoundtripFull.ber_output_is_ber. Qed.
Print Assumptions C01_ber_output_is_ber.

Example C01_ber_hypotheses_inhabited : ltac:(let T := type of Asn1V.Ber.BerRoundtripFull.ex_all_hypotheses in exact T).
Proof. exact Asn1V.Ber.BerRoundtripFull.ex_all_hypotheses. Qed.
Print Assumptions C01_ber_hypotheses_inhabited.


Local Open Scope string_scope.
Definition ex_env : env :=
  [("R", TSeq false [("v", TInt (IcRange (Some 0) (Some 255) false), Mandatory);
                     ("next", TRef "R", Optional)] None)].
Definition ex_ty : ty :=
  TSeq false
       [("a", TChoice [("i", TInt IcNone, Mandatory); ("s", TStr SkIA5 (SzRange 1 (Some 4) false) None, Mandatory)]
                      (Some [("r", TRef "R", Mandatory)]), Mandatory);
        ("b", TBits (Some [("x", 0); ("y", 3)]) SzNone, Default (VBits [128] 1));
        ("c", TEnum [("e0", 5); ("e1", 1)] (Some [("e2", 9)]), Optional)]
       (Some [(true, [("g", TBool, Mandatory); ("h", TOctets (SzRange 0 (Some 3) true), Optional)])]).
Definition ex_val : value :=
  VSeq [("a", VChoice "r" (VSeq [("v", VInt 7); ("next", VSeq [("v", VInt 200)])]));
        ("b", VBits [144; 0] 9); ("c", VEnum "e2"); ("g", VBool true); ("h", VBytes [1; 2; 3; 4; 5])].

(** Non-vacuity: a nested extensible value (CHOICE addition holding a
    recursive type, named-bit string with trailing zeros, ENUMERATED addition,
    an addition group with an out-of-root OCTET STRING) is encodable, and its
    normal form differs from it only in the stripped named-bit string. *)
Example C01_hypotheses_inhabited :
  exists data, uper_encode false 12 ex_env ex_ty ex_val = Ok data /\ (10 < length data)%nat /\
    norm false ex_env 12 ex_ty ex_val =
    VSeq [("a", VChoice "r" (VSeq [("v", VInt 7); ("next", VSeq [("v", VInt 200)])]));
          ("b", VBits [144] 4); ("c", VEnum "e2"); ("g", VBool true); ("h", VBytes [1; 2; 3; 4; 5])].
Proof. eexists. split; [vm_compute; reflexivity|]. split; [vm_compute; lia | vm_compute; reflexivity]. Qed.
Print Assumptions C01_hypotheses_inhabited.

(** ------------------------------------------------------------------
    UPER, third clause of the property: re-encoding the decoded value gives
    the identical octets.  [reenc_ok] (Per/UperReenc.v) is a boolean,
    type-directed side condition on the value: member names of a SEQUENCE/SET
    are unique, a present DEFAULT component stays (un)equal to its default
    under normalisation (automatic for well-formed leaf values), a named-bit
    string under an extensible SIZE above 64K stays in the root, and an
    addition group that is encoded as absent has no mandatory member (the
    open finding per-addition-group-zero-width).  Each clause is shown
    necessary by a [.._refuted] example in Per/UperReencEx.v. *)
From Asn1V Require Import Per.UperReenc Per.UperReencEx.

Theorem C01_uper_reencode :
  forall numeric fuel e t v data,
    reenc_ok numeric e fuel t v = true ->
    uper_encode numeric fuel e t v = Ok data ->
    uper_encode numeric fuel e t (norm numeric e fuel t v) = Ok data.
Proof. exact uper_reencode. Qed.
Print Assumptions C01_uper_reencode.

Theorem C01_uper_decode_reencode :
  forall numeric fuel e t v data,
    reenc_ok numeric e fuel t v = true ->
    uper_encode numeric fuel e t v = Ok data ->
    exists v' n, uper_decode numeric fuel e t data = Ok (v', n) /\
                 uper_encode numeric fuel e t v' = Ok data.
Proof. exact uper_decode_reencode. Qed.
Print Assumptions C01_uper_decode_reencode.

(** Non-vacuity of [reenc_ok], and the refutation that records the C01 face of
    the open finding per-addition-group-zero-width (a well-formed value whose
    re-encoding silently drops a component). *)
Example C01_reenc_ok_inhabited : ltac:(let T := type of reenc_ok_example in exact T).
Proof. exact reenc_ok_example. Qed.
Print Assumptions C01_reenc_ok_inhabited.
Example C01_uper_reencode_empty_group_refuted : ltac:(let T := type of uper_reencode_empty_group_refuted in exact T).
Proof. exact uper_reencode_empty_group_refuted. Qed.
Print Assumptions C01_uper_reencode_empty_group_refuted.

(** ------------------------------------------------------------------
    Aligned PER (per.py), model Per/PerImpl.v.  The encoder is a state
    transformer on (bit position, bits); decoding is positional (alignment
    to the octet grid), so the bit-level statement carries the invariant
    "position + remaining length = 0 mod 8". *)
From Asn1V Require Import Per.PerImpl Per.PerPrim Per.PerPB Per.PerRT Per.PerExamples.

Theorem C01_per_roundtrip_bits :
  forall numeric e fuel t v st st',
    penc_ty numeric e fuel t v st = Ok st' ->
    exists b, st' = pst_app st b /\ pst_bits st' = (pst_bits st ++ b)%list /\
      forall rest, ((fst st + length b + length rest) mod 8 = 0)%nat ->
        pdec_ty numeric e fuel t (b ++ rest)%list = Ok (pnorm numeric e fuel t v, rest).
Proof. exact per_roundtrip_bits. Qed.
Print Assumptions C01_per_roundtrip_bits.

Theorem C01_per_roundtrip :
  forall numeric fuel e t v data,
    per_encode numeric fuel e t v = Ok data ->
    forall tail, exists n,
      per_decode numeric fuel e t (data ++ tail)%list = Ok (pnorm numeric e fuel t v, n) /\
      (n <= 8 * length data)%nat /\ (8 * length data < n + 8)%nat.
Proof. exact per_roundtrip. Qed.
Print Assumptions C01_per_roundtrip.

Example C01_per_hypotheses_inhabited : ltac:(let T := type of per_hypotheses_inhabited in exact T).
Proof. exact per_hypotheses_inhabited. Qed.
Print Assumptions C01_per_hypotheses_inhabited.

(** ------------------------------------------------------------------
    Aligned PER, third clause: re-encoding the decoded value gives the identical octets, from every encoder
    state.  [preenc_ok] is [reenc_ok] clause for clause with the aligned group encoder (Per/PerReenc.v); the
    empty-group refutation is the aligned face of the open finding per-addition-group-zero-width. *)
From Asn1V Require Import Per.PerReenc Per.PerReencEx.

Theorem C01_per_reencode_state :
  forall numeric e fuel t v st st',
    preenc_ok numeric e fuel t v = true ->
    penc_ty numeric e fuel t v st = Ok st' ->
    penc_ty numeric e fuel t (pnorm numeric e fuel t v) st = Ok st'.
Proof. exact per_reencode_state. Qed.
Print Assumptions C01_per_reencode_state.

Theorem C01_per_reencode :
  forall numeric fuel e t v data,
    preenc_ok numeric e fuel t v = true ->
    per_encode numeric fuel e t v = Ok data ->
    per_encode numeric fuel e t (pnorm numeric e fuel t v) = Ok data.
Proof. exact per_reencode. Qed.
Print Assumptions C01_per_reencode.

Theorem C01_per_decode_reencode :
  forall numeric fuel e t v data,
    preenc_ok numeric e fuel t v = true ->
    per_encode numeric fuel e t v = Ok data ->
    exists v' n, per_decode numeric fuel e t data = Ok (v', n) /\ per_encode numeric fuel e t v' = Ok data.
Proof. exact per_decode_reencode. Qed.
Print Assumptions C01_per_decode_reencode.

Example C01_preenc_ok_inhabited : ltac:(let T := type of preenc_ok_example in exact T).
Proof. exact preenc_ok_example. Qed.
Print Assumptions C01_preenc_ok_inhabited.
Example C01_per_reencode_empty_group_refuted : ltac:(let T := type of per_reencode_empty_group_refuted in exact T).
Proof. exact per_reencode_empty_group_refuted. Qed.
Print Assumptions C01_per_reencode_empty_group_refuted.

(** ------------------------------------------------------------------
    DER and BER, third clause (Ber/DerReencode.v), no side condition: the value the decoder returns re-encodes to
    the identical octets ([C01_der_roundtrip_reencode] states all three clauses of the property for DER at once);
    BER is not canonical, but the decoded value re-encodes to the octets the value encoded to.
    (statements = the types of the theorems of Ber/DerReencode.v; written out in notes/BER-reencode-ext.md) *)
From Asn1V Require Ber.DerReencode.

Theorem C01_der_reencode : ltac:(let T := type of Asn1V.Ber.DerReencode.der_reencode in exact T).
Proof. exact Asn1V.Ber.DerReencode.der_reencode. Qed.
Print Assumptions C01_der_reencode.

Theorem C01_der_roundtrip_reencode : ltac:(let T := type of Asn1V.Ber.DerReencode.der_roundtrip_reencode in exact T).
Proof. exact Asn1V.Ber.DerReencode.der_roundtrip_reencode. Qed.
Print Assumptions C01_der_roundtrip_reencode.

Theorem C01_der_decode_reencode : ltac:(let T := type of Asn1V.Ber.DerReencode.der_decode_reencode in exact T).
Proof. exact Asn1V.Ber.DerReencode.der_decode_reencode. Qed.
Print Assumptions C01_der_decode_reencode.

Theorem C01_der_ber_decode_reencode : ltac:(let T := type of Asn1V.Ber.DerReencode.der_ber_decode_reencode in exact T).
Proof. exact Asn1V.Ber.DerReencode.der_ber_decode_reencode. Qed.
Print Assumptions C01_der_ber_decode_reencode.

Theorem C01_ber_reencode : ltac:(let T := type of Asn1V.Ber.DerReencode.ber_reencode in exact T).
Proof. exact Asn1V.Ber.DerReencode.ber_reencode. Qed.
Print Assumptions C01_ber_reencode.

Theorem C01_ber_roundtrip_reencode : ltac:(let T := type of Asn1V.Ber.DerReencode.ber_roundtrip_reencode in exact T).
Proof. exact Asn1V.Ber.DerReencode.ber_roundtrip_reencode. Qed.
Print Assumptions C01_ber_roundtrip_reencode.

Example C01_der_reencode_hypotheses_inhabited : ltac:(let T := type of Asn1V.Ber.DerReencode.ex_reencode_hypotheses in exact T).
Proof. exact Asn1V.Ber.DerReencode.ex_reencode_hypotheses. Qed.
Print Assumptions C01_der_reencode_hypotheses_inhabited.

(** ------------------------------------------------------------------
    REAL (Ber/Real.v: ber.encode_real / decode_real on exact dyadic reals, no
    hardware floats; the contents octets are shared by ber, der, per, uper and
    the non-IEEE branch of oer): EVERY double except -0.0 is encodable and
    decodes back to itself; -0.0 comes back as +0.0 (open finding
    real-minus-zero); for every octet string the decoder's outcome is a value,
    the library's decode error, or one of three named foreign exceptions with
    their exact input regions ([real_decode_regions]). *)
From Asn1V Require Ber.Real Ber.RealProofs.

Theorem C01_real_roundtrip : ltac:(let T := type of Asn1V.Ber.RealProofs.real_roundtrip in exact T).
Proof. exact Asn1V.Ber.RealProofs.real_roundtrip. Qed.
Print Assumptions C01_real_roundtrip.

Theorem C01_real_encode_total : ltac:(let T := type of Asn1V.Ber.RealProofs.real_encode_total in exact T).
Proof. exact Asn1V.Ber.RealProofs.real_encode_total. Qed.
Print Assumptions C01_real_encode_total.

Theorem C01_real_minus_zero_refuted : ltac:(let T := type of Asn1V.Ber.RealProofs.real_minus_zero_refuted in exact T).
Proof. exact Asn1V.Ber.RealProofs.real_minus_zero_refuted. Qed.
Print Assumptions C01_real_minus_zero_refuted.

Theorem C01_real_decode_total_class : ltac:(let T := type of Asn1V.Ber.RealProofs.real_decode_total_class in exact T).
Proof. exact Asn1V.Ber.RealProofs.real_decode_total_class. Qed.
Print Assumptions C01_real_decode_total_class.
