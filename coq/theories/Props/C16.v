(** C16 — a truncated encoding is reported as a decode error, never as a
    value.  Statements only; proofs in Per/UperPB.v (UPER).  The other codecs'
    theorems are added here as their models are delivered. *)
From Asn1V Require Import Base.Prelude Base.Bits Syntax.Asn1 Per.UperImpl Per.UperPrim Per.UperPB Per.UperRT.

(** UPER, all modelled types (every nesting of BOOLEAN, INTEGER in all its
    constraint forms, ENUMERATED, NULL, BIT/OCTET/character strings incl.
    16K fragmentation, OBJECT IDENTIFIER, SEQUENCE/SET with OPTIONAL/DEFAULT,
    extension additions and groups, SEQUENCE OF, CHOICE with additions,
    references and recursion), all environments, all fuels: whenever the
    decoder accepts an octet string [data] and reads into its last octet (which
    is the case for every encoder output: only 0..7 padding bits follow the
    value), every strict octet-prefix of [data] is rejected, and rejected with
    the library's decode error — not a value, not a foreign exception. *)
Theorem C16_uper_truncation :
  forall numeric fuel e t data v n,
    uper_decode numeric fuel e t data = Ok (v, n) ->
    (8 * (length data - 1) < n)%nat ->
    forall k, (k < length data)%nat ->
      exists x, uper_decode numeric fuel e t (firstn k data) = Err x /\ is_decode_error x = true.
Proof. exact uper_decode_truncation. Qed.
Print Assumptions C16_uper_truncation.

(** For encoder outputs the hypotheses are discharged by the round-trip
    theorem: every strict octet prefix of every UPER encoding is a decode
    error. *)
Theorem C16_uper_truncated_encoding :
  forall numeric fuel e t v data,
    uper_encode numeric fuel e t v = Ok data ->
    forall k, (k < length data)%nat ->
      exists x, uper_decode numeric fuel e t (firstn k data) = Err x /\ is_decode_error x = true.
Proof. exact uper_truncation. Qed.
Print Assumptions C16_uper_truncated_encoding.

From Asn1V Require Props.C06 Props.C03 Props.C04.

(** OER: every strict prefix of an encoder output is rejected with a decode error.
    (statement = the type of [Asn1V.Props.C06.C06_oer_truncation]; written out in that file) *)
Theorem C16_oer_truncation : ltac:(let T := type of Asn1V.Props.C06.C06_oer_truncation in exact T).
Proof. exact Asn1V.Props.C06.C06_oer_truncation. Qed.
Print Assumptions C16_oer_truncation.

(** DER: every strict prefix of an encoder output is rejected with a decode error.
    (statement = the type of [Asn1V.Props.C03.C03_der_truncation]; written out in that file) *)
Theorem C16_der_truncation : ltac:(let T := type of Asn1V.Props.C03.C03_der_truncation in exact T).
Proof. exact Asn1V.Props.C03.C03_der_truncation. Qed.
Print Assumptions C16_der_truncation.

(** BER: every strict prefix of an encoder output is rejected with a decode error.
    (statement = the type of [Asn1V.Props.C04.C04_ber_truncation]; written out in that file) *)
Theorem C16_ber_truncation : ltac:(let T := type of Asn1V.Props.C04.C04_ber_truncation in exact T).
Proof. exact Asn1V.Props.C04.C04_ber_truncation. Qed.
Print Assumptions C16_ber_truncation.

(** The bit-level statement it rests on: prefix behaviour of the
    type-directed decoder. *)
Theorem C16_uper_prefix_behaviour : forall numeric e fuel t, PB (dec numeric e fuel t).
Proof. exact PB_dec. Qed.
Print Assumptions C16_uper_prefix_behaviour.

(** Non-vacuity: an extensible SEQUENCE with an OPTIONAL member, a DEFAULT
    member, a SEQUENCE OF and a present extension addition; the encoder output
    meets the hypotheses and both strict prefixes are decode errors. *)
Local Open Scope string_scope.
Definition ex_ty : ty :=
  TSeq false
       [("a", TInt (IcRange (Some 0) (Some 1000) false), Mandatory);
        ("b", TBool, Optional);
        ("c", TInt IcNone, Default (VInt 7));
        ("d", TSeqOf false (TInt (IcRange (Some 0) (Some 3) true)) (SzRange 0 (Some 5) false), Mandatory)]
       (Some [(false, [("x", TOctets SzNone, Optional)])]).
Definition ex_val : value :=
  VSeq [("a", VInt 777); ("b", VBool true); ("d", VList [VInt 1; VInt 9]); ("x", VBytes [1; 2])].

Example C16_hypotheses_inhabited :
  exists data v n,
    uper_encode false 10 [] ex_ty ex_val = Ok data /\
    uper_decode false 10 [] ex_ty data = Ok (v, n) /\ (8 * (length data - 1) < n)%nat /\ (3 < length data)%nat.
Proof.
  eexists. eexists. eexists. split; [vm_compute; reflexivity|]. split; [vm_compute; reflexivity|].
  split; vm_compute; lia.
Qed.
Print Assumptions C16_hypotheses_inhabited.

(** Aligned PER: every strict octet prefix of an encoding, and of any input the
    decoder accepts while consuming its last octet, is a decode error; the
    prefix behaviour [PBA] is [PB] relative to the octet grid. *)
From Asn1V Require Import Per.PerImpl Per.PerPrim Per.PerPB Per.PerRT.

Theorem C16_per_truncation :
  forall numeric fuel e t v data,
    per_encode numeric fuel e t v = Ok data ->
    forall k, (k < length data)%nat ->
      exists x, per_decode numeric fuel e t (firstn k data) = Err x /\ is_decode_error x = true.
Proof. exact per_truncation. Qed.
Print Assumptions C16_per_truncation.

Theorem C16_per_decode_truncation :
  forall numeric fuel e t data v n,
    per_decode numeric fuel e t data = Ok (v, n) -> (8 * (length data - 1) < n)%nat ->
    forall k, (k < length data)%nat ->
      exists x, per_decode numeric fuel e t (firstn k data) = Err x /\ is_decode_error x = true.
Proof. exact per_decode_truncation. Qed.
Print Assumptions C16_per_decode_truncation.

Theorem C16_per_prefix_behaviour : forall numeric e fuel t, PBA (pdec_ty numeric e fuel t).
Proof. exact PB_pdec. Qed.
Print Assumptions C16_per_prefix_behaviour.
