(** C09/C10 — a small imperative IR for the C dialect that asn1tools.source.c
    generates, with an executable big-step semantics.

    translator/cparse.py parses the generated C (per-type encode/decode
    functions AND the helper block) and emits terms of this IR; all C typing
    (integer promotions, usual arithmetic conversions, conversion on
    assignment / argument passing) is resolved by the translator into explicit
    [ECast] nodes and a result type on every arithmetic node, so the semantics
    below never guesses a type.

    Memory model (sufficient for the dialect, documented in notes/C09.md):
    values are trees ([VInt], arrays with explicit capacity, records); a
    pointer parameter holds the designated object itself and is passed by
    copy-in / copy-out (the dialect never aliases two parameters); the only
    pointer assignment of the dialect, [self_p->buf_p = buf_p] in *_init, is a
    copy, after which the cursor owns the buffer (the runners below read the
    result out of the cursor).  Distinct outcomes: [FOob] (index outside the
    capacity of an array), [FUb] (signed overflow, bad shift, division by
    zero), [FUninit] (read of a never written scalar), [FStuck] (ill-formed
    IR), [FFuel]. *)
From Asn1V Require Import Base.Prelude.
Open Scope string_scope.
Open Scope list_scope.
Open Scope Z_scope.
Notation "a +++ b" := (String.append a b) (at level 60, right associativity).

(* ------------------------------------------------------------------ *)
(** * Integer types (LP64) *)

Inductive ity : Type := I8 | U8 | I16 | U16 | I32 | U32 | I64 | U64 | IBool.

Definition ity_bits (t : ity) : Z :=
  match t with I8 | U8 => 8 | I16 | U16 => 16 | I32 | U32 => 32 | I64 | U64 => 64 | IBool => 1 end.
Definition ity_signed (t : ity) : bool :=
  match t with I8 | I16 | I32 | I64 => true | _ => false end.
Definition ity_min (t : ity) : Z := if ity_signed t then - 2 ^ (ity_bits t - 1) else 0.
Definition ity_max (t : ity) : Z :=
  if ity_signed t then 2 ^ (ity_bits t - 1) - 1 else 2 ^ (ity_bits t) - 1.
Definition in_range (t : ity) (z : Z) : bool := (ity_min t <=? z) && (z <=? ity_max t).

(** C conversion to [t] (modulo for unsigned, the gcc/clang wrap for signed,
    "!= 0" for _Bool). *)
Definition conv (t : ity) (z : Z) : Z :=
  match t with
  | IBool => if z =? 0 then 0 else 1
  | _ => if ity_signed t
         then (z + 2 ^ (ity_bits t - 1)) mod 2 ^ (ity_bits t) - 2 ^ (ity_bits t - 1)
         else z mod 2 ^ (ity_bits t)
  end.

(* ------------------------------------------------------------------ *)
(** * Syntax *)

Inductive binop : Type :=
| OAdd | OSub | OMul | ODiv | ORem | OShl | OShr | OAnd | OOr | OXor
| OLt | OLe | OGt | OGe | OEq | ONe.

Inductive expr : Type :=
| EConst (z : Z)
| ERead (p : path)
| ECast (t : ity) (e : expr)
| EBin (op : binop) (t : ity) (a b : expr)     (* computed in type t; comparisons: operands of type t, result int *)
| ENeg (t : ity) (e : expr)
| ELNot (e : expr)
| ELAnd (a b : expr)                          (* short circuit *)
| ELOr (a b : expr)
| ECond (c a b : expr)
| ECall (f : string) (args : list arg)
| EMemcmpNe (a b : path) (n : expr)           (* memcmp(a, b, n) != 0 *)
with path : Type :=
| PVar (x : string)
| PField (p : path) (f : string)
| PIndex (p : path) (i : expr)
with arg : Type :=
| AVal (t : ity) (e : expr)                   (* converted to the parameter type t *)
| ARef (p : path)                             (* pointer to the object at p (arrays decay: &a[0] is a) *)
| ARefScalar (p : path).                      (* &x with x scalar, used as a one-element array *)

Inductive stmt : Type :=
| SAssign (p : path) (t : ity) (e : expr)     (* p = (t) e *)
| SCopy (p q : path)                          (* aggregate / pointer copy p = q *)
| SExpr (e : expr)
| SIf (c : expr) (a b : list stmt)
| SFor (init : list stmt) (c : expr) (step : list stmt) (body : list stmt)
| SSwitch (e : expr) (arms : list (list Z * list stmt)) (dflt : list stmt)
| SReturn (e : option expr)
| SBreak
| SMemcpy (dst : path) (doff : expr) (src : path) (soff : expr) (n : expr).

Inductive val : Type :=
| VInt (z : Z)
| VUndef
| VArr (l : list val)
| VRec (l : list (string * val)).

Inductive pmode : Type := PByVal (t : ity) | PByRef | PByRefScalar.

Record func : Type := mkFunc {
  f_params : list (string * pmode);
  f_locals : list (string * val);            (* declared locals with their initial value *)
  f_body : list stmt;
  f_ret : option ity
}.

Definition program : Type := list (string * func).

(* ------------------------------------------------------------------ *)
(** * Outcomes *)

Inductive fail : Type := FOob | FUb | FUninit | FStuck (msg : string) | FFuel.

Inductive res (A : Type) : Type := ROk (a : A) | RFail (f : fail).
Arguments ROk {A} a.
Arguments RFail {A} f.

Definition rbind {A B} (r : res A) (k : A -> res B) : res B :=
  match r with ROk a => k a | RFail f => RFail f end.
Notation "'let^' x ':=' r 'in' k" := (rbind r (fun x => k))
  (at level 200, x pattern, r at level 100, k at level 200).

Definition env : Type := list (string * val).

Fixpoint lookup {A} (x : string) (l : list (string * A)) : option A :=
  match l with
  | [] => None
  | (y, v) :: r => if String.eqb x y then Some v else lookup x r
  end.

Fixpoint update {A} (x : string) (v : A) (l : list (string * A)) : option (list (string * A)) :=
  match l with
  | [] => None
  | (y, w) :: r =>
    if String.eqb x y then Some ((y, v) :: r)
    else match update x v r with Some r' => Some ((y, w) :: r') | None => None end
  end.

(** resolved paths *)
Inductive sel : Type := SelF (f : string) | SelI (i : Z).

Fixpoint list_set {A} (l : list A) (n : nat) (v : A) : list A :=
  match l, n with
  | [], _ => []
  | _ :: r, O => v :: r
  | x :: r, S n' => x :: list_set r n' v
  end.

Fixpoint vget (v : val) (ss : list sel) : res val :=
  match ss with
  | [] => ROk v
  | SelF f :: r =>
    match v with
    | VRec l => match lookup f l with Some w => vget w r | None => RFail (FStuck ("no field " +++ f)) end
    | _ => RFail (FStuck ("field " +++ f +++ " of a non-record"))
    end
  | SelI i :: r =>
    match v with
    | VArr l =>
      if (0 <=? i) && (i <? Z.of_nat (length l))
      then match nth_error l (Z.to_nat i) with Some w => vget w r | None => RFail FOob end
      else RFail FOob
    | _ => RFail (FStuck "index of a non-array")
    end
  end.

Fixpoint vset (v : val) (ss : list sel) (x : val) : res val :=
  match ss with
  | [] => ROk x
  | SelF f :: r =>
    match v with
    | VRec l =>
      match lookup f l with
      | Some w =>
        let^ w' := vset w r x in
        match update f w' l with Some l' => ROk (VRec l') | None => RFail (FStuck "update") end
      | None => RFail (FStuck ("no field " +++ f))
      end
    | _ => RFail (FStuck ("field " +++ f +++ " of a non-record"))
    end
  | SelI i :: r =>
    match v with
    | VArr l =>
      if (0 <=? i) && (i <? Z.of_nat (length l))
      then match nth_error l (Z.to_nat i) with
           | Some w => let^ w' := vset w r x in ROk (VArr (list_set l (Z.to_nat i) w'))
           | None => RFail FOob
           end
      else RFail FOob
    | _ => RFail (FStuck "index of a non-array")
    end
  end.

Definition env_get (e : env) (x : string) (ss : list sel) : res val :=
  match lookup x e with
  | Some v => vget v ss
  | None => RFail (FStuck ("unbound " +++ x))
  end.

Definition env_set (e : env) (x : string) (ss : list sel) (w : val) : res env :=
  match lookup x e with
  | Some v =>
    let^ v' := vset v ss w in
    match update x v' e with Some e' => ROk e' | None => RFail (FStuck "update") end
  | None => RFail (FStuck ("unbound " +++ x))
  end.

Definition as_int (v : val) : res Z :=
  match v with
  | VInt z => ROk z
  | VUndef => RFail FUninit
  | _ => RFail (FStuck "aggregate used as a scalar")
  end.

(* ------------------------------------------------------------------ *)
(** * Arithmetic *)

Definition arith (t : ity) (r : Z) : res Z :=
  if ity_signed t then (if in_range t r then ROk r else RFail FUb) else ROk (conv t r).

Definition truth (b : bool) : Z := if b then 1 else 0.

Definition eval_bin (op : binop) (t : ity) (a b : Z) : res Z :=
  match op with
  | OAdd => arith t (a + b)
  | OSub => arith t (a - b)
  | OMul => arith t (a * b)
  | ODiv => if b =? 0 then RFail FUb else arith t (Z.quot a b)
  | ORem => if b =? 0 then RFail FUb
            else if ity_signed t && negb (in_range t (Z.quot a b)) then RFail FUb
            else ROk (Z.rem a b)
  | OShl => if (b <? 0) || (ity_bits t <=? b) then RFail FUb
            else if ity_signed t
                 then (if a <? 0 then RFail FUb
                       else if in_range t (Z.shiftl a b) then ROk (Z.shiftl a b) else RFail FUb)
                 else ROk (conv t (Z.shiftl a b))
  | OShr => if (b <? 0) || (ity_bits t <=? b) then RFail FUb else ROk (Z.shiftr a b)
  | OAnd => ROk (Z.land a b)
  | OOr => ROk (Z.lor a b)
  | OXor => ROk (Z.lxor a b)
  | OLt => ROk (truth (a <? b))
  | OLe => ROk (truth (a <=? b))
  | OGt => ROk (truth (b <? a))
  | OGe => ROk (truth (b <=? a))
  | OEq => ROk (truth (a =? b))
  | ONe => ROk (truth (negb (a =? b)))
  end.

(* ------------------------------------------------------------------ *)
(** * Execution *)

Inductive flow : Type := FNormal | FBreak | FReturn (v : option Z).

Fixpoint val_eqb_ints (a b : list val) (n : nat) : res bool :=
  match n with
  | O => ROk true
  | S n' =>
    match a, b with
    | x :: a', y :: b' =>
      let^ xi := as_int x in
      let^ yi := as_int y in
      if xi =? yi then val_eqb_ints a' b' n' else ROk false
    | _, _ => RFail FOob
    end
  end.

Fixpoint copy_elems (dst : list val) (doff : nat) (src : list val) (soff : nat) (n : nat) : res (list val) :=
  match n with
  | O => ROk dst
  | S n' =>
    match nth_error src soff with
    | Some x =>
      if (doff <? length dst)%nat
      then copy_elems (list_set dst doff x) (S doff) src (S soff) n'
      else RFail FOob
    | None => RFail FOob
    end
  end.

Section Exec.
  Variable prog : program.

  (** Everything decreases on one fuel: call depth, nesting and loop iterations. *)
  Fixpoint eval (n : nat) (e : env) (x : expr) {struct n} : res (env * Z) :=
    match n with
    | O => RFail FFuel
    | S n' =>
      match x with
      | EConst z => ROk (e, z)
      | ERead p =>
        let^ (e1, xs) := resolve n' e p in
        let '(x0, ss) := xs in
        let^ v := env_get e1 x0 ss in
        let^ z := as_int v in ROk (e1, z)
      | ECast t a => let^ (e1, z) := eval n' e a in ROk (e1, conv t z)
      | EBin op t a b =>
        let^ (e1, za) := eval n' e a in
        let^ (e2, zb) := eval n' e1 b in
        let^ r := eval_bin op t za zb in ROk (e2, r)
      | ENeg t a => let^ (e1, z) := eval n' e a in let^ r := arith t (- z) in ROk (e1, r)
      | ELNot a => let^ (e1, z) := eval n' e a in ROk (e1, truth (z =? 0))
      | ELAnd a b =>
        let^ (e1, za) := eval n' e a in
        if za =? 0 then ROk (e1, 0)
        else let^ (e2, zb) := eval n' e1 b in ROk (e2, truth (negb (zb =? 0)))
      | ELOr a b =>
        let^ (e1, za) := eval n' e a in
        if negb (za =? 0) then ROk (e1, 1)
        else let^ (e2, zb) := eval n' e1 b in ROk (e2, truth (negb (zb =? 0)))
      | ECond c a b =>
        let^ (e1, zc) := eval n' e c in
        if negb (zc =? 0) then eval n' e1 a else eval n' e1 b
      | ECall f args =>
        let^ (e1, r) := call n' e f args in
        match r with Some z => ROk (e1, z) | None => ROk (e1, 0) end
      | EMemcmpNe a b len =>
        let^ (e1, zn) := eval n' e len in
        let^ (e2, xa) := resolve n' e1 a in
        let^ (e3, xb) := resolve n' e2 b in
        let^ va := env_get e3 (fst xa) (snd xa) in
        let^ vb := env_get e3 (fst xb) (snd xb) in
        match va, vb with
        | VArr la, VArr lb =>
          if zn <? 0 then RFail FOob
          else let^ same := val_eqb_ints la lb (Z.to_nat zn) in ROk (e3, truth (negb same))
        | _, _ => RFail (FStuck "memcmp of non-arrays")
        end
      end
    end

  with resolve (n : nat) (e : env) (p : path) {struct n} : res (env * (string * list sel)) :=
    match n with
    | O => RFail FFuel
    | S n' =>
      match p with
      | PVar x => ROk (e, (x, []))
      | PField q f =>
        let^ (e1, xs) := resolve n' e q in
        ROk (e1, (fst xs, snd xs ++ [SelF f]))
      | PIndex q i =>
        let^ (e1, xs) := resolve n' e q in
        let^ (e2, zi) := eval n' e1 i in
        ROk (e2, (fst xs, snd xs ++ [SelI zi]))
      end
    end

  (** a call: returns the caller's environment after copy-out and the result *)
  with call (n : nat) (e : env) (f : string) (args : list arg) {struct n} : res (env * option Z) :=
    match n with
    | O => RFail FFuel
    | S n' =>
      match lookup f prog with
      | None => RFail (FStuck ("unknown function " +++ f))
      | Some fn =>
        (* bind the arguments, left to right; remember where by-reference ones came from *)
        let fix bind (e0 : env) (ps : list (string * pmode)) (as_ : list arg)
                 (frame : env) (outs : list (string * (string * list sel) * bool))
                 {struct ps} : res (env * env * list (string * (string * list sel) * bool)) :=
          match ps, as_ with
          | [], [] => ROk (e0, frame, outs)
          | (x, PByVal t) :: ps', AVal t' a :: as' =>
            let^ (e1, z) := eval n' e0 a in
            bind e1 ps' as' (frame ++ [(x, VInt (conv t z))]) outs
          | (x, PByRef) :: ps', ARef p :: as' =>
            let^ (e1, xs) := resolve n' e0 p in
            let^ v := env_get e1 (fst xs) (snd xs) in
            bind e1 ps' as' (frame ++ [(x, v)]) (outs ++ [(x, xs, false)])
          | (x, PByRefScalar) :: ps', ARefScalar p :: as' =>
            let^ (e1, xs) := resolve n' e0 p in
            let^ v := env_get e1 (fst xs) (snd xs) in
            bind e1 ps' as' (frame ++ [(x, VArr [v])]) (outs ++ [(x, xs, true)])
          | (x, PByRef) :: ps', ARefScalar p :: as' =>
            let^ (e1, xs) := resolve n' e0 p in
            let^ v := env_get e1 (fst xs) (snd xs) in
            bind e1 ps' as' (frame ++ [(x, VArr [v])]) (outs ++ [(x, xs, true)])
          | _, _ => RFail (FStuck ("arguments of " +++ f))
          end in
        let^ (e1, frame, outs) := bind e (f_params fn) args [] [] in
        let^ (frame', fl) := exec_list n' (frame ++ f_locals fn) (f_body fn) in
        let fix copy_out (e0 : env) (os : list (string * (string * list sel) * bool)) {struct os} : res env :=
          match os with
          | [] => ROk e0
          | (x, xs, scalar) :: os' =>
            match lookup x frame' with
            | None => RFail (FStuck "copy-out")
            | Some v =>
              let^ w := (if scalar then vget v [SelI 0] else ROk v) in
              let^ e1 := env_set e0 (fst xs) (snd xs) w in
              copy_out e1 os'
            end
          end in
        let^ e2 := copy_out e1 outs in
        match fl, f_ret fn with
        | FReturn (Some z), Some t => ROk (e2, Some (conv t z))
        | FReturn None, None | FNormal, None => ROk (e2, None)
        | FNormal, Some _ => RFail FUb          (* falling off the end of a value function *)
        | _, _ => RFail (FStuck ("return of " +++ f))
        end
      end
    end

  with exec (n : nat) (e : env) (s : stmt) {struct n} : res (env * flow) :=
    match n with
    | O => RFail FFuel
    | S n' =>
      match s with
      | SAssign p t a =>
        let^ (e1, z) := eval n' e a in
        let^ (e2, xs) := resolve n' e1 p in
        let^ e3 := env_set e2 (fst xs) (snd xs) (VInt (conv t z)) in
        ROk (e3, FNormal)
      | SCopy p q =>
        let^ (e1, xq) := resolve n' e q in
        let^ v := env_get e1 (fst xq) (snd xq) in
        let^ (e2, xp) := resolve n' e1 p in
        let^ e3 := env_set e2 (fst xp) (snd xp) v in
        ROk (e3, FNormal)
      | SExpr a => let^ (e1, _) := eval n' e a in ROk (e1, FNormal)
      | SIf c a b =>
        let^ (e1, z) := eval n' e c in
        if negb (z =? 0) then exec_list n' e1 a else exec_list n' e1 b
      | SFor init c step body =>
        let^ (e1, fl) := exec_list n' e init in
        match fl with
        | FNormal =>
          (fix loop (k : nat) (e0 : env) {struct k} : res (env * flow) :=
             match k with
             | O => RFail FFuel
             | S k' =>
               let^ (e2, z) := eval n' e0 c in
               if z =? 0 then ROk (e2, FNormal)
               else
                 let^ (e3, fl1) := exec_list n' e2 body in
                 match fl1 with
                 | FNormal =>
                   let^ (e4, fl2) := exec_list n' e3 step in
                   match fl2 with FNormal => loop k' e4 | _ => RFail (FStuck "flow in for step") end
                 | FBreak => ROk (e3, FNormal)
                 | FReturn v => ROk (e3, FReturn v)
                 end
             end) n' e1
        | _ => RFail (FStuck "flow in for init")
        end
      | SSwitch a arms dflt =>
        let^ (e1, z) := eval n' e a in
        let body :=
            (fix find (l : list (list Z * list stmt)) : list stmt :=
               match l with
               | [] => dflt
               | (labels, b) :: r => if existsb (Z.eqb z) labels then b else find r
               end) arms in
        let^ (e2, fl) := exec_list n' e1 body in
        match fl with
        | FBreak => ROk (e2, FNormal)
        | FReturn v => ROk (e2, FReturn v)
        | FNormal => RFail (FStuck "switch arm falls through")
        end
      | SReturn None => ROk (e, FReturn None)
      | SReturn (Some a) => let^ (e1, z) := eval n' e a in ROk (e1, FReturn (Some z))
      | SBreak => ROk (e, FBreak)
      | SMemcpy dst doff src soff len =>
        let^ (e1, zn) := eval n' e len in
        let^ (e2, zd) := eval n' e1 doff in
        let^ (e3, zs) := eval n' e2 soff in
        let^ (e4, xd) := resolve n' e3 dst in
        let^ (e5, xsrc) := resolve n' e4 src in
        let^ vd := env_get e5 (fst xd) (snd xd) in
        let^ vs := env_get e5 (fst xsrc) (snd xsrc) in
        match vd, vs with
        | VArr ld, VArr ls =>
          if (zn <? 0) || (zd <? 0) || (zs <? 0) then RFail FOob
          else
            let^ ld' := copy_elems ld (Z.to_nat zd) ls (Z.to_nat zs) (Z.to_nat zn) in
            let^ e6 := env_set e5 (fst xd) (snd xd) (VArr ld') in
            ROk (e6, FNormal)
        | _, _ => RFail (FStuck "memcpy of non-arrays")
        end
      end
    end

  with exec_list (n : nat) (e : env) (l : list stmt) {struct n} : res (env * flow) :=
    match n with
    | O => RFail FFuel
    | S n' =>
      match l with
      | [] => ROk (e, FNormal)
      | s :: r =>
        let^ (e1, fl) := exec n' e s in
        match fl with
        | FNormal => exec_list n' e1 r
        | _ => ROk (e1, fl)
        end
      end
    end.

  (** Run a function on argument values given directly ([AVal]-style integers
      and whole objects); returns the result, the objects after the call (in
      parameter order) — and, because the public encode function keeps the
      output inside its local cursor, the final locals are not visible: the
      runners below therefore call the *_inner functions on a cursor. *)
  Definition run (fuel : nat) (f : string) (args : list val) : res (option Z * list val) :=
    match lookup f prog with
    | None => RFail (FStuck ("unknown function " +++ f))
    | Some fn =>
      let names := map fst (f_params fn) in
      if negb (length names =? length args)%nat then RFail (FStuck "arity") else
      let frame := combine (map (fun x => append "$" x) names) args in
      let actuals :=
          map (fun xp => match snd xp with
                         | PByVal t => AVal t (ERead (PVar (append "$" (fst xp))))
                         | PByRef => ARef (PVar (append "$" (fst xp)))
                         | PByRefScalar => ARefScalar (PVar (append "$" (fst xp)))
                         end) (f_params fn) in
      let^ (e1, r) := call fuel frame f actuals in
      ROk (r, map snd e1)
    end.
End Exec.

(* ------------------------------------------------------------------ *)
(** * Cursor values and the runners used by the correspondence checks *)

Definition bytes_val (b : list Z) : val := VArr (map VInt b).

Fixpoint val_bytes (l : list val) : option (list Z) :=
  match l with
  | [] => Some []
  | VInt z :: r => match val_bytes r with Some t => Some (z :: t) | None => None end
  | _ => None
  end.

Definition cursor_val (b : list Z) (size pos : Z) : val :=
  VRec [("buf_p", bytes_val b); ("size", VInt size); ("pos", VInt pos)].

Definition cursor_of (v : val) : option (list Z * Z * Z) :=
  match v with
  | VRec l =>
    match lookup "buf_p" l, lookup "size" l, lookup "pos" l with
    | Some (VArr bl), Some (VInt s), Some (VInt p) =>
      match val_bytes bl with Some b => Some (b, s, p) | None => None end
    | _, _, _ => None
    end
  | _ => None
  end.

(** Pattern matching of a produced struct against an expectation in which
    [VUndef] means "don't care" (absent OPTIONAL members, inactive CHOICE
    alternatives). *)
Fixpoint val_matches (fuel : nat) (want got : val) : bool :=
  match fuel with
  | O => false
  | S f =>
    match want, got with
    | VUndef, _ => true
    | VInt a, VInt b => a =? b
    | VArr la, VArr lb =>
      (length la =? length lb)%nat &&
      forallb (fun ab => val_matches f (fst ab) (snd ab)) (combine la lb)
    | VRec la, VRec lb =>
      forallb (fun fa => match lookup (fst fa) lb with
                         | Some b => val_matches f (snd fa) b
                         | None => false end) la
    | _, _ => false
    end
  end.

(* ------------------------------------------------------------------ *)
(** * Runners: the body of the generated public functions

      ssize_t T_encode(dst_p, size, src_p) { struct encoder_t encoder;
          encoder_init(&encoder, dst_p, size); T_encode_inner(&encoder, src_p);
          return encoder_get_result(&encoder); }

    (translator/cparse.py checks that every public function has exactly this
    shape) executed step by step so that the buffer, which lives inside the
    cursor, can be observed. *)

Definition cursor_undef : val := VRec [("buf_p", VUndef); ("size", VUndef); ("pos", VUndef)].

Definition run_encode (prog : program) (fuel : nat) (inner : string) (src : val) (dst : list Z) (size : Z)
  : res (Z * list Z) :=
  let^ (_, o1) := run prog fuel "encoder_init" [cursor_undef; bytes_val dst; VInt size] in
  match o1 with
  | c1 :: _ =>
    let^ (_, o2) := run prog fuel inner [c1; src] in
    match o2 with
    | c2 :: _ =>
      let^ (r, _) := run prog fuel "encoder_get_result" [c2] in
      match r, cursor_of c2 with
      | Some z, Some (b, _, _) => ROk (z, b)
      | _, _ => RFail (FStuck "encoder result")
      end
    | _ => RFail (FStuck "encoder objects")
    end
  | _ => RFail (FStuck "encoder objects")
  end.

Definition run_decode (prog : program) (fuel : nat) (inner : string) (dst : val) (src : list Z) (size : Z)
  : res (Z * val) :=
  let^ (_, o1) := run prog fuel "decoder_init" [cursor_undef; bytes_val src; VInt size] in
  match o1 with
  | c1 :: _ =>
    let^ (_, o2) := run prog fuel inner [c1; dst] in
    match o2 with
    | c2 :: d2 :: _ =>
      let^ (r, _) := run prog fuel "decoder_get_result" [c2] in
      match r with
      | Some z => ROk (z, d2)
      | _ => RFail (FStuck "decoder result")
      end
    | _ => RFail (FStuck "decoder objects")
    end
  | _ => RFail (FStuck "decoder objects")
  end.

(** Outcome codes for the generated case files: 0 agrees, 1 differs, 2 out of
    bounds, 3 undefined behaviour, 4 uninitialised read, 5 stuck, 6 fuel. *)
Definition fail_code (f : fail) : Z :=
  match f with FOob => 2 | FUb => 3 | FUninit => 4 | FStuck _ => 5 | FFuel => 6 end.

Fixpoint zlist_eqb (a b : list Z) : bool :=
  match a, b with
  | [], [] => true
  | x :: a', y :: b' => (x =? y) && zlist_eqb a' b'
  | _, _ => false
  end.

(** encode: result = length of [want] and the first bytes are [want] *)
Definition check_encode prog fuel inner src (want : list Z) : Z :=
  let n := Z.of_nat (length want) in
  match run_encode prog fuel inner src (repeat 170 (length want)) n with
  | ROk (r, b) => if (r =? n) && zlist_eqb (firstn (length want) b) want then 0 else 1
  | RFail f => fail_code f
  end.

(** encode into a destination that is too small: a negative result, nothing else *)
Definition check_encode_small prog fuel inner src (size : Z) : Z :=
  match run_encode prog fuel inner src (repeat 170 (Z.to_nat size)) size with
  | ROk (r, b) => if r <? 0 then 0 else 1
  | RFail f => fail_code f
  end.

Definition check_decode prog fuel inner (skeleton want : val) (src : list Z) : Z :=
  let n := Z.of_nat (length src) in
  match run_decode prog fuel inner skeleton src n with
  | ROk (r, d) => if (r =? n) && val_matches 64 want d then 0 else 1
  | RFail f => fail_code f
  end.

(** decode of arbitrary bytes: any result code, but no failure of the abstract machine *)
Definition check_decode_safe prog fuel inner (skeleton : val) (src : list Z) : Z :=
  match run_decode prog fuel inner skeleton src (Z.of_nat (length src)) with
  | ROk _ => 0
  | RFail f => fail_code f
  end.
