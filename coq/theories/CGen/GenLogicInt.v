(** C09 — the integer fast path of the UPER C generator
    (asn1tools/source/c/uper.py, format_integer_inner).

    For a constrained INTEGER (lo..hi) the generator either emits the generic
    pair

      encoder_append_non_negative_binary_integer(e, (uint64_t)v - (uint64_t)lo, nb)
      v = (T)(decoder_read_non_negative_binary_integer(d, nb) + (uint64_t)lo)

    with nb = integer_as_number_of_bits(hi - lo) — X.691 10.5.7: the offset
    from the lower bound in the minimum number of bits — or, on its "fast
    path", a call of encoder_append_<T>(e, v) where <T> is the C type chosen by
    utils.type_length: that helper appends the W bits of the type (W = 8, 16,
    32, 64) of v itself (unsigned T) or of v + 2^(W-1) (signed T).

    The fast path is equivalent to the generic one exactly when W = nb and the
    helper's offset (0 or -2^(W-1)) is the lower bound.  [fast_path] is the
    decision as /repo takes it after the repair; [fast_path_old] is the
    decision before it: "nb in {8,16,32,64} and lo in {0,-128,-32768,-2^31,-2^63}",
    width and minimum tested independently.  Tie: harness/c09_logic.py reads the
    helper calls out of the generated C for generated ranges and compares with
    [emit]. *)
From Asn1V Require Import Base.Prelude CGen.GenLogic.

Definition is_word_width (nb : Z) : bool := (nb =? 8) || (nb =? 16) || (nb =? 32) || (nb =? 64).

Definition fast_path_old (nb lo : Z) : bool :=
  is_word_width nb &&
  ((lo =? 0) || (lo =? -128) || (lo =? -32768) || (lo =? -2147483648) || (lo =? -9223372036854775808)).

Definition fast_path (nb lo : Z) : bool :=
  is_word_width nb && ((lo =? 0) || (lo =? - 2 ^ (nb - 1))).

(** What the generated encoder appends for the value v: (number of bits, field value). *)
Definition helper_offset (lo w : Z) : Z := if lo <? 0 then - 2 ^ (w - 1) else 0.

Definition emit (fp : Z -> Z -> bool) (lo hi v : Z) : option (Z * Z) :=
  let nb := nbits (hi - lo) in
  if fp nb lo then
    match type_length_fixed lo hi with
    | Some w => Some (w, v - helper_offset lo w)
    | None => None
    end
  else Some (nb, v - lo).

(** X.691 10.5: the offset from the lower bound in nbits (hi - lo) bits. *)
Definition x691_constrained (lo hi v : Z) : Z * Z := (nbits (hi - lo), v - lo).

(** observable of a generated encoder for the correspondence: 0 = generic pair,
    otherwise the width of the helper called, negative when it is a signed one *)
Definition emit_kind (fp : Z -> Z -> bool) (lo hi : Z) : Z :=
  let nb := nbits (hi - lo) in
  if fp nb lo then
    match type_length_fixed lo hi with
    | Some w => if lo <? 0 then - w else w
    | None => 0
    end
  else 0.

(** ------------------------------------------------------------------
    ENUMERATED (format_enumerated_inner): the generated code writes the C
    enumerator's number itself as the index (no switch) exactly when every
    root enumerator's number equals its X.691 index, i.e. its position in the
    list sorted by number.  [values] is that sorted list. *)
Fixpoint identity_from (i : Z) (values : list Z) : bool :=
  match values with
  | [] => true
  | v :: r => (v =? i) && identity_from (i + 1) r
  end.
Definition enum_mapping_required (values : list Z) : bool := negb (identity_from 0 values).

(** a tempting simplification: "the largest number is count - 1" *)
Definition enum_mapping_required_by_max (values : list Z) : bool :=
  negb (last values (-1) =? Z.of_nat (length values) - 1).
