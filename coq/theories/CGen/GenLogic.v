(** C09 — model of the decision logic of the C generator that is arithmetic
    rather than text: which C integer type a range gets
    (utils.Generator.type_length / format_type_name), and when a decoded
    length / index has to be range-checked (uper.does_bits_match_range and the
    power-of-two test in format_enumerated_inner).  Proofs: GenLogicProofs.v.
    Tie: harness/c09_logic.py calls the Python functions of /repo on generated
    inputs and compares with these definitions under vm_compute, and looks for
    the emitted check in the generated decoders. *)
From Asn1V Require Import Base.Prelude.

(** utils.Generator.type_length as it is in /repo (None = its Error). *)
Definition type_length (minimum maximum : Z) : option Z :=
  if minimum <? -9223372036854775808 then None
  else if maximum >? 18446744073709551615 then None
  else if (minimum <? 0) && (maximum >? 9223372036854775807) then None
  else
    let minimum_length :=
        if minimum <? -2147483648 then 64
        else if minimum <? -32768 then 32
        else if minimum <? -128 then 16
        else if minimum <? 0 then 8 else 0 in
    let maximum_length :=
        if maximum >? 4294967295 then 64
        else if maximum >? 65535 then 32
        else if maximum >? 255 then 16
        else if maximum >? 0 then 8 else 0 in
    Some (if (minimum_length =? 0) && (maximum_length =? 0) then 8
          else Z.max minimum_length maximum_length).

(** The same with proposed_fixes/C09-int-signed-half.diff applied. *)
Definition type_length_fixed (minimum maximum : Z) : option Z :=
  if minimum <? -9223372036854775808 then None
  else if maximum >? 18446744073709551615 then None
  else if (minimum <? 0) && (maximum >? 9223372036854775807) then None
  else
    let minimum_length :=
        if minimum <? -2147483648 then 64
        else if minimum <? -32768 then 32
        else if minimum <? -128 then 16
        else if minimum <? 0 then 8 else 0 in
    let '(l0, l1, l2) := if minimum <? 0 then (2147483647, 32767, 127) else (4294967295, 65535, 255) in
    let maximum_length :=
        if maximum >? l0 then 64
        else if maximum >? l1 then 32
        else if maximum >? l2 then 16
        else if maximum >? 0 then 8 else 0 in
    Some (if (minimum_length =? 0) && (maximum_length =? 0) then 8
          else Z.max minimum_length maximum_length).

(** format_type_name: intN_t, with the "u" prefix when minimum >= 0. *)
Definition fits (signed : bool) (width v : Z) : Prop :=
  if signed then - 2 ^ (width - 1) <= v < 2 ^ (width - 1) else 0 <= v < 2 ^ width.

(** codecs/per.py integer_as_number_of_bits = int.bit_length *)
Definition nbits (size : Z) : Z := if size <=? 0 then 0 else Z.log2 size + 1.

(** uper.does_bits_match_range *)
Definition bits_match_range (number_of_bits minimum maximum : Z) : bool :=
  2 ^ number_of_bits =? maximum - minimum + 1.

(** bin(n).count('1') == 1 *)
Definition is_pow2 (n : Z) : bool := (0 <? n) && (2 ^ Z.log2 n =? n).
