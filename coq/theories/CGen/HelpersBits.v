(** C09 — bit and byte level lemmas used by HelpersProofs.v: memory cells
    ([rd]/[wr]/[upd]), the bit view of a buffer ([getbit], [bitsf]), values of
    bit strings. *)
From Asn1V Require Import Base.Prelude Base.Sweep CGen.Helpers CGen.HelpersSpec.

(* ------------------------------------------------------------------ *)
(** * Lists as memory *)

Lemma len_nonneg {A} (l : list A) : 0 <= len l.
Proof. unfold len; lia. Qed.

Definition nthz (l : list Z) (i : Z) : Z := nth (Z.to_nat i) l 0.

Lemma rd_ok b i : 0 <= i < len b -> rd b i = COk (nthz b i).
Proof.
  intros H. unfold rd, nthz, len in *.
  destruct ((0 <=? i) && (i <? Z.of_nat (length b))) eqn:E; [|lia].
  destruct (nth_error b (Z.to_nat i)) eqn:E2.
  - erewrite nth_error_nth; eauto.
  - apply nth_error_None in E2. lia.
Qed.

Lemma wr_ok b i v : 0 <= i < len b -> wr b i v = COk (upd b (Z.to_nat i) v).
Proof.
  intros H. unfold wr, len in *.
  destruct ((0 <=? i) && (i <? Z.of_nat (length b))) eqn:E; [reflexivity|lia].
Qed.

Lemma upd_length {A} (l : list A) n v : length (upd l n v) = length l.
Proof. revert n; induction l; intros [|n]; cbn; auto. Qed.

Lemma upd_len {A} (l : list A) n v : len (upd l n v) = len l.
Proof. unfold len. now rewrite upd_length. Qed.

Lemma nth_upd {A} (l : list A) n v m d : (n < length l)%nat ->
  nth m (upd l n v) d = if Nat.eqb m n then v else nth m l d.
Proof.
  revert n m; induction l; intros n m H; cbn in H; [lia|].
  destruct n, m; cbn; auto. apply IHl; lia.
Qed.

Lemma upd_upd {A} (l : list A) n v w : upd (upd l n v) n w = upd l n w.
Proof. revert n; induction l; intros [|n]; cbn; auto. now rewrite IHl. Qed.

Lemma nthz_upd l i v j : 0 <= i < len l -> 0 <= j ->
  nthz (upd l (Z.to_nat i) v) j = if j =? i then v else nthz l j.
Proof.
  intros Hi Hj. unfold nthz, len in *. rewrite nth_upd by lia.
  destruct (Nat.eqb (Z.to_nat j) (Z.to_nat i)) eqn:E; destruct (j =? i) eqn:E2; try reflexivity; lia.
Qed.

Lemma is_byte_u8 z : is_byte (u8 z).
Proof. unfold is_byte, u8. apply Z.mod_pos_bound. lia. Qed.

Lemma upd_bytes_ok l n v : bytes_ok l -> is_byte v -> bytes_ok (upd l n v).
Proof.
  unfold bytes_ok. intros H Hv. revert n. induction H; intros [|n]; cbn; constructor; auto.
Qed.

Lemma nthz_is_byte l j : bytes_ok l -> is_byte (nthz l j).
Proof.
  intros H. unfold nthz. destruct (nth_in_or_default (Z.to_nat j) l 0) as [Hin| ->].
  - unfold bytes_ok in H. rewrite Forall_forall in H. auto.
  - unfold is_byte; lia.
Qed.

Lemma nthz_ext l1 l2 : length l1 = length l2 ->
  (forall i, 0 <= i < len l1 -> nthz l1 i = nthz l2 i) -> l1 = l2.
Proof.
  intros HL H. apply nth_ext with (d := 0) (d' := 0); auto.
  intros n Hn. specialize (H (Z.of_nat n)). unfold nthz, len in H.
  rewrite Nat2Z.id in H. apply H. lia.
Qed.

Lemma nthz_app_l l1 l2 i : 0 <= i < len l1 -> nthz (l1 ++ l2) i = nthz l1 i.
Proof. intros H. unfold nthz, len in *. apply app_nth1. lia. Qed.

Lemma nthz_app_r l1 l2 i : len l1 <= i -> nthz (l1 ++ l2) i = nthz l2 (i - len l1).
Proof.
  intros H. unfold nthz, len in *. rewrite app_nth2 by lia. f_equal. lia.
Qed.

Lemma nthz_cons_0 x l : nthz (x :: l) 0 = x.
Proof. reflexivity. Qed.

Lemma nthz_cons_pos x l i : 0 < i -> nthz (x :: l) i = nthz l (i - 1).
Proof.
  intros H. unfold nthz. replace (Z.to_nat i) with (S (Z.to_nat (i - 1))) by lia. reflexivity.
Qed.

Lemma nthz_firstn l n i : 0 <= i < Z.of_nat n -> nthz (firstn n l) i = nthz l i.
Proof.
  intros H. unfold nthz.
  rewrite <- (firstn_skipn n l) at 2.
  destruct (Nat.lt_ge_cases (Z.to_nat i) (length (firstn n l))) as [L|L].
  - now rewrite app_nth1.
  - rewrite firstn_length in L.
    assert (length l <= Z.to_nat i)%nat by lia.
    rewrite !nth_overflow; auto.
    + rewrite app_length, firstn_length, skipn_length. lia.
    + rewrite firstn_length. lia.
Qed.

Lemma nthz_skipn l n i : 0 <= i -> nthz (skipn n l) i = nthz l (i + Z.of_nat n).
Proof.
  intros H. unfold nthz. revert l. induction n; intros l.
  - cbn. f_equal. lia.
  - destruct l; cbn [skipn].
    + now destruct (Z.to_nat i), (Z.to_nat (i + Z.of_nat (S n))).
    + rewrite IHn. replace (Z.to_nat (i + Z.of_nat (S n))) with (S (Z.to_nat (i + Z.of_nat n))) by lia.
      reflexivity.
Qed.

Lemma nthz_repeat0 n i : nthz (repeat 0 n) i = 0.
Proof.
  unfold nthz. generalize (Z.to_nat i). induction n; intros [|m]; cbn; auto.
Qed.

(* ------------------------------------------------------------------ *)
(** * Fixed-width conversions *)

Lemma s64_u64_small n : 0 <= n < 9223372036854775808 -> s64 (u64 n) = n.
Proof. intros H. unfold s64, u64. lia. Qed.

Lemma u64_small n : 0 <= n < 18446744073709551616 -> u64 n = n.
Proof. intros H. unfold u64. apply Z.mod_small. lia. Qed.

Lemma u8_small n : 0 <= n < 256 -> u8 n = n.
Proof. intros H. unfold u8. apply Z.mod_small. lia. Qed.

Lemma u8_pow z : u8 z = z mod 2 ^ 8.
Proof. reflexivity. Qed.
Lemma u16_pow z : u16 z = z mod 2 ^ 16.
Proof. reflexivity. Qed.
Lemma u32_pow z : u32 z = z mod 2 ^ 32.
Proof. reflexivity. Qed.
Lemma u64_pow z : u64 z = z mod 2 ^ 64.
Proof. reflexivity. Qed.

(* ------------------------------------------------------------------ *)
(** * Bit strings as functions on a range *)

Fixpoint bitsf (f : Z -> bool) (p : Z) (k : nat) : list bool :=
  match k with O => [] | S k' => f p :: bitsf f (p + 1) k' end.

Lemma bitsf_length f p k : length (bitsf f p k) = k.
Proof. revert p; induction k; intros p; cbn; auto. Qed.

Lemma bitsf_ext f g p k :
  (forall i, p <= i < p + Z.of_nat k -> f i = g i) -> bitsf f p k = bitsf g p k.
Proof.
  revert p; induction k; intros p H; cbn; auto.
  f_equal; [apply H; lia | apply IHk; intros i Hi; apply H; lia].
Qed.

Lemma bitsf_app f p a b : bitsf f p (a + b) = bitsf f p a ++ bitsf f (p + Z.of_nat a) b.
Proof.
  revert p; induction a; intros p.
  - cbn. f_equal. lia.
  - cbn [bitsf Nat.add app]. f_equal. rewrite IHa. do 2 f_equal. lia.
Qed.

Lemma bitsf_shift f p d k : bitsf f (p + d) k = bitsf (fun i => f (i + d)) p k.
Proof.
  revert p; induction k; intros p; cbn; auto.
  f_equal. rewrite <- IHk. f_equal. lia.
Qed.

Lemma firstn_bitsf f p a k : firstn a (bitsf f p k) = bitsf f p (Nat.min a k).
Proof.
  revert p a; induction k; intros p [|a]; cbn; auto. now rewrite IHk.
Qed.

Lemma skipn_bitsf f p a k : skipn a (bitsf f p k) = bitsf f (p + Z.of_nat a) (k - a).
Proof.
  revert p k; induction a; intros p k.
  - cbn [skipn]. rewrite Nat.sub_0_r. f_equal. lia.
  - destruct k; cbn [skipn bitsf Nat.sub]; auto.
    rewrite IHa. f_equal. lia.
Qed.

Lemma nth_bitsf f p k j : (j < k)%nat -> nth j (bitsf f p k) false = f (p + Z.of_nat j).
Proof.
  revert p j; induction k; intros p [|j] H; cbn [bitsf nth]; try lia.
  - f_equal. lia.
  - rewrite IHk by lia. f_equal. lia.
Qed.

(** [getbit] and list surgery *)

Lemma getbit_nthz b i : getbit b i = Z.testbit (nthz b (i / 8)) (7 - i mod 8).
Proof. reflexivity. Qed.

Lemma getbit_cons_lo x r i : 0 <= i < 8 -> getbit (x :: r) i = Z.testbit x (7 - i).
Proof.
  intros H. unfold getbit. rewrite Z.div_small, Z.mod_small by lia. reflexivity.
Qed.

Lemma getbit_cons_hi x r i : 0 <= i -> getbit (x :: r) (i + 8) = getbit r i.
Proof.
  intros H. unfold getbit.
  replace ((i + 8) / 8) with (i / 8 + 1) by lia.
  replace ((i + 8) mod 8) with (i mod 8) by lia.
  replace (Z.to_nat (i / 8 + 1)) with (S (Z.to_nat (i / 8))) by lia. reflexivity.
Qed.

Lemma byte_bits_bitsf x : byte_bits x = bitsf (fun i => Z.testbit x (7 - i)) 0 8.
Proof. reflexivity. Qed.

Lemma bytes_bits_cons x r : bytes_bits (x :: r) = byte_bits x ++ bytes_bits r.
Proof. reflexivity. Qed.

Lemma bytes_bits_app a b : bytes_bits (a ++ b) = bytes_bits a ++ bytes_bits b.
Proof. unfold bytes_bits. apply flat_map_app. Qed.

Lemma bytes_bits_length b : length (bytes_bits b) = (8 * length b)%nat.
Proof. induction b; cbn [bytes_bits flat_map length]; auto. rewrite app_length. fold (bytes_bits b). rewrite IHb. cbn. lia. Qed.

Lemma bytes_bits_bitsf b : bytes_bits b = bitsf (getbit b) 0 (8 * length b).
Proof.
  induction b as [|x r IH]; [reflexivity|].
  rewrite bytes_bits_cons.
  replace (8 * length (x :: r))%nat with (8 + 8 * length r)%nat by (cbn [length]; lia).
  rewrite bitsf_app. apply f_equal2.
  - rewrite byte_bits_bitsf. apply bitsf_ext. intros i Hi. now rewrite getbit_cons_lo by lia.
  - rewrite IH. change (0 + Z.of_nat 8) with (0 + 8). rewrite bitsf_shift.
    apply bitsf_ext. intros i Hi. now rewrite getbit_cons_hi by lia.
Qed.

Lemma be_bits_bitsf n v : be_bits n v = bitsf (fun i => Z.testbit v (Z.of_nat n - 1 - i)) 0 n.
Proof.
  induction n; [reflexivity|].
  cbn [be_bits bitsf]. f_equal; [f_equal; lia|].
  rewrite IHn. change (0 + 1) with (0 + 1). rewrite bitsf_shift.
  apply bitsf_ext. intros i Hi. f_equal. lia.
Qed.

Lemma be_bits_length n v : length (be_bits n v) = n.
Proof. induction n; cbn; auto. Qed.

(* ------------------------------------------------------------------ *)
(** * be_bits algebra *)

Lemma be_bits_mod n m v : (n <= m)%nat -> be_bits n (v mod 2 ^ Z.of_nat m) = be_bits n v.
Proof.
  intros H. induction n; [reflexivity|]. cbn [be_bits]. f_equal.
  - apply Z.mod_pow2_bits_low. lia.
  - apply IHn. lia.
Qed.

Lemma be_bits_app a b v : be_bits (a + b) v = be_bits a (Z.shiftr v (Z.of_nat b)) ++ be_bits b v.
Proof.
  induction a; [reflexivity|]. cbn [Nat.add be_bits app]. f_equal; [|exact IHa].
  rewrite Z.shiftr_spec by lia. f_equal. lia.
Qed.

(** big-endian bytes of a value *)
Fixpoint be_bytes (k : nat) (v : Z) : list Z :=
  match k with O => [] | S k' => u8 (Z.shiftr v (8 * Z.of_nat k')) :: be_bytes k' v end.

Lemma be_bytes_length k v : length (be_bytes k v) = k.
Proof. induction k; cbn; auto. Qed.

Lemma be_bytes_ok k v : bytes_ok (be_bytes k v).
Proof. induction k; cbn [be_bytes]; constructor; auto. apply is_byte_u8. Qed.

Lemma bytes_bits_be_bytes k v : bytes_bits (be_bytes k v) = be_bits (8 * k) v.
Proof.
  induction k; [reflexivity|].
  cbn [be_bytes]. rewrite bytes_bits_cons, IHk.
  replace (8 * S k)%nat with (8 + 8 * k)%nat by lia.
  rewrite be_bits_app. f_equal.
  unfold byte_bits. rewrite u8_pow. change 8 with (Z.of_nat 8) at 2.
  rewrite be_bits_mod by lia. f_equal. f_equal. lia.
Qed.

(* ------------------------------------------------------------------ *)
(** * Values of bit strings *)

Lemma bits_value_acc_app acc l1 l2 :
  bits_value_acc acc (l1 ++ l2) = bits_value_acc (bits_value_acc acc l1) l2.
Proof. revert acc; induction l1; intros acc; cbn; auto. Qed.

Lemma bits_value_acc_be_bits n acc v :
  bits_value_acc acc (be_bits n v) = acc * 2 ^ Z.of_nat n + v mod 2 ^ Z.of_nat n.
Proof.
  revert acc; induction n; intros acc.
  - cbn [be_bits bits_value_acc]. change (2 ^ Z.of_nat 0) with 1. rewrite Z.mod_1_r. lia.
  - cbn [be_bits bits_value_acc]. rewrite IHn.
    rewrite Nat2Z.inj_succ, Z.pow_succ_r by lia.
    rewrite (Z.mul_comm 2 (2 ^ Z.of_nat n)).
    rewrite Z.rem_mul_r by lia.
    rewrite <- Z.testbit_spec' by lia.
    destruct (Z.testbit v (Z.of_nat n)); cbn [Z.b2z]; lia.
Qed.

Lemma bits_value_be_bits n v : 0 <= v < 2 ^ Z.of_nat n -> bits_value (be_bits n v) = v.
Proof.
  intros H. unfold bits_value. rewrite bits_value_acc_be_bits, Z.mod_small by lia. lia.
Qed.

Lemma bits_value_acc_bytes acc l : bytes_ok l ->
  bits_value_acc acc (bytes_bits l) = be_value_acc acc l.
Proof.
  intros H. revert acc. induction H as [|x r Hx Hr IH]; intros acc; [reflexivity|].
  rewrite bytes_bits_cons, bits_value_acc_app. unfold byte_bits.
  rewrite bits_value_acc_be_bits. cbn [be_value_acc]. rewrite IH.
  change (2 ^ Z.of_nat 8) with 256. rewrite Z.mod_small by exact Hx. reflexivity.
Qed.

Lemma bits_value_acc_bound l acc : 0 <= acc ->
  acc * 2 ^ len l <= bits_value_acc acc l < (acc + 1) * 2 ^ len l.
Proof.
  revert acc; induction l as [|b r IH]; intros acc H.
  - cbn [bits_value_acc]. change (2 ^ len []) with 1. lia.
  - cbn [bits_value_acc].
    assert (E : len (b :: r) = Z.succ (len r)) by (unfold len; cbn [length]; lia).
    rewrite E, Z.pow_succ_r by apply len_nonneg.
    specialize (IH (2 * acc + (if b then 1 else 0))).
    assert (0 < 2 ^ len r) by (apply Z.pow_pos_nonneg; [lia|apply len_nonneg]).
    destruct b; nia.
Qed.

Lemma bits_value_bound l : 0 <= bits_value l < 2 ^ len l.
Proof. unfold bits_value. pose proof (bits_value_acc_bound l 0). lia. Qed.

Lemma unpack_bytes_bits l rest : bytes_ok l ->
  unpack_bytes (length l) (bytes_bits l ++ rest) = l.
Proof.
  intros H. induction H as [|x r Hx Hr IH]; [reflexivity|].
  cbn [length unpack_bytes]. rewrite bytes_bits_cons, <- app_assoc.
  assert (L : length (byte_bits x) = 8%nat) by reflexivity.
  rewrite firstn_app_le by lia. rewrite firstn_all2 by lia.
  f_equal.
  - unfold byte_bits. apply bits_value_be_bits. exact Hx.
  - rewrite skipn_app. rewrite skipn_all2 by lia. rewrite L. cbn [Nat.sub app skipn]. exact IH.
Qed.

(* ------------------------------------------------------------------ *)
(** * Single-byte bit facts *)

Lemma byte_testbit_high x n : is_byte x -> 8 <= n -> Z.testbit x n = false.
Proof.
  intros Hx Hn. rewrite <- (Z.mod_small x (2 ^ 8)) by exact Hx.
  apply Z.mod_pow2_bits_high. lia.
Qed.

Lemma testbit_1 m : Z.testbit 1 m = (m =? 0).
Proof. destruct m as [|p|p]; reflexivity. Qed.

Lemma testbit_bit v m : 0 <= v <= 1 -> Z.testbit v m = (v =? 1) && (m =? 0).
Proof.
  intros H. assert (E : v = 0 \/ v = 1) by lia. destruct E as [-> | ->].
  - now rewrite Z.testbit_0_l.
  - now rewrite testbit_1.
Qed.

Lemma u8_testbit z m : 0 <= m < 8 -> Z.testbit (u8 z) m = Z.testbit z m.
Proof. intros H. rewrite u8_pow. apply Z.mod_pow2_bits_low. lia. Qed.

(** the byte encoder_append_bit stores *)
Lemma abit_byte_bits old v pib j : 0 <= v <= 1 -> 0 <= pib < 8 -> 0 <= j < 8 ->
  Z.testbit (u8 (Z.lor old (u8 (Z.shiftl v (7 - pib))))) (7 - j) =
  Z.testbit old (7 - j) || ((v =? 1) && (j =? pib)).
Proof.
  intros Hv Hp Hj. rewrite u8_testbit by lia. rewrite Z.lor_spec. f_equal.
  rewrite u8_testbit by lia. rewrite Z.shiftl_spec by lia.
  rewrite testbit_bit by lia. f_equal. lia.
Qed.

(** the two bytes one iteration of the unaligned encoder_append_bytes stores *)
Lemma abytes_byte1_bits old x pib j : is_byte x -> 0 < pib < 8 -> 0 <= j < 8 ->
  Z.testbit (u8 (Z.lor old (Z.shiftr x pib))) (7 - j) =
  Z.testbit old (7 - j) || ((pib <=? j) && Z.testbit x (7 - (j - pib))).
Proof.
  intros Hx Hp Hj. rewrite u8_testbit by lia. rewrite Z.lor_spec. f_equal.
  rewrite Z.shiftr_spec by lia.
  destruct (pib <=? j) eqn:E.
  - cbn [andb]. f_equal. lia.
  - cbn [andb]. apply byte_testbit_high; auto. lia.
Qed.

Lemma abytes_byte2_bits x pib j : 0 < pib < 8 -> 0 <= j < 8 ->
  Z.testbit (u8 (Z.shiftl x (8 - pib))) (7 - j) = (j <? pib) && Z.testbit x (pib - 1 - j).
Proof.
  intros Hp Hj. rewrite u8_testbit by lia. rewrite Z.shiftl_spec by lia.
  replace (7 - j - (8 - pib)) with (pib - 1 - j) by lia.
  destruct (j <? pib) eqn:E; [reflexivity|].
  cbn [andb]. apply Z.testbit_neg_r. lia.
Qed.

(** the byte one iteration of the unaligned decoder_read_bytes stores *)
Lemma rbytes_byte_bits a c pib j : is_byte a -> is_byte c -> 0 < pib < 8 -> 0 <= j < 8 ->
  Z.testbit (u8 (Z.lor (u8 (Z.shiftl a pib)) (Z.shiftr c (8 - pib)))) (7 - j) =
  if j + pib <? 8 then Z.testbit a (7 - (j + pib)) else Z.testbit c (7 - (j + pib - 8)).
Proof.
  intros Ha Hc Hp Hj. rewrite u8_testbit by lia. rewrite Z.lor_spec.
  rewrite u8_testbit by lia. rewrite Z.shiftl_spec, Z.shiftr_spec by lia.
  destruct (j + pib <? 8) eqn:E.
  - rewrite (byte_testbit_high c) by (auto; lia). rewrite orb_false_r. f_equal. lia.
  - rewrite (Z.testbit_neg_r a) by lia. cbn [orb]. f_equal. lia.
Qed.

Lemma getbit_at b q B : nthz b (q / 8) = B -> getbit b q = Z.testbit B (7 - q mod 8).
Proof. intros <-. reflexivity. Qed.

Lemma getbit_same_byte b b' q : nthz b' (q / 8) = nthz b (q / 8) -> getbit b' q = getbit b q.
Proof. intros H. rewrite !getbit_nthz, H. reflexivity. Qed.

Lemma getbit_firstn l n q : 0 <= q < 8 * Z.of_nat n -> getbit (firstn n l) q = getbit l q.
Proof. intros H. apply getbit_same_byte. apply nthz_firstn. lia. Qed.

Lemma getbit_byte_value x j : 0 <= j < 8 -> getbit [x] j = Z.testbit x (7 - j).
Proof. intros H. now apply getbit_cons_lo. Qed.

Lemma land_shiftr_1 b k : 0 <= k -> Z.land (Z.shiftr b k) 1 = if Z.testbit b k then 1 else 0.
Proof.
  intros H. change 1 with (Z.ones 1) at 1. rewrite Z.land_ones by lia.
  rewrite Z.shiftr_div_pow2 by lia. change (2 ^ 1) with 2.
  rewrite <- Z.testbit_spec' by lia. now destruct (Z.testbit b k).
Qed.

Lemma lor_double_bit a b : 0 <= a -> Z.lor (2 * a) (if b : bool then 1 else 0) = 2 * a + (if b then 1 else 0).
Proof.
  intros H. destruct b.
  - destruct a as [|p|p]; try reflexivity; lia.
  - rewrite Z.lor_0_r. lia.
Qed.

Lemma lor_mul_pow2_add a k lo : 0 <= k -> 0 <= lo < 2 ^ k -> Z.lor (a * 2 ^ k) lo = a * 2 ^ k + lo.
Proof.
  intros Hk Hlo.
  assert (E : Z.land (a * 2 ^ k) lo = 0).
  { apply Z.bits_inj'. intros n Hn. rewrite Z.land_spec, Z.bits_0.
    destruct (Z.ltb_spec n k).
    - rewrite Z.mul_pow2_bits_low by lia. reflexivity.
    - rewrite <- (Z.mod_small lo (2 ^ k)) by lia.
      rewrite Z.mod_pow2_bits_high by lia. apply andb_false_r. }
  rewrite <- Z.lxor_lor by exact E. symmetry. apply Z.add_nocarry_lxor. exact E.
Qed.

(* ------------------------------------------------------------------ *)
(** * Bytes of a bit string *)

Lemma byte_bits_value8 bs : length bs = 8%nat -> byte_bits (bits_value bs) = bs.
Proof.
  intros H.
  destruct bs as [|b0 [|b1 [|b2 [|b3 [|b4 [|b5 [|b6 [|b7 [|? ?]]]]]]]]]; try discriminate.
  destruct b0, b1, b2, b3, b4, b5, b6, b7; reflexivity.
Qed.

Lemma bits_value_is_byte bs : length bs = 8%nat -> is_byte (bits_value bs).
Proof.
  intros H. pose proof (bits_value_bound bs) as B. unfold len in B. rewrite H in B. exact B.
Qed.

Lemma unpack_bytes_props k : forall bits, length bits = (8 * k)%nat ->
  length (unpack_bytes k bits) = k /\ bytes_ok (unpack_bytes k bits) /\
  bytes_bits (unpack_bytes k bits) = bits.
Proof.
  induction k as [|k IH]; intros bits H.
  - destruct bits; [|discriminate]. repeat split. constructor.
  - cbn [unpack_bytes].
    assert (L8 : length (firstn 8 bits) = 8%nat) by (rewrite firstn_length; lia).
    destruct (IH (skipn 8 bits)) as (I1 & I2 & I3); [rewrite skipn_length; lia|].
    split; [cbn [length]; now rewrite I1|]. split.
    + constructor; auto. now apply bits_value_is_byte.
    + rewrite bytes_bits_cons, I3, byte_bits_value8 by exact L8. apply firstn_skipn.
Qed.

Lemma unpack_bytes_length k bits : length (unpack_bytes k bits) = k.
Proof. revert bits; induction k; intros bits; cbn [unpack_bytes length]; auto. Qed.

Lemma lor_add k hi lo : 0 <= k -> 0 <= lo < 2 ^ k -> hi mod 2 ^ k = 0 -> Z.lor hi lo = hi + lo.
Proof.
  intros Hk Hlo Hhi.
  assert (0 < 2 ^ k) by (apply Z.pow_pos_nonneg; lia).
  assert (E : hi = hi / 2 ^ k * 2 ^ k).
  { rewrite Z.mul_comm. apply Z.div_exact; lia. }
  rewrite E at 1 2. apply lor_mul_pow2_add; auto.
Qed.
