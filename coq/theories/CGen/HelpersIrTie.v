(** C09 — semantic tie: the helper functions parsed from the C text in /repo
    ([Asn1Gen.UperHelpersIr.helpers_ir], regenerated on every run), executed by
    the interpreter of CGen/Ir.v on SYMBOLIC arguments, compute the functions
    of the model CGen/Helpers.v. *)
From Asn1V Require Import Base.Prelude CGen.Helpers CGen.HelpersSpec CGen.HelpersBits CGen.Ir.
From Asn1Gen Require Import UperHelpersIr.
Open Scope Z_scope.

Definition tie_fuel : nat := 40.

(* ------------------------------------------------------------------ *)
(** * Symbolic execution tactics *)

Lemma truth_test b : negb (truth b =? 0)%Z = b. Proof. destruct b; reflexivity. Qed.
Lemma truth_test0 b : (truth b =? 0)%Z = negb b. Proof. destruct b; reflexivity. Qed.
Lemma s64_id z : in_s64 z = true -> s64 z = z.
Proof. unfold in_s64, s64. intros H. lia. Qed.

Ltac is_pconst p := lazymatch p with xH => idtac | xO ?q => is_pconst q | xI ?q => is_pconst q end.
Ltac is_zconst z := lazymatch z with Z0 => idtac | Zpos ?p => is_pconst p | Zneg ?p => is_pconst p end.

(** run the interpreter as far as the symbolic values allow *)
Ltac symex := cbn -[Z.add Z.sub Z.mul Z.leb Z.ltb Z.geb Z.opp Z.eqb conv in_range Z.modulo Z.pow
                    truth u64 s64 u8 in_s64 in_s32 Z.quot Z.rem Z.div Z.shiftl Z.shiftr Z.land Z.lor].

(** fold closed integer subterms, name the conversions as the model does *)
Ltac fold1 t := let v := eval vm_compute in t in change t with v.
Ltac norm :=
  repeat match goal with
  | |- context [Z.opp ?z] => is_zconst z; fold1 (Z.opp z)
  | |- context [Z.eqb ?a ?b] => is_zconst a; is_zconst b; fold1 (Z.eqb a b)
  | |- context [in_range ?t ?z] => is_zconst z; fold1 (in_range t z)
  | |- context [conv ?t ?z] => is_zconst z; fold1 (conv t z)
  | |- context [conv I64 ?z] => change (conv I64 z) with (s64 z)
  | |- context [conv U64 ?z] => change (conv U64 z) with (u64 z)
  | |- context [conv U8 ?z] => change (conv U8 z) with (u8 z)
  | |- context [in_range I64 ?z] => change (in_range I64 z) with (in_s64 z)
  | |- context [in_range I32 ?z] => change (in_range I32 z) with (in_s32 z)
  end; rewrite ?truth_test, ?truth_test0.
Ltac step := symex; norm.

(* ------------------------------------------------------------------ *)

Definition cur_val (s : cur) : val := cursor_val (buf s) (size s) (pos s).

Ltac alloc_tac sz ps n Hsz Hps :=
  unfold run, encoder_alloc, decoder_free, alloc_gen;
  step;
  destruct (in_s64 (ps + s64 (u64 n))) eqn:R; [|step; reflexivity];
  step;
  destruct (ps + s64 (u64 n) <=? sz) eqn:L;
  [ step; rewrite R; step; rewrite ?(s64_id ps), ?(s64_id _ R) by auto; reflexivity
  | step; unfold abort; cbn [size]; rewrite Z.geb_leb;
    destruct (0 <=? sz) eqn:G; step; rewrite ?(s64_id sz), ?(s64_id ps) by auto; reflexivity ].

Theorem ir_encoder_alloc : forall b sz ps n, in_s64 sz = true -> in_s64 ps = true ->
  run helpers_ir tie_fuel "encoder_alloc"%string [cursor_val b sz ps; VInt n] =
  match encoder_alloc (mkCur b sz ps) n with
  | COk (s', p) => ROk (Some p, [cursor_val (buf s') (size s') (pos s'); VInt n])
  | COob => RFail FOob | CUb => RFail FUb end.
Proof. intros b sz ps n Hsz Hps. alloc_tac sz ps n Hsz Hps. Qed.

Theorem ir_decoder_free : forall b sz ps n, in_s64 sz = true -> in_s64 ps = true ->
  run helpers_ir tie_fuel "decoder_free"%string [cursor_val b sz ps; VInt n] =
  match decoder_free (mkCur b sz ps) n with
  | COk (s', p) => ROk (Some p, [cursor_val (buf s') (size s') (pos s'); VInt n])
  | COob => RFail FOob | CUb => RFail FUb end.
Proof. intros b sz ps n Hsz Hps. alloc_tac sz ps n Hsz Hps. Qed.

(** ** abort *)

Ltac abort_tac sz ps e :=
  unfold run, abort; cbn [size buf pos];
  step; rewrite Z.geb_leb;
  destruct (0 <=? sz) eqn:G;
  [ step;
    assert (Re : in_s64 (- e) = true) by (unfold in_s64; lia);
    assert (Re2 : in_s64 e = true) by (unfold in_s64; lia);
    rewrite ?(s64_id e Re2), ?Re; step; rewrite ?(s64_id e Re2), ?Re; step;
    rewrite ?(s64_id _ Re); reflexivity
  | step; rewrite ?(s64_id sz), ?(s64_id ps) by auto; reflexivity ].

Theorem ir_encoder_abort : forall b sz ps e, in_s64 sz = true -> in_s64 ps = true ->
  -9223372036854775807 <= e <= 9223372036854775807 ->
  run helpers_ir tie_fuel "encoder_abort"%string [cursor_val b sz ps; VInt e] =
  let s' := abort (mkCur b sz ps) e in
  ROk (None, [cursor_val (buf s') (size s') (pos s'); VInt e]).
Proof. intros b sz ps e Hsz Hps He. cbv zeta. abort_tac sz ps e. Qed.

Theorem ir_decoder_abort : forall b sz ps e, in_s64 sz = true -> in_s64 ps = true ->
  -9223372036854775807 <= e <= 9223372036854775807 ->
  run helpers_ir tie_fuel "decoder_abort"%string [cursor_val b sz ps; VInt e] =
  let s' := abort (mkCur b sz ps) e in
  ROk (None, [cursor_val (buf s') (size s') (pos s'); VInt e]).
Proof. intros b sz ps e Hsz Hps He. cbv zeta. abort_tac sz ps e. Qed.

(** ** get_result *)

Lemma quot8_in_s64 z : in_s64 z = true -> in_s64 (Z.quot z 8) = true.
Proof.
  unfold in_s64. intros H.
  destruct (Z.le_gt_cases 0 z) as [P|N].
  - rewrite Z.quot_div_nonneg by lia. lia.
  - replace z with (- (- z)) by lia. rewrite Z.quot_opp_l by lia.
    rewrite Z.quot_div_nonneg by lia. lia.
Qed.

Ltac get_result_tac sz ps :=
  unfold run, get_result; cbn [size buf pos];
  step; rewrite Z.geb_leb;
  destruct (0 <=? sz) eqn:G;
  [ step;
    assert (R7 : in_s64 (ps + 7) = true) by (unfold in_s64 in *; lia);
    rewrite R7; step; rewrite (quot8_in_s64 _ R7); step;
    rewrite ?(s64_id _ (quot8_in_s64 _ R7)); reflexivity
  | step; rewrite ?(s64_id ps) by auto; reflexivity ].

Theorem ir_encoder_get_result : forall b sz ps, in_s64 sz = true -> in_s64 ps = true ->
  ps <= 9223372036854775800 ->
  run helpers_ir tie_fuel "encoder_get_result"%string [cursor_val b sz ps] =
  ROk (Some (get_result (mkCur b sz ps)), [cursor_val b sz ps]).
Proof. intros b sz ps Hsz Hps Hp. get_result_tac sz ps. Qed.

Theorem ir_decoder_get_result : forall b sz ps, in_s64 sz = true -> in_s64 ps = true ->
  ps <= 9223372036854775800 ->
  run helpers_ir tie_fuel "decoder_get_result"%string [cursor_val b sz ps] =
  ROk (Some (get_result (mkCur b sz ps)), [cursor_val b sz ps]).
Proof. intros b sz ps Hsz Hps Hp. get_result_tac sz ps. Qed.

(** ** init *)

Ltac init_tac n :=
  unfold run, init; step;
  destruct (in_s64 (8 * s64 (u64 n))) eqn:R; step;
  rewrite ?(s64_id _ R); reflexivity.

Theorem ir_encoder_init : forall b0 s0 p0 b n,
  run helpers_ir tie_fuel "encoder_init"%string [cursor_val b0 s0 p0; bytes_val b; VInt n] =
  match init b n with
  | COk s => ROk (None, [cursor_val (buf s) (size s) (pos s); bytes_val b; VInt n])
  | COob => RFail FOob | CUb => RFail FUb end.
Proof. intros b0 s0 p0 b n. init_tac n. Qed.

Theorem ir_decoder_init : forall b0 s0 p0 b n,
  run helpers_ir tie_fuel "decoder_init"%string [cursor_val b0 s0 p0; bytes_val b; VInt n] =
  match init b n with
  | COk s => ROk (None, [cursor_val (buf s) (size s) (pos s); bytes_val b; VInt n])
  | COob => RFail FOob | CUb => RFail FUb end.
Proof. intros b0 s0 p0 b n. init_tac n. Qed.

(* ------------------------------------------------------------------ *)
(** * Byte objects: [vget]/[vset] on [bytes_val] are [rd]/[wr] *)

Lemma list_set_map (b : list Z) n x : list_set (map VInt b) n (VInt x) = map VInt (upd b n x).
Proof. revert n; induction b; intros [|n]; cbn; auto. now rewrite IHb. Qed.

Lemma vget_bytes b i :
  vget (bytes_val b) [SelI i] =
  match rd b i with COk x => ROk (VInt x) | COob => RFail FOob | CUb => RFail FUb end.
Proof.
  unfold bytes_val, rd, len. cbn [vget]. rewrite map_length.
  destruct ((0 <=? i) && (i <? Z.of_nat (length b))); [|reflexivity].
  rewrite nth_error_map. destruct (nth_error b (Z.to_nat i)); reflexivity.
Qed.

Lemma vset_bytes b i x :
  vset (bytes_val b) [SelI i] (VInt x) =
  match wr b i x with COk b' => ROk (bytes_val b') | COob => RFail FOob | CUb => RFail FUb end.
Proof.
  unfold bytes_val, wr, len. cbn [vset]. rewrite map_length.
  destruct ((0 <=? i) && (i <? Z.of_nat (length b))) eqn:E; [|reflexivity].
  rewrite nth_error_map. destruct (nth_error b (Z.to_nat i)) eqn:E2.
  - cbn [option_map rbind]. now rewrite list_set_map.
  - apply nth_error_None in E2. lia.
Qed.

Ltac symex2 := cbn -[Z.add Z.sub Z.mul Z.leb Z.ltb Z.geb Z.opp Z.eqb conv in_range Z.modulo Z.pow
                    truth u64 s64 u8 in_s64 in_s32 Z.quot Z.rem Z.div Z.shiftl Z.shiftr Z.land Z.lor rd wr].

(** the same facts in the shape [symex2] leaves *)
Lemma vget_bytes_cbn b i :
  ltac:(let t := eval cbn -[Z.leb Z.ltb Z.to_nat Z.of_nat] in (vget (bytes_val b) [SelI i]) in
        exact (t = match rd b i with COk x => ROk (VInt x) | COob => RFail FOob | CUb => RFail FUb end)).
Proof. exact (vget_bytes b i). Qed.

Lemma vset_bytes_cbn b i x :
  ltac:(let t := eval cbn -[Z.leb Z.ltb Z.to_nat Z.of_nat] in (vset (bytes_val b) [SelI i] (VInt x)) in
        exact (t = match wr b i x with COk b' => ROk (bytes_val b') | COob => RFail FOob | CUb => RFail FUb end)).
Proof. exact (vset_bytes b i x). Qed.

Ltac norm2 :=
  repeat match goal with
  | |- context [s64 ?z] => is_zconst z; fold1 (s64 z)
  | |- context [u64 ?z] => is_zconst z; fold1 (u64 z)
  | |- context [u8 ?z] => is_zconst z; fold1 (u8 z)
  | |- context [Z.ltb ?a ?b] => is_zconst a; is_zconst b; fold1 (Z.ltb a b)
  | |- context [Z.leb ?a ?b] => is_zconst a; is_zconst b; fold1 (Z.leb a b)
  end; norm.
Ltac step2 := symex2; norm2.

Lemma conv_I32_id v : in_range I32 v = true -> conv I32 v = v.
Proof.
  unfold in_range, conv. cbn [ity_signed ity_bits ity_min ity_max].
  change (2 ^ (32 - 1)) with 2147483648. change (2 ^ 32) with 4294967296. intros H. lia.
Qed.

Lemma rem8_facts p : 0 <= p ->
  in_s64 (7 - Z.rem p 8) = true /\ ((7 - Z.rem p 8 <? 0) || (32 <=? 7 - Z.rem p 8)) = false.
Proof.
  intros H. rewrite Z.rem_mod_nonneg by lia. unfold in_s64. split; lia.
Qed.

Ltac bit_tail b1 ps v Q8 S7 SH :=
  step2; rewrite Q8; step2; rewrite vget_bytes_cbn;
  destruct (rd b1 (ps ÷ 8)) as [old| |] eqn:Rd; [|step2; reflexivity|step2; reflexivity];
  step2; rewrite Q8; step2; rewrite S7; step2; rewrite SH; step2;
  destruct (v <? 0) eqn:V; [step2; reflexivity|]; step2;
  destruct (in_s32 (Z.shiftl v (7 - Z.rem ps 8))) eqn:SHL; [|step2; reflexivity];
  step2; rewrite Q8; step2; rewrite vset_bytes_cbn;
  destruct (wr b1 (ps ÷ 8) (u8 (Z.lor old (u8 (Z.shiftl v (7 - Z.rem ps 8)))))) as [b2| |] eqn:W2;
  step2; reflexivity.

Theorem ir_encoder_append_bit : forall b sz ps v,
  in_s64 sz = true -> in_s64 ps = true -> in_range I32 v = true ->
  run helpers_ir tie_fuel "encoder_append_bit"%string [cursor_val b sz ps; VInt v] =
  match append_bit (mkCur b sz ps) v with
  | COk s' => ROk (None, [cursor_val (buf s') (size s') (pos s'); VInt v])
  | COob => RFail FOob | CUb => RFail FUb end.
Proof.
  intros b sz ps v Hsz Hps Hv. unfold run, append_bit, encoder_alloc, alloc_gen.
  pose proof (quot8_in_s64 _ Hps) as Q8.
  step2. rewrite (conv_I32_id v Hv).
  destruct (in_s64 (ps + 1)) eqn:R; [|step2; reflexivity].
  step2.
  destruct (ps + 1 <=? sz) eqn:L.
  - step2. rewrite R. step2. rewrite !(s64_id ps Hps), ?(s64_id _ R).
    destruct (ps <? 0) eqn:P.
    + step2. reflexivity.
    + destruct (rem8_facts ps ltac:(lia)) as (S7 & SH).
      step2. rewrite Q8. step2.
      destruct (Z.rem ps 8 =? 0) eqn:A.
      * rewrite Q8. step2. rewrite vset_bytes_cbn.
        destruct (wr b (ps ÷ 8) 0) as [b1| |] eqn:W; [|step2; reflexivity|step2; reflexivity].
        bit_tail b1 ps v Q8 S7 SH.
      * bit_tail b ps v Q8 S7 SH.
  - step2. unfold abort. cbn [size]. rewrite Z.geb_leb.
    destruct (0 <=? sz) eqn:G; step2; rewrite ?(s64_id sz), ?(s64_id ps) by auto; reflexivity.
Qed.

Lemma conv_I32_land1 x : conv I32 (Z.land x 1) = Z.land x 1.
Proof.
  apply conv_I32_id. change 1 with (Z.ones 1). rewrite Z.land_ones by lia.
  change (2 ^ 1) with 2. unfold in_range. cbn [ity_signed ity_bits ity_min ity_max].
  change (2 ^ (32 - 1)) with 2147483648. lia.
Qed.

Theorem ir_decoder_read_bit : forall b sz ps,
  in_s64 sz = true -> in_s64 ps = true ->
  run helpers_ir tie_fuel "decoder_read_bit"%string [cursor_val b sz ps] =
  match read_bit (mkCur b sz ps) with
  | COk (s', x) => ROk (Some x, [cursor_val (buf s') (size s') (pos s')])
  | COob => RFail FOob | CUb => RFail FUb end.
Proof.
  intros b sz ps Hsz Hps. unfold run, read_bit, decoder_free, alloc_gen.
  pose proof (quot8_in_s64 _ Hps) as Q8.
  step2.
  destruct (in_s64 (ps + 1)) eqn:R; [|step2; reflexivity].
  step2.
  destruct (ps + 1 <=? sz) eqn:L.
  - step2. rewrite R. step2. rewrite !(s64_id ps Hps), ?(s64_id _ R). rewrite Z.geb_leb.
    destruct (0 <=? ps) eqn:P.
    + destruct (rem8_facts ps ltac:(lia)) as (S7 & SH).
      step2. rewrite Q8. step2. rewrite vget_bytes_cbn.
      destruct (rd b (ps ÷ 8)) as [x| |] eqn:Rd; [|step2; reflexivity|step2; reflexivity].
      step2. rewrite Q8. step2. rewrite S7. step2. rewrite SH. step2.
      rewrite !conv_I32_land1. reflexivity.
    + step2. reflexivity.
  - step2. unfold abort, EOUTOFDATA. cbn [size]. rewrite !Z.geb_leb.
    destruct (0 <=? sz) eqn:G; step2; rewrite ?(s64_id sz), ?(s64_id ps) by auto; reflexivity.
Qed.
