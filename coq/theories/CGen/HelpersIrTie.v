(** C09 — semantic tie: the helper functions parsed from the C text in /repo
    ([Asn1Gen.UperHelpersIr.helpers_ir], regenerated on every run), executed by
    the interpreter of CGen/Ir.v on SYMBOLIC arguments, compute the functions
    of the model CGen/Helpers.v. *)
From Asn1V Require Import Base.Prelude CGen.Helpers CGen.HelpersSpec CGen.HelpersBits CGen.Ir.
From Asn1Gen Require Import UperHelpersIr.
Open Scope Z_scope.

Definition tie_fuel : nat := 40.

(* ------------------------------------------------------------------ *)
(** * Symbolic execution tactics *)

Lemma truth_test b : negb (truth b =? 0)%Z = b. Proof. destruct b; reflexivity. Qed.
Lemma truth_test0 b : (truth b =? 0)%Z = negb b. Proof. destruct b; reflexivity. Qed.
Lemma s64_id z : in_s64 z = true -> s64 z = z.
Proof. unfold in_s64, s64. intros H. lia. Qed.

Ltac is_pconst p := lazymatch p with xH => idtac | xO ?q => is_pconst q | xI ?q => is_pconst q end.
Ltac is_zconst z := lazymatch z with Z0 => idtac | Zpos ?p => is_pconst p | Zneg ?p => is_pconst p end.

(** run the interpreter as far as the symbolic values allow *)
Ltac symex := cbn -[Z.add Z.sub Z.mul Z.leb Z.ltb Z.geb Z.opp Z.eqb conv in_range Z.modulo Z.pow
                    truth u64 s64 u8 in_s64 in_s32 Z.quot Z.rem Z.div Z.shiftl Z.shiftr Z.land Z.lor].

(** fold closed integer subterms, name the conversions as the model does *)
Ltac fold1 t := let v := eval vm_compute in t in change t with v.
Ltac norm :=
  repeat match goal with
  | |- context [Z.opp ?z] => is_zconst z; fold1 (Z.opp z)
  | |- context [Z.eqb ?a ?b] => is_zconst a; is_zconst b; fold1 (Z.eqb a b)
  | |- context [in_range ?t ?z] => is_zconst z; fold1 (in_range t z)
  | |- context [conv ?t ?z] => is_zconst z; fold1 (conv t z)
  | |- context [conv I64 ?z] => change (conv I64 z) with (s64 z)
  | |- context [conv U64 ?z] => change (conv U64 z) with (u64 z)
  | |- context [conv U8 ?z] => change (conv U8 z) with (u8 z)
  | |- context [in_range I64 ?z] => change (in_range I64 z) with (in_s64 z)
  | |- context [in_range I32 ?z] => change (in_range I32 z) with (in_s32 z)
  end; rewrite ?truth_test, ?truth_test0.
Ltac step := symex; norm.

(* ------------------------------------------------------------------ *)

Definition cur_val (s : cur) : val := cursor_val (buf s) (size s) (pos s).

Ltac alloc_tac sz ps n Hsz Hps :=
  unfold run, encoder_alloc, decoder_free, alloc_gen;
  step;
  destruct (in_s64 (ps + s64 (u64 n))) eqn:R; [|step; reflexivity];
  step;
  destruct (ps + s64 (u64 n) <=? sz) eqn:L;
  [ step; rewrite R; step; rewrite ?(s64_id ps), ?(s64_id _ R) by auto; reflexivity
  | step; unfold abort; cbn [size]; rewrite Z.geb_leb;
    destruct (0 <=? sz) eqn:G; step; rewrite ?(s64_id sz), ?(s64_id ps) by auto; reflexivity ].

Theorem ir_encoder_alloc : forall b sz ps n, in_s64 sz = true -> in_s64 ps = true ->
  run helpers_ir tie_fuel "encoder_alloc"%string [cursor_val b sz ps; VInt n] =
  match encoder_alloc (mkCur b sz ps) n with
  | COk (s', p) => ROk (Some p, [cursor_val (buf s') (size s') (pos s'); VInt n])
  | COob => RFail FOob | CUb => RFail FUb end.
Proof. intros b sz ps n Hsz Hps. alloc_tac sz ps n Hsz Hps. Qed.

Theorem ir_decoder_free : forall b sz ps n, in_s64 sz = true -> in_s64 ps = true ->
  run helpers_ir tie_fuel "decoder_free"%string [cursor_val b sz ps; VInt n] =
  match decoder_free (mkCur b sz ps) n with
  | COk (s', p) => ROk (Some p, [cursor_val (buf s') (size s') (pos s'); VInt n])
  | COob => RFail FOob | CUb => RFail FUb end.
Proof. intros b sz ps n Hsz Hps. alloc_tac sz ps n Hsz Hps. Qed.

(** ** abort *)

Ltac abort_tac sz ps e :=
  unfold run, abort; cbn [size buf pos];
  step; rewrite Z.geb_leb;
  destruct (0 <=? sz) eqn:G;
  [ step;
    assert (Re : in_s64 (- e) = true) by (unfold in_s64; lia);
    assert (Re2 : in_s64 e = true) by (unfold in_s64; lia);
    rewrite ?(s64_id e Re2), ?Re; step; rewrite ?(s64_id e Re2), ?Re; step;
    rewrite ?(s64_id _ Re); reflexivity
  | step; rewrite ?(s64_id sz), ?(s64_id ps) by auto; reflexivity ].

Theorem ir_encoder_abort : forall b sz ps e, in_s64 sz = true -> in_s64 ps = true ->
  -9223372036854775807 <= e <= 9223372036854775807 ->
  run helpers_ir tie_fuel "encoder_abort"%string [cursor_val b sz ps; VInt e] =
  let s' := abort (mkCur b sz ps) e in
  ROk (None, [cursor_val (buf s') (size s') (pos s'); VInt e]).
Proof. intros b sz ps e Hsz Hps He. cbv zeta. abort_tac sz ps e. Qed.

Theorem ir_decoder_abort : forall b sz ps e, in_s64 sz = true -> in_s64 ps = true ->
  -9223372036854775807 <= e <= 9223372036854775807 ->
  run helpers_ir tie_fuel "decoder_abort"%string [cursor_val b sz ps; VInt e] =
  let s' := abort (mkCur b sz ps) e in
  ROk (None, [cursor_val (buf s') (size s') (pos s'); VInt e]).
Proof. intros b sz ps e Hsz Hps He. cbv zeta. abort_tac sz ps e. Qed.

(** ** get_result *)

Lemma quot8_in_s64 z : in_s64 z = true -> in_s64 (Z.quot z 8) = true.
Proof.
  unfold in_s64. intros H.
  destruct (Z.le_gt_cases 0 z) as [P|N].
  - rewrite Z.quot_div_nonneg by lia. lia.
  - replace z with (- (- z)) by lia. rewrite Z.quot_opp_l by lia.
    rewrite Z.quot_div_nonneg by lia. lia.
Qed.

Ltac get_result_tac sz ps :=
  unfold run, get_result; cbn [size buf pos];
  step; rewrite Z.geb_leb;
  destruct (0 <=? sz) eqn:G;
  [ step;
    assert (R7 : in_s64 (ps + 7) = true) by (unfold in_s64 in *; lia);
    rewrite R7; step; rewrite (quot8_in_s64 _ R7); step;
    rewrite ?(s64_id _ (quot8_in_s64 _ R7)); reflexivity
  | step; rewrite ?(s64_id ps) by auto; reflexivity ].

Theorem ir_encoder_get_result : forall b sz ps, in_s64 sz = true -> in_s64 ps = true ->
  ps <= 9223372036854775800 ->
  run helpers_ir tie_fuel "encoder_get_result"%string [cursor_val b sz ps] =
  ROk (Some (get_result (mkCur b sz ps)), [cursor_val b sz ps]).
Proof. intros b sz ps Hsz Hps Hp. get_result_tac sz ps. Qed.

Theorem ir_decoder_get_result : forall b sz ps, in_s64 sz = true -> in_s64 ps = true ->
  ps <= 9223372036854775800 ->
  run helpers_ir tie_fuel "decoder_get_result"%string [cursor_val b sz ps] =
  ROk (Some (get_result (mkCur b sz ps)), [cursor_val b sz ps]).
Proof. intros b sz ps Hsz Hps Hp. get_result_tac sz ps. Qed.

(** ** init *)

Ltac init_tac n :=
  unfold run, init; step;
  destruct (in_s64 (8 * s64 (u64 n))) eqn:R; step;
  rewrite ?(s64_id _ R); reflexivity.

Theorem ir_encoder_init : forall b0 s0 p0 b n,
  run helpers_ir tie_fuel "encoder_init"%string [cursor_val b0 s0 p0; bytes_val b; VInt n] =
  match init b n with
  | COk s => ROk (None, [cursor_val (buf s) (size s) (pos s); bytes_val b; VInt n])
  | COob => RFail FOob | CUb => RFail FUb end.
Proof. intros b0 s0 p0 b n. init_tac n. Qed.

Theorem ir_decoder_init : forall b0 s0 p0 b n,
  run helpers_ir tie_fuel "decoder_init"%string [cursor_val b0 s0 p0; bytes_val b; VInt n] =
  match init b n with
  | COk s => ROk (None, [cursor_val (buf s) (size s) (pos s); bytes_val b; VInt n])
  | COob => RFail FOob | CUb => RFail FUb end.
Proof. intros b0 s0 p0 b n. init_tac n. Qed.

(* ------------------------------------------------------------------ *)
(** * Byte objects: [vget]/[vset] on [bytes_val] are [rd]/[wr] *)

Lemma list_set_map (b : list Z) n x : list_set (map VInt b) n (VInt x) = map VInt (upd b n x).
Proof. revert n; induction b; intros [|n]; cbn; auto. now rewrite IHb. Qed.

Lemma vget_bytes b i :
  vget (bytes_val b) [SelI i] =
  match rd b i with COk x => ROk (VInt x) | COob => RFail FOob | CUb => RFail FUb end.
Proof.
  unfold bytes_val, rd, len. cbn [vget]. rewrite map_length.
  destruct ((0 <=? i) && (i <? Z.of_nat (length b))); [|reflexivity].
  rewrite nth_error_map. destruct (nth_error b (Z.to_nat i)); reflexivity.
Qed.

Lemma vset_bytes b i x :
  vset (bytes_val b) [SelI i] (VInt x) =
  match wr b i x with COk b' => ROk (bytes_val b') | COob => RFail FOob | CUb => RFail FUb end.
Proof.
  unfold bytes_val, wr, len. cbn [vset]. rewrite map_length.
  destruct ((0 <=? i) && (i <? Z.of_nat (length b))) eqn:E; [|reflexivity].
  rewrite nth_error_map. destruct (nth_error b (Z.to_nat i)) eqn:E2.
  - cbn [option_map rbind]. now rewrite list_set_map.
  - apply nth_error_None in E2. lia.
Qed.

Ltac symex2 := cbn -[Z.add Z.sub Z.mul Z.leb Z.ltb Z.geb Z.opp Z.eqb conv in_range Z.modulo Z.pow
                    truth u64 s64 u8 in_s64 in_s32 Z.quot Z.rem Z.div Z.shiftl Z.shiftr Z.land Z.lor rd wr].

(** the same facts in the shape [symex2] leaves *)
Lemma vget_bytes_cbn b i :
  ltac:(let t := eval cbn -[Z.leb Z.ltb Z.to_nat Z.of_nat] in (vget (bytes_val b) [SelI i]) in
        exact (t = match rd b i with COk x => ROk (VInt x) | COob => RFail FOob | CUb => RFail FUb end)).
Proof. exact (vget_bytes b i). Qed.

Lemma vset_bytes_cbn b i x :
  ltac:(let t := eval cbn -[Z.leb Z.ltb Z.to_nat Z.of_nat] in (vset (bytes_val b) [SelI i] (VInt x)) in
        exact (t = match wr b i x with COk b' => ROk (bytes_val b') | COob => RFail FOob | CUb => RFail FUb end)).
Proof. exact (vset_bytes b i x). Qed.

Ltac norm2 :=
  repeat match goal with
  | |- context [s64 ?z] => is_zconst z; fold1 (s64 z)
  | |- context [u64 ?z] => is_zconst z; fold1 (u64 z)
  | |- context [u8 ?z] => is_zconst z; fold1 (u8 z)
  | |- context [Z.ltb ?a ?b] => is_zconst a; is_zconst b; fold1 (Z.ltb a b)
  | |- context [Z.leb ?a ?b] => is_zconst a; is_zconst b; fold1 (Z.leb a b)
  end; norm.
Ltac step2 := symex2; norm2.

Lemma conv_I32_id v : in_range I32 v = true -> conv I32 v = v.
Proof.
  unfold in_range, conv. cbn [ity_signed ity_bits ity_min ity_max].
  change (2 ^ (32 - 1)) with 2147483648. change (2 ^ 32) with 4294967296. intros H. lia.
Qed.

Lemma rem8_facts p : 0 <= p ->
  in_s64 (7 - Z.rem p 8) = true /\ ((7 - Z.rem p 8 <? 0) || (32 <=? 7 - Z.rem p 8)) = false.
Proof.
  intros H. rewrite Z.rem_mod_nonneg by lia. unfold in_s64. split; lia.
Qed.

Ltac bit_tail b1 ps v Q8 S7 SH :=
  step2; rewrite Q8; step2; rewrite vget_bytes_cbn;
  destruct (rd b1 (ps ÷ 8)) as [old| |] eqn:Rd; [|step2; reflexivity|step2; reflexivity];
  step2; rewrite Q8; step2; rewrite S7; step2; rewrite SH; step2;
  destruct (v <? 0) eqn:V; [step2; reflexivity|]; step2;
  destruct (in_s32 (Z.shiftl v (7 - Z.rem ps 8))) eqn:SHL; [|step2; reflexivity];
  step2; rewrite Q8; step2; rewrite vset_bytes_cbn;
  destruct (wr b1 (ps ÷ 8) (u8 (Z.lor old (u8 (Z.shiftl v (7 - Z.rem ps 8)))))) as [b2| |] eqn:W2;
  step2; reflexivity.

Theorem ir_encoder_append_bit : forall b sz ps v,
  in_s64 sz = true -> in_s64 ps = true -> in_range I32 v = true ->
  run helpers_ir tie_fuel "encoder_append_bit"%string [cursor_val b sz ps; VInt v] =
  match append_bit (mkCur b sz ps) v with
  | COk s' => ROk (None, [cursor_val (buf s') (size s') (pos s'); VInt v])
  | COob => RFail FOob | CUb => RFail FUb end.
Proof.
  intros b sz ps v Hsz Hps Hv. unfold run, append_bit, encoder_alloc, alloc_gen.
  pose proof (quot8_in_s64 _ Hps) as Q8.
  step2. rewrite (conv_I32_id v Hv).
  destruct (in_s64 (ps + 1)) eqn:R; [|step2; reflexivity].
  step2.
  destruct (ps + 1 <=? sz) eqn:L.
  - step2. rewrite R. step2. rewrite !(s64_id ps Hps), ?(s64_id _ R).
    destruct (ps <? 0) eqn:P.
    + step2. reflexivity.
    + destruct (rem8_facts ps ltac:(lia)) as (S7 & SH).
      step2. rewrite Q8. step2.
      destruct (Z.rem ps 8 =? 0) eqn:A.
      * rewrite Q8. step2. rewrite vset_bytes_cbn.
        destruct (wr b (ps ÷ 8) 0) as [b1| |] eqn:W; [|step2; reflexivity|step2; reflexivity].
        bit_tail b1 ps v Q8 S7 SH.
      * bit_tail b ps v Q8 S7 SH.
  - step2. unfold abort. cbn [size]. rewrite Z.geb_leb.
    destruct (0 <=? sz) eqn:G; step2; rewrite ?(s64_id sz), ?(s64_id ps) by auto; reflexivity.
Qed.

Lemma conv_I32_land1 x : conv I32 (Z.land x 1) = Z.land x 1.
Proof.
  apply conv_I32_id. change 1 with (Z.ones 1). rewrite Z.land_ones by lia.
  change (2 ^ 1) with 2. unfold in_range. cbn [ity_signed ity_bits ity_min ity_max].
  change (2 ^ (32 - 1)) with 2147483648. lia.
Qed.

Theorem ir_decoder_read_bit : forall b sz ps,
  in_s64 sz = true -> in_s64 ps = true ->
  run helpers_ir tie_fuel "decoder_read_bit"%string [cursor_val b sz ps] =
  match read_bit (mkCur b sz ps) with
  | COk (s', x) => ROk (Some x, [cursor_val (buf s') (size s') (pos s')])
  | COob => RFail FOob | CUb => RFail FUb end.
Proof.
  intros b sz ps Hsz Hps. unfold run, read_bit, decoder_free, alloc_gen.
  pose proof (quot8_in_s64 _ Hps) as Q8.
  step2.
  destruct (in_s64 (ps + 1)) eqn:R; [|step2; reflexivity].
  step2.
  destruct (ps + 1 <=? sz) eqn:L.
  - step2. rewrite R. step2. rewrite !(s64_id ps Hps), ?(s64_id _ R). rewrite Z.geb_leb.
    destruct (0 <=? ps) eqn:P.
    + destruct (rem8_facts ps ltac:(lia)) as (S7 & SH).
      step2. rewrite Q8. step2. rewrite vget_bytes_cbn.
      destruct (rd b (ps ÷ 8)) as [x| |] eqn:Rd; [|step2; reflexivity|step2; reflexivity].
      step2. rewrite Q8. step2. rewrite S7. step2. rewrite SH. step2.
      rewrite !conv_I32_land1. reflexivity.
    + step2. reflexivity.
  - step2. unfold abort, EOUTOFDATA. cbn [size]. rewrite !Z.geb_leb.
    destruct (0 <=? sz) eqn:G; step2; rewrite ?(s64_id sz), ?(s64_id ps) by auto; reflexivity.
Qed.

(* ================================================================== *)
(** * Compositional layer: any fuel, any caller *)

Definition fn_of (f : string) : func :=
  match lookup f helpers_ir with Some fn => fn | None => mkFunc [] [] [] None end.

Lemma resolve_PVar prog m e x : (1 <= m)%nat -> resolve prog m e (PVar x) = ROk (e, (x, [])).
Proof. intros H. destruct m; [lia|reflexivity]. Qed.

(** what encoder_alloc(self_p, 1) returns *)
Definition bit_p (s : cur) : Z := match encoder_alloc s 1 with COk (_, p) => p | _ => 0 end.

Definition body_fuel : nat := 40.

Lemma body_append_bit m b sz ps v : in_s64 sz = true -> in_s64 ps = true ->
  exec_list helpers_ir (body_fuel + m)
    [("self_p", cursor_val b sz ps); ("value", VInt v); ("pos", VUndef)]%string
    (f_body (fn_of "encoder_append_bit")) =
  match append_bit (mkCur b sz ps) v with
  | COk s' => ROk ([("self_p", cur_val s'); ("value", VInt v); ("pos", VInt (bit_p (mkCur b sz ps)))]%string,
                   if bit_p (mkCur b sz ps) <? 0 then FReturn None else FNormal)
  | COob => RFail FOob | CUb => RFail FUb end.
Proof.
  intros Hsz Hps. unfold bit_p, cur_val, append_bit, encoder_alloc, alloc_gen.
  pose proof (quot8_in_s64 _ Hps) as Q8.
  step2.
  destruct (in_s64 (ps + 1)) eqn:R; [|step2; reflexivity].
  step2.
  destruct (ps + 1 <=? sz) eqn:L.
  - step2. rewrite R. step2. rewrite !(s64_id ps Hps), ?(s64_id _ R).
    destruct (ps <? 0) eqn:P.
    + step2. reflexivity.
    + destruct (rem8_facts ps ltac:(lia)) as (S7 & SH).
      step2. rewrite Q8. step2.
      destruct (Z.rem ps 8 =? 0) eqn:A.
      * rewrite Q8. step2. rewrite vset_bytes_cbn.
        destruct (wr b (ps ÷ 8) 0) as [b1| |] eqn:W; [|step2; reflexivity|step2; reflexivity].
        bit_tail b1 ps v Q8 S7 SH.
      * bit_tail b ps v Q8 S7 SH.
  - step2. unfold abort. cbn [size]. rewrite Z.geb_leb.
    destruct (0 <=? sz) eqn:G; step2; rewrite ?(s64_id sz), ?(s64_id ps) by auto; reflexivity.
Qed.

(** ** One-step unfoldings of the interpreter (the fuel below stays folded) *)

Definition call_body (prog : program) (n' : nat) (e : env) (f : string) (args : list arg)
  : res (env * option Z) :=
  match lookup f prog with
  | None => RFail (FStuck ("unknown function " +++ f))
  | Some fn =>
    let fix bind (e0 : env) (ps : list (string * pmode)) (as_ : list arg)
             (frame : env) (outs : list (string * (string * list sel) * bool))
             {struct ps} : res (env * env * list (string * (string * list sel) * bool)) :=
      match ps, as_ with
      | [], [] => ROk (e0, frame, outs)
      | (x, PByVal t) :: ps', AVal t' a :: as' =>
        let^ (e1, z) := eval prog n' e0 a in
        bind e1 ps' as' (frame ++ [(x, VInt (conv t z))]) outs
      | (x, PByRef) :: ps', ARef p :: as' =>
        let^ (e1, xs) := resolve prog n' e0 p in
        let^ v := env_get e1 (fst xs) (snd xs) in
        bind e1 ps' as' (frame ++ [(x, v)]) (outs ++ [(x, xs, false)])
      | (x, PByRefScalar) :: ps', ARefScalar p :: as' =>
        let^ (e1, xs) := resolve prog n' e0 p in
        let^ v := env_get e1 (fst xs) (snd xs) in
        bind e1 ps' as' (frame ++ [(x, VArr [v])]) (outs ++ [(x, xs, true)])
      | (x, PByRef) :: ps', ARefScalar p :: as' =>
        let^ (e1, xs) := resolve prog n' e0 p in
        let^ v := env_get e1 (fst xs) (snd xs) in
        bind e1 ps' as' (frame ++ [(x, VArr [v])]) (outs ++ [(x, xs, true)])
      | _, _ => RFail (FStuck ("arguments of " +++ f))
      end in
    let^ (e1, frame, outs) := bind e (f_params fn) args [] [] in
    let^ (frame', fl) := exec_list prog n' (frame ++ f_locals fn) (f_body fn) in
    let fix copy_out (e0 : env) (os : list (string * (string * list sel) * bool)) {struct os} : res env :=
      match os with
      | [] => ROk e0
      | (x, xs, scalar) :: os' =>
        match lookup x frame' with
        | None => RFail (FStuck "copy-out")
        | Some v =>
          let^ w := (if scalar then vget v [SelI 0] else ROk v) in
          let^ e1 := env_set e0 (fst xs) (snd xs) w in
          copy_out e1 os'
        end
      end in
    let^ e2 := copy_out e1 outs in
    match fl, f_ret fn with
    | FReturn (Some z), Some t => ROk (e2, Some (conv t z))
    | FReturn None, None | FNormal, None => ROk (e2, None)
    | FNormal, Some _ => RFail FUb
    | _, _ => RFail (FStuck ("return of " +++ f))
    end
  end.

Lemma call_S prog n e f args : call prog (S n) e f args = call_body prog n e f args.
Proof. reflexivity. Qed.

Lemma exec_list_cons prog n e s r :
  exec_list prog (S n) e (s :: r) =
  let^ (e1, fl) := exec prog n e s in
  match fl with FNormal => exec_list prog n e1 r | _ => ROk (e1, fl) end.
Proof. reflexivity. Qed.

Lemma exec_list_nil prog n e : exec_list prog (S n) e [] = ROk (e, FNormal).
Proof. reflexivity. Qed.

Lemma exec_SExpr prog n e a :
  exec prog (S n) e (SExpr a) = let^ (e1, _) := eval prog n e a in ROk (e1, FNormal).
Proof. reflexivity. Qed.

Lemma eval_ECall prog n e f args :
  eval prog (S n) e (ECall f args) =
  let^ (e1, r) := call prog n e f args in
  match r with Some z => ROk (e1, z) | None => ROk (e1, 0) end.
Proof. reflexivity. Qed.

(** the loop of [SFor], named *)
Section ForLoop.
  Context (prog : program) (n' : nat) (c : expr) (step body : list stmt).
  Fixpoint for_loop (k : nat) (e0 : env) {struct k} : res (env * flow) :=
    match k with
    | O => RFail FFuel
    | S k' =>
      let^ (e2, z) := eval prog n' e0 c in
      if z =? 0 then ROk (e2, FNormal)
      else
        let^ (e3, fl1) := exec_list prog n' e2 body in
        match fl1 with
        | FNormal =>
          let^ (e4, fl2) := exec_list prog n' e3 step in
          match fl2 with FNormal => for_loop k' e4 | _ => RFail (FStuck "flow in for step") end
        | FBreak => ROk (e3, FNormal)
        | FReturn v => ROk (e3, FReturn v)
        end
    end.
End ForLoop.

Lemma exec_SFor prog n e init c step body :
  exec prog (S n) e (SFor init c step body) =
  let^ (e1, fl) := exec_list prog n e init in
  match fl with
  | FNormal => for_loop prog n c step body n e1
  | _ => RFail (FStuck "flow in for init")
  end.
Proof. reflexivity. Qed.

Ltac wcbn := cbn [rbind fst snd app lookup update String.eqb Ascii.eqb Bool.eqb andb vget vset as_int
                  f_params f_locals f_body f_ret].

Lemma call_append_bit m e x a z b sz ps :
  lookup x e = Some (cursor_val b sz ps) -> in_s64 sz = true -> in_s64 ps = true ->
  eval helpers_ir (body_fuel + m) e a = ROk (e, z) ->
  call helpers_ir (S (body_fuel + m)) e "encoder_append_bit" [ARef (PVar x); AVal I32 a] =
  match append_bit (mkCur b sz ps) (conv I32 z) with
  | COk s' => match update x (cur_val s') e with
              | Some e' => ROk (e', None) | None => RFail (FStuck "update") end
  | COob => RFail FOob | CUb => RFail FUb end.
Proof.
  intros Hx Hsz Hps Ha.
  pose proof (body_append_bit m b sz ps (conv I32 z) Hsz Hps) as HB.
  remember (body_fuel + m)%nat as M eqn:EM.
  assert (HM : (1 <= M)%nat) by (subst M; unfold body_fuel; lia).
  rewrite call_S. unfold call_body.
  change (lookup "encoder_append_bit" helpers_ir) with (Some (fn_of "encoder_append_bit")).
  cbv iota beta.
  change (f_params (fn_of "encoder_append_bit")) with [("self_p", PByRef); ("value", PByVal I32)]%string.
  change (f_locals (fn_of "encoder_append_bit")) with [("pos", VUndef)]%string.
  change (f_ret (fn_of "encoder_append_bit")) with (@None ity).
  wcbn. rewrite (resolve_PVar _ M e x HM). wcbn.
  unfold env_get at 1. rewrite Hx. wcbn. rewrite Ha. wcbn.
  rewrite HB.
  destruct (append_bit {| buf := b; size := sz; pos := ps |} (conv I32 z)) as [s'| |]; [|reflexivity|reflexivity].
  wcbn. unfold env_set. rewrite Hx. wcbn.
  destruct (update x (cur_val s') e); wcbn;
    destruct (bit_p {| buf := b; size := sz; pos := ps |} <? 0); reflexivity.
Qed.

Lemma call_append_bit_fail m e x a fl b sz ps :
  lookup x e = Some (cursor_val b sz ps) ->
  eval helpers_ir (body_fuel + m) e a = RFail fl ->
  call helpers_ir (S (body_fuel + m)) e "encoder_append_bit" [ARef (PVar x); AVal I32 a] = RFail fl.
Proof.
  intros Hx Ha.
  remember (body_fuel + m)%nat as M eqn:EM.
  assert (HM : (1 <= M)%nat) by (subst M; unfold body_fuel; lia).
  rewrite call_S. unfold call_body.
  change (lookup "encoder_append_bit" helpers_ir) with (Some (fn_of "encoder_append_bit")).
  cbv iota beta.
  change (f_params (fn_of "encoder_append_bit")) with [("self_p", PByRef); ("value", PByVal I32)]%string.
  wcbn. rewrite (resolve_PVar _ M e x HM). wcbn.
  unfold env_get at 1. rewrite Hx. wcbn. rewrite Ha. reflexivity.
Qed.

(* ------------------------------------------------------------------ *)
(** ** encoder_append_non_negative_binary_integer *)

Lemma append_bit_s64 s v s' : append_bit s v = COk s' ->
  in_s64 (size s) = true -> in_s64 (pos s) = true ->
  in_s64 (size s') = true /\ in_s64 (pos s') = true.
Proof.
  unfold append_bit, encoder_alloc, alloc_gen. intros H Hs Hp.
  destruct (negb (in_s64 (pos s + s64 (u64 1)))) eqn:R; [discriminate|].
  apply negb_false_iff in R.
  destruct (pos s + s64 (u64 1) <=? size s) eqn:L; cbn [cbind] in H.
  - destruct (pos s <? 0); [inversion H; subst; cbn; auto|].
    destruct (Z.rem (pos s) 8 =? 0).
    + cbn [buf] in H. destruct (wr (buf s) (pos s ÷ 8) 0) as [b1| |]; cbn [cbind] in H; try discriminate.
      destruct (rd b1 (pos s ÷ 8)); cbn [cbind] in H; try discriminate.
      destruct ((v <? 0) || negb (in_s32 (Z.shiftl v (7 - Z.rem (pos s) 8)))); try discriminate.
      destruct (wr b1 (pos s ÷ 8) _); cbn [cbind] in H; try discriminate.
      inversion H; subst; cbn; auto.
    + cbn [buf cbind] in H.
      destruct (rd (buf s) (pos s ÷ 8)); cbn [cbind] in H; try discriminate.
      destruct ((v <? 0) || negb (in_s32 (Z.shiftl v (7 - Z.rem (pos s) 8)))); try discriminate.
      destruct (wr (buf s) (pos s ÷ 8) _); cbn [cbind] in H; try discriminate.
      inversion H; subst; cbn; auto.
  - change (- ENOMEM <? 0) with true in H. cbv iota in H. inversion H; subst.
    unfold abort. destruct (size s >=? 0); cbn; auto.
Qed.

Definition nnbi_bit : expr :=
  EBin OAnd U64 (EBin OShr U64 (ERead (PVar "value"))
     (EBin OSub U64 (EBin OSub U64 (ERead (PVar "size")) (ERead (PVar "i"))) (ECast U64 (EConst 1))))
     (ECast U64 (EConst 1)).
Definition nnbi_c : expr := EBin OLt U64 (ERead (PVar "i")) (ERead (PVar "size")).
Definition nnbi_step : list stmt :=
  [SAssign (PVar "i") U64 (EBin OAdd U64 (ERead (PVar "i")) (ECast U64 (EConst 1)))].
Definition nnbi_body : list stmt :=
  [SExpr (ECall "encoder_append_bit" [ARef (PVar "self_p"); AVal I32 nnbi_bit])].

Lemma nnbi_body_eq :
  f_body (fn_of "encoder_append_non_negative_binary_integer") =
  [SFor [SAssign (PVar "i") U64 (EConst 0)] nnbi_c nnbi_step nnbi_body].
Proof. reflexivity. Qed.

Definition nn_env (b : list Z) (sz ps val n i : Z) : env :=
  [("self_p", cursor_val b sz ps); ("value", VInt val); ("size", VInt n); ("i", VInt i)]%string.

Definition loop_fuel (m : nat) : nat := S (S (S (S (body_fuel + m)))).

Lemma u64_id z : 0 <= z < 18446744073709551616 -> u64 z = z.
Proof. apply u64_small. Qed.

Lemma nnbi_frag_c m b sz ps val n i :
  eval helpers_ir (loop_fuel m) (nn_env b sz ps val n i) nnbi_c =
  ROk (nn_env b sz ps val n i, truth (i <? n)).
Proof. unfold loop_fuel, body_fuel. symex. reflexivity. Qed.

Lemma nnbi_frag_step m b sz ps val n i : 0 <= i < 18446744073709551615 ->
  exec_list helpers_ir (loop_fuel m) (nn_env b sz ps val n i) nnbi_step =
  ROk (nn_env b sz ps val n (i + 1), FNormal).
Proof.
  intros H. unfold loop_fuel, body_fuel. step2. rewrite !(u64_id (i + 1)) by lia. reflexivity.
Qed.

Lemma nnbi_frag_bit m b sz ps val n i : 0 <= i < n -> n < 18446744073709551616 ->
  eval helpers_ir (body_fuel + m) (nn_env b sz ps val n i) nnbi_bit =
  if (n - i - 1 <? 0) || (64 <=? n - i - 1) then RFail FUb
  else ROk (nn_env b sz ps val n i, Z.land (Z.shiftr val (n - i - 1)) 1).
Proof.
  intros Hi Hn. unfold body_fuel. step2.
  rewrite (u64_id (n - i)) by lia. rewrite (u64_id (n - i - 1)) by lia.
  destruct ((n - i - 1 <? 0) || (64 <=? n - i - 1)); step2; reflexivity.
Qed.

Lemma nnbi_loop m val n : 0 <= n < 18446744073709551616 ->
  forall j b sz ps i k, in_s64 sz = true -> in_s64 ps = true -> 0 <= i -> i + Z.of_nat j = n ->
  (j < k)%nat ->
  for_loop helpers_ir (loop_fuel m) nnbi_c nnbi_step nnbi_body k (nn_env b sz ps val n i) =
  match append_nnbi_loop j (mkCur b sz ps) val n i with
  | COk s' => ROk (nn_env (buf s') (size s') (pos s') val n n, FNormal)
  | COob => RFail FOob | CUb => RFail FUb end.
Proof.
  intros Hn. induction j as [|j IH]; intros b sz ps i k Hsz Hps Hi Hj Hk.
  - destruct k as [|k]; [lia|]. cbn [for_loop append_nnbi_loop].
    rewrite nnbi_frag_c. wcbn.
    replace (i <? n) with false by lia. cbn [truth Z.eqb buf size pos].
    replace i with n by lia. reflexivity.
  - destruct k as [|k]; [lia|]. cbn [for_loop append_nnbi_loop].
    rewrite nnbi_frag_c. wcbn.
    replace (i <? n) with true by lia. cbn [truth Z.eqb].
    unfold nnbi_body at 1. unfold loop_fuel at 1.
    rewrite exec_list_cons, exec_SExpr, eval_ECall.
    pose proof (nnbi_frag_bit m b sz ps val n i ltac:(lia) ltac:(lia)) as Hbit.
    destruct ((n - i - 1 <? 0) || (64 <=? n - i - 1)) eqn:SH.
    + rewrite (call_append_bit_fail m (nn_env b sz ps val n i) "self_p" nnbi_bit FUb b sz ps eq_refl Hbit). reflexivity.
    + rewrite (call_append_bit m (nn_env b sz ps val n i) "self_p" nnbi_bit _ b sz ps eq_refl Hsz Hps Hbit).
      rewrite conv_I32_land1.
      destruct (append_bit {| buf := b; size := sz; pos := ps |} (Z.land (Z.shiftr val (n - i - 1)) 1))
        as [s1| |] eqn:AB; [|reflexivity|reflexivity].
      destruct (append_bit_s64 _ _ _ AB Hsz Hps) as (Hsz1 & Hps1).
      destruct s1 as [b1 sz1 ps1]. cbn [buf size pos] in *.
      unfold nn_env at 1. wcbn. rewrite exec_list_nil. wcbn.
      change [("self_p"%string, cur_val {| buf := b1; size := sz1; pos := ps1 |}); ("value"%string, VInt val); ("size"%string, VInt n); ("i"%string, VInt i)]
        with (nn_env b1 sz1 ps1 val n i).
      rewrite (nnbi_frag_step m) by lia. wcbn.
      rewrite (IH b1 sz1 ps1 (i + 1) k) by (auto; lia). cbn [cbind]. reflexivity.
Qed.

Lemma eval_read_var prog n e x z : lookup x e = Some (VInt z) ->
  eval prog (S (S n)) e (ERead (PVar x)) = ROk (e, z).
Proof. intros H. cbn. unfold env_get. rewrite H. reflexivity. Qed.

Lemma nnbi_frag_init m b sz ps val n :
  exec_list helpers_ir (loop_fuel m)
    [("self_p", cursor_val b sz ps); ("value", VInt val); ("size", VInt n); ("i", VUndef)]%string
    [SAssign (PVar "i") U64 (EConst 0)] = ROk (nn_env b sz ps val n 0, FNormal).
Proof. unfold loop_fuel, body_fuel. step2. reflexivity. Qed.

Ltac rcbn := cbn [rbind fst snd app lookup update String.eqb Ascii.eqb Bool.eqb andb vget vset as_int
                  f_params f_locals f_body f_ret map combine length Nat.eqb negb String.append env_set env_get].

Theorem ir_encoder_append_nnbi_fuel : forall m b sz ps v n,
  in_s64 sz = true -> in_s64 ps = true -> 0 <= n < 18446744073709551616 ->
  (Z.to_nat n < loop_fuel m)%nat ->
  run helpers_ir (S (S (S (loop_fuel m)))) "encoder_append_non_negative_binary_integer"%string
      [cursor_val b sz ps; VInt v; VInt n] =
  match append_nnbi (mkCur b sz ps) v n with
  | COk s' => ROk (None, [cursor_val (buf s') (size s') (pos s'); VInt v; VInt n])
  | COob => RFail FOob | CUb => RFail FUb end.
Proof.
  intros m b sz ps v n Hsz Hps Hn Hk. unfold run, append_nnbi.
  change (lookup "encoder_append_non_negative_binary_integer" helpers_ir)
    with (Some (fn_of "encoder_append_non_negative_binary_integer")).
  cbv iota beta.
  change (f_params (fn_of "encoder_append_non_negative_binary_integer"))
    with [("self_p", PByRef); ("value", PByVal U64); ("size", PByVal U64)]%string.
  rcbn. rewrite call_S. unfold call_body.
  change (lookup "encoder_append_non_negative_binary_integer" helpers_ir)
    with (Some (fn_of "encoder_append_non_negative_binary_integer")).
  cbv iota beta.
  change (f_params (fn_of "encoder_append_non_negative_binary_integer"))
    with [("self_p", PByRef); ("value", PByVal U64); ("size", PByVal U64)]%string.
  change (f_locals (fn_of "encoder_append_non_negative_binary_integer")) with [("i", VUndef)]%string.
  change (f_ret (fn_of "encoder_append_non_negative_binary_integer")) with (@None ity).
  rewrite nnbi_body_eq.
  rcbn. rewrite resolve_PVar by lia. rcbn.
  erewrite (eval_read_var _ _ _ "$value") by reflexivity. rcbn.
  erewrite (eval_read_var _ _ _ "$size") by reflexivity. rcbn.
  rewrite exec_list_cons, exec_SFor.
  change (conv U64 v) with (u64 v). change (conv U64 n) with (u64 n). rewrite (u64_id n) by lia.
  rewrite nnbi_frag_init. rcbn.
  rewrite (nnbi_loop m (u64 v) n Hn (Z.to_nat n) b sz ps 0 (loop_fuel m)) by (auto; lia).
  destruct (append_nnbi_loop (Z.to_nat n) {| buf := b; size := sz; pos := ps |} (u64 v) n 0)
    as [s'| |]; [|reflexivity|reflexivity].
  rcbn. rewrite exec_list_nil. unfold nn_env. rcbn. reflexivity.
Qed.

Theorem ir_encoder_append_nnbi : forall fuel b sz ps v n,
  in_s64 sz = true -> in_s64 ps = true -> 0 <= n < 18446744073709551616 ->
  (Z.to_nat n + 48 <= fuel)%nat ->
  run helpers_ir fuel "encoder_append_non_negative_binary_integer"%string
      [cursor_val b sz ps; VInt v; VInt n] =
  match append_nnbi (mkCur b sz ps) v n with
  | COk s' => ROk (None, [cursor_val (buf s') (size s') (pos s'); VInt v; VInt n])
  | COob => RFail FOob | CUb => RFail FUb end.
Proof.
  intros fuel b sz ps v n Hsz Hps Hn Hf.
  replace fuel with (S (S (S (loop_fuel (fuel - 47))))) by (unfold loop_fuel, body_fuel; lia).
  apply ir_encoder_append_nnbi_fuel; auto. unfold loop_fuel, body_fuel. lia.
Qed.
