(** C09 — semantic tie: the helper functions parsed from the C text in /repo
    ([Asn1Gen.UperHelpersIr.helpers_ir], regenerated on every run), executed by
    the interpreter of CGen/Ir.v on SYMBOLIC arguments, compute the functions
    of the model CGen/Helpers.v. *)
From Asn1V Require Import Base.Prelude CGen.Helpers CGen.HelpersSpec CGen.HelpersBits CGen.Ir.
From Asn1Gen Require Import UperHelpersIr.
Open Scope Z_scope.

Definition tie_fuel : nat := 40.

(* ------------------------------------------------------------------ *)
(** * Symbolic execution tactics *)

Lemma truth_test b : negb (truth b =? 0)%Z = b. Proof. destruct b; reflexivity. Qed.
Lemma truth_test0 b : (truth b =? 0)%Z = negb b. Proof. destruct b; reflexivity. Qed.
Lemma s64_id z : in_s64 z = true -> s64 z = z.
Proof. unfold in_s64, s64. intros H. lia. Qed.

Ltac is_pconst p := lazymatch p with xH => idtac | xO ?q => is_pconst q | xI ?q => is_pconst q end.
Ltac is_zconst z := lazymatch z with Z0 => idtac | Zpos ?p => is_pconst p | Zneg ?p => is_pconst p end.

(** run the interpreter as far as the symbolic values allow *)
Ltac symex := cbn -[Z.add Z.sub Z.mul Z.leb Z.ltb Z.geb Z.opp Z.eqb conv in_range Z.modulo Z.pow
                    truth u64 s64 u8 in_s64 in_s32 Z.quot Z.rem Z.div Z.shiftl Z.shiftr Z.land Z.lor].

(** fold closed integer subterms, name the conversions as the model does *)
Ltac fold1 t := let v := eval vm_compute in t in change t with v.
Ltac norm :=
  repeat match goal with
  | |- context [Z.opp ?z] => is_zconst z; fold1 (Z.opp z)
  | |- context [Z.eqb ?a ?b] => is_zconst a; is_zconst b; fold1 (Z.eqb a b)
  | |- context [in_range ?t ?z] => is_zconst z; fold1 (in_range t z)
  | |- context [conv ?t ?z] => is_zconst z; fold1 (conv t z)
  | |- context [conv I64 ?z] => change (conv I64 z) with (s64 z)
  | |- context [conv U64 ?z] => change (conv U64 z) with (u64 z)
  | |- context [conv U8 ?z] => change (conv U8 z) with (u8 z)
  | |- context [in_range I64 ?z] => change (in_range I64 z) with (in_s64 z)
  | |- context [in_range I32 ?z] => change (in_range I32 z) with (in_s32 z)
  end; rewrite ?truth_test, ?truth_test0.
Ltac step := symex; norm.

(* ------------------------------------------------------------------ *)

Definition cur_val (s : cur) : val := cursor_val (buf s) (size s) (pos s).

Ltac alloc_tac sz ps n Hsz Hps :=
  unfold run, encoder_alloc, decoder_free, alloc_gen;
  step;
  destruct (in_s64 (ps + s64 (u64 n))) eqn:R; [|step; reflexivity];
  step;
  destruct (ps + s64 (u64 n) <=? sz) eqn:L;
  [ step; rewrite R; step; rewrite ?(s64_id ps), ?(s64_id _ R) by auto; reflexivity
  | step; unfold abort; cbn [size]; rewrite Z.geb_leb;
    destruct (0 <=? sz) eqn:G; step; rewrite ?(s64_id sz), ?(s64_id ps) by auto; reflexivity ].

Theorem ir_encoder_alloc : forall b sz ps n, in_s64 sz = true -> in_s64 ps = true ->
  run helpers_ir tie_fuel "encoder_alloc"%string [cursor_val b sz ps; VInt n] =
  match encoder_alloc (mkCur b sz ps) n with
  | COk (s', p) => ROk (Some p, [cursor_val (buf s') (size s') (pos s'); VInt n])
  | COob => RFail FOob | CUb => RFail FUb end.
Proof. intros b sz ps n Hsz Hps. alloc_tac sz ps n Hsz Hps. Qed.

Theorem ir_decoder_free : forall b sz ps n, in_s64 sz = true -> in_s64 ps = true ->
  run helpers_ir tie_fuel "decoder_free"%string [cursor_val b sz ps; VInt n] =
  match decoder_free (mkCur b sz ps) n with
  | COk (s', p) => ROk (Some p, [cursor_val (buf s') (size s') (pos s'); VInt n])
  | COob => RFail FOob | CUb => RFail FUb end.
Proof. intros b sz ps n Hsz Hps. alloc_tac sz ps n Hsz Hps. Qed.

(** ** abort *)

Ltac abort_tac sz ps e :=
  unfold run, abort; cbn [size buf pos];
  step; rewrite Z.geb_leb;
  destruct (0 <=? sz) eqn:G;
  [ step;
    assert (Re : in_s64 (- e) = true) by (unfold in_s64; lia);
    assert (Re2 : in_s64 e = true) by (unfold in_s64; lia);
    rewrite ?(s64_id e Re2), ?Re; step; rewrite ?(s64_id e Re2), ?Re; step;
    rewrite ?(s64_id _ Re); reflexivity
  | step; rewrite ?(s64_id sz), ?(s64_id ps) by auto; reflexivity ].

Theorem ir_encoder_abort : forall b sz ps e, in_s64 sz = true -> in_s64 ps = true ->
  -9223372036854775807 <= e <= 9223372036854775807 ->
  run helpers_ir tie_fuel "encoder_abort"%string [cursor_val b sz ps; VInt e] =
  let s' := abort (mkCur b sz ps) e in
  ROk (None, [cursor_val (buf s') (size s') (pos s'); VInt e]).
Proof. intros b sz ps e Hsz Hps He. cbv zeta. abort_tac sz ps e. Qed.

Theorem ir_decoder_abort : forall b sz ps e, in_s64 sz = true -> in_s64 ps = true ->
  -9223372036854775807 <= e <= 9223372036854775807 ->
  run helpers_ir tie_fuel "decoder_abort"%string [cursor_val b sz ps; VInt e] =
  let s' := abort (mkCur b sz ps) e in
  ROk (None, [cursor_val (buf s') (size s') (pos s'); VInt e]).
Proof. intros b sz ps e Hsz Hps He. cbv zeta. abort_tac sz ps e. Qed.

(** ** get_result *)

Lemma quot8_in_s64 z : in_s64 z = true -> in_s64 (Z.quot z 8) = true.
Proof.
  unfold in_s64. intros H.
  destruct (Z.le_gt_cases 0 z) as [P|N].
  - rewrite Z.quot_div_nonneg by lia. lia.
  - replace z with (- (- z)) by lia. rewrite Z.quot_opp_l by lia.
    rewrite Z.quot_div_nonneg by lia. lia.
Qed.

Ltac get_result_tac sz ps :=
  unfold run, get_result; cbn [size buf pos];
  step; rewrite Z.geb_leb;
  destruct (0 <=? sz) eqn:G;
  [ step;
    assert (R7 : in_s64 (ps + 7) = true) by (unfold in_s64 in *; lia);
    rewrite R7; step; rewrite (quot8_in_s64 _ R7); step;
    rewrite ?(s64_id _ (quot8_in_s64 _ R7)); reflexivity
  | step; rewrite ?(s64_id ps) by auto; reflexivity ].

Theorem ir_encoder_get_result : forall b sz ps, in_s64 sz = true -> in_s64 ps = true ->
  ps <= 9223372036854775800 ->
  run helpers_ir tie_fuel "encoder_get_result"%string [cursor_val b sz ps] =
  ROk (Some (get_result (mkCur b sz ps)), [cursor_val b sz ps]).
Proof. intros b sz ps Hsz Hps Hp. get_result_tac sz ps. Qed.

Theorem ir_decoder_get_result : forall b sz ps, in_s64 sz = true -> in_s64 ps = true ->
  ps <= 9223372036854775800 ->
  run helpers_ir tie_fuel "decoder_get_result"%string [cursor_val b sz ps] =
  ROk (Some (get_result (mkCur b sz ps)), [cursor_val b sz ps]).
Proof. intros b sz ps Hsz Hps Hp. get_result_tac sz ps. Qed.

(** ** init *)

Ltac init_tac n :=
  unfold run, init; step;
  destruct (in_s64 (8 * s64 (u64 n))) eqn:R; step;
  rewrite ?(s64_id _ R); reflexivity.

Theorem ir_encoder_init : forall b0 s0 p0 b n,
  run helpers_ir tie_fuel "encoder_init"%string [cursor_val b0 s0 p0; bytes_val b; VInt n] =
  match init b n with
  | COk s => ROk (None, [cursor_val (buf s) (size s) (pos s); bytes_val b; VInt n])
  | COob => RFail FOob | CUb => RFail FUb end.
Proof. intros b0 s0 p0 b n. init_tac n. Qed.

Theorem ir_decoder_init : forall b0 s0 p0 b n,
  run helpers_ir tie_fuel "decoder_init"%string [cursor_val b0 s0 p0; bytes_val b; VInt n] =
  match init b n with
  | COk s => ROk (None, [cursor_val (buf s) (size s) (pos s); bytes_val b; VInt n])
  | COob => RFail FOob | CUb => RFail FUb end.
Proof. intros b0 s0 p0 b n. init_tac n. Qed.

(* ------------------------------------------------------------------ *)
(** * Byte objects: [vget]/[vset] on [bytes_val] are [rd]/[wr] *)

Lemma list_set_map (b : list Z) n x : list_set (map VInt b) n (VInt x) = map VInt (upd b n x).
Proof. revert n; induction b; intros [|n]; cbn; auto. now rewrite IHb. Qed.

Lemma vget_bytes b i :
  vget (bytes_val b) [SelI i] =
  match rd b i with COk x => ROk (VInt x) | COob => RFail FOob | CUb => RFail FUb end.
Proof.
  unfold bytes_val, rd, len. cbn [vget]. rewrite map_length.
  destruct ((0 <=? i) && (i <? Z.of_nat (length b))); [|reflexivity].
  rewrite nth_error_map. destruct (nth_error b (Z.to_nat i)); reflexivity.
Qed.

Lemma vset_bytes b i x :
  vset (bytes_val b) [SelI i] (VInt x) =
  match wr b i x with COk b' => ROk (bytes_val b') | COob => RFail FOob | CUb => RFail FUb end.
Proof.
  unfold bytes_val, wr, len. cbn [vset]. rewrite map_length.
  destruct ((0 <=? i) && (i <? Z.of_nat (length b))) eqn:E; [|reflexivity].
  rewrite nth_error_map. destruct (nth_error b (Z.to_nat i)) eqn:E2.
  - cbn [option_map rbind]. now rewrite list_set_map.
  - apply nth_error_None in E2. lia.
Qed.

Ltac symex2 := cbn -[Z.add Z.sub Z.mul Z.leb Z.ltb Z.geb Z.opp Z.eqb conv in_range Z.modulo Z.pow
                    truth u64 s64 u8 in_s64 in_s32 Z.quot Z.rem Z.div Z.shiftl Z.shiftr Z.land Z.lor rd wr].

(** the same facts in the shape [symex2] leaves *)
Lemma vget_bytes_cbn b i :
  ltac:(let t := eval cbn -[Z.leb Z.ltb Z.to_nat Z.of_nat] in (vget (bytes_val b) [SelI i]) in
        exact (t = match rd b i with COk x => ROk (VInt x) | COob => RFail FOob | CUb => RFail FUb end)).
Proof. exact (vget_bytes b i). Qed.

Lemma vset_bytes_cbn b i x :
  ltac:(let t := eval cbn -[Z.leb Z.ltb Z.to_nat Z.of_nat] in (vset (bytes_val b) [SelI i] (VInt x)) in
        exact (t = match wr b i x with COk b' => ROk (bytes_val b') | COob => RFail FOob | CUb => RFail FUb end)).
Proof. exact (vset_bytes b i x). Qed.

Ltac norm2 :=
  repeat match goal with
  | |- context [s64 ?z] => is_zconst z; fold1 (s64 z)
  | |- context [u64 ?z] => is_zconst z; fold1 (u64 z)
  | |- context [u8 ?z] => is_zconst z; fold1 (u8 z)
  | |- context [Z.ltb ?a ?b] => is_zconst a; is_zconst b; fold1 (Z.ltb a b)
  | |- context [Z.leb ?a ?b] => is_zconst a; is_zconst b; fold1 (Z.leb a b)
  end; norm.
Ltac step2 := symex2; norm2.

Lemma conv_I32_id v : in_range I32 v = true -> conv I32 v = v.
Proof.
  unfold in_range, conv. cbn [ity_signed ity_bits ity_min ity_max].
  change (2 ^ (32 - 1)) with 2147483648. change (2 ^ 32) with 4294967296. intros H. lia.
Qed.

Lemma rem8_facts p : 0 <= p ->
  in_s64 (7 - Z.rem p 8) = true /\ ((7 - Z.rem p 8 <? 0) || (32 <=? 7 - Z.rem p 8)) = false.
Proof.
  intros H. rewrite Z.rem_mod_nonneg by lia. unfold in_s64. split; lia.
Qed.

Ltac bit_tail b1 ps v Q8 S7 SH :=
  step2; rewrite Q8; step2; rewrite vget_bytes_cbn;
  destruct (rd b1 (ps ÷ 8)) as [old| |] eqn:Rd; [|step2; reflexivity|step2; reflexivity];
  step2; rewrite Q8; step2; rewrite S7; step2; rewrite SH; step2;
  destruct (v <? 0) eqn:V; [step2; reflexivity|]; step2;
  destruct (in_s32 (Z.shiftl v (7 - Z.rem ps 8))) eqn:SHL; [|step2; reflexivity];
  step2; rewrite Q8; step2; rewrite vset_bytes_cbn;
  destruct (wr b1 (ps ÷ 8) (u8 (Z.lor old (u8 (Z.shiftl v (7 - Z.rem ps 8)))))) as [b2| |] eqn:W2;
  step2; reflexivity.

Theorem ir_encoder_append_bit : forall b sz ps v,
  in_s64 sz = true -> in_s64 ps = true -> in_range I32 v = true ->
  run helpers_ir tie_fuel "encoder_append_bit"%string [cursor_val b sz ps; VInt v] =
  match append_bit (mkCur b sz ps) v with
  | COk s' => ROk (None, [cursor_val (buf s') (size s') (pos s'); VInt v])
  | COob => RFail FOob | CUb => RFail FUb end.
Proof.
  intros b sz ps v Hsz Hps Hv. unfold run, append_bit, encoder_alloc, alloc_gen.
  pose proof (quot8_in_s64 _ Hps) as Q8.
  step2. rewrite (conv_I32_id v Hv).
  destruct (in_s64 (ps + 1)) eqn:R; [|step2; reflexivity].
  step2.
  destruct (ps + 1 <=? sz) eqn:L.
  - step2. rewrite R. step2. rewrite !(s64_id ps Hps), ?(s64_id _ R).
    destruct (ps <? 0) eqn:P.
    + step2. reflexivity.
    + destruct (rem8_facts ps ltac:(lia)) as (S7 & SH).
      step2. rewrite Q8. step2.
      destruct (Z.rem ps 8 =? 0) eqn:A.
      * rewrite Q8. step2. rewrite vset_bytes_cbn.
        destruct (wr b (ps ÷ 8) 0) as [b1| |] eqn:W; [|step2; reflexivity|step2; reflexivity].
        bit_tail b1 ps v Q8 S7 SH.
      * bit_tail b ps v Q8 S7 SH.
  - step2. unfold abort. cbn [size]. rewrite Z.geb_leb.
    destruct (0 <=? sz) eqn:G; step2; rewrite ?(s64_id sz), ?(s64_id ps) by auto; reflexivity.
Qed.

Lemma conv_I32_land1 x : conv I32 (Z.land x 1) = Z.land x 1.
Proof.
  apply conv_I32_id. change 1 with (Z.ones 1). rewrite Z.land_ones by lia.
  change (2 ^ 1) with 2. unfold in_range. cbn [ity_signed ity_bits ity_min ity_max].
  change (2 ^ (32 - 1)) with 2147483648. lia.
Qed.

Theorem ir_decoder_read_bit : forall b sz ps,
  in_s64 sz = true -> in_s64 ps = true ->
  run helpers_ir tie_fuel "decoder_read_bit"%string [cursor_val b sz ps] =
  match read_bit (mkCur b sz ps) with
  | COk (s', x) => ROk (Some x, [cursor_val (buf s') (size s') (pos s')])
  | COob => RFail FOob | CUb => RFail FUb end.
Proof.
  intros b sz ps Hsz Hps. unfold run, read_bit, decoder_free, alloc_gen.
  pose proof (quot8_in_s64 _ Hps) as Q8.
  step2.
  destruct (in_s64 (ps + 1)) eqn:R; [|step2; reflexivity].
  step2.
  destruct (ps + 1 <=? sz) eqn:L.
  - step2. rewrite R. step2. rewrite !(s64_id ps Hps), ?(s64_id _ R). rewrite Z.geb_leb.
    destruct (0 <=? ps) eqn:P.
    + destruct (rem8_facts ps ltac:(lia)) as (S7 & SH).
      step2. rewrite Q8. step2. rewrite vget_bytes_cbn.
      destruct (rd b (ps ÷ 8)) as [x| |] eqn:Rd; [|step2; reflexivity|step2; reflexivity].
      step2. rewrite Q8. step2. rewrite S7. step2. rewrite SH. step2.
      rewrite !conv_I32_land1. reflexivity.
    + step2. reflexivity.
  - step2. unfold abort, EOUTOFDATA. cbn [size]. rewrite !Z.geb_leb.
    destruct (0 <=? sz) eqn:G; step2; rewrite ?(s64_id sz), ?(s64_id ps) by auto; reflexivity.
Qed.

(* ================================================================== *)
(** * Compositional layer: any fuel, any caller *)

Definition fn_of (f : string) : func :=
  match lookup f helpers_ir with Some fn => fn | None => mkFunc [] [] [] None end.

Lemma resolve_PVar prog m e x : (1 <= m)%nat -> resolve prog m e (PVar x) = ROk (e, (x, [])).
Proof. intros H. destruct m; [lia|reflexivity]. Qed.

(** what encoder_alloc(self_p, 1) returns *)
Definition bit_p (s : cur) : Z := match encoder_alloc s 1 with COk (_, p) => p | _ => 0 end.

Definition body_fuel : nat := 40.

Lemma body_append_bit m b sz ps v : in_s64 sz = true -> in_s64 ps = true ->
  exec_list helpers_ir (body_fuel + m)
    [("self_p", cursor_val b sz ps); ("value", VInt v); ("pos", VUndef)]%string
    (f_body (fn_of "encoder_append_bit")) =
  match append_bit (mkCur b sz ps) v with
  | COk s' => ROk ([("self_p", cur_val s'); ("value", VInt v); ("pos", VInt (bit_p (mkCur b sz ps)))]%string,
                   if bit_p (mkCur b sz ps) <? 0 then FReturn None else FNormal)
  | COob => RFail FOob | CUb => RFail FUb end.
Proof.
  intros Hsz Hps. unfold bit_p, cur_val, append_bit, encoder_alloc, alloc_gen.
  pose proof (quot8_in_s64 _ Hps) as Q8.
  step2.
  destruct (in_s64 (ps + 1)) eqn:R; [|step2; reflexivity].
  step2.
  destruct (ps + 1 <=? sz) eqn:L.
  - step2. rewrite R. step2. rewrite !(s64_id ps Hps), ?(s64_id _ R).
    destruct (ps <? 0) eqn:P.
    + step2. reflexivity.
    + destruct (rem8_facts ps ltac:(lia)) as (S7 & SH).
      step2. rewrite Q8. step2.
      destruct (Z.rem ps 8 =? 0) eqn:A.
      * rewrite Q8. step2. rewrite vset_bytes_cbn.
        destruct (wr b (ps ÷ 8) 0) as [b1| |] eqn:W; [|step2; reflexivity|step2; reflexivity].
        bit_tail b1 ps v Q8 S7 SH.
      * bit_tail b ps v Q8 S7 SH.
  - step2. unfold abort. cbn [size]. rewrite Z.geb_leb.
    destruct (0 <=? sz) eqn:G; step2; rewrite ?(s64_id sz), ?(s64_id ps) by auto; reflexivity.
Qed.

(** ** One-step unfoldings of the interpreter (the fuel below stays folded) *)

Definition call_body (prog : program) (n' : nat) (e : env) (f : string) (args : list arg)
  : res (env * option Z) :=
  match lookup f prog with
  | None => RFail (FStuck ("unknown function " +++ f))
  | Some fn =>
    let fix bind (e0 : env) (ps : list (string * pmode)) (as_ : list arg)
             (frame : env) (outs : list (string * (string * list sel) * bool))
             {struct ps} : res (env * env * list (string * (string * list sel) * bool)) :=
      match ps, as_ with
      | [], [] => ROk (e0, frame, outs)
      | (x, PByVal t) :: ps', AVal t' a :: as' =>
        let^ (e1, z) := eval prog n' e0 a in
        bind e1 ps' as' (frame ++ [(x, VInt (conv t z))]) outs
      | (x, PByRef) :: ps', ARef p :: as' =>
        let^ (e1, xs) := resolve prog n' e0 p in
        let^ v := env_get e1 (fst xs) (snd xs) in
        bind e1 ps' as' (frame ++ [(x, v)]) (outs ++ [(x, xs, false)])
      | (x, PByRefScalar) :: ps', ARefScalar p :: as' =>
        let^ (e1, xs) := resolve prog n' e0 p in
        let^ v := env_get e1 (fst xs) (snd xs) in
        bind e1 ps' as' (frame ++ [(x, VArr [v])]) (outs ++ [(x, xs, true)])
      | (x, PByRef) :: ps', ARefScalar p :: as' =>
        let^ (e1, xs) := resolve prog n' e0 p in
        let^ v := env_get e1 (fst xs) (snd xs) in
        bind e1 ps' as' (frame ++ [(x, VArr [v])]) (outs ++ [(x, xs, true)])
      | _, _ => RFail (FStuck ("arguments of " +++ f))
      end in
    let^ (e1, frame, outs) := bind e (f_params fn) args [] [] in
    let^ (frame', fl) := exec_list prog n' (frame ++ f_locals fn) (f_body fn) in
    let fix copy_out (e0 : env) (os : list (string * (string * list sel) * bool)) {struct os} : res env :=
      match os with
      | [] => ROk e0
      | (x, xs, scalar) :: os' =>
        match lookup x frame' with
        | None => RFail (FStuck "copy-out")
        | Some v =>
          let^ w := (if scalar then vget v [SelI 0] else ROk v) in
          let^ e1 := env_set e0 (fst xs) (snd xs) w in
          copy_out e1 os'
        end
      end in
    let^ e2 := copy_out e1 outs in
    match fl, f_ret fn with
    | FReturn (Some z), Some t => ROk (e2, Some (conv t z))
    | FReturn None, None | FNormal, None => ROk (e2, None)
    | FNormal, Some _ => RFail FUb
    | _, _ => RFail (FStuck ("return of " +++ f))
    end
  end.

Lemma call_S prog n e f args : call prog (S n) e f args = call_body prog n e f args.
Proof. reflexivity. Qed.

Lemma exec_list_cons prog n e s r :
  exec_list prog (S n) e (s :: r) =
  let^ (e1, fl) := exec prog n e s in
  match fl with FNormal => exec_list prog n e1 r | _ => ROk (e1, fl) end.
Proof. reflexivity. Qed.

Lemma exec_list_nil prog n e : exec_list prog (S n) e [] = ROk (e, FNormal).
Proof. reflexivity. Qed.

Lemma exec_SExpr prog n e a :
  exec prog (S n) e (SExpr a) = let^ (e1, _) := eval prog n e a in ROk (e1, FNormal).
Proof. reflexivity. Qed.

Lemma eval_ECall prog n e f args :
  eval prog (S n) e (ECall f args) =
  let^ (e1, r) := call prog n e f args in
  match r with Some z => ROk (e1, z) | None => ROk (e1, 0) end.
Proof. reflexivity. Qed.

(** the loop of [SFor], named *)
Section ForLoop.
  Context (prog : program) (n' : nat) (c : expr) (step body : list stmt).
  Fixpoint for_loop (k : nat) (e0 : env) {struct k} : res (env * flow) :=
    match k with
    | O => RFail FFuel
    | S k' =>
      let^ (e2, z) := eval prog n' e0 c in
      if z =? 0 then ROk (e2, FNormal)
      else
        let^ (e3, fl1) := exec_list prog n' e2 body in
        match fl1 with
        | FNormal =>
          let^ (e4, fl2) := exec_list prog n' e3 step in
          match fl2 with FNormal => for_loop k' e4 | _ => RFail (FStuck "flow in for step") end
        | FBreak => ROk (e3, FNormal)
        | FReturn v => ROk (e3, FReturn v)
        end
    end.
End ForLoop.

Lemma exec_SFor prog n e init c step body :
  exec prog (S n) e (SFor init c step body) =
  let^ (e1, fl) := exec_list prog n e init in
  match fl with
  | FNormal => for_loop prog n c step body n e1
  | _ => RFail (FStuck "flow in for init")
  end.
Proof. reflexivity. Qed.

Ltac wcbn := cbn [rbind fst snd app lookup update String.eqb Ascii.eqb Bool.eqb andb vget vset as_int
                  f_params f_locals f_body f_ret].

Lemma call_append_bit m e x a z b sz ps :
  lookup x e = Some (cursor_val b sz ps) -> in_s64 sz = true -> in_s64 ps = true ->
  eval helpers_ir (body_fuel + m) e a = ROk (e, z) ->
  call helpers_ir (S (body_fuel + m)) e "encoder_append_bit" [ARef (PVar x); AVal I32 a] =
  match append_bit (mkCur b sz ps) (conv I32 z) with
  | COk s' => match update x (cur_val s') e with
              | Some e' => ROk (e', None) | None => RFail (FStuck "update") end
  | COob => RFail FOob | CUb => RFail FUb end.
Proof.
  intros Hx Hsz Hps Ha.
  pose proof (body_append_bit m b sz ps (conv I32 z) Hsz Hps) as HB.
  remember (body_fuel + m)%nat as M eqn:EM.
  assert (HM : (1 <= M)%nat) by (subst M; unfold body_fuel; lia).
  rewrite call_S. unfold call_body.
  change (lookup "encoder_append_bit" helpers_ir) with (Some (fn_of "encoder_append_bit")).
  cbv iota beta.
  change (f_params (fn_of "encoder_append_bit")) with [("self_p", PByRef); ("value", PByVal I32)]%string.
  change (f_locals (fn_of "encoder_append_bit")) with [("pos", VUndef)]%string.
  change (f_ret (fn_of "encoder_append_bit")) with (@None ity).
  wcbn. rewrite (resolve_PVar _ M e x HM). wcbn.
  unfold env_get at 1. rewrite Hx. wcbn. rewrite Ha. wcbn.
  rewrite HB.
  destruct (append_bit {| buf := b; size := sz; pos := ps |} (conv I32 z)) as [s'| |]; [|reflexivity|reflexivity].
  wcbn. unfold env_set. rewrite Hx. wcbn.
  destruct (update x (cur_val s') e); wcbn;
    destruct (bit_p {| buf := b; size := sz; pos := ps |} <? 0); reflexivity.
Qed.

Lemma call_append_bit_fail m e x a fl b sz ps :
  lookup x e = Some (cursor_val b sz ps) ->
  eval helpers_ir (body_fuel + m) e a = RFail fl ->
  call helpers_ir (S (body_fuel + m)) e "encoder_append_bit" [ARef (PVar x); AVal I32 a] = RFail fl.
Proof.
  intros Hx Ha.
  remember (body_fuel + m)%nat as M eqn:EM.
  assert (HM : (1 <= M)%nat) by (subst M; unfold body_fuel; lia).
  rewrite call_S. unfold call_body.
  change (lookup "encoder_append_bit" helpers_ir) with (Some (fn_of "encoder_append_bit")).
  cbv iota beta.
  change (f_params (fn_of "encoder_append_bit")) with [("self_p", PByRef); ("value", PByVal I32)]%string.
  wcbn. rewrite (resolve_PVar _ M e x HM). wcbn.
  unfold env_get at 1. rewrite Hx. wcbn. rewrite Ha. reflexivity.
Qed.

(* ------------------------------------------------------------------ *)
(** ** encoder_append_non_negative_binary_integer *)

Lemma append_bit_s64 s v s' : append_bit s v = COk s' ->
  in_s64 (size s) = true -> in_s64 (pos s) = true ->
  in_s64 (size s') = true /\ in_s64 (pos s') = true.
Proof.
  unfold append_bit, encoder_alloc, alloc_gen. intros H Hs Hp.
  destruct (negb (in_s64 (pos s + s64 (u64 1)))) eqn:R; [discriminate|].
  apply negb_false_iff in R.
  destruct (pos s + s64 (u64 1) <=? size s) eqn:L; cbn [cbind] in H.
  - destruct (pos s <? 0); [inversion H; subst; cbn; auto|].
    destruct (Z.rem (pos s) 8 =? 0).
    + cbn [buf] in H. destruct (wr (buf s) (pos s ÷ 8) 0) as [b1| |]; cbn [cbind] in H; try discriminate.
      destruct (rd b1 (pos s ÷ 8)); cbn [cbind] in H; try discriminate.
      destruct ((v <? 0) || negb (in_s32 (Z.shiftl v (7 - Z.rem (pos s) 8)))); try discriminate.
      destruct (wr b1 (pos s ÷ 8) _); cbn [cbind] in H; try discriminate.
      inversion H; subst; cbn; auto.
    + cbn [buf cbind] in H.
      destruct (rd (buf s) (pos s ÷ 8)); cbn [cbind] in H; try discriminate.
      destruct ((v <? 0) || negb (in_s32 (Z.shiftl v (7 - Z.rem (pos s) 8)))); try discriminate.
      destruct (wr (buf s) (pos s ÷ 8) _); cbn [cbind] in H; try discriminate.
      inversion H; subst; cbn; auto.
  - change (- ENOMEM <? 0) with true in H. cbv iota in H. inversion H; subst.
    unfold abort. destruct (size s >=? 0); cbn; auto.
Qed.

Definition nnbi_bit : expr :=
  EBin OAnd U64 (EBin OShr U64 (ERead (PVar "value"))
     (EBin OSub U64 (EBin OSub U64 (ERead (PVar "size")) (ERead (PVar "i"))) (ECast U64 (EConst 1))))
     (ECast U64 (EConst 1)).
Definition nnbi_c : expr := EBin OLt U64 (ERead (PVar "i")) (ERead (PVar "size")).
Definition nnbi_step : list stmt :=
  [SAssign (PVar "i") U64 (EBin OAdd U64 (ERead (PVar "i")) (ECast U64 (EConst 1)))].
Definition nnbi_body : list stmt :=
  [SExpr (ECall "encoder_append_bit" [ARef (PVar "self_p"); AVal I32 nnbi_bit])].

Lemma nnbi_body_eq :
  f_body (fn_of "encoder_append_non_negative_binary_integer") =
  [SFor [SAssign (PVar "i") U64 (EConst 0)] nnbi_c nnbi_step nnbi_body].
Proof. reflexivity. Qed.

Definition nn_env (b : list Z) (sz ps val n i : Z) : env :=
  [("self_p", cursor_val b sz ps); ("value", VInt val); ("size", VInt n); ("i", VInt i)]%string.

Definition loop_fuel (m : nat) : nat := S (S (S (S (body_fuel + m)))).

Lemma u64_id z : 0 <= z < 18446744073709551616 -> u64 z = z.
Proof. apply u64_small. Qed.

Lemma nnbi_frag_c m b sz ps val n i :
  eval helpers_ir (loop_fuel m) (nn_env b sz ps val n i) nnbi_c =
  ROk (nn_env b sz ps val n i, truth (i <? n)).
Proof. unfold loop_fuel, body_fuel. symex. reflexivity. Qed.

Lemma nnbi_frag_step m b sz ps val n i : 0 <= i < 18446744073709551615 ->
  exec_list helpers_ir (loop_fuel m) (nn_env b sz ps val n i) nnbi_step =
  ROk (nn_env b sz ps val n (i + 1), FNormal).
Proof.
  intros H. unfold loop_fuel, body_fuel. step2. rewrite !(u64_id (i + 1)) by lia. reflexivity.
Qed.

Lemma nnbi_frag_bit m b sz ps val n i : 0 <= i < n -> n < 18446744073709551616 ->
  eval helpers_ir (body_fuel + m) (nn_env b sz ps val n i) nnbi_bit =
  if (n - i - 1 <? 0) || (64 <=? n - i - 1) then RFail FUb
  else ROk (nn_env b sz ps val n i, Z.land (Z.shiftr val (n - i - 1)) 1).
Proof.
  intros Hi Hn. unfold body_fuel. step2.
  rewrite (u64_id (n - i)) by lia. rewrite (u64_id (n - i - 1)) by lia.
  destruct ((n - i - 1 <? 0) || (64 <=? n - i - 1)); step2; reflexivity.
Qed.

Lemma nnbi_loop m val n : 0 <= n < 18446744073709551616 ->
  forall j b sz ps i k, in_s64 sz = true -> in_s64 ps = true -> 0 <= i -> i + Z.of_nat j = n ->
  (j < k)%nat ->
  for_loop helpers_ir (loop_fuel m) nnbi_c nnbi_step nnbi_body k (nn_env b sz ps val n i) =
  match append_nnbi_loop j (mkCur b sz ps) val n i with
  | COk s' => ROk (nn_env (buf s') (size s') (pos s') val n n, FNormal)
  | COob => RFail FOob | CUb => RFail FUb end.
Proof.
  intros Hn. induction j as [|j IH]; intros b sz ps i k Hsz Hps Hi Hj Hk.
  - destruct k as [|k]; [lia|]. cbn [for_loop append_nnbi_loop].
    rewrite nnbi_frag_c. wcbn.
    replace (i <? n) with false by lia. cbn [truth Z.eqb buf size pos].
    replace i with n by lia. reflexivity.
  - destruct k as [|k]; [lia|]. cbn [for_loop append_nnbi_loop].
    rewrite nnbi_frag_c. wcbn.
    replace (i <? n) with true by lia. cbn [truth Z.eqb].
    unfold nnbi_body at 1. unfold loop_fuel at 1.
    rewrite exec_list_cons, exec_SExpr, eval_ECall.
    pose proof (nnbi_frag_bit m b sz ps val n i ltac:(lia) ltac:(lia)) as Hbit.
    destruct ((n - i - 1 <? 0) || (64 <=? n - i - 1)) eqn:SH.
    + rewrite (call_append_bit_fail m (nn_env b sz ps val n i) "self_p" nnbi_bit FUb b sz ps eq_refl Hbit). reflexivity.
    + rewrite (call_append_bit m (nn_env b sz ps val n i) "self_p" nnbi_bit _ b sz ps eq_refl Hsz Hps Hbit).
      rewrite conv_I32_land1.
      destruct (append_bit {| buf := b; size := sz; pos := ps |} (Z.land (Z.shiftr val (n - i - 1)) 1))
        as [s1| |] eqn:AB; [|reflexivity|reflexivity].
      destruct (append_bit_s64 _ _ _ AB Hsz Hps) as (Hsz1 & Hps1).
      destruct s1 as [b1 sz1 ps1]. cbn [buf size pos] in *.
      unfold nn_env at 1. wcbn. rewrite exec_list_nil. wcbn.
      change [("self_p"%string, cur_val {| buf := b1; size := sz1; pos := ps1 |}); ("value"%string, VInt val); ("size"%string, VInt n); ("i"%string, VInt i)]
        with (nn_env b1 sz1 ps1 val n i).
      rewrite (nnbi_frag_step m) by lia. wcbn.
      rewrite (IH b1 sz1 ps1 (i + 1) k) by (auto; lia). cbn [cbind]. reflexivity.
Qed.

Lemma eval_read_var prog n e x z : lookup x e = Some (VInt z) ->
  eval prog (S (S n)) e (ERead (PVar x)) = ROk (e, z).
Proof. intros H. cbn. unfold env_get. rewrite H. reflexivity. Qed.

Lemma nnbi_frag_init m b sz ps val n :
  exec_list helpers_ir (loop_fuel m)
    [("self_p", cursor_val b sz ps); ("value", VInt val); ("size", VInt n); ("i", VUndef)]%string
    [SAssign (PVar "i") U64 (EConst 0)] = ROk (nn_env b sz ps val n 0, FNormal).
Proof. unfold loop_fuel, body_fuel. step2. reflexivity. Qed.

Ltac rcbn := cbn [rbind fst snd app lookup update String.eqb Ascii.eqb Bool.eqb andb vget vset as_int
                  f_params f_locals f_body f_ret map combine length Nat.eqb negb String.append env_set env_get].

Theorem ir_encoder_append_nnbi_fuel : forall m b sz ps v n,
  in_s64 sz = true -> in_s64 ps = true -> 0 <= n < 18446744073709551616 ->
  (Z.to_nat n < loop_fuel m)%nat ->
  run helpers_ir (S (S (S (loop_fuel m)))) "encoder_append_non_negative_binary_integer"%string
      [cursor_val b sz ps; VInt v; VInt n] =
  match append_nnbi (mkCur b sz ps) v n with
  | COk s' => ROk (None, [cursor_val (buf s') (size s') (pos s'); VInt v; VInt n])
  | COob => RFail FOob | CUb => RFail FUb end.
Proof.
  intros m b sz ps v n Hsz Hps Hn Hk. unfold run, append_nnbi.
  change (lookup "encoder_append_non_negative_binary_integer" helpers_ir)
    with (Some (fn_of "encoder_append_non_negative_binary_integer")).
  cbv iota beta.
  change (f_params (fn_of "encoder_append_non_negative_binary_integer"))
    with [("self_p", PByRef); ("value", PByVal U64); ("size", PByVal U64)]%string.
  rcbn. rewrite call_S. unfold call_body.
  change (lookup "encoder_append_non_negative_binary_integer" helpers_ir)
    with (Some (fn_of "encoder_append_non_negative_binary_integer")).
  cbv iota beta.
  change (f_params (fn_of "encoder_append_non_negative_binary_integer"))
    with [("self_p", PByRef); ("value", PByVal U64); ("size", PByVal U64)]%string.
  change (f_locals (fn_of "encoder_append_non_negative_binary_integer")) with [("i", VUndef)]%string.
  change (f_ret (fn_of "encoder_append_non_negative_binary_integer")) with (@None ity).
  rewrite nnbi_body_eq.
  rcbn. rewrite resolve_PVar by lia. rcbn.
  erewrite (eval_read_var _ _ _ "$value") by reflexivity. rcbn.
  erewrite (eval_read_var _ _ _ "$size") by reflexivity. rcbn.
  rewrite exec_list_cons, exec_SFor.
  change (conv U64 v) with (u64 v). change (conv U64 n) with (u64 n). rewrite (u64_id n) by lia.
  rewrite nnbi_frag_init. rcbn.
  rewrite (nnbi_loop m (u64 v) n Hn (Z.to_nat n) b sz ps 0 (loop_fuel m)) by (auto; lia).
  destruct (append_nnbi_loop (Z.to_nat n) {| buf := b; size := sz; pos := ps |} (u64 v) n 0)
    as [s'| |]; [|reflexivity|reflexivity].
  rcbn. rewrite exec_list_nil. unfold nn_env. rcbn. reflexivity.
Qed.

Theorem ir_encoder_append_nnbi : forall fuel b sz ps v n,
  in_s64 sz = true -> in_s64 ps = true -> 0 <= n < 18446744073709551616 ->
  (Z.to_nat n + 48 <= fuel)%nat ->
  run helpers_ir fuel "encoder_append_non_negative_binary_integer"%string
      [cursor_val b sz ps; VInt v; VInt n] =
  match append_nnbi (mkCur b sz ps) v n with
  | COk s' => ROk (None, [cursor_val (buf s') (size s') (pos s'); VInt v; VInt n])
  | COob => RFail FOob | CUb => RFail FUb end.
Proof.
  intros fuel b sz ps v n Hsz Hps Hn Hf.
  replace fuel with (S (S (S (loop_fuel (fuel - 47))))) by (unfold loop_fuel, body_fuel; lia).
  apply ir_encoder_append_nnbi_fuel; auto. unfold loop_fuel, body_fuel. lia.
Qed.

(* ------------------------------------------------------------------ *)
(** ** decoder_read_bit, compositional *)

Definition rbit_p (s : cur) : Z := match decoder_free s 1 with COk (_, p) => p | _ => 0 end.

Lemma body_read_bit m b sz ps : in_s64 sz = true -> in_s64 ps = true ->
  exec_list helpers_ir (body_fuel + m)
    [("self_p", cursor_val b sz ps); ("pos", VUndef); ("value", VUndef)]%string
    (f_body (fn_of "decoder_read_bit")) =
  match read_bit (mkCur b sz ps) with
  | COk (s', x) => ROk ([("self_p", cur_val s'); ("pos", VInt (rbit_p (mkCur b sz ps))); ("value", VInt x)]%string,
                        FReturn (Some x))
  | COob => RFail FOob | CUb => RFail FUb end.
Proof.
  intros Hsz Hps. unfold rbit_p, cur_val, read_bit, decoder_free, alloc_gen.
  pose proof (quot8_in_s64 _ Hps) as Q8.
  step2.
  destruct (in_s64 (ps + 1)) eqn:R; [|step2; reflexivity].
  step2.
  destruct (ps + 1 <=? sz) eqn:L.
  - step2. rewrite R. step2. rewrite !(s64_id ps Hps), ?(s64_id _ R). rewrite Z.geb_leb.
    destruct (0 <=? ps) eqn:P.
    + destruct (rem8_facts ps ltac:(lia)) as (S7 & SH).
      step2. rewrite Q8. step2. rewrite vget_bytes_cbn.
      destruct (rd b (ps ÷ 8)) as [x| |] eqn:Rd; [|step2; reflexivity|step2; reflexivity].
      step2. rewrite Q8. step2. rewrite S7. step2. rewrite SH. step2.
      rewrite !conv_I32_land1. reflexivity.
    + step2. reflexivity.
  - step2. unfold abort, EOUTOFDATA. cbn [size]. rewrite !Z.geb_leb.
    destruct (0 <=? sz) eqn:G; step2; rewrite ?(s64_id sz), ?(s64_id ps) by auto; reflexivity.
Qed.

Lemma land_1_range x : 0 <= Z.land x 1 <= 1.
Proof.
  replace (Z.land x 1) with (x mod 2); [lia|].
  change 1 with (Z.ones 1). rewrite Z.land_ones by lia. reflexivity.
Qed.

Lemma read_bit_val s s' x : read_bit s = COk (s', x) -> 0 <= x <= 1.
Proof.
  unfold read_bit. destruct (decoder_free s 1) as [[s1 p]| |]; cbn [cbind]; try discriminate.
  destruct (p >=? 0).
  - destruct (rd (buf s1) (p ÷ 8)); cbn [cbind]; try discriminate.
    intros H; inversion H; subst. apply land_1_range.
  - intros H; inversion H; subst. lia.
Qed.

Lemma read_bit_s64 s s' x : read_bit s = COk (s', x) ->
  in_s64 (size s) = true -> in_s64 (pos s) = true ->
  in_s64 (size s') = true /\ in_s64 (pos s') = true /\ buf s' = buf s.
Proof.
  unfold read_bit, decoder_free, alloc_gen. intros H Hs Hp.
  destruct (negb (in_s64 (pos s + s64 (u64 1)))) eqn:R; [discriminate|].
  apply negb_false_iff in R.
  destruct (pos s + s64 (u64 1) <=? size s) eqn:L; cbn [cbind] in H.
  - destruct (pos s >=? 0).
    + cbn [buf] in H. destruct (rd (buf s) (pos s ÷ 8)); cbn [cbind] in H; try discriminate.
      inversion H; subst; cbn; auto.
    + inversion H; subst; cbn; auto.
  - change (- EOUTOFDATA >=? 0) with false in H. cbv iota in H. inversion H; subst.
    unfold abort. destruct (size s >=? 0); cbn; auto.
Qed.

Lemma call_read_bit m e x b sz ps :
  lookup x e = Some (cursor_val b sz ps) -> in_s64 sz = true -> in_s64 ps = true ->
  call helpers_ir (S (body_fuel + m)) e "decoder_read_bit" [ARef (PVar x)] =
  match read_bit (mkCur b sz ps) with
  | COk (s', v) => match update x (cur_val s') e with
                   | Some e' => ROk (e', Some v) | None => RFail (FStuck "update") end
  | COob => RFail FOob | CUb => RFail FUb end.
Proof.
  intros Hx Hsz Hps.
  pose proof (body_read_bit m b sz ps Hsz Hps) as HB.
  remember (body_fuel + m)%nat as M eqn:EM.
  assert (HM : (1 <= M)%nat) by (subst M; unfold body_fuel; lia).
  rewrite call_S. unfold call_body.
  change (lookup "decoder_read_bit" helpers_ir) with (Some (fn_of "decoder_read_bit")).
  cbv iota beta.
  change (f_params (fn_of "decoder_read_bit")) with [("self_p", PByRef)]%string.
  change (f_locals (fn_of "decoder_read_bit")) with [("pos", VUndef); ("value", VUndef)]%string.
  change (f_ret (fn_of "decoder_read_bit")) with (Some I32).
  wcbn. rewrite (resolve_PVar _ M e x HM). wcbn.
  unfold env_get at 1. rewrite Hx. wcbn.
  rewrite HB.
  destruct (read_bit {| buf := b; size := sz; pos := ps |}) as [[s' v]| |] eqn:RB; [|reflexivity|reflexivity].
  wcbn. unfold env_set. rewrite Hx. wcbn.
  destruct (update x (cur_val s') e); wcbn; [|reflexivity].
  rewrite conv_I32_id; [reflexivity|].
  pose proof (read_bit_val _ _ _ RB). unfold in_range. cbn [ity_signed ity_bits ity_min ity_max].
  change (2 ^ (32 - 1)) with 2147483648. lia.
Qed.

(* ------------------------------------------------------------------ *)
(** ** decoder_read_non_negative_binary_integer *)

Lemma exec_SAssign prog n e p t a :
  exec prog (S n) e (SAssign p t a) =
  let^ (e1, z) := eval prog n e a in
  let^ (e2, xs) := resolve prog n e1 p in
  let^ e3 := env_set e2 (fst xs) (snd xs) (VInt (conv t z)) in
  ROk (e3, FNormal).
Proof. reflexivity. Qed.

Lemma eval_EBin prog n e op t a b :
  eval prog (S n) e (EBin op t a b) =
  let^ (e1, za) := eval prog n e a in
  let^ (e2, zb) := eval prog n e1 b in
  let^ r := eval_bin op t za zb in ROk (e2, r).
Proof. reflexivity. Qed.

Lemma eval_ECast prog n e t a :
  eval prog (S n) e (ECast t a) = let^ (e1, z) := eval prog n e a in ROk (e1, conv t z).
Proof. reflexivity. Qed.

Lemma u64_u64 z : u64 (u64 z) = u64 z.
Proof. unfold u64. apply Z.mod_mod. lia. Qed.

Lemma u64_lor x y : u64 (Z.lor (u64 x) (u64 y)) = Z.lor (u64 x) (u64 y).
Proof.
  unfold u64. change 18446744073709551616 with (2 ^ 64).
  rewrite <- !Z.land_ones by lia. rewrite Z.land_lor_distr_l.
  rewrite <- !Z.land_assoc, Z.land_diag. reflexivity.
Qed.

Definition rn_s1 : stmt := SAssign (PVar "value") U64 (EBin OShl U64 (ERead (PVar "value")) (EConst 1)).
Definition rn_s2 : stmt :=
  SAssign (PVar "value") U64
    (EBin OOr U64 (ERead (PVar "value")) (ECast U64 (ECall "decoder_read_bit" [ARef (PVar "self_p")]))).
Definition rn_body : list stmt := [rn_s1; rn_s2].

Lemma rn_body_eq :
  f_body (fn_of "decoder_read_non_negative_binary_integer") =
  [SAssign (PVar "value") U64 (EConst 0);
   SFor [SAssign (PVar "i") U64 (EConst 0)] nnbi_c nnbi_step rn_body;
   SReturn (Some (ERead (PVar "value")))].
Proof. reflexivity. Qed.

Definition rn_env (b : list Z) (sz ps n i acc : Z) : env :=
  [("self_p", cursor_val b sz ps); ("size", VInt n); ("i", VInt i); ("value", VInt acc)]%string.

Definition rloop_fuel (m : nat) : nat := S (S (S (S (S (S (S (body_fuel + m))))))).

Lemma rn_frag_c m b sz ps n i acc :
  eval helpers_ir (rloop_fuel m) (rn_env b sz ps n i acc) nnbi_c =
  ROk (rn_env b sz ps n i acc, truth (i <? n)).
Proof. unfold rloop_fuel, body_fuel. symex. reflexivity. Qed.

Lemma rn_frag_step m b sz ps n i acc : 0 <= i < 18446744073709551615 ->
  exec_list helpers_ir (rloop_fuel m) (rn_env b sz ps n i acc) nnbi_step =
  ROk (rn_env b sz ps n (i + 1) acc, FNormal).
Proof.
  intros H. unfold rloop_fuel, body_fuel. step2. rewrite !(u64_id (i + 1)) by lia. reflexivity.
Qed.

Lemma rn_frag_s1 m b sz ps n i acc :
  exec helpers_ir (S (S (S (S (S (S (body_fuel + m))))))) (rn_env b sz ps n i acc) rn_s1 =
  ROk (rn_env b sz ps n i (u64 (Z.shiftl acc 1)), FNormal).
Proof. unfold body_fuel. step2. step2. rewrite u64_u64. reflexivity. Qed.

Lemma rn_loop m n : 0 <= n < 18446744073709551616 ->
  forall j b sz ps i acc k, in_s64 sz = true -> in_s64 ps = true -> 0 <= i -> i + Z.of_nat j = n ->
  (j < k)%nat ->
  for_loop helpers_ir (rloop_fuel m) nnbi_c nnbi_step rn_body k (rn_env b sz ps n i acc) =
  match read_nnbi_loop j (mkCur b sz ps) acc with
  | COk (s', r) => ROk (rn_env (buf s') (size s') (pos s') n n r, FNormal)
  | COob => RFail FOob | CUb => RFail FUb end.
Proof.
  intros Hn. induction j as [|j IH]; intros b sz ps i acc k Hsz Hps Hi Hj Hk.
  - destruct k as [|k]; [lia|]. cbn [for_loop read_nnbi_loop].
    rewrite rn_frag_c. wcbn.
    replace (i <? n) with false by lia. cbn [truth Z.eqb buf size pos].
    replace i with n by lia. reflexivity.
  - destruct k as [|k]; [lia|]. cbn [for_loop read_nnbi_loop].
    rewrite rn_frag_c. wcbn.
    replace (i <? n) with true by lia. cbn [truth Z.eqb].
    unfold rn_body at 1. unfold rloop_fuel at 1.
    rewrite exec_list_cons, rn_frag_s1. wcbn.
    rewrite exec_list_cons. unfold rn_s2 at 1.
    rewrite exec_SAssign, eval_EBin.
    erewrite (eval_read_var _ _ _ "value") by reflexivity. wcbn.
    rewrite eval_ECast, eval_ECall.
    rewrite (call_read_bit m (rn_env b sz ps n i (u64 (Z.shiftl acc 1))) "self_p" b sz ps eq_refl Hsz Hps).
    destruct (read_bit {| buf := b; size := sz; pos := ps |}) as [[s1 bit]| |] eqn:RB;
      [|reflexivity|reflexivity].
    destruct (read_bit_s64 _ _ _ RB Hsz Hps) as (Hsz1 & Hps1 & _).
    destruct s1 as [b1 sz1 ps1]. cbn [buf size pos] in *.
    unfold rn_env at 1. wcbn. cbn [eval_bin]. wcbn.
    rewrite resolve_PVar by (unfold body_fuel; lia). unfold env_set. wcbn.
    rewrite exec_list_nil. wcbn.
    change (conv U64 ?z) with (u64 z). rewrite u64_lor.
    change [("self_p"%string, cur_val {| buf := b1; size := sz1; pos := ps1 |}); ("size"%string, VInt n);
            ("i"%string, VInt i); ("value"%string, VInt (Z.lor (u64 (Z.shiftl acc 1)) (u64 bit)))]
      with (rn_env b1 sz1 ps1 n i (Z.lor (u64 (Z.shiftl acc 1)) (u64 bit))).
    rewrite (rn_frag_step m) by lia. wcbn.
    rewrite (IH b1 sz1 ps1 (i + 1) _ k) by (auto; lia). cbn [cbind]. reflexivity.
Qed.

Lemma read_nnbi_loop_u64 : forall j s acc s' r, u64 acc = acc ->
  read_nnbi_loop j s acc = COk (s', r) -> u64 r = r.
Proof.
  induction j as [|j IH]; intros s acc s' r Ha H; cbn [read_nnbi_loop] in H.
  - inversion H; subst; auto.
  - destruct (read_bit s) as [[s1 bit]| |]; cbn [cbind] in H; try discriminate.
    eapply IH; [|exact H]. apply u64_lor.
Qed.

Lemma rn_frag_init0 m b sz ps n :
  exec helpers_ir (S (S (rloop_fuel m)))
    [("self_p", cursor_val b sz ps); ("size", VInt n); ("i", VUndef); ("value", VUndef)]%string
    (SAssign (PVar "value") U64 (EConst 0)) =
  ROk ([("self_p", cursor_val b sz ps); ("size", VInt n); ("i", VUndef); ("value", VInt 0)]%string, FNormal).
Proof. unfold rloop_fuel, body_fuel. step2. reflexivity. Qed.

Lemma rn_frag_init m b sz ps n :
  exec_list helpers_ir (rloop_fuel m)
    [("self_p", cursor_val b sz ps); ("size", VInt n); ("i", VUndef); ("value", VInt 0)]%string
    [SAssign (PVar "i") U64 (EConst 0)] = ROk (rn_env b sz ps n 0 0, FNormal).
Proof. unfold rloop_fuel, body_fuel. step2. reflexivity. Qed.

Lemma rn_frag_ret m b sz ps n i r :
  exec helpers_ir (rloop_fuel m) (rn_env b sz ps n i r) (SReturn (Some (ERead (PVar "value")))) =
  ROk (rn_env b sz ps n i r, FReturn (Some r)).
Proof. unfold rloop_fuel, body_fuel. step2. reflexivity. Qed.

Theorem ir_decoder_read_nnbi_fuel : forall m b sz ps n,
  in_s64 sz = true -> in_s64 ps = true -> 0 <= n < 18446744073709551616 ->
  (Z.to_nat n < rloop_fuel m)%nat ->
  run helpers_ir (S (S (S (S (rloop_fuel m))))) "decoder_read_non_negative_binary_integer"%string
      [cursor_val b sz ps; VInt n] =
  match read_nnbi (mkCur b sz ps) n with
  | COk (s', r) => ROk (Some r, [cursor_val (buf s') (size s') (pos s'); VInt n])
  | COob => RFail FOob | CUb => RFail FUb end.
Proof.
  intros m b sz ps n Hsz Hps Hn Hk. unfold run, read_nnbi.
  change (lookup "decoder_read_non_negative_binary_integer" helpers_ir)
    with (Some (fn_of "decoder_read_non_negative_binary_integer")).
  cbv iota beta.
  change (f_params (fn_of "decoder_read_non_negative_binary_integer"))
    with [("self_p", PByRef); ("size", PByVal U64)]%string.
  rcbn. rewrite call_S. unfold call_body.
  change (lookup "decoder_read_non_negative_binary_integer" helpers_ir)
    with (Some (fn_of "decoder_read_non_negative_binary_integer")).
  cbv iota beta.
  change (f_params (fn_of "decoder_read_non_negative_binary_integer"))
    with [("self_p", PByRef); ("size", PByVal U64)]%string.
  change (f_locals (fn_of "decoder_read_non_negative_binary_integer"))
    with [("i", VUndef); ("value", VUndef)]%string.
  change (f_ret (fn_of "decoder_read_non_negative_binary_integer")) with (Some U64).
  rewrite rn_body_eq.
  rcbn. rewrite resolve_PVar by lia. rcbn.
  erewrite (eval_read_var _ _ _ "$size") by reflexivity. rcbn.
  change (conv U64 n) with (u64 n). rewrite (u64_id n) by lia.
  rewrite exec_list_cons, rn_frag_init0. rcbn.
  rewrite exec_list_cons, exec_SFor, rn_frag_init. rcbn.
  rewrite (rn_loop m n Hn (Z.to_nat n) b sz ps 0 0 (rloop_fuel m)) by (auto; lia).
  destruct (read_nnbi_loop (Z.to_nat n) {| buf := b; size := sz; pos := ps |} 0)
    as [[s' r]| |] eqn:RL; [|reflexivity|reflexivity].
  rcbn. rewrite exec_list_cons, rn_frag_ret. unfold rn_env. rcbn.
  change (conv U64 r) with (u64 r). rewrite (read_nnbi_loop_u64 _ _ _ _ _ eq_refl RL). reflexivity.
Qed.

Theorem ir_decoder_read_nnbi : forall fuel b sz ps n,
  in_s64 sz = true -> in_s64 ps = true -> 0 <= n < 18446744073709551616 ->
  (Z.to_nat n + 52 <= fuel)%nat ->
  run helpers_ir fuel "decoder_read_non_negative_binary_integer"%string [cursor_val b sz ps; VInt n] =
  match read_nnbi (mkCur b sz ps) n with
  | COk (s', r) => ROk (Some r, [cursor_val (buf s') (size s') (pos s'); VInt n])
  | COob => RFail FOob | CUb => RFail FUb end.
Proof.
  intros fuel b sz ps n Hsz Hps Hn Hf.
  replace fuel with (S (S (S (S (rloop_fuel (fuel - 51)))))) by (unfold rloop_fuel, body_fuel; lia).
  apply ir_decoder_read_nnbi_fuel; auto. unfold rloop_fuel, body_fuel. lia.
Qed.

(* ------------------------------------------------------------------ *)
(** ** encoder_append_bool, decoder_read_bool *)

Lemma exec_SReturn prog n e a :
  exec prog (S n) e (SReturn (Some a)) = let^ (e1, z) := eval prog n e a in ROk (e1, FReturn (Some z)).
Proof. reflexivity. Qed.

Definition bool_arg : expr := ECond (ERead (PVar "value")) (EConst 1) (EConst 0).

Lemma bool_frag m b sz ps z :
  eval helpers_ir (body_fuel + m) [("self_p", cursor_val b sz ps); ("value", VInt z)]%string bool_arg =
  ROk ([("self_p", cursor_val b sz ps); ("value", VInt z)]%string, if negb (z =? 0) then 1 else 0).
Proof. unfold body_fuel. step2. destruct (z =? 0); reflexivity. Qed.

Theorem ir_encoder_append_bool_fuel : forall m b sz ps z,
  in_s64 sz = true -> in_s64 ps = true ->
  run helpers_ir (S (loop_fuel m)) "encoder_append_bool"%string [cursor_val b sz ps; VInt z] =
  match append_bool (mkCur b sz ps) (negb (z =? 0)) with
  | COk s' => ROk (None, [cursor_val (buf s') (size s') (pos s'); VInt z])
  | COob => RFail FOob | CUb => RFail FUb end.
Proof.
  intros m b sz ps z Hsz Hps. unfold run, append_bool.
  change (lookup "encoder_append_bool" helpers_ir) with (Some (fn_of "encoder_append_bool")).
  cbv iota beta.
  change (f_params (fn_of "encoder_append_bool")) with [("self_p", PByRef); ("value", PByVal IBool)]%string.
  rcbn. rewrite call_S. unfold call_body.
  change (lookup "encoder_append_bool" helpers_ir) with (Some (fn_of "encoder_append_bool")).
  cbv iota beta.
  change (f_params (fn_of "encoder_append_bool")) with [("self_p", PByRef); ("value", PByVal IBool)]%string.
  change (f_locals (fn_of "encoder_append_bool")) with (@nil (string * val)).
  change (f_ret (fn_of "encoder_append_bool")) with (@None ity).
  change (f_body (fn_of "encoder_append_bool"))
    with [SExpr (ECall "encoder_append_bit" [ARef (PVar "self_p"); AVal I32 bool_arg])].
  rcbn. rewrite resolve_PVar by (unfold loop_fuel; lia). rcbn.
  unfold loop_fuel at 1. erewrite (eval_read_var _ _ _ "$value") by reflexivity. rcbn.
  unfold loop_fuel.
  rewrite exec_list_cons, exec_SExpr, eval_ECall.
  set (zb := conv IBool z).
  rewrite (call_append_bit m [("self_p", cursor_val b sz ps); ("value", VInt zb)]%string "self_p" bool_arg _
             b sz ps eq_refl Hsz Hps (bool_frag m b sz ps zb)).
  assert (E : conv I32 (if negb (zb =? 0) then 1 else 0) = if negb (z =? 0) then 1 else 0).
  { unfold zb, conv. destruct (z =? 0); reflexivity. }
  rewrite E.
  destruct (append_bit {| buf := b; size := sz; pos := ps |} (if negb (z =? 0) then 1 else 0))
    as [s'| |]; [|reflexivity|reflexivity].
  rcbn. rewrite exec_list_nil. rcbn. reflexivity.
Qed.

Theorem ir_decoder_read_bool_fuel : forall m b sz ps,
  in_s64 sz = true -> in_s64 ps = true ->
  run helpers_ir (S (S (S (S (S (S (body_fuel + m))))))) "decoder_read_bool"%string [cursor_val b sz ps] =
  match read_bool (mkCur b sz ps) with
  | COk (s', v) => ROk (Some (if v then 1 else 0), [cursor_val (buf s') (size s') (pos s')])
  | COob => RFail FOob | CUb => RFail FUb end.
Proof.
  intros m b sz ps Hsz Hps. unfold run, read_bool.
  change (lookup "decoder_read_bool" helpers_ir) with (Some (fn_of "decoder_read_bool")).
  cbv iota beta.
  change (f_params (fn_of "decoder_read_bool")) with [("self_p", PByRef)]%string.
  rcbn. rewrite call_S. unfold call_body.
  change (lookup "decoder_read_bool" helpers_ir) with (Some (fn_of "decoder_read_bool")).
  cbv iota beta.
  change (f_params (fn_of "decoder_read_bool")) with [("self_p", PByRef)]%string.
  change (f_locals (fn_of "decoder_read_bool")) with (@nil (string * val)).
  change (f_ret (fn_of "decoder_read_bool")) with (Some IBool).
  change (f_body (fn_of "decoder_read_bool"))
    with [SReturn (Some (EBin ONe I32 (ECall "decoder_read_bit" [ARef (PVar "self_p")]) (EConst 0)))].
  rcbn. rewrite resolve_PVar by lia. rcbn.
  rewrite exec_list_cons, exec_SReturn, eval_EBin, eval_ECall.
  rewrite (call_read_bit m [("self_p", cursor_val b sz ps)]%string "self_p" b sz ps eq_refl Hsz Hps).
  destruct (read_bit {| buf := b; size := sz; pos := ps |}) as [[s' v]| |]; [|reflexivity|reflexivity].
  rcbn. cbn [eval eval_bin]. rcbn. unfold truth, conv.
  cbn [cbind]. destruct (v =? 0); reflexivity.
Qed.

(* ------------------------------------------------------------------ *)
(** ** encoder_alloc / decoder_free, compositional *)

Ltac body_alloc_tac sz ps n Hsz Hps :=
  unfold cur_val, encoder_alloc, decoder_free, alloc_gen;
  step2; rewrite ?u64_u64;
  destruct (in_s64 (ps + s64 (u64 n))) eqn:R; [|step2; reflexivity];
  step2;
  destruct (ps + s64 (u64 n) <=? sz) eqn:L;
  [ step2; rewrite R; step2; rewrite ?(s64_id ps), ?(s64_id _ R) by auto; reflexivity
  | step2; unfold abort; cbn [size]; rewrite Z.geb_leb;
    destruct (0 <=? sz) eqn:G; step2; rewrite ?(s64_id sz), ?(s64_id ps) by auto; reflexivity ].

Lemma body_encoder_alloc m b sz ps n : in_s64 sz = true -> in_s64 ps = true ->
  exec_list helpers_ir (body_fuel + m)
    [("self_p", cursor_val b sz ps); ("size", VInt (u64 n)); ("pos", VUndef)]%string
    (f_body (fn_of "encoder_alloc")) =
  match encoder_alloc (mkCur b sz ps) n with
  | COk (s', p) => ROk ([("self_p", cur_val s'); ("size", VInt (u64 n)); ("pos", VInt p)]%string,
                        FReturn (Some p))
  | COob => RFail FOob | CUb => RFail FUb end.
Proof. intros Hsz Hps. body_alloc_tac sz ps n Hsz Hps. Qed.

Lemma body_decoder_free m b sz ps n : in_s64 sz = true -> in_s64 ps = true ->
  exec_list helpers_ir (body_fuel + m)
    [("self_p", cursor_val b sz ps); ("size", VInt (u64 n)); ("pos", VUndef)]%string
    (f_body (fn_of "decoder_free")) =
  match decoder_free (mkCur b sz ps) n with
  | COk (s', p) => ROk ([("self_p", cur_val s'); ("size", VInt (u64 n)); ("pos", VInt p)]%string,
                        FReturn (Some p))
  | COob => RFail FOob | CUb => RFail FUb end.
Proof. intros Hsz Hps. body_alloc_tac sz ps n Hsz Hps. Qed.

Lemma alloc_gen_facts err s n s' p : in_s64 err = true -> in_s64 (- err) = true ->
  alloc_gen err s n = COk (s', p) ->
  in_s64 (size s) = true -> in_s64 (pos s) = true ->
  in_s64 (size s') = true /\ in_s64 (pos s') = true /\ in_s64 p = true /\ buf s' = buf s.
Proof.
  unfold alloc_gen. intros He He' H Hs Hp.
  destruct (negb (in_s64 (pos s + s64 (u64 n)))) eqn:R; [discriminate|].
  apply negb_false_iff in R.
  destruct (pos s + s64 (u64 n) <=? size s); inversion H; subst; cbn [buf size pos]; auto.
  unfold abort. destruct (size s >=? 0); cbn [buf size pos]; auto.
Qed.

Ltac call_alloc_tac f HB Hx Ha :=
  match goal with |- context [call helpers_ir (S ?M0) ?e _ [ARef (PVar ?x); _]] =>
  let M := fresh "M" in let EM := fresh "EM" in let HM := fresh "HM" in
  remember M0 as M eqn:EM;
  assert (HM : (1 <= M)%nat) by (subst M; unfold body_fuel; lia);
  rewrite call_S; unfold call_body;
  change (lookup f helpers_ir) with (Some (fn_of f));
  cbv iota beta;
  change (f_params (fn_of f)) with [("self_p", PByRef); ("size", PByVal U64)]%string;
  change (f_locals (fn_of f)) with [("pos", VUndef)]%string;
  change (f_ret (fn_of f)) with (Some I64);
  wcbn; rewrite (resolve_PVar _ M e x HM); wcbn;
  unfold env_get at 1; rewrite Hx; wcbn; rewrite Ha; wcbn;
  change (conv U64 ?z) with (u64 z);
  rewrite HB
  end.

Lemma call_encoder_alloc m e x a z b sz ps :
  lookup x e = Some (cursor_val b sz ps) -> in_s64 sz = true -> in_s64 ps = true ->
  eval helpers_ir (body_fuel + m) e a = ROk (e, z) ->
  call helpers_ir (S (body_fuel + m)) e "encoder_alloc" [ARef (PVar x); AVal U64 a] =
  match encoder_alloc (mkCur b sz ps) z with
  | COk (s', p) => match update x (cur_val s') e with
                   | Some e' => ROk (e', Some p) | None => RFail (FStuck "update") end
  | COob => RFail FOob | CUb => RFail FUb end.
Proof.
  intros Hx Hsz Hps Ha.
  pose proof (body_encoder_alloc m b sz ps z Hsz Hps) as HB.
  call_alloc_tac "encoder_alloc"%string HB Hx Ha.
  destruct (encoder_alloc {| buf := b; size := sz; pos := ps |} z) as [[s' p]| |] eqn:AL;
    [|reflexivity|reflexivity].
  wcbn. unfold env_set. rewrite Hx. wcbn.
  destruct (update x (cur_val s') e); wcbn; [|reflexivity].
  destruct (alloc_gen_facts ENOMEM _ _ _ _ eq_refl eq_refl AL Hsz Hps) as (_ & _ & Hp & _).
  change (conv I64 p) with (s64 p). now rewrite (s64_id p Hp).
Qed.

Lemma call_decoder_free m e x a z b sz ps :
  lookup x e = Some (cursor_val b sz ps) -> in_s64 sz = true -> in_s64 ps = true ->
  eval helpers_ir (body_fuel + m) e a = ROk (e, z) ->
  call helpers_ir (S (body_fuel + m)) e "decoder_free" [ARef (PVar x); AVal U64 a] =
  match decoder_free (mkCur b sz ps) z with
  | COk (s', p) => match update x (cur_val s') e with
                   | Some e' => ROk (e', Some p) | None => RFail (FStuck "update") end
  | COob => RFail FOob | CUb => RFail FUb end.
Proof.
  intros Hx Hsz Hps Ha.
  pose proof (body_decoder_free m b sz ps z Hsz Hps) as HB.
  call_alloc_tac "decoder_free"%string HB Hx Ha.
  destruct (decoder_free {| buf := b; size := sz; pos := ps |} z) as [[s' p]| |] eqn:AL;
    [|reflexivity|reflexivity].
  wcbn. unfold env_set. rewrite Hx. wcbn.
  destruct (update x (cur_val s') e); wcbn; [|reflexivity].
  destruct (alloc_gen_facts EOUTOFDATA _ _ _ _ eq_refl eq_refl AL Hsz Hps) as (_ & _ & Hp & _).
  change (conv I64 p) with (s64 p). now rewrite (s64_id p Hp).
Qed.

(** the same, for any fuel above [body_fuel] *)
Lemma fuel_ge M : (body_fuel <= M)%nat -> M = (body_fuel + (M - body_fuel))%nat.
Proof. lia. Qed.

Lemma call_encoder_alloc_ge M e x a z b sz ps : (body_fuel <= M)%nat ->
  lookup x e = Some (cursor_val b sz ps) -> in_s64 sz = true -> in_s64 ps = true ->
  eval helpers_ir M e a = ROk (e, z) ->
  call helpers_ir (S M) e "encoder_alloc" [ARef (PVar x); AVal U64 a] =
  match encoder_alloc (mkCur b sz ps) z with
  | COk (s', p) => match update x (cur_val s') e with
                   | Some e' => ROk (e', Some p) | None => RFail (FStuck "update") end
  | COob => RFail FOob | CUb => RFail FUb end.
Proof. intros H. rewrite (fuel_ge M H). apply call_encoder_alloc. Qed.

Lemma call_decoder_free_ge M e x a z b sz ps : (body_fuel <= M)%nat ->
  lookup x e = Some (cursor_val b sz ps) -> in_s64 sz = true -> in_s64 ps = true ->
  eval helpers_ir M e a = ROk (e, z) ->
  call helpers_ir (S M) e "decoder_free" [ARef (PVar x); AVal U64 a] =
  match decoder_free (mkCur b sz ps) z with
  | COk (s', p) => match update x (cur_val s') e with
                   | Some e' => ROk (e', Some p) | None => RFail (FStuck "update") end
  | COob => RFail FOob | CUb => RFail FUb end.
Proof. intros H. rewrite (fuel_ge M H). apply call_decoder_free. Qed.

Ltac fuel_split M H :=
  rewrite (fuel_ge M H); generalize (M - body_fuel)%nat; clear H; intro; unfold body_fuel.

(* ------------------------------------------------------------------ *)
(** ** memcpy *)

Lemma rd_nat l k : rd l (Z.of_nat k) = match nth_error l k with Some x => COk x | None => COob end.
Proof.
  unfold rd, len. rewrite Nat2Z.id.
  destruct ((0 <=? Z.of_nat k) && (Z.of_nat k <? Z.of_nat (length l))) eqn:E.
  - reflexivity.
  - destruct (nth_error l k) eqn:E2; [|reflexivity].
    assert (k < length l)%nat by (apply nth_error_Some; congruence). exfalso. lia.
Qed.

Lemma wr_nat l k v : wr l (Z.of_nat k) v = if (k <? length l)%nat then COk (upd l k v) else COob.
Proof.
  unfold wr, len. rewrite Nat2Z.id.
  destruct ((0 <=? Z.of_nat k) && (Z.of_nat k <? Z.of_nat (length l))) eqn:E;
  destruct (k <? length l)%nat eqn:E2; try reflexivity; exfalso; lia.
Qed.

Lemma copy_elems_memcpy src : forall k dst d s i,
  copy_elems (map VInt dst) (d + i) (map VInt src) (s + i) k =
  match memcpy_loop k dst (Z.of_nat d) src (Z.of_nat s) (Z.of_nat i) with
  | COk r => ROk (map VInt r) | COob => RFail FOob | CUb => RFail FUb end.
Proof.
  induction k as [|k IH]; intros dst d s i; [reflexivity|].
  cbn [copy_elems memcpy_loop].
  rewrite <- !Nat2Z.inj_add, rd_nat, nth_error_map.
  destruct (nth_error src (s + i)) as [x|]; cbn [option_map cbind]; [|reflexivity].
  rewrite wr_nat, map_length.
  destruct (d + i <? length dst)%nat; cbn [cbind]; [|reflexivity].
  rewrite list_set_map.
  replace (S (d + i)) with (d + S i)%nat by lia. replace (S (s + i)) with (s + S i)%nat by lia.
  replace (Z.of_nat i + 1) with (Z.of_nat (S i)) by lia. apply IH.
Qed.

Lemma copy_elems_memcpy0 dst d src n : 0 <= d -> 0 <= n ->
  copy_elems (map VInt dst) (Z.to_nat d) (map VInt src) (Z.to_nat 0) (Z.to_nat n) =
  match memcpy dst d src 0 n with
  | COk r => ROk (map VInt r) | COob => RFail FOob | CUb => RFail FUb end.
Proof.
  intros Hd Hn. unfold memcpy.
  pose proof (copy_elems_memcpy src (Z.to_nat n) dst (Z.to_nat d) 0 0) as H.
  rewrite !Nat.add_0_r in H. change (Z.to_nat 0) with 0%nat. rewrite H.
  rewrite Z2Nat.id by lia. reflexivity.
Qed.

(* ------------------------------------------------------------------ *)
(** ** encoder_append_bytes *)

Lemma exec_SIf prog n e c a b :
  exec prog (S n) e (SIf c a b) =
  let^ (e1, z) := eval prog n e c in
  if negb (z =? 0) then exec_list prog n e1 a else exec_list prog n e1 b.
Proof. reflexivity. Qed.

Definition ab_arg : expr := EBin OMul U64 (EConst 8) (ERead (PVar "size")).
Definition ab_s1 : stmt :=
  SAssign (PVar "pos") I64 (ECall "encoder_alloc" [ARef (PVar "self_p"); AVal U64 ab_arg]).
Definition ab_s2 : stmt := SIf (EBin OLt I64 (ERead (PVar "pos")) (EConst 0)) [SReturn None] [].
Definition ab_s3 : stmt :=
  SAssign (PVar "byte_pos") U64 (EBin ODiv U64 (ECast U64 (ERead (PVar "pos"))) (EConst 8)).
Definition ab_s4 : stmt :=
  SAssign (PVar "pos_in_byte") U64 (EBin ORem U64 (ECast U64 (ERead (PVar "pos"))) (EConst 8)).
Definition ab_c5 : expr := EBin OEq U64 (ERead (PVar "pos_in_byte")) (EConst 0).
Definition ab_memcpy : stmt :=
  SMemcpy (PField (PVar "self_p") "buf_p") (ERead (PVar "byte_pos")) (PVar "buf_p") (EConst 0)
          (ERead (PVar "size")).
Definition ab_idx : expr := EBin OAdd U64 (ERead (PVar "byte_pos")) (ERead (PVar "i")).
Definition ab_A : stmt :=
  SAssign (PIndex (PField (PVar "self_p") "buf_p") ab_idx) U8
    (EBin OOr I32 (ERead (PIndex (PField (PVar "self_p") "buf_p") ab_idx))
       (EBin OShr I32 (ERead (PIndex (PVar "buf_p") (ERead (PVar "i")))) (ERead (PVar "pos_in_byte")))).
Definition ab_B : stmt :=
  SAssign (PIndex (PField (PVar "self_p") "buf_p") (EBin OAdd U64 ab_idx (ECast U64 (EConst 1)))) U8
    (EBin OShl I32 (ERead (PIndex (PVar "buf_p") (ERead (PVar "i"))))
       (EBin OSub U64 (EConst 8) (ERead (PVar "pos_in_byte")))).
Definition ab_body : list stmt := [ab_A; ab_B].
Definition ab_for : stmt := SFor [SAssign (PVar "i") U64 (EConst 0)] nnbi_c nnbi_step ab_body.

Lemma ab_body_eq :
  f_body (fn_of "encoder_append_bytes") =
  [ab_s1; ab_s2; ab_s3; ab_s4; SIf ab_c5 [ab_memcpy] [ab_for]].
Proof. reflexivity. Qed.

Definition ab_env (c : val) (src : list Z) (n : Z) (vi vp vbp vpib : val) : env :=
  [("self_p", c); ("buf_p", bytes_val src); ("size", VInt n);
   ("i", vi); ("pos", vp); ("byte_pos", vbp); ("pos_in_byte", vpib)]%string.

Lemma ab_frag_arg M c src n vi vp vbp vpib : (body_fuel <= M)%nat ->
  eval helpers_ir M (ab_env c src n vi vp vbp vpib) ab_arg =
  ROk (ab_env c src n vi vp vbp vpib, u64 (8 * n)).
Proof. intros H. fuel_split M H. step2. reflexivity. Qed.

Lemma ab_frag_s2 M c src n vi p vbp vpib : (body_fuel <= M)%nat ->
  exec helpers_ir M (ab_env c src n vi (VInt p) vbp vpib) ab_s2 =
  ROk (ab_env c src n vi (VInt p) vbp vpib, if p <? 0 then FReturn None else FNormal).
Proof. intros H. fuel_split M H. step2. destruct (p <? 0); reflexivity. Qed.

Lemma ab_frag_s3 M c src n vi p vbp vpib : (body_fuel <= M)%nat -> 0 <= p -> in_s64 p = true ->
  exec helpers_ir M (ab_env c src n vi (VInt p) vbp vpib) ab_s3 =
  ROk (ab_env c src n vi (VInt p) (VInt (p ÷ 8)) vpib, FNormal).
Proof.
  intros H Hp Hs. fuel_split M H. step2. step2.
  assert (E : u64 p = p) by (apply u64_id; unfold in_s64 in Hs; lia). rewrite !E.
  assert (E2 : u64 (p ÷ 8) = p ÷ 8).
  { apply u64_id. rewrite Z.quot_div_nonneg by lia. unfold in_s64 in Hs. lia. }
  rewrite !E2. reflexivity.
Qed.

Lemma ab_frag_s4 M c src n vi p vbp vpib : (body_fuel <= M)%nat -> 0 <= p -> in_s64 p = true ->
  exec helpers_ir M (ab_env c src n vi (VInt p) vbp vpib) ab_s4 =
  ROk (ab_env c src n vi (VInt p) vbp (VInt (Z.rem p 8)), FNormal).
Proof.
  intros H Hp Hs. fuel_split M H. step2. step2.
  assert (E : u64 p = p) by (apply u64_id; unfold in_s64 in Hs; lia). rewrite !E.
  assert (E2 : u64 (Z.rem p 8) = Z.rem p 8).
  { apply u64_id. rewrite Z.rem_mod_nonneg by lia. lia. }
  rewrite !E2. reflexivity.
Qed.

Lemma ab_frag_c5 M c src n vi vp vbp pib : (body_fuel <= M)%nat ->
  eval helpers_ir M (ab_env c src n vi vp vbp (VInt pib)) ab_c5 =
  ROk (ab_env c src n vi vp vbp (VInt pib), truth (pib =? 0)).
Proof. intros H. fuel_split M H. step2. reflexivity. Qed.

Lemma copy_elems_memcpy1 dst d src n : 0 <= d -> 0 <= n ->
  copy_elems (map VInt dst) (Z.to_nat d) (map VInt src) 0 (Z.to_nat n) =
  match memcpy dst d src 0 n with
  | COk r => ROk (map VInt r) | COob => RFail FOob | CUb => RFail FUb end.
Proof. intros. now apply copy_elems_memcpy0. Qed.

Lemma ab_frag_memcpy M b sz ps src n vi vp bp vpib : (body_fuel <= M)%nat -> 0 <= bp -> 0 <= n ->
  exec helpers_ir M (ab_env (cursor_val b sz ps) src n vi vp (VInt bp) vpib) ab_memcpy =
  match memcpy b bp src 0 n with
  | COk b' => ROk (ab_env (cursor_val b' sz ps) src n vi vp (VInt bp) vpib, FNormal)
  | COob => RFail FOob | CUb => RFail FUb end.
Proof.
  intros H Hbp Hn. fuel_split M H. step2.
  replace (n <? 0) with false by lia. replace (bp <? 0) with false by lia. step2.
  rewrite copy_elems_memcpy1 by lia.
  destruct (memcpy b bp src 0 n); step2; reflexivity.
Qed.

Lemma ab_frag_init M c src n vi vp vbp vpib : (body_fuel <= M)%nat ->
  exec_list helpers_ir M (ab_env c src n vi vp vbp vpib) [SAssign (PVar "i") U64 (EConst 0)] =
  ROk (ab_env c src n (VInt 0) vp vbp vpib, FNormal).
Proof. intros H. fuel_split M H. step2. reflexivity. Qed.

Lemma ab_frag_c M c src n i vp vbp vpib : (body_fuel <= M)%nat ->
  eval helpers_ir M (ab_env c src n (VInt i) vp vbp vpib) nnbi_c =
  ROk (ab_env c src n (VInt i) vp vbp vpib, truth (i <? n)).
Proof. intros H. fuel_split M H. symex. reflexivity. Qed.

Lemma ab_frag_step M c src n i vp vbp vpib : (body_fuel <= M)%nat -> 0 <= i < 18446744073709551615 ->
  exec_list helpers_ir M (ab_env c src n (VInt i) vp vbp vpib) nnbi_step =
  ROk (ab_env c src n (VInt (i + 1)) vp vbp vpib, FNormal).
Proof.
  intros H Hi. fuel_split M H. step2. rewrite !(u64_id (i + 1)) by lia. reflexivity.
Qed.

Lemma rd_not_ub l i : rd l i <> CUb.
Proof.
  unfold rd. destruct ((0 <=? i) && (i <? len l)); [|discriminate].
  destruct (nth_error l (Z.to_nat i)); discriminate.
Qed.

Lemma rd_is_byte l i x : bytes_ok l -> rd l i = COk x -> is_byte x.
Proof.
  unfold rd. intros B. destruct ((0 <=? i) && (i <? len l)); [|discriminate].
  destruct (nth_error l (Z.to_nat i)) eqn:E; [|discriminate].
  intros H; inversion H; subst. apply nth_error_In in E. unfold bytes_ok in B.
  rewrite Forall_forall in B. auto.
Qed.

Lemma shl_byte_in_s32 x k : is_byte x -> 0 <= k <= 8 -> in_s32 (Z.shiftl x k) = true.
Proof.
  unfold is_byte, in_s32. intros Hx Hk. rewrite Z.shiftl_mul_pow2 by lia.
  assert (0 < 2 ^ k <= 2 ^ 8) by (split; [apply Z.pow_pos_nonneg; lia | apply Z.pow_le_mono_r; lia]).
  change (2 ^ 8) with 256 in *. nia.
Qed.

(** one iteration of the unaligned loop in the model *)
Definition ab_iter (b : list Z) (bp pib : Z) (src : list Z) (i : Z) : cres (list Z) :=
  let+ x := rd src i in
  let+ old := rd b (bp + i) in
  let+ b1 := wr b (bp + i) (u8 (Z.lor old (Z.shiftr x pib))) in
  wr b1 (bp + i + 1) (u8 (Z.shiftl x (8 - pib))).

Lemma ab_frag_body M b sz ps src n i vp bp pib : (body_fuel <= M)%nat -> bytes_ok src ->
  0 <= i < 1152921504606846976 -> 0 <= bp < 1152921504606846976 -> 0 < pib < 8 ->
  exec_list helpers_ir M (ab_env (cursor_val b sz ps) src n (VInt i) vp (VInt bp) (VInt pib)) ab_body =
  match ab_iter b bp pib src i with
  | COk b' => ROk (ab_env (cursor_val b' sz ps) src n (VInt i) vp (VInt bp) (VInt pib), FNormal)
  | COob => RFail FOob | CUb => RFail FUb end.
Proof.
  intros H Bs Hi Hbp Hpib. fuel_split M H. unfold ab_iter.
  step2. rewrite !(u64_id (bp + i)) by lia. rewrite vget_bytes_cbn.
  destruct (rd b (bp + i)) as [old| |] eqn:Rb.
  2:{ step2. destruct (rd src i) eqn:Rs; [reflexivity|reflexivity|destruct (rd_not_ub _ _ Rs)]. }
  2:{ destruct (rd_not_ub _ _ Rb). }
  step2. rewrite vget_bytes_cbn.
  destruct (rd src i) as [x| |] eqn:Rs; [|step2; reflexivity|destruct (rd_not_ub _ _ Rs)].
  pose proof (rd_is_byte _ _ _ Bs Rs) as Hx.
  step2. replace ((pib <? 0) || (32 <=? pib)) with false by lia. step2.
  rewrite !(u64_id (bp + i)) by lia. rewrite vset_bytes_cbn.
  destruct (wr b (bp + i) (u8 (Z.lor old (Z.shiftr x pib)))) as [b1| |] eqn:W1;
    [|step2; reflexivity|step2; reflexivity].
  step2. rewrite vget_bytes_cbn, Rs. step2.
  rewrite !(u64_id (8 - pib)) by lia.
  replace ((8 - pib <? 0) || (32 <=? 8 - pib)) with false by lia. step2.
  replace (x <? 0) with false by (unfold is_byte in Hx; lia). step2.
  rewrite (shl_byte_in_s32 x (8 - pib) Hx) by lia. step2.
  rewrite !(u64_id (bp + i)), !(u64_id (bp + i + 1)) by lia. rewrite vset_bytes_cbn.
  destruct (wr b1 (bp + i + 1) (u8 (Z.shiftl x (8 - pib)))) as [b2| |] eqn:W2; step2; reflexivity.
Qed.

Lemma append_bytes_loop_S j b bp pib src i :
  append_bytes_loop (S j) b bp pib src i =
  let+ b2 := ab_iter b bp pib src i in append_bytes_loop j b2 bp pib src (i + 1).
Proof.
  cbn [append_bytes_loop]. unfold ab_iter.
  destruct (rd src i); cbn [cbind]; auto.
  destruct (rd b (bp + i)); cbn [cbind]; auto.
  destruct (wr b (bp + i) _); cbn [cbind]; auto.
Qed.

Lemma ab_loop M src n vp bp pib sz ps : (body_fuel <= M)%nat -> bytes_ok src ->
  0 <= n < 1152921504606846976 -> 0 <= bp < 1152921504606846976 -> 0 < pib < 8 ->
  forall j b i k, 0 <= i -> i + Z.of_nat j = n -> (j < k)%nat ->
  for_loop helpers_ir M nnbi_c nnbi_step ab_body k
    (ab_env (cursor_val b sz ps) src n (VInt i) vp (VInt bp) (VInt pib)) =
  match append_bytes_loop j b bp pib src i with
  | COk b' => ROk (ab_env (cursor_val b' sz ps) src n (VInt n) vp (VInt bp) (VInt pib), FNormal)
  | COob => RFail FOob | CUb => RFail FUb end.
Proof.
  intros HM Bs Hn Hbp Hpib. induction j as [|j IH]; intros b i k Hi Hj Hk.
  - destruct k as [|k]; [lia|]. cbn [for_loop append_bytes_loop].
    rewrite ab_frag_c by auto. wcbn.
    replace (i <? n) with false by lia. cbn [truth Z.eqb].
    replace i with n by lia. reflexivity.
  - destruct k as [|k]; [lia|]. rewrite append_bytes_loop_S. cbn [for_loop].
    rewrite ab_frag_c by auto. wcbn.
    replace (i <? n) with true by lia. cbn [truth Z.eqb].
    rewrite ab_frag_body by (auto; lia).
    destruct (ab_iter b bp pib src i) as [b2| |]; [|reflexivity|reflexivity].
    wcbn. rewrite ab_frag_step by (auto; lia). wcbn.
    rewrite (IH b2 (i + 1) k) by lia. cbn [cbind]. reflexivity.
Qed.

Definition S8 (L : nat) : nat := S (S (S (S (S (S (S (S L))))))).

Lemma body_append_bytes L b sz ps src n : (body_fuel <= L)%nat ->
  in_s64 sz = true -> in_s64 ps = true -> bytes_ok src ->
  0 <= n < 1152921504606846976 -> (Z.to_nat n < L)%nat ->
  match append_bytes (mkCur b sz ps) src n with
  | COk s' => exists vi vp vbp vpib fl,
      exec_list helpers_ir (S8 L) (ab_env (cursor_val b sz ps) src n VUndef VUndef VUndef VUndef)
        (f_body (fn_of "encoder_append_bytes")) =
      ROk (ab_env (cur_val s') src n vi vp vbp vpib, fl) /\ (fl = FNormal \/ fl = FReturn None)
  | COob =>
      exec_list helpers_ir (S8 L) (ab_env (cursor_val b sz ps) src n VUndef VUndef VUndef VUndef)
        (f_body (fn_of "encoder_append_bytes")) = RFail FOob
  | CUb =>
      exec_list helpers_ir (S8 L) (ab_env (cursor_val b sz ps) src n VUndef VUndef VUndef VUndef)
        (f_body (fn_of "encoder_append_bytes")) = RFail FUb
  end.
Proof.
  intros HL Hsz Hps Bs Hn Hk.
  assert (E : exec_list helpers_ir (S8 L) (ab_env (cursor_val b sz ps) src n VUndef VUndef VUndef VUndef)
                (f_body (fn_of "encoder_append_bytes")) =
              match encoder_alloc (mkCur b sz ps) (u64 (8 * n)) with
              | COk (s1, p) =>
                let e1 := ab_env (cur_val s1) src n VUndef (VInt p) VUndef VUndef in
                if p <? 0 then ROk (e1, FReturn None)
                else
                  let e2 := ab_env (cur_val s1) src n VUndef (VInt p) (VInt (p ÷ 8)) (VInt (Z.rem p 8)) in
                  if Z.rem p 8 =? 0
                  then match memcpy (buf s1) (p ÷ 8) src 0 n with
                       | COk b' => ROk (ab_env (cursor_val b' (size s1) (pos s1)) src n VUndef (VInt p)
                                          (VInt (p ÷ 8)) (VInt (Z.rem p 8)), FNormal)
                       | COob => RFail FOob | CUb => RFail FUb end
                  else match append_bytes_loop (Z.to_nat n) (buf s1) (p ÷ 8) (Z.rem p 8) src 0 with
                       | COk b' => ROk (ab_env (cursor_val b' (size s1) (pos s1)) src n (VInt n) (VInt p)
                                          (VInt (p ÷ 8)) (VInt (Z.rem p 8)), FNormal)
                       | COob => RFail FOob | CUb => RFail FUb end
              | COob => RFail FOob | CUb => RFail FUb end).
  { rewrite ab_body_eq. unfold S8.
    rewrite exec_list_cons. unfold ab_s1 at 1. rewrite exec_SAssign, eval_ECall.
    assert (H4 : (body_fuel <= S (S (S (S L))))%nat) by lia.
    rewrite (call_encoder_alloc_ge (S (S (S (S L))))
               (ab_env (cursor_val b sz ps) src n VUndef VUndef VUndef VUndef)
               "self_p" ab_arg (u64 (8 * n)) b sz ps
               H4 eq_refl Hsz Hps (ab_frag_arg _ _ _ _ _ _ _ _ H4)).
    destruct (encoder_alloc {| buf := b; size := sz; pos := ps |} (u64 (8 * n))) as [[s1 p]| |] eqn:AL;
      [|reflexivity|reflexivity].
    destruct (alloc_gen_facts ENOMEM _ _ _ _ eq_refl eq_refl AL Hsz Hps) as (Hsz1 & Hps1 & Hp & Hb1).
    destruct s1 as [b1 sz1 ps1]. cbn [buf size pos] in *.
    unfold ab_env at 1. wcbn. rewrite resolve_PVar by lia. unfold env_set. wcbn.
    change (conv I64 p) with (s64 p). rewrite (s64_id p Hp).
    change [("self_p"%string, cur_val {| buf := b1; size := sz1; pos := ps1 |});
            ("buf_p"%string, bytes_val src); ("size"%string, VInt n); ("i"%string, VUndef);
            ("pos"%string, VInt p); ("byte_pos"%string, VUndef); ("pos_in_byte"%string, VUndef)]
      with (ab_env (cursor_val b1 sz1 ps1) src n VUndef (VInt p) VUndef VUndef).
    rewrite exec_list_cons, ab_frag_s2 by lia. wcbn. cbv zeta.
    destruct (p <? 0) eqn:P; [reflexivity|].
    rewrite exec_list_cons, ab_frag_s3 by (auto; lia). wcbn.
    rewrite exec_list_cons, ab_frag_s4 by (auto; lia). wcbn.
    rewrite exec_list_cons, exec_SIf, ab_frag_c5 by lia. wcbn.
    rewrite truth_test.
    assert (Hbp : 0 <= p ÷ 8 < 1152921504606846976).
    { rewrite Z.quot_div_nonneg by lia. unfold in_s64 in Hp. lia. }
    destruct (Z.rem p 8 =? 0) eqn:A.
    - rewrite exec_list_cons, ab_frag_memcpy by lia.
      destruct (memcpy b1 (p ÷ 8) src 0 n) as [b'| |]; [|reflexivity|reflexivity].
      wcbn. rewrite !exec_list_nil. reflexivity.
    - rewrite exec_list_cons. unfold ab_for at 1. rewrite exec_SFor, ab_frag_init by lia. wcbn.
      assert (Hpib : 0 < Z.rem p 8 < 8) by (rewrite Z.rem_mod_nonneg in * by lia; lia).
      rewrite (ab_loop L src n (VInt p) (p ÷ 8) (Z.rem p 8) sz1 ps1 HL Bs Hn Hbp Hpib
                 (Z.to_nat n) b1 0 L) by lia.
      destruct (append_bytes_loop (Z.to_nat n) b1 (p ÷ 8) (Z.rem p 8) src 0) as [b'| |];
        [|reflexivity|reflexivity].
      wcbn. rewrite !exec_list_nil. reflexivity. }
  unfold append_bytes. rewrite E. clear E.
  destruct (encoder_alloc {| buf := b; size := sz; pos := ps |} (u64 (8 * n))) as [[s1 p]| |];
    cbn [cbind]; [|reflexivity|reflexivity].
  cbv zeta. destruct (p <? 0).
  { do 5 eexists. split; [reflexivity|auto]. }
  destruct (Z.rem p 8 =? 0).
  - destruct (memcpy (buf s1) (p ÷ 8) src 0 n); cbn [cbind]; [|reflexivity|reflexivity].
    do 5 eexists. split; [reflexivity|auto].
  - destruct (append_bytes_loop (Z.to_nat n) (buf s1) (p ÷ 8) (Z.rem p 8) src 0); cbn [cbind];
      [|reflexivity|reflexivity].
    do 5 eexists. split; [reflexivity|auto].
Qed.

Lemma eval_read_var_ge prog M e x z : (2 <= M)%nat -> lookup x e = Some (VInt z) ->
  eval prog M e (ERead (PVar x)) = ROk (e, z).
Proof.
  intros H Hx. destruct M as [|[|M]]; try lia. now apply eval_read_var.
Qed.

Theorem ir_encoder_append_bytes_fuel : forall L b sz ps src n, (body_fuel <= L)%nat ->
  in_s64 sz = true -> in_s64 ps = true -> bytes_ok src ->
  0 <= n < 1152921504606846976 -> (Z.to_nat n < L)%nat ->
  run helpers_ir (S (S8 L)) "encoder_append_bytes"%string [cursor_val b sz ps; bytes_val src; VInt n] =
  match append_bytes (mkCur b sz ps) src n with
  | COk s' => ROk (None, [cursor_val (buf s') (size s') (pos s'); bytes_val src; VInt n])
  | COob => RFail FOob | CUb => RFail FUb end.
Proof.
  intros L b sz ps src n HL Hsz Hps Bs Hn Hk.
  pose proof (body_append_bytes L b sz ps src n HL Hsz Hps Bs Hn Hk) as HB.
  unfold run.
  change (lookup "encoder_append_bytes" helpers_ir) with (Some (fn_of "encoder_append_bytes")).
  cbv iota beta.
  change (f_params (fn_of "encoder_append_bytes"))
    with [("self_p", PByRef); ("buf_p", PByRef); ("size", PByVal U64)]%string.
  rcbn. rewrite call_S. unfold call_body.
  change (lookup "encoder_append_bytes" helpers_ir) with (Some (fn_of "encoder_append_bytes")).
  cbv iota beta.
  change (f_params (fn_of "encoder_append_bytes"))
    with [("self_p", PByRef); ("buf_p", PByRef); ("size", PByVal U64)]%string.
  change (f_locals (fn_of "encoder_append_bytes"))
    with [("i", VUndef); ("pos", VUndef); ("byte_pos", VUndef); ("pos_in_byte", VUndef)]%string.
  change (f_ret (fn_of "encoder_append_bytes")) with (@None ity).
  rcbn. rewrite resolve_PVar by (unfold S8; lia). rcbn.
  rewrite resolve_PVar by (unfold S8; lia). rcbn.
  erewrite (eval_read_var_ge _ _ _ "$size") by (unfold S8; try reflexivity; lia). rcbn.
  change (conv U64 n) with (u64 n). rewrite (u64_id n) by lia.
  change [("self_p"%string, cursor_val b sz ps); ("buf_p"%string, bytes_val src); ("size"%string, VInt n);
          ("i"%string, VUndef); ("pos"%string, VUndef); ("byte_pos"%string, VUndef);
          ("pos_in_byte"%string, VUndef)]
    with (ab_env (cursor_val b sz ps) src n VUndef VUndef VUndef VUndef).
  destruct (append_bytes {| buf := b; size := sz; pos := ps |} src n) as [s'| |].
  - destruct HB as (vi & vp & vbp & vpib & fl & -> & Hfl). unfold ab_env. rcbn.
    destruct Hfl as [-> | ->]; reflexivity.
  - rewrite HB. reflexivity.
  - rewrite HB. reflexivity.
Qed.

Theorem ir_encoder_append_bytes : forall fuel b sz ps src n,
  in_s64 sz = true -> in_s64 ps = true -> bytes_ok src ->
  0 <= n < 1152921504606846976 -> (Z.to_nat n + 50 <= fuel)%nat ->
  run helpers_ir fuel "encoder_append_bytes"%string [cursor_val b sz ps; bytes_val src; VInt n] =
  match append_bytes (mkCur b sz ps) src n with
  | COk s' => ROk (None, [cursor_val (buf s') (size s') (pos s'); bytes_val src; VInt n])
  | COob => RFail FOob | CUb => RFail FUb end.
Proof.
  intros fuel b sz ps src n Hsz Hps Bs Hn Hf.
  replace fuel with (S (S8 (fuel - 9))) by (unfold S8; lia).
  apply ir_encoder_append_bytes_fuel; auto; unfold body_fuel; lia.
Qed.

(* ------------------------------------------------------------------ *)
(** ** decoder_read_bytes *)

Definition rb_s1 : stmt :=
  SAssign (PVar "pos") I64 (ECall "decoder_free" [ARef (PVar "self_p"); AVal U64 ab_arg]).
Definition rb_c5 : expr := EBin OEq U64 (ERead (PVar "pos_in_byte")) (ECast U64 (EConst 0)).
Definition rb_memcpy : stmt :=
  SMemcpy (PVar "buf_p") (EConst 0) (PField (PVar "self_p") "buf_p") (ERead (PVar "byte_pos"))
          (ERead (PVar "size")).
Definition rb_A : stmt :=
  SAssign (PIndex (PVar "buf_p") (ERead (PVar "i"))) U8
    (EBin OShl I32 (ERead (PIndex (PField (PVar "self_p") "buf_p") ab_idx)) (ERead (PVar "pos_in_byte"))).
Definition rb_B : stmt :=
  SAssign (PIndex (PVar "buf_p") (ERead (PVar "i"))) U8
    (EBin OOr I32 (ERead (PIndex (PVar "buf_p") (ERead (PVar "i"))))
       (EBin OShr I32
          (ERead (PIndex (PField (PVar "self_p") "buf_p") (EBin OAdd U64 ab_idx (ECast U64 (EConst 1)))))
          (EBin OSub U64 (EConst 8) (ERead (PVar "pos_in_byte"))))).
Definition rb_body : list stmt := [rb_A; rb_B].
Definition rb_for : stmt := SFor [SAssign (PVar "i") U64 (EConst 0)] nnbi_c nnbi_step rb_body.

Lemma rb_body_eq :
  f_body (fn_of "decoder_read_bytes") =
  [rb_s1; ab_s2; ab_s3; ab_s4; SIf rb_c5 [rb_memcpy] [rb_for]].
Proof. reflexivity. Qed.

Lemma rb_frag_c5 M c src n vi vp vbp pib : (body_fuel <= M)%nat ->
  eval helpers_ir M (ab_env c src n vi vp vbp (VInt pib)) rb_c5 =
  ROk (ab_env c src n vi vp vbp (VInt pib), truth (pib =? 0)).
Proof. intros H. fuel_split M H. step2. reflexivity. Qed.

Lemma copy_elems_memcpy2 dst src s n : 0 <= s -> 0 <= n ->
  copy_elems (map VInt dst) 0 (map VInt src) (Z.to_nat s) (Z.to_nat n) =
  match memcpy dst 0 src s n with
  | COk r => ROk (map VInt r) | COob => RFail FOob | CUb => RFail FUb end.
Proof.
  intros Hs Hn. unfold memcpy.
  pose proof (copy_elems_memcpy src (Z.to_nat n) dst 0 (Z.to_nat s) 0) as H.
  rewrite !Nat.add_0_r in H. rewrite H. rewrite Z2Nat.id by lia. reflexivity.
Qed.

Lemma rb_frag_memcpy M b sz ps dst n vi vp bp vpib : (body_fuel <= M)%nat -> 0 <= bp -> 0 <= n ->
  exec helpers_ir M (ab_env (cursor_val b sz ps) dst n vi vp (VInt bp) vpib) rb_memcpy =
  match memcpy dst 0 b bp n with
  | COk d' => ROk (ab_env (cursor_val b sz ps) d' n vi vp (VInt bp) vpib, FNormal)
  | COob => RFail FOob | CUb => RFail FUb end.
Proof.
  intros H Hbp Hn. fuel_split M H. step2.
  replace (n <? 0) with false by lia. replace (bp <? 0) with false by lia. step2.
  rewrite copy_elems_memcpy2 by lia.
  destruct (memcpy dst 0 b bp n); step2; reflexivity.
Qed.

Definition rb_iter (b : list Z) (bp pib : Z) (dst : list Z) (i : Z) : cres (list Z) :=
  let+ a := rd b (bp + i) in
  let+ d1 := wr dst i (u8 (Z.shiftl a pib)) in
  let+ c := rd b (bp + i + 1) in
  let+ old := rd d1 i in
  wr d1 i (u8 (Z.lor old (Z.shiftr c (8 - pib)))).

Lemma rb_frag_body M b sz ps dst n i vp bp pib : (body_fuel <= M)%nat -> bytes_ok b ->
  0 <= i < 1152921504606846976 -> 0 <= bp < 1152921504606846976 -> 0 < pib < 8 ->
  exec_list helpers_ir M (ab_env (cursor_val b sz ps) dst n (VInt i) vp (VInt bp) (VInt pib)) rb_body =
  match rb_iter b bp pib dst i with
  | COk d' => ROk (ab_env (cursor_val b sz ps) d' n (VInt i) vp (VInt bp) (VInt pib), FNormal)
  | COob => RFail FOob | CUb => RFail FUb end.
Proof.
  intros H Bb Hi Hbp Hpib. fuel_split M H. unfold rb_iter.
  step2. rewrite !(u64_id (bp + i)) by lia. rewrite vget_bytes_cbn.
  destruct (rd b (bp + i)) as [a| |] eqn:Ra; [|step2; reflexivity|step2; reflexivity].
  pose proof (rd_is_byte _ _ _ Bb Ra) as Ha.
  step2. replace ((pib <? 0) || (32 <=? pib)) with false by lia. step2.
  replace (a <? 0) with false by (unfold is_byte in Ha; lia). step2.
  rewrite (shl_byte_in_s32 a pib Ha) by lia. step2.
  rewrite vset_bytes_cbn.
  destruct (wr dst i (u8 (Z.shiftl a pib))) as [d1| |] eqn:W1; [|step2; reflexivity|step2; reflexivity].
  step2. rewrite vget_bytes_cbn.
  destruct (rd d1 i) as [old| |] eqn:Ro.
  2:{ step2. destruct (rd b (bp + i + 1)) eqn:Rc; [reflexivity|reflexivity|destruct (rd_not_ub _ _ Rc)]. }
  2:{ destruct (rd_not_ub _ _ Ro). }
  step2. rewrite !(u64_id (bp + i)), !(u64_id (bp + i + 1)) by lia. rewrite vget_bytes_cbn.
  destruct (rd b (bp + i + 1)) as [c| |] eqn:Rc; [|step2; reflexivity|destruct (rd_not_ub _ _ Rc)].
  step2. rewrite !(u64_id (8 - pib)) by lia.
  replace ((8 - pib <? 0) || (32 <=? 8 - pib)) with false by lia. step2.
  rewrite vset_bytes_cbn.
  destruct (wr d1 i (u8 (Z.lor old (Z.shiftr c (8 - pib))))) as [d2| |] eqn:W2; step2; reflexivity.
Qed.

Lemma read_bytes_loop_S j b bp pib dst i :
  read_bytes_loop (S j) b bp pib dst i =
  let+ d2 := rb_iter b bp pib dst i in read_bytes_loop j b bp pib d2 (i + 1).
Proof.
  cbn [read_bytes_loop]. unfold rb_iter.
  destruct (rd b (bp + i)); cbn [cbind]; auto.
  destruct (wr dst i _) as [d1| |]; cbn [cbind]; auto.
  destruct (rd b (bp + i + 1)); cbn [cbind]; auto.
  destruct (rd d1 i); cbn [cbind]; auto.
Qed.

Lemma rb_loop M b n vp bp pib sz ps : (body_fuel <= M)%nat -> bytes_ok b ->
  0 <= n < 1152921504606846976 -> 0 <= bp < 1152921504606846976 -> 0 < pib < 8 ->
  forall j dst i k, 0 <= i -> i + Z.of_nat j = n -> (j < k)%nat ->
  for_loop helpers_ir M nnbi_c nnbi_step rb_body k
    (ab_env (cursor_val b sz ps) dst n (VInt i) vp (VInt bp) (VInt pib)) =
  match read_bytes_loop j b bp pib dst i with
  | COk d' => ROk (ab_env (cursor_val b sz ps) d' n (VInt n) vp (VInt bp) (VInt pib), FNormal)
  | COob => RFail FOob | CUb => RFail FUb end.
Proof.
  intros HM Bb Hn Hbp Hpib. induction j as [|j IH]; intros dst i k Hi Hj Hk.
  - destruct k as [|k]; [lia|]. cbn [for_loop read_bytes_loop].
    rewrite ab_frag_c by auto. wcbn.
    replace (i <? n) with false by lia. cbn [truth Z.eqb].
    replace i with n by lia. reflexivity.
  - destruct k as [|k]; [lia|]. rewrite read_bytes_loop_S. cbn [for_loop].
    rewrite ab_frag_c by auto. wcbn.
    replace (i <? n) with true by lia. cbn [truth Z.eqb].
    rewrite rb_frag_body by (auto; lia).
    destruct (rb_iter b bp pib dst i) as [d2| |]; [|reflexivity|reflexivity].
    wcbn. rewrite ab_frag_step by (auto; lia). wcbn.
    rewrite (IH d2 (i + 1) k) by lia. cbn [cbind]. reflexivity.
Qed.

Lemma body_read_bytes L b sz ps dst n : (body_fuel <= L)%nat ->
  in_s64 sz = true -> in_s64 ps = true -> bytes_ok b ->
  0 <= n < 1152921504606846976 -> (Z.to_nat n < L)%nat ->
  match read_bytes (mkCur b sz ps) dst n with
  | COk (s', d') => exists vi vp vbp vpib fl,
      exec_list helpers_ir (S8 L) (ab_env (cursor_val b sz ps) dst n VUndef VUndef VUndef VUndef)
        (f_body (fn_of "decoder_read_bytes")) =
      ROk (ab_env (cur_val s') d' n vi vp vbp vpib, fl) /\ (fl = FNormal \/ fl = FReturn None)
  | COob =>
      exec_list helpers_ir (S8 L) (ab_env (cursor_val b sz ps) dst n VUndef VUndef VUndef VUndef)
        (f_body (fn_of "decoder_read_bytes")) = RFail FOob
  | CUb =>
      exec_list helpers_ir (S8 L) (ab_env (cursor_val b sz ps) dst n VUndef VUndef VUndef VUndef)
        (f_body (fn_of "decoder_read_bytes")) = RFail FUb
  end.
Proof.
  intros HL Hsz Hps Bb Hn Hk.
  assert (E : exec_list helpers_ir (S8 L) (ab_env (cursor_val b sz ps) dst n VUndef VUndef VUndef VUndef)
                (f_body (fn_of "decoder_read_bytes")) =
              match decoder_free (mkCur b sz ps) (u64 (8 * n)) with
              | COk (s1, p) =>
                if p <? 0 then ROk (ab_env (cur_val s1) dst n VUndef (VInt p) VUndef VUndef, FReturn None)
                else
                  if Z.rem p 8 =? 0
                  then match memcpy dst 0 (buf s1) (p ÷ 8) n with
                       | COk d' => ROk (ab_env (cur_val s1) d' n VUndef (VInt p)
                                          (VInt (p ÷ 8)) (VInt (Z.rem p 8)), FNormal)
                       | COob => RFail FOob | CUb => RFail FUb end
                  else match read_bytes_loop (Z.to_nat n) (buf s1) (p ÷ 8) (Z.rem p 8) dst 0 with
                       | COk d' => ROk (ab_env (cur_val s1) d' n (VInt n) (VInt p)
                                          (VInt (p ÷ 8)) (VInt (Z.rem p 8)), FNormal)
                       | COob => RFail FOob | CUb => RFail FUb end
              | COob => RFail FOob | CUb => RFail FUb end).
  { rewrite rb_body_eq. unfold S8.
    rewrite exec_list_cons. unfold rb_s1 at 1. rewrite exec_SAssign, eval_ECall.
    assert (H4 : (body_fuel <= S (S (S (S L))))%nat) by lia.
    rewrite (call_decoder_free_ge (S (S (S (S L))))
               (ab_env (cursor_val b sz ps) dst n VUndef VUndef VUndef VUndef)
               "self_p" ab_arg (u64 (8 * n)) b sz ps
               H4 eq_refl Hsz Hps (ab_frag_arg _ _ _ _ _ _ _ _ H4)).
    destruct (decoder_free {| buf := b; size := sz; pos := ps |} (u64 (8 * n))) as [[s1 p]| |] eqn:AL;
      [|reflexivity|reflexivity].
    destruct (alloc_gen_facts EOUTOFDATA _ _ _ _ eq_refl eq_refl AL Hsz Hps) as (Hsz1 & Hps1 & Hp & Hb1).
    destruct s1 as [b1 sz1 ps1]. cbn [buf size pos] in *. subst b1.
    unfold ab_env at 1. wcbn. rewrite resolve_PVar by lia. unfold env_set. wcbn.
    change (conv I64 p) with (s64 p). rewrite (s64_id p Hp).
    change [("self_p"%string, cur_val {| buf := b; size := sz1; pos := ps1 |});
            ("buf_p"%string, bytes_val dst); ("size"%string, VInt n); ("i"%string, VUndef);
            ("pos"%string, VInt p); ("byte_pos"%string, VUndef); ("pos_in_byte"%string, VUndef)]
      with (ab_env (cursor_val b sz1 ps1) dst n VUndef (VInt p) VUndef VUndef).
    rewrite exec_list_cons, ab_frag_s2 by lia. wcbn.
    destruct (p <? 0) eqn:P; [reflexivity|].
    rewrite exec_list_cons, ab_frag_s3 by (auto; lia). wcbn.
    rewrite exec_list_cons, ab_frag_s4 by (auto; lia). wcbn.
    rewrite exec_list_cons, exec_SIf, rb_frag_c5 by lia. wcbn.
    rewrite truth_test.
    assert (Hbp : 0 <= p ÷ 8 < 1152921504606846976).
    { rewrite Z.quot_div_nonneg by lia. unfold in_s64 in Hp. lia. }
    destruct (Z.rem p 8 =? 0) eqn:A.
    - rewrite exec_list_cons, rb_frag_memcpy by lia.
      destruct (memcpy dst 0 b (p ÷ 8) n) as [d'| |]; [|reflexivity|reflexivity].
      wcbn. rewrite !exec_list_nil. reflexivity.
    - rewrite exec_list_cons. unfold rb_for at 1. rewrite exec_SFor, ab_frag_init by lia. wcbn.
      assert (Hpib : 0 < Z.rem p 8 < 8) by (rewrite Z.rem_mod_nonneg in * by lia; lia).
      rewrite (rb_loop L b n (VInt p) (p ÷ 8) (Z.rem p 8) sz1 ps1 HL Bb Hn Hbp Hpib
                 (Z.to_nat n) dst 0 L) by lia.
      destruct (read_bytes_loop (Z.to_nat n) b (p ÷ 8) (Z.rem p 8) dst 0) as [d'| |];
        [|reflexivity|reflexivity].
      wcbn. rewrite !exec_list_nil. reflexivity. }
  unfold read_bytes. rewrite E. clear E.
  destruct (decoder_free {| buf := b; size := sz; pos := ps |} (u64 (8 * n))) as [[s1 p]| |];
    cbn [cbind]; [|reflexivity|reflexivity].
  destruct (p <? 0).
  { do 5 eexists. split; [reflexivity|auto]. }
  destruct (Z.rem p 8 =? 0).
  - destruct (memcpy dst 0 (buf s1) (p ÷ 8) n); cbn [cbind]; [|reflexivity|reflexivity].
    do 5 eexists. split; [reflexivity|auto].
  - destruct (read_bytes_loop (Z.to_nat n) (buf s1) (p ÷ 8) (Z.rem p 8) dst 0); cbn [cbind];
      [|reflexivity|reflexivity].
    do 5 eexists. split; [reflexivity|auto].
Qed.

Theorem ir_decoder_read_bytes_fuel : forall L b sz ps dst n, (body_fuel <= L)%nat ->
  in_s64 sz = true -> in_s64 ps = true -> bytes_ok b ->
  0 <= n < 1152921504606846976 -> (Z.to_nat n < L)%nat ->
  run helpers_ir (S (S8 L)) "decoder_read_bytes"%string [cursor_val b sz ps; bytes_val dst; VInt n] =
  match read_bytes (mkCur b sz ps) dst n with
  | COk (s', d') => ROk (None, [cursor_val (buf s') (size s') (pos s'); bytes_val d'; VInt n])
  | COob => RFail FOob | CUb => RFail FUb end.
Proof.
  intros L b sz ps dst n HL Hsz Hps Bb Hn Hk.
  pose proof (body_read_bytes L b sz ps dst n HL Hsz Hps Bb Hn Hk) as HB.
  unfold run.
  change (lookup "decoder_read_bytes" helpers_ir) with (Some (fn_of "decoder_read_bytes")).
  cbv iota beta.
  change (f_params (fn_of "decoder_read_bytes"))
    with [("self_p", PByRef); ("buf_p", PByRef); ("size", PByVal U64)]%string.
  rcbn. rewrite call_S. unfold call_body.
  change (lookup "decoder_read_bytes" helpers_ir) with (Some (fn_of "decoder_read_bytes")).
  cbv iota beta.
  change (f_params (fn_of "decoder_read_bytes"))
    with [("self_p", PByRef); ("buf_p", PByRef); ("size", PByVal U64)]%string.
  change (f_locals (fn_of "decoder_read_bytes"))
    with [("i", VUndef); ("pos", VUndef); ("byte_pos", VUndef); ("pos_in_byte", VUndef)]%string.
  change (f_ret (fn_of "decoder_read_bytes")) with (@None ity).
  rcbn. rewrite resolve_PVar by (unfold S8; lia). rcbn.
  rewrite resolve_PVar by (unfold S8; lia). rcbn.
  erewrite (eval_read_var_ge _ _ _ "$size") by (unfold S8; try reflexivity; lia). rcbn.
  change (conv U64 n) with (u64 n). rewrite (u64_id n) by lia.
  change [("self_p"%string, cursor_val b sz ps); ("buf_p"%string, bytes_val dst); ("size"%string, VInt n);
          ("i"%string, VUndef); ("pos"%string, VUndef); ("byte_pos"%string, VUndef);
          ("pos_in_byte"%string, VUndef)]
    with (ab_env (cursor_val b sz ps) dst n VUndef VUndef VUndef VUndef).
  destruct (read_bytes {| buf := b; size := sz; pos := ps |} dst n) as [[s' d']| |].
  - destruct HB as (vi & vp & vbp & vpib & fl & -> & Hfl). unfold ab_env. rcbn.
    destruct Hfl as [-> | ->]; reflexivity.
  - rewrite HB. reflexivity.
  - rewrite HB. reflexivity.
Qed.

Theorem ir_decoder_read_bytes : forall fuel b sz ps dst n,
  in_s64 sz = true -> in_s64 ps = true -> bytes_ok b ->
  0 <= n < 1152921504606846976 -> (Z.to_nat n + 50 <= fuel)%nat ->
  run helpers_ir fuel "decoder_read_bytes"%string [cursor_val b sz ps; bytes_val dst; VInt n] =
  match read_bytes (mkCur b sz ps) dst n with
  | COk (s', d') => ROk (None, [cursor_val (buf s') (size s') (pos s'); bytes_val d'; VInt n])
  | COob => RFail FOob | CUb => RFail FUb end.
Proof.
  intros fuel b sz ps dst n Hsz Hps Bb Hn Hf.
  replace fuel with (S (S8 (fuel - 9))) by (unfold S8; lia).
  apply ir_decoder_read_bytes_fuel; auto; unfold body_fuel; lia.
Qed.

(* ------------------------------------------------------------------ *)
(** ** encoder_append_bytes as a callee; encoder_append_uintN *)

Lemma call_append_bytes L e x y a n b sz ps src : (body_fuel <= L)%nat ->
  lookup x e = Some (cursor_val b sz ps) -> lookup y e = Some (bytes_val src) ->
  in_s64 sz = true -> in_s64 ps = true -> bytes_ok src ->
  0 <= n < 1152921504606846976 -> (Z.to_nat n < L)%nat ->
  eval helpers_ir (S8 L) e a = ROk (e, n) ->
  call helpers_ir (S (S8 L)) e "encoder_append_bytes" [ARef (PVar x); ARef (PVar y); AVal U64 a] =
  match append_bytes (mkCur b sz ps) src n with
  | COk s' =>
    match update x (cur_val s') e with
    | Some e1 =>
      match lookup y e1 with
      | Some _ => match update y (bytes_val src) e1 with
                  | Some e2 => ROk (e2, None) | None => RFail (FStuck "update") end
      | None => RFail (FStuck ("unbound " +++ y))
      end
    | None => RFail (FStuck "update")
    end
  | COob => RFail FOob | CUb => RFail FUb end.
Proof.
  intros HL Hx Hy Hsz Hps Bs Hn Hk Ha.
  pose proof (body_append_bytes L b sz ps src n HL Hsz Hps Bs Hn Hk) as HB.
  assert (HM : (1 <= S8 L)%nat) by (unfold S8; lia).
  remember (S8 L) as M eqn:EM.
  rewrite call_S. unfold call_body.
  change (lookup "encoder_append_bytes" helpers_ir) with (Some (fn_of "encoder_append_bytes")).
  cbv iota beta.
  change (f_params (fn_of "encoder_append_bytes"))
    with [("self_p", PByRef); ("buf_p", PByRef); ("size", PByVal U64)]%string.
  change (f_locals (fn_of "encoder_append_bytes"))
    with [("i", VUndef); ("pos", VUndef); ("byte_pos", VUndef); ("pos_in_byte", VUndef)]%string.
  change (f_ret (fn_of "encoder_append_bytes")) with (@None ity).
  wcbn. rewrite (resolve_PVar _ M e x HM). wcbn.
  unfold env_get at 1. rewrite Hx. wcbn.
  rewrite (resolve_PVar _ M e y HM). wcbn.
  unfold env_get at 1. rewrite Hy. wcbn. rewrite Ha. wcbn.
  change (conv U64 n) with (u64 n). rewrite (u64_id n) by lia.
  change [("self_p"%string, cursor_val b sz ps); ("buf_p"%string, bytes_val src); ("size"%string, VInt n);
          ("i"%string, VUndef); ("pos"%string, VUndef); ("byte_pos"%string, VUndef);
          ("pos_in_byte"%string, VUndef)]
    with (ab_env (cursor_val b sz ps) src n VUndef VUndef VUndef VUndef).
  destruct (append_bytes {| buf := b; size := sz; pos := ps |} src n) as [s'| |].
  - destruct HB as (vi & vp & vbp & vpib & fl & -> & Hfl). unfold ab_env. wcbn.
    unfold env_set at 1. rewrite Hx. wcbn.
    destruct (update x (cur_val s') e) as [e1|]; wcbn; [|reflexivity].
    unfold env_set. destruct (lookup y e1); wcbn; [|reflexivity].
    destruct (update y (bytes_val src) e1); wcbn; [|reflexivity].
    destruct Hfl as [-> | ->]; reflexivity.
  - rewrite HB. reflexivity.
  - rewrite HB. reflexivity.
Qed.

Definition ui_env (c : val) (w : Z) (vb : val) : env :=
  [("self_p", c); ("value", VInt w); ("buf", vb)]%string.

Lemma exec_assign_idx M e x j t a z : (2 <= M)%nat ->
  eval helpers_ir M e a = ROk (e, z) ->
  exec helpers_ir (S M) e (SAssign (PIndex (PVar x) (EConst j)) t a) =
  let^ e3 := env_set e x [SelI j] (VInt (conv t z)) in ROk (e3, FNormal).
Proof.
  intros HM Ha. rewrite exec_SAssign, Ha. wcbn.
  destruct M as [|[|M]]; try lia. reflexivity.
Qed.

Lemma ui_frag_val M c w vb : (body_fuel <= M)%nat ->
  eval helpers_ir M (ui_env c w vb) (ERead (PVar "value")) = ROk (ui_env c w vb, w).
Proof. intros H. fuel_split M H. symex. reflexivity. Qed.

Lemma ui_frag_cast M c w vb : (body_fuel <= M)%nat ->
  eval helpers_ir M (ui_env c w vb) (ECast U8 (ERead (PVar "value"))) = ROk (ui_env c w vb, u8 w).
Proof. intros H. fuel_split M H. step2. reflexivity. Qed.

Lemma ui_frag_shr M c w vb t k : (body_fuel <= M)%nat -> 0 <= k < ity_bits t ->
  eval helpers_ir M (ui_env c w vb) (ECast U8 (EBin OShr t (ERead (PVar "value")) (EConst k))) =
  ROk (ui_env c w vb, u8 (Z.shiftr w k)).
Proof.
  intros H Hk. fuel_split M H. step2.
  replace ((k <? 0) || (ity_bits t <=? k)) with false by lia. step2. reflexivity.
Qed.

Lemma ui_frag_const M e k : (1 <= M)%nat -> eval helpers_ir M e (EConst k) = ROk (e, k).
Proof. intros H. destruct M; [lia|reflexivity]. Qed.

Lemma u8_u8 z : u8 (u8 z) = u8 z.
Proof. unfold u8. apply Z.mod_mod. lia. Qed.

Ltac comp_env_set :=
  match goal with
  | |- context [env_set ?e ?x ?ss ?v] =>
      let r := eval cbv -[conv u8 u16 u32 u64 Z.shiftr cursor_val bytes_val Z.add Z.sub Z.mul] in (env_set e x ss v) in
      change (env_set e x ss v) with r
  end.

Ltac ui_prologue f ps_ ls_ :=
  unfold run;
  change (lookup f helpers_ir) with (Some (fn_of f));
  cbv iota beta;
  change (f_params (fn_of f)) with ps_;
  rcbn; rewrite call_S; unfold call_body;
  change (lookup f helpers_ir) with (Some (fn_of f));
  cbv iota beta;
  change (f_params (fn_of f)) with ps_;
  change (f_locals (fn_of f)) with ls_;
  change (f_ret (fn_of f)) with (@None ity).

Theorem ir_encoder_append_uint8_fuel : forall L b sz ps v, (body_fuel <= L)%nat ->
  in_s64 sz = true -> in_s64 ps = true ->
  run helpers_ir (S (S (S (S (S (S (S8 L))))))) "encoder_append_uint8"%string [cursor_val b sz ps; VInt v] =
  match append_uint8 (mkCur b sz ps) v with
  | COk s' => ROk (None, [cursor_val (buf s') (size s') (pos s'); VInt v])
  | COob => RFail FOob | CUb => RFail FUb end.
Proof.
  intros L b sz ps v HL Hsz Hps.
  assert (H8 : (body_fuel <= S8 L)%nat) by (unfold S8; lia).
  ui_prologue "encoder_append_uint8"%string
    [("self_p", PByRef); ("value", PByVal U8)]%string [("buf", VArr [VInt 0])]%string.
  change (f_body (fn_of "encoder_append_uint8")) with
    [SAssign (PIndex (PVar "buf") (EConst 0)) U8 (ERead (PVar "value"));
     SExpr (ECall "encoder_append_bytes" [ARef (PVar "self_p"); ARef (PVar "buf"); AVal U64 (EConst 1)])].
  rcbn. rewrite resolve_PVar by lia. rcbn.
  erewrite (eval_read_var_ge _ _ _ "$value") by (try reflexivity; lia). rcbn.
  change (conv U8 v) with (u8 v).
  change [("self_p"%string, cursor_val b sz ps); ("value"%string, VInt (u8 v)); ("buf"%string, VArr [VInt 0])]
    with (ui_env (cursor_val b sz ps) (u8 v) (VArr [VInt 0])).
  rewrite exec_list_cons.
  rewrite (exec_assign_idx _ _ "buf" 0 U8 _ (u8 v)) by (try apply ui_frag_val; lia).
  change (conv U8 (u8 v)) with (u8 (u8 v)). comp_env_set. rcbn.
  rewrite exec_list_cons, exec_SExpr, eval_ECall.
  assert (Bs : bytes_ok [u8 (u8 v)]) by (repeat (constructor; [apply is_byte_u8|]); constructor).
  assert (Hk : (Z.to_nat 1 < L)%nat) by (unfold body_fuel in HL; lia).
  match goal with |- context [call helpers_ir (S (S8 L)) ?e "encoder_append_bytes"%string _] =>
    rewrite (call_append_bytes L e "self_p" "buf" (EConst 1) 1 b sz ps [u8 (u8 v)] HL eq_refl eq_refl Hsz Hps
               Bs ltac:(lia) Hk (ui_frag_const (S8 L) e 1 ltac:(unfold S8; lia)))
  end.
  unfold append_uint8.
  destruct (append_bytes {| buf := b; size := sz; pos := ps |} [u8 (u8 v)] 1) as [s'| |];
    [|reflexivity|reflexivity].
  rcbn. rewrite exec_list_nil. rcbn. reflexivity.
Qed.

Ltac ui_assign j frag :=
  rewrite exec_list_cons;
  erewrite (exec_assign_idx _ _ "buf" j U8) by (try apply frag; unfold S8; simpl; lia);
  change (conv U8 (u8 ?z)) with (u8 (u8 z)); rewrite ?u8_u8;
  comp_env_set; rcbn.

Ltac ui_call L b sz ps src n HL Hsz Hps :=
  rewrite exec_list_cons, exec_SExpr, eval_ECall;
  let Bs := fresh "Bs" in let Hk := fresh "Hk" in
  assert (Bs : bytes_ok src) by (repeat (constructor; [apply is_byte_u8|]); constructor);
  assert (Hk : (Z.to_nat n < L)%nat) by (unfold body_fuel in HL; lia);
  match goal with |- context [call helpers_ir (S (S8 L)) ?e "encoder_append_bytes"%string _] =>
    rewrite (call_append_bytes L e "self_p" "buf" (EConst n) n b sz ps src HL eq_refl eq_refl Hsz Hps
               Bs ltac:(lia) Hk (ui_frag_const (S8 L) e n ltac:(unfold S8; lia)))
  end.

Ltac ui_epilogue b sz ps src n :=
  destruct (append_bytes {| buf := b; size := sz; pos := ps |} src n) as [s'| |];
    [|reflexivity|reflexivity];
  rcbn; rewrite exec_list_nil; rcbn; reflexivity.

Theorem ir_encoder_append_uint16_fuel : forall L b sz ps v, (body_fuel <= L)%nat ->
  in_s64 sz = true -> in_s64 ps = true ->
  run helpers_ir (S (S (S (S (S (S (S (S8 L)))))))) "encoder_append_uint16"%string
      [cursor_val b sz ps; VInt v] =
  match append_uint16 (mkCur b sz ps) v with
  | COk s' => ROk (None, [cursor_val (buf s') (size s') (pos s'); VInt v])
  | COob => RFail FOob | CUb => RFail FUb end.
Proof.
  intros L b sz ps v HL Hsz Hps.
  ui_prologue "encoder_append_uint16"%string
    [("self_p", PByRef); ("value", PByVal U16)]%string [("buf", VArr [VInt 0; VInt 0])]%string.
  change (f_body (fn_of "encoder_append_uint16")) with
    [SAssign (PIndex (PVar "buf") (EConst 0)) U8 (ECast U8 (EBin OShr I32 (ERead (PVar "value")) (EConst 8)));
     SAssign (PIndex (PVar "buf") (EConst 1)) U8 (ECast U8 (ERead (PVar "value")));
     SExpr (ECall "encoder_append_bytes" [ARef (PVar "self_p"); ARef (PVar "buf"); AVal U64 (EConst 2)])].
  rcbn. rewrite resolve_PVar by lia. rcbn.
  erewrite (eval_read_var_ge _ _ _ "$value") by (try reflexivity; lia). rcbn.
  change (conv U16 v) with (u16 v).
  change [("self_p"%string, cursor_val b sz ps); ("value"%string, VInt (u16 v));
          ("buf"%string, VArr [VInt 0; VInt 0])]
    with (ui_env (cursor_val b sz ps) (u16 v) (VArr [VInt 0; VInt 0])).
  ui_assign 0 ui_frag_shr. ui_assign 1 ui_frag_cast.
  ui_call L b sz ps [u8 (Z.shiftr (u16 v) 8); u8 (u16 v)] 2 HL Hsz Hps.
  unfold append_uint16. ui_epilogue b sz ps [u8 (Z.shiftr (u16 v) 8); u8 (u16 v)] 2.
Qed.

Definition shr_assign (j : Z) (t : ity) (k : Z) : stmt :=
  SAssign (PIndex (PVar "buf") (EConst j)) U8 (ECast U8 (EBin OShr t (ERead (PVar "value")) (EConst k))).
Definition cast_assign (j : Z) : stmt :=
  SAssign (PIndex (PVar "buf") (EConst j)) U8 (ECast U8 (ERead (PVar "value"))).
Definition bytes_call (n : Z) : stmt :=
  SExpr (ECall "encoder_append_bytes" [ARef (PVar "self_p"); ARef (PVar "buf"); AVal U64 (EConst n)]).

Theorem ir_encoder_append_uint32_fuel : forall L b sz ps v, (body_fuel <= L)%nat ->
  in_s64 sz = true -> in_s64 ps = true ->
  run helpers_ir (S (S (S (S (S (S (S (S (S (S8 L)))))))))) "encoder_append_uint32"%string
      [cursor_val b sz ps; VInt v] =
  match append_uint32 (mkCur b sz ps) v with
  | COk s' => ROk (None, [cursor_val (buf s') (size s') (pos s'); VInt v])
  | COob => RFail FOob | CUb => RFail FUb end.
Proof.
  intros L b sz ps v HL Hsz Hps.
  ui_prologue "encoder_append_uint32"%string
    [("self_p", PByRef); ("value", PByVal U32)]%string
    [("buf", VArr [VInt 0; VInt 0; VInt 0; VInt 0])]%string.
  change (f_body (fn_of "encoder_append_uint32")) with
    [shr_assign 0 U32 24; shr_assign 1 U32 16; shr_assign 2 U32 8; cast_assign 3; bytes_call 4].
  unfold shr_assign, cast_assign, bytes_call.
  rcbn. rewrite resolve_PVar by lia. rcbn.
  erewrite (eval_read_var_ge _ _ _ "$value") by (try reflexivity; lia). rcbn.
  change (conv U32 v) with (u32 v).
  change [("self_p"%string, cursor_val b sz ps); ("value"%string, VInt (u32 v));
          ("buf"%string, VArr [VInt 0; VInt 0; VInt 0; VInt 0])]
    with (ui_env (cursor_val b sz ps) (u32 v) (VArr [VInt 0; VInt 0; VInt 0; VInt 0])).
  ui_assign 0 ui_frag_shr. ui_assign 1 ui_frag_shr. ui_assign 2 ui_frag_shr. ui_assign 3 ui_frag_cast.
  ui_call L b sz ps [u8 (Z.shiftr (u32 v) 24); u8 (Z.shiftr (u32 v) 16); u8 (Z.shiftr (u32 v) 8); u8 (u32 v)]
          4 HL Hsz Hps.
  unfold append_uint32.
  ui_epilogue b sz ps [u8 (Z.shiftr (u32 v) 24); u8 (Z.shiftr (u32 v) 16); u8 (Z.shiftr (u32 v) 8); u8 (u32 v)] 4.
Qed.

Theorem ir_encoder_append_uint64_fuel : forall L b sz ps v, (body_fuel <= L)%nat ->
  in_s64 sz = true -> in_s64 ps = true ->
  run helpers_ir (S (S (S (S (S (S (S (S (S (S (S (S (S (S8 L)))))))))))))) "encoder_append_uint64"%string
      [cursor_val b sz ps; VInt v] =
  match append_uint64 (mkCur b sz ps) v with
  | COk s' => ROk (None, [cursor_val (buf s') (size s') (pos s'); VInt v])
  | COob => RFail FOob | CUb => RFail FUb end.
Proof.
  intros L b sz ps v HL Hsz Hps.
  ui_prologue "encoder_append_uint64"%string
    [("self_p", PByRef); ("value", PByVal U64)]%string
    [("buf", VArr [VInt 0; VInt 0; VInt 0; VInt 0; VInt 0; VInt 0; VInt 0; VInt 0])]%string.
  change (f_body (fn_of "encoder_append_uint64")) with
    [shr_assign 0 U64 56; shr_assign 1 U64 48; shr_assign 2 U64 40; shr_assign 3 U64 32;
     shr_assign 4 U64 24; shr_assign 5 U64 16; shr_assign 6 U64 8; cast_assign 7; bytes_call 8].
  unfold shr_assign, cast_assign, bytes_call.
  rcbn. rewrite resolve_PVar by lia. rcbn.
  erewrite (eval_read_var_ge _ _ _ "$value") by (try reflexivity; lia). rcbn.
  change (conv U64 v) with (u64 v).
  change [("self_p"%string, cursor_val b sz ps); ("value"%string, VInt (u64 v));
          ("buf"%string, VArr [VInt 0; VInt 0; VInt 0; VInt 0; VInt 0; VInt 0; VInt 0; VInt 0])]
    with (ui_env (cursor_val b sz ps) (u64 v)
            (VArr [VInt 0; VInt 0; VInt 0; VInt 0; VInt 0; VInt 0; VInt 0; VInt 0])).
  ui_assign 0 ui_frag_shr. ui_assign 1 ui_frag_shr. ui_assign 2 ui_frag_shr. ui_assign 3 ui_frag_shr.
  ui_assign 4 ui_frag_shr. ui_assign 5 ui_frag_shr. ui_assign 6 ui_frag_shr. ui_assign 7 ui_frag_cast.
  ui_call L b sz ps
    [u8 (Z.shiftr (u64 v) 56); u8 (Z.shiftr (u64 v) 48); u8 (Z.shiftr (u64 v) 40); u8 (Z.shiftr (u64 v) 32);
     u8 (Z.shiftr (u64 v) 24); u8 (Z.shiftr (u64 v) 16); u8 (Z.shiftr (u64 v) 8); u8 (u64 v)]
    8 HL Hsz Hps.
  unfold append_uint64.
  ui_epilogue b sz ps
    [u8 (Z.shiftr (u64 v) 56); u8 (Z.shiftr (u64 v) 48); u8 (Z.shiftr (u64 v) 40); u8 (Z.shiftr (u64 v) 32);
     u8 (Z.shiftr (u64 v) 24); u8 (Z.shiftr (u64 v) 16); u8 (Z.shiftr (u64 v) 8); u8 (u64 v)] 8.
Qed.

(* ------------------------------------------------------------------ *)
(** ** A call in any caller, from the theorem about [run] *)

Lemma update_of_lookup {A} x (v w : A) e : lookup x e = Some w -> exists e', update x v e = Some e'.
Proof.
  induction e as [|[y u] e IH]; cbn [lookup update]; [discriminate|].
  destruct (String.eqb x y); [eauto|]. intros H. destruct (IH H) as (e' & ->). eauto.
Qed.

Lemma call_of_run_sv f fn t n' e x a z t' c :
  lookup f helpers_ir = Some fn -> f_params fn = [("self_p", PByRef); ("value", PByVal t)]%string ->
  (2 <= n')%nat -> lookup x e = Some c -> eval helpers_ir n' e a = ROk (e, z) ->
  call helpers_ir (S n') e f [ARef (PVar x); AVal t' a] =
  match run helpers_ir (S n') f [c; VInt z] with
  | ROk (r, v :: _) => match update x v e with Some e' => ROk (e', r) | None => RFail (FStuck "update") end
  | ROk (r, []) => RFail (FStuck "copy-out")
  | RFail fl => RFail fl
  end.
Proof.
  intros Hf Hp Hn Hx Ha. unfold run. rewrite Hf, Hp. rcbn.
  rewrite !call_S. unfold call_body. rewrite Hf, Hp.
  wcbn. rewrite !resolve_PVar by lia. wcbn.
  unfold env_get at 1. rewrite Hx. wcbn. rewrite Ha. wcbn.
  erewrite (eval_read_var_ge _ _ _ "$value") by (try reflexivity; lia). rcbn.
  destruct (exec_list helpers_ir n' _ (f_body fn)) as [[frame' fl]|ff]; wcbn; [|reflexivity].
  destruct (lookup "self_p" frame') as [v|]; rcbn; [|reflexivity].
  unfold env_set at 1. rewrite Hx. rcbn.
  destruct (update_of_lookup x v c e Hx) as (e' & Hu). rewrite Hu. rcbn.
  destruct fl as [| |[r|]]; destruct (f_ret fn); rcbn; rewrite ?Hu; reflexivity.
Qed.

Lemma call_of_run_s f fn n' e x c :
  lookup f helpers_ir = Some fn -> f_params fn = [("self_p", PByRef)]%string ->
  (1 <= n')%nat -> lookup x e = Some c ->
  call helpers_ir (S n') e f [ARef (PVar x)] =
  match run helpers_ir (S n') f [c] with
  | ROk (r, v :: _) => match update x v e with Some e' => ROk (e', r) | None => RFail (FStuck "update") end
  | ROk (r, []) => RFail (FStuck "copy-out")
  | RFail fl => RFail fl
  end.
Proof.
  intros Hf Hp Hn Hx. unfold run. rewrite Hf, Hp. rcbn.
  rewrite !call_S. unfold call_body. rewrite Hf, Hp.
  wcbn. rewrite !resolve_PVar by lia. wcbn.
  unfold env_get at 1. rewrite Hx. rcbn.
  destruct (exec_list helpers_ir n' _ (f_body fn)) as [[frame' fl]|ff]; wcbn; [|reflexivity].
  destruct (lookup "self_p" frame') as [v|]; rcbn; [|reflexivity].
  unfold env_set at 1. rewrite Hx. rcbn.
  destruct (update_of_lookup x v c e Hx) as (e' & Hu). rewrite Hu. rcbn.
  destruct fl as [| |[r|]]; destruct (f_ret fn); rcbn; rewrite ?Hu; reflexivity.
Qed.

(* ------------------------------------------------------------------ *)
(** ** encoder_append_intN *)

Definition sv_env (c : val) (w : Z) : env := [("self_p", c); ("value", VInt w)]%string.

Lemma in_frag_add M c w t tu k : (body_fuel <= M)%nat -> ity_signed t = true ->
  in_range t (conv tu w + k) = true ->
  eval helpers_ir M (sv_env c w) (EBin OAdd t (ECast tu (ERead (PVar "value"))) (EConst k)) =
  ROk (sv_env c w, conv tu w + k).
Proof.
  intros H Hs Hr. fuel_split M H. symex. unfold arith. rewrite Hs, Hr. reflexivity.
Qed.

Ltac in_prologue f ps_ :=
  unfold run;
  change (lookup f helpers_ir) with (Some (fn_of f));
  cbv iota beta;
  change (f_params (fn_of f)) with ps_;
  rcbn; rewrite call_S; unfold call_body;
  change (lookup f helpers_ir) with (Some (fn_of f));
  cbv iota beta;
  change (f_params (fn_of f)) with ps_;
  change (f_ret (fn_of f)) with (@None ity).

Definition S5 (n : nat) : nat := S (S (S (S (S n)))).

Theorem ir_encoder_append_int8_fuel : forall L b sz ps v, (body_fuel <= L)%nat ->
  in_s64 sz = true -> in_s64 ps = true ->
  run helpers_ir (S5 (S5 (S8 L))) "encoder_append_int8"%string [cursor_val b sz ps; VInt v] =
  match append_int8 (mkCur b sz ps) v with
  | COk s' => ROk (None, [cursor_val (buf s') (size s') (pos s'); VInt v])
  | COob => RFail FOob | CUb => RFail FUb end.
Proof.
  intros L b sz ps v HL Hsz Hps. unfold S5 at 1.
  in_prologue "encoder_append_int8"%string [("self_p", PByRef); ("value", PByVal I8)]%string.
  change (f_locals (fn_of "encoder_append_int8")) with (@nil (string * val)).
  change (f_body (fn_of "encoder_append_int8")) with
    [SExpr (ECall "encoder_append_uint8"
       [ARef (PVar "self_p"); AVal U8 (EBin OAdd I32 (ECast U8 (ERead (PVar "value"))) (EConst 128))])].
  rcbn. rewrite resolve_PVar by lia. rcbn.
  erewrite (eval_read_var_ge _ _ _ "$value") by (try reflexivity; lia). rcbn.
  change (conv I8 v) with (s8 v).
  rewrite exec_list_cons, exec_SExpr, eval_ECall.
  assert (HM : (body_fuel <= S5 (S8 L))%nat) by (unfold S5, S8; lia).
  rewrite (call_of_run_sv "encoder_append_uint8" (fn_of "encoder_append_uint8") U8 (S5 (S8 L))
             (sv_env (cursor_val b sz ps) (s8 v)) "self_p" _ (u8 (s8 v) + 128) U8 (cursor_val b sz ps)
             eq_refl eq_refl ltac:(unfold body_fuel in HM; lia) eq_refl).
  2:{ apply (in_frag_add _ _ _ I32 U8 128 HM eq_refl).
      change (conv U8 (s8 v)) with (u8 (s8 v)). unfold u8, in_range. cbn [ity_signed ity_bits ity_min ity_max].
      change (2 ^ (32 - 1)) with 2147483648. lia. }
  unfold S5 at 1. rewrite (ir_encoder_append_uint8_fuel L b sz ps (u8 (s8 v) + 128) HL Hsz Hps).
  unfold append_int8.
  destruct (append_uint8 {| buf := b; size := sz; pos := ps |} (u8 (s8 v) + 128)) as [s'| |];
    [|reflexivity|reflexivity].
  unfold sv_env. rcbn. rewrite exec_list_nil. rcbn. reflexivity.
Qed.

Theorem ir_encoder_append_int16_fuel : forall L b sz ps v, (body_fuel <= L)%nat ->
  in_s64 sz = true -> in_s64 ps = true ->
  run helpers_ir (S (S5 (S5 (S8 L)))) "encoder_append_int16"%string [cursor_val b sz ps; VInt v] =
  match append_int16 (mkCur b sz ps) v with
  | COk s' => ROk (None, [cursor_val (buf s') (size s') (pos s'); VInt v])
  | COob => RFail FOob | CUb => RFail FUb end.
Proof.
  intros L b sz ps v HL Hsz Hps. unfold S5 at 1.
  in_prologue "encoder_append_int16"%string [("self_p", PByRef); ("value", PByVal I16)]%string.
  change (f_locals (fn_of "encoder_append_int16")) with (@nil (string * val)).
  change (f_body (fn_of "encoder_append_int16")) with
    [SExpr (ECall "encoder_append_uint16"
       [ARef (PVar "self_p"); AVal U16 (EBin OAdd I32 (ECast U16 (ERead (PVar "value"))) (EConst 32768))])].
  rcbn. rewrite resolve_PVar by lia. rcbn.
  erewrite (eval_read_var_ge _ _ _ "$value") by (try reflexivity; lia). rcbn.
  change (conv I16 v) with (s16 v).
  rewrite exec_list_cons, exec_SExpr, eval_ECall.
  assert (HM : (body_fuel <= S (S5 (S8 L)))%nat) by (unfold S5, S8; lia).
  rewrite (call_of_run_sv "encoder_append_uint16" (fn_of "encoder_append_uint16") U16 (S (S5 (S8 L)))
             (sv_env (cursor_val b sz ps) (s16 v)) "self_p" _ (u16 (s16 v) + 32768) U16 (cursor_val b sz ps)
             eq_refl eq_refl ltac:(unfold body_fuel in HM; lia) eq_refl).
  2:{ apply (in_frag_add _ _ _ I32 U16 32768 HM eq_refl).
      change (conv U16 (s16 v)) with (u16 (s16 v)). unfold u16, in_range.
      cbn [ity_signed ity_bits ity_min ity_max]. change (2 ^ (32 - 1)) with 2147483648. lia. }
  unfold S5 at 1. rewrite (ir_encoder_append_uint16_fuel L b sz ps (u16 (s16 v) + 32768) HL Hsz Hps).
  unfold append_int16.
  destruct (append_uint16 {| buf := b; size := sz; pos := ps |} (u16 (s16 v) + 32768)) as [s'| |];
    [|reflexivity|reflexivity].
  unfold sv_env. rcbn. rewrite exec_list_nil. rcbn. reflexivity.
Qed.

Theorem ir_encoder_append_int32_fuel : forall L b sz ps v, (body_fuel <= L)%nat ->
  in_s64 sz = true -> in_s64 ps = true ->
  run helpers_ir (S (S (S (S5 (S5 (S8 L)))))) "encoder_append_int32"%string [cursor_val b sz ps; VInt v] =
  match append_int32 (mkCur b sz ps) v with
  | COk s' => ROk (None, [cursor_val (buf s') (size s') (pos s'); VInt v])
  | COob => RFail FOob | CUb => RFail FUb end.
Proof.
  intros L b sz ps v HL Hsz Hps. unfold S5 at 1.
  in_prologue "encoder_append_int32"%string [("self_p", PByRef); ("value", PByVal I32)]%string.
  change (f_locals (fn_of "encoder_append_int32")) with (@nil (string * val)).
  change (f_body (fn_of "encoder_append_int32")) with
    [SExpr (ECall "encoder_append_uint32"
       [ARef (PVar "self_p"); AVal U32 (EBin OAdd I64 (ECast U32 (ERead (PVar "value"))) (EConst 2147483648))])].
  rcbn. rewrite resolve_PVar by lia. rcbn.
  erewrite (eval_read_var_ge _ _ _ "$value") by (try reflexivity; lia). rcbn.
  change (conv I32 v) with (s32 v).
  rewrite exec_list_cons, exec_SExpr, eval_ECall.
  assert (HM : (body_fuel <= S (S (S (S5 (S8 L)))))%nat) by (unfold S5, S8; lia).
  rewrite (call_of_run_sv "encoder_append_uint32" (fn_of "encoder_append_uint32") U32 (S (S (S (S5 (S8 L)))))
             (sv_env (cursor_val b sz ps) (s32 v)) "self_p" _ (u32 (s32 v) + 2147483648) U32
             (cursor_val b sz ps) eq_refl eq_refl ltac:(unfold body_fuel in HM; lia) eq_refl).
  2:{ apply (in_frag_add _ _ _ I64 U32 2147483648 HM eq_refl).
      change (conv U32 (s32 v)) with (u32 (s32 v)). change (in_range I64 ?z) with (in_s64 z).
      unfold u32, in_s64. lia. }
  unfold S5 at 1. rewrite (ir_encoder_append_uint32_fuel L b sz ps (u32 (s32 v) + 2147483648) HL Hsz Hps).
  unfold append_int32.
  destruct (append_uint32 {| buf := b; size := sz; pos := ps |} (u32 (s32 v) + 2147483648)) as [s'| |];
    [|reflexivity|reflexivity].
  unfold sv_env. rcbn. rewrite exec_list_nil. rcbn. reflexivity.
Qed.

Definition i64_env (c : val) (w : Z) (vx : val) : env :=
  [("self_p", c); ("value", VInt w); ("u64_value", vx)]%string.

Lemma i64_frag1 M c w vx : (body_fuel <= M)%nat ->
  exec helpers_ir M (i64_env c w vx) (SAssign (PVar "u64_value") U64 (ECast U64 (ERead (PVar "value")))) =
  ROk (i64_env c w (VInt (u64 w)), FNormal).
Proof. intros H. fuel_split M H. step2. rewrite u64_u64. reflexivity. Qed.

Lemma i64_frag2 M c w x : (body_fuel <= M)%nat ->
  exec helpers_ir M (i64_env c w (VInt x))
    (SAssign (PVar "u64_value") U64 (EBin OAdd U64 (ERead (PVar "u64_value")) (EConst 9223372036854775808))) =
  ROk (i64_env c w (VInt (u64 (x + 9223372036854775808))), FNormal).
Proof. intros H. fuel_split M H. step2. rewrite u64_u64. reflexivity. Qed.

Definition S13 (n : nat) : nat := S (S (S (S5 (S5 n)))).

Theorem ir_encoder_append_int64_fuel : forall L b sz ps v, (body_fuel <= L)%nat ->
  in_s64 sz = true -> in_s64 ps = true ->
  run helpers_ir (S (S5 (S13 (S8 L)))) "encoder_append_int64"%string [cursor_val b sz ps; VInt v] =
  match append_int64 (mkCur b sz ps) v with
  | COk s' => ROk (None, [cursor_val (buf s') (size s') (pos s'); VInt v])
  | COob => RFail FOob | CUb => RFail FUb end.
Proof.
  intros L b sz ps v HL Hsz Hps. unfold S5 at 1.
  in_prologue "encoder_append_int64"%string [("self_p", PByRef); ("value", PByVal I64)]%string.
  change (f_locals (fn_of "encoder_append_int64")) with [("u64_value", VUndef)]%string.
  change (f_body (fn_of "encoder_append_int64")) with
    [SAssign (PVar "u64_value") U64 (ECast U64 (ERead (PVar "value")));
     SAssign (PVar "u64_value") U64 (EBin OAdd U64 (ERead (PVar "u64_value")) (EConst 9223372036854775808));
     SExpr (ECall "encoder_append_uint64" [ARef (PVar "self_p"); AVal U64 (ERead (PVar "u64_value"))])].
  rcbn. rewrite resolve_PVar by lia. rcbn.
  erewrite (eval_read_var_ge _ _ _ "$value") by (try reflexivity; lia). rcbn.
  change (conv I64 v) with (s64 v).
  change [("self_p"%string, cursor_val b sz ps); ("value"%string, VInt (s64 v)); ("u64_value"%string, VUndef)]
    with (i64_env (cursor_val b sz ps) (s64 v) VUndef).
  assert (HM : (body_fuel <= S13 (S8 L))%nat) by (unfold S13, S5, S8; lia).
  rewrite exec_list_cons, i64_frag1 by lia. rcbn.
  rewrite exec_list_cons, i64_frag2 by lia. rcbn.
  rewrite exec_list_cons, exec_SExpr, eval_ECall.
  set (z := u64 (u64 (s64 v) + 9223372036854775808)).
  set (n12 := S (S (S (S (S (S (S (S (S (S (S (S (S8 L))))))))))))).
  change (S13 (S8 L)) with (S n12).
  assert (Hn12 : (2 <= n12)%nat) by (unfold n12; lia).
  rewrite (call_of_run_sv "encoder_append_uint64" (fn_of "encoder_append_uint64") U64 n12
             (i64_env (cursor_val b sz ps) (s64 v) (VInt z)) "self_p" (ERead (PVar "u64_value")) z U64
             (cursor_val b sz ps) eq_refl eq_refl Hn12 eq_refl
             (eval_read_var_ge helpers_ir n12 (i64_env (cursor_val b sz ps) (s64 v) (VInt z)) "u64_value" z Hn12 eq_refl)).
  unfold n12.
  rewrite (ir_encoder_append_uint64_fuel L b sz ps z HL Hsz Hps).
  unfold append_int64. fold z.
  destruct (append_uint64 {| buf := b; size := sz; pos := ps |} z) as [s'| |];
    [|reflexivity|reflexivity].
  unfold i64_env. rcbn. rewrite exec_list_nil. rcbn. reflexivity.
Qed.

(* ------------------------------------------------------------------ *)
(** ** decoder_read_bytes as a callee; what it returns are bytes *)

Lemma memcpy_loop_ok src : bytes_ok src -> forall k dst doff soff i d,
  bytes_ok dst -> memcpy_loop k dst doff src soff i = COk d -> bytes_ok d.
Proof.
  intros Bs. induction k as [|k IH]; intros dst doff soff i d Bd H; cbn [memcpy_loop] in H.
  - inversion H; subst; auto.
  - destruct (rd src (soff + i)) as [x| |] eqn:R; cbn [cbind] in H; try discriminate.
    unfold wr in H. destruct ((0 <=? doff + i) && (doff + i <? len dst)); cbn [cbind] in H; try discriminate.
    eapply IH; [|exact H]. apply upd_bytes_ok; auto. exact (rd_is_byte src (soff + i) x Bs R).
Qed.

Lemma read_bytes_loop_ok b bp pib : forall k dst i d,
  bytes_ok dst -> read_bytes_loop k b bp pib dst i = COk d -> bytes_ok d.
Proof.
  induction k as [|k IH]; intros dst i d Bd H; cbn [read_bytes_loop] in H.
  - inversion H; subst; auto.
  - destruct (rd b (bp + i)) as [a| |]; cbn [cbind] in H; try discriminate.
    unfold wr at 1 in H. destruct ((0 <=? i) && (i <? len dst)); cbn [cbind] in H; try discriminate.
    destruct (rd b (bp + i + 1)) as [c| |]; cbn [cbind] in H; try discriminate.
    destruct (rd _ i) as [old| |]; cbn [cbind] in H; try discriminate.
    unfold wr at 1 in H. destruct ((0 <=? i) && (i <? len _)); cbn [cbind] in H; try discriminate.
    eapply IH; [|exact H]. repeat apply upd_bytes_ok; auto; apply is_byte_u8.
Qed.

Lemma read_bytes_ok s dst n s' d : bytes_ok (buf s) -> bytes_ok dst ->
  read_bytes s dst n = COk (s', d) -> bytes_ok d.
Proof.
  intros Bb Bd. unfold read_bytes, decoder_free, alloc_gen.
  destruct (negb (in_s64 _)); cbn [cbind]; try discriminate.
  destruct (_ <=? size s); cbn [cbind].
  - destruct (pos s <? 0); [intros H; assert (dst = d) by congruence; subst; auto|].
    cbn [buf]. destruct (Z.rem (pos s) 8 =? 0).
    + destruct (memcpy dst 0 (buf s) (pos s ÷ 8) n) as [d0| |] eqn:M; cbn [cbind]; try discriminate.
      intros H. assert (d0 = d) by congruence. subst d0. unfold memcpy in M.
      exact (memcpy_loop_ok (buf s) Bb _ _ _ _ _ _ Bd M).
    + destruct (read_bytes_loop _ _ _ _ dst 0) as [d0| |] eqn:M; cbn [cbind]; try discriminate.
      intros H. assert (d0 = d) by congruence. subst d0.
      exact (read_bytes_loop_ok _ _ _ _ _ _ _ Bd M).
  - change (- EOUTOFDATA <? 0) with true. cbv iota. intros H; assert (dst = d) by congruence; subst; auto.
Qed.

Ltac rbcall_prologue M HM :=
  rewrite call_S; unfold call_body;
  change (lookup "decoder_read_bytes" helpers_ir) with (Some (fn_of "decoder_read_bytes"));
  cbv iota beta;
  change (f_params (fn_of "decoder_read_bytes"))
    with [("self_p", PByRef); ("buf_p", PByRef); ("size", PByVal U64)]%string;
  change (f_locals (fn_of "decoder_read_bytes"))
    with [("i", VUndef); ("pos", VUndef); ("byte_pos", VUndef); ("pos_in_byte", VUndef)]%string;
  change (f_ret (fn_of "decoder_read_bytes")) with (@None ity).

Lemma call_read_bytes L e x y a n b sz ps dst : (body_fuel <= L)%nat ->
  lookup x e = Some (cursor_val b sz ps) -> lookup y e = Some (bytes_val dst) ->
  in_s64 sz = true -> in_s64 ps = true -> bytes_ok b ->
  0 <= n < 1152921504606846976 -> (Z.to_nat n < L)%nat ->
  eval helpers_ir (S8 L) e a = ROk (e, n) ->
  call helpers_ir (S (S8 L)) e "decoder_read_bytes" [ARef (PVar x); ARef (PVar y); AVal U64 a] =
  match read_bytes (mkCur b sz ps) dst n with
  | COk (s', d') =>
    match update x (cur_val s') e with
    | Some e1 =>
      match lookup y e1 with
      | Some _ => match update y (bytes_val d') e1 with
                  | Some e2 => ROk (e2, None) | None => RFail (FStuck "update") end
      | None => RFail (FStuck ("unbound " +++ y))
      end
    | None => RFail (FStuck "update")
    end
  | COob => RFail FOob | CUb => RFail FUb end.
Proof.
  intros HL Hx Hy Hsz Hps Bb Hn Hk Ha.
  pose proof (body_read_bytes L b sz ps dst n HL Hsz Hps Bb Hn Hk) as HB.
  assert (HM : (1 <= S8 L)%nat) by (unfold S8; lia).
  remember (S8 L) as M eqn:EM.
  rbcall_prologue M HM.
  wcbn. rewrite (resolve_PVar _ M e x HM). wcbn.
  unfold env_get at 1. rewrite Hx. wcbn.
  rewrite (resolve_PVar _ M e y HM). wcbn.
  unfold env_get at 1. rewrite Hy. wcbn. rewrite Ha. wcbn.
  change (conv U64 n) with (u64 n). rewrite (u64_id n) by lia.
  change [("self_p"%string, cursor_val b sz ps); ("buf_p"%string, bytes_val dst); ("size"%string, VInt n);
          ("i"%string, VUndef); ("pos"%string, VUndef); ("byte_pos"%string, VUndef);
          ("pos_in_byte"%string, VUndef)]
    with (ab_env (cursor_val b sz ps) dst n VUndef VUndef VUndef VUndef).
  destruct (read_bytes {| buf := b; size := sz; pos := ps |} dst n) as [[s' d']| |].
  - destruct HB as (vi & vp & vbp & vpib & fl & -> & Hfl). unfold ab_env. wcbn.
    unfold env_set at 1. rewrite Hx. wcbn.
    destruct (update x (cur_val s') e) as [e1|]; wcbn; [|reflexivity].
    unfold env_set. destruct (lookup y e1); wcbn; [|reflexivity].
    destruct (update y (bytes_val d') e1); wcbn; [|reflexivity].
    destruct Hfl as [-> | ->]; reflexivity.
  - rewrite HB. reflexivity.
  - rewrite HB. reflexivity.
Qed.

Lemma call_read_bytes_scalar L e x y a n b sz ps w0 : (body_fuel <= L)%nat ->
  lookup x e = Some (cursor_val b sz ps) -> lookup y e = Some (VInt w0) ->
  in_s64 sz = true -> in_s64 ps = true -> bytes_ok b ->
  0 <= n < 1152921504606846976 -> (Z.to_nat n < L)%nat ->
  eval helpers_ir (S8 L) e a = ROk (e, n) ->
  call helpers_ir (S (S8 L)) e "decoder_read_bytes" [ARef (PVar x); ARefScalar (PVar y); AVal U64 a] =
  match read_bytes (mkCur b sz ps) [w0] n with
  | COk (s', d') =>
    match update x (cur_val s') e with
    | Some e1 =>
      match rd d' 0 with
      | COk r =>
        match lookup y e1 with
        | Some _ => match update y (VInt r) e1 with
                    | Some e2 => ROk (e2, None) | None => RFail (FStuck "update") end
        | None => RFail (FStuck ("unbound " +++ y))
        end
      | COob => RFail FOob | CUb => RFail FUb
      end
    | None => RFail (FStuck "update")
    end
  | COob => RFail FOob | CUb => RFail FUb end.
Proof.
  intros HL Hx Hy Hsz Hps Bb Hn Hk Ha.
  pose proof (body_read_bytes L b sz ps [w0] n HL Hsz Hps Bb Hn Hk) as HB.
  assert (HM : (1 <= S8 L)%nat) by (unfold S8; lia).
  remember (S8 L) as M eqn:EM.
  rbcall_prologue M HM.
  wcbn. rewrite (resolve_PVar _ M e x HM). wcbn.
  unfold env_get at 1. rewrite Hx. wcbn.
  rewrite (resolve_PVar _ M e y HM). wcbn.
  unfold env_get at 1. rewrite Hy. wcbn. rewrite Ha. wcbn.
  change (conv U64 n) with (u64 n). rewrite (u64_id n) by lia.
  change [("self_p"%string, cursor_val b sz ps); ("buf_p"%string, VArr [VInt w0]); ("size"%string, VInt n);
          ("i"%string, VUndef); ("pos"%string, VUndef); ("byte_pos"%string, VUndef);
          ("pos_in_byte"%string, VUndef)]
    with (ab_env (cursor_val b sz ps) [w0] n VUndef VUndef VUndef VUndef).
  destruct (read_bytes {| buf := b; size := sz; pos := ps |} [w0] n) as [[s' d']| |].
  - destruct HB as (vi & vp & vbp & vpib & fl & -> & Hfl). unfold ab_env. wcbn.
    unfold env_set at 1. rewrite Hx. wcbn.
    destruct (update x (cur_val s') e) as [e1|]; wcbn; [|reflexivity].
    unfold bytes_val at 1. cbv iota beta. rewrite vget_bytes_cbn.
    destruct (rd d' 0) as [r| |]; wcbn; [|reflexivity|reflexivity].
    unfold env_set. destruct (lookup y e1); wcbn; [|reflexivity].
    destruct (update y (VInt r) e1); wcbn; [|reflexivity].
    destruct Hfl as [-> | ->]; reflexivity.
  - rewrite HB. reflexivity.
  - rewrite HB. reflexivity.
Qed.

(* ------------------------------------------------------------------ *)
(** ** decoder_read_uintN *)

Ltac rd_prologue f ls_ rt :=
  unfold run;
  change (lookup f helpers_ir) with (Some (fn_of f));
  cbv iota beta;
  change (f_params (fn_of f)) with [("self_p", PByRef)]%string;
  rcbn; rewrite call_S; unfold call_body;
  change (lookup f helpers_ir) with (Some (fn_of f));
  cbv iota beta;
  change (f_params (fn_of f)) with [("self_p", PByRef)]%string;
  change (f_locals (fn_of f)) with ls_;
  change (f_ret (fn_of f)) with (Some rt).

Theorem ir_decoder_read_uint8_fuel : forall L b sz ps, (body_fuel <= L)%nat ->
  in_s64 sz = true -> in_s64 ps = true -> bytes_ok b ->
  run helpers_ir (S5 (S8 L)) "decoder_read_uint8"%string [cursor_val b sz ps] =
  match read_uint8 (mkCur b sz ps) with
  | COk (s', r) => ROk (Some r, [cursor_val (buf s') (size s') (pos s')])
  | COob => RFail FOob | CUb => RFail FUb end.
Proof.
  intros L b sz ps HL Hsz Hps Bb. unfold S5.
  rd_prologue "decoder_read_uint8"%string [("value", VInt 0)]%string U8.
  change (f_body (fn_of "decoder_read_uint8")) with
    [SExpr (ECall "decoder_read_bytes" [ARef (PVar "self_p"); ARefScalar (PVar "value"); AVal U64 (EConst 1)]);
     SReturn (Some (ERead (PVar "value")))].
  rcbn. rewrite resolve_PVar by lia. rcbn.
  rewrite exec_list_cons, exec_SExpr, eval_ECall.
  assert (Hk : (Z.to_nat 1 < L)%nat) by (unfold body_fuel in HL; lia).
  match goal with |- context [call helpers_ir (S (S8 L)) ?e "decoder_read_bytes"%string _] =>
    rewrite (call_read_bytes_scalar L e "self_p" "value" (EConst 1) 1 b sz ps 0 HL eq_refl eq_refl Hsz Hps
               Bb ltac:(lia) Hk (ui_frag_const (S8 L) e 1 ltac:(unfold S8; lia)))
  end.
  unfold read_uint8.
  destruct (read_bytes {| buf := b; size := sz; pos := ps |} [0] 1) as [[s' d]| |] eqn:RB;
    [|reflexivity|reflexivity].
  rcbn. cbn [cbind].
  destruct (rd d 0) as [r| |] eqn:Rd; rcbn; cbn [cbind]; [|reflexivity|reflexivity].
  rewrite exec_list_cons, exec_SReturn.
  erewrite (eval_read_var_ge _ _ _ "value") by (try reflexivity; unfold S8; lia). rcbn.
  assert (Bd : bytes_ok d).
  { apply (read_bytes_ok {| buf := b; size := sz; pos := ps |} [0] 1 s' d Bb); [|exact RB].
    repeat constructor; unfold is_byte; lia. }
  pose proof (rd_is_byte _ _ _ Bd Rd) as Hr. change (conv U8 r) with (u8 r).
  rewrite (u8_small r Hr). reflexivity.
Qed.

Lemma memcpy_loop_length src : forall k dst doff soff i d,
  memcpy_loop k dst doff src soff i = COk d -> length d = length dst.
Proof.
  induction k as [|k IH]; intros dst doff soff i d H; cbn [memcpy_loop] in H.
  - inversion H; subst; auto.
  - destruct (rd src (soff + i)) as [x| |]; cbn [cbind] in H; try discriminate.
    unfold wr in H. destruct ((0 <=? doff + i) && (doff + i <? len dst)); cbn [cbind] in H; try discriminate.
    rewrite (IH _ _ _ _ _ H). apply upd_length.
Qed.

Lemma read_bytes_loop_length b bp pib : forall k dst i d,
  read_bytes_loop k b bp pib dst i = COk d -> length d = length dst.
Proof.
  induction k as [|k IH]; intros dst i d H; cbn [read_bytes_loop] in H.
  - inversion H; subst; auto.
  - destruct (rd b (bp + i)) as [a| |]; cbn [cbind] in H; try discriminate.
    unfold wr at 1 in H. destruct ((0 <=? i) && (i <? len dst)); cbn [cbind] in H; try discriminate.
    destruct (rd b (bp + i + 1)) as [c| |]; cbn [cbind] in H; try discriminate.
    destruct (rd _ i) as [old| |]; cbn [cbind] in H; try discriminate.
    unfold wr at 1 in H. destruct ((0 <=? i) && (i <? len _)); cbn [cbind] in H; try discriminate.
    rewrite (IH _ _ _ H). now rewrite !upd_length.
Qed.

Lemma read_bytes_length s dst n s' d : read_bytes s dst n = COk (s', d) -> length d = length dst.
Proof.
  unfold read_bytes, decoder_free, alloc_gen.
  destruct (negb (in_s64 _)); cbn [cbind]; try discriminate.
  destruct (_ <=? size s); cbn [cbind].
  - destruct (pos s <? 0); [intros H; assert (dst = d) by congruence; subst; auto|].
    cbn [buf]. destruct (Z.rem (pos s) 8 =? 0).
    + destruct (memcpy dst 0 (buf s) (pos s ÷ 8) n) as [d0| |] eqn:M; cbn [cbind]; try discriminate.
      intros H. assert (d0 = d) by congruence. subst d0. unfold memcpy in M.
      exact (memcpy_loop_length _ _ _ _ _ _ _ M).
    + destruct (read_bytes_loop _ _ _ _ dst 0) as [d0| |] eqn:M; cbn [cbind]; try discriminate.
      intros H. assert (d0 = d) by congruence. subst d0.
      exact (read_bytes_loop_length _ _ _ _ _ _ _ M).
  - change (- EOUTOFDATA <? 0) with true. cbv iota. intros H; assert (dst = d) by congruence; subst; auto.
Qed.

Lemma mod_lor n x y : 0 <= n -> (Z.lor x y) mod 2 ^ n = Z.lor (x mod 2 ^ n) (y mod 2 ^ n).
Proof. intros H. rewrite <- !Z.land_ones by lia. apply Z.land_lor_distr_l. Qed.

Lemma lor_bound n x y : 0 <= n -> 0 <= x < 2 ^ n -> 0 <= y < 2 ^ n -> 0 <= Z.lor x y < 2 ^ n.
Proof.
  intros Hn Hx Hy.
  assert (E : Z.lor x y = (Z.lor x y) mod 2 ^ n).
  { rewrite mod_lor by lia. now rewrite !Z.mod_small by lia. }
  rewrite E. apply Z.mod_pos_bound. apply Z.pow_pos_nonneg; lia.
Qed.

Ltac fold_nats :=
  repeat match goal with
  | |- context [Pos.to_nat ?p] => is_pconst p; let v := eval vm_compute in (Pos.to_nat p) in change (Pos.to_nat p) with v
  end.

Definition ub_env (c : val) (d : list Z) : env := [("self_p", c); ("buf", bytes_val d)]%string.

Definition u16_ret : expr :=
  EBin OOr I32 (EBin OShl I32 (ECast U16 (ERead (PIndex (PVar "buf") (EConst 0)))) (EConst 8))
               (ECast U16 (ERead (PIndex (PVar "buf") (EConst 1)))).

Lemma u16_small z : 0 <= z < 65536 -> u16 z = z.
Proof. intros H. unfold u16. apply Z.mod_small. lia. Qed.

Lemma u16_frag_ret M c x0 x1 : (body_fuel <= M)%nat -> is_byte x0 -> is_byte x1 ->
  eval helpers_ir M (ub_env c [x0; x1]) u16_ret = ROk (ub_env c [x0; x1], Z.lor (Z.shiftl x0 8) x1).
Proof.
  intros H H0 H1. fuel_split M H. unfold is_byte in *. step2. step2.
  change (conv U16 ?z) with (u16 z). rewrite !(u16_small x0) by lia.
  replace (x0 <? 0) with false by lia. step2.
  rewrite (shl_byte_in_s32 x0 8) by (unfold is_byte; lia).
  step2. step2. fold_nats. step2.
  change (conv U16 ?z) with (u16 z). rewrite !(u16_small x1) by lia. reflexivity.
Qed.

Theorem ir_decoder_read_uint16_fuel : forall L b sz ps, (body_fuel <= L)%nat ->
  in_s64 sz = true -> in_s64 ps = true -> bytes_ok b ->
  run helpers_ir (S5 (S8 L)) "decoder_read_uint16"%string [cursor_val b sz ps] =
  match read_uint16 (mkCur b sz ps) (zeros 8) with
  | COk (s', r) => ROk (Some r, [cursor_val (buf s') (size s') (pos s')])
  | COob => RFail FOob | CUb => RFail FUb end.
Proof.
  intros L b sz ps HL Hsz Hps Bb. unfold S5.
  rd_prologue "decoder_read_uint16"%string [("buf", VArr [VInt 0; VInt 0])]%string U16.
  change (f_body (fn_of "decoder_read_uint16")) with
    [SExpr (ECall "decoder_read_bytes" [ARef (PVar "self_p"); ARef (PVar "buf"); AVal U64 (EConst 2)]);
     SReturn (Some u16_ret)].
  rcbn. rewrite resolve_PVar by lia. rcbn.
  rewrite exec_list_cons, exec_SExpr, eval_ECall.
  assert (Hk : (Z.to_nat 2 < L)%nat) by (unfold body_fuel in HL; lia).
  match goal with |- context [call helpers_ir (S (S8 L)) ?e "decoder_read_bytes"%string _] =>
    rewrite (call_read_bytes L e "self_p" "buf" (EConst 2) 2 b sz ps [0; 0] HL eq_refl eq_refl Hsz Hps
               Bb ltac:(lia) Hk (ui_frag_const (S8 L) e 2 ltac:(unfold S8; lia)))
  end.
  unfold read_uint16. change (firstn 2 (zeros 8)) with [0; 0].
  destruct (read_bytes {| buf := b; size := sz; pos := ps |} [0; 0] 2) as [[s' d]| |] eqn:RB;
    [|reflexivity|reflexivity].
  pose proof (read_bytes_length _ _ _ _ _ RB) as Ld.
  assert (Bd : bytes_ok d).
  { apply (read_bytes_ok {| buf := b; size := sz; pos := ps |} [0; 0] 2 s' d Bb); [|exact RB].
    repeat constructor; unfold is_byte; lia. }
  destruct d as [|x0 [|x1 [|? ?]]]; try discriminate.
  inversion Bd as [|? ? B0 Bd1]; subst. inversion Bd1 as [|? ? B1 Bd2]; subst.
  rcbn. cbn [cbind].
  rewrite exec_list_cons, exec_SReturn.
  change [("self_p"%string, cur_val s'); ("buf"%string, bytes_val [x0; x1])] with (ub_env (cur_val s') [x0; x1]).
  rewrite u16_frag_ret by (auto; unfold S8; lia). unfold ub_env. rcbn.
  change (rd [x0; x1] 0) with (COk x0). change (rd [x0; x1] 1) with (COk x1). cbn [cbind].
  change (conv U16 ?z) with (u16 z).
  assert (E : u16 (Z.shiftl x0 8) = Z.shiftl x0 8).
  { apply u16_small. rewrite Z.shiftl_mul_pow2 by lia. change (2 ^ 8) with 256. unfold is_byte in B0. lia. }
  rewrite E. reflexivity.
Qed.

Definition rdb (j : Z) : expr := ERead (PIndex (PVar "buf") (EConst j)).
Definition shl_b (t : ity) (j k : Z) : expr := EBin OShl t (ECast t (rdb j)) (EConst k).

Definition u32_ret : expr :=
  EBin OOr U32 (EBin OOr U32 (EBin OOr U32 (shl_b U32 0 24) (shl_b U32 1 16)) (shl_b U32 2 8)) (ECast U32 (rdb 3)).

Definition u64_ret : expr :=
  EBin OOr U64 (EBin OOr U64 (EBin OOr U64 (EBin OOr U64 (EBin OOr U64 (EBin OOr U64 (EBin OOr U64
    (shl_b U64 0 56) (shl_b U64 1 48)) (shl_b U64 2 40)) (shl_b U64 3 32)) (shl_b U64 4 24))
    (shl_b U64 5 16)) (shl_b U64 6 8)) (ECast U64 (rdb 7)).

Lemma u32_small z : 0 <= z < 4294967296 -> u32 z = z.
Proof. intros H. unfold u32. apply Z.mod_small. lia. Qed.

Lemma u32_frag_ret M c x0 x1 x2 x3 : (body_fuel <= M)%nat ->
  is_byte x0 -> is_byte x1 -> is_byte x2 -> is_byte x3 ->
  eval helpers_ir M (ub_env c [x0; x1; x2; x3]) u32_ret =
  ROk (ub_env c [x0; x1; x2; x3],
       Z.lor (Z.lor (Z.lor (u32 (Z.shiftl x0 24)) (u32 (Z.shiftl x1 16))) (u32 (Z.shiftl x2 8))) x3).
Proof.
  intros H H0 H1 H2 H3. fuel_split M H. unfold is_byte in *.
  do 6 (step2; fold_nats).
  change (conv U32 ?z) with (u32 z).
  repeat match goal with |- context [conv U32 ?z] => change (conv U32 z) with (u32 z) end.
  rewrite !(u32_small x0), !(u32_small x1), !(u32_small x2), !(u32_small x3) by lia. reflexivity.
Qed.

Lemma u64_frag_ret M c x0 x1 x2 x3 x4 x5 x6 x7 : (body_fuel <= M)%nat ->
  is_byte x0 -> is_byte x1 -> is_byte x2 -> is_byte x3 ->
  is_byte x4 -> is_byte x5 -> is_byte x6 -> is_byte x7 ->
  eval helpers_ir M (ub_env c [x0; x1; x2; x3; x4; x5; x6; x7]) u64_ret =
  ROk (ub_env c [x0; x1; x2; x3; x4; x5; x6; x7],
       Z.lor (Z.lor (Z.lor (Z.lor (Z.lor (Z.lor (Z.lor
         (u64 (Z.shiftl x0 56)) (u64 (Z.shiftl x1 48))) (u64 (Z.shiftl x2 40)))
         (u64 (Z.shiftl x3 32))) (u64 (Z.shiftl x4 24))) (u64 (Z.shiftl x5 16)))
         (u64 (Z.shiftl x6 8))) x7).
Proof.
  intros H H0 H1 H2 H3 H4 H5 H6 H7. fuel_split M H. unfold is_byte in *.
  do 10 (step2; fold_nats).
  rewrite !(u64_id x0), !(u64_id x1), !(u64_id x2), !(u64_id x3),
          !(u64_id x4), !(u64_id x5), !(u64_id x6), !(u64_id x7) by lia. reflexivity.
Qed.

Lemma byte_shl_u32_bound x k : 0 <= u32 (Z.shiftl x k) < 2 ^ 32.
Proof. unfold u32. change (2 ^ 32) with 4294967296. apply Z.mod_pos_bound. lia. Qed.
Lemma byte_shl_u64_bound x k : 0 <= u64 (Z.shiftl x k) < 2 ^ 64.
Proof. unfold u64. change (2 ^ 64) with 18446744073709551616. apply Z.mod_pos_bound. lia. Qed.

Theorem ir_decoder_read_uint32_fuel : forall L b sz ps, (body_fuel <= L)%nat ->
  in_s64 sz = true -> in_s64 ps = true -> bytes_ok b ->
  run helpers_ir (S5 (S8 L)) "decoder_read_uint32"%string [cursor_val b sz ps] =
  match read_uint32 (mkCur b sz ps) (zeros 8) with
  | COk (s', r) => ROk (Some r, [cursor_val (buf s') (size s') (pos s')])
  | COob => RFail FOob | CUb => RFail FUb end.
Proof.
  intros L b sz ps HL Hsz Hps Bb. unfold S5.
  rd_prologue "decoder_read_uint32"%string [("buf", VArr [VInt 0; VInt 0; VInt 0; VInt 0])]%string U32.
  change (f_body (fn_of "decoder_read_uint32")) with
    [SExpr (ECall "decoder_read_bytes" [ARef (PVar "self_p"); ARef (PVar "buf"); AVal U64 (EConst 4)]);
     SReturn (Some u32_ret)].
  rcbn. rewrite resolve_PVar by lia. rcbn.
  rewrite exec_list_cons, exec_SExpr, eval_ECall.
  assert (Hk : (Z.to_nat 4 < L)%nat) by (unfold body_fuel in HL; lia).
  match goal with |- context [call helpers_ir (S (S8 L)) ?e "decoder_read_bytes"%string _] =>
    rewrite (call_read_bytes L e "self_p" "buf" (EConst 4) 4 b sz ps [0; 0; 0; 0] HL eq_refl eq_refl Hsz Hps
               Bb ltac:(lia) Hk (ui_frag_const (S8 L) e 4 ltac:(unfold S8; lia)))
  end.
  unfold read_uint32. change (firstn 4 (zeros 8)) with [0; 0; 0; 0].
  destruct (read_bytes {| buf := b; size := sz; pos := ps |} [0; 0; 0; 0] 4) as [[s' d]| |] eqn:RB;
    [|reflexivity|reflexivity].
  pose proof (read_bytes_length _ _ _ _ _ RB) as Ld.
  assert (Bd : bytes_ok d).
  { apply (read_bytes_ok {| buf := b; size := sz; pos := ps |} [0; 0; 0; 0] 4 s' d Bb); [|exact RB].
    repeat constructor; unfold is_byte; lia. }
  destruct d as [|x0 [|x1 [|x2 [|x3 [|? ?]]]]]; try discriminate.
  inversion Bd as [|? ? B0 Bd1]; subst. inversion Bd1 as [|? ? B1 Bd2]; subst.
  inversion Bd2 as [|? ? B2 Bd3]; subst. inversion Bd3 as [|? ? B3 Bd4]; subst.
  rcbn. cbn [cbind].
  rewrite exec_list_cons, exec_SReturn.
  change [("self_p"%string, cur_val s'); ("buf"%string, bytes_val [x0; x1; x2; x3])]
    with (ub_env (cur_val s') [x0; x1; x2; x3]).
  rewrite u32_frag_ret by (auto; unfold S8; lia). unfold ub_env. rcbn.
  change (rd [x0; x1; x2; x3] 0) with (COk x0). change (rd [x0; x1; x2; x3] 1) with (COk x1).
  change (rd [x0; x1; x2; x3] 2) with (COk x2). change (rd [x0; x1; x2; x3] 3) with (COk x3). cbn [cbind].
  change (conv U32 ?z) with (u32 z). rewrite u32_small; [reflexivity|].
  change 4294967296 with (2 ^ 32).
  repeat apply lor_bound; try lia; try apply byte_shl_u32_bound.
  unfold is_byte in B3. change (2 ^ 32) with 4294967296. lia.
Qed.

Theorem ir_decoder_read_uint64_fuel : forall L b sz ps, (body_fuel <= L)%nat ->
  in_s64 sz = true -> in_s64 ps = true -> bytes_ok b ->
  run helpers_ir (S5 (S8 L)) "decoder_read_uint64"%string [cursor_val b sz ps] =
  match read_uint64 (mkCur b sz ps) (zeros 8) with
  | COk (s', r) => ROk (Some r, [cursor_val (buf s') (size s') (pos s')])
  | COob => RFail FOob | CUb => RFail FUb end.
Proof.
  intros L b sz ps HL Hsz Hps Bb. unfold S5.
  rd_prologue "decoder_read_uint64"%string
    [("buf", VArr [VInt 0; VInt 0; VInt 0; VInt 0; VInt 0; VInt 0; VInt 0; VInt 0])]%string U64.
  change (f_body (fn_of "decoder_read_uint64")) with
    [SExpr (ECall "decoder_read_bytes" [ARef (PVar "self_p"); ARef (PVar "buf"); AVal U64 (EConst 8)]);
     SReturn (Some u64_ret)].
  rcbn. rewrite resolve_PVar by lia. rcbn.
  rewrite exec_list_cons, exec_SExpr, eval_ECall.
  assert (Hk : (Z.to_nat 8 < L)%nat) by (unfold body_fuel in HL; lia).
  match goal with |- context [call helpers_ir (S (S8 L)) ?e "decoder_read_bytes"%string _] =>
    rewrite (call_read_bytes L e "self_p" "buf" (EConst 8) 8 b sz ps [0; 0; 0; 0; 0; 0; 0; 0]
               HL eq_refl eq_refl Hsz Hps
               Bb ltac:(lia) Hk (ui_frag_const (S8 L) e 8 ltac:(unfold S8; lia)))
  end.
  unfold read_uint64. change (firstn 8 (zeros 8)) with [0; 0; 0; 0; 0; 0; 0; 0].
  destruct (read_bytes {| buf := b; size := sz; pos := ps |} [0; 0; 0; 0; 0; 0; 0; 0] 8)
    as [[s' d]| |] eqn:RB; [|reflexivity|reflexivity].
  pose proof (read_bytes_length _ _ _ _ _ RB) as Ld.
  assert (Bd : bytes_ok d).
  { apply (read_bytes_ok {| buf := b; size := sz; pos := ps |} [0; 0; 0; 0; 0; 0; 0; 0] 8 s' d Bb);
      [|exact RB]. repeat constructor; unfold is_byte; lia. }
  destruct d as [|x0 [|x1 [|x2 [|x3 [|x4 [|x5 [|x6 [|x7 [|? ?]]]]]]]]]; try discriminate.
  inversion Bd as [|? ? B0 Bd1]; subst. inversion Bd1 as [|? ? B1 Bd2]; subst.
  inversion Bd2 as [|? ? B2 Bd3]; subst. inversion Bd3 as [|? ? B3 Bd4]; subst.
  inversion Bd4 as [|? ? B4 Bd5]; subst. inversion Bd5 as [|? ? B5 Bd6]; subst.
  inversion Bd6 as [|? ? B6 Bd7]; subst. inversion Bd7 as [|? ? B7 Bd8]; subst.
  rcbn. cbn [cbind].
  rewrite exec_list_cons, exec_SReturn.
  change [("self_p"%string, cur_val s'); ("buf"%string, bytes_val [x0; x1; x2; x3; x4; x5; x6; x7])]
    with (ub_env (cur_val s') [x0; x1; x2; x3; x4; x5; x6; x7]).
  rewrite u64_frag_ret by (auto; unfold S8; lia). unfold ub_env. rcbn.
  change (rd [x0; x1; x2; x3; x4; x5; x6; x7] 0) with (COk x0).
  change (rd [x0; x1; x2; x3; x4; x5; x6; x7] 1) with (COk x1).
  change (rd [x0; x1; x2; x3; x4; x5; x6; x7] 2) with (COk x2).
  change (rd [x0; x1; x2; x3; x4; x5; x6; x7] 3) with (COk x3).
  change (rd [x0; x1; x2; x3; x4; x5; x6; x7] 4) with (COk x4).
  change (rd [x0; x1; x2; x3; x4; x5; x6; x7] 5) with (COk x5).
  change (rd [x0; x1; x2; x3; x4; x5; x6; x7] 6) with (COk x6).
  change (rd [x0; x1; x2; x3; x4; x5; x6; x7] 7) with (COk x7). cbn [cbind].
  change (conv U64 ?z) with (u64 z). rewrite u64_id; [reflexivity|].
  change 18446744073709551616 with (2 ^ 64).
  repeat apply lor_bound; try lia; try apply byte_shl_u64_bound.
  unfold is_byte in B7. change (2 ^ 64) with 18446744073709551616. lia.
Qed.

(* ------------------------------------------------------------------ *)
(** ** decoder_read_intN *)

Definition iv_env (c : val) (vv : val) : env := [("self_p", c); ("value", vv)]%string.

Lemma iv_frag_sub M c w t ti k : (body_fuel <= M)%nat -> ity_signed t = true ->
  in_range t (w - k) = true ->
  exec helpers_ir M (iv_env c (VInt w))
    (SAssign (PVar "value") ti (EBin OSub t (ERead (PVar "value")) (EConst k))) =
  ROk (iv_env c (VInt (conv ti (w - k))), FNormal).
Proof.
  intros H Hs Hr. fuel_split M H. symex. unfold arith. rewrite Hs, Hr. reflexivity.
Qed.

Lemma iv_frag_ret M c w : (body_fuel <= M)%nat ->
  exec helpers_ir M (iv_env c (VInt w)) (SReturn (Some (ERead (PVar "value")))) =
  ROk (iv_env c (VInt w), FReturn (Some w)).
Proof. intros H. fuel_split M H. symex. reflexivity. Qed.

Lemma s8_range z : -128 <= s8 z <= 127. Proof. unfold s8. lia. Qed.
Lemma s16_range z : -32768 <= s16 z <= 32767. Proof. unfold s16. lia. Qed.
Lemma s32_range z : -2147483648 <= s32 z <= 2147483647. Proof. unfold s32. lia. Qed.
Lemma s8_s8 z : s8 (s8 z) = s8 z. Proof. unfold s8. lia. Qed.
Lemma s16_s16 z : s16 (s16 z) = s16 z. Proof. unfold s16. lia. Qed.
Lemma s32_s32 z : s32 (s32 z) = s32 z. Proof. unfold s32. lia. Qed.

Ltac ri_call f L b sz ps HL Hsz Hps Bb thm :=
  rewrite exec_list_cons, exec_SAssign;
  try rewrite eval_ECast; rewrite eval_ECall;
  match goal with |- context [call helpers_ir (S ?n') ?e f _] =>
    rewrite (call_of_run_s f (fn_of f) n' e "self_p" (cursor_val b sz ps) eq_refl eq_refl
               ltac:(unfold S5, S8; lia) eq_refl)
  end;
  change (S (S (S (S (S (S8 L)))))) with (S5 (S8 L));
  rewrite (thm L b sz ps HL Hsz Hps Bb).

Theorem ir_decoder_read_int8_fuel : forall L b sz ps, (body_fuel <= L)%nat ->
  in_s64 sz = true -> in_s64 ps = true -> bytes_ok b ->
  run helpers_ir (S5 (S5 (S8 L))) "decoder_read_int8"%string [cursor_val b sz ps] =
  match read_int8 (mkCur b sz ps) with
  | COk (s', r) => ROk (Some r, [cursor_val (buf s') (size s') (pos s')])
  | COob => RFail FOob | CUb => RFail FUb end.
Proof.
  intros L b sz ps HL Hsz Hps Bb. unfold S5.
  rd_prologue "decoder_read_int8"%string [("value", VUndef)]%string I8.
  change (f_body (fn_of "decoder_read_int8")) with
    [SAssign (PVar "value") I8 (ECast I8 (ECall "decoder_read_uint8" [ARef (PVar "self_p")]));
     SAssign (PVar "value") I8 (EBin OSub I32 (ERead (PVar "value")) (EConst 128));
     SReturn (Some (ERead (PVar "value")))].
  rcbn. rewrite resolve_PVar by lia. rcbn.
  ri_call "decoder_read_uint8"%string L b sz ps HL Hsz Hps Bb ir_decoder_read_uint8_fuel.
  unfold read_int8.
  destruct (read_uint8 {| buf := b; size := sz; pos := ps |}) as [[s' u]| |]; [|reflexivity|reflexivity].
  rcbn. cbn [cbind]. rewrite resolve_PVar by (unfold S8; lia). rcbn.
  change (conv I8 ?z) with (s8 z). rewrite s8_s8.
  change [("self_p"%string, ?c); ("value"%string, ?vv)] with (iv_env c vv).
  assert (HM : (body_fuel <= S8 L)%nat) by (unfold S8; lia).
  rewrite exec_list_cons, (iv_frag_sub _ _ _ I32 I8 128) by
    (try reflexivity; try (unfold S5, S8; lia);
     pose proof (s8_range u); unfold in_range; cbn [ity_signed ity_bits ity_min ity_max];
     change (2 ^ (32 - 1)) with 2147483648; lia).
  rcbn. rewrite exec_list_cons, iv_frag_ret by (unfold S5, S8; lia). unfold iv_env. rcbn.
  change (conv I8 ?z) with (s8 z). rewrite s8_s8. reflexivity.
Qed.

Theorem ir_decoder_read_int16_fuel : forall L b sz ps, (body_fuel <= L)%nat ->
  in_s64 sz = true -> in_s64 ps = true -> bytes_ok b ->
  run helpers_ir (S5 (S5 (S8 L))) "decoder_read_int16"%string [cursor_val b sz ps] =
  match read_int16 (mkCur b sz ps) (zeros 8) with
  | COk (s', r) => ROk (Some r, [cursor_val (buf s') (size s') (pos s')])
  | COob => RFail FOob | CUb => RFail FUb end.
Proof.
  intros L b sz ps HL Hsz Hps Bb. unfold S5.
  rd_prologue "decoder_read_int16"%string [("value", VUndef)]%string I16.
  change (f_body (fn_of "decoder_read_int16")) with
    [SAssign (PVar "value") I16 (ECast I16 (ECall "decoder_read_uint16" [ARef (PVar "self_p")]));
     SAssign (PVar "value") I16 (EBin OSub I32 (ERead (PVar "value")) (EConst 32768));
     SReturn (Some (ERead (PVar "value")))].
  rcbn. rewrite resolve_PVar by lia. rcbn.
  ri_call "decoder_read_uint16"%string L b sz ps HL Hsz Hps Bb ir_decoder_read_uint16_fuel.
  unfold read_int16.
  destruct (read_uint16 {| buf := b; size := sz; pos := ps |} (zeros 8)) as [[s' u]| |];
    [|reflexivity|reflexivity].
  rcbn. cbn [cbind]. rewrite resolve_PVar by (unfold S8; lia). rcbn.
  change (conv I16 ?z) with (s16 z). rewrite s16_s16.
  change [("self_p"%string, ?c); ("value"%string, ?vv)] with (iv_env c vv).
  rewrite exec_list_cons, (iv_frag_sub _ _ _ I32 I16 32768) by
    (try reflexivity; try (unfold S5, S8; lia);
     pose proof (s16_range u); unfold in_range; cbn [ity_signed ity_bits ity_min ity_max];
     change (2 ^ (32 - 1)) with 2147483648; lia).
  rcbn. rewrite exec_list_cons, iv_frag_ret by (unfold S5, S8; lia). unfold iv_env. rcbn.
  change (conv I16 ?z) with (s16 z). rewrite s16_s16. reflexivity.
Qed.

Theorem ir_decoder_read_int32_fuel : forall L b sz ps, (body_fuel <= L)%nat ->
  in_s64 sz = true -> in_s64 ps = true -> bytes_ok b ->
  run helpers_ir (S5 (S5 (S8 L))) "decoder_read_int32"%string [cursor_val b sz ps] =
  match read_int32 (mkCur b sz ps) (zeros 8) with
  | COk (s', r) => ROk (Some r, [cursor_val (buf s') (size s') (pos s')])
  | COob => RFail FOob | CUb => RFail FUb end.
Proof.
  intros L b sz ps HL Hsz Hps Bb. unfold S5.
  rd_prologue "decoder_read_int32"%string [("value", VUndef)]%string I32.
  change (f_body (fn_of "decoder_read_int32")) with
    [SAssign (PVar "value") I32 (ECast I32 (ECall "decoder_read_uint32" [ARef (PVar "self_p")]));
     SAssign (PVar "value") I32 (EBin OSub I64 (ERead (PVar "value")) (EConst 2147483648));
     SReturn (Some (ERead (PVar "value")))].
  rcbn. rewrite resolve_PVar by lia. rcbn.
  ri_call "decoder_read_uint32"%string L b sz ps HL Hsz Hps Bb ir_decoder_read_uint32_fuel.
  unfold read_int32.
  destruct (read_uint32 {| buf := b; size := sz; pos := ps |} (zeros 8)) as [[s' u]| |];
    [|reflexivity|reflexivity].
  rcbn. cbn [cbind]. rewrite resolve_PVar by (unfold S8; lia). rcbn.
  change (conv I32 ?z) with (s32 z). rewrite s32_s32.
  change [("self_p"%string, ?c); ("value"%string, ?vv)] with (iv_env c vv).
  rewrite exec_list_cons, (iv_frag_sub _ _ _ I64 I32 2147483648) by
    (try reflexivity; try (unfold S5, S8; lia);
     pose proof (s32_range u); change (in_range I64 ?z) with (in_s64 z); unfold in_s64; lia).
  rcbn. rewrite exec_list_cons, iv_frag_ret by (unfold S5, S8; lia). unfold iv_env. rcbn.
  change (conv I32 ?z) with (s32 z). rewrite s32_s32. reflexivity.
Qed.

Lemma iv_frag_sub64 M c w : (body_fuel <= M)%nat ->
  exec helpers_ir M (iv_env c (VInt w))
    (SAssign (PVar "value") U64 (EBin OSub U64 (ERead (PVar "value")) (EConst 9223372036854775808))) =
  ROk (iv_env c (VInt (u64 (w - 9223372036854775808))), FNormal).
Proof. intros H. fuel_split M H. step2. rewrite u64_u64. reflexivity. Qed.

Lemma iv_frag_ret64 M c w : (body_fuel <= M)%nat ->
  exec helpers_ir M (iv_env c (VInt w)) (SReturn (Some (ECast I64 (ERead (PVar "value"))))) =
  ROk (iv_env c (VInt w), FReturn (Some (s64 w))).
Proof. intros H. fuel_split M H. step2. reflexivity. Qed.

Lemma s64_s64 z : s64 (s64 z) = s64 z. Proof. unfold s64. lia. Qed.

Theorem ir_decoder_read_int64_fuel : forall L b sz ps, (body_fuel <= L)%nat ->
  in_s64 sz = true -> in_s64 ps = true -> bytes_ok b ->
  run helpers_ir (S (S (S (S (S5 (S8 L)))))) "decoder_read_int64"%string [cursor_val b sz ps] =
  match read_int64 (mkCur b sz ps) (zeros 8) with
  | COk (s', r) => ROk (Some r, [cursor_val (buf s') (size s') (pos s')])
  | COob => RFail FOob | CUb => RFail FUb end.
Proof.
  intros L b sz ps HL Hsz Hps Bb. unfold S5.
  rd_prologue "decoder_read_int64"%string [("value", VUndef)]%string I64.
  change (f_body (fn_of "decoder_read_int64")) with
    [SAssign (PVar "value") U64 (ECall "decoder_read_uint64" [ARef (PVar "self_p")]);
     SAssign (PVar "value") U64 (EBin OSub U64 (ERead (PVar "value")) (EConst 9223372036854775808));
     SReturn (Some (ECast I64 (ERead (PVar "value"))))].
  rcbn. rewrite resolve_PVar by lia. rcbn.
  ri_call "decoder_read_uint64"%string L b sz ps HL Hsz Hps Bb ir_decoder_read_uint64_fuel.
  unfold read_int64.
  destruct (read_uint64 {| buf := b; size := sz; pos := ps |} (zeros 8)) as [[s' u]| |];
    [|reflexivity|reflexivity].
  rcbn. cbn [cbind]. rewrite resolve_PVar by (unfold S8; lia). rcbn.
  change [("self_p"%string, ?c); ("value"%string, ?vv)] with (iv_env c vv).
  rewrite exec_list_cons, iv_frag_sub64 by (unfold S5, S8; lia).
  rcbn. rewrite exec_list_cons, iv_frag_ret64 by (unfold S5, S8; lia). unfold iv_env. rcbn.
  change (conv I64 ?z) with (s64 z). change (conv U64 ?z) with (u64 z).
  rewrite s64_s64. f_equal. f_equal. f_equal. unfold s64, u64. lia.
Qed.

(* ================================================================== *)
(** * The fixed-size helpers for every fuel from 80 on *)

Ltac any_fuel e thm :=
  match goal with |- context [run helpers_ir ?fuel _ _] =>
    replace fuel with e by (unfold loop_fuel, S13, S5, S8, body_fuel; lia);
    apply thm; auto; unfold body_fuel; lia
  end.

Theorem ir_encoder_append_bool : forall fuel b sz ps z, (80 <= fuel)%nat ->
  in_s64 sz = true -> in_s64 ps = true ->
  run helpers_ir fuel "encoder_append_bool"%string [cursor_val b sz ps; VInt z] =
  match append_bool (mkCur b sz ps) (negb (z =? 0)) with
  | COk s' => ROk (None, [cursor_val (buf s') (size s') (pos s'); VInt z])
  | COob => RFail FOob | CUb => RFail FUb end.
Proof. intros fuel b sz ps z Hf Hsz Hps. any_fuel (S (loop_fuel (fuel - 45))) ir_encoder_append_bool_fuel. Qed.

Theorem ir_decoder_read_bool : forall fuel b sz ps, (80 <= fuel)%nat ->
  in_s64 sz = true -> in_s64 ps = true ->
  run helpers_ir fuel "decoder_read_bool"%string [cursor_val b sz ps] =
  match read_bool (mkCur b sz ps) with
  | COk (s', v) => ROk (Some (if v then 1 else 0), [cursor_val (buf s') (size s') (pos s')])
  | COob => RFail FOob | CUb => RFail FUb end.
Proof.
  intros fuel b sz ps Hf Hsz Hps.
  any_fuel (S (S (S (S (S (S (body_fuel + (fuel - 46)))))))) ir_decoder_read_bool_fuel.
Qed.

Theorem ir_encoder_append_uint8 : forall fuel b sz ps v, (80 <= fuel)%nat ->
  in_s64 sz = true -> in_s64 ps = true ->
  run helpers_ir fuel "encoder_append_uint8"%string [cursor_val b sz ps; VInt v] =
  match append_uint8 (mkCur b sz ps) v with
  | COk s' => ROk (None, [cursor_val (buf s') (size s') (pos s'); VInt v])
  | COob => RFail FOob | CUb => RFail FUb end.
Proof.
  intros fuel b sz ps v Hf Hsz Hps.
  any_fuel (S (S (S (S (S (S (S8 (fuel - 14)))))))) ir_encoder_append_uint8_fuel.
Qed.

Theorem ir_encoder_append_uint16 : forall fuel b sz ps v, (80 <= fuel)%nat ->
  in_s64 sz = true -> in_s64 ps = true ->
  run helpers_ir fuel "encoder_append_uint16"%string [cursor_val b sz ps; VInt v] =
  match append_uint16 (mkCur b sz ps) v with
  | COk s' => ROk (None, [cursor_val (buf s') (size s') (pos s'); VInt v])
  | COob => RFail FOob | CUb => RFail FUb end.
Proof.
  intros fuel b sz ps v Hf Hsz Hps.
  any_fuel (S (S (S (S (S (S (S (S8 (fuel - 15))))))))) ir_encoder_append_uint16_fuel.
Qed.

Theorem ir_encoder_append_uint32 : forall fuel b sz ps v, (80 <= fuel)%nat ->
  in_s64 sz = true -> in_s64 ps = true ->
  run helpers_ir fuel "encoder_append_uint32"%string [cursor_val b sz ps; VInt v] =
  match append_uint32 (mkCur b sz ps) v with
  | COk s' => ROk (None, [cursor_val (buf s') (size s') (pos s'); VInt v])
  | COob => RFail FOob | CUb => RFail FUb end.
Proof.
  intros fuel b sz ps v Hf Hsz Hps.
  any_fuel (S (S (S (S (S (S (S (S (S (S8 (fuel - 17))))))))))) ir_encoder_append_uint32_fuel.
Qed.

Theorem ir_encoder_append_uint64 : forall fuel b sz ps v, (80 <= fuel)%nat ->
  in_s64 sz = true -> in_s64 ps = true ->
  run helpers_ir fuel "encoder_append_uint64"%string [cursor_val b sz ps; VInt v] =
  match append_uint64 (mkCur b sz ps) v with
  | COk s' => ROk (None, [cursor_val (buf s') (size s') (pos s'); VInt v])
  | COob => RFail FOob | CUb => RFail FUb end.
Proof.
  intros fuel b sz ps v Hf Hsz Hps.
  any_fuel (S (S (S (S (S (S (S (S (S (S (S (S (S (S8 (fuel - 21))))))))))))))) ir_encoder_append_uint64_fuel.
Qed.

Theorem ir_encoder_append_int8 : forall fuel b sz ps v, (80 <= fuel)%nat ->
  in_s64 sz = true -> in_s64 ps = true ->
  run helpers_ir fuel "encoder_append_int8"%string [cursor_val b sz ps; VInt v] =
  match append_int8 (mkCur b sz ps) v with
  | COk s' => ROk (None, [cursor_val (buf s') (size s') (pos s'); VInt v])
  | COob => RFail FOob | CUb => RFail FUb end.
Proof. intros fuel b sz ps v Hf Hsz Hps. any_fuel (S5 (S5 (S8 (fuel - 18)))) ir_encoder_append_int8_fuel. Qed.

Theorem ir_encoder_append_int16 : forall fuel b sz ps v, (80 <= fuel)%nat ->
  in_s64 sz = true -> in_s64 ps = true ->
  run helpers_ir fuel "encoder_append_int16"%string [cursor_val b sz ps; VInt v] =
  match append_int16 (mkCur b sz ps) v with
  | COk s' => ROk (None, [cursor_val (buf s') (size s') (pos s'); VInt v])
  | COob => RFail FOob | CUb => RFail FUb end.
Proof. intros fuel b sz ps v Hf Hsz Hps. any_fuel (S (S5 (S5 (S8 (fuel - 19))))) ir_encoder_append_int16_fuel. Qed.

Theorem ir_encoder_append_int32 : forall fuel b sz ps v, (80 <= fuel)%nat ->
  in_s64 sz = true -> in_s64 ps = true ->
  run helpers_ir fuel "encoder_append_int32"%string [cursor_val b sz ps; VInt v] =
  match append_int32 (mkCur b sz ps) v with
  | COk s' => ROk (None, [cursor_val (buf s') (size s') (pos s'); VInt v])
  | COob => RFail FOob | CUb => RFail FUb end.
Proof.
  intros fuel b sz ps v Hf Hsz Hps.
  any_fuel (S (S (S (S5 (S5 (S8 (fuel - 21))))))) ir_encoder_append_int32_fuel.
Qed.

Theorem ir_encoder_append_int64 : forall fuel b sz ps v, (80 <= fuel)%nat ->
  in_s64 sz = true -> in_s64 ps = true ->
  run helpers_ir fuel "encoder_append_int64"%string [cursor_val b sz ps; VInt v] =
  match append_int64 (mkCur b sz ps) v with
  | COk s' => ROk (None, [cursor_val (buf s') (size s') (pos s'); VInt v])
  | COob => RFail FOob | CUb => RFail FUb end.
Proof. intros fuel b sz ps v Hf Hsz Hps. any_fuel (S (S5 (S13 (S8 (fuel - 27))))) ir_encoder_append_int64_fuel. Qed.

Theorem ir_decoder_read_uint8 : forall fuel b sz ps, (80 <= fuel)%nat ->
  in_s64 sz = true -> in_s64 ps = true -> bytes_ok b ->
  run helpers_ir fuel "decoder_read_uint8"%string [cursor_val b sz ps] =
  match read_uint8 (mkCur b sz ps) with
  | COk (s', r) => ROk (Some r, [cursor_val (buf s') (size s') (pos s')])
  | COob => RFail FOob | CUb => RFail FUb end.
Proof. intros fuel b sz ps Hf Hsz Hps Bb. any_fuel (S5 (S8 (fuel - 13))) ir_decoder_read_uint8_fuel. Qed.

Theorem ir_decoder_read_uint16 : forall fuel b sz ps, (80 <= fuel)%nat ->
  in_s64 sz = true -> in_s64 ps = true -> bytes_ok b ->
  run helpers_ir fuel "decoder_read_uint16"%string [cursor_val b sz ps] =
  match read_uint16 (mkCur b sz ps) (zeros 8) with
  | COk (s', r) => ROk (Some r, [cursor_val (buf s') (size s') (pos s')])
  | COob => RFail FOob | CUb => RFail FUb end.
Proof. intros fuel b sz ps Hf Hsz Hps Bb. any_fuel (S5 (S8 (fuel - 13))) ir_decoder_read_uint16_fuel. Qed.

Theorem ir_decoder_read_uint32 : forall fuel b sz ps, (80 <= fuel)%nat ->
  in_s64 sz = true -> in_s64 ps = true -> bytes_ok b ->
  run helpers_ir fuel "decoder_read_uint32"%string [cursor_val b sz ps] =
  match read_uint32 (mkCur b sz ps) (zeros 8) with
  | COk (s', r) => ROk (Some r, [cursor_val (buf s') (size s') (pos s')])
  | COob => RFail FOob | CUb => RFail FUb end.
Proof. intros fuel b sz ps Hf Hsz Hps Bb. any_fuel (S5 (S8 (fuel - 13))) ir_decoder_read_uint32_fuel. Qed.

Theorem ir_decoder_read_uint64 : forall fuel b sz ps, (80 <= fuel)%nat ->
  in_s64 sz = true -> in_s64 ps = true -> bytes_ok b ->
  run helpers_ir fuel "decoder_read_uint64"%string [cursor_val b sz ps] =
  match read_uint64 (mkCur b sz ps) (zeros 8) with
  | COk (s', r) => ROk (Some r, [cursor_val (buf s') (size s') (pos s')])
  | COob => RFail FOob | CUb => RFail FUb end.
Proof. intros fuel b sz ps Hf Hsz Hps Bb. any_fuel (S5 (S8 (fuel - 13))) ir_decoder_read_uint64_fuel. Qed.

Theorem ir_decoder_read_int8 : forall fuel b sz ps, (80 <= fuel)%nat ->
  in_s64 sz = true -> in_s64 ps = true -> bytes_ok b ->
  run helpers_ir fuel "decoder_read_int8"%string [cursor_val b sz ps] =
  match read_int8 (mkCur b sz ps) with
  | COk (s', r) => ROk (Some r, [cursor_val (buf s') (size s') (pos s')])
  | COob => RFail FOob | CUb => RFail FUb end.
Proof. intros fuel b sz ps Hf Hsz Hps Bb. any_fuel (S5 (S5 (S8 (fuel - 18)))) ir_decoder_read_int8_fuel. Qed.

Theorem ir_decoder_read_int16 : forall fuel b sz ps, (80 <= fuel)%nat ->
  in_s64 sz = true -> in_s64 ps = true -> bytes_ok b ->
  run helpers_ir fuel "decoder_read_int16"%string [cursor_val b sz ps] =
  match read_int16 (mkCur b sz ps) (zeros 8) with
  | COk (s', r) => ROk (Some r, [cursor_val (buf s') (size s') (pos s')])
  | COob => RFail FOob | CUb => RFail FUb end.
Proof. intros fuel b sz ps Hf Hsz Hps Bb. any_fuel (S5 (S5 (S8 (fuel - 18)))) ir_decoder_read_int16_fuel. Qed.

Theorem ir_decoder_read_int32 : forall fuel b sz ps, (80 <= fuel)%nat ->
  in_s64 sz = true -> in_s64 ps = true -> bytes_ok b ->
  run helpers_ir fuel "decoder_read_int32"%string [cursor_val b sz ps] =
  match read_int32 (mkCur b sz ps) (zeros 8) with
  | COk (s', r) => ROk (Some r, [cursor_val (buf s') (size s') (pos s')])
  | COob => RFail FOob | CUb => RFail FUb end.
Proof. intros fuel b sz ps Hf Hsz Hps Bb. any_fuel (S5 (S5 (S8 (fuel - 18)))) ir_decoder_read_int32_fuel. Qed.

Theorem ir_decoder_read_int64 : forall fuel b sz ps, (80 <= fuel)%nat ->
  in_s64 sz = true -> in_s64 ps = true -> bytes_ok b ->
  run helpers_ir fuel "decoder_read_int64"%string [cursor_val b sz ps] =
  match read_int64 (mkCur b sz ps) (zeros 8) with
  | COk (s', r) => ROk (Some r, [cursor_val (buf s') (size s') (pos s')])
  | COob => RFail FOob | CUb => RFail FUb end.
Proof.
  intros fuel b sz ps Hf Hsz Hps Bb.
  any_fuel (S (S (S (S (S5 (S8 (fuel - 17))))))) ir_decoder_read_int64_fuel.
Qed.
