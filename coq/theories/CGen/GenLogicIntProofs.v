(** Proofs about CGen/GenLogicInt.v: the integer fast path of the UPER C
    generator is X.691's constrained whole number exactly for the repaired
    decision; the decision as it was is refuted with the witnesses replayed on
    /repo by the check. *)
From Asn1V Require Import Base.Prelude CGen.GenLogic CGen.GenLogicInt.

Lemma nbits_spec size : 0 < size -> 2 ^ (nbits size - 1) <= size < 2 ^ nbits size.
Proof.
  intros H. unfold nbits. destruct (size <=? 0) eqn:E; [lia|].
  replace (Z.log2 size + 1 - 1) with (Z.log2 size) by lia.
  replace (Z.log2 size + 1) with (Z.succ (Z.log2 size)) by lia.
  apply Z.log2_spec. exact H.
Qed.

Lemma nbits_pos_size size : 0 < nbits size -> 0 < size.
Proof. unfold nbits. destruct (size <=? 0) eqn:E; lia. Qed.

Ltac decide_cmp :=
  repeat match goal with
  | |- context [?a <? ?b] =>
    let E := fresh "E" in
    first [assert (E : (a <? b) = true) by lia | assert (E : (a <? b) = false) by lia]; rewrite E; clear E
  | |- context [?a >? ?b] =>
    let E := fresh "E" in
    first [assert (E : (a >? b) = true) by lia | assert (E : (a >? b) = false) by lia]; rewrite E; clear E
  end.

(** On the fast path the C type chosen for the range is exactly as wide as the
    X.691 field, and the helper's offset is the lower bound. *)
Lemma fast_path_width lo hi :
  lo <= hi -> fast_path (nbits (hi - lo)) lo = true ->
  type_length_fixed lo hi = Some (nbits (hi - lo)) /\ helper_offset lo (nbits (hi - lo)) = lo.
Proof.
  intros Hle H. unfold fast_path in H. apply andb_prop in H. destruct H as [HW H].
  unfold is_word_width in HW.
  assert (Hpos : 0 < nbits (hi - lo)) by lia.
  pose proof (nbits_spec (hi - lo) (nbits_pos_size _ Hpos)) as B.
  remember (nbits (hi - lo)) as nb eqn:Enb. clear Enb.
  assert (W : nb = 8 \/ nb = 16 \/ nb = 32 \/ nb = 64) by lia.
  destruct W as [W|[W|[W|W]]]; subst nb;
    [ change (2 ^ (8 - 1)) with 128 in *; change (2 ^ 8) with 256 in *
    | change (2 ^ (16 - 1)) with 32768 in *; change (2 ^ 16) with 65536 in *
    | change (2 ^ (32 - 1)) with 2147483648 in *; change (2 ^ 32) with 4294967296 in *
    | change (2 ^ (64 - 1)) with 9223372036854775808 in *; change (2 ^ 64) with 18446744073709551616 in * ];
    (assert (L : lo = 0 \/ lo < 0) by lia; destruct L as [L|L];
     [ subst lo | ]);
    unfold type_length_fixed, helper_offset; decide_cmp; cbn [andb];
    try change (2 ^ (8 - 1)) with 128; try change (2 ^ (16 - 1)) with 32768;
    try change (2 ^ (32 - 1)) with 2147483648; try change (2 ^ (64 - 1)) with 9223372036854775808;
    decide_cmp; cbn; split; try (reflexivity || lia);
    f_equal; repeat match goal with |- context [if ?c then _ else _] => destruct c end; lia.
Qed.

(** The repaired generator emits X.691's constrained whole number for every
    range it accepts and every value of the range. *)
Theorem emit_fast_path_is_x691 : forall lo hi v,
  lo <= hi -> lo <= v <= hi -> type_length_fixed lo hi <> None ->
  emit fast_path lo hi v = Some (x691_constrained lo hi v).
Proof.
  intros lo hi v Hle Hv Hrep. unfold emit, x691_constrained.
  destruct (fast_path (nbits (hi - lo)) lo) eqn:F; [|reflexivity].
  destruct (fast_path_width lo hi Hle F) as [T O]. rewrite T, O. reflexivity.
Qed.

(** The decision as it was tests width and minimum independently: for
    INTEGER (-32768..-32513) (an 8-bit field) it calls encoder_append_int16 and
    writes 16 bits; for INTEGER (-128..65000) (a 16-bit field) it calls
    encoder_append_int32 and writes 32 bits of v + 2^31. *)
Theorem emit_fast_path_old_refuted :
  exists lo hi v, lo <= hi /\ lo <= v <= hi /\ type_length_fixed lo hi <> None /\
                  emit fast_path_old lo hi v <> Some (x691_constrained lo hi v).
Proof.
  exists (-32768), (-32513), (-32763). repeat split; try lia; vm_compute; congruence.
Qed.

Example emit_old_int16_for_8_bits :
  emit fast_path_old (-32768) (-32513) (-32763) = Some (16, 5) /\
  x691_constrained (-32768) (-32513) (-32763) = (8, 5) /\
  emit fast_path (-32768) (-32513) (-32763) = Some (8, 5).
Proof. repeat split; vm_compute; reflexivity. Qed.

Example emit_old_int32_for_16_bits :
  emit fast_path_old (-128) 65000 1000 = Some (32, 2147484648) /\
  x691_constrained (-128) 65000 1000 = (16, 1128) /\
  emit fast_path (-128) 65000 1000 = Some (16, 1128).
Proof. repeat split; vm_compute; reflexivity. Qed.

(** Both decisions agree wherever the old one was right: they differ only on
    negative minima that are a word minimum of another width. *)
Theorem fast_path_old_differs_only_there : forall nb lo,
  fast_path_old nb lo <> fast_path nb lo ->
  is_word_width nb = true /\ lo < 0 /\ lo <> - 2 ^ (nb - 1) /\
  (lo = -128 \/ lo = -32768 \/ lo = -2147483648 \/ lo = -9223372036854775808).
Proof.
  intros nb lo H. unfold fast_path_old, fast_path in H.
  destruct (is_word_width nb) eqn:W; [|cbn in H; congruence].
  cbn [andb] in H. split; [reflexivity|].
  destruct (lo =? 0) eqn:Z0; [cbn in H; congruence|]. cbn [orb] in H.
  destruct (lo =? - 2 ^ (nb - 1)) eqn:Z1.
  - exfalso. apply H. unfold is_word_width in W.
    assert (C : nb = 8 \/ nb = 16 \/ nb = 32 \/ nb = 64) by lia.
    destruct C as [C|[C|[C|C]]]; subst nb;
      [ change (2 ^ (8 - 1)) with 128 in Z1 | change (2 ^ (16 - 1)) with 32768 in Z1
      | change (2 ^ (32 - 1)) with 2147483648 in Z1 | change (2 ^ (64 - 1)) with 9223372036854775808 in Z1 ];
      assert (E : lo = -128 \/ lo = -32768 \/ lo = -2147483648 \/ lo = -9223372036854775808) by lia;
      destruct E as [E|[E|[E|E]]]; subst lo; try lia; reflexivity.
  - destruct (lo =? -128) eqn:A; destruct (lo =? -32768) eqn:B; destruct (lo =? -2147483648) eqn:C;
      destruct (lo =? -9223372036854775808) eqn:D; cbn in H; try congruence; lia.
Qed.

(** ------------------------------------------------------------------
    ENUMERATED: without the switch the generated code is right. *)
Lemma identity_from_nth : forall values i k v,
  identity_from i values = true -> nth_error values k = Some v -> v = i + Z.of_nat k.
Proof.
  induction values as [|x r IH]; intros i k v H Hn.
  - destruct k; discriminate.
  - cbn [identity_from] in H. apply andb_prop in H. destruct H as [Hx Hr].
    destruct k as [|k]; cbn [nth_error] in Hn.
    + inversion Hn; subst. lia.
    + rewrite (IH (i + 1) k v Hr Hn). lia.
Qed.

(** When no mapping is emitted, the number of the k-th enumerator (in X.691's
    order) IS k: writing the number is writing the index, reading the index is
    reading the number. *)
Theorem enum_no_mapping_sound : forall values k v,
  enum_mapping_required values = false -> nth_error values k = Some v -> v = Z.of_nat k.
Proof.
  intros values k v H Hn. unfold enum_mapping_required in H.
  rewrite (identity_from_nth values 0 k v); [lia| |exact Hn].
  destruct (identity_from 0 values); [reflexivity|discriminate].
Qed.

(** For distinct non-negative numbers in ascending order the test "largest =
    count - 1" is equivalent; with a negative number it is not:
    {falling(-1), rising(1), surging(2)} has largest 2 = 3 - 1, yet falling has
    index 0 and number -1. *)
Theorem enum_mapping_by_max_refuted :
  exists values k v, enum_mapping_required_by_max values = false /\
                     nth_error values k = Some v /\ v <> Z.of_nat k /\
                     enum_mapping_required values = true.
Proof. exists [-1; 1; 2], 0%nat, (-1). repeat split; vm_compute; congruence. Qed.
