(** Proofs about CGen/GenLogic.v. *)
From Asn1V Require Import Base.Prelude CGen.GenLogic.

(** The repaired type selection is sound: every value of the range fits the
    C type. *)
Theorem type_length_fixed_sound : forall lo hi w v,
  lo <= hi -> type_length_fixed lo hi = Some w -> lo <= v <= hi -> fits (lo <? 0) w v.
Proof.
  intros lo hi w v Hle H Hv. unfold type_length_fixed in H.
  destruct (lo <? -9223372036854775808) eqn:E1; [discriminate|].
  destruct (hi >? 18446744073709551615) eqn:E2; [discriminate|].
  destruct ((lo <? 0) && (hi >? 9223372036854775807)) eqn:E3; [discriminate|].
  unfold fits.
  destruct (lo <? 0) eqn:S.
  - cbv zeta beta iota in H.
    destruct (lo <? -2147483648) eqn:A1; destruct (lo <? -32768) eqn:A2; destruct (lo <? -128) eqn:A3;
      destruct (hi >? 2147483647) eqn:B1; destruct (hi >? 32767) eqn:B2; destruct (hi >? 127) eqn:B3;
      destruct (hi >? 0) eqn:B4; cbn in H; inversion H; subst w; try lia;
      change (2 ^ (64 - 1)) with 9223372036854775808; change (2 ^ (32 - 1)) with 2147483648;
      change (2 ^ (16 - 1)) with 32768; change (2 ^ (8 - 1)) with 128; lia.
  - cbv zeta beta iota in H.
    assert (L1 : (lo <? -2147483648) = false) by lia. assert (L2 : (lo <? -32768) = false) by lia.
    assert (L3 : (lo <? -128) = false) by lia. rewrite L1, L2, L3 in H.
    destruct (hi >? 4294967295) eqn:B1; destruct (hi >? 65535) eqn:B2; destruct (hi >? 255) eqn:B3;
      destruct (hi >? 0) eqn:B4; cbn in H; inversion H; subst w; try lia;
      change (2 ^ 64) with 18446744073709551616; change (2 ^ 32) with 4294967296;
      change (2 ^ 16) with 65536; change (2 ^ 8) with 256; lia.
Qed.

(** The selection as it is in /repo is NOT sound: INTEGER (-1..200) gets 8 bits
    signed, and 200 does not fit (finding int-signed-half; the witness is
    replayed on /repo by the check). *)
Theorem type_length_signed_half_refuted :
  exists lo hi w v, lo <= hi /\ type_length lo hi = Some w /\ lo <= v <= hi /\ ~ fits (lo <? 0) w v.
Proof.
  exists (-1), 200, 8, 200. split; [lia|]. split; [reflexivity|]. split; [lia|].
  unfold fits. cbn. lia.
Qed.

(** For non-negative minima both agree (the defect is confined to negative minima). *)
Theorem type_length_agree_unsigned : forall lo hi, 0 <= lo -> type_length lo hi = type_length_fixed lo hi.
Proof.
  intros lo hi H. unfold type_length, type_length_fixed.
  assert (E : (lo <? 0) = false) by lia. rewrite E. reflexivity.
Qed.

Lemma nbits_bound size : 0 <= size -> size < 2 ^ nbits size.
Proof.
  intros H. unfold nbits. destruct (size <=? 0) eqn:E.
  - assert (size = 0) by lia. subst. cbn. lia.
  - assert (0 < size) by lia. pose proof (Z.log2_spec size H0) as [_ U].
    replace (Z.succ (Z.log2 size)) with (Z.log2 size + 1) in U by lia. exact U.
Qed.

(** No check is needed when the field width matches the range exactly ... *)
Theorem bits_match_no_check_needed : forall bits lo hi raw,
  bits_match_range bits lo hi = true -> 0 <= raw < 2 ^ bits -> lo <= lo + raw <= hi.
Proof. unfold bits_match_range. intros. lia. Qed.

(** ... and a check IS needed otherwise: some raw field value leaves the range. *)
Theorem bits_mismatch_check_needed : forall lo hi,
  lo <= hi -> bits_match_range (nbits (hi - lo)) lo hi = false ->
  exists raw, 0 <= raw < 2 ^ nbits (hi - lo) /\ hi < lo + raw.
Proof.
  unfold bits_match_range. intros lo hi Hle H.
  pose proof (nbits_bound (hi - lo) ltac:(lia)).
  exists (hi - lo + 1). lia.
Qed.

Lemma nbits_pred_pow2 k : 0 <= k -> nbits (2 ^ k - 1) = k.
Proof.
  intros Hk. unfold nbits. destruct (2 ^ k - 1 <=? 0) eqn:E.
  - assert (2 ^ k <= 1) by lia. destruct (Z.eq_dec k 0); [lia|].
    assert (2 ^ 1 <= 2 ^ k) by (apply Z.pow_le_mono_r; lia). change (2 ^ 1) with 2 in H0. lia.
  - assert (0 < k). { destruct (Z.eq_dec k 0); [subst; cbn in E; lia | lia]. }
    replace (2 ^ k - 1) with (Z.pred (2 ^ k)) by lia. rewrite Z.log2_pred_pow2 by lia. lia.
Qed.

(** ENUMERATED with n root values encoded in nbits (n-1) bits: when n is a
    power of two every index is valid (no check emitted) ... *)
Theorem enum_pow2_no_check_needed : forall n idx,
  is_pow2 n = true -> 0 <= idx < 2 ^ nbits (n - 1) -> idx < n.
Proof.
  unfold is_pow2. intros n idx H Hi.
  assert (Hn : 0 < n) by lia. assert (E : 2 ^ Z.log2 n = n) by lia.
  rewrite <- E in Hi at 1. rewrite nbits_pred_pow2 in Hi by apply Z.log2_nonneg. lia.
Qed.

(** ... otherwise some index in the field is not an enumerator. *)
Theorem enum_not_pow2_check_needed : forall n,
  0 < n -> is_pow2 n = false -> exists idx, 0 <= idx < 2 ^ nbits (n - 1) /\ n <= idx.
Proof.
  unfold is_pow2. intros n Hn H. exists n.
  pose proof (nbits_bound (n - 1) ltac:(lia)) as B.
  assert (2 ^ Z.log2 n <> n) by lia.
  split; [|lia]. split; [lia|].
  (* n - 1 < 2^b, and n <> 2^b would follow ... *)
  destruct (Z.eq_dec (2 ^ nbits (n - 1)) n) as [E|E]; [|lia].
  exfalso. apply H0.
  assert (P : 0 <= nbits (n - 1)).
  { unfold nbits. destruct (n - 1 <=? 0); [lia|]. pose proof (Z.log2_nonneg (n - 1)). lia. }
  assert (L : Z.log2 n = nbits (n - 1)).
  { rewrite <- E at 1. apply Z.log2_pow2. exact P. }
  rewrite L. exact E.
Qed.
