(** C09 — tie between the hand-written helper model (CGen/Helpers.v) and the
    helper C text in /repo.  [Asn1Gen.UperHelpers.helper_norm] is regenerated
    from asn1tools/source/c/uper_functions.py and utils.py on every run of the
    check (harness/c09_helpers.py: ast + translator/cparse.py, fail-closed);
    [expected_norm] below is the normal form of the text the model was written
    against and validated with (compiled helpers vs model on random call
    histories).  The theorem is by computation, so ANY edit of a helper (for
    instance a weakened bounds check in encoder_alloc) makes this file fail to
    compile; the model then has to be revisited and this copy regenerated with
    `PYTHONPATH=/repo:harness python harness/c09_helpers.py --accept`. *)
From Coq Require Import String List.
Import ListNotations.
From Asn1Gen Require Import UperHelpers.
Local Open Scope string_scope.

Definition expected_norm : list (string * string) := [
  ("struct encoder_t", "uint8_t* buf_p; ssize_t size; ssize_t pos");
  ("struct decoder_t", "const uint8_t* buf_p; ssize_t size; ssize_t pos");
  ("encoder_init", "static void encoder_init(struct encoder_t* self_p, uint8_t* buf_p, size_t size) { self_p->buf_p = buf_p; self_p->size = (8 * ((ssize_t)size)); self_p->pos = 0; }");
  ("encoder_get_result", "static ssize_t encoder_get_result(const struct encoder_t* self_p) { if (self_p->size >= 0) { return ((self_p->pos + 7) / 8); } else { return self_p->pos; } }");
  ("encoder_abort", "static void encoder_abort(struct encoder_t* self_p, ssize_t error) { if (self_p->size >= 0) { self_p->size = (-error); self_p->pos = (-error); } }");
  ("encoder_alloc", "static ssize_t encoder_alloc(struct encoder_t* self_p, size_t size) { ssize_t pos; if ((self_p->pos + ((ssize_t)size)) <= self_p->size) { pos = self_p->pos; self_p->pos += ((ssize_t)size); } else { pos = (-ENOMEM); encoder_abort(self_p, ENOMEM); } return pos; }");
  ("encoder_append_bit", "static void encoder_append_bit(struct encoder_t* self_p, int value) { ssize_t pos; pos = encoder_alloc(self_p, 1); if (pos < 0) { return; } if ((pos % 8) == 0) { self_p->buf_p[(pos / 8)] = 0; } self_p->buf_p[(pos / 8)] |= ((uint8_t)(value << (7 - (pos % 8)))); }");
  ("encoder_append_bytes", "static void encoder_append_bytes(struct encoder_t* self_p, const uint8_t* buf_p, size_t size) { size_t i; ssize_t pos; size_t byte_pos; size_t pos_in_byte; pos = encoder_alloc(self_p, (8u * size)); if (pos < 0) { return; } byte_pos = (((size_t)pos) / 8u); pos_in_byte = (((size_t)pos) % 8u); if (pos_in_byte == 0u) { ((void)memcpy((&self_p->buf_p[byte_pos]), buf_p, size)); } else { for (i = 0; (i < size); i++) { self_p->buf_p[(byte_pos + i)] |= (buf_p[i] >> pos_in_byte); self_p->buf_p[((byte_pos + i) + 1)] = (buf_p[i] << (8u - pos_in_byte)); } } }");
  ("encoder_append_uint8", "static void encoder_append_uint8(struct encoder_t* self_p, uint8_t value) { uint8_t buf[1]; buf[0] = ((uint8_t)value); encoder_append_bytes(self_p, (&buf[0]), sizeof(buf)); }");
  ("encoder_append_uint16", "static void encoder_append_uint16(struct encoder_t* self_p, uint16_t value) { uint8_t buf[2]; buf[0] = ((uint8_t)(value >> 8)); buf[1] = ((uint8_t)value); encoder_append_bytes(self_p, (&buf[0]), sizeof(buf)); }");
  ("encoder_append_uint32", "static void encoder_append_uint32(struct encoder_t* self_p, uint32_t value) { uint8_t buf[4]; buf[0] = ((uint8_t)(value >> 24)); buf[1] = ((uint8_t)(value >> 16)); buf[2] = ((uint8_t)(value >> 8)); buf[3] = ((uint8_t)value); encoder_append_bytes(self_p, (&buf[0]), sizeof(buf)); }");
  ("encoder_append_uint64", "static void encoder_append_uint64(struct encoder_t* self_p, uint64_t value) { uint8_t buf[8]; buf[0] = ((uint8_t)(value >> 56)); buf[1] = ((uint8_t)(value >> 48)); buf[2] = ((uint8_t)(value >> 40)); buf[3] = ((uint8_t)(value >> 32)); buf[4] = ((uint8_t)(value >> 24)); buf[5] = ((uint8_t)(value >> 16)); buf[6] = ((uint8_t)(value >> 8)); buf[7] = ((uint8_t)value); encoder_append_bytes(self_p, (&buf[0]), sizeof(buf)); }");
  ("encoder_append_int8", "static void encoder_append_int8(struct encoder_t* self_p, int8_t value) { encoder_append_uint8(self_p, (((uint8_t)value) + 128)); }");
  ("encoder_append_int16", "static void encoder_append_int16(struct encoder_t* self_p, int16_t value) { encoder_append_uint16(self_p, (((uint16_t)value) + 32768)); }");
  ("encoder_append_int32", "static void encoder_append_int32(struct encoder_t* self_p, int32_t value) { encoder_append_uint32(self_p, (((uint32_t)value) + 2147483648)); }");
  ("encoder_append_int64", "static void encoder_append_int64(struct encoder_t* self_p, int64_t value) { uint64_t u64_value; u64_value = ((uint64_t)value); u64_value += 9223372036854775808ull; encoder_append_uint64(self_p, u64_value); }");
  ("encoder_append_bool", "static void encoder_append_bool(struct encoder_t* self_p, bool value) { encoder_append_bit(self_p, (value ? 1 : 0)); }");
  ("encoder_append_non_negative_binary_integer", "static void encoder_append_non_negative_binary_integer(struct encoder_t* self_p, uint64_t value, size_t size) { size_t i; for (i = 0; (i < size); i++) { encoder_append_bit(self_p, ((value >> ((size - i) - 1)) & 1)); } }");
  ("decoder_init", "static void decoder_init(struct decoder_t* self_p, const uint8_t* buf_p, size_t size) { self_p->buf_p = buf_p; self_p->size = (8 * ((ssize_t)size)); self_p->pos = 0; }");
  ("decoder_get_result", "static ssize_t decoder_get_result(const struct decoder_t* self_p) { if (self_p->size >= 0) { return ((self_p->pos + 7) / 8); } else { return self_p->pos; } }");
  ("decoder_abort", "static void decoder_abort(struct decoder_t* self_p, ssize_t error) { if (self_p->size >= 0) { self_p->size = (-error); self_p->pos = (-error); } }");
  ("decoder_free", "static ssize_t decoder_free(struct decoder_t* self_p, size_t size) { ssize_t pos; if ((self_p->pos + ((ssize_t)size)) <= self_p->size) { pos = self_p->pos; self_p->pos += ((ssize_t)size); } else { pos = (-EOUTOFDATA); decoder_abort(self_p, EOUTOFDATA); } return pos; }");
  ("decoder_read_bit", "static int decoder_read_bit(struct decoder_t* self_p) { ssize_t pos; int value; pos = decoder_free(self_p, 1); if (pos >= 0) { value = ((self_p->buf_p[(pos / 8)] >> (7 - (pos % 8))) & 1); } else { value = 0; } return value; }");
  ("decoder_read_bytes", "static void decoder_read_bytes(struct decoder_t* self_p, uint8_t* buf_p, size_t size) { size_t i; ssize_t pos; size_t byte_pos; size_t pos_in_byte; pos = decoder_free(self_p, (8u * size)); if (pos < 0) { return; } byte_pos = (((size_t)pos) / 8u); pos_in_byte = (((size_t)pos) % 8u); if (pos_in_byte == 0) { ((void)memcpy(buf_p, (&self_p->buf_p[byte_pos]), size)); } else { for (i = 0; (i < size); i++) { buf_p[i] = (self_p->buf_p[(byte_pos + i)] << pos_in_byte); buf_p[i] |= (self_p->buf_p[((byte_pos + i) + 1)] >> (8u - pos_in_byte)); } } }");
  ("decoder_read_uint8", "static uint8_t decoder_read_uint8(struct decoder_t* self_p) { uint8_t value = 0; decoder_read_bytes(self_p, (&value), sizeof(value)); return value; }");
  ("decoder_read_uint16", "static uint16_t decoder_read_uint16(struct decoder_t* self_p) { uint8_t buf[2]; decoder_read_bytes(self_p, (&buf[0]), sizeof(buf)); return ((((uint16_t)buf[0]) << 8) | ((uint16_t)buf[1])); }");
  ("decoder_read_uint32", "static uint32_t decoder_read_uint32(struct decoder_t* self_p) { uint8_t buf[4]; decoder_read_bytes(self_p, (&buf[0]), sizeof(buf)); return ((((((uint32_t)buf[0]) << 24) | (((uint32_t)buf[1]) << 16)) | (((uint32_t)buf[2]) << 8)) | ((uint32_t)buf[3])); }");
  ("decoder_read_uint64", "static uint64_t decoder_read_uint64(struct decoder_t* self_p) { uint8_t buf[8]; decoder_read_bytes(self_p, (&buf[0]), sizeof(buf)); return ((((((((((uint64_t)buf[0]) << 56) | (((uint64_t)buf[1]) << 48)) | (((uint64_t)buf[2]) << 40)) | (((uint64_t)buf[3]) << 32)) | (((uint64_t)buf[4]) << 24)) | (((uint64_t)buf[5]) << 16)) | (((uint64_t)buf[6]) << 8)) | ((uint64_t)buf[7])); }");
  ("decoder_read_int8", "static int8_t decoder_read_int8(struct decoder_t* self_p) { int8_t value; value = ((int8_t)decoder_read_uint8(self_p)); value -= 128; return value; }");
  ("decoder_read_int16", "static int16_t decoder_read_int16(struct decoder_t* self_p) { int16_t value; value = ((int16_t)decoder_read_uint16(self_p)); value -= 32768; return value; }");
  ("decoder_read_int32", "static int32_t decoder_read_int32(struct decoder_t* self_p) { int32_t value; value = ((int32_t)decoder_read_uint32(self_p)); value -= 2147483648; return value; }");
  ("decoder_read_int64", "static int64_t decoder_read_int64(struct decoder_t* self_p) { uint64_t value; value = decoder_read_uint64(self_p); value -= 9223372036854775808ull; return ((int64_t)value); }");
  ("decoder_read_bool", "static bool decoder_read_bool(struct decoder_t* self_p) { return (decoder_read_bit(self_p) != 0); }");
  ("decoder_read_non_negative_binary_integer", "static uint64_t decoder_read_non_negative_binary_integer(struct decoder_t* self_p, size_t size) { size_t i; uint64_t value; value = 0; for (i = 0; (i < size); i++) { value <<= 1; value |= ((uint64_t)decoder_read_bit(self_p)); } return value; }")
].

Theorem helper_text_is_the_modelled_one : helper_norm = expected_norm.
Proof. vm_compute. reflexivity. Qed.
