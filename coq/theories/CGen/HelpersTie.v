(** C09 — tie between the hand-written helper model (CGen/Helpers.v) and the
    helper C text in /repo.  [Asn1Gen.UperHelpers.helper_norm] is regenerated
    from asn1tools/source/c/uper_functions.py and utils.py on every run of the
    check (harness/c09_helpers.py: ast + translator/cparse.py, fail-closed);
    [expected_norm] below is the normal form of the text the model was written
    against and validated with (compiled helpers vs model on random call
    histories).  The theorem is by computation, so ANY edit of a helper (for
    instance a weakened bounds check in encoder_alloc) makes this file fail to
    compile; the model then has to be revisited and this copy regenerated with
    `PYTHONPATH=/repo:harness python harness/c09_helpers.py --accept`. *)
From Coq Require Import String List.
Import ListNotations.
From Asn1Gen Require Import UperHelpers.
Local Open Scope string_scope.

Definition expected_norm : list (string * string) := [
  ("struct encoder_t", "uint8_t* buf_p; ssize_t size; ssize_t pos");
  ("struct decoder_t", "const uint8_t* buf_p; ssize_t size; ssize_t pos");
  ("encoder_init", "static void encoder_init(struct encoder_t* p0, uint8_t* p1, size_t p2) { p0->buf_p = p1; p0->size = (8 * ((ssize_t)p2)); p0->pos = 0; }");
  ("encoder_get_result", "static ssize_t encoder_get_result(const struct encoder_t* p0) { if (p0->size >= 0) { return ((p0->pos + 7) / 8); } else { return p0->pos; } }");
  ("encoder_abort", "static void encoder_abort(struct encoder_t* p0, ssize_t p1) { if (p0->size >= 0) { p0->size = (-p1); p0->pos = (-p1); } }");
  ("encoder_alloc", "static ssize_t encoder_alloc(struct encoder_t* p0, size_t p1) { ssize_t l0; if ((p0->pos + ((ssize_t)p1)) <= p0->size) { l0 = p0->pos; p0->pos += ((ssize_t)p1); } else { l0 = (-ENOMEM); encoder_abort(p0, ENOMEM); } return l0; }");
  ("encoder_append_bit", "static void encoder_append_bit(struct encoder_t* p0, int p1) { ssize_t l0; l0 = encoder_alloc(p0, 1); if (l0 < 0) { return; } if ((l0 % 8) == 0) { p0->buf_p[(l0 / 8)] = 0; } p0->buf_p[(l0 / 8)] |= ((uint8_t)(p1 << (7 - (l0 % 8)))); }");
  ("encoder_append_bytes", "static void encoder_append_bytes(struct encoder_t* p0, const uint8_t* p1, size_t p2) { size_t l0; ssize_t l1; size_t l2; size_t l3; l1 = encoder_alloc(p0, (8u * p2)); if (l1 < 0) { return; } l2 = (((size_t)l1) / 8u); l3 = (((size_t)l1) % 8u); if (l3 == 0u) { ((void)memcpy((&p0->buf_p[l2]), p1, p2)); } else { for (l0 = 0; (l0 < p2); l0++) { p0->buf_p[(l2 + l0)] |= (p1[l0] >> l3); p0->buf_p[((l2 + l0) + 1)] = (p1[l0] << (8u - l3)); } } }");
  ("encoder_append_uint8", "static void encoder_append_uint8(struct encoder_t* p0, uint8_t p1) { uint8_t l0[1]; l0[0] = ((uint8_t)p1); encoder_append_bytes(p0, (&l0[0]), sizeof(l0)); }");
  ("encoder_append_uint16", "static void encoder_append_uint16(struct encoder_t* p0, uint16_t p1) { uint8_t l0[2]; l0[0] = ((uint8_t)(p1 >> 8)); l0[1] = ((uint8_t)p1); encoder_append_bytes(p0, (&l0[0]), sizeof(l0)); }");
  ("encoder_append_uint32", "static void encoder_append_uint32(struct encoder_t* p0, uint32_t p1) { uint8_t l0[4]; l0[0] = ((uint8_t)(p1 >> 24)); l0[1] = ((uint8_t)(p1 >> 16)); l0[2] = ((uint8_t)(p1 >> 8)); l0[3] = ((uint8_t)p1); encoder_append_bytes(p0, (&l0[0]), sizeof(l0)); }");
  ("encoder_append_uint64", "static void encoder_append_uint64(struct encoder_t* p0, uint64_t p1) { uint8_t l0[8]; l0[0] = ((uint8_t)(p1 >> 56)); l0[1] = ((uint8_t)(p1 >> 48)); l0[2] = ((uint8_t)(p1 >> 40)); l0[3] = ((uint8_t)(p1 >> 32)); l0[4] = ((uint8_t)(p1 >> 24)); l0[5] = ((uint8_t)(p1 >> 16)); l0[6] = ((uint8_t)(p1 >> 8)); l0[7] = ((uint8_t)p1); encoder_append_bytes(p0, (&l0[0]), sizeof(l0)); }");
  ("encoder_append_int8", "static void encoder_append_int8(struct encoder_t* p0, int8_t p1) { encoder_append_uint8(p0, (((uint8_t)p1) + 128)); }");
  ("encoder_append_int16", "static void encoder_append_int16(struct encoder_t* p0, int16_t p1) { encoder_append_uint16(p0, (((uint16_t)p1) + 32768)); }");
  ("encoder_append_int32", "static void encoder_append_int32(struct encoder_t* p0, int32_t p1) { encoder_append_uint32(p0, (((uint32_t)p1) + 2147483648)); }");
  ("encoder_append_int64", "static void encoder_append_int64(struct encoder_t* p0, int64_t p1) { uint64_t l0; l0 = ((uint64_t)p1); l0 += 9223372036854775808ull; encoder_append_uint64(p0, l0); }");
  ("encoder_append_bool", "static void encoder_append_bool(struct encoder_t* p0, bool p1) { encoder_append_bit(p0, (p1 ? 1 : 0)); }");
  ("encoder_append_non_negative_binary_integer", "static void encoder_append_non_negative_binary_integer(struct encoder_t* p0, uint64_t p1, size_t p2) { size_t l0; for (l0 = 0; (l0 < p2); l0++) { encoder_append_bit(p0, ((p1 >> ((p2 - l0) - 1)) & 1)); } }");
  ("decoder_init", "static void decoder_init(struct decoder_t* p0, const uint8_t* p1, size_t p2) { p0->buf_p = p1; p0->size = (8 * ((ssize_t)p2)); p0->pos = 0; }");
  ("decoder_get_result", "static ssize_t decoder_get_result(const struct decoder_t* p0) { if (p0->size >= 0) { return ((p0->pos + 7) / 8); } else { return p0->pos; } }");
  ("decoder_abort", "static void decoder_abort(struct decoder_t* p0, ssize_t p1) { if (p0->size >= 0) { p0->size = (-p1); p0->pos = (-p1); } }");
  ("decoder_free", "static ssize_t decoder_free(struct decoder_t* p0, size_t p1) { ssize_t l0; if ((p0->pos + ((ssize_t)p1)) <= p0->size) { l0 = p0->pos; p0->pos += ((ssize_t)p1); } else { l0 = (-EOUTOFDATA); decoder_abort(p0, EOUTOFDATA); } return l0; }");
  ("decoder_read_bit", "static int decoder_read_bit(struct decoder_t* p0) { ssize_t l0; int l1; l0 = decoder_free(p0, 1); if (l0 >= 0) { l1 = ((p0->buf_p[(l0 / 8)] >> (7 - (l0 % 8))) & 1); } else { l1 = 0; } return l1; }");
  ("decoder_read_bytes", "static void decoder_read_bytes(struct decoder_t* p0, uint8_t* p1, size_t p2) { size_t l0; ssize_t l1; size_t l2; size_t l3; l1 = decoder_free(p0, (8u * p2)); if (l1 < 0) { return; } l2 = (((size_t)l1) / 8u); l3 = (((size_t)l1) % 8u); if (l3 == 0) { ((void)memcpy(p1, (&p0->buf_p[l2]), p2)); } else { for (l0 = 0; (l0 < p2); l0++) { p1[l0] = (p0->buf_p[(l2 + l0)] << l3); p1[l0] |= (p0->buf_p[((l2 + l0) + 1)] >> (8u - l3)); } } }");
  ("decoder_read_uint8", "static uint8_t decoder_read_uint8(struct decoder_t* p0) { uint8_t l0 = 0; decoder_read_bytes(p0, (&l0), sizeof(l0)); return l0; }");
  ("decoder_read_uint16", "static uint16_t decoder_read_uint16(struct decoder_t* p0) { uint8_t l0[2]; decoder_read_bytes(p0, (&l0[0]), sizeof(l0)); return ((((uint16_t)l0[0]) << 8) | ((uint16_t)l0[1])); }");
  ("decoder_read_uint32", "static uint32_t decoder_read_uint32(struct decoder_t* p0) { uint8_t l0[4]; decoder_read_bytes(p0, (&l0[0]), sizeof(l0)); return ((((((uint32_t)l0[0]) << 24) | (((uint32_t)l0[1]) << 16)) | (((uint32_t)l0[2]) << 8)) | ((uint32_t)l0[3])); }");
  ("decoder_read_uint64", "static uint64_t decoder_read_uint64(struct decoder_t* p0) { uint8_t l0[8]; decoder_read_bytes(p0, (&l0[0]), sizeof(l0)); return ((((((((((uint64_t)l0[0]) << 56) | (((uint64_t)l0[1]) << 48)) | (((uint64_t)l0[2]) << 40)) | (((uint64_t)l0[3]) << 32)) | (((uint64_t)l0[4]) << 24)) | (((uint64_t)l0[5]) << 16)) | (((uint64_t)l0[6]) << 8)) | ((uint64_t)l0[7])); }");
  ("decoder_read_int8", "static int8_t decoder_read_int8(struct decoder_t* p0) { int8_t l0; l0 = ((int8_t)decoder_read_uint8(p0)); l0 -= 128; return l0; }");
  ("decoder_read_int16", "static int16_t decoder_read_int16(struct decoder_t* p0) { int16_t l0; l0 = ((int16_t)decoder_read_uint16(p0)); l0 -= 32768; return l0; }");
  ("decoder_read_int32", "static int32_t decoder_read_int32(struct decoder_t* p0) { int32_t l0; l0 = ((int32_t)decoder_read_uint32(p0)); l0 -= 2147483648; return l0; }");
  ("decoder_read_int64", "static int64_t decoder_read_int64(struct decoder_t* p0) { uint64_t l0; l0 = decoder_read_uint64(p0); l0 -= 9223372036854775808ull; return ((int64_t)l0); }");
  ("decoder_read_bool", "static bool decoder_read_bool(struct decoder_t* p0) { return (decoder_read_bit(p0) != 0); }");
  ("decoder_read_non_negative_binary_integer", "static uint64_t decoder_read_non_negative_binary_integer(struct decoder_t* p0, size_t p1) { size_t l0; uint64_t l1; l1 = 0; for (l0 = 0; (l0 < p1); l0++) { l1 <<= 1; l1 |= ((uint64_t)decoder_read_bit(p0)); } return l1; }")
].

Theorem helper_text_is_the_modelled_one : helper_norm = expected_norm.
Proof. vm_compute. reflexivity. Qed.
