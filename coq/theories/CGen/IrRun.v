(** C09 — running the helper block as parsed from /repo (IR terms emitted by
    translator/ctoir.py) against the hand-written model CGen/Helpers.v on call
    histories: the semantic tie between the C text and the model (the textual
    tie is CGen/HelpersTie.v).  Used by harness/c09_ir.py under vm_compute. *)
From Asn1V Require Import Base.Prelude CGen.Ir CGen.Helpers.
Open Scope string_scope.
Open Scope list_scope.
Open Scope Z_scope.

Section Run.
  Variable prog : program.
  Variable fuel : nat.

  Definition step1 (f : string) (args : list val) : res (option Z * val * list val) :=
    match run prog fuel f args with
    | ROk (r, c :: rest) => ROk (r, c, rest)
    | ROk (_, []) => RFail (FStuck "no objects")
    | RFail x => RFail x
    end.

  Definition ir_eop (c : val) (o : eop) : res val :=
    let go f args := let^ (_, c', _) := step1 f (c :: args) in ROk c' in
    match o with
    | EBit v => go "encoder_append_bit" [VInt v]
    | EBool b => go "encoder_append_bool" [VInt (if b then 1 else 0)]
    | EBytes src n => go "encoder_append_bytes" [bytes_val src; VInt n]
    | ENnbi v n => go "encoder_append_non_negative_binary_integer" [VInt v; VInt n]
    | EU8 v => go "encoder_append_uint8" [VInt v]
    | EU16 v => go "encoder_append_uint16" [VInt v]
    | EU32 v => go "encoder_append_uint32" [VInt v]
    | EU64 v => go "encoder_append_uint64" [VInt v]
    | EI8 v => go "encoder_append_int8" [VInt v]
    | EI16 v => go "encoder_append_int16" [VInt v]
    | EI32 v => go "encoder_append_int32" [VInt v]
    | EI64 v => go "encoder_append_int64" [VInt v]
    | EAbort e => go "encoder_abort" [VInt e]
    end.

  Fixpoint ir_eops (c : val) (os : list eop) : res val :=
    match os with [] => ROk c | o :: r => let^ c' := ir_eop c o in ir_eops c' r end.

  Definition ir_dop (c : val) (o : dop) : res (val * list Z) :=
    let scalar f := let^ (r, c', _) := step1 f [c] in
                    match r with Some z => ROk (c', [z]) | None => RFail (FStuck "no value") end in
    match o with
    | DBit => scalar "decoder_read_bit"
    | DBool => scalar "decoder_read_bool"
    | DBytes cap n =>
      let^ (_, c', rest) := step1 "decoder_read_bytes" [c; bytes_val (zeros cap); VInt n] in
      match rest with
      | VArr l :: _ => match val_bytes l with Some b => ROk (c', b) | None => RFail FUninit end
      | _ => RFail (FStuck "no destination")
      end
    | DNnbi n =>
      let^ (r, c', _) := step1 "decoder_read_non_negative_binary_integer" [c; VInt n] in
      match r with Some z => ROk (c', [z]) | None => RFail (FStuck "no value") end
    | DU8 => scalar "decoder_read_uint8"
    | DU16 => scalar "decoder_read_uint16"
    | DU32 => scalar "decoder_read_uint32"
    | DU64 => scalar "decoder_read_uint64"
    | DI8 => scalar "decoder_read_int8"
    | DI16 => scalar "decoder_read_int16"
    | DI32 => scalar "decoder_read_int32"
    | DI64 => scalar "decoder_read_int64"
    | DAbort e => let^ (_, c', _) := step1 "decoder_abort" [c; VInt e] in ROk (c', [])
    end.

  Fixpoint ir_dops (c : val) (os : list dop) : res (val * list (list Z)) :=
    match os with
    | [] => ROk (c, [])
    | o :: r =>
      let^ (c', v) := ir_dop c o in
      let^ (c'', vs) := ir_dops c' r in ROk (c'', v :: vs)
    end.

  Definition get_result_ir (f : string) (c : val) : res Z :=
    let^ (r, _, _) := step1 f [c] in
    match r with Some z => ROk z | None => RFail (FStuck "no result") end.

  Definition cres_code {A} (r : cres A) : Z := match r with COk _ => 0 | COob => 2 | CUb => 3 end.

  (** 0: the parsed helpers and the model agree on this history *)
  Definition enc_agree (case : list Z * Z * list eop) : Z :=
    let '(b, n, os) := case in
    let model := let+ s := init b n in run_eops s os in
    let ir :=
        let^ (_, c0, _) := step1 "encoder_init" [cursor_undef; bytes_val b; VInt n] in
        let^ c1 := ir_eops c0 os in
        let^ r := get_result_ir "encoder_get_result" c1 in ROk (c1, r) in
    match model, ir with
    | COk s, ROk (c, r) =>
      match cursor_of c with
      | Some (b', sz, ps) =>
        if zlist_eqb b' (buf s) && (sz =? size s) && (ps =? pos s) && (r =? get_result s) then 0 else 1
      | None => 1
      end
    | m, RFail f => if cres_code m =? fail_code f then 0 else 1
    | _, _ => 1
    end.

  Fixpoint zll_eqb (a b : list (list Z)) : bool :=
    match a, b with
    | [], [] => true
    | x :: a', y :: b' => zlist_eqb x y && zll_eqb a' b'
    | _, _ => false
    end.

  Definition dec_agree (case : list Z * Z * list dop) : Z :=
    let '(b, n, os) := case in
    let model := let+ s := init b n in run_dops (repeat 0 8) s os in
    let ir :=
        let^ (_, c0, _) := step1 "decoder_init" [cursor_undef; bytes_val b; VInt n] in
        let^ (c1, vs) := ir_dops c0 os in
        let^ r := get_result_ir "decoder_get_result" c1 in ROk (c1, vs, r) in
    match model, ir with
    | COk (s, mvs), ROk (c, vs, r) =>
      match cursor_of c with
      | Some (b', sz, ps) =>
        if zlist_eqb b' (buf s) && (sz =? size s) && (ps =? pos s) && (r =? get_result s) && zll_eqb vs mvs
        then 0 else 1
      | None => 1
      end
    | m, RFail f => if cres_code m =? fail_code f then 0 else 1
    | _, _ => 1
    end.
End Run.

Fixpoint nonzero_from (l : list Z) (i : Z) : list (Z * Z) :=
  match l with
  | [] => []
  | x :: r => if x =? 0 then nonzero_from r (i + 1) else (i, x) :: nonzero_from r (i + 1)
  end.
Definition nonzero (l : list Z) : list (Z * Z) := nonzero_from l 0.
