(** C09 — proofs about the helper model (CGen/Helpers.v) for the predicates of
    CGen/HelpersSpec.v: in-bounds / error latch, functional correctness against
    the bit-string specification, round trips. *)
From Asn1V Require Import Base.Prelude Base.Sweep CGen.Helpers CGen.HelpersSpec CGen.HelpersBits.

(* ------------------------------------------------------------------ *)
(** * Cursor basics *)

Lemma cur_eta s : mkCur (buf s) (size s) (pos s) = s.
Proof. now destruct s. Qed.

Lemma live_len s : live s -> 0 <= len (buf s) < 576460752303423488.
Proof. intros (_ & _ & H & _). pose proof (len_nonneg (buf s)). lia. Qed.

Lemma alloc_gen_eq err s n :
  0 <= n < 9223372036854775808 ->
  -9223372036854775808 <= pos s + n < 9223372036854775808 ->
  alloc_gen err s n =
  if pos s + n <=? size s then COk (mkCur (buf s) (size s) (pos s + n), pos s)
  else COk (abort s err, - err).
Proof.
  intros Hn Hp. unfold alloc_gen. rewrite s64_u64_small by lia.
  unfold in_s64. destruct ((-9223372036854775808 <=? pos s + n) && (pos s + n <=? 9223372036854775807)) eqn:E; [|lia].
  reflexivity.
Qed.

Lemma abort_latched s e : latched s -> abort s e = s.
Proof. intros [H _]. unfold abort. destruct (size s >=? 0) eqn:E; [lia|reflexivity]. Qed.

Lemma abort_live s e : live s -> abort s e = mkCur (buf s) (- e) (- e).
Proof. intros (H1 & H2 & _). unfold abort. destruct (size s >=? 0) eqn:E; [reflexivity|lia]. Qed.

Lemma abort_live_latched s e : live s -> 0 < e <= 2147483647 -> latched (abort s e).
Proof. intros H He. rewrite abort_live by auto. unfold latched; cbn. lia. Qed.

Lemma alloc_latched err s n : latched s -> 0 <= n < 9223372036854775808 - 2147483648 -> 0 < err ->
  exists p, alloc_gen err s n = COk (s, p) /\ p < 0.
Proof.
  intros L Hn He. pose proof L as [L1 L2].
  rewrite alloc_gen_eq by lia.
  destruct (pos s + n <=? size s) eqn:E.
  - exists (pos s). split; [|lia]. replace (pos s + n) with (pos s) by lia. now rewrite cur_eta.
  - exists (- err). rewrite abort_latched by auto. split; [reflexivity|lia].
Qed.

Lemma alloc_live_room err s n : live s -> 0 <= n -> pos s + n <= size s ->
  alloc_gen err s n = COk (mkCur (buf s) (size s) (pos s + n), pos s).
Proof.
  intros L Hn Hr. pose proof (live_len s L). pose proof L as (L1 & L2 & _).
  rewrite alloc_gen_eq by lia.
  destruct (pos s + n <=? size s) eqn:E; [reflexivity|lia].
Qed.

Lemma alloc_live_noroom err s n : live s -> 0 <= n < 4611686018427387904 -> size s < pos s + n ->
  alloc_gen err s n = COk (abort s err, - err).
Proof.
  intros L Hn Hr. pose proof (live_len s L). pose proof L as (L1 & L2 & _).
  rewrite alloc_gen_eq by lia.
  destruct (pos s + n <=? size s) eqn:E; [lia|reflexivity].
Qed.

Lemma get_result_latched s : latched s -> get_result s = pos s.
Proof. intros [H _]. unfold get_result. destruct (size s >=? 0) eqn:E; [lia|reflexivity]. Qed.

(* ------------------------------------------------------------------ *)
(** * append_bit *)

(** The buffer after a successful encoder_append_bit at bit position [p]. *)
Definition abit_buf (b : list Z) (p v : Z) : list Z :=
  let old := if p mod 8 =? 0 then 0 else nthz b (p / 8) in
  upd b (Z.to_nat (p / 8)) (u8 (Z.lor old (u8 (Z.shiftl v (7 - p mod 8))))).

Lemma append_bit_latched s v : latched s -> append_bit s v = COk s.
Proof.
  intros L. unfold append_bit, encoder_alloc.
  destruct (alloc_latched ENOMEM s 1 L) as (p & -> & Hp); [lia|unfold ENOMEM; lia|].
  cbn [cbind]. destruct (p <? 0) eqn:E; [reflexivity|lia].
Qed.

Lemma append_bit_noroom s v : live s -> size s < pos s + 1 ->
  append_bit s v = COk (abort s ENOMEM).
Proof.
  intros L H. unfold append_bit, encoder_alloc.
  rewrite alloc_live_noroom by (auto; lia). cbn [cbind]. reflexivity.
Qed.

Lemma shiftl_bit_bound v k : 0 <= v <= 1 -> 0 <= k <= 7 -> 0 <= Z.shiftl v k <= 128.
Proof.
  intros Hv Hk. rewrite Z.shiftl_mul_pow2 by lia.
  assert (0 < 2 ^ k <= 2 ^ 7) by (split; [apply Z.pow_pos_nonneg; lia | apply Z.pow_le_mono_r; lia]).
  change (2 ^ 7) with 128 in *. nia.
Qed.

Lemma append_bit_room s v : live s -> 0 <= v <= 1 -> pos s + 1 <= size s ->
  append_bit s v = COk (mkCur (abit_buf (buf s) (pos s) v) (size s) (pos s + 1)).
Proof.
  intros L Hv Hr. pose proof (live_len s L) as HL. pose proof L as (L1 & L2 & _).
  unfold append_bit, encoder_alloc. rewrite alloc_live_room by (auto; lia).
  cbn [cbind buf size pos].
  destruct (pos s <? 0) eqn:E; [lia|]. clear E.
  rewrite Z.quot_div_nonneg, Z.rem_mod_nonneg by lia.
  assert (Hbp : 0 <= pos s / 8 < len (buf s)) by lia.
  assert (Hpib : 0 <= pos s mod 8 < 8) by lia.
  pose proof (shiftl_bit_bound v (7 - pos s mod 8) Hv ltac:(lia)) as Hsh.
  assert (Hs32 : (v <? 0) || negb (in_s32 (Z.shiftl v (7 - pos s mod 8))) = false)
    by (unfold in_s32; lia).
  unfold abit_buf.
  destruct (pos s mod 8 =? 0) eqn:E.
  - rewrite wr_ok by lia. cbn [cbind].
    rewrite rd_ok by (rewrite upd_len; lia). cbn [cbind].
    rewrite Hs32. rewrite wr_ok by (rewrite upd_len; lia). cbn [cbind].
    rewrite upd_upd. rewrite nthz_upd by lia. rewrite Z.eqb_refl. reflexivity.
  - cbn [cbind]. rewrite rd_ok by lia. cbn [cbind].
    rewrite Hs32. rewrite wr_ok by lia. reflexivity.
Qed.

Lemma abit_buf_length b p v : length (abit_buf b p v) = length b.
Proof. unfold abit_buf. apply upd_length. Qed.

Lemma abit_buf_ok b p v : bytes_ok b -> bytes_ok (abit_buf b p v).
Proof. intros H. unfold abit_buf. apply upd_bytes_ok; auto. apply is_byte_u8. Qed.

Lemma abit_live s v : live s -> pos s + 1 <= size s ->
  live (mkCur (abit_buf (buf s) (pos s) v) (size s) (pos s + 1)).
Proof.
  intros (L1 & L2 & L3 & L4) H. unfold live, len in *. cbn [buf size pos].
  rewrite abit_buf_length. repeat split; try lia. now apply abit_buf_ok.
Qed.
