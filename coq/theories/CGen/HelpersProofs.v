(** C09 — proofs about the helper model (CGen/Helpers.v) for the predicates of
    CGen/HelpersSpec.v: in-bounds / error latch, functional correctness against
    the bit-string specification, round trips. *)
From Asn1V Require Import Base.Prelude Base.Sweep CGen.Helpers CGen.HelpersSpec CGen.HelpersBits.

(* ------------------------------------------------------------------ *)
(** * Cursor basics *)

Lemma cur_eta s : mkCur (buf s) (size s) (pos s) = s.
Proof. now destruct s. Qed.

Lemma live_len s : live s -> 0 <= len (buf s) < 576460752303423488.
Proof. intros (_ & _ & H & _). pose proof (len_nonneg (buf s)). lia. Qed.

Lemma alloc_gen_eq err s n :
  0 <= n < 9223372036854775808 ->
  -9223372036854775808 <= pos s + n < 9223372036854775808 ->
  alloc_gen err s n =
  if pos s + n <=? size s then COk (mkCur (buf s) (size s) (pos s + n), pos s)
  else COk (abort s err, - err).
Proof.
  intros Hn Hp. unfold alloc_gen. rewrite s64_u64_small by lia.
  unfold in_s64. destruct ((-9223372036854775808 <=? pos s + n) && (pos s + n <=? 9223372036854775807)) eqn:E; [|lia].
  reflexivity.
Qed.

Lemma abort_latched s e : latched s -> abort s e = s.
Proof. intros [H _]. unfold abort. destruct (size s >=? 0) eqn:E; [lia|reflexivity]. Qed.

Lemma abort_live s e : live s -> abort s e = mkCur (buf s) (- e) (- e).
Proof. intros (H1 & H2 & _). unfold abort. destruct (size s >=? 0) eqn:E; [reflexivity|lia]. Qed.

Lemma abort_live_latched s e : live s -> 0 < e <= 2147483647 -> latched (abort s e).
Proof. intros H He. rewrite abort_live by auto. unfold latched; cbn. lia. Qed.

Lemma alloc_latched err s n : latched s -> 0 <= n < 9223372036854775808 - 2147483648 -> 0 < err ->
  exists p, alloc_gen err s n = COk (s, p) /\ p < 0.
Proof.
  intros L Hn He. pose proof L as [L1 L2].
  rewrite alloc_gen_eq by lia.
  destruct (pos s + n <=? size s) eqn:E.
  - exists (pos s). split; [|lia]. replace (pos s + n) with (pos s) by lia. now rewrite cur_eta.
  - exists (- err). rewrite abort_latched by auto. split; [reflexivity|lia].
Qed.

Lemma alloc_live_room err s n : live s -> 0 <= n -> pos s + n <= size s ->
  alloc_gen err s n = COk (mkCur (buf s) (size s) (pos s + n), pos s).
Proof.
  intros L Hn Hr. pose proof (live_len s L). pose proof L as (L1 & L2 & _).
  rewrite alloc_gen_eq by lia.
  destruct (pos s + n <=? size s) eqn:E; [reflexivity|lia].
Qed.

Lemma alloc_live_noroom err s n : live s -> 0 <= n < 4611686018427387904 -> size s < pos s + n ->
  alloc_gen err s n = COk (abort s err, - err).
Proof.
  intros L Hn Hr. pose proof (live_len s L). pose proof L as (L1 & L2 & _).
  rewrite alloc_gen_eq by lia.
  destruct (pos s + n <=? size s) eqn:E; [lia|reflexivity].
Qed.

Lemma get_result_latched s : latched s -> get_result s = pos s.
Proof. intros [H _]. unfold get_result. destruct (size s >=? 0) eqn:E; [lia|reflexivity]. Qed.

(* ------------------------------------------------------------------ *)
(** * append_bit *)

(** The buffer after a successful encoder_append_bit at bit position [p]. *)
Definition abit_buf (b : list Z) (p v : Z) : list Z :=
  let old := if p mod 8 =? 0 then 0 else nthz b (p / 8) in
  upd b (Z.to_nat (p / 8)) (u8 (Z.lor old (u8 (Z.shiftl v (7 - p mod 8))))).

Lemma append_bit_latched s v : latched s -> append_bit s v = COk s.
Proof.
  intros L. unfold append_bit, encoder_alloc.
  destruct (alloc_latched ENOMEM s 1 L) as (p & -> & Hp); [lia|unfold ENOMEM; lia|].
  cbn [cbind]. destruct (p <? 0) eqn:E; [reflexivity|lia].
Qed.

Lemma append_bit_noroom s v : live s -> size s < pos s + 1 ->
  append_bit s v = COk (abort s ENOMEM).
Proof.
  intros L H. unfold append_bit, encoder_alloc.
  rewrite alloc_live_noroom by (auto; lia). cbn [cbind]. reflexivity.
Qed.

Lemma shiftl_bit_bound v k : 0 <= v <= 1 -> 0 <= k <= 7 -> 0 <= Z.shiftl v k <= 128.
Proof.
  intros Hv Hk. rewrite Z.shiftl_mul_pow2 by lia.
  assert (0 < 2 ^ k <= 2 ^ 7) by (split; [apply Z.pow_pos_nonneg; lia | apply Z.pow_le_mono_r; lia]).
  change (2 ^ 7) with 128 in *. nia.
Qed.

Lemma append_bit_room s v : live s -> 0 <= v <= 1 -> pos s + 1 <= size s ->
  append_bit s v = COk (mkCur (abit_buf (buf s) (pos s) v) (size s) (pos s + 1)).
Proof.
  intros L Hv Hr. pose proof (live_len s L) as HL. pose proof L as (L1 & L2 & _).
  unfold append_bit, encoder_alloc. rewrite alloc_live_room by (auto; lia).
  cbn [cbind buf size pos].
  destruct (pos s <? 0) eqn:E; [lia|]. clear E.
  rewrite Z.quot_div_nonneg, Z.rem_mod_nonneg by lia.
  assert (Hbp : 0 <= pos s / 8 < len (buf s)) by lia.
  assert (Hpib : 0 <= pos s mod 8 < 8) by lia.
  pose proof (shiftl_bit_bound v (7 - pos s mod 8) Hv ltac:(lia)) as Hsh.
  assert (Hs32 : (v <? 0) || negb (in_s32 (Z.shiftl v (7 - pos s mod 8))) = false)
    by (unfold in_s32; lia).
  unfold abit_buf.
  destruct (pos s mod 8 =? 0) eqn:E.
  - rewrite wr_ok by lia. cbn [cbind].
    rewrite rd_ok by (rewrite upd_len; lia). cbn [cbind].
    rewrite Hs32. rewrite wr_ok by (rewrite upd_len; lia). cbn [cbind].
    rewrite upd_upd. rewrite nthz_upd by lia. rewrite Z.eqb_refl. reflexivity.
  - cbn [cbind]. rewrite rd_ok by lia. cbn [cbind].
    rewrite Hs32. rewrite wr_ok by lia. reflexivity.
Qed.

Lemma abit_buf_length b p v : length (abit_buf b p v) = length b.
Proof. unfold abit_buf. apply upd_length. Qed.

Lemma abit_buf_ok b p v : bytes_ok b -> bytes_ok (abit_buf b p v).
Proof. intros H. unfold abit_buf. apply upd_bytes_ok; auto. apply is_byte_u8. Qed.

Lemma abit_live s v : live s -> pos s + 1 <= size s ->
  live (mkCur (abit_buf (buf s) (pos s) v) (size s) (pos s + 1)).
Proof.
  intros (L1 & L2 & L3 & L4) H. unfold live, len in *. cbn [buf size pos].
  rewrite abit_buf_length. repeat split; try lia. now apply abit_buf_ok.
Qed.

(* ------------------------------------------------------------------ *)
(** * memcpy and the unaligned append loop *)

Lemma memcpy_loop_spec src soff doff : 0 <= soff -> 0 <= doff -> forall k dst i,
  0 <= i -> soff + i + Z.of_nat k <= len src -> doff + i + Z.of_nat k <= len dst ->
  exists d, memcpy_loop k dst doff src soff i = COk d /\ length d = length dst /\
    (bytes_ok src -> bytes_ok dst -> bytes_ok d) /\
    forall j, 0 <= j ->
      nthz d j = if (doff + i <=? j) && (j <? doff + i + Z.of_nat k)
                 then nthz src (soff + (j - doff)) else nthz dst j.
Proof.
  intros Hs Hd. induction k as [|k IH]; intros dst i Hi Hsrc Hdst.
  - exists dst. cbn [memcpy_loop]. repeat split; auto.
    intros j Hj. destruct ((doff + i <=? j) && (j <? doff + i + Z.of_nat 0)) eqn:E; [lia|reflexivity].
  - cbn [memcpy_loop]. rewrite rd_ok by lia. cbn [cbind]. rewrite wr_ok by lia. cbn [cbind].
    destruct (IH (upd dst (Z.to_nat (doff + i)) (nthz src (soff + i))) (i + 1)) as (d & E & L & B & N);
      try rewrite upd_len; try lia.
    exists d. split; [exact E|]. split; [now rewrite L, upd_length|]. split.
    + intros B1 B2. apply B; auto. apply upd_bytes_ok; auto. now apply nthz_is_byte.
    + intros j Hj. rewrite N by lia. rewrite nthz_upd by lia.
      destruct ((doff + (i + 1) <=? j) && (j <? doff + (i + 1) + Z.of_nat k)) eqn:E1;
      destruct ((doff + i <=? j) && (j <? doff + i + Z.of_nat (S k))) eqn:E2;
      destruct (j =? doff + i) eqn:E3; try lia; try reflexivity.
      f_equal. lia.
Qed.

Lemma memcpy_spec dst doff src soff n :
  0 <= soff -> 0 <= doff -> 0 <= n -> soff + n <= len src -> doff + n <= len dst ->
  exists d, memcpy dst doff src soff n = COk d /\ length d = length dst /\
    (bytes_ok src -> bytes_ok dst -> bytes_ok d) /\
    forall j, 0 <= j ->
      nthz d j = if (doff <=? j) && (j <? doff + n) then nthz src (soff + (j - doff)) else nthz dst j.
Proof.
  intros Hs Hd Hn H1 H2. unfold memcpy.
  destruct (memcpy_loop_spec src soff doff Hs Hd (Z.to_nat n) dst 0) as (d & E & L & B & N); try lia.
  exists d. repeat split; auto. intros j Hj. rewrite N by lia.
  replace (doff + 0) with doff by lia. now rewrite Z2Nat.id by lia.
Qed.

(** one iteration of the unaligned loop, byte view *)
Definition abytes_step (b : list Z) (bp pib x i : Z) : list Z :=
  upd (upd b (Z.to_nat (bp + i)) (u8 (Z.lor (nthz b (bp + i)) (Z.shiftr x pib))))
      (Z.to_nat (bp + i + 1)) (u8 (Z.shiftl x (8 - pib))).

Lemma abytes_step_bits b bp pib x i : 0 <= bp -> 0 <= i -> 0 < pib < 8 -> is_byte x ->
  bp + i + 1 < len b ->
  (forall q, 8 * (bp + i) + pib <= q < 8 * (bp + i + 1) -> getbit b q = false) ->
  (forall q, 0 <= q < 8 * (bp + i) + pib -> getbit (abytes_step b bp pib x i) q = getbit b q) /\
  (forall t, 0 <= t < 8 -> getbit (abytes_step b bp pib x i) (8 * (bp + i) + pib + t) = Z.testbit x (7 - t)) /\
  (forall q, 8 * (bp + i + 1) + pib <= q < 8 * (bp + i + 2) -> getbit (abytes_step b bp pib x i) q = false).
Proof.
  intros Hbp Hi Hp Hx Hlen Hclean.
  assert (N : forall j, 0 <= j -> nthz (abytes_step b bp pib x i) j =
            if j =? bp + i + 1 then u8 (Z.shiftl x (8 - pib))
            else if j =? bp + i then u8 (Z.lor (nthz b (bp + i)) (Z.shiftr x pib)) else nthz b j).
  { intros j Hj. unfold abytes_step. rewrite nthz_upd by (rewrite ?upd_len; lia).
    destruct (j =? bp + i + 1); [reflexivity|]. now rewrite nthz_upd by lia. }
  split; [|split].
  - intros q Hq. destruct (Z.eq_dec (q / 8) (bp + i)) as [E|E].
    + rewrite (getbit_at _ q _ (N (q / 8) ltac:(lia))).
      destruct (q / 8 =? bp + i + 1) eqn:E1; [lia|]. destruct (q / 8 =? bp + i) eqn:E2; [|lia].
      replace (7 - q mod 8) with (7 - (q mod 8)) by lia.
      rewrite abytes_byte1_bits by (auto; lia).
      destruct (pib <=? q mod 8) eqn:E3; [lia|]. cbn [andb]. rewrite orb_false_r.
      rewrite getbit_nthz, E. reflexivity.
    + apply getbit_same_byte. rewrite N by lia.
      destruct (q / 8 =? bp + i + 1) eqn:E1; [lia|]. destruct (q / 8 =? bp + i) eqn:E2; [lia|]. reflexivity.
  - intros t Ht. set (q := 8 * (bp + i) + pib + t).
    destruct (Z.ltb_spec (pib + t) 8) as [C|C].
    + assert (E : q / 8 = bp + i) by (unfold q; lia).
      assert (M : q mod 8 = pib + t) by (unfold q; lia).
      rewrite (getbit_at _ q _ (N (q / 8) ltac:(lia))).
      destruct (q / 8 =? bp + i + 1) eqn:E1; [lia|]. destruct (q / 8 =? bp + i) eqn:E2; [|lia].
      rewrite abytes_byte1_bits by (auto; lia).
      specialize (Hclean q ltac:(unfold q; lia)). rewrite getbit_nthz, E in Hclean. rewrite Hclean.
      destruct (pib <=? q mod 8) eqn:E3; [|lia]. cbn [orb andb]. f_equal. lia.
    + assert (E : q / 8 = bp + i + 1) by (unfold q; lia).
      assert (M : q mod 8 = pib + t - 8) by (unfold q; lia).
      rewrite (getbit_at _ q _ (N (q / 8) ltac:(lia))).
      destruct (q / 8 =? bp + i + 1) eqn:E1; [|lia].
      rewrite abytes_byte2_bits by lia.
      destruct (q mod 8 <? pib) eqn:E3; [|lia]. cbn [andb]. f_equal. lia.
  - intros q Hq.
    assert (E : q / 8 = bp + i + 1) by lia.
    rewrite (getbit_at _ q _ (N (q / 8) ltac:(lia))).
    destruct (q / 8 =? bp + i + 1) eqn:E1; [|lia].
    rewrite abytes_byte2_bits by lia.
    destruct (q mod 8 <? pib) eqn:E3; [lia|reflexivity].
Qed.

Lemma append_bytes_loop_spec src bp pib : 0 <= bp -> 0 < pib < 8 -> forall k b i,
  0 <= i -> i + Z.of_nat k <= len src -> bp + i + Z.of_nat k < len b ->
  exists b', append_bytes_loop k b bp pib src i = COk b' /\ length b' = length b /\
    (bytes_ok b -> bytes_ok b') /\
    (bytes_ok src ->
     (forall q, 8 * (bp + i) + pib <= q < 8 * (bp + i + 1) -> getbit b q = false) ->
     (forall q, 0 <= q < 8 * (bp + i) + pib -> getbit b' q = getbit b q) /\
     (forall t, 0 <= t < 8 * Z.of_nat k ->
        getbit b' (8 * (bp + i) + pib + t) = getbit src (8 * i + t)) /\
     (forall q, 8 * (bp + i + Z.of_nat k) + pib <= q < 8 * (bp + i + Z.of_nat k + 1) ->
        getbit b' q = false)).
Proof.
  intros Hbp Hp. induction k as [|k IH]; intros b i Hi Hsrc Hb.
  - exists b. cbn [append_bytes_loop]. repeat split; auto; try lia.
    all: try (intros q Hq; apply H0; lia).
  - cbn [append_bytes_loop]. rewrite rd_ok by lia. cbn [cbind].
    rewrite rd_ok by lia. cbn [cbind]. rewrite wr_ok by lia. cbn [cbind].
    rewrite wr_ok by (rewrite upd_len; lia). cbn [cbind].
    fold (abytes_step b bp pib (nthz src i) i).
    assert (L2 : length (abytes_step b bp pib (nthz src i) i) = length b)
      by (unfold abytes_step; now rewrite !upd_length).
    destruct (IH (abytes_step b bp pib (nthz src i) i) (i + 1)) as (b' & E & L & B & F);
      try (unfold len in *; rewrite ?L2; lia).
    exists b'. split; [exact E|]. split; [congruence|]. split.
    + intros Bb. apply B. unfold abytes_step. repeat apply upd_bytes_ok; auto; apply is_byte_u8.
    + intros Bs Hclean.
      destruct (abytes_step_bits b bp pib (nthz src i) i) as (S1 & S2 & S3); auto; try lia.
      { now apply nthz_is_byte. }
      destruct (F Bs) as (F1 & F2 & F3).
      { intros q Hq. apply S3. lia. }
      split; [|split].
      * intros q Hq. rewrite F1 by lia. apply S1. lia.
      * intros t Ht. destruct (Z.ltb_spec t 8) as [C|C].
        -- rewrite F1 by lia. rewrite S2 by lia.
           rewrite getbit_nthz. replace ((8 * i + t) / 8) with i by lia.
           replace ((8 * i + t) mod 8) with t by lia. reflexivity.
        -- specialize (F2 (t - 8) ltac:(lia)).
           replace (8 * (bp + (i + 1)) + pib + (t - 8)) with (8 * (bp + i) + pib + t) in F2 by lia.
           rewrite F2. f_equal. lia.
      * intros q Hq. apply F3. lia.
Qed.

(* ------------------------------------------------------------------ *)
(** * append_bytes *)

Lemma append_bytes_latched s src n : latched s -> 0 <= n < 576460752303423488 ->
  append_bytes s src n = COk s.
Proof.
  intros L Hn. unfold append_bytes, encoder_alloc. rewrite u64_small by lia.
  destruct (alloc_latched ENOMEM s (8 * n) L) as (p & -> & Hp); [lia|unfold ENOMEM; lia|].
  cbn [cbind]. destruct (p <? 0) eqn:E; [reflexivity|lia].
Qed.

Lemma append_bytes_noroom s src n : live s -> 0 <= n < 576460752303423488 ->
  size s < pos s + 8 * n -> append_bytes s src n = COk (abort s ENOMEM).
Proof.
  intros L Hn H. unfold append_bytes, encoder_alloc. rewrite u64_small by lia.
  rewrite alloc_live_noroom by (auto; lia). cbn [cbind]. reflexivity.
Qed.

Lemma append_bytes_room s src n : live s -> 0 <= n <= len src -> pos s + 8 * n <= size s ->
  exists b', append_bytes s src n = COk (mkCur b' (size s) (pos s + 8 * n)) /\
    length b' = length (buf s) /\ (bytes_ok src -> bytes_ok b') /\
    (bytes_ok src -> clean s ->
      (forall q, 0 <= q < pos s -> getbit b' q = getbit (buf s) q) /\
      (forall t, 0 <= t < 8 * n -> getbit b' (pos s + t) = getbit src t) /\
      (forall q, pos s + 8 * n <= q < 8 * ((pos s + 8 * n + 7) / 8) -> getbit b' q = false)).
Proof.
  intros L Hn Hr. pose proof (live_len s L) as HL. pose proof L as (L1 & L2 & _ & L4).
  unfold append_bytes, encoder_alloc. rewrite u64_small by lia.
  rewrite alloc_live_room by (auto; lia). cbn [cbind buf size pos].
  destruct (pos s <? 0) eqn:E; [lia|]. clear E.
  rewrite Z.quot_div_nonneg, Z.rem_mod_nonneg by lia.
  destruct (pos s mod 8 =? 0) eqn:E.
  - destruct (memcpy_spec (buf s) (pos s / 8) src 0 n) as (d & -> & Ld & Bd & Nd); try lia.
    cbn [cbind]. exists d. split; [reflexivity|]. split; [exact Ld|]. split; [auto|].
    intros Bs _. split; [|split].
    + intros q Hq. apply getbit_same_byte. rewrite Nd by lia.
      destruct ((pos s / 8 <=? q / 8) && (q / 8 <? pos s / 8 + n)) eqn:E1; [lia|reflexivity].
    + intros t Ht. rewrite getbit_nthz. rewrite Nd by lia.
      destruct ((pos s / 8 <=? (pos s + t) / 8) && ((pos s + t) / 8 <? pos s / 8 + n)) eqn:E1; [|lia].
      rewrite getbit_nthz. f_equal; [f_equal|]; lia.
    + intros q Hq. lia.
  - destruct (append_bytes_loop_spec src (pos s / 8) (pos s mod 8) ltac:(lia) ltac:(lia)
               (Z.to_nat n) (buf s) 0) as (b' & -> & Lb & Bb & F); try lia.
    cbn [cbind]. exists b'. split; [reflexivity|]. split; [exact Lb|]. split; [auto|].
    intros Bs C. destruct (F Bs) as (F1 & F2 & F3).
    { intros q Hq. apply C. lia. }
    split; [|split].
    + intros q Hq. apply F1. lia.
    + intros t Ht. specialize (F2 t ltac:(lia)).
      replace (8 * (pos s / 8 + 0) + pos s mod 8 + t) with (pos s + t) in F2 by lia.
      rewrite F2. f_equal.
    + intros q Hq. apply F3. lia.
Qed.

(* ------------------------------------------------------------------ *)
(** * The bit view of append_bit *)

Lemma abit_buf_bits b p v : 0 <= p -> p / 8 < len b -> 0 <= v <= 1 ->
  (forall q, 0 <= q < p -> getbit (abit_buf b p v) q = getbit b q) /\
  ((forall q, p <= q < 8 * ((p + 7) / 8) -> getbit b q = false) ->
   getbit (abit_buf b p v) p = (v =? 1) /\
   (forall q, p + 1 <= q < 8 * ((p + 1 + 7) / 8) -> getbit (abit_buf b p v) q = false)).
Proof.
  intros Hp Hl Hv.
  set (old := if p mod 8 =? 0 then 0 else nthz b (p / 8)).
  assert (N : forall j, 0 <= j -> nthz (abit_buf b p v) j =
            if j =? p / 8 then u8 (Z.lor old (u8 (Z.shiftl v (7 - p mod 8)))) else nthz b j).
  { intros j Hj. unfold abit_buf. fold old. now rewrite nthz_upd by lia. }
  split; [|intros C; split].
  - intros q Hq. destruct (Z.eq_dec (q / 8) (p / 8)) as [E|E].
    + rewrite (getbit_at _ q _ (N (q / 8) ltac:(lia))).
      destruct (q / 8 =? p / 8) eqn:E1; [|lia].
      rewrite abit_byte_bits by lia.
      destruct (q mod 8 =? p mod 8) eqn:E2; [lia|]. rewrite andb_false_r, orb_false_r.
      unfold old. destruct (p mod 8 =? 0) eqn:E3; [lia|]. rewrite getbit_nthz, E. reflexivity.
    + apply getbit_same_byte. rewrite N by lia.
      destruct (q / 8 =? p / 8) eqn:E1; [lia|reflexivity].
  - rewrite (getbit_at _ p _ (N (p / 8) ltac:(lia))). rewrite Z.eqb_refl.
    rewrite abit_byte_bits by lia. rewrite Z.eqb_refl, andb_true_r.
    unfold old. destruct (p mod 8 =? 0) eqn:E3.
    + now rewrite Z.testbit_0_l.
    + specialize (C p ltac:(lia)). rewrite getbit_nthz in C. now rewrite C.
  - intros q Hq. assert (E : q / 8 = p / 8) by lia.
    rewrite (getbit_at _ q _ (N (q / 8) ltac:(lia))).
    destruct (q / 8 =? p / 8) eqn:E1; [|lia].
    rewrite abit_byte_bits by lia.
    destruct (q mod 8 =? p mod 8) eqn:E2; [lia|]. rewrite andb_false_r, orb_false_r.
    unfold old. destruct (p mod 8 =? 0) eqn:E3.
    + now rewrite Z.testbit_0_l.
    + specialize (C q ltac:(lia)). rewrite getbit_nthz, E in C. exact C.
Qed.

(* ------------------------------------------------------------------ *)
(** * [written] and [bits_at] as bit functions *)

Lemma written_bitsf s : 0 <= pos s <= 8 * len (buf s) ->
  written s = bitsf (getbit (buf s)) 0 (Z.to_nat (pos s)).
Proof.
  intros H. unfold written. rewrite bytes_bits_bitsf, firstn_bitsf. f_equal. unfold len in H. lia.
Qed.

Lemma bits_at_bitsf s n : 0 <= pos s -> 0 <= n -> pos s + n <= 8 * len (buf s) ->
  bits_at s n = bitsf (getbit (buf s)) (pos s) (Z.to_nat n).
Proof.
  intros H1 H2 H3. unfold bits_at. rewrite bytes_bits_bitsf, skipn_bitsf, firstn_bitsf.
  unfold len in H3. f_equal; lia.
Qed.

Lemma written_extend s s' bits :
  0 <= pos s -> pos s' = pos s + len bits -> pos s' <= 8 * len (buf s') -> len (buf s') = len (buf s) ->
  (forall q, 0 <= q < pos s -> getbit (buf s') q = getbit (buf s) q) ->
  bitsf (getbit (buf s')) (pos s) (length bits) = bits ->
  written s' = written s ++ bits.
Proof.
  intros H0 Hp Hs Hl Hlow Hnew. pose proof (len_nonneg bits).
  rewrite !written_bitsf by lia.
  replace (Z.to_nat (pos s')) with (Z.to_nat (pos s) + length bits)%nat by (unfold len in *; lia).
  rewrite bitsf_app. f_equal.
  - apply bitsf_ext. intros q Hq. apply Hlow. lia.
  - rewrite <- Hnew at 2. f_equal. lia.
Qed.

Lemma append_bit_spec s v : live s -> 0 <= v <= 1 -> pos s + 1 <= size s -> clean s ->
  let s' := mkCur (abit_buf (buf s) (pos s) v) (size s) (pos s + 1) in
  clean s' /\ written s' = written s ++ [v =? 1].
Proof.
  intros L Hv Hr C s'. pose proof (live_len s L) as HL. pose proof L as (L1 & L2 & _).
  destruct (abit_buf_bits (buf s) (pos s) v) as (B1 & B2); try lia.
  destruct (B2 C) as (B3 & B4).
  split.
  - exact B4.
  - subst s'. apply written_extend; cbn [buf pos]; unfold len in *; rewrite ?abit_buf_length;
      change (length [v =? 1]) with 1%nat;
      [lia | lia | lia | lia | exact B1 | cbn [bitsf]; now rewrite B3].
Qed.

(* ------------------------------------------------------------------ *)
(** * One encoder call with room: the post-condition *)

Definition enc_post (s s' : cur) (bits : list bool) : Prop :=
  live s' /\ size s' = size s /\ length (buf s') = length (buf s) /\ pos s' = pos s + len bits /\
  (clean s -> clean s' /\ written s' = written s ++ bits).

Lemma enc_post_trans s s1 s2 l1 l2 :
  enc_post s s1 l1 -> enc_post s1 s2 l2 -> enc_post s s2 (l1 ++ l2).
Proof.
  intros (A1 & A2 & A3 & A4 & A5) (B1 & B2 & B3 & B4 & B5).
  unfold enc_post. split; [exact B1|]. split; [congruence|]. split; [congruence|]. split.
  - unfold len in *. rewrite app_length. lia.
  - intros H. destruct (A5 H) as (C1 & W1). destruct (B5 C1) as (C2 & W2).
    split; [exact C2|]. rewrite W2, W1. now rewrite app_assoc.
Qed.

Lemma enc_post_refl s : live s -> enc_post s s [].
Proof.
  intros L. unfold enc_post. split; [exact L|]. split; [reflexivity|]. split; [reflexivity|]. split.
  - change (len (@nil bool)) with 0. lia.
  - intros C. split; [exact C|]. now rewrite app_nil_r.
Qed.

Lemma append_bit_post s v : live s -> 0 <= v <= 1 -> pos s + 1 <= size s ->
  exists s', append_bit s v = COk s' /\ enc_post s s' [v =? 1].
Proof.
  intros L Hv Hr. rewrite append_bit_room by auto.
  eexists; split; [reflexivity|]. unfold enc_post. cbn [buf size pos].
  split; [now apply abit_live|]. split; [reflexivity|]. split; [apply abit_buf_length|].
  split; [reflexivity|]. intros C. now apply append_bit_spec.
Qed.

Lemma append_bytes_post s src n :
  live s -> 0 <= n <= len src -> bytes_ok src -> pos s + 8 * n <= size s ->
  exists s', append_bytes s src n = COk s' /\ enc_post s s' (bytes_bits (firstn (Z.to_nat n) src)).
Proof.
  intros L Hn Bs Hr. pose proof (live_len s L) as HL. pose proof L as (L1 & L2 & L3 & L4).
  destruct (append_bytes_room s src n L Hn Hr) as (b' & E & Lb & Bb & F).
  eexists; split; [exact E|].
  assert (LF : length (firstn (Z.to_nat n) src) = Z.to_nat n)
    by (rewrite firstn_length; unfold len in *; lia).
  assert (LB : len (bytes_bits (firstn (Z.to_nat n) src)) = 8 * n)
    by (unfold len; rewrite bytes_bits_length, LF; lia).
  unfold enc_post. cbn [buf size pos]. rewrite LB.
  split.
  { unfold live, len in *. cbn [buf size pos]. rewrite Lb. repeat split; auto; lia. }
  split; [reflexivity|]. split; [exact Lb|]. split; [reflexivity|].
  intros C. destruct (F Bs C) as (F1 & F2 & F3). split; [exact F3|].
  apply written_extend; cbn [buf pos];
    [lia | lia | unfold len in *; rewrite Lb; lia | unfold len; now rewrite Lb | exact F1 | ].
  - rewrite bytes_bits_length, LF.
    rewrite (bytes_bits_bitsf (firstn _ _)), LF.
    replace (pos s) with (0 + pos s) at 1 by lia. rewrite bitsf_shift.
    apply bitsf_ext. intros i Hi.
    replace (i + pos s) with (pos s + i) by lia. rewrite F2 by lia.
    symmetry. apply getbit_firstn. lia.
Qed.

Lemma append_be_bytes_post s k w : live s -> pos s + 8 * Z.of_nat k <= size s ->
  exists s', append_bytes s (be_bytes k w) (Z.of_nat k) = COk s' /\ enc_post s s' (be_bits (8 * k) w).
Proof.
  intros L Hr.
  destruct (append_bytes_post s (be_bytes k w) (Z.of_nat k)) as (s' & E & P); auto.
  - unfold len. rewrite be_bytes_length. lia.
  - apply be_bytes_ok.
  - exists s'. split; [exact E|]. rewrite Nat2Z.id in P.
    rewrite firstn_all2 in P by (rewrite be_bytes_length; lia).
    now rewrite bytes_bits_be_bytes in P.
Qed.

(* ------------------------------------------------------------------ *)
(** * append_nnbi *)

Lemma nnbi_bit_range value sh : 0 <= sh -> 0 <= Z.land (Z.shiftr value sh) 1 <= 1.
Proof. intros H. rewrite land_shiftr_1 by lia. destruct (Z.testbit value sh); lia. Qed.

Lemma append_nnbi_loop_latched value n : forall k s i, latched s -> 0 <= i -> i + Z.of_nat k <= n <= 64 ->
  append_nnbi_loop k s value n i = COk s.
Proof.
  induction k as [|k IH]; intros s i L Hi Hn; [reflexivity|].
  cbn [append_nnbi_loop].
  destruct ((n - i - 1 <? 0) || (64 <=? n - i - 1)) eqn:E; [lia|].
  rewrite append_bit_latched by auto. cbn [cbind]. apply IH; auto; lia.
Qed.

Lemma append_nnbi_loop_post value n : forall k s i, live s -> 0 <= i -> i + Z.of_nat k <= n <= 64 ->
  pos s + Z.of_nat k <= size s ->
  exists s', append_nnbi_loop k s value n i = COk s' /\
             enc_post s s' (bitsf (fun j => Z.testbit value (n - 1 - j)) i k).
Proof.
  induction k as [|k IH]; intros s i L Hi Hn Hr.
  - exists s. split; [reflexivity|]. now apply enc_post_refl.
  - cbn [append_nnbi_loop].
    destruct ((n - i - 1 <? 0) || (64 <=? n - i - 1)) eqn:E; [lia|]. clear E.
    destruct (append_bit_post s (Z.land (Z.shiftr value (n - i - 1)) 1)) as (s1 & -> & P1); auto;
      [apply nnbi_bit_range; lia | lia |].
    cbn [cbind]. pose proof P1 as (L1 & S1 & _ & Q1 & _). change (len [_]) with 1 in Q1.
    destruct (IH s1 (i + 1)) as (s2 & -> & P2); auto; try lia.
    exists s2. split; [reflexivity|].
    cbn [bitsf]. change (?x :: ?l) with ([x] ++ l).
    eapply enc_post_trans; [|exact P2].
    rewrite land_shiftr_1 in P1 by lia.
    replace (n - 1 - i) with (n - i - 1) by lia.
    destruct (Z.testbit value (n - i - 1)); exact P1.
Qed.

Lemma append_nnbi_loop_noroom value n : forall k s i, live s -> 0 <= i -> i + Z.of_nat k <= n <= 64 ->
  size s < pos s + Z.of_nat k ->
  exists s', append_nnbi_loop k s value n i = COk s' /\ latched s' /\ pos s' = - ENOMEM /\
             length (buf s') = length (buf s).
Proof.
  induction k as [|k IH]; intros s i L Hi Hn Hr.
  - destruct L as (_ & L2 & _). lia.
  - cbn [append_nnbi_loop].
    destruct ((n - i - 1 <? 0) || (64 <=? n - i - 1)) eqn:E; [lia|]. clear E.
    destruct (Z.le_gt_cases (pos s + 1) (size s)) as [R|R].
    + destruct (append_bit_post s (Z.land (Z.shiftr value (n - i - 1)) 1)) as (s1 & -> & P1); auto;
        [apply nnbi_bit_range; lia |].
      cbn [cbind]. destruct P1 as (L1 & S1 & B1 & Q1 & _). change (len [_]) with 1 in Q1.
      destruct (IH s1 (i + 1)) as (s2 & -> & P2); auto; try lia.
      exists s2. split; [reflexivity|]. destruct P2 as (P21 & P22 & P23).
      split; [exact P21|]. split; [exact P22|]. congruence.
    + rewrite append_bit_noroom by (auto; lia). cbn [cbind].
      rewrite append_nnbi_loop_latched; auto; try lia.
      * eexists; split; [reflexivity|]. rewrite abort_live by auto. cbn [buf pos].
        split; [|auto]. unfold latched, ENOMEM; cbn; lia.
      * apply abort_live_latched; auto. unfold ENOMEM; lia.
Qed.

(* ------------------------------------------------------------------ *)
(** * Every encoder call *)

Lemma be_bits_congr n a b : a mod 2 ^ Z.of_nat n = b mod 2 ^ Z.of_nat n -> be_bits n a = be_bits n b.
Proof.
  intros H. rewrite <- (be_bits_mod n n a), <- (be_bits_mod n n b) by lia. now rewrite H.
Qed.

Lemma append_uint8_eq s v : append_uint8 s v = append_bytes s (be_bytes 1 (u8 v)) (Z.of_nat 1).
Proof. reflexivity. Qed.
Lemma append_uint16_eq s v : append_uint16 s v = append_bytes s (be_bytes 2 (u16 v)) (Z.of_nat 2).
Proof. reflexivity. Qed.
Lemma append_uint32_eq s v : append_uint32 s v = append_bytes s (be_bytes 4 (u32 v)) (Z.of_nat 4).
Proof. reflexivity. Qed.
Lemma append_uint64_eq s v : append_uint64 s v = append_bytes s (be_bytes 8 (u64 v)) (Z.of_nat 8).
Proof. reflexivity. Qed.

Lemma append_uint8_post s v w : live s -> pos s + 8 <= size s -> v mod 256 = w mod 256 ->
  exists s', append_uint8 s v = COk s' /\ enc_post s s' (be_bits 8 w).
Proof.
  intros L Hr E. rewrite append_uint8_eq.
  destruct (append_be_bytes_post s 1 (u8 v) L) as (s' & -> & P); [lia|].
  exists s'. split; [reflexivity|]. change (8 * 1)%nat with 8%nat in P.
  rewrite (be_bits_congr 8 (u8 v) w) in P; auto.
  unfold u8. change (2 ^ Z.of_nat 8) with 256. lia.
Qed.

Lemma append_uint16_post s v w : live s -> pos s + 16 <= size s -> v mod 65536 = w mod 65536 ->
  exists s', append_uint16 s v = COk s' /\ enc_post s s' (be_bits 16 w).
Proof.
  intros L Hr E. rewrite append_uint16_eq.
  destruct (append_be_bytes_post s 2 (u16 v) L) as (s' & -> & P); [lia|].
  exists s'. split; [reflexivity|]. change (8 * 2)%nat with 16%nat in P.
  rewrite (be_bits_congr 16 (u16 v) w) in P; auto.
  unfold u16. change (2 ^ Z.of_nat 16) with 65536. lia.
Qed.

Lemma append_uint32_post s v w : live s -> pos s + 32 <= size s -> v mod 4294967296 = w mod 4294967296 ->
  exists s', append_uint32 s v = COk s' /\ enc_post s s' (be_bits 32 w).
Proof.
  intros L Hr E. rewrite append_uint32_eq.
  destruct (append_be_bytes_post s 4 (u32 v) L) as (s' & -> & P); [lia|].
  exists s'. split; [reflexivity|]. change (8 * 4)%nat with 32%nat in P.
  rewrite (be_bits_congr 32 (u32 v) w) in P; auto.
  unfold u32. change (2 ^ Z.of_nat 32) with 4294967296. lia.
Qed.

Lemma append_uint64_post s v w : live s -> pos s + 64 <= size s ->
  v mod 18446744073709551616 = w mod 18446744073709551616 ->
  exists s', append_uint64 s v = COk s' /\ enc_post s s' (be_bits 64 w).
Proof.
  intros L Hr E. rewrite append_uint64_eq.
  destruct (append_be_bytes_post s 8 (u64 v) L) as (s' & -> & P); [lia|].
  exists s'. split; [reflexivity|]. change (8 * 8)%nat with 64%nat in P.
  rewrite (be_bits_congr 64 (u64 v) w) in P; auto.
  unfold u64. change (2 ^ Z.of_nat 64) with 18446744073709551616. lia.
Qed.

Lemma eop_room s o : live s -> eop_ok o -> eop_is_abort o = false -> pos s + eop_bits o <= size s ->
  exists s', run_eop s o = COk s' /\ enc_post s s' (eop_spec o).
Proof.
  intros L Ok NA Hr.
  destruct o; cbn [run_eop eop_spec eop_bits eop_ok eop_is_abort] in *; try discriminate.
  - apply append_bit_post; auto.
  - unfold append_bool. destruct b.
    + apply (append_bit_post s 1); auto; lia.
    + apply (append_bit_post s 0); auto; lia.
  - destruct Ok as (H1 & H2 & H3). apply append_bytes_post; auto.
  - unfold append_nnbi.
    destruct (append_nnbi_loop_post (u64 v) n (Z.to_nat n) s 0) as (s' & E & P); auto; try lia.
    exists s'. split; [exact E|].
    rewrite <- (be_bits_mod (Z.to_nat n) 64 v) by lia.
    rewrite be_bits_bitsf, Z2Nat.id by lia. exact P.
  - apply append_uint8_post; auto.
  - apply append_uint16_post; auto.
  - apply append_uint32_post; auto.
  - apply append_uint64_post; auto.
  - unfold append_int8. apply append_uint8_post; auto. unfold u8, s8. lia.
  - unfold append_int16. apply append_uint16_post; auto. unfold u16, s16. lia.
  - unfold append_int32. apply append_uint32_post; auto. unfold u32, s32. lia.
  - unfold append_int64. apply append_uint64_post; auto. unfold u64, s64. lia.
Qed.

Lemma eop_latched s o : latched s -> eop_ok o -> run_eop s o = COk s.
Proof.
  intros L Ok.
  destruct o; cbn [run_eop eop_ok] in *;
    unfold append_int8, append_int16, append_int32, append_int64;
    rewrite ?append_uint8_eq, ?append_uint16_eq, ?append_uint32_eq, ?append_uint64_eq;
    try (apply append_bytes_latched; auto; lia).
  - now apply append_bit_latched.
  - now apply append_bit_latched.
  - unfold append_nnbi. apply append_nnbi_loop_latched; auto; lia.
  - now rewrite abort_latched.
Qed.

Lemma eop_noroom s o : live s -> eop_ok o -> eop_is_abort o = false -> size s < pos s + eop_bits o ->
  exists s', run_eop s o = COk s' /\ latched s' /\ pos s' = - ENOMEM /\
             length (buf s') = length (buf s).
Proof.
  intros L Ok NA Hr.
  assert (A : exists s', COk (abort s ENOMEM) = COk s' /\ latched s' /\ pos s' = - ENOMEM /\
             length (buf s') = length (buf s)).
  { eexists; split; [reflexivity|]. split; [apply abort_live_latched; auto; unfold ENOMEM; lia|].
    rewrite abort_live by auto. split; reflexivity. }
  destruct o; cbn [run_eop eop_bits eop_ok eop_is_abort] in *; try discriminate;
    unfold append_int8, append_int16, append_int32, append_int64;
    rewrite ?append_uint8_eq, ?append_uint16_eq, ?append_uint32_eq, ?append_uint64_eq;
    try (rewrite append_bytes_noroom by (auto; lia); exact A).
  - rewrite append_bit_noroom by auto. exact A.
  - unfold append_bool. rewrite append_bit_noroom by auto. exact A.
  - unfold append_nnbi. apply append_nnbi_loop_noroom; auto; lia.
Qed.

(* ------------------------------------------------------------------ *)
(** * Group 1: in bounds, latch (encoder) *)

Theorem eop_in_bounds : forall s o, wf s -> eop_ok o ->
  exists s', run_eop s o = COk s' /\ wf s' /\ length (buf s') = length (buf s) /\ (latched s -> s' = s).
Proof.
  intros s o [L|L] Ok.
  - assert (NL : latched s -> False) by (destruct L as (_ & L2 & _); intros [H1 H2]; lia).
    destruct (eop_is_abort o) eqn:NA.
    + destruct o; try discriminate. cbn [run_eop eop_ok] in *.
      eexists; split; [reflexivity|]. split; [right; now apply abort_live_latched|].
      rewrite abort_live by auto. split; [reflexivity|]. intros H; destruct (NL H).
    + destruct (Z.le_gt_cases (pos s + eop_bits o) (size s)) as [R|R].
      * destruct (eop_room s o L Ok NA R) as (s' & E & P1 & _ & P3 & _).
        exists s'. split; [exact E|]. split; [now left|]. split; [exact P3|]. intros H; destruct (NL H).
      * destruct (eop_noroom s o L Ok NA R) as (s' & E & P1 & _ & P3).
        exists s'. split; [exact E|]. split; [now right|]. split; [exact P3|]. intros H; destruct (NL H).
  - exists s. split; [now apply eop_latched|]. split; [now right|]. split; auto.
Qed.

Theorem helpers_in_bounds_enc : forall os s, wf s -> Forall eop_ok os ->
  exists s', run_eops s os = COk s' /\ wf s' /\ length (buf s') = length (buf s) /\ (latched s -> s' = s).
Proof.
  induction os as [|o os IH]; intros s W F.
  - exists s. cbn [run_eops]. repeat split; auto.
  - inversion F as [|? ? Ho Hos]; subst. cbn [run_eops].
    destruct (eop_in_bounds s o W Ho) as (s1 & -> & W1 & L1 & K1). cbn [cbind].
    destruct (IH s1 W1 Hos) as (s2 & E & W2 & L2 & K2).
    exists s2. split; [exact E|]. split; [exact W2|]. split; [congruence|].
    intros H. specialize (K1 H). subst s1. now apply K2.
Qed.

Theorem enc_overflow_latches : forall s o, live s -> eop_ok o -> eop_is_abort o = false ->
  size s < pos s + eop_bits o ->
  exists s', run_eop s o = COk s' /\ latched s' /\ get_result s' = - ENOMEM.
Proof.
  intros s o L Ok NA R. destruct (eop_noroom s o L Ok NA R) as (s' & E & P1 & P2 & _).
  exists s'. split; [exact E|]. split; [exact P1|]. now rewrite get_result_latched.
Qed.

Lemma run_eops_app s os1 os2 :
  run_eops s (os1 ++ os2) = let+ s1 := run_eops s os1 in run_eops s1 os2.
Proof.
  revert s; induction os1 as [|o os1 IH]; intros s; [reflexivity|].
  cbn [app run_eops]. destruct (run_eop s o); cbn [cbind]; auto.
Qed.

Theorem enc_latch_sticky : forall os1 os2 s s1, wf s -> Forall eop_ok (os1 ++ os2) ->
  run_eops s os1 = COk s1 -> latched s1 -> run_eops s (os1 ++ os2) = COk s1.
Proof.
  intros os1 os2 s s1 W F E L. rewrite run_eops_app, E. cbn [cbind].
  apply Forall_app in F. destruct F as [_ F2].
  destruct (helpers_in_bounds_enc os2 s1 (or_intror L) F2) as (s2 & E2 & _ & _ & K).
  rewrite E2. f_equal. now apply K.
Qed.

(* ================================================================== *)
(** * Decoder *)

(** A reader: what one decoder call does in the three regimes (latched,
    live without room, live with room).  [Q] holds for every returned value. *)
Definition reader_ok {A} (R : cur -> cres (cur * A)) (bits : Z) (val : cur -> A) (Q : A -> Prop) : Prop :=
  (forall s, latched s -> exists a, R s = COk (s, a) /\ Q a) /\
  (forall s, live s -> size s < pos s + bits -> exists a, R s = COk (abort s EOUTOFDATA, a) /\ Q a) /\
  (forall s, live s -> pos s + bits <= size s ->
     R s = COk (mkCur (buf s) (size s) (pos s + bits), val s) /\ Q (val s)).

Lemma reader_ok_bind {A B} (R : cur -> cres (cur * A)) bits val Q
      (K : cur -> A -> cres (cur * B)) (g : A -> B) (Q' : B -> Prop) :
  reader_ok R bits val Q ->
  (forall s1 a, Q a -> K s1 a = COk (s1, g a)) -> (forall a, Q a -> Q' (g a)) ->
  reader_ok (fun s => let+ (s1, a) := R s in K s1 a) bits (fun s => g (val s)) Q'.
Proof.
  intros (R1 & R2 & R3) HK HQ. split; [|split].
  - intros s L. destruct (R1 s L) as (a & -> & Qa). cbn [cbind]. exists (g a). split; auto.
  - intros s L H. destruct (R2 s L H) as (a & -> & Qa). cbn [cbind]. exists (g a). split; auto.
  - intros s L H. destruct (R3 s L H) as (-> & Qa). cbn [cbind]. split; auto.
Qed.

Lemma reader_ok_val {A} (R : cur -> cres (cur * A)) bits val val' Q :
  reader_ok R bits val Q ->
  (forall s, live s -> pos s + bits <= size s -> val s = val' s) ->
  reader_ok R bits val' Q.
Proof.
  intros (R1 & R2 & R3) HV. split; [|split]; auto.
  intros s L H. rewrite <- (HV s L H). auto.
Qed.

(** ** read_bit *)

Lemma read_bit_latched s : latched s -> read_bit s = COk (s, 0).
Proof.
  intros L. unfold read_bit, decoder_free.
  destruct (alloc_latched EOUTOFDATA s 1 L) as (p & -> & Hp); [lia|unfold EOUTOFDATA; lia|].
  cbn [cbind]. destruct (p >=? 0) eqn:E; [lia|reflexivity].
Qed.

Lemma read_bit_noroom s : live s -> size s < pos s + 1 -> read_bit s = COk (abort s EOUTOFDATA, 0).
Proof.
  intros L H. unfold read_bit, decoder_free.
  rewrite alloc_live_noroom by (auto; lia). cbn [cbind]. reflexivity.
Qed.

Lemma read_bit_room s : live s -> pos s + 1 <= size s ->
  read_bit s = COk (mkCur (buf s) (size s) (pos s + 1), if getbit (buf s) (pos s) then 1 else 0).
Proof.
  intros L Hr. pose proof (live_len s L) as HL. pose proof L as (L1 & L2 & _).
  unfold read_bit, decoder_free. rewrite alloc_live_room by (auto; lia).
  cbn [cbind buf size pos].
  destruct (pos s >=? 0) eqn:E; [|lia]. clear E.
  rewrite Z.quot_div_nonneg, Z.rem_mod_nonneg by lia.
  rewrite rd_ok by lia. cbn [cbind]. rewrite land_shiftr_1 by lia. reflexivity.
Qed.

Lemma read_bit_reader :
  reader_ok read_bit 1 (fun s => if getbit (buf s) (pos s) then 1 else 0) (fun _ => True).
Proof.
  split; [|split].
  - intros s L. exists 0. split; auto. now apply read_bit_latched.
  - intros s L H. exists 0. split; auto. now apply read_bit_noroom.
  - intros s L H. split; auto. now apply read_bit_room.
Qed.

(** ** read_bytes *)

Definition rbyte (b : list Z) (bp pib j : Z) : Z :=
  u8 (Z.lor (u8 (Z.shiftl (nthz b (bp + j)) pib)) (Z.shiftr (nthz b (bp + j + 1)) (8 - pib))).

Lemma read_bytes_loop_spec b bp pib : 0 <= bp -> forall k dst i,
  0 <= i -> i + Z.of_nat k <= len dst -> bp + i + Z.of_nat k < len b ->
  exists d, read_bytes_loop k b bp pib dst i = COk d /\ length d = length dst /\
    forall j, 0 <= j ->
      nthz d j = if (i <=? j) && (j <? i + Z.of_nat k) then rbyte b bp pib j else nthz dst j.
Proof.
  intros Hbp. induction k as [|k IH]; intros dst i Hi Hd Hb.
  - exists dst. cbn [read_bytes_loop]. split; [reflexivity|]. split; [reflexivity|].
    intros j Hj. destruct ((i <=? j) && (j <? i + Z.of_nat 0)) eqn:E; [lia|reflexivity].
  - cbn [read_bytes_loop]. rewrite rd_ok by lia. cbn [cbind].
    rewrite wr_ok by lia. cbn [cbind]. rewrite rd_ok by lia. cbn [cbind].
    rewrite rd_ok by (rewrite upd_len; lia). cbn [cbind].
    rewrite wr_ok by (rewrite upd_len; lia). cbn [cbind].
    rewrite upd_upd. rewrite nthz_upd by lia. rewrite Z.eqb_refl.
    fold (rbyte b bp pib i).
    destruct (IH (upd dst (Z.to_nat i) (rbyte b bp pib i)) (i + 1)) as (d & E & L & N);
      try rewrite upd_len; try lia.
    exists d. split; [exact E|]. split; [now rewrite L, upd_length|].
    intros j Hj. rewrite N by lia. rewrite nthz_upd by lia.
    destruct ((i + 1 <=? j) && (j <? i + 1 + Z.of_nat k)) eqn:E1;
    destruct ((i <=? j) && (j <? i + Z.of_nat (S k))) eqn:E2;
    destruct (j =? i) eqn:E3; try lia; try reflexivity.
    f_equal. lia.
Qed.

Lemma read_bytes_latched s dst n : latched s -> 0 <= n < 576460752303423488 ->
  read_bytes s dst n = COk (s, dst).
Proof.
  intros L Hn. unfold read_bytes, decoder_free. rewrite u64_small by lia.
  destruct (alloc_latched EOUTOFDATA s (8 * n) L) as (p & -> & Hp); [lia|unfold EOUTOFDATA; lia|].
  cbn [cbind]. destruct (p <? 0) eqn:E; [reflexivity|lia].
Qed.

Lemma read_bytes_noroom s dst n : live s -> 0 <= n < 576460752303423488 ->
  size s < pos s + 8 * n -> read_bytes s dst n = COk (abort s EOUTOFDATA, dst).
Proof.
  intros L Hn H. unfold read_bytes, decoder_free. rewrite u64_small by lia.
  rewrite alloc_live_noroom by (auto; lia). cbn [cbind]. reflexivity.
Qed.

Lemma read_bytes_room s dst n : live s -> 0 <= n <= len dst -> pos s + 8 * n <= size s ->
  exists d, read_bytes s dst n = COk (mkCur (buf s) (size s) (pos s + 8 * n), d) /\
    length d = length dst /\
    (forall j, n <= j -> nthz d j = nthz dst j) /\
    (forall j, 0 <= j < n -> is_byte (nthz d j)) /\
    (forall j t, 0 <= j < n -> 0 <= t < 8 ->
       Z.testbit (nthz d j) (7 - t) = getbit (buf s) (pos s + 8 * j + t)).
Proof.
  intros L Hn Hr. pose proof (live_len s L) as HL. pose proof L as (L1 & L2 & _ & L4).
  unfold read_bytes, decoder_free. rewrite u64_small by lia.
  rewrite alloc_live_room by (auto; lia). cbn [cbind buf size pos].
  destruct (pos s <? 0) eqn:E; [lia|]. clear E.
  rewrite Z.quot_div_nonneg, Z.rem_mod_nonneg by lia.
  destruct (pos s mod 8 =? 0) eqn:E.
  - destruct (memcpy_spec dst 0 (buf s) (pos s / 8) n) as (d & -> & Ld & _ & Nd); try lia.
    cbn [cbind]. exists d. split; [reflexivity|]. split; [exact Ld|]. split; [|split].
    + intros j Hj. rewrite Nd by lia. destruct ((0 <=? j) && (j <? 0 + n)) eqn:E1; [lia|reflexivity].
    + intros j Hj. rewrite Nd by lia. destruct ((0 <=? j) && (j <? 0 + n)) eqn:E1; [|lia].
      now apply nthz_is_byte.
    + intros j t Hj Ht. rewrite Nd by lia. destruct ((0 <=? j) && (j <? 0 + n)) eqn:E1; [|lia].
      rewrite getbit_nthz. f_equal; [f_equal|]; lia.
  - destruct (read_bytes_loop_spec (buf s) (pos s / 8) (pos s mod 8) ltac:(lia) (Z.to_nat n) dst 0)
      as (d & -> & Ld & Nd); try lia.
    cbn [cbind]. exists d. split; [reflexivity|]. split; [exact Ld|]. split; [|split].
    + intros j Hj. rewrite Nd by lia.
      destruct ((0 <=? j) && (j <? 0 + Z.of_nat (Z.to_nat n))) eqn:E1; [lia|reflexivity].
    + intros j Hj. rewrite Nd by lia.
      destruct ((0 <=? j) && (j <? 0 + Z.of_nat (Z.to_nat n))) eqn:E1; [|lia].
      apply is_byte_u8.
    + intros j t Hj Ht. rewrite Nd by lia.
      destruct ((0 <=? j) && (j <? 0 + Z.of_nat (Z.to_nat n))) eqn:E1; [|lia].
      unfold rbyte. rewrite rbytes_byte_bits; try lia; try (now apply nthz_is_byte).
      rewrite getbit_nthz.
      destruct (t + pos s mod 8 <? 8) eqn:E2; (f_equal; [f_equal|]; lia).
Qed.

Lemma read_bytes_post s dst n : live s -> 0 <= n <= len dst -> pos s + 8 * n <= size s ->
  read_bytes s dst n =
  COk (mkCur (buf s) (size s) (pos s + 8 * n),
       unpack_bytes (Z.to_nat n) (bits_at s (8 * n)) ++ skipn (Z.to_nat n) dst).
Proof.
  intros L Hn Hr. pose proof (live_len s L) as HL. pose proof L as (L1 & L2 & _ & L4).
  destruct (read_bytes_room s dst n L Hn Hr) as (d & -> & Ld & N1 & N2 & N3).
  do 2 f_equal.
  set (l := firstn (Z.to_nat n) d).
  assert (Ll : length l = Z.to_nat n) by (unfold l; rewrite firstn_length; unfold len in *; lia).
  assert (Nl : forall j, 0 <= j < n -> nthz l j = nthz d j)
    by (intros j Hj; unfold l; apply nthz_firstn; lia).
  assert (Bl : bytes_ok l).
  { apply Forall_nth. intros i d0 Hi. rewrite (nth_indep l d0 0 Hi).
    specialize (Nl (Z.of_nat i) ltac:(lia)). unfold nthz in Nl at 1. rewrite Nat2Z.id in Nl.
    rewrite Nl. apply N2. lia. }
  assert (El : bytes_bits l = bits_at s (8 * n)).
  { rewrite bits_at_bitsf by lia. rewrite bytes_bits_bitsf, Ll.
    replace (Z.to_nat (8 * n)) with (8 * Z.to_nat n)%nat by lia.
    replace (pos s) with (0 + pos s) at 1 by lia. rewrite bitsf_shift.
    apply bitsf_ext. intros q Hq. rewrite getbit_nthz. rewrite Nl by lia.
    replace (7 - q mod 8) with (7 - (q mod 8)) by lia. rewrite N3 by lia. f_equal. lia. }
  assert (Ed : d = l ++ skipn (Z.to_nat n) dst).
  { apply nthz_ext.
    - rewrite app_length, skipn_length, Ll. unfold len in *. lia.
    - intros i Hi. destruct (Z.ltb_spec i n).
      + rewrite nthz_app_l by (unfold len; lia). symmetry. apply Nl. lia.
      + rewrite nthz_app_r by (unfold len; lia). rewrite nthz_skipn by (unfold len; lia).
        rewrite N1 by lia. f_equal. unfold len. lia. }
  rewrite Ed at 1. f_equal.
  rewrite <- El, <- Ll. rewrite <- (app_nil_r (bytes_bits l)). symmetry. now apply unpack_bytes_bits.
Qed.

Lemma read_bytes_reader dst n : 0 <= n <= len dst -> n < 576460752303423488 ->
  reader_ok (fun s => read_bytes s dst n) (8 * n)
    (fun s => unpack_bytes (Z.to_nat n) (bits_at s (8 * n)) ++ skipn (Z.to_nat n) dst)
    (fun d => length d = length dst).
Proof.
  intros Hn Hn2. split; [|split].
  - intros s L. exists dst. split; auto. apply read_bytes_latched; auto; lia.
  - intros s L H. exists dst. split; auto. apply read_bytes_noroom; auto; lia.
  - intros s L H. split; [now apply read_bytes_post|].
    rewrite app_length, unpack_bytes_length, skipn_length. unfold len in *. lia.
Qed.

(** ** read_nnbi *)

Lemma read_nnbi_loop_latched : forall k s acc, latched s ->
  exists a, read_nnbi_loop k s acc = COk (s, a).
Proof.
  induction k as [|k IH]; intros s acc L; cbn [read_nnbi_loop]; [eauto|].
  rewrite read_bit_latched by auto. cbn [cbind]. now apply IH.
Qed.

Lemma abort_adv s e n : live s -> abort (mkCur (buf s) (size s) n) e = abort s e.
Proof.
  intros (L1 & L2 & _). unfold abort. cbn [buf size pos].
  destruct (size s >=? 0) eqn:E; [reflexivity|lia].
Qed.

Lemma live_adv s n : live s -> 0 <= n -> pos s + n <= size s -> live (mkCur (buf s) (size s) (pos s + n)).
Proof. intros (L1 & L2 & L3 & L4) H1 H2. unfold live. cbn [buf size pos]. repeat split; auto; lia. Qed.

Lemma read_nnbi_loop_noroom : forall k s acc, live s -> size s < pos s + Z.of_nat k ->
  exists a, read_nnbi_loop k s acc = COk (abort s EOUTOFDATA, a).
Proof.
  induction k as [|k IH]; intros s acc L H.
  - destruct L as (_ & L2 & _). lia.
  - cbn [read_nnbi_loop]. destruct (Z.le_gt_cases (pos s + 1) (size s)) as [R|R].
    + rewrite read_bit_room by auto. cbn [cbind].
      destruct (IH (mkCur (buf s) (size s) (pos s + 1))
                   (Z.lor (u64 (Z.shiftl acc 1)) (u64 (if getbit (buf s) (pos s) then 1 else 0))))
        as (a & E).
      * apply live_adv; auto; lia.
      * cbn [size pos]. lia.
      * rewrite abort_adv in E by auto. eauto.
    + rewrite read_bit_noroom by (auto; lia). cbn [cbind].
      apply read_nnbi_loop_latched. apply abort_live_latched; auto. unfold EOUTOFDATA; lia.
Qed.

Lemma read_nnbi_loop_room : forall k s acc, live s -> pos s + Z.of_nat k <= size s ->
  0 <= acc -> (acc + 1) * 2 ^ Z.of_nat k <= 18446744073709551616 ->
  read_nnbi_loop k s acc =
  COk (mkCur (buf s) (size s) (pos s + Z.of_nat k),
       bits_value_acc acc (bitsf (getbit (buf s)) (pos s) k)).
Proof.
  induction k as [|k IH]; intros s acc L H Ha Hb.
  - cbn [read_nnbi_loop bitsf bits_value_acc]. do 2 f_equal. rewrite <- (cur_eta s) at 1. f_equal. lia.
  - cbn [read_nnbi_loop]. rewrite read_bit_room by (auto; lia). cbn [cbind].
    rewrite Nat2Z.inj_succ, Z.pow_succ_r in Hb by lia.
    assert (0 < 2 ^ Z.of_nat k) by (apply Z.pow_pos_nonneg; lia).
    rewrite Z.shiftl_mul_pow2 by lia. change (2 ^ 1) with 2.
    rewrite (u64_small (acc * 2)) by nia.
    rewrite (u64_small (if getbit (buf s) (pos s) then 1 else 0))
      by (destruct (getbit (buf s) (pos s)); lia).
    rewrite (Z.mul_comm acc 2). rewrite lor_double_bit by lia.
    rewrite IH.
    + cbn [buf size pos bitsf bits_value_acc]. do 3 f_equal. lia.
    + apply live_adv; auto; lia.
    + cbn [size pos]. lia.
    + destruct (getbit (buf s) (pos s)); lia.
    + destruct (getbit (buf s) (pos s)); nia.
Qed.

Lemma read_nnbi_reader n : 0 <= n <= 64 ->
  reader_ok (fun s => read_nnbi s n) n (fun s => bits_value (bits_at s n)) (fun _ => True).
Proof.
  intros Hn. unfold read_nnbi. split; [|split].
  - intros s L. destruct (read_nnbi_loop_latched (Z.to_nat n) s 0 L) as (a & E). eauto.
  - intros s L H. destruct (read_nnbi_loop_noroom (Z.to_nat n) s 0 L) as (a & E); [lia|]. eauto.
  - intros s L H. split; auto. pose proof (live_len s L) as HL. pose proof L as (L1 & L2 & _).
    rewrite read_nnbi_loop_room; auto; try lia.
    + rewrite Z2Nat.id by lia. rewrite bits_at_bitsf by lia. reflexivity.
    + rewrite Z2Nat.id by lia. change 18446744073709551616 with (2 ^ 64).
      rewrite Z.mul_1_l. apply Z.pow_le_mono_r; lia.
Qed.

(** ** fixed-width readers *)

Lemma junk_firstn junk k : junk_ok junk -> (k <= 8)%nat -> length (firstn k junk) = k.
Proof. intros (_ & H) Hk. rewrite firstn_length. lia. Qed.

Lemma bits_at_length s n : live s -> 0 <= n -> pos s + n <= size s -> length (bits_at s n) = Z.to_nat n.
Proof.
  intros L Hn H. pose proof L as (L1 & L2 & _).
  rewrite bits_at_bitsf by lia. apply bitsf_length.
Qed.

(** the bytes under the cursor *)
Lemma bits_at_bytes s k n : live s -> n = 8 * Z.of_nat k -> pos s + n <= size s ->
  exists l, unpack_bytes k (bits_at s n) = l /\ length l = k /\ bytes_ok l /\
            bits_value (bits_at s n) = be_value l.
Proof.
  intros L -> H.
  destruct (unpack_bytes_props k (bits_at s (8 * Z.of_nat k))) as (P1 & P2 & P3).
  { rewrite bits_at_length by (auto; lia). lia. }
  eexists; split; [reflexivity|]. split; [exact P1|]. split; [exact P2|].
  rewrite <- P3 at 1. unfold bits_value, be_value. now apply bits_value_acc_bytes.
Qed.

Ltac nthz_concrete :=
  repeat match goal with
  | |- context [nthz (?x :: ?l) ?i] =>
      let v := eval cbv in (Z.to_nat i) in change (nthz (x :: l) i) with (nth v (x :: l) 0)
  end; cbn [nth].

Ltac lor_add_step k :=
  let p := eval compute in (2 ^ k) in
  match goal with
  | |- context [Z.lor ?hi ?lo] => rewrite (lor_add k hi lo) by (change (2 ^ k) with p; lia)
  end.

Lemma read_uint8_reader :
  reader_ok read_uint8 8 (fun s => bits_value (bits_at s 8)) (fun _ => True).
Proof.
  unfold read_uint8.
  eapply reader_ok_val.
  - eapply (reader_ok_bind (fun s => read_bytes s [0] 1) (8 * 1) _ _
             (fun s1 d => let+ a := rd d 0 in COk (s1, a)) (fun d => nthz d 0) (fun _ => True)).
    + apply read_bytes_reader; unfold len; cbn [length]; lia.
    + intros s1 d Hd. cbn [length] in Hd. rewrite rd_ok by (unfold len; lia). reflexivity.
    + auto.
  - intros s L H. cbv beta.
    change (Z.to_nat 1) with 1%nat. change (8 * 1) with 8.
    destruct (bits_at_bytes s 1 8 L) as (l & -> & Ll & Bl & ->); [reflexivity|lia|].
    destruct l as [|a [|? ?]]; try discriminate.
    unfold be_value; cbn [be_value_acc app]. rewrite nthz_cons_0. lia.
Qed.

Lemma read_uint16_reader junk : junk_ok junk ->
  reader_ok (fun s => read_uint16 s junk) 16 (fun s => bits_value (bits_at s 16)) (fun _ => True).
Proof.
  intros J. unfold read_uint16.
  eapply reader_ok_val.
  - eapply (reader_ok_bind (fun s => read_bytes s (firstn 2 junk) 2) (8 * 2) _ _
             (fun s1 d => let+ a := rd d 0 in let+ b := rd d 1 in
                          COk (s1, u16 (Z.lor (u16 (Z.shiftl a 8)) b)))
             (fun d => u16 (Z.lor (u16 (Z.shiftl (nthz d 0) 8)) (nthz d 1))) (fun _ => True)).
    + apply read_bytes_reader; unfold len; rewrite ?junk_firstn by (auto; lia); lia.
    + intros s1 d Hd. rewrite junk_firstn in Hd by (auto; lia).
      rewrite !rd_ok by (unfold len; lia). reflexivity.
    + auto.
  - intros s L H. cbv beta.
    change (Z.to_nat 2) with 2%nat. change (8 * 2) with 16.
    destruct (bits_at_bytes s 2 16 L) as (l & -> & Ll & Bl & ->); [reflexivity|lia|].
    destruct l as [|a [|b [|? ?]]]; try discriminate.
    inversion Bl as [|? ? Ha Bl1]; subst. inversion Bl1 as [|? ? Hb Bl2]; subst.
    unfold is_byte in *.
    unfold be_value; cbn [be_value_acc app].
    nthz_concrete.
    rewrite Z.shiftl_mul_pow2 by lia. change (2 ^ 8) with 256.
    unfold u16. rewrite (Z.mod_small (a * 256)) by lia.
    lor_add_step 8. rewrite Z.mod_small by lia. lia.
Qed.

Lemma read_uint32_reader junk : junk_ok junk ->
  reader_ok (fun s => read_uint32 s junk) 32 (fun s => bits_value (bits_at s 32)) (fun _ => True).
Proof.
  intros J. unfold read_uint32.
  eapply reader_ok_val.
  - eapply (reader_ok_bind (fun s => read_bytes s (firstn 4 junk) 4) (8 * 4) _ _
             (fun s1 d => let+ a := rd d 0 in let+ b := rd d 1 in let+ c := rd d 2 in let+ e := rd d 3 in
                COk (s1, Z.lor (Z.lor (Z.lor (u32 (Z.shiftl a 24)) (u32 (Z.shiftl b 16)))
                                      (u32 (Z.shiftl c 8))) e))
             (fun d => Z.lor (Z.lor (Z.lor (u32 (Z.shiftl (nthz d 0) 24)) (u32 (Z.shiftl (nthz d 1) 16)))
                                      (u32 (Z.shiftl (nthz d 2) 8))) (nthz d 3)) (fun _ => True)).
    + apply read_bytes_reader; unfold len; rewrite ?junk_firstn by (auto; lia); lia.
    + intros s1 d Hd. rewrite junk_firstn in Hd by (auto; lia).
      rewrite !rd_ok by (unfold len; lia). reflexivity.
    + auto.
  - intros s L H. cbv beta.
    change (Z.to_nat 4) with 4%nat. change (8 * 4) with 32.
    destruct (bits_at_bytes s 4 32 L) as (l & -> & Ll & Bl & ->); [reflexivity|lia|].
    destruct l as [|a [|b [|c [|e [|? ?]]]]]; try discriminate.
    inversion Bl as [|? ? Ha Bl1]; subst. inversion Bl1 as [|? ? Hb Bl2]; subst.
    inversion Bl2 as [|? ? Hc Bl3]; subst. inversion Bl3 as [|? ? He Bl4]; subst.
    unfold is_byte in *.
    unfold be_value; cbn [be_value_acc app].
    nthz_concrete.
    rewrite !Z.shiftl_mul_pow2 by lia.
    change (2 ^ 24) with 16777216. change (2 ^ 16) with 65536. change (2 ^ 8) with 256.
    unfold u32. rewrite !Z.mod_small by lia.
    lor_add_step 24. lor_add_step 16. lor_add_step 8. lia.
Qed.

Lemma read_uint64_reader junk : junk_ok junk ->
  reader_ok (fun s => read_uint64 s junk) 64 (fun s => bits_value (bits_at s 64)) (fun _ => True).
Proof.
  intros J. unfold read_uint64.
  eapply reader_ok_val.
  - eapply (reader_ok_bind (fun s => read_bytes s (firstn 8 junk) 8) (8 * 8) _ _
             (fun s1 d =>
                let+ b0 := rd d 0 in let+ b1 := rd d 1 in let+ b2 := rd d 2 in let+ b3 := rd d 3 in
                let+ b4 := rd d 4 in let+ b5 := rd d 5 in let+ b6 := rd d 6 in let+ b7 := rd d 7 in
                COk (s1, Z.lor (Z.lor (Z.lor (Z.lor (Z.lor (Z.lor (Z.lor
                  (u64 (Z.shiftl b0 56)) (u64 (Z.shiftl b1 48))) (u64 (Z.shiftl b2 40)))
                  (u64 (Z.shiftl b3 32))) (u64 (Z.shiftl b4 24))) (u64 (Z.shiftl b5 16)))
                  (u64 (Z.shiftl b6 8))) b7))
             (fun d => Z.lor (Z.lor (Z.lor (Z.lor (Z.lor (Z.lor (Z.lor
                  (u64 (Z.shiftl (nthz d 0) 56)) (u64 (Z.shiftl (nthz d 1) 48))) (u64 (Z.shiftl (nthz d 2) 40)))
                  (u64 (Z.shiftl (nthz d 3) 32))) (u64 (Z.shiftl (nthz d 4) 24))) (u64 (Z.shiftl (nthz d 5) 16)))
                  (u64 (Z.shiftl (nthz d 6) 8))) (nthz d 7)) (fun _ => True)).
    + apply read_bytes_reader; unfold len; rewrite ?junk_firstn by (auto; lia); lia.
    + intros s1 d Hd. rewrite junk_firstn in Hd by (auto; lia).
      rewrite !rd_ok by (unfold len; lia). reflexivity.
    + auto.
  - intros s L H. cbv beta.
    change (Z.to_nat 8) with 8%nat. change (8 * 8) with 64.
    destruct (bits_at_bytes s 8 64 L) as (l & -> & Ll & Bl & ->); [reflexivity|lia|].
    destruct l as [|b0 [|b1 [|b2 [|b3 [|b4 [|b5 [|b6 [|b7 [|? ?]]]]]]]]]; try discriminate.
    inversion Bl as [|? ? H0 Bl0]; subst. inversion Bl0 as [|? ? H1 Bl1]; subst.
    inversion Bl1 as [|? ? H2 Bl2]; subst. inversion Bl2 as [|? ? H3 Bl3]; subst.
    inversion Bl3 as [|? ? H4 Bl4]; subst. inversion Bl4 as [|? ? H5 Bl5]; subst.
    inversion Bl5 as [|? ? H6 Bl6]; subst. inversion Bl6 as [|? ? H7 Bl7]; subst.
    unfold is_byte in *.
    unfold be_value; cbn [be_value_acc app].
    nthz_concrete.
    rewrite !Z.shiftl_mul_pow2 by lia.
    change (2 ^ 56) with 72057594037927936. change (2 ^ 48) with 281474976710656.
    change (2 ^ 40) with 1099511627776. change (2 ^ 32) with 4294967296.
    change (2 ^ 24) with 16777216. change (2 ^ 16) with 65536. change (2 ^ 8) with 256.
    unfold u64. rewrite !Z.mod_small by lia.
    lor_add_step 56. lor_add_step 48. lor_add_step 40. lor_add_step 32.
    lor_add_step 24. lor_add_step 16. lor_add_step 8. lia.
Qed.

Lemma bits_value_at_bound s n : live s -> 0 <= n -> pos s + n <= size s ->
  0 <= bits_value (bits_at s n) < 2 ^ n.
Proof.
  intros L Hn H. pose proof (bits_value_bound (bits_at s n)) as B.
  unfold len in B. rewrite bits_at_length in B by auto. now rewrite Z2Nat.id in B by lia.
Qed.

Lemma read_int8_reader :
  reader_ok read_int8 8 (fun s => bits_value (bits_at s 8) - 128) (fun _ => True).
Proof.
  unfold read_int8. eapply reader_ok_val.
  - eapply (reader_ok_bind read_uint8 8 _ _ (fun s1 u => COk (s1, s8 (s8 u - 128)))
              (fun u => s8 (s8 u - 128)) (fun _ => True)); [apply read_uint8_reader|reflexivity|auto].
  - intros s L H. cbv beta. pose proof (bits_value_at_bound s 8 L ltac:(lia) H) as B.
    change (2 ^ 8) with 256 in B. unfold s8. lia.
Qed.

Lemma read_int16_reader junk : junk_ok junk ->
  reader_ok (fun s => read_int16 s junk) 16 (fun s => bits_value (bits_at s 16) - 32768) (fun _ => True).
Proof.
  intros J. unfold read_int16. eapply reader_ok_val.
  - eapply (reader_ok_bind (fun s => read_uint16 s junk) 16 _ _ (fun s1 u => COk (s1, s16 (s16 u - 32768)))
              (fun u => s16 (s16 u - 32768)) (fun _ => True)); [now apply read_uint16_reader|reflexivity|auto].
  - intros s L H. cbv beta. pose proof (bits_value_at_bound s 16 L ltac:(lia) H) as B.
    change (2 ^ 16) with 65536 in B. unfold s16. lia.
Qed.

Lemma read_int32_reader junk : junk_ok junk ->
  reader_ok (fun s => read_int32 s junk) 32 (fun s => bits_value (bits_at s 32) - 2147483648) (fun _ => True).
Proof.
  intros J. unfold read_int32. eapply reader_ok_val.
  - eapply (reader_ok_bind (fun s => read_uint32 s junk) 32 _ _
              (fun s1 u => COk (s1, s32 (s32 u - 2147483648)))
              (fun u => s32 (s32 u - 2147483648)) (fun _ => True)); [now apply read_uint32_reader|reflexivity|auto].
  - intros s L H. cbv beta. pose proof (bits_value_at_bound s 32 L ltac:(lia) H) as B.
    change (2 ^ 32) with 4294967296 in B. unfold s32. lia.
Qed.

Lemma read_int64_reader junk : junk_ok junk ->
  reader_ok (fun s => read_int64 s junk) 64
    (fun s => bits_value (bits_at s 64) - 9223372036854775808) (fun _ => True).
Proof.
  intros J. unfold read_int64. eapply reader_ok_val.
  - eapply (reader_ok_bind (fun s => read_uint64 s junk) 64 _ _
              (fun s1 u => COk (s1, s64 (u64 (u - 9223372036854775808))))
              (fun u => s64 (u64 (u - 9223372036854775808))) (fun _ => True));
      [now apply read_uint64_reader|reflexivity|auto].
  - intros s L H. cbv beta. pose proof (bits_value_at_bound s 64 L ltac:(lia) H) as B.
    change (2 ^ 64) with 18446744073709551616 in B. unfold s64, u64. lia.
Qed.

(** ** every decoder call *)

Definition dop_not_abort (o : dop) : Prop := match o with DAbort _ => False | _ => True end.
Definition dop_res_ok (o : dop) (v : list Z) : Prop :=
  match o with DBytes cap _ => len v = cap | _ => True end.

Lemma skipn_repeat {A} (x : A) n m : skipn n (repeat x m) = repeat x (m - n).
Proof.
  revert m; induction n; intros m; [now rewrite Nat.sub_0_r|].
  destruct m; cbn [repeat skipn Nat.sub]; auto.
Qed.

Lemma reader_ok_wrap {A} (R : cur -> cres (cur * A)) bits val (f : A -> list Z) (Q' : list Z -> Prop) :
  reader_ok R bits val (fun _ => True) -> (forall a, Q' (f a)) ->
  reader_ok (fun s => let+ (s', v) := R s in COk (s', f v)) bits (fun s => f (val s)) Q'.
Proof.
  intros H HQ.
  apply (reader_ok_bind R bits val (fun _ => True) (fun s' v => COk (s', f v)) f Q'); auto.
Qed.

Lemma dop_reader junk o : junk_ok junk -> dop_ok o -> dop_not_abort o ->
  reader_ok (fun s => run_dop junk s o) (dop_bits o) (fun s => dop_spec s o) (dop_res_ok o).
Proof.
  intros J Ok NA.
  destruct o; cbn [dop_bits dop_ok dop_not_abort] in *; try contradiction;
    unfold run_dop, dop_spec, dop_res_ok.
  - (* DBit *)
    eapply reader_ok_val; [eapply (reader_ok_wrap read_bit 1 _ (fun v => [v])); [apply read_bit_reader|auto]|].
    intros s L H. cbv beta. pose proof L as (L1 & L2 & _).
    rewrite bits_at_bitsf by lia. change (Z.to_nat 1) with 1%nat. cbn [bitsf].
    unfold bits_value; cbn [bits_value_acc]. now destruct (getbit (buf s) (pos s)).
  - (* DBool *)
    unfold read_bool.
    eapply reader_ok_val.
    + eapply (reader_ok_wrap (fun s => let+ (s1, b) := read_bit s in COk (s1, negb (b =? 0))) 1 _
               (fun v : bool => [if v then 1 else 0])); [|auto].
      eapply (reader_ok_bind read_bit 1 _ _ (fun s1 b => COk (s1, negb (b =? 0)))
               (fun b => negb (b =? 0)) (fun _ => True)); [apply read_bit_reader|reflexivity|auto].
    + intros s L H. cbv beta. pose proof L as (L1 & L2 & _).
      rewrite bits_at_bitsf by lia. change (Z.to_nat 1) with 1%nat. cbn [bitsf].
      unfold bits_value; cbn [bits_value_acc]. now destruct (getbit (buf s) (pos s)).
  - (* DBytes *)
    destruct Ok as (H1 & H2).
    assert (LZ : length (zeros cap) = Z.to_nat cap) by (unfold zeros; apply repeat_length).
    eapply reader_ok_val.
    + pose proof (read_bytes_reader (zeros cap) n) as R.
      destruct R as (R1 & R2 & R3); [unfold len; lia|lia|].
      split; [|split].
      * intros s L. destruct (R1 s L) as (a & E & Q). exists a. split; [exact E|].
        unfold len. rewrite Q, LZ. lia.
      * intros s L H. destruct (R2 s L H) as (a & E & Q). exists a. split; [exact E|].
        unfold len. rewrite Q, LZ. lia.
      * intros s L H. destruct (R3 s L H) as (E & Q). split; [exact E|].
        unfold len. rewrite Q, LZ. lia.
    + intros s L H. cbv beta. f_equal. unfold zeros. rewrite skipn_repeat. f_equal. lia.
  - (* DNnbi *)
    eapply (reader_ok_wrap (fun s => read_nnbi s n) n _ (fun v => [v])); [now apply read_nnbi_reader|auto].
  - eapply (reader_ok_wrap read_uint8 8 _ (fun v => [v])); [apply read_uint8_reader|auto].
  - eapply (reader_ok_wrap (fun s => read_uint16 s junk) 16 _ (fun v => [v])); [now apply read_uint16_reader|auto].
  - eapply (reader_ok_wrap (fun s => read_uint32 s junk) 32 _ (fun v => [v])); [now apply read_uint32_reader|auto].
  - eapply (reader_ok_wrap (fun s => read_uint64 s junk) 64 _ (fun v => [v])); [now apply read_uint64_reader|auto].
  - eapply (reader_ok_wrap read_int8 8 _ (fun v => [v])); [apply read_int8_reader|auto].
  - eapply (reader_ok_wrap (fun s => read_int16 s junk) 16 _ (fun v => [v])); [now apply read_int16_reader|auto].
  - eapply (reader_ok_wrap (fun s => read_int32 s junk) 32 _ (fun v => [v])); [now apply read_int32_reader|auto].
  - eapply (reader_ok_wrap (fun s => read_int64 s junk) 64 _ (fun v => [v])); [now apply read_int64_reader|auto].
Qed.

(* ------------------------------------------------------------------ *)
(** * Group 2: in bounds, latch (decoder) *)

Lemma dop_abort_or o : (exists e, o = DAbort e) \/ dop_not_abort o.
Proof. destruct o; cbn; eauto. Qed.

Theorem dop_in_bounds : forall junk s o, junk_ok junk -> wf s -> dop_ok o ->
  exists s' v, run_dop junk s o = COk (s', v) /\ wf s' /\ buf s' = buf s /\ (latched s -> s' = s) /\
               match o with DBytes cap _ => len v = cap | _ => True end.
Proof.
  intros junk s o J W Ok.
  destruct (dop_abort_or o) as [(e & ->)|NA].
  - cbn [run_dop dop_ok] in *. exists (abort s e), []. split; [reflexivity|].
    destruct W as [L|L].
    + split; [right; now apply abort_live_latched|]. rewrite abort_live by auto.
      split; [reflexivity|]. split; [|exact I].
      destruct L as (_ & L2 & _). intros [H1 H2]. lia.
    + rewrite abort_latched by auto. split; [now right|]. split; [reflexivity|]. split; auto.
  - destruct (dop_reader junk o J Ok NA) as (R1 & R2 & R3).
    destruct W as [L|L].
    + assert (NL : latched s -> False) by (destruct L as (_ & L2 & _); intros [H1 H2]; lia).
      destruct (Z.le_gt_cases (pos s + dop_bits o) (size s)) as [R|R].
      * destruct (R3 s L R) as (E & Q). eexists _, _. split; [exact E|].
        split; [left; apply live_adv; auto|].
        { destruct o; cbn [dop_bits dop_ok] in *; lia. }
        split; [reflexivity|]. split; [intros H; destruct (NL H)|exact Q].
      * destruct (R2 s L R) as (a & E & Q). eexists _, _. split; [exact E|].
        split; [right; apply abort_live_latched; auto; unfold EOUTOFDATA; lia|].
        rewrite abort_live by auto. split; [reflexivity|]. split; [intros H; destruct (NL H)|exact Q].
    + destruct (R1 s L) as (a & E & Q). exists s, a. split; [exact E|]. split; [now right|].
      split; [reflexivity|]. split; auto.
Qed.

Theorem helpers_in_bounds_dec : forall os junk s, junk_ok junk -> wf s -> Forall dop_ok os ->
  exists s' vs, run_dops junk s os = COk (s', vs) /\ wf s' /\ buf s' = buf s /\ (latched s -> s' = s) /\
    Forall2 (fun o v => match o with DBytes cap _ => len v = cap | _ => True end) os vs.
Proof.
  induction os as [|o os IH]; intros junk s J W F.
  - exists s, []. cbn [run_dops]. repeat split; auto.
  - inversion F as [|? ? Ho Hos]; subst. cbn [run_dops].
    destruct (dop_in_bounds junk s o J W Ho) as (s1 & v & -> & W1 & B1 & K1 & Q1). cbn [cbind].
    destruct (IH junk s1 J W1 Hos) as (s2 & vs & -> & W2 & B2 & K2 & Q2). cbn [cbind].
    exists s2, (v :: vs). split; [reflexivity|]. split; [exact W2|]. split; [congruence|].
    split; [|constructor; auto].
    intros H. specialize (K1 H). subst s1. now apply K2.
Qed.

Theorem dec_overflow_latches : forall junk s o, junk_ok junk -> live s -> dop_ok o ->
  (match o with DAbort _ => False | _ => True end) -> size s < pos s + dop_bits o ->
  exists s' v, run_dop junk s o = COk (s', v) /\ latched s' /\ get_result s' = - EOUTOFDATA.
Proof.
  intros junk s o J L Ok NA R.
  destruct (dop_reader junk o J Ok NA) as (_ & R2 & _).
  destruct (R2 s L R) as (a & E & _). eexists _, _. split; [exact E|].
  assert (LA : latched (abort s EOUTOFDATA)) by (apply abort_live_latched; auto; unfold EOUTOFDATA; lia).
  split; [exact LA|]. rewrite get_result_latched by exact LA. now rewrite abort_live.
Qed.

Lemma run_dops_app junk s os1 os2 :
  run_dops junk s (os1 ++ os2) =
  let+ (s1, vs1) := run_dops junk s os1 in
  let+ (s2, vs2) := run_dops junk s1 os2 in COk (s2, vs1 ++ vs2).
Proof.
  revert s; induction os1 as [|o os1 IH]; intros s.
  - cbn [app run_dops cbind]. destruct (run_dops junk s os2) as [[s2 vs2]| |]; reflexivity.
  - cbn [app run_dops]. destruct (run_dop junk s o) as [[s1 v]| |]; cbn [cbind]; auto.
    rewrite IH. destruct (run_dops junk s1 os1) as [[s2 vs]| |]; cbn [cbind]; auto.
    destruct (run_dops junk s2 os2) as [[s3 vs3]| |]; reflexivity.
Qed.

Lemma Forall2_len {A B} (P : A -> B -> Prop) l1 l2 : Forall2 P l1 l2 -> length l1 = length l2.
Proof. induction 1; cbn [length]; auto. Qed.

Theorem dec_latch_sticky : forall junk os1 os2 s s1 vs1, junk_ok junk -> wf s ->
  Forall dop_ok (os1 ++ os2) -> run_dops junk s os1 = COk (s1, vs1) -> latched s1 ->
  exists vs2, run_dops junk s (os1 ++ os2) = COk (s1, vs1 ++ vs2) /\ length vs2 = length os2.
Proof.
  intros junk os1 os2 s s1 vs1 J W F E L. rewrite run_dops_app, E. cbn [cbind].
  apply Forall_app in F. destruct F as [_ F2].
  destruct (helpers_in_bounds_dec os2 junk s1 J (or_intror L) F2) as (s2 & vs2 & E2 & _ & _ & K & Q).
  rewrite E2. cbn [cbind]. exists vs2. rewrite (K L). split; [reflexivity|].
  symmetry. eapply Forall2_len; eauto.
Qed.

(* ------------------------------------------------------------------ *)
(** * Group 3 (decoder): functional correctness *)

Theorem dop_matches_spec : forall junk s o, junk_ok junk -> live s -> dop_ok o ->
  (match o with DAbort _ => False | _ => True end) -> pos s + dop_bits o <= size s ->
  run_dop junk s o = COk (mkCur (buf s) (size s) (pos s + dop_bits o), dop_spec s o).
Proof.
  intros junk s o J L Ok NA R.
  destruct (dop_reader junk o J Ok NA) as (_ & _ & R3). now destruct (R3 s L R).
Qed.
(* ------------------------------------------------------------------ *)
(** * pack *)

Lemma pack_fuel_nil f : pack_fuel f [] = [].
Proof. now destruct f. Qed.

Lemma pack_fuel_S f bs : bs <> [] ->
  pack_fuel (S f) bs = bits_value (firstn 8 (bs ++ repeat false 7)) :: pack_fuel f (skipn 8 bs).
Proof. intros H. destruct bs; [congruence|reflexivity]. Qed.

Lemma pack_fuel_enough : forall f1 f2 bs, (length bs <= f1)%nat -> (length bs <= f2)%nat ->
  pack_fuel f1 bs = pack_fuel f2 bs.
Proof.
  induction f1 as [|f1 IH]; intros f2 bs H1 H2.
  - destruct bs; [|cbn [length] in H1; lia]. now rewrite !pack_fuel_nil.
  - destruct bs as [|b bs]; [now rewrite !pack_fuel_nil|].
    destruct f2 as [|f2]; [cbn [length] in H2; lia|].
    rewrite !pack_fuel_S by congruence. f_equal.
    apply IH; rewrite skipn_length; cbn [length] in *; lia.
Qed.

Lemma firstn_pad (bs : list bool) (p : nat) : length bs = 8%nat -> (1 <= p <= 8)%nat ->
  (forall i, (p <= i < 8)%nat -> nth i bs false = false) ->
  firstn 8 (firstn p bs ++ repeat false 7) = bs.
Proof.
  intros HL Hp H.
  destruct bs as [|b0 [|b1 [|b2 [|b3 [|b4 [|b5 [|b6 [|b7 [|? ?]]]]]]]]]; try discriminate.
  pose proof (H 0%nat) as H0. pose proof (H 1%nat) as H1. pose proof (H 2%nat) as H2.
  pose proof (H 3%nat) as H3. pose proof (H 4%nat) as H4. pose proof (H 5%nat) as H5.
  pose proof (H 6%nat) as H6. pose proof (H 7%nat) as H7. clear H HL.
  cbn [nth] in H0, H1, H2, H3, H4, H5, H6, H7.
  assert (K : forall q, (q < 8)%nat -> (p = S q) ->
             firstn 8 (firstn (S q) [b0; b1; b2; b3; b4; b5; b6; b7] ++ repeat false 7) =
             [b0; b1; b2; b3; b4; b5; b6; b7]).
  { intros q Hq ->. clear Hp.
    do 8 (destruct q as [|q]; [cbn [firstn app repeat];
      try rewrite (H1 ltac:(split; unfold lt; repeat constructor));
      try rewrite (H2 ltac:(split; unfold lt; repeat constructor));
      try rewrite (H3 ltac:(split; unfold lt; repeat constructor));
      try rewrite (H4 ltac:(split; unfold lt; repeat constructor));
      try rewrite (H5 ltac:(split; unfold lt; repeat constructor));
      try rewrite (H6 ltac:(split; unfold lt; repeat constructor));
      try rewrite (H7 ltac:(split; unfold lt; repeat constructor)); reflexivity|]).
    lia. }
  destruct p as [|q]; [lia|]. apply (K q); [lia|reflexivity].
Qed.

Lemma nth_byte_bits x i : (i < 8)%nat -> nth i (byte_bits x) false = Z.testbit x (7 - Z.of_nat i).
Proof.
  intros H. rewrite byte_bits_bitsf, nth_bitsf by lia. f_equal.
Qed.

Lemma pack_prefix : forall b p, bytes_ok b -> 0 <= p <= 8 * len b ->
  (forall i, p <= i < 8 * ((p + 7) / 8) -> getbit b i = false) ->
  firstn (Z.to_nat ((p + 7) / 8)) b = pack (firstn (Z.to_nat p) (bytes_bits b)).
Proof.
  induction b as [|x r IH]; intros p B Hp C.
  - change (len []) with 0 in Hp. replace p with 0 by lia. reflexivity.
  - inversion B as [|? ? Hx Br]; subst.
    assert (Lr : len (x :: r) = len r + 1) by (unfold len; cbn [length]; lia).
    assert (L8 : length (byte_bits x) = 8%nat) by reflexivity.
    destruct (Z.eq_dec p 0) as [->|P0]; [reflexivity|].
    destruct (Z.ltb_spec p 8) as [P8|P8].
    + replace (Z.to_nat ((p + 7) / 8)) with 1%nat by lia. cbn [firstn].
      rewrite bytes_bits_cons, firstn_app_le by lia.
      unfold pack. rewrite firstn_length, L8.
      replace (Nat.min (Z.to_nat p) 8) with (S (Z.to_nat p - 1)) by lia.
      rewrite pack_fuel_S.
      2:{ intros E. apply (f_equal (@length bool)) in E. rewrite firstn_length, L8 in E.
          cbn [length] in E. lia. }
      rewrite skipn_all2 by (rewrite firstn_length; lia). rewrite pack_fuel_nil.
      f_equal. rewrite firstn_pad; auto; try lia.
      * unfold byte_bits. symmetry. apply bits_value_be_bits. exact Hx.
      * intros i Hi. rewrite nth_byte_bits by lia.
        rewrite <- (getbit_cons_lo x r) by lia. apply C. lia.
    + replace (Z.to_nat ((p + 7) / 8)) with (S (Z.to_nat ((p - 8 + 7) / 8))) by lia.
      cbn [firstn].
      rewrite bytes_bits_cons, firstn_app_ge by lia. rewrite L8.
      replace (Z.to_nat p - 8)%nat with (Z.to_nat (p - 8)) by lia.
      unfold pack at 1. rewrite app_length, L8. cbn [Nat.add].
      rewrite pack_fuel_S by (unfold byte_bits; cbn [be_bits app]; congruence).
      rewrite <- app_assoc, firstn_app_le by lia. rewrite (@firstn_all2 _ 8 (byte_bits x)) by lia.
      rewrite skipn_app, skipn_all2, L8 by lia. cbn [Nat.sub skipn app].
      f_equal.
      * unfold byte_bits. symmetry. apply bits_value_be_bits. exact Hx.
      * rewrite IH; auto; try lia.
        -- unfold pack. apply pack_fuel_enough; lia.
        -- intros i Hi. rewrite <- (getbit_cons_hi x r) by lia. apply C. lia.
Qed.

Lemma pack_written s : live s -> clean s ->
  firstn (Z.to_nat (get_result s)) (buf s) = pack (written s).
Proof.
  intros (L1 & L2 & L3 & L4) C. unfold get_result.
  destruct (size s >=? 0) eqn:E; [|lia].
  rewrite Z.quot_div_nonneg by lia. unfold written. apply pack_prefix; auto. lia.
Qed.

(* ------------------------------------------------------------------ *)
(** * Group 3 (encoder): functional correctness *)

Lemma eop_spec_len o : eop_ok o -> len (eop_spec o) = eop_bits o.
Proof.
  intros Ok. unfold len.
  destruct o; cbn [eop_spec eop_bits eop_ok] in *; rewrite ?be_bits_length; try reflexivity.
  - destruct Ok as (H1 & H2 & H3). rewrite bytes_bits_length, firstn_length. unfold len in *. lia.
  - lia.
Qed.

Lemma eop_bits_nonneg o : eop_ok o -> 0 <= eop_bits o.
Proof. intros Ok. destruct o; cbn [eop_bits eop_ok] in *; lia. Qed.

Theorem eop_matches_spec : forall s o, live s -> clean s -> eop_ok o -> eop_is_abort o = false ->
  pos s + eop_bits o <= size s ->
  exists s', run_eop s o = COk s' /\ live s' /\ clean s' /\ size s' = size s /\
             pos s' = pos s + eop_bits o /\ written s' = written s ++ eop_spec o.
Proof.
  intros s o L C Ok NA R.
  destruct (eop_room s o L Ok NA R) as (s' & E & P1 & P2 & P3 & P4 & P5).
  destruct (P5 C) as (C' & W). rewrite eop_spec_len in P4 by auto.
  exists s'. split; [exact E|]. split; [exact P1|]. split; [exact C'|]. split; [exact P2|].
  split; [exact P4|exact W].
Qed.

Theorem helpers_match_uper : forall os s, live s -> clean s -> Forall eop_ok os -> no_abort os ->
  pos s + total_bits os <= size s ->
  exists s', run_eops s os = COk s' /\ live s' /\ clean s' /\ pos s' = pos s + total_bits os /\
             written s' = written s ++ flat_map eop_spec os /\
             firstn (Z.to_nat (get_result s')) (buf s') = pack (written s').
Proof.
  assert (TB : forall os, Forall eop_ok os -> 0 <= total_bits os).
  { induction 1 as [|o os Ho Hos IH]; cbn [total_bits fold_right]; [lia|].
    pose proof (eop_bits_nonneg o Ho). fold (total_bits os). lia. }
  assert (M : forall os s, live s -> clean s -> Forall eop_ok os -> no_abort os ->
    pos s + total_bits os <= size s ->
    exists s', run_eops s os = COk s' /\ live s' /\ clean s' /\ pos s' = pos s + total_bits os /\
               written s' = written s ++ flat_map eop_spec os).
  { induction os as [|o os IH]; intros s L C F NA R.
    - exists s. cbn [run_eops total_bits fold_right flat_map]. rewrite app_nil_r.
      split; [reflexivity|]. split; [exact L|]. split; [exact C|]. split; [lia|reflexivity].
    - inversion F as [|? ? Ho Hos]; subst. inversion NA as [|? ? No Nos]; subst.
      cbn [total_bits fold_right] in *. fold (total_bits os) in *.
      pose proof (TB os Hos).
      destruct (eop_matches_spec s o L C Ho No ltac:(lia)) as (s1 & E1 & L1 & C1 & S1 & P1 & W1).
      destruct (IH s1 L1 C1 Hos Nos ltac:(lia)) as (s2 & E2 & L2 & C2 & P2 & W2).
      exists s2. cbn [run_eops]. rewrite E1. cbn [cbind]. split; [exact E2|].
      split; [exact L2|]. split; [exact C2|]. split; [lia|].
      rewrite W2, W1. cbn [flat_map]. now rewrite app_assoc. }
  intros os s L C F NA R.
  destruct (M os s L C F NA R) as (s' & E & L' & C' & P' & W').
  exists s'. split; [exact E|]. split; [exact L'|]. split; [exact C'|]. split; [exact P'|].
  split; [exact W'|]. now apply pack_written.
Qed.

(* ------------------------------------------------------------------ *)
(** * Group 4: round trips *)

Lemma written_length s : live s -> length (written s) = Z.to_nat (pos s).
Proof.
  intros (L1 & L2 & _). rewrite written_bitsf by lia. apply bitsf_length.
Qed.

(** After an encoder call, the bits under the old cursor are the appended ones. *)
Lemma roundtrip_bits s o s' : live s -> clean s -> eop_ok o -> eop_is_abort o = false ->
  pos s + eop_bits o <= size s -> run_eop s o = COk s' ->
  live (mkCur (buf s') (size s) (pos s)) /\
  bits_at (mkCur (buf s') (size s) (pos s)) (eop_bits o) = eop_spec o.
Proof.
  intros L C Ok NA R E.
  destruct (eop_matches_spec s o L C Ok NA R) as (s1 & E1 & L1 & C1 & S1 & P1 & W1).
  rewrite E in E1. inversion E1; subst s1. clear E1.
  pose proof (eop_bits_nonneg o Ok) as NB.
  pose proof L as (A1 & A2 & A3 & A4). pose proof L1 as (B1 & B2 & B3 & B4).
  split.
  - unfold live. cbn [buf size pos]. repeat split; auto; lia.
  - unfold bits_at. cbn [buf pos].
    rewrite firstn_skipn_comm.
    replace (Z.to_nat (pos s) + Z.to_nat (eop_bits o))%nat with (Z.to_nat (pos s')) by lia.
    fold (written s'). rewrite W1.
    rewrite <- (written_length s L). rewrite skipn_app, skipn_all, Nat.sub_diag. reflexivity.
Qed.

Theorem append_read_roundtrip : forall s v n s', live s -> clean s -> 0 <= n <= 64 -> 0 <= v < 2 ^ n ->
  pos s + n <= size s -> append_nnbi s v n = COk s' ->
  read_nnbi (mkCur (buf s') (size s) (pos s)) n = COk (mkCur (buf s') (size s) (pos s + n), v).
Proof.
  intros s v n s' L C Hn Hv R E.
  destruct (roundtrip_bits s (ENnbi v n) s' L C Hn eq_refl R E) as (Lt & Bt).
  cbn [eop_bits eop_spec] in Bt.
  destruct (read_nnbi_reader n Hn) as (_ & _ & R3).
  destruct (R3 _ Lt R) as (-> & _). cbn [buf size pos]. do 2 f_equal.
  rewrite Bt. apply bits_value_be_bits. now rewrite Z2Nat.id by lia.
Qed.

Lemma bytes_ok_firstn n l : bytes_ok l -> bytes_ok (firstn n l).
Proof.
  unfold bytes_ok. intros H. revert n. induction H; intros [|n]; cbn [firstn]; constructor; auto.
Qed.

Theorem append_read_bytes_roundtrip : forall s src n s', live s -> clean s -> 0 <= n <= len src ->
  bytes_ok src -> pos s + 8 * n <= size s -> append_bytes s src n = COk s' ->
  read_bytes (mkCur (buf s') (size s) (pos s)) (zeros n) n =
  COk (mkCur (buf s') (size s) (pos s + 8 * n), firstn (Z.to_nat n) src).
Proof.
  intros s src n s' L C Hn Bs R E.
  pose proof (live_len s L) as HL. pose proof L as (A1 & A2 & _).
  assert (Ok : eop_ok (EBytes src n)) by (cbn [eop_ok]; repeat split; auto; lia).
  destruct (roundtrip_bits s (EBytes src n) s' L C Ok eq_refl R E) as (Lt & Bt).
  cbn [eop_bits eop_spec] in Bt.
  assert (LZ : length (zeros n) = Z.to_nat n) by (unfold zeros; apply repeat_length).
  rewrite read_bytes_post; auto; cbn [buf size pos]; [|unfold len; lia].
  do 2 f_equal. rewrite Bt.
  unfold zeros. rewrite skipn_repeat, Nat.sub_diag. cbn [repeat]. rewrite app_nil_r.
  assert (LF : length (firstn (Z.to_nat n) src) = Z.to_nat n)
    by (rewrite firstn_length; unfold len in *; lia).
  rewrite <- LF at 1. rewrite <- (app_nil_r (bytes_bits _)).
  apply unpack_bytes_bits. now apply bytes_ok_firstn.
Qed.

(** the eight fixed-width pairs *)
Inductive int_pair : eop -> dop -> Z -> Prop :=
| IP_U8 v : 0 <= v < 256 -> int_pair (EU8 v) DU8 v
| IP_U16 v : 0 <= v < 65536 -> int_pair (EU16 v) DU16 v
| IP_U32 v : 0 <= v < 4294967296 -> int_pair (EU32 v) DU32 v
| IP_U64 v : 0 <= v < 18446744073709551616 -> int_pair (EU64 v) DU64 v
| IP_I8 v : -128 <= v < 128 -> int_pair (EI8 v) DI8 v
| IP_I16 v : -32768 <= v < 32768 -> int_pair (EI16 v) DI16 v
| IP_I32 v : -2147483648 <= v < 2147483648 -> int_pair (EI32 v) DI32 v
| IP_I64 v : -9223372036854775808 <= v < 9223372036854775808 -> int_pair (EI64 v) DI64 v.

Theorem append_read_int_roundtrip : forall junk s o d v s', junk_ok junk -> live s -> clean s ->
  int_pair o d v -> pos s + eop_bits o <= size s -> run_eop s o = COk s' ->
  run_dop junk (mkCur (buf s') (size s) (pos s)) d =
  COk (mkCur (buf s') (size s) (pos s + eop_bits o), [v]).
Proof.
  intros junk s o d v s' J L C P R E.
  assert (Ok : eop_ok o) by (destruct P; exact I).
  assert (NA : eop_is_abort o = false) by (destruct P; reflexivity).
  destruct (roundtrip_bits s o s' L C Ok NA R E) as (Lt & Bt).
  assert (EB : dop_bits d = eop_bits o) by (destruct P; reflexivity).
  rewrite dop_matches_spec; auto; cbn [buf size pos]; try rewrite EB; auto.
  - do 2 f_equal.
    destruct P; cbn [dop_spec eop_bits eop_spec] in *; rewrite Bt;
      rewrite bits_value_be_bits; try reflexivity; try lia; f_equal; lia.
  - destruct P; exact I.
  - destruct P; exact I.
Qed.

(* ------------------------------------------------------------------ *)
(** * The hypotheses are satisfiable: a live, clean cursor over 4 bytes *)

Example helpers_example :
  let s := mkCur [0; 0; 0; 0] 32 0 in
  live s /\ clean s /\
  run_eops s [EBit 1; ENnbi 5 3; EU8 171; EBool false] =
    COk (mkCur [218; 176; 0; 0] 32 13).
Proof.
  cbv zeta. split; [|split].
  - unfold live, len, bytes_ok, is_byte. cbn [buf size pos length]. repeat split; try lia.
    repeat constructor; lia.
  - intros i Hi. cbn [buf pos] in *. lia.
  - vm_compute. reflexivity.
Qed.
