From Asn1V Require Import Base.Prelude CGen.Helpers CGen.OerHelpers CGen.GenLogicOer.

(** The repaired static computation is the X.696 length of the determinant and
    equals what the C helper computes at run time, for every 32-bit length. *)
Theorem gen_length_determinant_length_fixed_sound : forall n, 0 <= n < 4294967296 ->
  gen_length_determinant_length_fixed n = x696_length_determinant_octets n /\
  gen_length_determinant_length_fixed n = length_determinant_length n.
Proof.
  intros n H. unfold gen_length_determinant_length_fixed, x696_length_determinant_octets, length_determinant_length, u32.
  rewrite Z.mod_small by lia.
  destruct (n <? 128) eqn:A; [split; reflexivity|].
  destruct (n <? 256) eqn:B; [split; reflexivity|].
  destruct (n <? 65536) eqn:C; [split; reflexivity|].
  destruct (n <? 16777216) eqn:D; split; reflexivity.
Qed.

(** As it is in /repo it is wrong exactly on 1677726 .. 16777215 (typo for
    16777216): the statically computed prefix is one octet too long there. *)
Theorem gen_length_determinant_length_refuted :
  exists n, 0 <= n < 4294967296 /\ gen_length_determinant_length n <> x696_length_determinant_octets n /\
            gen_length_determinant_length n <> length_determinant_length n.
Proof.
  exists 2000000. split; [lia|]. split; vm_compute; discriminate.
Qed.

Theorem gen_length_determinant_length_wrong_region : forall n, 0 <= n < 4294967296 ->
  (gen_length_determinant_length n <> x696_length_determinant_octets n <-> 1677726 <= n < 16777216).
Proof.
  intros n H. unfold gen_length_determinant_length, x696_length_determinant_octets.
  destruct (n <? 128) eqn:A; [split; [intros X; exfalso; apply X; reflexivity|lia]|].
  destruct (n <? 256) eqn:B; [split; [intros X; exfalso; apply X; reflexivity|lia]|].
  destruct (n <? 65536) eqn:C; [split; [intros X; exfalso; apply X; reflexivity|lia]|].
  destruct (n <? 1677726) eqn:D; destruct (n <? 16777216) eqn:E; cbn; split; intros X; try lia; try (exfalso; apply X; reflexivity); try discriminate.
Qed.

(** A bitmap of k bits needs ceil(k/8) octets. *)
Theorem mask_length_spec : forall k, 0 <= k -> 8 * additions_mask_length k - 8 < k <= 8 * additions_mask_length k.
Proof.
  intros k H. unfold additions_mask_length.
  pose proof (Z.div_mod (k + 7) 8 ltac:(lia)). pose proof (Z.mod_pos_bound (k + 7) 8 ltac:(lia)). lia.
Qed.

(** The generator's length of an ENUMERATED value agrees with the run-time helper
    (helper: 0 = short form, else that many octets after the length octet). *)
Theorem gen_enumerated_value_length_agrees : forall v k, -2147483648 <= v < 2147483648 ->
  gen_enumerated_value_length v = Some k ->
  (0 <= v < 128 -> enumerated_value_length v = 0 /\ k = 1) /\
  (~ (0 <= v < 128) -> enumerated_value_length v = k).
Proof.
  intros v k H G. unfold gen_enumerated_value_length in G. unfold enumerated_value_length, s32.
  replace ((v + 2147483648) mod 4294967296 - 2147483648) with v
    by (rewrite Z.mod_small by lia; lia).
  destruct ((-128 <=? v) && (v <? 128)) eqn:A.
  - inversion G; subst k. split; intros.
    + destruct ((0 <=? v) && (v <? 128)) eqn:Z0; [auto|lia].
    + destruct ((0 <=? v) && (v <? 128)) eqn:Z0; [lia|reflexivity].
  - assert (Z0 : (0 <=? v) && (v <? 128) = false) by lia. rewrite Z0.
    destruct ((-32768 <=? v) && (v <? 32768)) eqn:B; [inversion G; subst; split; [lia|auto]|].
    destruct ((-8388608 <=? v) && (v <? 8388608)) eqn:C; [inversion G; subst; split; [lia|auto]|].
    destruct ((-2147483648 <=? v) && (v <? 2147483648)) eqn:D; [inversion G; subst; split; [lia|auto]|discriminate].
Qed.

From Asn1V Require Import CGen.GenLogic.

(** get_encoded_integer_lengths = type_length // 8: with the repaired type_length (now in /repo) this is the X.696
    size of the constrained INTEGER, so the static length of an INTEGER member is right ... *)
Theorem integer_static_length_is_x696 : forall lo hi w,
  lo <= hi -> type_length_fixed lo hi = Some w -> x696_int_octets lo hi = Some (w / 8).
Proof.
  intros lo hi w Hle H. unfold type_length_fixed in H. unfold x696_int_octets.
  destruct (lo <? -9223372036854775808) eqn:E1; [discriminate|].
  destruct (hi >? 18446744073709551615) eqn:E2; [discriminate|].
  destruct ((lo <? 0) && (hi >? 9223372036854775807)) eqn:E3; [discriminate|].
  destruct (lo <? 0) eqn:S.
  - assert (Z0 : (0 <=? lo) = false) by lia. rewrite Z0. cbv zeta beta iota in H.
    destruct (lo <? -2147483648) eqn:A1; destruct (lo <? -32768) eqn:A2; destruct (lo <? -128) eqn:A3;
      destruct (hi >? 2147483647) eqn:B1; destruct (hi >? 32767) eqn:B2; destruct (hi >? 127) eqn:B3;
      destruct (hi >? 0) eqn:B4; cbn in H; inversion H; subst w; try lia;
      repeat match goal with |- context [if ?c then _ else _] => let X := fresh in destruct c eqn:X; try lia end;
      reflexivity.
  - assert (Z0 : (0 <=? lo) = true) by lia. rewrite Z0. cbv zeta beta iota in H.
    assert (L1 : (lo <? -2147483648) = false) by lia. assert (L2 : (lo <? -32768) = false) by lia.
    assert (L3 : (lo <? -128) = false) by lia. rewrite L1, L2, L3 in H.
    destruct (hi >? 4294967295) eqn:B1; destruct (hi >? 65535) eqn:B2; destruct (hi >? 255) eqn:B3;
      destruct (hi >? 0) eqn:B4; cbn in H; inversion H; subst w; try lia;
      repeat match goal with |- context [if ?c then _ else _] => let X := fresh in destruct c eqn:X; try lia end;
      reflexivity.
Qed.

(** ... while with the type_length before the repair it was not (INTEGER (-1..200): one octet instead of two). *)
Theorem integer_static_length_unrepaired_refuted :
  exists lo hi w, lo <= hi /\ type_length lo hi = Some w /\ x696_int_octets lo hi <> Some (w / 8).
Proof. exists (-1), 200, 8. split; [lia|]. split; [reflexivity|]. vm_compute. discriminate. Qed.
