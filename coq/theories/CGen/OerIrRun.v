(** C10 — the OER helper block as parsed from /repo (IR program emitted by
    translator/ctoir.py) run against the model CGen/OerHelpers.v on call
    histories under vm_compute (harness/c10_ir.py); the proofs of the same
    agreement for all arguments are in CGen/OerHelpersIrTie.v. *)
From Asn1V Require Import Base.Prelude CGen.Ir CGen.Helpers CGen.OerHelpers CGen.IrRun.
Open Scope string_scope.
Open Scope list_scope.
Open Scope Z_scope.

Section Run.
  Variable prog : program.
  Variable fuel : nat.

  Definition ostep1 := step1 prog fuel.

  Definition oir_eop (c : val) (o : oeop) : res val :=
    let go f args := let^ (_, c', _) := ostep1 f (c :: args) in ROk c' in
    match o with
    | OBytes src n => go "encoder_append_bytes" [bytes_val src; VInt n]
    | OU8 v => go "encoder_append_uint8" [VInt v]
    | OU16 v => go "encoder_append_uint16" [VInt v]
    | OU32 v => go "encoder_append_uint32" [VInt v]
    | OU64 v => go "encoder_append_uint64" [VInt v]
    | OI8 v => go "encoder_append_int8" [VInt v]
    | OI16 v => go "encoder_append_int16" [VInt v]
    | OI32 v => go "encoder_append_int32" [VInt v]
    | OI64 v => go "encoder_append_int64" [VInt v]
    | OUint v n => go "encoder_append_uint" [VInt v; VInt n]
    | OInt v n => go "encoder_append_int" [VInt v; VInt n]
    | OLongUint v n => go "encoder_append_long_uint" [VInt v; VInt n]
    | OFloat b => go "encoder_append_float" [VInt b]
    | ODouble b => go "encoder_append_double" [VInt b]
    | OBool b => go "encoder_append_bool" [VInt (if b then 1 else 0)]
    | OLenDet n => go "encoder_append_length_determinant" [VInt n]
    | OAbort e => go "encoder_abort" [VInt e]
    end.

  Fixpoint oir_eops (c : val) (os : list oeop) : res val :=
    match os with [] => ROk c | o :: r => let^ c' := oir_eop c o in oir_eops c' r end.

  Definition oir_dop (c : val) (o : odop) : res (val * list Z) :=
    let scalar f args := let^ (r, c', _) := ostep1 f (c :: args) in
                         match r with Some z => ROk (c', [z]) | None => RFail (FStuck "no value") end in
    match o with
    | RBytes cap n =>
      let^ (_, c', rest) := ostep1 "decoder_read_bytes" [c; bytes_val (zeros cap); VInt n] in
      match rest with
      | VArr l :: _ => match val_bytes l with Some b => ROk (c', b) | None => RFail FUninit end
      | _ => RFail (FStuck "no destination")
      end
    | RU8 => scalar "decoder_read_uint8" [] | RU16 => scalar "decoder_read_uint16" []
    | RU32 => scalar "decoder_read_uint32" [] | RU64 => scalar "decoder_read_uint64" []
    | RI8 => scalar "decoder_read_int8" [] | RI16 => scalar "decoder_read_int16" []
    | RI32 => scalar "decoder_read_int32" [] | RI64 => scalar "decoder_read_int64" []
    | RUint n => scalar "decoder_read_uint" [VInt n]
    | RInt n => scalar "decoder_read_int" [VInt n]
    | RLongUint n => scalar "decoder_read_long_uint" [VInt n]
    | RFloat => scalar "decoder_read_float" [] | RDouble => scalar "decoder_read_double" []
    | RBool => scalar "decoder_read_bool" []
    | RLenDet => scalar "decoder_read_length_determinant" []
    | RTag => scalar "decoder_read_tag" []
    | RAbort e => let^ (_, c', _) := ostep1 "decoder_abort" [c; VInt e] in ROk (c', [])
    end.

  Fixpoint oir_dops (c : val) (os : list odop) : res (val * list (list Z)) :=
    match os with
    | [] => ROk (c, [])
    | o :: r =>
      let^ (c', v) := oir_dop c o in
      let^ (c'', vs) := oir_dops c' r in ROk (c'', v :: vs)
    end.

  Definition oenc_agree (case : list Z * Z * list oeop) : Z :=
    let '(b, n, os) := case in
    let model := run_oeops (oinit b n) os in
    let ir :=
        let^ (_, c0, _) := ostep1 "encoder_init" [cursor_undef; bytes_val b; VInt n] in
        let^ c1 := oir_eops c0 os in
        let^ r := get_result_ir prog fuel "encoder_get_result" c1 in ROk (c1, r) in
    match model, ir with
    | COk s, ROk (c, r) =>
      match cursor_of c with
      | Some (b', sz, ps) =>
        if zlist_eqb b' (buf s) && (sz =? size s) && (ps =? pos s) && (r =? oget_result s) then 0 else 1
      | None => 1
      end
    | m, RFail f => if cres_code m =? fail_code f then 0 else 1
    | _, _ => 1
    end.

  Definition odec_agree (case : list Z * Z * list odop) : Z :=
    let '(b, n, os) := case in
    let model := run_odops (oinit b n) os in
    let ir :=
        let^ (_, c0, _) := ostep1 "decoder_init" [cursor_undef; bytes_val b; VInt n] in
        let^ (c1, vs) := oir_dops c0 os in
        let^ r := get_result_ir prog fuel "decoder_get_result" c1 in ROk (c1, vs, r) in
    match model, ir with
    | COk (s, mvs), ROk (c, vs, r) =>
      match cursor_of c with
      | Some (b', sz, ps) =>
        if zlist_eqb b' (buf s) && (sz =? size s) && (ps =? pos s) && (r =? oget_result s) && zll_eqb vs mvs
        then 0 else 1
      | None => 1
      end
    | m, RFail f => if cres_code m =? fail_code f then 0 else 1
    | _, _ => 1
    end.
End Run.
