(** C09 — model of the fixed helper block that asn1tools/source/c/uper_functions.py
    (and utils.py: ENCODER_ABORT / DECODER_ABORT) pastes into every generated
    UPER C source.

    One cursor record serves struct encoder_t and struct decoder_t:
    [buf] is the memory the pointer [buf_p] designates (its length is the real
    capacity in bytes), [size] and [pos] are the two ssize_t fields (in BITS;
    after an abort both hold the negated error code: the "latch").

    Every C integer type of fixed width is written with its wrap made explicit
    ([u8], [u64], [s8] ...); conversions to a signed type use the wrap-around
    that gcc and clang implement.  What C leaves undefined is a distinct
    outcome [CUb] (signed overflow, shift count out of range); an access outside
    the object is the distinct outcome [COob].  The model is executable
    ([vm_compute]) and is compared call by call with the compiled helpers by
    harness/c09.py.  Proofs live in HelpersProofs.v. *)
From Asn1V Require Import Base.Prelude.

(* ------------------------------------------------------------------ *)
(** * Outcomes *)

Inductive cres (A : Type) : Type :=
| COk (a : A)
| COob            (* read or write outside the designated object *)
| CUb.            (* other undefined behaviour of C99 (signed overflow, bad shift) *)
Arguments COk {A} a.
Arguments COob {A}.
Arguments CUb {A}.

Definition cbind {A B} (r : cres A) (f : A -> cres B) : cres B :=
  match r with COk a => f a | COob => COob | CUb => CUb end.
Notation "'let+' x ':=' r 'in' k" := (cbind r (fun x => k))
  (at level 200, x pattern, r at level 100, k at level 200).

(* ------------------------------------------------------------------ *)
(** * Fixed-width integer conversions (LP64: size_t = uint64_t, ssize_t = int64_t,
      int = int32_t) *)

Definition u8 (z : Z) : Z := z mod 256.
Definition u16 (z : Z) : Z := z mod 65536.
Definition u32 (z : Z) : Z := z mod 4294967296.
Definition u64 (z : Z) : Z := z mod 18446744073709551616.
Definition s8 (z : Z) : Z := (z + 128) mod 256 - 128.
Definition s16 (z : Z) : Z := (z + 32768) mod 65536 - 32768.
Definition s32 (z : Z) : Z := (z + 2147483648) mod 4294967296 - 2147483648.
Definition s64 (z : Z) : Z := (z + 9223372036854775808) mod 18446744073709551616 - 9223372036854775808.
Definition in_s32 (z : Z) : bool := (-2147483648 <=? z) && (z <=? 2147483647).
Definition in_s64 (z : Z) : bool := (-9223372036854775808 <=? z) && (z <=? 9223372036854775807).

Definition ENOMEM : Z := 12.
Definition EINVAL : Z := 22.
Definition EOUTOFDATA : Z := 500.
Definition EBADCHOICE : Z := 501.
Definition EBADLENGTH : Z := 502.
Definition EBADENUM : Z := 503.

(* ------------------------------------------------------------------ *)
(** * Memory: a byte object with explicit capacity *)

Definition len {A} (l : list A) : Z := Z.of_nat (length l).

Fixpoint upd {A} (l : list A) (n : nat) (v : A) : list A :=
  match l, n with
  | [], _ => []
  | _ :: r, O => v :: r
  | x :: r, S n' => x :: upd r n' v
  end.

Definition rd (b : list Z) (i : Z) : cres Z :=
  if (0 <=? i) && (i <? len b)
  then match nth_error b (Z.to_nat i) with Some x => COk x | None => COob end
  else COob.

Definition wr (b : list Z) (i v : Z) : cres (list Z) :=
  if (0 <=? i) && (i <? len b) then COk (upd b (Z.to_nat i) v) else COob.

(** memcpy(&dst[doff], &src[soff], n) as [n] single-byte copies (the regions
    never overlap in the helpers: different objects). *)
Fixpoint memcpy_loop (k : nat) (dst : list Z) (doff : Z) (src : list Z) (soff : Z) (i : Z)
  : cres (list Z) :=
  match k with
  | O => COk dst
  | S k' =>
    let+ x := rd src (soff + i) in
    let+ d := wr dst (doff + i) x in
    memcpy_loop k' d doff src soff (i + 1)
  end.
Definition memcpy (dst : list Z) (doff : Z) (src : list Z) (soff n : Z) : cres (list Z) :=
  memcpy_loop (Z.to_nat n) dst doff src soff 0.

(* ------------------------------------------------------------------ *)
(** * The cursor *)

Record cur : Type := mkCur { buf : list Z; size : Z; pos : Z }.

(** encoder_init / decoder_init: size = 8 * (ssize_t)size.  [b] is the object
    behind buf_p, [n] the size_t argument. *)
Definition init (b : list Z) (n : Z) : cres cur :=
  let sz := 8 * s64 (u64 n) in
  if in_s64 sz then COk (mkCur b sz 0) else CUb.

(** encoder_abort / decoder_abort (utils.py): only the first error is kept. *)
Definition abort (s : cur) (e : Z) : cur :=
  if size s >=? 0 then mkCur (buf s) (- e) (- e) else s.

(** encoder_get_result / decoder_get_result; C division truncates. *)
Definition get_result (s : cur) : Z :=
  if size s >=? 0 then Z.quot (pos s + 7) 8 else pos s.

(** encoder_alloc (err = ENOMEM) / decoder_free (err = EOUTOFDATA):
    [n] is the size_t argument; returns the new cursor and the local [pos]. *)
Definition alloc_gen (err : Z) (s : cur) (n : Z) : cres (cur * Z) :=
  let sn := s64 (u64 n) in
  if negb (in_s64 (pos s + sn)) then CUb
  else if pos s + sn <=? size s
       then COk (mkCur (buf s) (size s) (pos s + sn), pos s)
       else COk (abort s err, - err).
Definition encoder_alloc := alloc_gen ENOMEM.
Definition decoder_free := alloc_gen EOUTOFDATA.

(* ------------------------------------------------------------------ *)
(** * Encoder *)

(** encoder_append_bit(self_p, int value) *)
Definition append_bit (s : cur) (value : Z) : cres cur :=
  let+ (s1, p) := encoder_alloc s 1 in
  if p <? 0 then COk s1
  else
    let+ b1 := (if Z.rem p 8 =? 0 then wr (buf s1) (Z.quot p 8) 0 else COk (buf s1)) in
    let+ old := rd b1 (Z.quot p 8) in
    let sh := Z.shiftl value (7 - Z.rem p 8) in
    if (value <? 0) || negb (in_s32 sh) then CUb
    else
      let+ b2 := wr b1 (Z.quot p 8) (u8 (Z.lor old (u8 sh))) in
      COk (mkCur b2 (size s1) (pos s1)).

Definition append_bool (s : cur) (v : bool) : cres cur := append_bit s (if v then 1 else 0).

(** The unaligned branch of encoder_append_bytes. *)
Fixpoint append_bytes_loop (k : nat) (b : list Z) (bp pib : Z) (src : list Z) (i : Z)
  : cres (list Z) :=
  match k with
  | O => COk b
  | S k' =>
    let+ x := rd src i in
    let+ old := rd b (bp + i) in
    let+ b1 := wr b (bp + i) (u8 (Z.lor old (Z.shiftr x pib))) in
    let+ b2 := wr b1 (bp + i + 1) (u8 (Z.shiftl x (8 - pib))) in
    append_bytes_loop k' b2 bp pib src (i + 1)
  end.

(** encoder_append_bytes(self_p, buf_p, size): [src] is the object behind
    buf_p (its length is its capacity), [n] the size_t argument. *)
Definition append_bytes (s : cur) (src : list Z) (n : Z) : cres cur :=
  let+ (s1, p) := encoder_alloc s (u64 (8 * n)) in
  if p <? 0 then COk s1
  else
    let bp := Z.quot p 8 in
    let pib := Z.rem p 8 in
    let+ b' := (if pib =? 0 then memcpy (buf s1) bp src 0 n
                else append_bytes_loop (Z.to_nat n) (buf s1) bp pib src 0) in
    COk (mkCur b' (size s1) (pos s1)).

Definition append_uint8 (s : cur) (v : Z) : cres cur :=
  let v := u8 v in append_bytes s [u8 v] 1.
Definition append_uint16 (s : cur) (v : Z) : cres cur :=
  let v := u16 v in append_bytes s [u8 (Z.shiftr v 8); u8 v] 2.
Definition append_uint32 (s : cur) (v : Z) : cres cur :=
  let v := u32 v in
  append_bytes s [u8 (Z.shiftr v 24); u8 (Z.shiftr v 16); u8 (Z.shiftr v 8); u8 v] 4.
Definition append_uint64 (s : cur) (v : Z) : cres cur :=
  let v := u64 v in
  append_bytes s [u8 (Z.shiftr v 56); u8 (Z.shiftr v 48); u8 (Z.shiftr v 40); u8 (Z.shiftr v 32);
                  u8 (Z.shiftr v 24); u8 (Z.shiftr v 16); u8 (Z.shiftr v 8); u8 v] 8.

(** (uint8_t)value + 128 is computed in int and converted by the call. *)
Definition append_int8 (s : cur) (v : Z) : cres cur := append_uint8 s (u8 (s8 v) + 128).
Definition append_int16 (s : cur) (v : Z) : cres cur := append_uint16 s (u16 (s16 v) + 32768).
Definition append_int32 (s : cur) (v : Z) : cres cur := append_uint32 s (u32 (s32 v) + 2147483648).
Definition append_int64 (s : cur) (v : Z) : cres cur :=
  append_uint64 s (u64 (u64 (s64 v) + 9223372036854775808)).

(** encoder_append_non_negative_binary_integer(self_p, uint64_t value, size_t size) *)
Fixpoint append_nnbi_loop (k : nat) (s : cur) (value n i : Z) : cres cur :=
  match k with
  | O => COk s
  | S k' =>
    let sh := n - i - 1 in
    if (sh <? 0) || (64 <=? sh) then CUb
    else
      let+ s' := append_bit s (Z.land (Z.shiftr value sh) 1) in
      append_nnbi_loop k' s' value n (i + 1)
  end.
Definition append_nnbi (s : cur) (value n : Z) : cres cur :=
  append_nnbi_loop (Z.to_nat n) s (u64 value) n 0.

(* ------------------------------------------------------------------ *)
(** * Decoder *)

(** decoder_read_bit *)
Definition read_bit (s : cur) : cres (cur * Z) :=
  let+ (s1, p) := decoder_free s 1 in
  if p >=? 0
  then let+ b := rd (buf s1) (Z.quot p 8) in
       COk (s1, Z.land (Z.shiftr b (7 - Z.rem p 8)) 1)
  else COk (s1, 0).

Definition read_bool (s : cur) : cres (cur * bool) :=
  let+ (s1, b) := read_bit s in COk (s1, negb (b =? 0)).

Fixpoint read_bytes_loop (k : nat) (b : list Z) (bp pib : Z) (dst : list Z) (i : Z)
  : cres (list Z) :=
  match k with
  | O => COk dst
  | S k' =>
    let+ a := rd b (bp + i) in
    let+ d1 := wr dst i (u8 (Z.shiftl a pib)) in
    let+ c := rd b (bp + i + 1) in
    let+ old := rd d1 i in
    let+ d2 := wr d1 i (u8 (Z.lor old (Z.shiftr c (8 - pib)))) in
    read_bytes_loop k' b bp pib d2 (i + 1)
  end.

(** decoder_read_bytes(self_p, buf_p, size): [dst] is the object behind buf_p
    before the call; the object after the call is returned. *)
Definition read_bytes (s : cur) (dst : list Z) (n : Z) : cres (cur * list Z) :=
  let+ (s1, p) := decoder_free s (u64 (8 * n)) in
  if p <? 0 then COk (s1, dst)
  else
    let bp := Z.quot p 8 in
    let pib := Z.rem p 8 in
    let+ d := (if pib =? 0 then memcpy dst 0 (buf s1) bp n
               else read_bytes_loop (Z.to_nat n) (buf s1) bp pib dst 0) in
    COk (s1, d).

(** decoder_read_uint8 initialises its local to 0; the wider readers use an
    uninitialised local array [junk] (its previous content is observable in
    the returned value when the read failed; the latch is then set). *)
Definition read_uint8 (s : cur) : cres (cur * Z) :=
  let+ (s1, d) := read_bytes s [0] 1 in
  let+ a := rd d 0 in COk (s1, a).
Definition read_uint16 (s : cur) (junk : list Z) : cres (cur * Z) :=
  let+ (s1, d) := read_bytes s (firstn 2 junk) 2 in
  let+ a := rd d 0 in let+ b := rd d 1 in
  COk (s1, u16 (Z.lor (u16 (Z.shiftl a 8)) b)).
Definition read_uint32 (s : cur) (junk : list Z) : cres (cur * Z) :=
  let+ (s1, d) := read_bytes s (firstn 4 junk) 4 in
  let+ a := rd d 0 in let+ b := rd d 1 in let+ c := rd d 2 in let+ e := rd d 3 in
  COk (s1, Z.lor (Z.lor (Z.lor (u32 (Z.shiftl a 24)) (u32 (Z.shiftl b 16))) (u32 (Z.shiftl c 8))) e).
Definition read_uint64 (s : cur) (junk : list Z) : cres (cur * Z) :=
  let+ (s1, d) := read_bytes s (firstn 8 junk) 8 in
  let+ b0 := rd d 0 in let+ b1 := rd d 1 in let+ b2 := rd d 2 in let+ b3 := rd d 3 in
  let+ b4 := rd d 4 in let+ b5 := rd d 5 in let+ b6 := rd d 6 in let+ b7 := rd d 7 in
  COk (s1, Z.lor (Z.lor (Z.lor (Z.lor (Z.lor (Z.lor (Z.lor
        (u64 (Z.shiftl b0 56)) (u64 (Z.shiftl b1 48))) (u64 (Z.shiftl b2 40)))
        (u64 (Z.shiftl b3 32))) (u64 (Z.shiftl b4 24))) (u64 (Z.shiftl b5 16)))
        (u64 (Z.shiftl b6 8))) b7).

Definition read_int8 (s : cur) : cres (cur * Z) :=
  let+ (s1, u) := read_uint8 s in COk (s1, s8 (s8 u - 128)).
Definition read_int16 (s : cur) (junk : list Z) : cres (cur * Z) :=
  let+ (s1, u) := read_uint16 s junk in COk (s1, s16 (s16 u - 32768)).
Definition read_int32 (s : cur) (junk : list Z) : cres (cur * Z) :=
  let+ (s1, u) := read_uint32 s junk in COk (s1, s32 (s32 u - 2147483648)).
Definition read_int64 (s : cur) (junk : list Z) : cres (cur * Z) :=
  let+ (s1, u) := read_uint64 s junk in COk (s1, s64 (u64 (u - 9223372036854775808))).

(** decoder_read_non_negative_binary_integer(self_p, size_t size) *)
Fixpoint read_nnbi_loop (k : nat) (s : cur) (value : Z) : cres (cur * Z) :=
  match k with
  | O => COk (s, value)
  | S k' =>
    let+ (s', b) := read_bit s in
    read_nnbi_loop k' s' (Z.lor (u64 (Z.shiftl value 1)) (u64 b))
  end.
Definition read_nnbi (s : cur) (n : Z) : cres (cur * Z) := read_nnbi_loop (Z.to_nat n) s 0.

(* ------------------------------------------------------------------ *)
(** * Call histories (used by the theorems and by the correspondence run) *)

Inductive eop : Type :=
| EBit (v : Z) | EBool (b : bool) | EBytes (src : list Z) (n : Z) | ENnbi (v n : Z)
| EU8 (v : Z) | EU16 (v : Z) | EU32 (v : Z) | EU64 (v : Z)
| EI8 (v : Z) | EI16 (v : Z) | EI32 (v : Z) | EI64 (v : Z)
| EAbort (e : Z).

Definition run_eop (s : cur) (o : eop) : cres cur :=
  match o with
  | EBit v => append_bit s v | EBool b => append_bool s b
  | EBytes src n => append_bytes s src n | ENnbi v n => append_nnbi s v n
  | EU8 v => append_uint8 s v | EU16 v => append_uint16 s v
  | EU32 v => append_uint32 s v | EU64 v => append_uint64 s v
  | EI8 v => append_int8 s v | EI16 v => append_int16 s v
  | EI32 v => append_int32 s v | EI64 v => append_int64 s v
  | EAbort e => COk (abort s e)
  end.

Fixpoint run_eops (s : cur) (os : list eop) : cres cur :=
  match os with [] => COk s | o :: r => let+ s' := run_eop s o in run_eops s' r end.

Inductive dop : Type :=
| DBit | DBool | DBytes (cap n : Z)   (* destination object of [cap] zero bytes *)
| DNnbi (n : Z)
| DU8 | DU16 | DU32 | DU64 | DI8 | DI16 | DI32 | DI64
| DAbort (e : Z).

(** Result of one decoder call, flattened for comparison: a list of Z. *)
Definition zeros (n : Z) : list Z := repeat 0 (Z.to_nat n).
Definition run_dop (junk : list Z) (s : cur) (o : dop) : cres (cur * list Z) :=
  match o with
  | DBit => let+ (s', v) := read_bit s in COk (s', [v])
  | DBool => let+ (s', v) := read_bool s in COk (s', [if v then 1 else 0])
  | DBytes cap n => read_bytes s (zeros cap) n
  | DNnbi n => let+ (s', v) := read_nnbi s n in COk (s', [v])
  | DU8 => let+ (s', v) := read_uint8 s in COk (s', [v])
  | DU16 => let+ (s', v) := read_uint16 s junk in COk (s', [v])
  | DU32 => let+ (s', v) := read_uint32 s junk in COk (s', [v])
  | DU64 => let+ (s', v) := read_uint64 s junk in COk (s', [v])
  | DI8 => let+ (s', v) := read_int8 s in COk (s', [v])
  | DI16 => let+ (s', v) := read_int16 s junk in COk (s', [v])
  | DI32 => let+ (s', v) := read_int32 s junk in COk (s', [v])
  | DI64 => let+ (s', v) := read_int64 s junk in COk (s', [v])
  | DAbort e => COk (abort s e, [])
  end.

Fixpoint run_dops (junk : list Z) (s : cur) (os : list dop) : cres (cur * list (list Z)) :=
  match os with
  | [] => COk (s, [])
  | o :: r =>
    let+ (s', v) := run_dop junk s o in
    let+ (s'', vs) := run_dops junk s' r in
    COk (s'', v :: vs)
  end.

(* ------------------------------------------------------------------ *)
(** * Specification side: bit strings *)

(** [be_bits n v]: the [n] low bits of [v], most significant first — the
    "non-negative-binary-integer in a field of n bits" of X.691 10.3 / what
    codecs/per.py Encoder.append_non_negative_binary_integer appends. *)
Fixpoint be_bits (n : nat) (v : Z) : list bool :=
  match n with
  | O => []
  | S n' => Z.testbit v (Z.of_nat n') :: be_bits n' v
  end.

Fixpoint bits_value_acc (acc : Z) (bs : list bool) : Z :=
  match bs with [] => acc | b :: r => bits_value_acc (2 * acc + (if b then 1 else 0)) r end.
Definition bits_value (bs : list bool) : Z := bits_value_acc 0 bs.

Definition byte_bits (b : Z) : list bool := be_bits 8 b.
Definition bytes_bits (bs : list Z) : list bool := flat_map byte_bits bs.

(** bit [i] (counted from the most significant bit of byte 0) of a buffer *)
Definition getbit (b : list Z) (i : Z) : bool :=
  Z.testbit (nth (Z.to_nat (i / 8)) b 0) (7 - i mod 8).

(** the bits written so far *)
Definition written (s : cur) : list bool := firstn (Z.to_nat (pos s)) (bytes_bits (buf s)).

(** pack a bit string into bytes, zero padded (what Encoder.as_bytearray returns) *)
Fixpoint pack_fuel (fuel : nat) (bs : list bool) : list Z :=
  match fuel, bs with
  | O, _ => []
  | _, [] => []
  | S f, _ => bits_value (firstn 8 (bs ++ repeat false 7)) :: pack_fuel f (skipn 8 bs)
  end.
Definition pack (bs : list bool) : list Z := pack_fuel (length bs) bs.
