(** C10 — predicates for the statements about CGen/OerHelpers.v (byte cursor).
    Definitions only; proofs in OerHelpersProofs.v. *)
From Asn1V Require Import Base.Prelude CGen.Helpers CGen.OerHelpers.

(** cursor as *_init leaves it: size = capacity in bytes *)
Definition olive (s : cur) : Prop :=
  size s = len (buf s) /\ 0 <= pos s <= size s /\
  len (buf s) < 4611686018427387904 (* 2^62 *) /\ bytes_ok (buf s).
Definition olatched (s : cur) : Prop := -2147483647 <= size s < 0 /\ pos s = size s.
Definition owf (s : cur) : Prop := olive s \/ olatched s.

(** arguments the generated code can pass *)
Definition oeop_ok (o : oeop) : Prop :=
  match o with
  | OBytes src n => 0 <= n <= len src /\ n < 4294967296 /\ bytes_ok src
  | OLongUint _ n => 0 <= n <= 8
  | OUint _ n | OInt _ n => 0 <= n < 256
  | OAbort e => 0 < e <= 2147483647
  | _ => True
  end.
Definition oeop_is_abort (o : oeop) : bool := match o with OAbort _ => true | _ => false end.

(** number of bytes a call appends *)
Definition oeop_bytes (o : oeop) : Z :=
  match o with
  | OBytes _ n => n
  | OU8 _ | OI8 _ | OBool _ => 1
  | OU16 _ | OI16 _ => 2
  | OU32 _ | OI32 _ | OFloat _ => 4
  | OU64 _ | OI64 _ | ODouble _ => 8
  | OUint _ n | OInt _ n => if (1 <=? n) && (n <=? 3) then n else 4
  | OLongUint _ n => n
  | OLenDet n => length_determinant_length n
  | OAbort _ => 0
  end.

(** the octets X.696 / codecs/oer.py append for the same call *)
Definition oeop_spec (o : oeop) : list Z :=
  match o with
  | OBytes src n => firstn (Z.to_nat n) src
  | OU8 v | OI8 v => be_bytes 1 v
  | OU16 v | OI16 v => be_bytes 2 v
  | OU32 v | OI32 v | OFloat v => be_bytes 4 v
  | OU64 v | OI64 v | ODouble v => be_bytes 8 v
  | OUint v n | OInt v n => be_bytes (Z.to_nat (if (1 <=? n) && (n <=? 3) then n else 4)) v
  | OLongUint v n => be_bytes (Z.to_nat n) v
  | OBool b => [if b then 255 else 0]
  | OLenDet n =>
    let l := u32 n in
    if l <? 128 then [l]
    else if l <? 256 then [129; l]
    else if l <? 65536 then 130 :: be_bytes 2 l
    else if l <? 16777216 then 131 :: be_bytes 3 l
    else 132 :: be_bytes 4 l
  | OAbort _ => []
  end.

Definition odop_ok (o : odop) : Prop :=
  match o with
  | RBytes cap n => 0 <= n <= cap /\ cap < 4294967296
  | RUint n | RInt n | RLongUint n => 0 <= n < 256
  | RAbort e => 0 < e <= 2147483647
  | _ => True
  end.

(** the bytes written so far / under the read cursor *)
Definition owritten (s : cur) : list Z := firstn (Z.to_nat (pos s)) (buf s).
Definition obytes_at (s : cur) (n : Z) : list Z := firstn (Z.to_nat n) (skipn (Z.to_nat (pos s)) (buf s)).

(** big-endian value of an octet string *)
Definition be_val (bs : list Z) : Z := be_value bs.

Definition ono_abort (os : list oeop) : Prop := Forall (fun o => oeop_is_abort o = false) os.
Definition ototal_bytes (os : list oeop) : Z := fold_right (fun o a => oeop_bytes o + a) 0 os.
