(** C10 — model of the fixed helper block that asn1tools/source/c/oer_functions.py
    (and utils.py: ENCODER_ABORT / DECODER_ABORT) pastes into every generated
    OER C source.  Same conventions as CGen/Helpers.v (whose cursor record,
    memory primitives [rd]/[wr]/[memcpy], fixed-width conversions and outcome
    type are reused): here [size] and [pos] count BYTES.

    REAL members travel as their IEEE 754 bit patterns (uint32_t / uint64_t):
    encoder_append_float/double and decoder_read_float/double only move the
    object representation (memcpy), which the model identifies with the
    pattern.  encoder_append_long_uint reads the bytes of its uint64_t argument
    through a byte pointer, least significant first: that is modelled for the
    little-endian targets the check compiles for (documented assumption).
    Proofs: OerHelpersProofs.v. *)
From Asn1V Require Import Base.Prelude CGen.Helpers.

(* ------------------------------------------------------------------ *)
(** * Pure helpers *)

(** enumerated_value_length(int32_t value): 0 means "short form" *)
Definition enumerated_value_length (value : Z) : Z :=
  let v := s32 value in
  if (0 <=? v) && (v <? 128) then 0
  else if (-128 <=? v) && (v <? 128) then 1
  else if (-32768 <=? v) && (v <? 32768) then 2
  else if (-8388608 <=? v) && (v <? 8388608) then 3
  else 4.

(** length_determinant_length(uint32_t value) *)
Definition length_determinant_length (value : Z) : Z :=
  let v := u32 value in
  if v <? 128 then 1 else if v <? 256 then 2 else if v <? 65536 then 3
  else if v <? 16777216 then 4 else 5.

(** minimum_uint_length(uint32_t value) *)
Definition minimum_uint_length (value : Z) : Z :=
  let v := u32 value in
  if v <? 256 then 1 else if v <? 65536 then 2 else if v <? 16777216 then 3 else 4.

(* ------------------------------------------------------------------ *)
(** * Cursor (bytes) *)

(** encoder_init / decoder_init: size = (ssize_t)size *)
Definition oinit (b : list Z) (n : Z) : cur := mkCur b (s64 (u64 n)) 0.

(** encoder_get_result / decoder_get_result: the position, which is the
    negated error code after an abort *)
Definition oget_result (s : cur) : Z := pos s.

Definition oencoder_alloc := alloc_gen ENOMEM.
Definition odecoder_free := alloc_gen EOUTOFDATA.

(* ------------------------------------------------------------------ *)
(** * Encoder *)

(** encoder_append_bytes(self_p, buf_p, size) *)
Definition oappend_bytes (s : cur) (src : list Z) (n : Z) : cres cur :=
  let+ (s1, p) := oencoder_alloc s n in
  if p <? 0 then COk s1
  else let+ b' := memcpy (buf s1) p src 0 (u64 n) in COk (mkCur b' (size s1) (pos s1)).

Definition oappend_uint8 (s : cur) (v : Z) : cres cur := oappend_bytes s [u8 v] 1.
Definition oappend_uint16 (s : cur) (v : Z) : cres cur :=
  let v := u16 v in oappend_bytes s [u8 (Z.shiftr v 8); u8 v] 2.
Definition oappend_uint32 (s : cur) (v : Z) : cres cur :=
  let v := u32 v in
  oappend_bytes s [u8 (Z.shiftr v 24); u8 (Z.shiftr v 16); u8 (Z.shiftr v 8); u8 v] 4.
Definition oappend_uint64 (s : cur) (v : Z) : cres cur :=
  let v := u64 v in
  oappend_bytes s [u8 (Z.shiftr v 56); u8 (Z.shiftr v 48); u8 (Z.shiftr v 40); u8 (Z.shiftr v 32);
                   u8 (Z.shiftr v 24); u8 (Z.shiftr v 16); u8 (Z.shiftr v 8); u8 v] 8.

Definition oappend_int8 (s : cur) (v : Z) : cres cur := oappend_uint8 s (u8 (s8 v)).
Definition oappend_int16 (s : cur) (v : Z) : cres cur := oappend_uint16 s (u16 (s16 v)).
Definition oappend_int32 (s : cur) (v : Z) : cres cur := oappend_uint32 s (u32 (s32 v)).
Definition oappend_int64 (s : cur) (v : Z) : cres cur := oappend_uint64 s (u64 (s64 v)).

(** encoder_append_uint(self_p, uint32_t value, uint8_t number_of_bytes) *)
Definition oappend_uint (s : cur) (value nbytes : Z) : cres cur :=
  let value := u32 value in
  let nbytes := u8 nbytes in
  if nbytes =? 1 then oappend_uint8 s (u8 value)
  else if nbytes =? 2 then oappend_uint16 s (u16 value)
  else if nbytes =? 3 then
    let+ s1 := oappend_uint8 s (u8 (Z.shiftr value 16)) in oappend_uint16 s1 (u16 value)
  else oappend_uint32 s value.

(** encoder_append_int(self_p, int32_t value, uint8_t number_of_bytes) *)
Definition oappend_int (s : cur) (value nbytes : Z) : cres cur :=
  let value := s32 value in
  let nbytes := u8 nbytes in
  if nbytes =? 1 then oappend_int8 s (s8 value)
  else if nbytes =? 2 then oappend_int16 s (s16 value)
  else if nbytes =? 3 then
    let+ s1 := oappend_uint8 s (u8 (Z.shiftr (u32 value) 16)) in oappend_int16 s1 (s16 value)
  else oappend_int32 s value.

(** the [k] low bytes of [v], most significant first *)
Fixpoint be_bytes (k : nat) (v : Z) : list Z :=
  match k with
  | O => []
  | S k' => u8 (Z.shiftr v (8 * Z.of_nat k')) :: be_bytes k' v
  end.

(** encoder_append_long_uint(self_p, uint64_t value, uint8_t number_of_bytes):
    a local buf[8] is filled from the (little-endian) bytes of value; more than
    8 bytes overrun both the local array and the argument object. *)
Definition oappend_long_uint (s : cur) (value nbytes : Z) : cres cur :=
  let value := u64 value in
  let nbytes := u8 nbytes in
  if 8 <? nbytes then COob
  else oappend_bytes s (be_bytes (Z.to_nat nbytes) value ++ repeat 0 (Z.to_nat (8 - nbytes))) nbytes.

(** REAL: the bit pattern *)
Definition oappend_float (s : cur) (bits : Z) : cres cur := oappend_uint32 s (u32 bits).
Definition oappend_double (s : cur) (bits : Z) : cres cur := oappend_uint64 s (u64 bits).

Definition oappend_bool (s : cur) (b : bool) : cres cur := oappend_uint8 s (if b then 255 else 0).

(** encoder_append_length_determinant(self_p, uint32_t length) *)
Definition oappend_length_determinant (s : cur) (length : Z) : cres cur :=
  let l := u32 length in
  if l <? 128 then oappend_int8 s (s8 l)
  else if l <? 256 then
    let+ s1 := oappend_uint8 s 129 in oappend_uint8 s1 (u8 l)
  else if l <? 65536 then
    let+ s1 := oappend_uint8 s 130 in oappend_uint16 s1 (u16 l)
  else if l <? 16777216 then oappend_uint32 s (Z.lor l (u32 (Z.shiftl 131 24)))
  else let+ s1 := oappend_uint8 s 132 in oappend_uint32 s1 l.

(* ------------------------------------------------------------------ *)
(** * Decoder *)

Fixpoint memset_loop (k : nat) (dst : list Z) (i : Z) : cres (list Z) :=
  match k with
  | O => COk dst
  | S k' => let+ d := wr dst i 0 in memset_loop k' d (i + 1)
  end.

(** decoder_read_bytes(self_p, buf_p, size): on failure the destination is
    zeroed (memset), so no read helper returns indeterminate data *)
Definition oread_bytes (s : cur) (dst : list Z) (n : Z) : cres (cur * list Z) :=
  let+ (s1, p) := odecoder_free s n in
  if p >=? 0
  then let+ d := memcpy dst 0 (buf s1) p (u64 n) in COk (s1, d)
  else let+ d := memset_loop (Z.to_nat (u64 n)) dst 0 in COk (s1, d).

Definition oread_uint8 (s : cur) : cres (cur * Z) :=
  let+ (s1, d) := oread_bytes s [0] 1 in let+ a := rd d 0 in COk (s1, a).
Definition oread_uint16 (s : cur) : cres (cur * Z) :=
  let+ (s1, d) := oread_bytes s [0; 0] 2 in
  let+ a := rd d 0 in let+ b := rd d 1 in
  COk (s1, u16 (Z.lor (u16 (Z.shiftl a 8)) b)).
Definition oread_uint32 (s : cur) : cres (cur * Z) :=
  let+ (s1, d) := oread_bytes s [0; 0; 0; 0] 4 in
  let+ a := rd d 0 in let+ b := rd d 1 in let+ c := rd d 2 in let+ e := rd d 3 in
  COk (s1, Z.lor (Z.lor (Z.lor (u32 (Z.shiftl a 24)) (u32 (Z.shiftl b 16))) (u32 (Z.shiftl c 8))) e).
Definition oread_uint64 (s : cur) : cres (cur * Z) :=
  let+ (s1, d) := oread_bytes s [0; 0; 0; 0; 0; 0; 0; 0] 8 in
  let+ b0 := rd d 0 in let+ b1 := rd d 1 in let+ b2 := rd d 2 in let+ b3 := rd d 3 in
  let+ b4 := rd d 4 in let+ b5 := rd d 5 in let+ b6 := rd d 6 in let+ b7 := rd d 7 in
  COk (s1, Z.lor (Z.lor (Z.lor (Z.lor (Z.lor (Z.lor (Z.lor
        (u64 (Z.shiftl b0 56)) (u64 (Z.shiftl b1 48))) (u64 (Z.shiftl b2 40)))
        (u64 (Z.shiftl b3 32))) (u64 (Z.shiftl b4 24))) (u64 (Z.shiftl b5 16)))
        (u64 (Z.shiftl b6 8))) b7).

Definition oread_int8 (s : cur) : cres (cur * Z) := let+ (s1, u) := oread_uint8 s in COk (s1, s8 u).
Definition oread_int16 (s : cur) : cres (cur * Z) := let+ (s1, u) := oread_uint16 s in COk (s1, s16 u).
Definition oread_int32 (s : cur) : cres (cur * Z) := let+ (s1, u) := oread_uint32 s in COk (s1, s32 u).
Definition oread_int64 (s : cur) : cres (cur * Z) := let+ (s1, u) := oread_uint64 s in COk (s1, s64 u).

(** decoder_read_uint(self_p, uint8_t number_of_bytes) *)
Definition oread_uint (s : cur) (nbytes : Z) : cres (cur * Z) :=
  let nbytes := u8 nbytes in
  if nbytes =? 1 then oread_uint8 s
  else if nbytes =? 2 then oread_uint16 s
  else if nbytes =? 3 then
    let+ (s1, a) := oread_uint8 s in
    let+ (s2, b) := oread_uint16 s1 in
    COk (s2, Z.lor (u32 (Z.shiftl a 16)) b)
  else if nbytes =? 4 then oread_uint32 s
  else COk (s, 4294967295).

(** decoder_read_long_uint(self_p, uint8_t number_of_bytes) *)
Fixpoint oread_long_uint_loop (k : nat) (s : cur) (value : Z) : cres (cur * Z) :=
  match k with
  | O => COk (s, value)
  | S k' =>
    let+ (s1, b) := oread_uint8 s in
    oread_long_uint_loop k' s1 (Z.lor b (u64 (Z.shiftl value 8)))
  end.
Definition oread_long_uint (s : cur) (nbytes : Z) : cres (cur * Z) :=
  oread_long_uint_loop (Z.to_nat (u8 nbytes)) s 0.

(** decoder_read_int(self_p, uint8_t number_of_bytes) *)
Definition oread_int (s : cur) (nbytes : Z) : cres (cur * Z) :=
  let nbytes := u8 nbytes in
  if nbytes =? 1 then oread_int8 s
  else if nbytes =? 2 then oread_int16 s
  else if nbytes =? 3 then
    let+ (s1, a) := oread_uint8 s in
    let+ (s2, b) := oread_uint16 s1 in
    let tmp := Z.lor (u32 (Z.shiftl a 16)) b in
    let tmp := if Z.land tmp 8388608 =? 8388608 then u32 (tmp + 4278190080) else tmp in
    COk (s2, s32 tmp)
  else if nbytes =? 4 then oread_int32 s
  else COk (s, 2147483647).

Definition oread_float (s : cur) : cres (cur * Z) := oread_uint32 s.
Definition oread_double (s : cur) : cres (cur * Z) := oread_uint64 s.

Definition oread_bool (s : cur) : cres (cur * bool) :=
  let+ (s1, b) := oread_uint8 s in COk (s1, negb (b =? 0)).

(** decoder_read_length_determinant *)
Definition oread_length_determinant (s : cur) : cres (cur * Z) :=
  let+ (s1, l) := oread_uint8 s in
  if negb (Z.land l 128 =? 0)
  then
    let k := Z.land l 127 in
    if k =? 1 then oread_uint8 s1
    else if k =? 2 then oread_uint16 s1
    else if k =? 3 then
      let+ (s2, a) := oread_uint8 s1 in
      let+ (s3, b) := oread_uint16 s2 in
      COk (s3, Z.lor (u32 (Z.shiftl a 16)) b)
    else if k =? 4 then oread_uint32 s1
    else COk (s1, 4294967295)
  else COk (s1, l).

(** decoder_read_tag: do { tag <<= 8; tag |= read_uint8 } while (tag & 0x80);
    the loop ends at the latest when the data is exhausted (a failed read
    returns 0); [fuel] bounds the iterations, [CUb] stands for "fuel exhausted"
    and is shown unreachable for well-formed cursors. *)
Fixpoint oread_tag_loop (fuel : nat) (s : cur) (tag : Z) : cres (cur * Z) :=
  match fuel with
  | O => CUb
  | S f =>
    let+ (s1, b) := oread_uint8 s in
    let tag' := Z.lor (u32 (Z.shiftl tag 8)) b in
    if Z.land tag' 128 =? 128 then oread_tag_loop f s1 tag' else COk (s1, tag')
  end.
Definition oread_tag (s : cur) : cres (cur * Z) :=
  let+ (s1, t) := oread_uint8 s in
  if Z.land t 63 =? 63 then oread_tag_loop (length (buf s) + 2) s1 t else COk (s1, t).

(* ------------------------------------------------------------------ *)
(** * Call histories *)

Inductive oeop : Type :=
| OBytes (src : list Z) (n : Z)
| OU8 (v : Z) | OU16 (v : Z) | OU32 (v : Z) | OU64 (v : Z)
| OI8 (v : Z) | OI16 (v : Z) | OI32 (v : Z) | OI64 (v : Z)
| OUint (v n : Z) | OInt (v n : Z) | OLongUint (v n : Z)
| OFloat (bits : Z) | ODouble (bits : Z) | OBool (b : bool)
| OLenDet (n : Z) | OAbort (e : Z).

Definition run_oeop (s : cur) (o : oeop) : cres cur :=
  match o with
  | OBytes src n => oappend_bytes s src n
  | OU8 v => oappend_uint8 s v | OU16 v => oappend_uint16 s v
  | OU32 v => oappend_uint32 s v | OU64 v => oappend_uint64 s v
  | OI8 v => oappend_int8 s v | OI16 v => oappend_int16 s v
  | OI32 v => oappend_int32 s v | OI64 v => oappend_int64 s v
  | OUint v n => oappend_uint s v n | OInt v n => oappend_int s v n
  | OLongUint v n => oappend_long_uint s v n
  | OFloat b => oappend_float s b | ODouble b => oappend_double s b
  | OBool b => oappend_bool s b
  | OLenDet n => oappend_length_determinant s n
  | OAbort e => COk (abort s e)
  end.

Fixpoint run_oeops (s : cur) (os : list oeop) : cres cur :=
  match os with [] => COk s | o :: r => let+ s' := run_oeop s o in run_oeops s' r end.

Inductive odop : Type :=
| RBytes (cap n : Z)
| RU8 | RU16 | RU32 | RU64 | RI8 | RI16 | RI32 | RI64
| RUint (n : Z) | RInt (n : Z) | RLongUint (n : Z)
| RFloat | RDouble | RBool | RLenDet | RTag | RAbort (e : Z).

Definition run_odop (s : cur) (o : odop) : cres (cur * list Z) :=
  let one r := let+ (s', v) := r in COk (s', [v]) in
  match o with
  | RBytes cap n => oread_bytes s (zeros cap) n
  | RU8 => one (oread_uint8 s) | RU16 => one (oread_uint16 s)
  | RU32 => one (oread_uint32 s) | RU64 => one (oread_uint64 s)
  | RI8 => one (oread_int8 s) | RI16 => one (oread_int16 s)
  | RI32 => one (oread_int32 s) | RI64 => one (oread_int64 s)
  | RUint n => one (oread_uint s n) | RInt n => one (oread_int s n)
  | RLongUint n => one (oread_long_uint s n)
  | RFloat => one (oread_float s) | RDouble => one (oread_double s)
  | RBool => let+ (s', v) := oread_bool s in COk (s', [if v then 1 else 0])
  | RLenDet => one (oread_length_determinant s)
  | RTag => one (oread_tag s)
  | RAbort e => COk (abort s e, [])
  end.

Fixpoint run_odops (s : cur) (os : list odop) : cres (cur * list (list Z)) :=
  match os with
  | [] => COk (s, [])
  | o :: r =>
    let+ (s', v) := run_odop s o in
    let+ (s'', vs) := run_odops s' r in
    COk (s'', v :: vs)
  end.
