(** C10 — the size-dependent octets the OER C generator emits around a
    SEQUENCE OF and an OCTET STRING (asn1tools/source/c/oer.py:
    format_sequence_of_inner, format_octet_string_inner,
    get_encoded_sequence_of_lengths), for every size up to 2^32 - 1 - in
    particular across the thresholds 2^8, 2^16 and 2^24 where the number of
    octets of the quantity field / length determinant changes.

    The generated encoder of a SEQUENCE OF contains

        number_of_length_bytes = COUNT;
        encoder_append_uint8(encoder_p, number_of_length_bytes);
        encoder_append_uint(encoder_p, VALUE, number_of_length_bytes);

    where COUNT and VALUE are small expressions over integer constants, the
    run-time length member and the helper minimum_uint_length.  harness/c10_sizes.py
    reads COUNT and VALUE out of the generated C (parsed, not pattern-matched
    on the seed) and hands them to [gen_quantity_octets] below; the result has to be
    the quantity field of X.696 ([Oer.X696.x_uint_var], the specification model the
    Python codec is proved against).  Proofs: GenLogicOerSizesProofs.v. *)
From Asn1V Require Import Base.Prelude Base.Corr CGen.Helpers CGen.HelpersBits CGen.OerHelpers CGen.OerHelpersSpec.
From Asn1V Require Import Oer.X696.
Open Scope Z_scope.

(** the expressions the generator emits for COUNT / VALUE *)
Inductive qexp : Type :=
| QNum (k : Z)                  (* integer constant *)
| QLen                          (* the run-time length member (src_p->...length) *)
| QMinUint (e : qexp)           (* minimum_uint_length(e) *)
| QLenDetLen (e : qexp).        (* length_determinant_length(e) *)

Fixpoint qeval (len : Z) (e : qexp) : Z :=
  match e with
  | QNum k => k
  | QLen => len
  | QMinUint e' => minimum_uint_length (qeval len e')
  | QLenDetLen e' => length_determinant_length (qeval len e')
  end.

(** the octets the three statements write for a list of [len] elements
    (number_of_length_bytes is a uint8_t variable) *)
Definition gen_quantity_octets (len : Z) (count value : qexp) : list Z :=
  let nb := u8 (qeval len count) in
  oeop_spec (OU8 nb) ++ oeop_spec (OUint (qeval len value) nb).

(** X.696 17 / 10.4: the quantity field is the count as a variable-size unsigned integer *)
Definition x696_quantity (n : Z) : option (list Z) := x_uint_var n.

Definition quantity_agrees (len : Z) (count value : qexp) : bool :=
  match x696_quantity len with
  | Some l => list_eqb Z.eqb l (gen_quantity_octets len count value)
  | None => false
  end.

(** number of octets X.696 needs for the count (what COUNT has to evaluate to) *)
Definition x696_quantity_count (n : Z) : Z :=
  if n <? 256 then 1 else if n <? 65536 then 2 else if n <? 16777216 then 3 else 4.

(** the decoder: it reads the count octet, that many octets of quantity, and
    compares the quantity with a constant: [QCheck fixed bound] is
    "abort if quantity != bound" (fixed) or "abort if quantity > bound" *)
Definition gen_quantity_accepts (fixed : bool) (bound q : Z) : bool :=
  if fixed then q =? bound else q <=? bound.
Definition size_allows (lo hi q : Z) : bool := (lo <=? q) && (q <=? hi).

(** static length of a variable-size SEQUENCE OF inside an extension addition
    (get_encoded_sequence_of_lengths): [1; COUNTLEN; len * inner] *)
Definition gen_seqof_static_length (len inner : Z) (count : qexp) : Z :=
  1 + qeval len count + len * inner.

(** OCTET STRING: which form of length the generator chooses for SIZE(lo..hi):
    0 = none (fixed size), 1 = one octet (append_uint8), 2 = length determinant *)
Definition x696_octets_length_form (lo hi : Z) : Z :=
  if lo =? hi then 0 else if hi <? 128 then 1 else 2.
Definition gen_octets_length_octets (form len : Z) : list Z :=
  if form =? 0 then [] else if form =? 1 then oeop_spec (OU8 len) else oeop_spec (OLenDet len).
