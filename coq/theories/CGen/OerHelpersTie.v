(** C10 — textual tie between the model CGen/OerHelpers.v and the helper C text in
    /repo (asn1tools/source/c/oer_functions.py, utils.py): [oer_helper_norm] is regenerated on
    every run (harness/c10_helpers.py); [oer_expected_norm] is the alpha-normalised text the
    model was written against.  Any edit of a helper breaks this file; after re-validating the
    model regenerate with `PYTHONPATH=/repo:harness python harness/c10_helpers.py --accept`. *)
From Coq Require Import String List.
Import ListNotations.
From Asn1Gen Require Import OerHelpers.
Local Open Scope string_scope.

Definition oer_expected_norm : list (string * string) := [
  ("struct encoder_t", "uint8_t* buf_p; ssize_t size; ssize_t pos");
  ("struct decoder_t", "const uint8_t* buf_p; ssize_t size; ssize_t pos");
  ("enumerated_value_length", "static uint8_t enumerated_value_length(int32_t p0) { uint8_t l0; if ((p0 >= 0) && (p0 < 128)) { l0 = 0; } else { if ((p0 >= (-128)) && (p0 < 128)) { l0 = 1; } else { if ((p0 >= (-32768)) && (p0 < 32768)) { l0 = 2; } else { if ((p0 >= (-8388608)) && (p0 < 8388608)) { l0 = 3; } else { l0 = 4; } } } } return l0; }");
  ("length_determinant_length", "static uint32_t length_determinant_length(uint32_t p0) { uint32_t l0; if (p0 < 128u) { l0 = 1; } else { if (p0 < 256u) { l0 = 2; } else { if (p0 < 65536u) { l0 = 3; } else { if (p0 < 16777216u) { l0 = 4; } else { l0 = 5; } } } } return l0; }");
  ("minimum_uint_length", "static uint8_t minimum_uint_length(uint32_t p0) { uint8_t l0; if (p0 < 256u) { l0 = 1; } else { if (p0 < 65536u) { l0 = 2; } else { if (p0 < 16777216u) { l0 = 3; } else { l0 = 4; } } } return l0; }");
  ("encoder_init", "static void encoder_init(struct encoder_t* p0, uint8_t* p1, size_t p2) { p0->buf_p = p1; p0->size = ((ssize_t)p2); p0->pos = 0; }");
  ("encoder_get_result", "static ssize_t encoder_get_result(const struct encoder_t* p0) { return p0->pos; }");
  ("encoder_abort", "static void encoder_abort(struct encoder_t* p0, ssize_t p1) { if (p0->size >= 0) { p0->size = (-p1); p0->pos = (-p1); } }");
  ("encoder_alloc", "static ssize_t encoder_alloc(struct encoder_t* p0, size_t p1) { ssize_t l0; if ((p0->pos + ((ssize_t)p1)) <= p0->size) { l0 = p0->pos; p0->pos += ((ssize_t)p1); } else { l0 = (-ENOMEM); encoder_abort(p0, ENOMEM); } return l0; }");
  ("encoder_append_bytes", "static void encoder_append_bytes(struct encoder_t* p0, const uint8_t* p1, size_t p2) { ssize_t l0; l0 = encoder_alloc(p0, p2); if (l0 < 0) { return; } ((void)memcpy((&p0->buf_p[l0]), p1, p2)); }");
  ("encoder_append_uint8", "static void encoder_append_uint8(struct encoder_t* p0, uint8_t p1) { encoder_append_bytes(p0, (&p1), sizeof(p1)); }");
  ("encoder_append_uint16", "static void encoder_append_uint16(struct encoder_t* p0, uint16_t p1) { uint8_t l0[2]; l0[0] = ((uint8_t)(p1 >> 8)); l0[1] = ((uint8_t)p1); encoder_append_bytes(p0, (&l0[0]), sizeof(l0)); }");
  ("encoder_append_uint32", "static void encoder_append_uint32(struct encoder_t* p0, uint32_t p1) { uint8_t l0[4]; l0[0] = ((uint8_t)(p1 >> 24)); l0[1] = ((uint8_t)(p1 >> 16)); l0[2] = ((uint8_t)(p1 >> 8)); l0[3] = ((uint8_t)p1); encoder_append_bytes(p0, (&l0[0]), sizeof(l0)); }");
  ("encoder_append_uint64", "static void encoder_append_uint64(struct encoder_t* p0, uint64_t p1) { uint8_t l0[8]; l0[0] = ((uint8_t)(p1 >> 56)); l0[1] = ((uint8_t)(p1 >> 48)); l0[2] = ((uint8_t)(p1 >> 40)); l0[3] = ((uint8_t)(p1 >> 32)); l0[4] = ((uint8_t)(p1 >> 24)); l0[5] = ((uint8_t)(p1 >> 16)); l0[6] = ((uint8_t)(p1 >> 8)); l0[7] = ((uint8_t)p1); encoder_append_bytes(p0, (&l0[0]), sizeof(l0)); }");
  ("encoder_append_int8", "static void encoder_append_int8(struct encoder_t* p0, int8_t p1) { encoder_append_uint8(p0, ((uint8_t)p1)); }");
  ("encoder_append_int16", "static void encoder_append_int16(struct encoder_t* p0, int16_t p1) { encoder_append_uint16(p0, ((uint16_t)p1)); }");
  ("encoder_append_int32", "static void encoder_append_int32(struct encoder_t* p0, int32_t p1) { encoder_append_uint32(p0, ((uint32_t)p1)); }");
  ("encoder_append_int64", "static void encoder_append_int64(struct encoder_t* p0, int64_t p1) { encoder_append_uint64(p0, ((uint64_t)p1)); }");
  ("encoder_append_long_uint", "static void encoder_append_long_uint(struct encoder_t* p0, uint64_t p1, uint8_t p2) { const uint8_t* l0 = ((const uint8_t*)(&p1)); uint8_t l1[8]; for (uint32_t l2 = 0; (l2 < p2); l2++) { l1[((p2 - l2) - 1)] = (*l0++); } encoder_append_bytes(p0, l1, p2); }");
  ("encoder_append_uint", "static void encoder_append_uint(struct encoder_t* p0, uint32_t p1, uint8_t p2) { switch p2 { case 1: encoder_append_uint8(p0, ((uint8_t)p1)); break; case 2: encoder_append_uint16(p0, ((uint16_t)p1)); break; case 3: encoder_append_uint8(p0, ((uint8_t)(p1 >> 16))); encoder_append_uint16(p0, ((uint16_t)p1)); break; default: encoder_append_uint32(p0, p1); break; } }");
  ("encoder_append_int", "static void encoder_append_int(struct encoder_t* p0, int32_t p1, uint8_t p2) { switch p2 { case 1: encoder_append_int8(p0, ((int8_t)p1)); break; case 2: encoder_append_int16(p0, ((int16_t)p1)); break; case 3: encoder_append_uint8(p0, ((uint8_t)(((uint32_t)p1) >> 16))); encoder_append_int16(p0, ((int16_t)p1)); break; default: encoder_append_int32(p0, p1); break; } }");
  ("encoder_append_float", "static void encoder_append_float(struct encoder_t* p0, float p1) { uint32_t l0; ((void)memcpy((&l0), (&p1), sizeof(l0))); encoder_append_uint32(p0, l0); }");
  ("encoder_append_double", "static void encoder_append_double(struct encoder_t* p0, double p1) { uint64_t l0; ((void)memcpy((&l0), (&p1), sizeof(l0))); encoder_append_uint64(p0, l0); }");
  ("encoder_append_bool", "static void encoder_append_bool(struct encoder_t* p0, bool p1) { encoder_append_uint8(p0, (p1 ? 255u : 0u)); }");
  ("encoder_append_length_determinant", "static void encoder_append_length_determinant(struct encoder_t* p0, uint32_t p1) { if (p1 < 128u) { encoder_append_int8(p0, ((int8_t)p1)); } else { if (p1 < 256u) { encoder_append_uint8(p0, 129u); encoder_append_uint8(p0, ((uint8_t)p1)); } else { if (p1 < 65536u) { encoder_append_uint8(p0, 130u); encoder_append_uint16(p0, ((uint16_t)p1)); } else { if (p1 < 16777216u) { encoder_append_uint32(p0, (p1 | (131u << 24u))); } else { encoder_append_uint8(p0, 132u); encoder_append_uint32(p0, p1); } } } } }");
  ("decoder_init", "static void decoder_init(struct decoder_t* p0, const uint8_t* p1, size_t p2) { p0->buf_p = p1; p0->size = ((ssize_t)p2); p0->pos = 0; }");
  ("decoder_get_result", "static ssize_t decoder_get_result(const struct decoder_t* p0) { return p0->pos; }");
  ("decoder_abort", "static void decoder_abort(struct decoder_t* p0, ssize_t p1) { if (p0->size >= 0) { p0->size = (-p1); p0->pos = (-p1); } }");
  ("decoder_free", "static ssize_t decoder_free(struct decoder_t* p0, size_t p1) { ssize_t l0; if ((p0->pos + ((ssize_t)p1)) <= p0->size) { l0 = p0->pos; p0->pos += ((ssize_t)p1); } else { l0 = (-EOUTOFDATA); decoder_abort(p0, EOUTOFDATA); } return l0; }");
  ("decoder_read_bytes", "static void decoder_read_bytes(struct decoder_t* p0, uint8_t* p1, size_t p2) { ssize_t l0; l0 = decoder_free(p0, p2); if (l0 >= 0) { ((void)memcpy(p1, (&p0->buf_p[l0]), p2)); } else { ((void)memset(p1, 0, p2)); } }");
  ("decoder_read_uint8", "static uint8_t decoder_read_uint8(struct decoder_t* p0) { uint8_t l0; decoder_read_bytes(p0, (&l0), sizeof(l0)); return l0; }");
  ("decoder_read_uint16", "static uint16_t decoder_read_uint16(struct decoder_t* p0) { uint8_t l0[2]; decoder_read_bytes(p0, (&l0[0]), sizeof(l0)); return ((uint16_t)((((uint16_t)l0[0]) << 8) | ((uint16_t)l0[1]))); }");
  ("decoder_read_uint32", "static uint32_t decoder_read_uint32(struct decoder_t* p0) { uint8_t l0[4]; decoder_read_bytes(p0, (&l0[0]), sizeof(l0)); return ((((((uint32_t)l0[0]) << 24) | (((uint32_t)l0[1]) << 16)) | (((uint32_t)l0[2]) << 8)) | ((uint32_t)l0[3])); }");
  ("decoder_read_uint64", "static uint64_t decoder_read_uint64(struct decoder_t* p0) { uint8_t l0[8]; decoder_read_bytes(p0, (&l0[0]), sizeof(l0)); return ((((((((((uint64_t)l0[0]) << 56) | (((uint64_t)l0[1]) << 48)) | (((uint64_t)l0[2]) << 40)) | (((uint64_t)l0[3]) << 32)) | (((uint64_t)l0[4]) << 24)) | (((uint64_t)l0[5]) << 16)) | (((uint64_t)l0[6]) << 8)) | ((uint64_t)l0[7])); }");
  ("decoder_read_int8", "static int8_t decoder_read_int8(struct decoder_t* p0) { return ((int8_t)decoder_read_uint8(p0)); }");
  ("decoder_read_int16", "static int16_t decoder_read_int16(struct decoder_t* p0) { return ((int16_t)decoder_read_uint16(p0)); }");
  ("decoder_read_int32", "static int32_t decoder_read_int32(struct decoder_t* p0) { return ((int32_t)decoder_read_uint32(p0)); }");
  ("decoder_read_int64", "static int64_t decoder_read_int64(struct decoder_t* p0) { return ((int64_t)decoder_read_uint64(p0)); }");
  ("decoder_read_long_uint", "static uint64_t decoder_read_long_uint(struct decoder_t* p0, uint8_t p1) { uint64_t l0 = 0; for (uint8_t l1 = 0; (l1 < p1); l1++) { l0 = (decoder_read_uint8(p0) | (l0 << 8)); } return l0; }");
  ("decoder_read_uint", "static uint32_t decoder_read_uint(struct decoder_t* p0, uint8_t p1) { uint32_t l0; switch p1 { case 1: l0 = decoder_read_uint8(p0); break; case 2: l0 = decoder_read_uint16(p0); break; case 3: l0 = (((uint32_t)decoder_read_uint8(p0)) << 16u); l0 |= decoder_read_uint16(p0); break; case 4: l0 = decoder_read_uint32(p0); break; default: l0 = 4294967295u; break; } return l0; }");
  ("decoder_read_int", "static int32_t decoder_read_int(struct decoder_t* p0, uint8_t p1) { int32_t l0; uint32_t l1; switch p1 { case 1: l0 = decoder_read_int8(p0); break; case 2: l0 = decoder_read_int16(p0); break; case 3: l1 = (((uint32_t)decoder_read_uint8(p0)) << 16u); l1 |= decoder_read_uint16(p0); if ((l1 & 8388608u) == 8388608u) { l1 += 4278190080u; } l0 = ((int32_t)l1); break; case 4: l0 = decoder_read_int32(p0); break; default: l0 = 2147483647; break; } return l0; }");
  ("decoder_read_float", "static float decoder_read_float(struct decoder_t* p0) { float l0; uint32_t l1; l1 = decoder_read_uint32(p0); ((void)memcpy((&l0), (&l1), sizeof(l0))); return l0; }");
  ("decoder_read_double", "static double decoder_read_double(struct decoder_t* p0) { double l0; uint64_t l1; l1 = decoder_read_uint64(p0); ((void)memcpy((&l0), (&l1), sizeof(l0))); return l0; }");
  ("decoder_read_bool", "static bool decoder_read_bool(struct decoder_t* p0) { return (decoder_read_uint8(p0) != 0u); }");
  ("decoder_read_length_determinant", "static uint32_t decoder_read_length_determinant(struct decoder_t* p0) { uint32_t l0; l0 = decoder_read_uint8(p0); if ((l0 & 128u) != 0u) { switch (l0 & 127u) { case 1: l0 = decoder_read_uint8(p0); break; case 2: l0 = decoder_read_uint16(p0); break; case 3: l0 = ((((uint32_t)decoder_read_uint8(p0)) << 16) | decoder_read_uint16(p0)); break; case 4: l0 = decoder_read_uint32(p0); break; default: l0 = 4294967295u; break; } } return l0; }");
  ("decoder_read_tag", "static uint32_t decoder_read_tag(struct decoder_t* p0) { uint32_t l0; l0 = decoder_read_uint8(p0); if ((l0 & 63u) == 63u) { do { l0 <<= 8; l0 |= ((uint32_t)decoder_read_uint8(p0)); } while ((l0 & 128u) == 128u); } return l0; }")
].

Theorem oer_helper_text_is_the_modelled_one : oer_helper_norm = oer_expected_norm.
Proof. vm_compute. reflexivity. Qed.
